import PV.Model.Parser
/-
  C06.  Model of `pymbolic.mapper.stringifier.StringifyMapper` (what `str(expr)` calls) against a
  precedence table `S : PrintPrec` (the `PREC_*` constants, regenerated from /repo).  The printer
  emits pieces: tokens and literal spaces; `render` gives the string, `toks` the token list that
  the real lexer must produce from it (checked per case by the harness).
-/
namespace PV

inductive Piece where
  | tok (t : Tok)
  | sp
  deriving Repr, DecidableEq, Inhabited

def Tok.text : Tok → String
  | .int n => toString n
  | .flt r _ _ => r
  | .imag s => s
  | .ident s => s
  | .tTrue => "True"
  | .tFalse => "False"
  | .sym s => s

def render (ps : List Piece) : String :=
  String.join (ps.map fun p => match p with | .tok t => t.text | .sp => " ")

def toks (ps : List Piece) : List Tok :=
  ps.filterMap fun p => match p with | .tok t => some t | .sp => none

inductive SErr where
  | unsupported      -- node type outside the text syntax (no claim about its printed form)
  | foreign          -- ValueError: invalid foreign object (None, str)
  deriving Repr, DecidableEq, Inhabited

abbrev Pieces := List Piece

def sy (s : String) : Piece := .tok (.sym s)

def parens (ps : Pieces) : Pieces := sy "(" :: ps ++ [sy ")"]

/-- `parenthesize_if_needed(s, enclosing_prec, my_prec)` -/
def parenIf (ps : Pieces) (enclosing my : Nat) : Pieces :=
  if enclosing > my then parens ps else ps

def joinWith (sep : Pieces) : List Pieces → Pieces
  | [] => []
  | [x] => x
  | x :: rest => x ++ sep ++ joinWith sep rest

/-- `map_constant`: `str(c)`, parenthesised when it contains a sign and the context binds tighter
than a sum -/
def constPieces (S : PrintPrec) (c : Const) (enclosing : Nat) : Except SErr Pieces :=
  match c with
  | .int n =>
    if n < 0 then
      let ps := [sy "-", .tok (.int n.natAbs)]
      pure (if enclosing > S.sum then parens ps else ps)
    else pure [.tok (.int n.toNat)]
  | .bool b => pure [.tok (if b then .tTrue else .tFalse)]
  | .flt r n d =>
    if d = 0 then throw .unsupported            -- inf / nan print as identifiers
    else
      let neg := r.startsWith "-"
      let body : Pieces := if neg then [sy "-", .tok (.flt (r.drop 1).toString (-n) d)]
                           else [.tok (.flt r n d)]
      let signed := neg || r.contains '+' || r.contains '-'
      pure (if signed && enclosing > S.sum then parens body else body)
  | .str _ => throw .foreign
  | .none => throw .foreign

def isMultiplicative : Expr → Bool
  | .nary .prod _ | .bin .quot _ _ | .bin .floordiv _ _ | .bin .rem _ _ => true
  | _ => false

def isDivision : Expr → Bool
  | .bin .quot _ _ | .bin .floordiv _ _ | .bin .rem _ _ => true
  | _ => false

/-- `rec_with_force_parens_around`: parentheses around the listed classes, on top of the
precedence rule; `all = true`: all multiplicative nodes, else only the three divisions -/
def forceWrap (all : Bool) (e : Expr) (x : Pieces) : Pieces :=
  if (if all then isMultiplicative e else isDivision e) then parens x else x

mutual
/-- `StringifyMapper.rec(expr, enclosing_prec)` -/
def strE (S : PrintPrec) : Expr → Nat → Except SErr Pieces
  | .const c, enc => constPieces S c enc
  | .var x, _ => pure [.tok (.ident x)]
  | .wildcard, _ => pure [sy "*"]
  | .call f as, _ => do
      let fp ← strE S f S.call
      let ap ← strL S as S.none
      pure (fp ++ [sy "("] ++ joinWith [sy ",", .sp] ap ++ [sy ")"])
  | .callKw f as ns vs, _ => do
      -- `args_strings` (positional, then keyword values) is built before the callee is printed
      let ap ← strL S as S.none
      let vp ← strL S vs S.none
      let fp ← strE S f S.call
      let kws := (ns.zip vp).map fun p => (.tok (.ident p.1) : Piece) :: sy "=" :: p.2
      pure (fp ++ [sy "("] ++ joinWith [sy ",", .sp] (ap ++ kws) ++ [sy ")"])
  | .subscript a (.tuple cs), enc => do
      -- `index_str` is computed before the aggregate is printed
      let ip := joinWith [sy ",", .sp] (← strL S cs S.none)
      let ap ← strE S a S.call
      pure (parenIf (ap ++ [sy "["] ++ ip ++ [sy "]"]) enc S.call)
  | .subscript a i, enc => do
      let ip ← strE S i S.none
      let ap ← strE S a S.call
      pure (parenIf (ap ++ [sy "["] ++ ip ++ [sy "]"]) enc S.call)
  | .lookup a n, enc => do
      let ap ← strE S a S.call
      pure (parenIf (ap ++ [sy ".", .tok (.ident n)]) enc S.call)
  | .nary .sum cs, enc => do
      pure (parenIf (joinWith [.sp, sy "+", .sp] (← strL S cs S.sum)) enc S.sum)
  | .nary .prod cs, enc => do
      pure (parenIf (joinWith [sy "*"] (← strForceL S false cs S.product)) enc S.product)
  | .bin .quot a b, enc => do
      let x := forceWrap true a (← strE S a S.product)
      let y := forceWrap true b (← strE S b S.product)
      pure (parenIf (x ++ [.sp, sy "/", .sp] ++ y) enc S.product)
  | .bin .floordiv a b, enc => do
      let x := forceWrap true a (← strE S a S.product)
      let y := forceWrap true b (← strE S b S.product)
      pure (parenIf (x ++ [.sp, sy "//", .sp] ++ y) enc S.product)
  | .bin .rem a b, enc => do
      let x := forceWrap true a (← strE S a S.product)
      let y := forceWrap true b (← strE S b S.product)
      pure (parenIf (x ++ [.sp, sy "%", .sp] ++ y) enc S.product)
  | .bin .pow a b, enc => do
      let x ← strE S a (S.power + 1)
      let y ← strE S b S.power
      pure (parenIf (x ++ [sy "**"] ++ y) enc S.power)
  | .bin .lshift a b, enc => do
      let x ← strE S a (S.shift + 1)
      let y ← strE S b (S.shift + 1)
      pure (parenIf (x ++ [.sp, sy "<<", .sp] ++ y) enc S.shift)
  | .bin .rshift a b, enc => do
      let x ← strE S a (S.shift + 1)
      let y ← strE S b (S.shift + 1)
      pure (parenIf (x ++ [.sp, sy ">>", .sp] ++ y) enc S.shift)
  | .un .bnot a, enc => do
      pure (parenIf (sy "~" :: (← strE S a S.unary)) enc S.unary)
  | .un .lnot a, enc => do
      pure (parenIf (sy "not" :: .sp :: (← strE S a S.unary)) enc S.unary)
  | .nary .bor cs, enc => do
      pure (parenIf (joinWith [.sp, sy "|", .sp] (← strL S cs S.bor)) enc S.bor)
  | .nary .bxor cs, enc => do
      pure (parenIf (joinWith [.sp, sy "^", .sp] (← strL S cs S.bxor)) enc S.bxor)
  | .nary .band cs, enc => do
      pure (parenIf (joinWith [.sp, sy "&", .sp] (← strL S cs S.band)) enc S.band)
  | .nary .lor cs, enc => do
      pure (parenIf (joinWith [.sp, sy "or", .sp] (← strL S cs S.lor)) enc S.lor)
  | .nary .land cs, enc => do
      pure (parenIf (joinWith [.sp, sy "and", .sp] (← strL S cs S.land)) enc S.land)
  | .cmp o a b, enc => do
      let x ← strE S a (S.comparison + 1)
      let y ← strE S b (S.comparison + 1)
      pure (parenIf (x ++ [.sp, sy o.sym, .sp] ++ y) enc S.comparison)
  | .ite c t e, enc => do
      let tp ← strE S t S.lor
      let cp ← strE S c S.lor
      let ep ← strE S e S.lor
      pure (parenIf (tp ++ [.sp, sy "if", .sp] ++ cp ++ [.sp, sy "else", .sp] ++ ep) enc S.ifp)
  | .tuple cs, _ => do
      let ps ← strL S cs S.none
      let body := joinWith [sy ",", .sp] ps
      pure (parens (if cs.length == 1 then body ++ [sy ","] else body))
  | .list cs, _ => do
      pure (sy "[" :: joinWith [sy ",", .sp] (← strL S cs S.none) ++ [sy "]"])
  | .slice cs, enc => do
      pure (parenIf (joinWith [sy ":"] (← strSliceL S cs)) enc S.none)
  | .nary .min cs, _ => do
      pure (.tok (.ident "min") :: sy "(" :: joinWith [sy ",", .sp] (← strL S cs S.none) ++ [sy ")"])
  | .nary .max cs, _ => do
      pure (.tok (.ident "max") :: sy "(" :: joinWith [sy ",", .sp] (← strL S cs S.none) ++ [sy ")"])
  | .cse c _ _, _ => do
      pure (.tok (.ident "CSE") :: sy "(" :: (← strE S c S.none) ++ [sy ")"])
  | .nan, _ => pure [.tok (.ident "NaN")]
  | .funcSym, _ => pure [.tok (.ident "FunctionSymbol")]
  | .dotWild _, _ => throw .unsupported
  | .starWild _, _ => throw .unsupported
  | .subst .., _ => throw .unsupported
  | .deriv .., _ => throw .unsupported
def strL (S : PrintPrec) : List Expr → Nat → Except SErr (List Pieces)
  | [], _ => pure []
  | c :: cs, enc => do
      let x ← strE S c enc
      let xs ← strL S cs enc
      pure (x :: xs)
/-- children of a product: `rec_with_force_parens_around` with the three divisions forced -/
def strForceL (S : PrintPrec) (all : Bool) : List Expr → Nat → Except SErr (List Pieces)
  | [], _ => pure []
  | c :: cs, enc => do
      let x ← strE S c enc
      let xs ← strForceL S all cs enc
      pure (forceWrap all c x :: xs)
/-- `map_slice` children: `None` prints as the empty string -/
def strSliceL (S : PrintPrec) : List Expr → Except SErr (List Pieces)
  | [] => pure []
  | .const .none :: cs => do
      let xs ← strSliceL S cs
      pure ([] :: xs)
  | c :: cs => do
      let x ← strE S c S.none
      let xs ← strSliceL S cs
      pure (x :: xs)
end

/-- `str(expr)` -/
def strTop (S : PrintPrec) (e : Expr) : Except SErr Pieces := strE S e S.none

/-! "once nested sums and products are flattened": splice sums into sums, products into products -/
mutual
def flattenAssoc : Expr → Expr
  | .nary .sum cs => .nary .sum (flattenInto .sum cs)
  | .nary .prod cs => .nary .prod (flattenInto .prod cs)
  | .nary o cs => .nary o (flattenAssocL cs)
  | .bin o a b => .bin o (flattenAssoc a) (flattenAssoc b)
  | .un o a => .un o (flattenAssoc a)
  | .cmp o a b => .cmp o (flattenAssoc a) (flattenAssoc b)
  | .ite c t e => .ite (flattenAssoc c) (flattenAssoc t) (flattenAssoc e)
  | .call f as => .call (flattenAssoc f) (flattenAssocL as)
  | .callKw f as ns vs => .callKw (flattenAssoc f) (flattenAssocL as) ns (flattenAssocL vs)
  | .subscript a i => .subscript (flattenAssoc a) (flattenAssoc i)
  | .lookup a n => .lookup (flattenAssoc a) n
  | .slice cs => .slice (flattenAssocL cs)
  | .tuple cs => .tuple (flattenAssocL cs)
  | .list cs => .list (flattenAssocL cs)
  | e => e
def flattenAssocL : List Expr → List Expr
  | [] => []
  | c :: cs => flattenAssoc c :: flattenAssocL cs
/-- children of an `op` node with nested `op` children spliced in place -/
def flattenInto (op : NaryOp) : List Expr → List Expr
  | [] => []
  | c :: cs =>
    match flattenAssoc c with
    | .nary o ds => if o == op then ds ++ flattenInto op cs else .nary o ds :: flattenInto op cs
    | c' => c' :: flattenInto op cs
end

end PV
