import PV.Model.Stringify
/-
  C06 (shared by C13, C14), T-gen tie.  A TABLE-DRIVEN printer.

  `extract/stringifier.py` reads, on every run, the source text of `StringifyMapper`
  (pymbolic/mapper/stringifier.py): every `map_*` handler the dispatch of `Mapper.__call__` reaches
  from a node class of the IR or from a foreign object (constants, tuples, lists), the string
  composition helpers (`format`, `join`, `join_rec`, `rec_with_force_parens_around`, `parenthesize`,
  `parenthesize_if_needed`), `__call__` (default precedence), `Mapper.map_foreign`,
  `Expression.__str__` / `make_stringifier`, and writes what the text says as plain data of the
  types below into `lean/PV/Generated/Stringifier.lean`:

    * `C06TE` / `C06TProg`: a small language of handler bodies — format templates, separators,
      which attribute is printed at which precedence constant (`PREC_X` or `PREC_X + k`), through
      `rec` or through `rec_with_force_parens_around`, the class tuple stored under
      `force_parens_around`, the own precedence handed to `parenthesize_if_needed`, conditions
      (`isinstance(expr.index, tuple)`, `len(expr) == 1`, `type(expr) is CommonSubexpression`, the
      sign test of `map_constant`), in Python's evaluation order;
    * `C06TTable`: class → handler reached, handler → body, the helper parameters, the
      foreign-object rules, the default precedence of `__call__`.

  `c06tStr T` below gives every table a meaning: it RUNS the handler bodies of `T` on a node.
  Nothing in it knows what any particular handler prints.  `PV/Properties/C06Table.lean` proves
  that the hand-written model `strE` (PV/Model/Stringify.lean) IS this interpreter applied to the
  regenerated table.

  What stays hand-written (and is tied by the correspondence streams of harness/props/c06.py):
    * how Python TEXT becomes printer PIECES: `c06tLit` (literal text of the source → tokens and
      spaces), `Const.c06tBody` (`str(c)` of an int / bool / float: sign split off, `repr` kept),
      attribute strings (`expr.name` ↦ an identifier, `expr.operator` ↦ a symbol);
    * the character facts about `str(c)` that `map_constant` tests (`Const.c06tTest`: an int has a
      `-` iff it is negative and never `+`, `(`, `)`; a float: read off its `repr`);
    * which attribute of the IR constructor carries which dataclass field (`c06tStr`; the field
      names are compared with the live dataclasses by `PV.C06.printer_ir_fields_current`).
-/
namespace PV

/-! ### The language of handler bodies -/

/-- a precedence argument: `PREC_X`, `PREC_X + k`, or the handler's own `enclosing_prec` -/
structure C06TPrec where
  name : String
  plus : Nat
  deriving Repr, DecidableEq, Inhabited

/-- one part of a format template (`"%s(%s)"`, `"{}={}"`, an f-string): literal text or a slot -/
inductive C06TPart where
  | lit (s : String)
  | hole
  deriving Repr, DecidableEq, Inhabited

/-- what a comprehension iterates over -/
inductive C06TIter where
  | field (f : String)      -- `expr.f` (a tuple of children, or a child that is itself a tuple)
  | self                    -- `expr` itself (a Python tuple / list)
  deriving Repr, DecidableEq, Inhabited

inductive C06TCmp where
  | gt | ge | lt | le
  deriving Repr, DecidableEq, Inhabited

/-- conditions of `if` statements / conditional expressions -/
inductive C06TCond where
  | precCmp (op : C06TCmp) (a b : C06TPrec)       -- `enclosing_prec > PREC_SUM`
  | isTuple (f : String)                          -- `isinstance(expr.f, tuple)`
  | lenEq (it : C06TIter) (n : Nat)               -- `len(expr) == n`
  | typeIs (cls : String)                         -- `type(expr) is cls`
  | startsWith (x lit : String)                   -- `x.startswith(lit)`   (x a local: `str(expr)`)
  | endsWith (x lit : String)                     -- `x.endswith(lit)`
  | litIn (lit x : String)                        -- `lit in x`
  | not (c : C06TCond)
  | and (a b : C06TCond)                          -- `a and b`  (b only if a)
  | or (a b : C06TCond)                           -- `a or b`   (b only unless a)
  deriving Repr, DecidableEq, Inhabited

/-- string-valued and list-of-strings-valued expressions of a handler body; `expr` is the node
being handled -/
inductive C06TE where
  | lit (s : String)                              -- a string literal
  | var (x : String)                              -- a local variable
  | strSelf (viaRepr : Bool)                      -- `str(expr)` / `repr(expr)`
  | attr (f : String)                             -- `expr.f` (a `str` attribute)
  | clsName (lower : Bool)                        -- `type(expr).__name__` [`.lower()`]
  | recF (f : String) (p : C06TPrec) (force : Bool)
        -- `self.rec(expr.f, p, …)`; `force`: through `self.rec_with_force_parens_around`
  | fmt (t : List C06TPart) (args : List C06TE)
        -- `self.format("…", a, b)`, `"…" % (a, b)`, `"…".format(a, b)`, an f-string:
        -- the arguments are evaluated left to right, then put into the slots
  | cat (a b : C06TE)                             -- `a + b`
  | join (sep : String) (xs : C06TE)              -- `sep.join(xs)` / `self.join(sep, xs)`
  | parens (a : C06TE)                            -- `self.parenthesize(a)`
  | parenIf (a : C06TE) (my : C06TPrec)
        -- `self.parenthesize_if_needed(a, enclosing_prec, my)`
  | cond (c : C06TCond) (a b : C06TE)             -- `a if c else b`
  -- list valued:
  | recEach (it : C06TIter) (p : C06TPrec) (force : Bool)
        -- `[self.rec(c, p, …) for c in it]`; `force`: `rec_with_force_parens_around` (`join_rec`)
  | recEachOpt (it : C06TIter) (p : C06TPrec) (noneLit : String)
        -- the loop of `map_slice`: `noneLit` for a `None` element, else `self.rec(c, p, …)`
  | kwEach (t : List C06TPart) (f : String) (p : C06TPrec)
        -- `[t.format(name, self.rec(v, p, …)) for name, v in expr.f.items()]`
  | zipEach (t : List C06TPart) (names vals : String) (p : C06TPrec)
        -- `t.format(name, self.rec(v, p, …)) for name, v in zip(expr.names, expr.vals)`
  | strEach (t : List C06TPart) (f : String)      -- `f"…{v}" for v in expr.f` (strings)
  | append (a b : C06TE)                          -- `tuple(a) + tuple(b)`
  deriving Repr, Inhabited

/-- handler bodies: straight-line code ending in `return` / `raise` on every path -/
inductive C06TProg where
  | ret (e : C06TE)
  | assign (x : String) (e : C06TE) (k : C06TProg)
  | setForce (raw classes : List String) (k : C06TProg)
        -- `kwargs["force_parens_around"] = (…)`: `raw` the classes as written, `classes` every
        -- node class of the IR that is an instance of one of them
  | ite (c : C06TCond) (t e : C06TProg)           -- `if c: t  else: e`
  | raise (exc : String)
  | delegate (h : String)                         -- `return self.h(expr, enclosing_prec, …)`
  deriving Repr, Inhabited

structure C06TClassEntry where
  cls : String                      -- node class
  fields : List String              -- its dataclass fields, in order
  mapperMethod : String             -- its own `mapper_method`
  handler : Option String           -- handler the dispatch reaches on `StringifyMapper`
  deriving Repr, DecidableEq, Inhabited

structure C06THandlerEntry where
  name : String
  definedIn : String
  body : C06TProg
  deriving Repr, Inhabited

/-- the string composition helpers, as read from the source -/
structure C06THelpers where
  /-- `parenthesize(s)`: the template around `s` -/
  parenthesize : List C06TPart
  /-- `parenthesize_if_needed(s, enclosing_prec, my_prec)`: the test `enclosing_prec <cmp> my_prec` -/
  parenIfCmp : C06TCmp
  /-- … and the template around `s` when it holds (else `s`) -/
  parenIfWrap : List C06TPart
  /-- `rec_with_force_parens_around`: the keyword it pops from `kwargs` -/
  forceKw : String
  /-- … its default (the classes forced when a handler did not set it) -/
  forceDefault : List String
  /-- … the template around the result when `isinstance(expr, force_parens_around)` -/
  forceWrap : List C06TPart
  deriving Repr, DecidableEq, Inhabited

structure C06TTable where
  mapper : String
  classes : List C06TClassEntry
  handlers : List C06THandlerEntry
  /-- handlers no node class of the model reaches and whose body is outside the handler language
  (name, reason) -/
  unmodelled : List (String × String)
  helpers : C06THelpers
  /-- `Mapper.map_foreign`: the `isinstance` chain, in order: (test, handler) -/
  foreign : List (String × String)
  /-- exception raised when no rule of `foreign` applies -/
  foreignElse : String
  /-- which Python types of constants are instances of `VALID_CONSTANT_CLASSES` -/
  constKinds : List String
  /-- default of the `prec` parameter of `StringifyMapper.__call__` -/
  callDefaultPrec : C06TPrec
  /-- `Expression.__str__`: class returned by `make_stringifier`, precedence passed -/
  strEntry : String × C06TPrec
  /-- class whose `__call__` is `rec` -/
  recOwner : String
  /-- every string literal of the handler bodies and helper templates -/
  literals : List String
  deriving Repr, Inhabited

/-! ### Python text → printer pieces (hand-written) -/

def c06tIsWord (c : Char) : Bool := c.isAlphanum || c == '_'

/-- words the printer model emits as symbols (keywords of the text syntax) -/
def c06tKeywords : List String := ["not", "if", "else", "or", "and"]

/-- two-character operators -/
def c06tSyms2 : List (Char × Char) :=
  [('*', '*'), ('/', '/'), ('<', '<'), ('>', '>'), ('<', '='), ('>', '='), ('=', '='), ('!', '=')]

def c06tWord (w : List Char) : Pieces :=
  if w.isEmpty then [] else
    let s := String.ofList w.reverse
    [if c06tKeywords.contains s then sy s else .tok (.ident s)]

/-- literal text of the source as pieces: a space is a space piece, a run of word characters an
identifier (or keyword symbol), anything else an operator symbol (two-character operators
first).  `w`: the word being read, reversed. -/
def c06tLex : Nat → List Char → List Char → Option Pieces
  | 0, _, _ => none
  | _, w, [] => some (c06tWord w)
  | f + 1, w, c :: cs =>
    if c06tIsWord c then c06tLex f (c :: w) cs
    else if c == ' ' then (c06tLex f [] cs).map fun r => c06tWord w ++ Piece.sp :: r
    else match cs with
      | d :: ds =>
        if c06tSyms2.contains (c, d) then
          (c06tLex f [] ds).map fun r => c06tWord w ++ sy (String.ofList [c, d]) :: r
        else (c06tLex f [] cs).map fun r => c06tWord w ++ sy (String.ofList [c]) :: r
      | [] => some (c06tWord w ++ [sy (String.ofList [c])])

def c06tLit (s : String) : Option Pieces := c06tLex (s.length + 1) [] s.toList

def Const.c06tKind : Const → String
  | .int _ => "int"
  | .bool _ => "bool"
  | .flt .. => "float"
  | .str _ => "str"
  | .none => "NoneType"

/-- `str(c)` (= `repr(c)`) of a constant as pieces: the sign is a token of its own; inf / nan
print as identifiers the model makes no claim about -/
def Const.c06tBody : Const → Except SErr Pieces
  | .int n => pure (if n < 0 then [sy "-", .tok (.int n.natAbs)] else [.tok (.int n.toNat)])
  | .bool b => pure [.tok (if b then .tTrue else .tFalse)]
  | .flt r n d =>
    if d = 0 then throw .unsupported
    else pure (if r.startsWith "-" then [sy "-", .tok (.flt (r.drop 1).toString (-n) d)]
               else [.tok (.flt r n d)])
  | .str _ => throw .foreign
  | .none => throw .foreign

inductive C06TTextOp where
  | starts | ends | contains
  deriving Repr, DecidableEq, Inhabited

/-- the character tests `map_constant` performs on `str(c)`, for the four one-character strings
it uses; anything else is outside the model -/
def Const.c06tTest (c : Const) (op : C06TTextOp) (lit : String) : Option Bool :=
  match c, op, lit with
  | .int _, .starts, "(" => some false
  | .int _, .ends, ")" => some false
  | .int n, .contains, "-" => some (decide (n < 0))
  | .int _, .contains, "+" => some false
  | .bool _, .starts, "(" => some false
  | .bool _, .ends, ")" => some false
  | .bool _, .contains, "-" => some false
  | .bool _, .contains, "+" => some false
  | .flt .., .starts, "(" => some false
  | .flt .., .ends, ")" => some false
  | .flt r _ _, .contains, "-" => some (r.startsWith "-" || r.contains '-')
  | .flt r _ _, .contains, "+" => some (r.contains '+')
  | _, _, _ => Option.none

/-! ### A node as the handler sees it -/

/-- a child object: its Python class and the suspended `self.rec(child, prec)` -/
structure C06TChild where
  cls : String
  run : Nat → Except SErr Pieces

inductive C06TField where
  /-- an expression-valued attribute; `elems`: its items when it is a tuple -/
  | node (c : C06TChild) (elems : Option (List C06TChild))
  | nodes (cs : List C06TChild)
  | text (ps : Pieces)
  | texts (pss : List Pieces)
  | kw (names : List Pieces) (cs : List C06TChild)

structure C06TCtx where
  /-- class of the node -/
  cls : String
  /-- `enclosing_prec` -/
  enc : Nat
  /-- the node as a constant -/
  selfConst : Option Const
  /-- its items when the node is a Python tuple / list -/
  selfItems : Option (List C06TChild)
  fields : List (String × C06TField)

inductive C06TVal where
  | str (ps : Pieces)
  | strs (pss : List Pieces)
  | ctext (c : Const)          -- `str(expr)` of a constant, not yet split into pieces

def c06tAssoc {α} (k : String) : List (String × α) → Option α
  | [] => none
  | (n, v) :: rest => if n = k then some v else c06tAssoc k rest

/-- a malformed table (unknown name, wrong kind of value, template with the wrong number of
slots): the interpreter makes no claim -/
def c06tBad {α} : Except SErr α := throw .unsupported

def c06tOpt {α} : Option α → Except SErr α
  | some a => pure a
  | none => c06tBad

def C06TVal.pieces : C06TVal → Except SErr Pieces
  | .str ps => pure ps
  | .ctext c => c.c06tBody
  | .strs _ => c06tBad

def C06TVal.list : C06TVal → Except SErr (List Pieces)
  | .strs pss => pure pss
  | _ => c06tBad

def c06tPrecBase (S : PrintPrec) (enc : Nat) : String → Option Nat
  | "enclosing_prec" => some enc
  | "PREC_CALL" => some S.call
  | "PREC_POWER" => some S.power
  | "PREC_UNARY" => some S.unary
  | "PREC_PRODUCT" => some S.product
  | "PREC_SUM" => some S.sum
  | "PREC_SHIFT" => some S.shift
  | "PREC_BITWISE_AND" => some S.band
  | "PREC_BITWISE_XOR" => some S.bxor
  | "PREC_BITWISE_OR" => some S.bor
  | "PREC_COMPARISON" => some S.comparison
  | "PREC_LOGICAL_AND" => some S.land
  | "PREC_LOGICAL_OR" => some S.lor
  | "PREC_IF" => some S.ifp
  | "PREC_NONE" => some S.none
  | _ => none

def c06tPrec (S : PrintPrec) (enc : Nat) (p : C06TPrec) : Except SErr Nat :=
  match c06tPrecBase S enc p.name with
  | some n => pure (n + p.plus)
  | none => c06tBad

def C06TCmp.holds : C06TCmp → Nat → Nat → Bool
  | .gt, a, b => decide (a > b)
  | .ge, a, b => decide (a ≥ b)
  | .lt, a, b => decide (a < b)
  | .le, a, b => decide (a ≤ b)

/-- put the arguments into the slots of a template, left to right (built as a left-nested
concatenation); too few or too many arguments, or text that is not in the printer's alphabet:
no claim -/
def c06tFill : List C06TPart → List Pieces → Pieces → Except SErr Pieces
  | [], [], acc => pure acc
  | [], _ :: _, _ => c06tBad
  | .lit s :: t, args, acc =>
    match c06tLit s with
    | some ps => c06tFill t args (acc ++ ps)
    | none => c06tBad
  | .hole :: _, [], _ => c06tBad
  | .hole :: t, a :: args, acc => c06tFill t args (acc ++ a)

/-- `sep.join(xs)` -/
def c06tJoin (sep : String) (xs : List Pieces) : Except SErr Pieces :=
  match c06tLit sep with
  | some sp => pure (joinWith sp xs)
  | none => c06tBad

def C06TCtx.items (ctx : C06TCtx) : C06TIter → Except SErr (List C06TChild)
  | .self => c06tOpt ctx.selfItems
  | .field f => match c06tAssoc f ctx.fields with
    | some (.nodes cs) => pure cs
    | some (.node _ (some cs)) => pure cs
    | _ => c06tBad

/-- `rec_with_force_parens_around(child, prec)`: `fp` is the class tuple found under the keyword
(the default when the handler did not set one) -/
def c06tRecForce (H : C06THelpers) (fp : List String) (c : C06TChild) (p : Nat) :
    Except SErr Pieces := do
  let r ← c.run p
  let w ← c06tFill H.forceWrap [r] []
  pure (if fp.contains c.cls then w else r)

/-- every child printed at `p`, left to right -/
def c06tRunAll (H : C06THelpers) (fp : Option (List String)) :
    List C06TChild → Nat → Except SErr (List Pieces)
  | [], _ => pure []
  | c :: cs, p => do
      let x ← match fp with
        | none => c.run p
        | some fp => c06tRecForce H fp c p
      let xs ← c06tRunAll H fp cs p
      pure (x :: xs)

/-- the loop of `map_slice` -/
def c06tRunAllOpt (noneLit : Pieces) : List C06TChild → Nat → Except SErr (List Pieces)
  | [], _ => pure []
  | c :: cs, p =>
    if c.cls = "NoneType" then do
      let xs ← c06tRunAllOpt noneLit cs p
      pure (noneLit :: xs)
    else do
      let x ← c.run p
      let xs ← c06tRunAllOpt noneLit cs p
      pure (x :: xs)

/-- `t.format(name, value)` for every pair -/
def c06tFillPairs (t : List C06TPart) : List (Pieces × Pieces) → Except SErr (List Pieces)
  | [] => pure []
  | (n, v) :: rest => do
      let x ← c06tFill t [n, v] []
      let xs ← c06tFillPairs t rest
      pure (x :: xs)

def c06tFillEach (t : List C06TPart) : List Pieces → Except SErr (List Pieces)
  | [] => pure []
  | v :: rest => do
      let x ← c06tFill t [v] []
      let xs ← c06tFillEach t rest
      pure (x :: xs)

/-! ### Running a handler body -/

abbrev C06TLoc := List (String × C06TVal)

def c06tEvalCond (S : PrintPrec) (ctx : C06TCtx) (loc : C06TLoc) : C06TCond → Except SErr Bool
  | .precCmp op a b => do
      let x ← c06tPrec S ctx.enc a
      let y ← c06tPrec S ctx.enc b
      pure (op.holds x y)
  | .isTuple f => match c06tAssoc f ctx.fields with
    | some (.node c _) => pure (c.cls == "tuple")
    | _ => c06tBad
  | .lenEq it n => do
      let cs ← ctx.items it
      pure (cs.length == n)
  | .typeIs cls => pure (ctx.cls == cls)
  | .startsWith x lit => match c06tAssoc x loc with
    | some (.ctext c) => c06tOpt (c.c06tTest .starts lit)
    | _ => c06tBad
  | .endsWith x lit => match c06tAssoc x loc with
    | some (.ctext c) => c06tOpt (c.c06tTest .ends lit)
    | _ => c06tBad
  | .litIn lit x => match c06tAssoc x loc with
    | some (.ctext c) => c06tOpt (c.c06tTest .contains lit)
    | _ => c06tBad
  | .not c => do
      let b ← c06tEvalCond S ctx loc c
      pure (!b)
  | .and a b => do
      let x ← c06tEvalCond S ctx loc a
      if x then c06tEvalCond S ctx loc b else pure false
  | .or a b => do
      let x ← c06tEvalCond S ctx loc a
      if x then pure true else c06tEvalCond S ctx loc b

mutual
/-- expressions, operands evaluated in Python's order (left to right).  `fp`: the class tuple the
handler stored under `force_parens_around` (`none`: not set) -/
def c06tEvalE (H : C06THelpers) (S : PrintPrec) (ctx : C06TCtx) (fp : Option (List String))
    (loc : C06TLoc) : C06TE → Except SErr C06TVal
  | .lit s => do
      let ps ← c06tOpt (c06tLit s)
      pure (.str ps)
  | .var x => c06tOpt (c06tAssoc x loc)
  | .strSelf _ => match ctx.selfConst with
    | some c => pure (.ctext c)
    | none => c06tBad
  | .attr f => match c06tAssoc f ctx.fields with
    | some (.text ps) => pure (.str ps)
    | _ => c06tBad
  | .clsName lower =>
      let n := if lower then String.ofList (ctx.cls.toList.map Char.toLower) else ctx.cls
      pure (.str [.tok (.ident n)])
  | .recF f p force => match c06tAssoc f ctx.fields with
    | some (.node c _) => do
        let pv ← c06tPrec S ctx.enc p
        let r ← if force then c06tRecForce H (fp.getD H.forceDefault) c pv else c.run pv
        pure (.str r)
    | _ => c06tBad
  | .fmt t args => do
      let as ← c06tEvalArgs H S ctx fp loc args
      let r ← c06tFill t as []
      pure (.str r)
  | .cat a b => do
      let x ← (← c06tEvalE H S ctx fp loc a).pieces
      let y ← (← c06tEvalE H S ctx fp loc b).pieces
      pure (.str (x ++ y))
  | .join sep xs => do
      let l ← (← c06tEvalE H S ctx fp loc xs).list
      let r ← c06tJoin sep l
      pure (.str r)
  | .parens a => do
      let x ← (← c06tEvalE H S ctx fp loc a).pieces
      let r ← c06tFill H.parenthesize [x] []
      pure (.str r)
  | .parenIf a my => do
      let x ← (← c06tEvalE H S ctx fp loc a).pieces
      let m ← c06tPrec S ctx.enc my
      let w ← c06tFill H.parenIfWrap [x] []
      pure (.str (if H.parenIfCmp.holds ctx.enc m then w else x))
  | .cond c a b => do
      if ← c06tEvalCond S ctx loc c then c06tEvalE H S ctx fp loc a
      else c06tEvalE H S ctx fp loc b
  | .recEach it p force => do
      let cs ← ctx.items it
      let pv ← c06tPrec S ctx.enc p
      let rs ← c06tRunAll H (if force then some (fp.getD H.forceDefault) else none) cs pv
      pure (.strs rs)
  | .recEachOpt it p noneLit => do
      let cs ← ctx.items it
      let pv ← c06tPrec S ctx.enc p
      let nl ← c06tOpt (c06tLit noneLit)
      let rs ← c06tRunAllOpt nl cs pv
      pure (.strs rs)
  | .kwEach t f p => match c06tAssoc f ctx.fields with
    | some (.kw names cs) => do
        let pv ← c06tPrec S ctx.enc p
        let rs ← c06tRunAll H none cs pv
        let xs ← c06tFillPairs t (names.zip rs)
        pure (.strs xs)
    | _ => c06tBad
  | .zipEach t nf vf p =>
    match c06tAssoc nf ctx.fields, c06tAssoc vf ctx.fields with
    | some (.texts names), some (.nodes cs) => do
        let pv ← c06tPrec S ctx.enc p
        let rs ← c06tRunAll H none cs pv
        let xs ← c06tFillPairs t (names.zip rs)
        pure (.strs xs)
    | _, _ => c06tBad
  | .strEach t f => match c06tAssoc f ctx.fields with
    | some (.texts vs) => do
        let xs ← c06tFillEach t vs
        pure (.strs xs)
    | _ => c06tBad
  | .append a b => do
      let x ← (← c06tEvalE H S ctx fp loc a).list
      let y ← (← c06tEvalE H S ctx fp loc b).list
      pure (.strs (x ++ y))
/-- the arguments of a format call, each a string -/
def c06tEvalArgs (H : C06THelpers) (S : PrintPrec) (ctx : C06TCtx) (fp : Option (List String))
    (loc : C06TLoc) : List C06TE → Except SErr (List Pieces)
  | [] => pure []
  | a :: as => do
      let x ← (← c06tEvalE H S ctx fp loc a).pieces
      let xs ← c06tEvalArgs H S ctx fp loc as
      pure (x :: xs)
end

def c06tErrOfExc : String → SErr
  | "ValueError" => .foreign
  | _ => .unsupported

/-- statements; `callH` runs another handler of the table on the same node -/
def c06tEvalP (H : C06THelpers) (S : PrintPrec) (ctx : C06TCtx)
    (callH : String → Except SErr Pieces) :
    Option (List String) → C06TLoc → C06TProg → Except SErr Pieces
  | fp, loc, .ret e => do (← c06tEvalE H S ctx fp loc e).pieces
  | fp, loc, .assign x e k => do
      let v ← c06tEvalE H S ctx fp loc e
      c06tEvalP H S ctx callH fp ((x, v) :: loc) k
  | _, loc, .setForce _ classes k => c06tEvalP H S ctx callH (some classes) loc k
  | fp, loc, .ite c t e => do
      if ← c06tEvalCond S ctx loc c then c06tEvalP H S ctx callH fp loc t
      else c06tEvalP H S ctx callH fp loc e
  | _, _, .raise _ => throw .unsupported
  | _, _, .delegate h => callH h

def C06TTable.handlerBody (T : C06TTable) (h : String) : Option C06TProg :=
  match T.handlers.find? (fun e => e.name == h) with
  | some e => some e.body
  | none => none

def C06TTable.classHandler (T : C06TTable) (cls : String) : Option (Option String) :=
  match T.classes.find? (fun e => e.cls == cls) with
  | some e => some e.handler
  | none => none

/-- run handler `h` of the table on the node `ctx` (delegations followed up to `fuel` deep) -/
def c06tRunHandler (T : C06TTable) (S : PrintPrec) (ctx : C06TCtx) : Nat → String → Except SErr Pieces
  | 0, _ => c06tBad
  | fuel + 1, h => match T.handlerBody h with
    | none => c06tBad
    | some p => c06tEvalP T.helpers S ctx (c06tRunHandler T S ctx fuel) none [] p

/-- dispatch of a pymbolic node of class `cls` -/
def c06tClass (T : C06TTable) (S : PrintPrec) (cls : String) (enc : Nat)
    (fields : List (String × C06TField)) : Except SErr Pieces :=
  match T.classHandler cls with
  | none => c06tBad
  | some none => c06tBad                   -- `handle_unsupported_expression`
  | some (some h) =>
    c06tRunHandler T S { cls, enc, selfConst := none, selfItems := none, fields } 3 h

/-- first rule of `map_foreign` that applies to an object of Python type `kind` -/
def c06tForeignRule (constKinds : List String) (kind : String) :
    List (String × String) → Option String
  | [] => none
  | (test, h) :: rest =>
    let hit := match test with
      | "constant" => constKinds.contains kind
      | "list" => kind == "list"
      | "tuple" => kind == "tuple"
      | _ => false                           -- numpy arrays do not exist in the model
    if hit then some h else c06tForeignRule constKinds kind rest

/-- dispatch of a non-pymbolic object -/
def c06tForeign (T : C06TTable) (S : PrintPrec) (kind : String) (enc : Nat)
    (selfConst : Option Const) (selfItems : Option (List C06TChild)) : Except SErr Pieces :=
  match c06tForeignRule T.constKinds kind T.foreign with
  | none => throw (c06tErrOfExc T.foreignElse)
  | some h => c06tRunHandler T S { cls := kind, enc, selfConst, selfItems, fields := [] } 3 h

/-! ### The node classes of the IR: class name, attribute names -/

/-- Python class of the object an IR node stands for -/
def Expr.c06tCls : Expr → String
  | .const c => c.c06tKind
  | .var _ => "Variable"
  | .nary o _ => o.name
  | .bin o _ _ => o.name
  | .un o _ => o.name
  | .cmp .. => "Comparison"
  | .ite .. => "If"
  | .call .. => "Call"
  | .callKw .. => "CallWithKwargs"
  | .subscript .. => "Subscript"
  | .lookup .. => "Lookup"
  | .cse .. => "CommonSubexpression"
  | .subst .. => "Substitution"
  | .deriv .. => "Derivative"
  | .slice _ => "Slice"
  | .nan => "NaN"
  | .wildcard => "Wildcard"
  | .dotWild _ => "DotWildcard"
  | .starWild _ => "StarWildcard"
  | .funcSym => "FunctionSymbol"
  | .tuple _ => "tuple"
  | .list _ => "list"

/-- attribute names of the two-operand classes, in the order of the constructor arguments -/
def BinOp.c06tFields : BinOp → String × String
  | .quot | .floordiv | .rem => ("numerator", "denominator")
  | .pow => ("base", "exponent")
  | .lshift | .rshift => ("shiftee", "shift")

/-- class name and attribute names the IR assumes for every node class; compared with the live
dataclasses by `PV.C06.printer_ir_fields_current` -/
def c06tIRFields : List (String × List String) :=
  [("Variable", ["name"]),
   ("Sum", ["children"]), ("Product", ["children"]), ("BitwiseOr", ["children"]),
   ("BitwiseXor", ["children"]), ("BitwiseAnd", ["children"]), ("LogicalOr", ["children"]),
   ("LogicalAnd", ["children"]), ("Min", ["children"]), ("Max", ["children"]),
   ("Quotient", ["numerator", "denominator"]), ("FloorDiv", ["numerator", "denominator"]),
   ("Remainder", ["numerator", "denominator"]), ("Power", ["base", "exponent"]),
   ("LeftShift", ["shiftee", "shift"]), ("RightShift", ["shiftee", "shift"]),
   ("BitwiseNot", ["child"]), ("LogicalNot", ["child"]),
   ("Comparison", ["left", "operator", "right"]),
   ("If", ["condition", "then", "else_"]),
   ("Call", ["function", "parameters"]),
   ("CallWithKwargs", ["function", "parameters", "kw_parameters"]),
   ("Subscript", ["aggregate", "index"]), ("Lookup", ["aggregate", "name"]),
   ("CommonSubexpression", ["child", "prefix", "scope"]),
   ("Substitution", ["child", "variables", "values"]),
   ("Derivative", ["child", "variables"]),
   ("Slice", ["children"]),
   ("NaN", ["data_type"]),
   ("Wildcard", []), ("DotWildcard", ["name"]), ("StarWildcard", ["name"]),
   ("FunctionSymbol", [])]

def c06tIdents (ns : List String) : List Pieces := ns.map fun n => [Piece.tok (.ident n)]

/-! ### The table-driven printer -/

mutual
/-- `StringifyMapper.rec(expr, enclosing_prec)` as the table prescribes it: the handler the table
assigns to the node, run on the node.  `lim`: the limits of the hand-written model `strE`, which
makes no claim about the printed form of `Substitution` and `Derivative` nodes (they are outside
the text syntax the parser reads); with `lim = false` their handlers run like all others. -/
def c06tStr (T : C06TTable) (lim : Bool) (S : PrintPrec) : Expr → Nat → Except SErr Pieces
  | .const c, enc => c06tForeign T S c.c06tKind enc (some c) none
  | .var x, enc => c06tClass T S "Variable" enc [("name", .text [.tok (.ident x)])]
  | .nary o cs, enc =>
      c06tClass T S o.name enc [("children", .nodes (c06tKids T lim S cs))]
  | .bin o a b, enc =>
      c06tClass T S o.name enc
        [(o.c06tFields.1, .node ⟨a.c06tCls, c06tStr T lim S a⟩ none),
         (o.c06tFields.2, .node ⟨b.c06tCls, c06tStr T lim S b⟩ none)]
  | .un o a, enc =>
      c06tClass T S o.name enc [("child", .node ⟨a.c06tCls, c06tStr T lim S a⟩ none)]
  | .cmp o a b, enc =>
      c06tClass T S "Comparison" enc
        [("left", .node ⟨a.c06tCls, c06tStr T lim S a⟩ none),
         ("operator", .text [sy o.sym]),
         ("right", .node ⟨b.c06tCls, c06tStr T lim S b⟩ none)]
  | .ite c t e, enc =>
      c06tClass T S "If" enc
        [("condition", .node ⟨c.c06tCls, c06tStr T lim S c⟩ none),
         ("then", .node ⟨t.c06tCls, c06tStr T lim S t⟩ none),
         ("else_", .node ⟨e.c06tCls, c06tStr T lim S e⟩ none)]
  | .call f as, enc =>
      c06tClass T S "Call" enc
        [("function", .node ⟨f.c06tCls, c06tStr T lim S f⟩ none),
         ("parameters", .nodes (c06tKids T lim S as))]
  | .callKw f as ns vs, enc =>
      c06tClass T S "CallWithKwargs" enc
        [("function", .node ⟨f.c06tCls, c06tStr T lim S f⟩ none),
         ("parameters", .nodes (c06tKids T lim S as)),
         ("kw_parameters", .kw (c06tIdents ns) (c06tKids T lim S vs))]
  | .subscript a i@(.tuple cs), enc =>
      c06tClass T S "Subscript" enc
        [("aggregate", .node ⟨a.c06tCls, c06tStr T lim S a⟩ none),
         ("index", .node ⟨"tuple", c06tStr T lim S i⟩ (some (c06tKids T lim S cs)))]
  | .subscript a i, enc =>
      c06tClass T S "Subscript" enc
        [("aggregate", .node ⟨a.c06tCls, c06tStr T lim S a⟩ none),
         ("index", .node ⟨i.c06tCls, c06tStr T lim S i⟩ none)]
  | .lookup a n, enc =>
      c06tClass T S "Lookup" enc
        [("aggregate", .node ⟨a.c06tCls, c06tStr T lim S a⟩ none),
         ("name", .text [.tok (.ident n)])]
  | .cse c _ _, enc =>
      c06tClass T S "CommonSubexpression" enc
        [("child", .node ⟨c.c06tCls, c06tStr T lim S c⟩ none)]
  | .subst c vars vals, enc =>
      if lim then throw .unsupported else
      c06tClass T S "Substitution" enc
        [("child", .node ⟨c.c06tCls, c06tStr T lim S c⟩ none),
         ("variables", .texts (c06tIdents vars)),
         ("values", .nodes (c06tKids T lim S vals))]
  | .deriv c vars, enc =>
      if lim then throw .unsupported else
      c06tClass T S "Derivative" enc
        [("child", .node ⟨c.c06tCls, c06tStr T lim S c⟩ none),
         ("variables", .texts (c06tIdents vars))]
  | .slice cs, enc =>
      c06tClass T S "Slice" enc [("children", .nodes (c06tKids T lim S cs))]
  | .nan, enc => c06tClass T S "NaN" enc []
  | .wildcard, enc => c06tClass T S "Wildcard" enc []
  | .dotWild n, enc => c06tClass T S "DotWildcard" enc [("name", .text [.tok (.ident n)])]
  | .starWild n, enc => c06tClass T S "StarWildcard" enc [("name", .text [.tok (.ident n)])]
  | .funcSym, enc => c06tClass T S "FunctionSymbol" enc []
  | .tuple cs, enc => c06tForeign T S "tuple" enc none (some (c06tKids T lim S cs))
  | .list cs, enc => c06tForeign T S "list" enc none (some (c06tKids T lim S cs))
/-- the children of a tuple-valued attribute: class and suspended recursive call of each -/
def c06tKids (T : C06TTable) (lim : Bool) (S : PrintPrec) : List Expr → List C06TChild
  | [] => []
  | c :: cs => ⟨c.c06tCls, c06tStr T lim S c⟩ :: c06tKids T lim S cs
end

/-- `StringifyMapper()(expr)`: the default precedence of `__call__` -/
def c06tStrTop (T : C06TTable) (lim : Bool) (S : PrintPrec) (e : Expr) : Except SErr Pieces :=
  match c06tPrec S 0 T.callDefaultPrec with
  | .ok p => c06tStr T lim S e p
  | .error err => .error err

end PV
