import PV.Model.Stringify
import PV.Model.Traverse
import PV.Model.Eval
/-
  C13.  Models of the four translation paths out of / into Python code.

    * `strG`, `compileStr` : `pymbolic.compiler.CompileMapper` = the generic stringifier with its
                             own constant printer (`repr` + the base class's sign parenthesisation).  `strG` is
                             the stringifier parameterised by the constant printer; `strG S
                             (constPieces S) = strE S` is proved in PV/Proofs/Compile.lean, so the
                             copy below is the C06 model (tied to the real printer by
                             harness/props/c06.py).
    * `argOrder`, `compileModel`, `getstate`, `setstate` :
                             `CompiledExpression._compile/__getstate__/__setstate__`.
    * `PyAst`              : the part of Python's `ast` the two interop mappers speak.
    * `toAstC`             : `PymbolicToASTMapper` as coded: a `CachedMapper` (memo table keyed by
                             `(type(expr), expr)` under Python `==`).
    * `toAst`              : the same handlers without the memo table (what the theorems are about).
    * `fromAst`            : `ASTToPymbolic`.
    * `denAst`             : the meaning CPython gives such an AST (operators of PyNum.lean).
-/
namespace PV

/-! ## 1. `CompileMapper` -/

/-- `CompileMapper.map_constant` BEFORE the repair (property=C13, `compile:Power>negative-int`):
`repr(c)`, never parenthesised.  Kept only for the witness `PV.C13.compile_neg_base_source_cex`
(what the defect was). -/
def constPiecesReprBare (c : Const) (_enclosing : Nat) : Except SErr Pieces :=
  match c with
  | .int n =>
    if n < 0 then pure [sy "-", .tok (.int n.natAbs)] else pure [.tok (.int n.toNat)]
  | .bool b => pure [.tok (if b then .tTrue else .tFalse)]
  | .flt r n d =>
    if d = 0 then throw .unsupported            -- inf / nan print as identifiers
    else if r.startsWith "-" then pure [sy "-", .tok (.flt (r.drop 1).toString (-n) d)]
    else pure [.tok (.flt r n d)]
  | .str _ => throw .foreign
  | .none => throw .foreign

/-- `CompileMapper.map_constant`: `result = repr(c)`, then the sign parenthesisation of the base
class: parenthesised when the text contains a sign and the context binds tighter than a sum
(`repr` and `str` of an int / bool / float are the same text) -/
def constPiecesRepr (S : PrintPrec) (c : Const) (enclosing : Nat) : Except SErr Pieces :=
  match c with
  | .int n =>
    if n < 0 then
      let result := [sy "-", .tok (.int n.natAbs)]
      pure (if enclosing > S.sum then parens result else result)
    else pure [.tok (.int n.toNat)]
  | .bool b => pure [.tok (if b then .tTrue else .tFalse)]
  | .flt r n d =>
    if d = 0 then throw .unsupported            -- inf / nan print as identifiers
    else
      let neg := r.startsWith "-"
      let result : Pieces := if neg then [sy "-", .tok (.flt (r.drop 1).toString (-n) d)]
                             else [.tok (.flt r n d)]
      let signed := neg || r.contains '+' || r.contains '-'
      pure (if signed && enclosing > S.sum then parens result else result)
  | .str _ => throw .foreign
  | .none => throw .foreign

/-- the operand without the `CommonSubexpression` wrappers around it -/
def peelCse : Expr → Expr
  | .cse c _ _ => peelCse c
  | e => e

/-- `rec_with_force_parens_around`: the base class decides from the node type of the operand;
`CompileMapper` (bare) first looks through the wrappers around it -/
def forceWrapG (bare all : Bool) (c : Expr) (x : Pieces) : Pieces :=
  forceWrap all (if bare then peelCse c else c) x

mutual
/-- `StringifyMapper.rec(expr, enclosing_prec)` with the constant handler `cf` (a subclass
overriding `map_constant`) and, when `bare`, the two overrides of `CompileMapper` for common
subexpressions (the wrapper is printed as its child at the enclosing precedence; the forced
parentheses look through wrappers): a copy of `strE` that differs in these places only -/
def strG (S : PrintPrec) (cf : Const → Nat → Except SErr Pieces) (bare : Bool) :
    Expr → Nat → Except SErr Pieces
  | .const c, enc => cf c enc
  | .var x, _ => pure [.tok (.ident x)]
  | .wildcard, _ => pure [sy "*"]
  | .call f as, _ => do
      let fp ← strG S cf bare f S.call
      let ap ← strGL S cf bare as S.none
      pure (fp ++ [sy "("] ++ joinWith [sy ",", .sp] ap ++ [sy ")"])
  | .callKw f as ns vs, _ => do
      -- `args_strings` (positional, then keyword values) is built before the callee is printed
      let ap ← strGL S cf bare as S.none
      let vp ← strGL S cf bare vs S.none
      let fp ← strG S cf bare f S.call
      let kws := (ns.zip vp).map fun p => (.tok (.ident p.1) : Piece) :: sy "=" :: p.2
      pure (fp ++ [sy "("] ++ joinWith [sy ",", .sp] (ap ++ kws) ++ [sy ")"])
  | .subscript a (.tuple cs), enc => do
      -- `index_str` is computed before the aggregate is printed
      let ip := joinWith [sy ",", .sp] (← strGL S cf bare cs S.none)
      let ap ← strG S cf bare a S.call
      pure (parenIf (ap ++ [sy "["] ++ ip ++ [sy "]"]) enc S.call)
  | .subscript a i, enc => do
      let ip ← strG S cf bare i S.none
      let ap ← strG S cf bare a S.call
      pure (parenIf (ap ++ [sy "["] ++ ip ++ [sy "]"]) enc S.call)
  | .lookup a n, enc => do
      let ap ← strG S cf bare a S.call
      pure (parenIf (ap ++ [sy ".", .tok (.ident n)]) enc S.call)
  | .nary .sum cs, enc => do
      pure (parenIf (joinWith [.sp, sy "+", .sp] (← strGL S cf bare cs S.sum)) enc S.sum)
  | .nary .prod cs, enc => do
      pure (parenIf (joinWith [sy "*"] (← strGForceL S cf bare false cs S.product)) enc S.product)
  | .bin .quot a b, enc => do
      let x := forceWrapG bare true a (← strG S cf bare a S.product)
      let y := forceWrapG bare true b (← strG S cf bare b S.product)
      pure (parenIf (x ++ [.sp, sy "/", .sp] ++ y) enc S.product)
  | .bin .floordiv a b, enc => do
      let x := forceWrapG bare true a (← strG S cf bare a S.product)
      let y := forceWrapG bare true b (← strG S cf bare b S.product)
      pure (parenIf (x ++ [.sp, sy "//", .sp] ++ y) enc S.product)
  | .bin .rem a b, enc => do
      let x := forceWrapG bare true a (← strG S cf bare a S.product)
      let y := forceWrapG bare true b (← strG S cf bare b S.product)
      pure (parenIf (x ++ [.sp, sy "%", .sp] ++ y) enc S.product)
  | .bin .pow a b, enc => do
      let x ← strG S cf bare a (S.power + 1)
      let y ← strG S cf bare b S.power
      pure (parenIf (x ++ [sy "**"] ++ y) enc S.power)
  | .bin .lshift a b, enc => do
      let x ← strG S cf bare a (S.shift + 1)
      let y ← strG S cf bare b (S.shift + 1)
      pure (parenIf (x ++ [.sp, sy "<<", .sp] ++ y) enc S.shift)
  | .bin .rshift a b, enc => do
      let x ← strG S cf bare a (S.shift + 1)
      let y ← strG S cf bare b (S.shift + 1)
      pure (parenIf (x ++ [.sp, sy ">>", .sp] ++ y) enc S.shift)
  | .un .bnot a, enc => do
      pure (parenIf (sy "~" :: (← strG S cf bare a S.unary)) enc S.unary)
  | .un .lnot a, enc => do
      pure (parenIf (sy "not" :: .sp :: (← strG S cf bare a S.unary)) enc S.unary)
  | .nary .bor cs, enc => do
      pure (parenIf (joinWith [.sp, sy "|", .sp] (← strGL S cf bare cs S.bor)) enc S.bor)
  | .nary .bxor cs, enc => do
      pure (parenIf (joinWith [.sp, sy "^", .sp] (← strGL S cf bare cs S.bxor)) enc S.bxor)
  | .nary .band cs, enc => do
      pure (parenIf (joinWith [.sp, sy "&", .sp] (← strGL S cf bare cs S.band)) enc S.band)
  | .nary .lor cs, enc => do
      pure (parenIf (joinWith [.sp, sy "or", .sp] (← strGL S cf bare cs S.lor)) enc S.lor)
  | .nary .land cs, enc => do
      pure (parenIf (joinWith [.sp, sy "and", .sp] (← strGL S cf bare cs S.land)) enc S.land)
  | .cmp o a b, enc => do
      let x ← strG S cf bare a (S.comparison + 1)
      let y ← strG S cf bare b (S.comparison + 1)
      pure (parenIf (x ++ [.sp, sy o.sym, .sp] ++ y) enc S.comparison)
  | .ite c t e, enc => do
      let tp ← strG S cf bare t S.lor
      let cp ← strG S cf bare c S.lor
      let ep ← strG S cf bare e S.lor
      pure (parenIf (tp ++ [.sp, sy "if", .sp] ++ cp ++ [.sp, sy "else", .sp] ++ ep) enc S.ifp)
  | .tuple cs, _ => do
      let ps ← strGL S cf bare cs S.none
      let body := joinWith [sy ",", .sp] ps
      pure (parens (if cs.length == 1 then body ++ [sy ","] else body))
  | .list cs, _ => do
      pure (sy "[" :: joinWith [sy ",", .sp] (← strGL S cf bare cs S.none) ++ [sy "]"])
  | .slice cs, enc => do
      pure (parenIf (joinWith [sy ":"] (← strGSliceL S cf bare cs)) enc S.none)
  | .nary .min cs, _ => do
      pure (.tok (.ident "min") :: sy "(" :: joinWith [sy ",", .sp] (← strGL S cf bare cs S.none) ++ [sy ")"])
  | .nary .max cs, _ => do
      pure (.tok (.ident "max") :: sy "(" :: joinWith [sy ",", .sp] (← strGL S cf bare cs S.none) ++ [sy ")"])
  | .cse c _ _, enc =>
      -- `CompileMapper.map_common_subexpression` (bare): the child at the ENCLOSING precedence;
      -- the base class: the display form `CSE(child)`
      if bare then strG S cf bare c enc
      else do
        pure (.tok (.ident "CSE") :: sy "(" :: (← strG S cf bare c S.none) ++ [sy ")"])
  | .nan, _ => pure [.tok (.ident "NaN")]
  | .funcSym, _ => pure [.tok (.ident "FunctionSymbol")]
  | .dotWild _, _ => throw .unsupported
  | .starWild _, _ => throw .unsupported
  | .subst .., _ => throw .unsupported
  | .deriv .., _ => throw .unsupported
def strGL (S : PrintPrec) (cf : Const → Nat → Except SErr Pieces) (bare : Bool) :
    List Expr → Nat → Except SErr (List Pieces)
  | [], _ => pure []
  | c :: cs, enc => do
      let x ← strG S cf bare c enc
      let xs ← strGL S cf bare cs enc
      pure (x :: xs)
def strGForceL (S : PrintPrec) (cf : Const → Nat → Except SErr Pieces) (bare : Bool) (all : Bool) :
    List Expr → Nat → Except SErr (List Pieces)
  | [], _ => pure []
  | c :: cs, enc => do
      let x ← strG S cf bare c enc
      let xs ← strGForceL S cf bare all cs enc
      pure (forceWrapG bare all c x :: xs)
def strGSliceL (S : PrintPrec) (cf : Const → Nat → Except SErr Pieces) (bare : Bool) :
    List Expr → Except SErr (List Pieces)
  | [] => pure []
  | .const .none :: cs => do
      let xs ← strGSliceL S cf bare cs
      pure ([] :: xs)
  | c :: cs => do
      let x ← strG S cf bare c S.none
      let xs ← strGSliceL S cf bare cs
      pure (x :: xs)
end

mutual
/-- the tree with every `CommonSubexpression` wrapper erased -/
def stripCse : Expr → Expr
  | .cse c _ _ => stripCse c
  | .nary o cs => .nary o (stripCseL cs)
  | .bin o a b => .bin o (stripCse a) (stripCse b)
  | .un o a => .un o (stripCse a)
  | .cmp o a b => .cmp o (stripCse a) (stripCse b)
  | .ite c t e => .ite (stripCse c) (stripCse t) (stripCse e)
  | .call f as => .call (stripCse f) (stripCseL as)
  | .callKw f as ns vs => .callKw (stripCse f) (stripCseL as) ns (stripCseL vs)
  | .subscript a i => .subscript (stripCse a) (stripCse i)
  | .lookup a n => .lookup (stripCse a) n
  | .slice cs => .slice (stripCseL cs)
  | .tuple cs => .tuple (stripCseL cs)
  | .list cs => .list (stripCseL cs)
  | e => e
def stripCseL : List Expr → List Expr
  | [] => []
  | c :: cs => stripCse c :: stripCseL cs
end

/-- `CompileMapper()(expr, PREC_NONE)` as pieces -/
def compilePieces (S : PrintPrec) (e : Expr) : Except SErr Pieces :=
  strG S (constPiecesRepr S) true e S.none

/-- the source text of the compiled expression -/
def compileStr (S : PrintPrec) (e : Expr) : Except SErr String := (compilePieces S e).map render

/-! ## 2. `CompiledExpression` -/

/-- the names `CompiledExpression.context()` (plus `numpy`) binds in the globals of the lambda -/
def contextNames : List String := ["math", "numpy"]

/-- ordered insertion (`list.sort(key=name)` on distinct names: any correct sort gives this) -/
def insertSorted (x : String) : List String → List String
  | [] => [x]
  | y :: ys => if x ≤ y then x :: y :: ys else y :: insertSorted x ys

def sortStrings : List String → List String
  | [] => []
  | x :: xs => insertSorted x (sortStrings xs)

/-- names of the `Variable`s in a dependency set -/
def varNames : List Expr → List String
  | [] => []
  | .var x :: rest => x :: varNames rest
  | _ :: rest => varNames rest

/-- `all_variables`: the listed variables, then the remaining used variables that are not context
names, sorted by name.  `used` is the dependency set in ANY iteration order. -/
def argOrder (listed : List String) (used : List Expr) : List String :=
  listed ++ sortStrings ((varNames used).filter fun v => !listed.contains v && !contextNames.contains v)

inductive CompErr where
  | foreign          -- ValueError: invalid foreign object
  | unsupported      -- a mapper has no handler for the node type
  | typeError        -- unhashable (a list inside a common subexpression)
  | noClaim          -- text outside the model (inf / nan / wildcards …)
  deriving Repr, DecidableEq, Inhabited

def CompErr.ofDep : DepErr → CompErr
  | .unsupported => .unsupported
  | .foreign => .foreign
  | .unhashable => .typeError

def CompErr.ofStr : SErr → CompErr
  | .unsupported => .noClaim
  | .foreign => .foreign

/-- `DependencyMapper(composite_leaves=False)` -/
def compileDepFlags : DepFlags := { subscripts := false, lookups := false, calls := .no, cses := false }

/-- A compiled expression: what `_compile` stores (`_Expression`, `_Variables`) and what the
`lambda` it evaluates is made of (argument names, body text). -/
structure Compiled where
  expr : Expr
  vars : List String
  args : List String
  src : String
  deriving Repr, Inhabited

/-- `CompiledExpression._compile(expression, variables)` up to the call of `eval` -/
def compileModel (S : PrintPrec) (e : Expr) (listed : List String) : Except CompErr Compiled :=
  match deps compileDepFlags e with
  | .error err => throw (CompErr.ofDep err)
  | .ok used =>
    match compileStr S e with
    | .error err => throw (CompErr.ofStr err)
    | .ok s => pure { expr := e, vars := listed, args := argOrder listed used, src := s }

/-- the text handed to `eval` -/
def Compiled.lambdaSrc (c : Compiled) : String :=
  "lambda " ++ ",".intercalate c.args ++ ": " ++ c.src

/-- `__getstate__` -/
def Compiled.getstate (c : Compiled) : Expr × List String := (c.expr, c.vars)

/-- `__setstate__`: `self._compile(*state)` -/
def setstate (S : PrintPrec) (st : Expr × List String) : Except CompErr Compiled :=
  compileModel S st.1 st.2

/-! ## 3. Python ASTs -/

inductive PyBin where
  | add | sub | mult | matmult | div | floordiv | mod | pow | lshift | rshift | bitor | bitxor | bitand
  deriving Repr, DecidableEq, Inhabited

inductive PyUn where
  | invert | not | usub | uadd
  deriving Repr, DecidableEq, Inhabited

inductive PyAst where
  | const (c : Const)                        -- ast.Constant
  | name (id : String)                       -- ast.Name
  | binop (l : PyAst) (op : PyBin) (r : PyAst)
  | unop (op : PyUn) (a : PyAst)
  | boolop (isOr : Bool) (vs : List PyAst)
  | ifexp (test body orelse : PyAst)
  | compare (l : PyAst) (ops : List CmpOp) (rs : List PyAst)
  | call (f : PyAst) (args : List PyAst) (kwNames : List String) (kwVals : List PyAst)
  | attribute (v : PyAst) (attr : String)
  | subscript (v : PyAst) (slice : PyAst)
  | tuple (elts : List PyAst)
  | list (elts : List PyAst)
  | slice (parts : List PyAst)               -- lower, upper, step (positional, `absent` = None)
  | absent
  deriving Repr, Inhabited

mutual
def PyAst.beq : PyAst → PyAst → Bool
  | .const a, .const b => a == b
  | .name a, .name b => a == b
  | .binop l o r, .binop l' o' r' => PyAst.beq l l' && o == o' && PyAst.beq r r'
  | .unop o a, .unop o' a' => o == o' && PyAst.beq a a'
  | .boolop o vs, .boolop o' vs' => o == o' && PyAst.beqL vs vs'
  | .ifexp a b c, .ifexp a' b' c' => PyAst.beq a a' && PyAst.beq b b' && PyAst.beq c c'
  | .compare l os rs, .compare l' os' rs' => PyAst.beq l l' && os == os' && PyAst.beqL rs rs'
  | .call f as ns vs, .call f' as' ns' vs' =>
      PyAst.beq f f' && PyAst.beqL as as' && ns == ns' && PyAst.beqL vs vs'
  | .attribute v a, .attribute v' a' => PyAst.beq v v' && a == a'
  | .subscript v s, .subscript v' s' => PyAst.beq v v' && PyAst.beq s s'
  | .tuple es, .tuple es' => PyAst.beqL es es'
  | .list es, .list es' => PyAst.beqL es es'
  | .slice es, .slice es' => PyAst.beqL es es'
  | .absent, .absent => true
  | _, _ => false
def PyAst.beqL : List PyAst → List PyAst → Bool
  | [], [] => true
  | a :: as, b :: bs => PyAst.beq a b && PyAst.beqL as bs
  | _, _ => false
end

instance : BEq PyAst := ⟨PyAst.beq⟩

inductive AErr where
  | notImplemented     -- NotImplementedError (the mapper refuses the node type / operator)
  | foreign            -- ValueError: invalid foreign object (None, str)
  | typeError          -- unhashable cache key (a list); `ast.Slice` with more than three parts; `-tuple`
  | indexError         -- `rec_children[-1]` of an operator without operands
  | assertion          -- `assert expr.data_type is not None`
  | valueError         -- tuple unpacking of a chained comparison (`op, = expr.ops`)
  | noClaim
  deriving Repr, DecidableEq, Inhabited

/-! ### expression → AST -/

/-- `map_constant` -/
def constToAst (c : Const) : Except AErr PyAst :=
  match c with
  | .bool b => pure (.const (.bool b))
  | .int n => if n < 0 then pure (.unop .usub (.const (.int (-n)))) else pure (.const (.int n))
  | .flt r n d =>
    -- `expr < 0`: false for nan and for -0.0
    if (d = 0 ∧ r = "-inf") ∨ (d ≠ 0 ∧ n < 0) then
      pure (.unop .usub (.const (.flt (r.drop 1).toString (-n) d)))
    else pure (.const (.flt r n d))
  | .str _ => throw .foreign
  | .none => throw .foreign

/-- `_map_multi_children_op` after the children have been mapped: right fold, the last operand
innermost; no operand: `rec_children[-1]` raises -/
def foldBin (op : PyBin) : List PyAst → Except AErr PyAst
  | [] => throw .indexError
  | [x] => pure x
  | x :: y :: rest => do
      let r ← foldBin op (y :: rest)
      pure (.binop x op r)

def NaryOp.pyBin? : NaryOp → Option PyBin
  | .sum => some .add | .prod => some .mult | .bor => some .bitor | .bxor => some .bitxor
  | .band => some .bitand | _ => none

def BinOp.pyBin : BinOp → PyBin
  | .quot => .div | .floordiv => .floordiv | .rem => .mod | .pow => .pow
  | .lshift => .lshift | .rshift => .rshift

/-- stable insertion of `(name, index)` by name -/
def insertKwIdx (n : String) (i : Nat) : List (String × Nat) → List (String × Nat)
  | [] => [(n, i)]
  | (m, j) :: rest => if n < m then (n, i) :: (m, j) :: rest else (m, j) :: insertKwIdx n i rest

def enumFrom {α} : Nat → List α → List (α × Nat)
  | _, [] => []
  | i, x :: xs => (x, i) :: enumFrom (i + 1) xs

/-- `sorted(expr.kw_parameters.items())`: the keyword names in sorted order, each with the position
of its value in the insertion-ordered value list -/
def sortedKw (ns : List String) : List (String × Nat) :=
  (enumFrom 0 ns).foldl (fun acc p => insertKwIdx p.1 p.2 acc) []

/-- `ast.Slice(*parts)` -/
def mkSlice (parts : List PyAst) : Except AErr PyAst :=
  if parts.length > 3 then throw .typeError else pure (.slice parts)

def mapIdxE {ε α} (f : Nat → Except ε α) : List Nat → Except ε (List α)
  | [] => pure []
  | i :: is => do
      let x ← f i
      let xs ← mapIdxE f is
      pure (x :: xs)

mutual
/-- `PymbolicToASTMapper` without its memo table -/
def toAst : Expr → Except AErr PyAst
  | .const c => constToAst c
  | .var x => pure (.name x)
  | .nary .lor cs => do pure (.boolop true (← toAstL cs))
  | .nary .land cs => do pure (.boolop false (← toAstL cs))
  | .nary .min _ => throw .notImplemented
  | .nary .max _ => throw .notImplemented
  | .nary .sum cs => do foldBin .add (← toAstL cs)
  | .nary .prod cs => do foldBin .mult (← toAstL cs)
  | .nary .bor cs => do foldBin .bitor (← toAstL cs)
  | .nary .bxor cs => do foldBin .bitxor (← toAstL cs)
  | .nary .band cs => do foldBin .bitand (← toAstL cs)
  | .bin o a b => do
      let x ← toAst a
      let y ← toAst b
      pure (.binop x o.pyBin y)
  | .un .bnot a => do pure (.unop .invert (← toAst a))
  | .un .lnot a => do pure (.unop .not (← toAst a))
  | .cmp .. => throw .notImplemented
  | .ite c t e => do
      let x ← toAst c
      let y ← toAst t
      let z ← toAst e
      pure (.ifexp x y z)
  | .call f as => do
      let g ← toAst f
      let xs ← toAstL as
      pure (.call g xs [] [])
  | .callKw f as ns vs => do
      let g ← toAst f
      let xs ← toAstL as
      let kw := sortedKw ns
      let ys ← mapIdxE (fun i => toAstNth vs i) (kw.map (·.2))
      pure (.call g xs (kw.map (·.1)) ys)
  | .subscript a i => do
      let x ← toAst a
      let y ← toAst i
      pure (.subscript x y)
  | .lookup a n => do pure (.attribute (← toAst a) n)
  | .tuple cs => do pure (.tuple (← toAstL cs))
  | .list cs => do pure (.list (← toAstL cs))
  | .slice cs => do mkSlice (← toAstL cs)
  | .nan => throw .assertion
  | .cse .. => throw .notImplemented
  | .subst .. => throw .notImplemented
  | .deriv .. => throw .notImplemented
  | .wildcard => throw .notImplemented
  | .dotWild _ => throw .notImplemented
  | .starWild _ => throw .notImplemented
  | .funcSym => throw .notImplemented
def toAstL : List Expr → Except AErr (List PyAst)
  | [] => pure []
  | c :: cs => do
      let x ← toAst c
      let xs ← toAstL cs
      pure (x :: xs)
/-- the AST of the `i`-th expression of a list (keyword values are visited in name order) -/
def toAstNth : List Expr → Nat → Except AErr PyAst
  | [], _ => throw .noClaim
  | c :: _, 0 => toAst c
  | _ :: cs, i + 1 => toAstNth cs i
end

/-! ### the same mapper with its memo table (`CachedMapper`) -/

abbrev AstCache := List (Expr × PyAst)

/-- computations threading the memo table; an exception abandons the mapper -/
abbrev AstM (α : Type) := AstCache → Except AErr (α × AstCache)

@[inline] def AstM.pure {α} (a : α) : AstM α := fun s => .ok (a, s)
@[inline] def AstM.throw {α} (e : AErr) : AstM α := fun _ => .error e
@[inline] def AstM.bind {α β} (x : AstM α) (f : α → AstM β) : AstM β := fun s =>
  match x s with
  | .ok (a, s') => f a s'
  | .error e => .error e
@[inline] def AstM.lift {α} (x : Except AErr α) : AstM α := fun s =>
  match x with
  | .ok a => .ok (a, s)
  | .error e => .error e

instance : Monad AstM where
  pure := AstM.pure
  bind := AstM.bind

def AstCache.find (k : Expr) : AstCache → Option PyAst
  | [] => none
  | (k', v) :: rest => if Expr.keyEq k' k then some v else AstCache.find k rest

/-- `CachedMapper.__call__` around a handler invocation `k`: building the key hashes the
expression (a list raises), a hit returns the stored node, a miss stores the result -/
def withAstCache (e : Expr) (k : AstM PyAst) : AstM PyAst := fun s =>
  if e.hasList then .error .typeError
  else match AstCache.find e s with
  | some r => .ok (r, s)
  | none =>
    match k s with
    | .ok (r, s') => .ok (r, (e, r) :: s')
    | .error err => .error err

def mapIdxM {α} (f : Nat → AstM α) : List Nat → AstM (List α)
  | [] => AstM.pure []
  | i :: is => do
      let x ← f i
      let xs ← mapIdxM f is
      AstM.pure (x :: xs)

mutual
/-- the `map_*` handlers; every child goes through `rec` = `withAstCache` -/
def toAstNode : Expr → AstM PyAst
  | .const c => AstM.lift (constToAst c)
  | .var x => AstM.pure (.name x)
  | .nary .lor cs => do
      let xs ← toAstCL cs
      AstM.pure (.boolop true xs)
  | .nary .land cs => do
      let xs ← toAstCL cs
      AstM.pure (.boolop false xs)
  | .nary .min _ => AstM.throw .notImplemented
  | .nary .max _ => AstM.throw .notImplemented
  | .nary .sum cs => do
      let xs ← toAstCL cs
      AstM.lift (foldBin .add xs)
  | .nary .prod cs => do
      let xs ← toAstCL cs
      AstM.lift (foldBin .mult xs)
  | .nary .bor cs => do
      let xs ← toAstCL cs
      AstM.lift (foldBin .bitor xs)
  | .nary .bxor cs => do
      let xs ← toAstCL cs
      AstM.lift (foldBin .bitxor xs)
  | .nary .band cs => do
      let xs ← toAstCL cs
      AstM.lift (foldBin .bitand xs)
  | .bin o a b => do
      let x ← withAstCache a (toAstNode a)
      let y ← withAstCache b (toAstNode b)
      AstM.pure (.binop x o.pyBin y)
  | .un .bnot a => do
      let x ← withAstCache a (toAstNode a)
      AstM.pure (.unop .invert x)
  | .un .lnot a => do
      let x ← withAstCache a (toAstNode a)
      AstM.pure (.unop .not x)
  | .cmp .. => AstM.throw .notImplemented
  | .ite c t e => do
      let x ← withAstCache c (toAstNode c)
      let y ← withAstCache t (toAstNode t)
      let z ← withAstCache e (toAstNode e)
      AstM.pure (.ifexp x y z)
  | .call f as => do
      let g ← withAstCache f (toAstNode f)
      let xs ← toAstCL as
      AstM.pure (.call g xs [] [])
  | .callKw f as ns vs => do
      let g ← withAstCache f (toAstNode f)
      let xs ← toAstCL as
      let kw := sortedKw ns
      let ys ← mapIdxM (fun i => toAstCNth vs i) (kw.map (·.2))
      AstM.pure (.call g xs (kw.map (·.1)) ys)
  | .subscript a i => do
      let x ← withAstCache a (toAstNode a)
      let y ← withAstCache i (toAstNode i)
      AstM.pure (.subscript x y)
  | .lookup a n => do
      let x ← withAstCache a (toAstNode a)
      AstM.pure (.attribute x n)
  | .tuple cs => do
      let xs ← toAstCL cs
      AstM.pure (.tuple xs)
  | .list cs => do
      let xs ← toAstCL cs
      AstM.pure (.list xs)
  | .slice cs => do
      let xs ← toAstCL cs
      AstM.lift (mkSlice xs)
  | .nan => AstM.throw .assertion
  | .cse .. => AstM.throw .notImplemented
  | .subst .. => AstM.throw .notImplemented
  | .deriv .. => AstM.throw .notImplemented
  | .wildcard => AstM.throw .notImplemented
  | .dotWild _ => AstM.throw .notImplemented
  | .starWild _ => AstM.throw .notImplemented
  | .funcSym => AstM.throw .notImplemented
def toAstCL : List Expr → AstM (List PyAst)
  | [] => AstM.pure []
  | c :: cs => do
      let x ← withAstCache c (toAstNode c)
      let xs ← toAstCL cs
      AstM.pure (x :: xs)
def toAstCNth : List Expr → Nat → AstM PyAst
  | [], _ => AstM.throw .noClaim
  | c :: _, 0 => withAstCache c (toAstNode c)
  | _ :: cs, i + 1 => toAstCNth cs i
end

/-- `to_python_ast(expr)`: a fresh mapper instance -/
def toAstC (e : Expr) : Except AErr PyAst :=
  match withAstCache e (toAstNode e) [] with
  | .ok (r, _) => .ok r
  | .error err => .error err

/-! ### AST → expression -/

/-- `ASTToPymbolic.bin_op_map` applied to the two mapped operands -/
def PyBin.construct : PyBin → Option (Expr → Expr → Expr)
  | .add => some fun x y => .nary .sum [x, y]
  | .sub => some fun x y => .nary .sum [x, .nary .prod [negOne, y]]
  | .mult => some fun x y => .nary .prod [x, y]
  | .matmult => none
  | .div => some (.bin .quot)
  | .floordiv => some (.bin .floordiv)
  | .mod => some (.bin .rem)
  | .pow => some (.bin .pow)
  | .lshift => some (.bin .lshift)
  | .rshift => some (.bin .rshift)
  | .bitor => some fun x y => .nary .bor [x, y]
  | .bitxor => some fun x y => .nary .bxor [x, y]
  | .bitand => some fun x y => .nary .band [x, y]

/-- `_neg(x)`: Python's unary minus on the mapped operand -/
def astNeg (x : Expr) : Except AErr Expr :=
  match negE x with
  | .ok r => pure r
  | .error .typeError => throw .typeError
  | .error _ => throw .noClaim

mutual
/-- `ASTToPymbolic` -/
def fromAst : PyAst → Except AErr Expr
  | .const c => pure (.const c)
  | .name x => pure (.var x)
  | .binop l op r =>
    match op.construct with
    | none => throw .notImplemented
    | some mk => do
        let x ← fromAst l
        let y ← fromAst r
        pure (mk x y)
  | .unop .invert a => do pure (.un .bnot (← fromAst a))
  | .unop .not a => do pure (.un .lnot (← fromAst a))
  | .unop .usub a => do astNeg (← fromAst a)
  | .unop .uadd _ => throw .notImplemented
  | .boolop .. => throw .notImplemented
  | .ifexp c t e => do
      let x ← fromAst c
      let y ← fromAst t
      let z ← fromAst e
      pure (.ite x y z)
  | .compare l [op] [r] => do
      let x ← fromAst l
      let y ← fromAst r
      pure (.cmp op x y)
  | .compare .. => throw .valueError
  | .call f as ns vs => do
      let g ← fromAst f
      let xs ← fromAstL as
      -- `if getattr(expr, "keywords", []):` the keyword values are mapped in that branch only
      if ns.isEmpty then pure (.call g xs)
      else do
        let ys ← fromAstL vs
        pure (.callKw g xs ns ys)
  | .attribute v a => do pure (.lookup (← fromAst v) a)
  | .subscript v .absent => do
      -- `none_or_rec(expr.slice)`: a `None` slice is passed through (found by the regenerated
      -- handler table of extract/codegen.py; such a node does not come out of `ast.parse`)
      let x ← fromAst v
      pure (.subscript x (.const .none))
  | .subscript v s => do
      -- the index is mapped first (`index = none_or_rec(expr.slice)`), then the aggregate
      let i ← fromAst s
      let x ← fromAst v
      pure (.subscript x i)
  | .tuple es => do pure (.tuple (← fromAstL es))
  | .list _ => throw .notImplemented
  | .slice _ => throw .notImplemented
  | .absent => throw .notImplemented
def fromAstL : List PyAst → Except AErr (List Expr)
  | [] => pure []
  | c :: cs => do
      let x ← fromAst c
      let xs ← fromAstL cs
      pure (x :: xs)
end

/-! ### the meaning CPython gives an AST -/

def PyBin.apply : PyBin → Value → Value → R
  | .add => Value.add | .sub => Value.sub | .mult => Value.mul
  | .matmult => fun _ _ => throw .noClaim
  | .div => Value.div | .floordiv => Value.floordiv | .mod => Value.mod | .pow => Value.pow
  | .lshift => Value.lshift | .rshift => Value.rshift
  | .bitor => Value.bor | .bitxor => Value.bxor | .bitand => Value.band

/-- the value of a constant node -/
def Const.denAst : Const → R
  | .int n => pure (.int n)
  | .bool b => pure (.bool b)
  | .flt .. => pure .inexact
  | .str s => pure (.str s)
  | .none => pure .none

mutual
def denAst (env : Env) : PyAst → R
  | .const c => c.denAst
  | .name x => match env.get x with
    | some v => pure v
    | none => throw (.unknownVar x)
  | .binop l op r => do
      let x ← denAst env l
      let y ← denAst env r
      op.apply x y
  | .unop .invert a => do (← denAst env a).invert
  | .unop .not a => do
      let t ← (← denAst env a).truthy
      pure (.bool (!t))
  | .unop .usub a => do (← denAst env a).neg
  | .unop .uadd _ => throw .noClaim
  | .boolop isOr vs => denBoolOp env isOr vs
  | .ifexp c t e => do
      let cv ← denAst env c
      if ← cv.truthy then denAst env t else denAst env e
  | .compare l ops rs => do
      let x ← denAst env l
      denChain env x ops rs
  | .call f as ns vs => do
      let fv ← denAst env f
      let avs ← denAstL env as
      let kvs ← denAstL env vs
      fv.call avs ns kvs
  | .attribute v a => do (← denAst env v).getattr a
  | .subscript v s => do
      let av ← denAst env v
      let iv ← denAst env s
      av.index iv
  | .tuple es => do pure (.tuple (← denAstL env es))
  | .list es => do pure (.list (← denAstL env es))
  | .slice _ => throw .noClaim
  | .absent => throw .noClaim
/-- `a or b or …` / `a and b and …`: the value is an OPERAND (the first that decides, else the
last).  CPython rejects a `BoolOp` with fewer than two operands when it compiles the AST
(`PyAst.wellFormed`); the one-operand case below is only reached as the tail of a longer chain. -/
def denBoolOp (env : Env) (isOr : Bool) : List PyAst → R
  | [] => throw .noClaim
  | [x] => denAst env x
  | x :: y :: rest => do
      let v ← denAst env x
      let t ← v.truthy
      if t == isOr then pure v else denBoolOp env isOr (y :: rest)
/-- `x op1 r1 op2 r2 …`: each operand evaluated once, conjunction of the links, stops at the first
false link (whose value is the result) -/
def denChain (env : Env) (x : Value) : List CmpOp → List PyAst → R
  | [op], [r] => do
      let y ← denAst env r
      Value.cmp op x y
  | op :: ops, r :: rs => do
      let y ← denAst env r
      let c ← Value.cmp op x y
      if ← c.truthy then denChain env y ops rs else pure c
  | _, _ => throw .noClaim
def denAstL (env : Env) : List PyAst → Except Err (List Value)
  | [] => pure []
  | c :: cs => do
      let v ← denAst env c
      let vs ← denAstL env cs
      pure (v :: vs)
end

mutual
/-- what CPython's AST validator demands of the nodes modelled here: `BoolOp` has at least two
operands, `Compare` has as many operators as comparators and at least one -/
def PyAst.wellFormed : PyAst → Bool
  | .const _ | .name _ | .absent => true
  | .binop l _ r => l.wellFormed && r.wellFormed
  | .unop _ a => a.wellFormed
  | .boolop _ vs => decide (2 ≤ vs.length) && PyAst.wellFormedL vs
  | .ifexp c t e => c.wellFormed && t.wellFormed && e.wellFormed
  | .compare l ops rs =>
      l.wellFormed && decide (ops.length = rs.length) && !ops.isEmpty && PyAst.wellFormedL rs
  | .call f as _ vs => f.wellFormed && PyAst.wellFormedL as && PyAst.wellFormedL vs
  | .attribute v _ => v.wellFormed
  | .subscript v s => v.wellFormed && s.wellFormed
  | .tuple es => PyAst.wellFormedL es
  | .list es => PyAst.wellFormedL es
  | .slice es => PyAst.wellFormedL es
def PyAst.wellFormedL : List PyAst → Bool
  | [] => true
  | c :: cs => c.wellFormed && PyAst.wellFormedL cs
end

/-- `eval(compile(ast.Expression(a), …), env)` -/
def runAst (env : Env) (a : PyAst) : R :=
  if a.wellFormed then denAst env a else throw .valueError

/-! ### "up to binary nesting": all five associative operators flattened -/

def NaryOp.isAssoc : NaryOp → Bool
  | .sum | .prod | .bor | .bxor | .band => true
  | _ => false

mutual
def flattenNest : Expr → Expr
  | .nary o cs => if o.isAssoc then .nary o (flattenNestInto o cs) else .nary o (flattenNestL cs)
  | .bin o a b => .bin o (flattenNest a) (flattenNest b)
  | .un o a => .un o (flattenNest a)
  | .cmp o a b => .cmp o (flattenNest a) (flattenNest b)
  | .ite c t e => .ite (flattenNest c) (flattenNest t) (flattenNest e)
  | .call f as => .call (flattenNest f) (flattenNestL as)
  | .callKw f as ns vs => .callKw (flattenNest f) (flattenNestL as) ns (flattenNestL vs)
  | .subscript a i => .subscript (flattenNest a) (flattenNest i)
  | .lookup a n => .lookup (flattenNest a) n
  | .slice cs => .slice (flattenNestL cs)
  | .tuple cs => .tuple (flattenNestL cs)
  | .list cs => .list (flattenNestL cs)
  | e => e
def flattenNestL : List Expr → List Expr
  | [] => []
  | c :: cs => flattenNest c :: flattenNestL cs
/-- children of an `op` node with nested `op` children spliced in place -/
def flattenNestInto (op : NaryOp) : List Expr → List Expr
  | [] => []
  | c :: cs =>
    match flattenNest c with
    | .nary o ds => if o == op then ds ++ flattenNestInto op cs else .nary o ds :: flattenNestInto op cs
    | c' => c' :: flattenNestInto op cs
end

/-! ### wire format -/

def PyBin.name : PyBin → String
  | .add => "Add" | .sub => "Sub" | .mult => "Mult" | .matmult => "MatMult" | .div => "Div"
  | .floordiv => "FloorDiv" | .mod => "Mod" | .pow => "Pow" | .lshift => "LShift"
  | .rshift => "RShift" | .bitor => "BitOr" | .bitxor => "BitXor" | .bitand => "BitAnd"

def PyBin.ofName? : String → Option PyBin
  | "Add" => some .add | "Sub" => some .sub | "Mult" => some .mult | "MatMult" => some .matmult
  | "Div" => some .div | "FloorDiv" => some .floordiv | "Mod" => some .mod | "Pow" => some .pow
  | "LShift" => some .lshift | "RShift" => some .rshift | "BitOr" => some .bitor
  | "BitXor" => some .bitxor | "BitAnd" => some .bitand | _ => none

def PyUn.name : PyUn → String
  | .invert => "Invert" | .not => "Not" | .usub => "USub" | .uadd => "UAdd"

def PyUn.ofName? : String → Option PyUn
  | "Invert" => some .invert | "Not" => some .not | "USub" => some .usub | "UAdd" => some .uadd
  | _ => none

mutual
def PyAst.toSexp : PyAst → Sexp
  | .const c => Sexp.mk "Constant" [c.toSexp]
  | .name x => Sexp.mk "Name" [Sexp.str x]
  | .binop l o r => Sexp.mk "BinOp" [l.toSexp, .atom o.name, r.toSexp]
  | .unop o a => Sexp.mk "UnaryOp" [.atom o.name, a.toSexp]
  | .boolop isOr vs => Sexp.mk "BoolOp" (.atom (if isOr then "Or" else "And") :: PyAst.toSexpL vs)
  | .ifexp c t e => Sexp.mk "IfExp" [c.toSexp, t.toSexp, e.toSexp]
  | .compare l ops rs =>
      Sexp.mk "Compare" [l.toSexp, .list (ops.map fun o => Sexp.str o.sym), .list (PyAst.toSexpL rs)]
  | .call f as ns vs =>
      Sexp.mk "Call" [f.toSexp, .list (PyAst.toSexpL as),
        .list ((ns.zip (PyAst.toSexpL vs)).map fun p => .list [Sexp.str p.1, p.2])]
  | .attribute v a => Sexp.mk "Attribute" [v.toSexp, Sexp.str a]
  | .subscript v s => Sexp.mk "Subscript" [v.toSexp, s.toSexp]
  | .tuple es => Sexp.mk "Tuple" (PyAst.toSexpL es)
  | .list es => Sexp.mk "List" (PyAst.toSexpL es)
  | .slice es => Sexp.mk "Slice" (PyAst.toSexpL es)
  | .absent => .atom "nil"
def PyAst.toSexpL : List PyAst → List Sexp
  | [] => []
  | c :: cs => c.toSexp :: PyAst.toSexpL cs
end

def constOfSexp? (s : Sexp) : Option Const :=
  match Expr.ofSexp? s with
  | some (.const c) => some c
  | _ => none

mutual
partial def PyAst.ofSexp? : Sexp → Option PyAst
  | .atom "nil" => some .absent
  | .list [.atom "Constant", c] => (constOfSexp? c).map .const
  | .list [.atom "Name", x] => x.text.map .name
  | .list [.atom "BinOp", l, .atom o, r] => do
      pure (.binop (← PyAst.ofSexp? l) (← PyBin.ofName? o) (← PyAst.ofSexp? r))
  | .list [.atom "UnaryOp", .atom o, a] => do pure (.unop (← PyUn.ofName? o) (← PyAst.ofSexp? a))
  | .list (.atom "BoolOp" :: .atom o :: vs) => do
      pure (.boolop (o == "Or") (← PyAst.ofSexpL? vs))
  | .list [.atom "IfExp", c, t, e] => do
      pure (.ifexp (← PyAst.ofSexp? c) (← PyAst.ofSexp? t) (← PyAst.ofSexp? e))
  | .list [.atom "Compare", l, .list ops, .list rs] => do
      let ops ← ops.mapM fun o => o.text >>= CmpOp.ofSym?
      pure (.compare (← PyAst.ofSexp? l) ops (← PyAst.ofSexpL? rs))
  | .list [.atom "Call", f, .list as, .list kws] => do
      let ns ← kws.mapM fun kw => match kw with | .list [n, _] => n.text | _ => none
      let vs ← kws.mapM fun kw => match kw with | .list [_, v] => PyAst.ofSexp? v | _ => none
      pure (.call (← PyAst.ofSexp? f) (← PyAst.ofSexpL? as) ns vs)
  | .list [.atom "Attribute", v, a] => do pure (.attribute (← PyAst.ofSexp? v) (← a.text))
  | .list [.atom "Subscript", v, s] => do pure (.subscript (← PyAst.ofSexp? v) (← PyAst.ofSexp? s))
  | .list (.atom "Tuple" :: es) => do pure (.tuple (← PyAst.ofSexpL? es))
  | .list (.atom "List" :: es) => do pure (.list (← PyAst.ofSexpL? es))
  | .list (.atom "Slice" :: es) => do pure (.slice (← PyAst.ofSexpL? es))
  | _ => none
partial def PyAst.ofSexpL? : List Sexp → Option (List PyAst)
  | [] => some []
  | c :: cs => do pure ((← PyAst.ofSexp? c) :: (← PyAst.ofSexpL? cs))
end

def AErr.toSexp : AErr → Sexp
  | .notImplemented => Sexp.mk "err" [.atom "NotImplemented"]
  | .foreign => Sexp.mk "err" [.atom "Foreign"]
  | .typeError => Sexp.mk "err" [.atom "TypeError"]
  | .indexError => Sexp.mk "err" [.atom "IndexError"]
  | .assertion => Sexp.mk "err" [.atom "AssertionError"]
  | .valueError => Sexp.mk "err" [.atom "ValueError"]
  | .noClaim => Sexp.mk "noclaim" []

def CompErr.toSexp : CompErr → Sexp
  | .foreign => Sexp.mk "err" [.atom "Foreign"]
  | .unsupported => Sexp.mk "err" [.atom "Unsupported"]
  | .typeError => Sexp.mk "err" [.atom "TypeError"]
  | .noClaim => Sexp.mk "noclaim" []

end PV
