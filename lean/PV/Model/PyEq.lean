import PV.Model.Expr
/-
  Python `==` on expression trees (what the generated `__eq__` computes, C01): same class and
  field-wise `==`, where constants compare across the numeric tower (`1 == 1.0 == True`),
  keyword mappings compare as mappings, and a tuple never equals a list.
-/
namespace PV

/-- Exact numeric value of a numeric constant as a pair (num, den), `none` for non-numbers and for
nan/inf floats. -/
def Const.numVal? : Const → Option (Int × Nat)
  | .int n => some (n, 1)
  | .bool b => some (if b then 1 else 0, 1)
  | .flt _ n d => if d = 0 then Option.none else some (n, d)
  | _ => Option.none

def Const.pyEq (a b : Const) : Bool :=
  match a.numVal?, b.numVal? with
  | some (n, d), some (n', d') => n * d' == n' * d
  | Option.none, Option.none =>
    match a, b with
    | .str s, .str t => s == t
    | .none, .none => true
    | .flt r _ 0, .flt r' _ 0 => r == r' && r != "nan"
    | _, _ => false
  | _, _ => false

/-- Type tag used by `CachedMapper.get_cache_key` (`type(expr)`): distinguishes python scalar
types; for expression nodes the class, which `==` tests anyway. -/
inductive TypeTag where
  | int | bool | float | str | none | node
  deriving Repr, DecidableEq

def Expr.typeTag : Expr → TypeTag
  | .const (.int _) => .int
  | .const (.bool _) => .bool
  | .const (.flt ..) => .float
  | .const (.str _) => .str
  | .const .none => .none
  | _ => .node

/-- Look up `k` in two parallel lists. -/
def assocLookupE (k : String) : List String → List Expr → Option Expr
  | n :: ns, v :: vs => if n = k then some v else assocLookupE k ns vs
  | _, _ => none

mutual
def Expr.pyEq : Expr → Expr → Bool
  | .const a, .const b => a.pyEq b
  | .var a, .var b => a == b
  | .nary o cs, .nary o' cs' => o == o' && Expr.pyEqL cs cs'
  | .bin o a b, .bin o' a' b' => o == o' && Expr.pyEq a a' && Expr.pyEq b b'
  | .un o a, .un o' a' => o == o' && Expr.pyEq a a'
  | .cmp o a b, .cmp o' a' b' => o == o' && Expr.pyEq a a' && Expr.pyEq b b'
  | .ite c t e, .ite c' t' e' => Expr.pyEq c c' && Expr.pyEq t t' && Expr.pyEq e e'
  | .call f as, .call f' as' => Expr.pyEq f f' && Expr.pyEqL as as'
  | .callKw f as ns vs, .callKw f' as' ns' vs' =>
      Expr.pyEq f f' && Expr.pyEqL as as' && ns.length == ns'.length && Expr.pyEqKw ns vs ns' vs'
  | .subscript a i, .subscript a' i' => Expr.pyEq a a' && Expr.pyEq i i'
  | .lookup a n, .lookup a' n' => Expr.pyEq a a' && n == n'
  | .cse c p s, .cse c' p' s' => Expr.pyEq c c' && p == p' && s == s'
  | .subst c vs xs, .subst c' vs' xs' => Expr.pyEq c c' && vs == vs' && Expr.pyEqL xs xs'
  | .deriv c vs, .deriv c' vs' => Expr.pyEq c c' && vs == vs'
  | .slice cs, .slice cs' => Expr.pyEqL cs cs'
  | .nan, .nan => true
  | .wildcard, .wildcard => true
  | .dotWild a, .dotWild b => a == b
  | .starWild a, .starWild b => a == b
  | .funcSym, .funcSym => true
  | .tuple cs, .tuple cs' => Expr.pyEqL cs cs'
  | .list cs, .list cs' => Expr.pyEqL cs cs'
  | _, _ => false
def Expr.pyEqL : List Expr → List Expr → Bool
  | [], [] => true
  | a :: as, b :: bs => Expr.pyEq a b && Expr.pyEqL as bs
  | _, _ => false
/-- every keyword of the left mapping is bound on the right to an equal expression -/
def Expr.pyEqKw : List String → List Expr → List String → List Expr → Bool
  | n :: ns, v :: vs, ms, ws =>
      (match assocLookupE n ms ws with
       | some w => Expr.pyEq v w
       | none => false) && Expr.pyEqKw ns vs ms ws
  | _, _, _, _ => true
end

/-- Key equality of `CachedMapper`: `(type(expr), expr, …)`. -/
def Expr.keyEq (a b : Expr) : Bool := a.typeTag == b.typeTag && a.pyEq b

end PV
