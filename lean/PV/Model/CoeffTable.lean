import PV.Model.Coeff
/-
  C15, T-gen tie.  The code under C15 as DATA, and the reading of that data.

  `extract/coefficient.py` reads, on every run, the source text of `CoefficientCollector`
  (pymbolic/mapper/coefficient.py: `__init__`, every `map_*` handler the dispatch reaches, the
  delegating handlers inherited from `Mapper`, `Mapper.map_foreign`) and of `gaussian_elimination`,
  `solve_affine_equations_for`, `lcm`, `gcd`, `gcd_many` (pymbolic/algorithm.py) and writes what the
  text says, statement by statement, as values of the types below into
  `lean/PV/Generated/Coefficient.lean`:

    * `C15E` / `C15S`   a small Python-like language: expressions (names, literals, `+ - * //`,
                        comparisons, `is`/`in`, `and`/`or`/`not`, subscripts `a[i]`, `a[i, j]`,
                        `a[:, j]`, `.copy()`/`.items()`/`.keys()`, displays, comprehensions, calls by
                        the canonical name of the object called) and statements (assignments to names,
                        patterns, `X[i]`, `X[i, j]`, `X[i], Y[k] = (…, …)`, `X[i, j] op= …`, `for`, `while`,
                        `if`, `break`/`continue`, `raise`, `assert`, `return`);
    * `C15Table`        node class ↦ handler reached, handler ↦ body, the foreign-object rules,
                        `__init__`, the functions of algorithm.py.

  The interpreter below gives every table a meaning.  Nothing in it knows what a particular
  handler or loop does: which dictionary is updated with which operator, the order of the two row
  assignments of an exchange and which of the rows are copies (`.copy()`) and which are views
  (a view is a REFERENCE `rowRef array index`, read when it is used), the start of the pivot
  search, the sign of the row update, `+=` versus `=` — all of it is read from the table.
  `PV/Proofs/CoeffTable*.lean` prove that the hand-written model (`coeffs`, `gaussElim`,
  `solveAffine`, PV/Model/Coeff.lean) IS this interpreter applied to the regenerated table.

  Conventions of the reading (shared with the hand-written model):
    * numbers: a Python int is `int n`; a stored coefficient (anything kept in a stride dictionary,
      a pymbolic expression or a number) is `ex e`, a plain int among them being `ex (.const (.int n))`;
      arithmetic between two `int`s is integer arithmetic (`//` is floor division, by zero:
      ZeroDivisionError), anything else is `pyBin` (the overloaded operators, C03);
    * a numpy object array is a list of integer rows with its column count; an entry that is not
      a plain int is outside the reading (`noClaim`, as in `solveAffine`); a column index is checked
      against the column count of the array (IndexError), `-1` is the last column;
    * a Python `set` of expressions is a duplicate-free list (`eset`); the order in which
      `list(a_set)` enumerates it is not determined by the program text: it is the oracle
      `ctx.order`;
    * `extended_euclidean` is `Algo.extEuclid` (C19) and a `DependencyMapper` instance is `deps`
      (C09): both stay hand-written.
-/
namespace PV.Coeff
open PV

/-! ## the language -/

inductive C15BinOp where
  | add | sub | mul | floordiv
  deriving Repr, DecidableEq, Inhabited

inductive C15CmpOp where
  | eq | ne | lt | le | gt | ge
  deriving Repr, DecidableEq, Inhabited

/-- assignment / loop targets: a name or a pair of targets -/
inductive C15Pat where
  | name (x : String)
  | tup2 (a b : C15Pat)
  deriving Repr, DecidableEq, Inhabited

inductive C15E where
  | lit (n : Int)
  | boolLit (b : Bool)
  | pyNone
  | var (x : String)                               -- a local variable
  | node                                           -- `expr`, the node a handler is called on
  | selfAttr (a : String)                          -- `self.a`
  | recField (f : String)                          -- `self.rec(expr.f)`
  | recList (f : String)                           -- `[self.rec(c) for c in expr.f]`
  | getattrOr (name : String) (dflt : C15E)        -- `getattr(expr, "name", dflt)`
  | attr (a : C15E) (name : String)                -- `a.shape`
  | bin (op : C15BinOp) (a b : C15E)               -- `a op b`  (a first)
  | neg (a : C15E)
  | cmp (op : C15CmpOp) (a b : C15E)
  | is_ (a b : C15E)
  | isNot (a b : C15E)
  | in_ (a b : C15E)
  | notIn (a b : C15E)
  | and_ (a b : C15E)                              -- short-circuit, yields an operand
  | or_ (a b : C15E)
  | not_ (a : C15E)
  | index (a i : C15E)                             -- `a[i]`
  | index2 (a i j : C15E)                          -- `a[i, j]`
  | col (a j : C15E)                               -- `a[:, j]`
  | meth (a : C15E) (m : String)                   -- `a.copy()` / `a.items()` / `a.keys()`
  | tuple2 (a b : C15E)                            -- `(a, b)`
  | listLit (es : List C15E)
  | emptyDict                                      -- `{}`
  | mkDict (k v : C15E)                            -- `{k: v}`
  | dictComp (k v : C15E) (p : C15Pat) (iter : C15E)          -- `{k: v for p in iter}`
  | listComp (e : C15E) (p : C15Pat) (iter : C15E)            -- `[e for p in iter]`
  | listCompIf (e : C15E) (p : C15Pat) (iter c : C15E)        -- `[e for p in iter if c]`
  | mkNode (cls : String) (args : List C15E)       -- a node class called with its fields
  | call (fn : String) (args : List C15E)          -- a builtin / numpy / algorithm function
  | callStar (fn : String) (arg : C15E)            -- `fn(*arg)`
  | callVar (f : String) (args : List C15E)        -- a local callable object
  | construct (cls : String) (kwNames : List String) (kwVals : List C15E)   -- `Cls(k=v, …)`
  | reduce (fn : String) (xs : C15E)               -- `functools.reduce(fn, xs)`
  deriving Repr, Inhabited

inductive C15S where
  | importName (module name asName : String)       -- a function-local import (the reader resolves names)
  | delegate (h : String)                          -- `return self.h(expr, *args, **kwargs)`
  | assign (p : C15Pat) (e : C15E)
  | unpack1 (x : String) (e : C15E)                -- `(x,) = e`
  | aug (x : String) (op : C15BinOp) (e : C15E)    -- `x op= e`
  | setSubs (xs : List String) (idxs vals : List C15E)    -- `X[i] = v` / `X[i], Y[k] = (v, w)`
  | augSub (x : String) (i : C15E) (op : C15BinOp) (v : C15E)      -- `X[i] op= v`
  | augSub2 (x : String) (i j : C15E) (op : C15BinOp) (v : C15E)   -- `X[i, j] op= v`
  | setSub2 (x : String) (i j v : C15E)            -- `X[i, j] = v`
  | mapValues (d : String) (op : C15BinOp) (v : C15E)     -- `for k in D.keys(): D[k] op= v`
  | setUpdate (s : String) (e : C15E)              -- `S.update(e)`
  | forIn (p : C15Pat) (iter : C15E) (body : List C15S)
  | while_ (c : C15E) (body : List C15S)
  | ifThen (c : C15E) (body orelse : List C15S)
  | deadIf                                         -- `if 0: …` (the body never runs)
  | raise_ (exc msg : String)
  | assert_ (c : C15E)
  | ret (e : C15E)
  | break_
  | continue_
  deriving Repr, Inhabited

structure C15Fn where
  name : String
  definedIn : String
  params : List String
  /-- name of the `*args` parameter, `""` if none -/
  vararg : String
  body : List C15S
  deriving Repr, Inhabited

structure C15Class where
  cls : String
  fields : List String
  /-- handler the dispatch reaches on the collector; `none`: `handle_unsupported_expression` -/
  handler : Option String
  deriving Repr, DecidableEq, Inhabited

structure C15Init where
  definedIn : String
  /-- parameters after `self` with the source text of their defaults -/
  params : List (String × String)
  /-- `self.A = P` -/
  stores : List (String × String)
  deriving Repr, DecidableEq, Inhabited

structure C15Table where
  init : C15Init
  classes : List C15Class
  handlers : List C15Fn
  fns : List C15Fn
  /-- `Mapper.map_foreign`: the `isinstance` chain, in order: (test, handler) -/
  foreign : List (String × String)
  foreignElse : String
  constKinds : List String
  /-- functions of algorithm.py that are called but not translated -/
  primitives : List String
  deriving Repr, Inhabited

/-! ## values -/

inductive C15Err where
  | py (e : CErr)
  | zeroDiv
  | indexError
  | valueError
  /-- the program leaves the fragment this reading gives a meaning to -/
  | stuck
  deriving Repr, DecidableEq, Inhabited

abbrev C15R (α : Type) := Except C15Err α

inductive C15Val where
  | none
  | bool (b : Bool)
  | int (n : Int)
  | str (s : String)
  | ex (e : Expr)
  | dict (d : Dict)
  | pair (a b : C15Val)
  | list (l : List C15Val)
  | eset (l : List Expr)
  /-- a 2-D object array: column count and rows -/
  | arr (cols : Nat) (rows : List Row)
  /-- a 1-D array that owns its data (a copy, or the result of arithmetic) -/
  | row (r : Row)
  /-- a VIEW of row `i` of the array bound to the variable `x` -/
  | rowRef (x : String) (i : Nat)
  | collector (tg : Option (List String))
  | depMapper (fl : DepFlags)
  deriving Inhabited

abbrev C15Env := List (String × C15Val)

def c15Get (x : String) : C15Env → Option C15Val
  | [] => Option.none
  | (y, v) :: rest => if y = x then some v else c15Get x rest

def c15Set (x : String) (v : C15Val) : C15Env → C15Env
  | [] => [(x, v)]
  | (y, w) :: rest => if y = x then (x, v) :: rest else (y, w) :: c15Set x v rest

def c15Bind : C15Pat → C15Val → C15Env → Option C15Env
  | .name x, v, st => some (c15Set x v st)
  | .tup2 p q, .pair a b, st => (c15Bind p a st).bind (c15Bind q b)
  | .tup2 _ _, _, _ => Option.none

def C15Val.toExpr? : C15Val → Option Expr
  | .int n => some (.const (.int n))
  | .bool b => some (.const (.bool b))
  | .ex e => some e
  | _ => Option.none

/-- the plain Python int a value is, if it is one -/
def C15Val.toInt? : C15Val → Option Int
  | .int n => some n
  | .ex (.const (.int n)) => some n
  | _ => Option.none

def c15LiftCR {α : Type} : CR α → C15R α
  | .ok a => .ok a
  | .error e => .error (.py e)

def C15BinOp.py : C15BinOp → PyBinOp
  | .add => .add | .sub => .sub | .mul => .mul | .floordiv => .floordiv

/-- a row-like value: the data of a view is read NOW -/
def c15Deref (st : C15Env) : C15Val → Option Row
  | .row r => some r
  | .rowRef x i => match c15Get x st with
    | some (.arr _ rows) => rows[i]?
    | _ => Option.none
  | _ => Option.none

def c15IntOp (op : C15BinOp) (a b : Int) : C15R Int :=
  match op with
  | .add => pure (a + b)
  | .sub => pure (a - b)
  | .mul => pure (a * b)
  | .floordiv => if b = 0 then throw .zeroDiv else pure (Int.fdiv a b)

/-- `a op b` -/
def c15Bin (st : C15Env) (op : C15BinOp) (a b : C15Val) : C15R C15Val :=
  match a, b with
  | .int x, .int y => do pure (.int (← c15IntOp op x y))
  | .list x, .list y => match op with
    | .add => pure (.list (x ++ y))
    | _ => throw .stuck
  | .eset x, .eset y => match op with
    | .sub => pure (.eset (x.filter fun e => !(y.any fun u => u.pyEq e)))
    | _ => throw .stuck
  | _, _ =>
    match c15Deref st a, c15Deref st b with
    | some r, some s => match op with
      | .add => pure (.row (List.zipWith (· + ·) r s))
      | .sub => pure (.row (List.zipWith (· - ·) r s))
      | _ => throw .stuck
    | Option.none, some s => match a, op with
      | .int c, .mul => pure (.row (s.map (c * ·)))
      | _, _ => throw .stuck
    | some r, Option.none => match b, op with
      | .int g, .floordiv => if g = 0 then throw .zeroDiv else pure (.row (r.map (Int.fdiv · g)))
      | _, _ => throw .stuck
    | Option.none, Option.none =>
      match a.toExpr?, b.toExpr? with
      | some x, some y => do pure (.ex (← c15LiftCR (pyBin op.py x y)))
      | _, _ => throw .stuck

/-- `a op b` where the result is stored in a stride dictionary (a coefficient) -/
def c15ScalarOp (st : C15Env) (op : C15BinOp) (a b : C15Val) : C15R Expr := do
  match (← c15Bin st op a b).toExpr? with
  | some r => pure r
  | Option.none => throw .stuck

/-- Python `==` between two values of the reading -/
def c15ValEq (a b : C15Val) : Option Bool :=
  match a, b with
  | .none, .none => some true
  | .none, _ => some false
  | _, .none => some false
  | .int x, .int y => some (x == y)
  | .str x, .str y => some (x == y)
  | .str _, _ => some false
  | _, .str _ => some false
  | _, _ => match a.toExpr?, b.toExpr? with
    | some x, some y => some (x.pyEq y)
    | _, _ => Option.none

def c15Cmp (op : C15CmpOp) (a b : C15Val) : C15R Bool :=
  match op with
  | .eq => match c15ValEq a b with | some r => pure r | Option.none => throw .stuck
  | .ne => match c15ValEq a b with | some r => pure (!r) | Option.none => throw .stuck
  | _ => match a, b with
    | .int x, .int y => match op with
      | .lt => pure (decide (x < y)) | .le => pure (decide (x ≤ y))
      | .gt => pure (decide (x > y)) | _ => pure (decide (x ≥ y))
    | _, _ => throw .stuck

/-- `a is b` for the atoms the language has (`None`, small ints) -/
def c15Is (a b : C15Val) : C15R Bool :=
  match a, b with
  | .none, .none => pure true
  | .none, _ => pure false
  | _, .none => pure false
  | _, _ => throw .stuck

def c15Truthy : C15Val → C15R Bool
  | .none => pure false
  | .bool b => pure b
  | .int n => pure (n != 0)
  | _ => throw .stuck

def c15ListHas (l : List C15Val) (a : C15Val) : Bool := l.any fun x => (c15ValEq x a).getD false

/-- `a in b` -/
def c15In (a b : C15Val) : C15R Bool :=
  match b with
  | .dict d => match a.toExpr? with
    | some k => pure (d.find k).isSome
    | Option.none => throw .stuck
  | .eset s => match a.toExpr? with
    | some k => pure (s.any fun x => x.pyEq k)
    | Option.none => throw .stuck
  | .list l => pure (c15ListHas l a)
  | _ => throw .stuck

/-- the elements a `for` / comprehension / `zip` / `enumerate` takes from a value -/
def c15Items (st : C15Env) : C15Val → Option (List C15Val)
  | .list l => some l
  | .dict d => some (d.map fun kc => .ex kc.1)
  | v => (c15Deref st v).map fun r => r.map .int

/-- column `j` of an array with `cols` columns (`-1` is the last one); `none`: IndexError -/
def c15ColIdx? (cols : Nat) (j : Int) : Option Nat :=
  if j < 0 then (if (-j).toNat ≤ cols then some (cols - (-j).toNat) else Option.none)
  else (if j.toNat < cols then some j.toNat else Option.none)

def c15Enum (i : Nat) : List C15Val → List C15Val
  | [] => []
  | v :: rest => .pair (.int i) v :: c15Enum (i + 1) rest

/-- `D[k] = v` on a stride dictionary: the first entry with an equal key keeps its key and gets
the value, else a new entry is appended -/
def c15DictSet (d : Dict) (k v : Expr) : Dict :=
  match d with
  | [] => [(k, v)]
  | (k', c) :: rest => if k'.pyEq k then (k', v) :: rest else (k', c) :: c15DictSet rest k v

/-- `D[k] op= v` -/
def c15DictAug (d : Dict) (k : Expr) (f : Expr → C15R Expr) : C15R Dict :=
  match d with
  | [] => throw (.py .keyError)
  | (k', c) :: rest =>
    if k'.pyEq k then do pure ((k', (← f c)) :: rest)
    else do pure ((k', c) :: (← c15DictAug rest k f))

/-- `for k in D.keys(): D[k] op= v`, entry by entry -/
def c15MapValues (f : Expr → C15R Expr) : Dict → C15R Dict
  | [] => pure []
  | (k, c) :: rest => do
      let c' ← f c
      let r ← c15MapValues f rest
      pure ((k, c') :: r)

def c15ErrOf (exc msg : String) : C15Err :=
  if exc = "RuntimeError" ∧ msg = "nonlinear expression" then .py .nonlinear
  else if exc = "RuntimeError" ∧ msg = "cannot uniquely solve for '{}'" then .py .notUnique
  else if exc = "RuntimeError" ∧ msg = "division with remainder in linear solve for '{}'" then
    .py .remainder
  else if exc = "ValueError" ∧ msg = "key '{}' not understood" then .py .keyNotUnderstood
  else if exc = "NotImplementedError" then .py .notImplemented
  else .stuck

/-! ## context of a run -/

structure C15Ctx where
  /-- the node a handler is called on -/
  node : Option Expr := Option.none
  /-- its dataclass fields (from the class table) and the string-valued ones among them -/
  nodeFields : List String := []
  nodeStrs : List (String × String) := []
  /-- the suspended calls `self.rec(expr.f)` -/
  recField : List (String × (Unit → CR Dict)) := []
  recList : List (String × List (Unit → CR Dict)) := []
  selfAttrs : List (String × C15Val) := []
  /-- `__init__` of the collector class -/
  init : C15Init := default
  /-- calls of translated functions -/
  callFn : String → List C15Val → C15R C15Val := fun _ _ => .error .stuck
  /-- `self.h(expr, …)` -/
  delegate : String → C15R C15Val := fun _ => .error .stuck
  /-- a collector instance called on an expression -/
  collect : Option (List String) → Expr → CR Dict := fun _ _ => .error .noClaim
  /-- the order in which `list(a_set)` enumerates a set -/
  order : List Expr → Option (List Expr) := fun _ => Option.none
  /-- iterations granted to a `while` loop -/
  wfuel : Nat := 0

def c15Assoc {α : Type} (k : String) : List (String × α) → Option α
  | [] => Option.none
  | (k', v) :: rest => if k' = k then some v else c15Assoc k rest

/-- `getattr(expr, name, …)`: `some (some s)` the string the attribute holds, `some none` the node
class has no such field, `none` the field is not string-valued (outside the reading) -/
def c15Getattr (ctx : C15Ctx) (name : String) : Option (Option String) :=
  if ctx.nodeFields.contains name then (c15Assoc name ctx.nodeStrs).map some else some Option.none

def c15Range (lo hi : Int) : List C15Val :=
  (List.range' lo.toNat (hi.toNat - lo.toNat)).map fun (i : Nat) => C15Val.int (i : Int)

def c15ExprsOf : List C15Val → Option (List Expr)
  | [] => some []
  | .ex e :: rest => (c15ExprsOf rest).map (e :: ·)
  | _ :: _ => Option.none

def c15StrsOf : List C15Val → Option (List String)
  | [] => some []
  | .str s :: rest => (c15StrsOf rest).map (s :: ·)
  | _ :: _ => Option.none

def c15IntsOf : List C15Val → Option (List Int)
  | [] => some []
  | .int n :: rest => (c15IntsOf rest).map (n :: ·)
  | _ :: _ => Option.none

/-- indices of the truthy entries of a 1-D array -/
def c15Where (i : Nat) : Row → List C15Val
  | [] => []
  | a :: rest => if a ≠ 0 then .int i :: c15Where (i + 1) rest else c15Where (i + 1) rest

def c15DepErr (e : DepErr) : C15Err := .py (depErr e)

/-- builtins, numpy functions and the hand-written primitives -/
def c15Builtin (ctx : C15Ctx) (st : C15Env) (fn : String) (args : List C15Val) : C15R C15Val :=
  match fn, args with
  | "len", [.dict d] => pure (.int d.length)
  | "len", [.list l] => pure (.int l.length)
  | "len", [.eset s] => pure (.int s.length)
  | "abs", [.int n] => pure (.int n.natAbs)
  | "int", [.int n] => pure (.int n)
  | "set", [] => pure (.eset [])
  | "set", [.list l] => match c15ExprsOf l with
    | some es => pure (.eset (unionPy [] es))
    | Option.none => throw .stuck
  | "list", [.eset s] => match ctx.order s with
    | some l => pure (.list (l.map .ex))
    | Option.none => throw (.py .noClaim)
  | "enumerate", [v] => match c15Items st v with
    | some l => pure (.list (c15Enum 0 l))
    | Option.none => throw .stuck
  | "zip", [a, b] => match c15Items st a, c15Items st b with
    | some x, some y => pure (.list (List.zipWith .pair x y))
    | _, _ => throw .stuck
  | "range", [.int hi] => pure (.list (c15Range 0 hi))
  | "range", [.int lo, .int hi] => pure (.list (c15Range lo hi))
  | "numpy.zeros", [.int a, .int b] =>
      pure (.arr b.toNat (List.replicate a.toNat (List.replicate b.toNat 0)))
  | "numpy.where", [.row r] => pure (.list [.list (c15Where 0 r)])
  | "extended_euclidean", [.int q, .int r] =>
      let res := Algo.extEuclid q r
      pure (.list [.int res.1, .int res.2.1, .int res.2.2])
  | _, _ => ctx.callFn fn args

def c15MkNode (cls : String) (args : List C15Val) : C15R C15Val :=
  match cls, args with
  | "Quotient", [a, b] => match a.toExpr?, b.toExpr? with
    | some x, some y => pure (.ex (.bin .quot x y))
    | _, _ => throw .stuck
  | "Variable", [.str s] => pure (.ex (.var s))
  | _, _ => throw .stuck

def c15Construct (ctx : C15Ctx) (cls : String) (kw : List (String × C15Val)) : C15R C15Val :=
  match cls with
  | "CoefficientCollector" =>
    -- `__init__(self, target_names=None): self.target_names = target_names`
    if ctx.init.params = [("target_names", "None")] ∧ ctx.init.stores = [("target_names", "target_names")]
    then match kw with
      | [] => pure (.collector Option.none)
      | [("target_names", .none)] => pure (.collector Option.none)
      | [("target_names", .list l)] => match c15StrsOf l with
        | some ns => pure (.collector (some ns))
        | Option.none => throw .stuck
      | _ => throw .stuck
    else throw .stuck
  | "DependencyMapper" => match kw with
    -- C09 `dep_init_current`: `composite_leaves=True` sets the three inclusion flags
    | [("composite_leaves", .bool true)] => pure (.depMapper compositeFlags)
    | _ => throw .stuck
  | _ => throw .stuck

def c15CallObj (ctx : C15Ctx) (f : C15Val) (args : List C15Val) : C15R C15Val :=
  match f, args with
  | .collector tg, [a] => match a.toExpr? with
    | some e => do pure (.dict (← c15LiftCR (ctx.collect tg e)))
    | Option.none => throw .stuck
  | .depMapper fl, [a] => match a.toExpr? with
    | some e => match deps fl e with
      | .ok s => pure (.eset s)
      | .error err => throw (c15DepErr err)
    | Option.none => throw .stuck
  | _, _ => throw .stuck

def c15Reduce (ctx : C15Ctx) (fn : String) : C15Val → List C15Val → C15R C15Val
  | acc, [] => pure acc
  | acc, x :: rest => do
      let acc' ← ctx.callFn fn [acc, x]
      c15Reduce ctx fn acc' rest

/-! ## expressions -/

mutual
def C15E.eval (ctx : C15Ctx) : C15E → C15Env → C15R C15Val
  | .lit n, _ => pure (.int n)
  | .boolLit b, _ => pure (.bool b)
  | .pyNone, _ => pure .none
  | .var x, st => match c15Get x st with
    | some v => pure v
    | Option.none => throw .stuck
  | .node, _ => match ctx.node with
    | some e => pure (.ex e)
    | Option.none => throw .stuck
  | .selfAttr a, _ => match c15Assoc a ctx.selfAttrs with
    | some v => pure v
    | Option.none => throw .stuck
  | .recField f, _ => match c15Assoc f ctx.recField with
    | some r => do pure (.dict (← c15LiftCR (r ())))
    | Option.none => throw .stuck
  | .recList f, _ => match c15Assoc f ctx.recList with
    | some rs => do
        let ds ← c15LiftCR (rs.mapM fun r => r ())
        pure (.list (ds.map .dict))
    | Option.none => throw .stuck
  | .getattrOr name dflt, st =>
    match c15Getattr ctx name with
    | some (some s) => pure (.str s)
    | some Option.none => C15E.eval ctx dflt st
    | Option.none => throw .stuck
  | .attr a name, st => do
      let v ← C15E.eval ctx a st
      match v, name with
      | .arr cols rows, "shape" => pure (.pair (.int rows.length) (.int cols))
      | _, _ => throw .stuck
  | .bin op a b, st => do
      let x ← C15E.eval ctx a st
      let y ← C15E.eval ctx b st
      c15Bin st op x y
  | .neg a, st => do
      match (← C15E.eval ctx a st) with
      | .int n => pure (.int (-n))
      | _ => throw .stuck
  | .cmp op a b, st => do
      let x ← C15E.eval ctx a st
      let y ← C15E.eval ctx b st
      pure (.bool (← c15Cmp op x y))
  | .is_ a b, st => do
      let x ← C15E.eval ctx a st
      let y ← C15E.eval ctx b st
      pure (.bool (← c15Is x y))
  | .isNot a b, st => do
      let x ← C15E.eval ctx a st
      let y ← C15E.eval ctx b st
      pure (.bool (!(← c15Is x y)))
  | .in_ a b, st => do
      let x ← C15E.eval ctx a st
      let y ← C15E.eval ctx b st
      pure (.bool (← c15In x y))
  | .notIn a b, st => do
      let x ← C15E.eval ctx a st
      let y ← C15E.eval ctx b st
      pure (.bool (!(← c15In x y)))
  | .and_ a b, st => do
      let x ← C15E.eval ctx a st
      if (← c15Truthy x) then C15E.eval ctx b st else pure x
  | .or_ a b, st => do
      let x ← C15E.eval ctx a st
      if (← c15Truthy x) then pure x else C15E.eval ctx b st
  | .not_ a, st => do
      let x ← C15E.eval ctx a st
      pure (.bool (!(← c15Truthy x)))
  | .index a i, st => do
      let av ← C15E.eval ctx a st
      let iv ← C15E.eval ctx i st
      match av with
      | .arr _ rows => match a, iv with
        | .var x, .int n =>
          if n < 0 then throw .stuck
          else if n.toNat < rows.length then pure (.rowRef x n.toNat) else throw .indexError
        | _, _ => throw .stuck
      | .dict d => match iv.toExpr? with
        | some k => match d.find k with
          | some c => pure (.ex c)
          | Option.none => throw (.py .keyError)
        | Option.none => throw .stuck
      | .list l => match iv with
        | .int n => if n < 0 then throw .stuck else match l[n.toNat]? with
          | some v => pure v
          | Option.none => throw .indexError
        | _ => throw .stuck
      | _ => throw .stuck
  | .index2 a i j, st => do
      let av ← C15E.eval ctx a st
      let iv ← C15E.eval ctx i st
      let jv ← C15E.eval ctx j st
      match av, iv.toInt?, jv.toInt? with
      | .arr cols rows, some n, some k =>
        if n < 0 then throw .stuck else match rows[n.toNat]?, c15ColIdx? cols k with
          | some r, some c => pure (.int (rowGet r c))
          | _, _ => throw .indexError
      | _, _, _ => throw .stuck
  | .col a j, st => do
      let av ← C15E.eval ctx a st
      let jv ← C15E.eval ctx j st
      match av, jv.toInt? with
      | .arr cols rows, some k => match c15ColIdx? cols k with
        | some c => pure (.row (rows.map fun r => rowGet r c))
        | Option.none => throw .indexError
      | _, _ => throw .stuck
  | .meth a m, st => do
      let av ← C15E.eval ctx a st
      match m, av with
      | "copy", v => match c15Deref st v with
        | some r => pure (.row r)
        | Option.none => throw .stuck
      | "items", .dict d => pure (.list (d.map fun kc => .pair (.ex kc.1) (.ex kc.2)))
      | "keys", .dict d => pure (.list (d.map fun kc => .ex kc.1))
      | _, _ => throw .stuck
  | .tuple2 a b, st => do
      let x ← C15E.eval ctx a st
      let y ← C15E.eval ctx b st
      pure (.pair x y)
  | .listLit es, st => do pure (.list (← C15E.evalL ctx es st))
  | .emptyDict, _ => pure (.dict [])
  | .mkDict k v, st => do
      let kv ← C15E.eval ctx k st
      let vv ← C15E.eval ctx v st
      match kv.toExpr?, vv.toExpr? with
      | some ke, some ve =>
        -- building the dictionary hashes the key
        if ke.hasList then throw (.py .typeError) else pure (.dict [(ke, ve)])
      | _, _ => throw .stuck
  | .dictComp k v p iter, st => do
      let it ← C15E.eval ctx iter st
      match c15Items st it with
      | Option.none => throw .stuck
      | some items =>
        let d ← items.foldlM (fun (acc : Dict) item =>
          match c15Bind p item st with
          | Option.none => throw C15Err.stuck
          | some st' => do
            let kv ← C15E.eval ctx k st'
            let vv ← C15E.eval ctx v st'
            match kv.toExpr?, vv.toExpr? with
            | some ke, some ve => pure (c15DictSet acc ke ve)
            | _, _ => throw C15Err.stuck) []
        pure (.dict d)
  | .listComp e p iter, st => do
      let it ← C15E.eval ctx iter st
      match c15Items st it with
      | Option.none => throw .stuck
      | some items =>
        let l ← items.mapM (fun item =>
          match c15Bind p item st with
          | Option.none => throw C15Err.stuck
          | some st' => C15E.eval ctx e st')
        pure (.list l)
  | .listCompIf e p iter c, st => do
      let it ← C15E.eval ctx iter st
      match c15Items st it with
      | Option.none => throw .stuck
      | some items =>
        let l ← items.foldlM (fun (acc : List C15Val) item =>
          match c15Bind p item st with
          | Option.none => throw C15Err.stuck
          | some st' => do
            if (← c15Truthy (← C15E.eval ctx c st')) then
              pure (acc ++ [← C15E.eval ctx e st'])
            else pure acc) []
        pure (.list l)
  | .mkNode cls args, st => do c15MkNode cls (← C15E.evalL ctx args st)
  | .call fn args, st => do c15Builtin ctx st fn (← C15E.evalL ctx args st)
  | .callStar fn arg, st => do
      match (← C15E.eval ctx arg st) with
      | .list l => c15Builtin ctx st fn l
      | _ => throw .stuck
  | .callVar f args, st => do
      match c15Get f st with
      | some fv => c15CallObj ctx fv (← C15E.evalL ctx args st)
      | Option.none => throw .stuck
  | .construct cls names vals, st => do
      let vs ← C15E.evalL ctx vals st
      c15Construct ctx cls (names.zip vs)
  | .reduce fn xs, st => do
      match (← C15E.eval ctx xs st) with
      | .list (a :: rest) => c15Reduce ctx fn a rest
      | .list [] => throw (.py .typeError)
      | _ => throw .stuck
def C15E.evalL (ctx : C15Ctx) : List C15E → C15Env → C15R (List C15Val)
  | [], _ => pure []
  | e :: es, st => do
      let v ← C15E.eval ctx e st
      let vs ← C15E.evalL ctx es st
      pure (v :: vs)
end

/-! ## statements -/

inductive C15Out where
  /-- control falls through to the next statement -/
  | ok (st : C15Env)
  | brk (st : C15Env)
  | cont (st : C15Env)
  | ret (v : C15Val)
  | err (e : C15Err)
  deriving Inhabited

def c15For (step : C15Val → C15Env → C15Out) : List C15Val → C15Env → C15Out
  | [], st => .ok st
  | item :: rest, st =>
    match step item st with
    | .ok st' => c15For step rest st'
    | .cont st' => c15For step rest st'
    | .brk st' => .ok st'
    | o => o

def c15While (cond : C15Env → C15R Bool) (body : C15Env → C15Out) : Nat → C15Env → C15Out
  | 0, st => match cond st with
    | .error e => .err e
    | .ok false => .ok st
    | .ok true => .err .stuck
  | fuel + 1, st => match cond st with
    | .error e => .err e
    | .ok false => .ok st
    | .ok true => match body st with
      | .ok st' => c15While cond body fuel st'
      | .cont st' => c15While cond body fuel st'
      | .brk st' => .ok st'
      | o => o

def c15Cond (ctx : C15Ctx) (c : C15E) (st : C15Env) : C15R Bool := do
  c15Truthy (← c.eval ctx st)

/-- store a row into `X[i]` (the array bound to `X`) -/
def c15SetRow (st : C15Env) (x : String) (i : Nat) (r : Row) : C15R C15Env :=
  match c15Get x st with
  | some (.arr cols rows) =>
    if i < rows.length then pure (c15Set x (.arr cols (rows.set i r)) st) else throw .indexError
  | _ => throw .stuck

/-- the assignments `X₁[i₁] = v₁; X₂[i₂] = v₂; …` carried out left to right; a view among the
values is read when ITS assignment happens -/
def c15StoreSubs (st : C15Env) : List String → List C15Val → List C15Val → C15R C15Env
  | [], [], [] => pure st
  | x :: xs, i :: is, v :: vs =>
    match c15Get x st with
    | some (.arr _ _) =>
      match i, c15Deref st v with
      | .int n, some r =>
        if n < 0 then throw .stuck else do
          let st' ← c15SetRow st x n.toNat r
          c15StoreSubs st' xs is vs
      | _, _ => throw .stuck
    | some (.dict d) =>
      match i.toExpr?, v.toExpr? with
      | some k, some c => c15StoreSubs (c15Set x (.dict (c15DictSet d k c)) st) xs is vs
      | _, _ => throw .stuck
    | _ => throw .stuck
  | _, _, _ => throw .stuck

def c15OfR (r : C15R C15Env) : C15Out :=
  match r with
  | .ok st => .ok st
  | .error e => .err e

mutual
def C15S.exec (ctx : C15Ctx) : C15S → C15Env → C15Out
  | .importName _ _ _, st => .ok st
  | .delegate h, _ => match ctx.delegate h with
    | .ok v => .ret v
    | .error e => .err e
  | .assign p e, st => match e.eval ctx st with
    | .error err => .err err
    | .ok v => match c15Bind p v st with
      | some st' => .ok st'
      | Option.none => .err .stuck
  | .unpack1 x e, st => match e.eval ctx st with
    | .error err => .err err
    | .ok (.list [v]) => .ok (c15Set x v st)
    | .ok (.list _) => .err .valueError
    | .ok _ => .err .stuck
  | .aug x op e, st => c15OfR do
      match c15Get x st with
      | Option.none => throw .stuck
      | some cur =>
        let v ← e.eval ctx st
        let r ← c15Bin st op cur v
        pure (c15Set x r st)
  | .setSubs xs idxs vals, st => c15OfR do
      let vs ← C15E.evalL ctx vals st
      let is ← C15E.evalL ctx idxs st
      c15StoreSubs st xs is vs
  | .augSub x i op v, st => c15OfR do
      let iv ← i.eval ctx st
      match c15Get x st with
      | some (.dict d) =>
        match iv.toExpr? with
        | Option.none => throw .stuck
        | some k =>
          -- load `D[k]` (KeyError), then the right-hand side, then the operator, then the store
          match d.find k with
          | Option.none => throw (.py .keyError)
          | some _ =>
            let vv ← v.eval ctx st
            let d' ← c15DictAug d k fun c => c15ScalarOp st op (.ex c) vv
            pure (c15Set x (.dict d') st)
      | some (.arr _ rows) =>
        match iv with
        | .int n =>
          if n < 0 then throw .stuck
          else if n.toNat < rows.length then do
            let vv ← v.eval ctx st
            match (← c15Bin st op (.rowRef x n.toNat) vv) with
            | .row r => c15SetRow st x n.toNat r
            | _ => throw .stuck
          else throw .indexError
        | _ => throw .stuck
      | _ => throw .stuck
  | .augSub2 x i j op v, st => c15OfR do
      let iv ← i.eval ctx st
      let jv ← j.eval ctx st
      match c15Get x st, iv.toInt?, jv.toInt? with
      | some (.arr cols rows), some n, some k =>
        if n < 0 then throw .stuck else
        match rows[n.toNat]?, c15ColIdx? cols k with
        | some r, some c =>
          let vv ← v.eval ctx st
          -- an object array holds Python ints in this reading
          match vv.toInt? with
          | Option.none => throw (.py .noClaim)
          | some w =>
            let e ← c15IntOp op (rowGet r c) w
            pure (c15Set x (.arr cols (rows.set n.toNat (r.set c e))) st)
        | _, _ => throw .indexError
      | _, _, _ => throw .stuck
  | .setSub2 x i j v, st => c15OfR do
      let vv ← v.eval ctx st
      let iv ← i.eval ctx st
      let jv ← j.eval ctx st
      match c15Get x st, iv.toInt?, jv.toInt? with
      | some (.arr cols rows), some n, some k =>
        if n < 0 then throw .stuck else
        match rows[n.toNat]?, c15ColIdx? cols k with
        | some r, some c =>
          match vv.toInt? with
          | Option.none => throw (.py .noClaim)
          | some w => pure (c15Set x (.arr cols (rows.set n.toNat (r.set c w))) st)
        | _, _ => throw .indexError
      | _, _, _ => throw .stuck
  | .mapValues d op v, st => c15OfR do
      match c15Get d st with
      | some (.dict dd) =>
        let d' ← c15MapValues (fun c => do
          let vv ← v.eval ctx st
          c15ScalarOp st op (.ex c) vv) dd
        pure (c15Set d (.dict d') st)
      | _ => throw .stuck
  | .setUpdate s e, st => c15OfR do
      match c15Get s st, (← e.eval ctx st) with
      | some (.eset cur), .eset more => pure (c15Set s (.eset (unionPy cur more)) st)
      | _, _ => throw .stuck
  | .forIn p iter body, st =>
    match iter.eval ctx st with
    | .error err => .err err
    | .ok it => match c15Items st it with
      | Option.none => .err .stuck
      | some items =>
        c15For (fun item st' => match c15Bind p item st' with
          | some st'' => C15S.execL ctx body st''
          | Option.none => .err .stuck) items st
  | .while_ c body, st =>
    c15While (c15Cond ctx c) (fun st' => C15S.execL ctx body st') ctx.wfuel st
  | .ifThen c body orelse, st =>
    match c15Cond ctx c st with
    | .error err => .err err
    | .ok true => C15S.execL ctx body st
    | .ok false => C15S.execL ctx orelse st
  | .deadIf, st => .ok st
  | .raise_ exc msg, _ => .err (c15ErrOf exc msg)
  | .assert_ c, st =>
    match c15Cond ctx c st with
    | .error err => .err err
    | .ok true => .ok st
    | .ok false => .err (.py .assertion)
  | .ret e, st => match e.eval ctx st with
    | .error err => .err err
    | .ok v => .ret v
  | .break_, st => .brk st
  | .continue_, st => .cont st
def C15S.execL (ctx : C15Ctx) : List C15S → C15Env → C15Out
  | [], st => .ok st
  | s :: rest, st =>
    match C15S.exec ctx s st with
    | .ok st' => C15S.execL ctx rest st'
    | o => o
end

/-- the result of a function body: the returned value; falling off the end returns `None` -/
def c15Result : C15Out → C15R C15Val
  | .ret v => pure v
  | .ok _ => pure .none
  | .err e => throw e
  | .brk _ => throw .stuck
  | .cont _ => throw .stuck

/-! ## functions of algorithm.py -/

def C15Table.fn (T : C15Table) (name : String) : Option C15Fn :=
  T.fns.find? fun f => f.name == name

def C15Table.handlerFn (T : C15Table) (name : String) : Option C15Fn :=
  T.handlers.find? fun f => f.name == name

def C15Table.classRow (T : C15Table) (cls : String) : Option C15Class :=
  T.classes.find? fun c => c.cls == cls

def c15BindParams : List String → List C15Val → C15Env → Option C15Env
  | [], [], st => some st
  | p :: ps, v :: vs, st => c15BindParams ps vs (c15Set p v st)
  | _, _, _ => Option.none

/-- call the translated function `name` (calls nested at most `fuel` deep) -/
def c15CallFn (T : C15Table) (base : C15Ctx) : Nat → String → List C15Val → C15R C15Val
  | 0, _, _ => throw .stuck
  | fuel + 1, name, args =>
    match T.fn name with
    | Option.none => throw .stuck
    | some f =>
      let st? : Option C15Env :=
        if f.vararg = "" then c15BindParams f.params args []
        else if f.params = [] then some [(f.vararg, .list args)] else Option.none
      match st? with
      | Option.none => throw .stuck
      | some st =>
        c15Result (C15S.execL { base with callFn := c15CallFn T base fuel } f.body st)

/-! ## the collector, table-driven -/

/-- attribute names of the two-operand classes, in the order of the constructor arguments -/
def _root_.PV.BinOp.c15Fields : BinOp → String × String
  | .quot | .floordiv | .rem => ("numerator", "denominator")
  | .pow => ("base", "exponent")
  | .lshift | .rshift => ("shiftee", "shift")

/-- class name of a pymbolic node; `none` for foreign objects -/
def c15ClassOf : Expr → Option String
  | .const _ | .tuple _ | .list _ => Option.none
  | .var _ => some "Variable"
  | .nary o _ => some o.name
  | .bin o _ _ => some o.name
  | .un o _ => some o.name
  | .cmp .. => some "Comparison"
  | .ite .. => some "If"
  | .call .. => some "Call"
  | .callKw .. => some "CallWithKwargs"
  | .subscript .. => some "Subscript"
  | .lookup .. => some "Lookup"
  | .cse .. => some "CommonSubexpression"
  | .subst .. => some "Substitution"
  | .deriv .. => some "Derivative"
  | .slice _ => some "Slice"
  | .nan => some "NaN"
  | .wildcard => some "Wildcard"
  | .dotWild _ => some "DotWildcard"
  | .starWild _ => some "StarWildcard"
  | .funcSym => some "FunctionSymbol"

/-- the string-valued attributes of a node, by the field names the IR assumes -/
def c15NodeStrs : Expr → List (String × String)
  | .var n => [("name", n)]
  | .lookup _ n => [("name", n)]
  | .dotWild n => [("name", n)]
  | .starWild n => [("name", n)]
  | .cmp o _ _ => [("operator", o.sym)]
  | .cse _ _ sc => [("scope", sc)]
  | _ => []

def c15Targets : Option (List String) → C15Val
  | Option.none => .none
  | some ns => .list (ns.map .str)

def c15DictOf : C15R C15Val → CR Dict
  | .ok (.dict d) => .ok d
  | .ok _ => .error .noClaim
  | .error (.py e) => .error e
  | .error _ => .error .noClaim

/-- run handler `h` on the node of `ctx` (delegations followed up to `fuel` deep) -/
def c15RunHandler (T : C15Table) (ctx : C15Ctx) : Nat → String → C15R C15Val
  | 0, _ => throw .stuck
  | fuel + 1, h =>
    match T.handlerFn h with
    | Option.none => throw .stuck
    | some f =>
      c15Result (C15S.execL { ctx with delegate := c15RunHandler T ctx fuel } f.body [])

structure C15Fields where
  recField : List (String × (Unit → CR Dict)) := []
  recList : List (String × List (Unit → CR Dict)) := []

/-- the mapper instance and the node as a handler sees them -/
def c15NodeCtx (T : C15Table) (tg : Option (List String)) (node : Expr) (fields : List String)
    (fs : C15Fields) : C15Ctx :=
  { node := some node, nodeFields := fields, nodeStrs := c15NodeStrs node,
    recField := fs.recField, recList := fs.recList, init := T.init,
    selfAttrs := T.init.stores.filterMap fun ap =>
      if ap.2 = "target_names" then some (ap.1, c15Targets tg) else Option.none }

def c15Dispatch (T : C15Table) (tg : Option (List String)) (node : Expr) (handler : String)
    (fields : List String) (fs : C15Fields) : CR Dict :=
  c15DictOf (c15RunHandler T (c15NodeCtx T tg node fields fs) 4 handler)

/-- dispatch of a pymbolic node -/
def c15Class (T : C15Table) (tg : Option (List String)) (node : Expr) (fs : C15Fields) : CR Dict :=
  match c15ClassOf node with
  | Option.none => .error .noClaim
  | some cls =>
    match T.classRow cls with
    | Option.none => .error .noClaim
    | some row => match row.handler with
      | Option.none => .error .unsupported
      | some h => c15Dispatch T tg node h row.fields fs

def _root_.PV.Const.c15Kind : Const → String
  | .int _ => "int"
  | .bool _ => "bool"
  | .flt .. => "float"
  | .str _ => "str"
  | .none => "NoneType"

/-- first rule of `map_foreign` that applies to an object of Python type `kind` -/
def c15ForeignRule (constKinds : List String) (kind : String) : List (String × String) → Option String
  | [] => Option.none
  | (test, h) :: rest =>
    let hit := match test with
      | "constant" => constKinds.contains kind
      | "list" => kind == "list"
      | "tuple" => kind == "tuple"
      | _ => false                           -- numpy arrays do not exist in the model
    if hit then some h else c15ForeignRule constKinds kind rest

/-- dispatch of a non-pymbolic object -/
def c15Foreign (T : C15Table) (tg : Option (List String)) (kind : String) (node : Expr) : CR Dict :=
  match c15ForeignRule T.constKinds kind T.foreign with
  | Option.none => if T.foreignElse = "ValueError" then .error .foreign else .error .noClaim
  | some h => c15Dispatch T tg node h [] {}

mutual
/-- `CoefficientCollector(target_names)(e)` as the table prescribes -/
def c15CoeffsT (T : C15Table) (tg : Option (List String)) : Expr → CR Dict
  | .const c => c15Foreign T tg c.c15Kind (.const c)
  | .tuple cs => c15Foreign T tg "tuple" (.tuple cs)
  | .list cs => c15Foreign T tg "list" (.list cs)
  | .var n => c15Class T tg (.var n) {}
  | .nary o cs =>
      c15Class T tg (.nary o cs) { recList := [("children", c15CoeffsTL T tg cs)] }
  | .bin o a b =>
      c15Class T tg (.bin o a b)
        { recField := [(o.c15Fields.1, fun _ => c15CoeffsT T tg a),
                       (o.c15Fields.2, fun _ => c15CoeffsT T tg b)] }
  | .un o a => c15Class T tg (.un o a) { recField := [("child", fun _ => c15CoeffsT T tg a)] }
  | .cmp o a b =>
      c15Class T tg (.cmp o a b)
        { recField := [("left", fun _ => c15CoeffsT T tg a), ("right", fun _ => c15CoeffsT T tg b)] }
  | .ite c t e =>
      c15Class T tg (.ite c t e)
        { recField := [("condition", fun _ => c15CoeffsT T tg c), ("then", fun _ => c15CoeffsT T tg t),
                       ("else_", fun _ => c15CoeffsT T tg e)] }
  | .call f as =>
      c15Class T tg (.call f as)
        { recField := [("function", fun _ => c15CoeffsT T tg f)],
          recList := [("parameters", c15CoeffsTL T tg as)] }
  | .callKw f as ns vs =>
      c15Class T tg (.callKw f as ns vs)
        { recField := [("function", fun _ => c15CoeffsT T tg f)],
          recList := [("parameters", c15CoeffsTL T tg as)] }
  | .subscript a i =>
      c15Class T tg (.subscript a i)
        { recField := [("aggregate", fun _ => c15CoeffsT T tg a), ("index", fun _ => c15CoeffsT T tg i)] }
  | .lookup a n =>
      c15Class T tg (.lookup a n) { recField := [("aggregate", fun _ => c15CoeffsT T tg a)] }
  | .cse c p sc => c15Class T tg (.cse c p sc) { recField := [("child", fun _ => c15CoeffsT T tg c)] }
  | .subst c vars vals =>
      c15Class T tg (.subst c vars vals)
        { recField := [("child", fun _ => c15CoeffsT T tg c)],
          recList := [("values", c15CoeffsTL T tg vals)] }
  | .deriv c vars =>
      c15Class T tg (.deriv c vars) { recField := [("child", fun _ => c15CoeffsT T tg c)] }
  | .slice cs => c15Class T tg (.slice cs) { recList := [("children", c15CoeffsTL T tg cs)] }
  | .nan => c15Class T tg .nan {}
  | .wildcard => c15Class T tg .wildcard {}
  | .dotWild n => c15Class T tg (.dotWild n) {}
  | .starWild n => c15Class T tg (.starWild n) {}
  | .funcSym => c15Class T tg .funcSym {}
/-- the suspended calls `self.rec(c)` for the elements of a tuple-valued attribute -/
def c15CoeffsTL (T : C15Table) (tg : Option (List String)) : List Expr → List (Unit → CR Dict)
  | [] => []
  | c :: cs => (fun _ => c15CoeffsT T tg c) :: c15CoeffsTL T tg cs
end

/-! ## entry points -/

/-- the context in which the functions of algorithm.py run -/
def c15AlgoCtx (T : C15Table) (order : List Expr → Option (List Expr)) (wfuel : Nat) : C15Ctx :=
  { init := T.init, collect := c15CoeffsT T, order := order, wfuel := wfuel }

def c15RowsOf : C15Val → Option (List Row)
  | .arr _ rows => some rows
  | _ => Option.none

/-- `gaussian_elimination(mat, rhs)` on an integer system: `mat` has `n` columns -/
def c15RunGauss (T : C15Table) (n : Nat) (s : List ARow) : C15R (List ARow) := do
  let w := (s.head?.map fun r => r.2.length).getD 0
  match (← c15CallFn T (c15AlgoCtx T (fun _ => Option.none) n) 4 "gaussian_elimination"
      [.arr n (s.map (·.1)), .arr w (s.map (·.2))]) with
  | .pair (.arr _ a) (.arr _ b) => pure (a.zip b)
  | _ => throw .stuck

/-- `solve_affine_equations_for(unknowns, equations)`; `order` is the enumeration order of the
parameter set.  Result: the returned dictionary. -/
def c15RunSolve (T : C15Table) (order : List Expr → Option (List Expr)) (names : List String)
    (eqs : List (Expr × Expr)) : C15R Dict := do
  match (← c15CallFn T (c15AlgoCtx T order names.length) 5 "solve_affine_equations_for"
      [.list (names.map .str), .list (eqs.map fun lr => .pair (.ex lr.1) (.ex lr.2))]) with
  | .dict d => pure d
  | _ => throw .stuck

end PV.Coeff
