import PV.Model.Prec
/-
  C13.  The precedence table that makes the parser model (`PV/Model/Parser.lean`) group the way
  PYTHON's expression grammar does (The Python Language Reference, 6.17 "Operator precedence",
  weakest first):

      conditional expression  <  or  <  and  <  not  <  comparisons  <  |  <  ^  <  &  <  shifts
        <  + -  <  * / // %  <  unary - ~ +  <  **  <  call / subscript / attribute

  `**` binds tighter than a unary operator on its left (`-a**b` is `-(a**b)`) and looser than one
  on its right (`a**-b`): in the parser scheme the operand of a prefix operator is read at level
  `unary` and `**` is absorbed iff `power > unary`, and the right operand of `**` is read at the
  level of `*`, below `unary`.

  Hand-written once; tied to CPython's `ast.parse` on every run by the stream `py-table` of
  harness/props/c13.py.  What the SCHEME of the parser model cannot express whatever the numbers
  (the keyword `not`, which Python ranks between `and` and the comparisons; comparison chains; the
  right operand of `*` read at the level of a sum; the else-branch of a conditional read at the
  lowest level) is listed in `PV.C13.python_table_grouping` / `python_table_prefix` and excluded
  from that stream.
-/
namespace PV.C13

def pythonPrec : ParserPrec :=
  { comma := 5, slice := 10, ifp := 75, lor := 80, land := 90, comparison := 100,
    bor := 110, bxor := 120, band := 130, shift := 140, plus := 150, times := 160,
    unary := 170, power := 180, call := 190 }

/-- Python's level of the prefix keyword `not` (between `and` and the comparisons); the parser
scheme has one level for all prefix operators, so this number is used by the local condition of
C13 only -/
def pyNotLevel : Nat := 95

end PV.C13
