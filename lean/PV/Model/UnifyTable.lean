import PV.Model.Unify
import PV.Model.TravTable
/-
  C16 (T-gen).  pymbolic/mapper/unifier.py as plain DATA — every function of the module
  (`unify_map`, `UnificationRecord.__init__ / unify`, `unify_many`, `UnifierBase.__init__ /
  unification_record_from_equation / map_* / __call__`, `UnidirectionalUnifier.treat_mismatch /
  map_commut_assoc` with its nested generators `match_children`, `match_plain_var_candidates`,
  `subsets`, `partitions`, `map_sum`, `map_product`) translated STATEMENT BY STATEMENT by
  extract/unifier.py into the small language below and written to lean/PV/Generated/Unifier.lean on
  every run — and the reading of that data:

    * `C16E` / `C16S` / `C16Fn`   expressions, statements (assignment, `if`, `for … else`, `break`,
                                  `continue`, `return`, `yield`, `yield from`, list / dict / attribute
                                  updates) and functions as the source has them
    * `C16E.eval`, `C16S.exec`    what they do, for ANY meaning of the calls that leave the function
                                  (`C16Ctx`: `self.rec`, the other functions of the module, the
                                  nested generators) — recursion is left open, as in PV/Model/TravTable
    * `C16Table`, `c16Step`       classes with MRO and class-body attributes (`map_floor_div =
                                  map_quotient` …), Python attribute resolution, and ONE dispatched
                                  handler call `self.rec(expr, other, urecs)` of a
                                  `UnidirectionalUnifier`

  Nothing here knows what any function of the current source does.  PV/Proofs/UnifyTable.lean proves
  that the hand-written model (PV/Model/Unify.lean) solves the equations the regenerated table
  prescribes, and is the only solution.

  Reading conventions (what stays hand-written):
    * Python objects are `C16Val`s; lists the code builds are VALUES (rebinding instead of mutation):
      the reader rejects a function in which a mutated list / dict could be observed through an alias.
    * a `set` of small integers iterates in ascending order (CPython, fewer than 8 elements — the
      bound of the model's fragment); `set(t)` of an ascending tuple is that tuple.
    * the `equations` of a record are carried as an opaque value (`eqSet`: a `set`, whose order is
      hash-dependent); `lmap` / `rmap` are what the model and the theorems speak about.
    * indexing a tuple of expressions beyond its end gives `0` (as `ds.getD i zero` in the model; the
      code only indexes with elements of `range(len(other.children))`).
    * `isinstance(x, C)` compares class names (the node classes of the model have no subclasses
      among themselves); `a == b` of two objects is `Expr.pyEq`.
    * `itertools.combinations`, `flattened_sum` / `flattened_product` (PV/Model/Ops.lean, tied by
      C03), `pytools.generate_permutations` (raises on `range` objects longer than 1) are primitives.
-/
namespace PV.Unify
open PV

/-! ## the language -/

inductive C16Cmp where
  | eq | ne | ge | in_ | notIn | is_ | isNot
  deriving Repr, DecidableEq, Inhabited

inductive C16Arith where
  | add | sub
  deriving Repr, DecidableEq, Inhabited

/-- built-in functions (the reader checks that the name really is the built-in / library object) -/
inductive C16Builtin where
  | len | isinstance | type_ | range | set | enumerate | zip | list
  /-- `itertools.combinations` -/
  | combinations
  /-- `pytools.generate_permutations` -/
  | permutations
  deriving Repr, DecidableEq, Inhabited

inductive C16E where
  /-- a local variable, parameter or variable of the enclosing function -/
  | name (x : String)
  | pyNone
  | bool (b : Bool)
  | int (n : Int)
  /-- `[]` -/
  | nil
  /-- `{}` -/
  | emptyDict
  /-- a class named in the module (`Variable`, `tuple`, `list`) -/
  | clsRef (c : String)
  /-- `flattened_sum` / `flattened_product` passed as a value -/
  | factoryRef (o : NaryOp)
  /-- `e.f` -/
  | attr (e : C16E) (f : String)
  | builtin (b : C16Builtin) (args : List C16E)
  /-- `map(set, e)` -/
  | mapSet (e : C16E)
  /-- a function / class of the module called by name: `unify_map`, `unify_many`,
  `UnificationRecord` -/
  | fnCall (f : String) (args : List C16E)
  /-- a nested generator function called by name -/
  | localCall (f : String) (args : List C16E)
  /-- a function-valued variable called: `factory(…)` -/
  | varCall (x : String) (args : List C16E)
  /-- `self.m(…)` -/
  | selfCall (m : String) (args : List C16E)
  /-- `e.m(…)` on another object: `result.unify(rec)`, `map1.copy()`, `map2.items()` -/
  | meth (e : C16E) (m : String) (args : List C16E)
  | cmp (op : C16Cmp) (a b : C16E)
  /-- `a op1 b op2 c` -/
  | cmp3 (op1 op2 : C16Cmp) (a b c : C16E)
  | and_ (a b : C16E)
  | or_ (a b : C16E)
  | not_ (a : C16E)
  | arith (op : C16Arith) (a b : C16E)
  /-- `a[i]` -/
  | index (a i : C16E)
  /-- `(a, b)` -/
  | tuple (items : List C16E)
  /-- `[a, …]` -/
  | list (items : List C16E)
  /-- `[a, *b]` -/
  | listStar (a b : C16E)
  /-- `{a}` -/
  | setLit (items : List C16E)
  /-- `(elt for var in iter)` -/
  | gen (elt : C16E) (var : String) (iter : C16E)
  deriving Repr, Inhabited

inductive C16S where
  | assign (x : String) (e : C16E)
  /-- `x, = e` -/
  | unpack1 (x : String) (e : C16E)
  /-- `self.f = e` -/
  | setAttr (f : String) (e : C16E)
  /-- `x[k] = v` -/
  | setItem (x : String) (k v : C16E)
  /-- `x.append(e)` -/
  | append (x : String) (e : C16E)
  /-- `x.extend(e)` -/
  | extend (x : String) (e : C16E)
  /-- `x.update(e)` -/
  | update (x : String) (e : C16E)
  | ifThen (c : C16E) (t e : List C16S)
  /-- `for t₁, … in iter: body  else: orelse` -/
  | forIn (targets : List String) (iter : C16E) (body orelse : List C16S)
  | ret (e : Option C16E)
  | yield_ (e : C16E)
  | yieldFrom (e : C16E)
  | brk
  | cont
  | raise_ (exc : String)
  /-- the place of a nested `def` (the function is in the table under its qualified name) -/
  | def_ (name : String)
  /-- `from M import a, …` inside a function (names resolved by the reader) -/
  | import_ (names : List String)
  deriving Repr, Inhabited

structure C16Fn where
  /-- qualified name: `unify_map`, `UnifierBase.map_call`,
  `UnidirectionalUnifier.map_commut_assoc.match_children` -/
  name : String
  /-- parameters with their defaults -/
  params : List (String × Option C16E)
  /-- the other names the body binds, in order of first binding -/
  locals : List String
  isGen : Bool
  body : List C16S
  deriving Repr, Inhabited

/-- a class of the module and the classes it inherits from -/
structure C16Class where
  name : String
  /-- `cls.__mro__` without `object`, own class first -/
  mro : List String
  deriving Repr, DecidableEq, Inhabited

/-- an attribute bound in a class body: `def f` binds `f` to `Cls.f`; `map_product = map_sum` binds
`map_product` to the function `map_sum` names at that point -/
structure C16Bind where
  cls : String
  attr : String
  impl : String
  deriving Repr, DecidableEq, Inhabited

structure C16Table where
  fns : List C16Fn
  classes : List C16Class
  binds : List C16Bind
  /-- the function `UnidirectionalUnifier.rec` is (`Mapper.__call__`: plain dispatch) -/
  recImpl : String
  /-- how `UnidirectionalUnifier(cands)` reaches `UnifierBase.__init__` -/
  initImpl : String
  /-- names the functions use that are neither local nor defined here, and what they are -/
  globals : List (String × String)
  /-- functions of the module that are NOT translated (name, reason) -/
  untranslated : List (String × String)
  deriving Repr, Inhabited

/-! ## values -/

inductive C16Val where
  /-- a local that is not bound yet -/
  | unbound
  | none
  | bool (b : Bool)
  | int (i : Int)
  | str (s : String)
  /-- a node, a constant, a Python tuple / list of such -/
  | obj (e : Expr)
  /-- a Python list / generator of objects built by the code -/
  | objs (l : List Expr)
  | cls (c : String)
  | clss (l : List String)
  /-- a set of names (`lhs_mapping_candidates`) -/
  | strs (l : List String)
  | dict (m : AMap)
  | urec (r : URec)
  | recs (l : List URec)
  /-- a set / tuple / range of small integers, ascending -/
  | idxs (l : List Nat)
  /-- a list of such sets -/
  | parts (l : List (List Nat))
  /-- `i_matches`: pairs `(j, records)` -/
  | row (l : List (Nat × List URec))
  /-- `unification_candidates` -/
  | table (l : List (List (Nat × List URec)))
  /-- a list of `(lhs, rhs)` tuples -/
  | eqs (l : List (Expr × Expr))
  /-- a set of equations (no order) -/
  | eqSet
  /-- a 2-tuple -/
  | tup (a b : C16Val)
  /-- what `zip` / `enumerate` / a generator produces: any values, in order -/
  | seq (l : List C16Val)
  /-- the mapper instance -/
  | self
  | factory (o : NaryOp)
  deriving Inhabited

abbrev C16Env := List (String × C16Val)

def C16Env.get (x : String) : C16Env → Option C16Val
  | [] => Option.none
  | (n, v) :: rest => if n = x then some v else C16Env.get x rest

/-- rebind `x` (first binding replaced; a new name is added at the end) -/
def C16Env.set (x : String) (v : C16Val) : C16Env → C16Env
  | [] => [(x, v)]
  | (n, w) :: rest => if n = x then (n, v) :: rest else (n, w) :: C16Env.set x v rest

/-- who is called -/
inductive C16Callee where
  /-- a function or class of the module, by name: `unify_map`, `unify_many`, `UnificationRecord` -/
  | modfn (name : String)
  /-- a method of a record: `UnificationRecord.unify` -/
  | meth (cls m : String)
  /-- `self.m(…)` on the mapper -/
  | self (m : String)
  /-- a nested function, by qualified name -/
  | nested (q : String)
  deriving Repr, DecidableEq, Inhabited

/-- everything that leaves the function being run -/
structure C16Ctx where
  /-- `self.rec(expr, other, urecs)` -/
  recur : Expr → Expr → List URec → List URec
  /-- functions / constructors / methods returning a value, by name (`unify_map`,
  `UnificationRecord`, `UnificationRecord.unify`, `unify_many`, `self.treat_mismatch`, …) -/
  fn : C16Callee → List C16Val → Option C16Val
  /-- generator functions, by name; the first argument is what a nested function sees of the
  function that encloses it -/
  gen : C16Env → C16Callee → List C16Val → Option (List C16Val)
  /-- variables of the enclosing function while a NESTED function runs (`none`: a function that
  is not nested — its own variables are what the nested functions it calls see) -/
  closure : Option C16Env
  /-- attributes of the mapper instance -/
  selfAttrs : C16Env

/-! ### primitives -/

def c16IsSeq : Expr → Bool
  | .tuple _ => true
  | .list _ => true
  | _ => false

def c16Elems : Expr → Option (List Expr)
  | .tuple cs => some cs
  | .list cs => some cs
  | _ => Option.none

/-- the attributes of an object the module reads -/
def _root_.PV.Expr.c16Attr : Expr → String → Option C16Val
  | .var x, "name" => some (.str x)
  | .nary _ cs, "children" => some (.obj (.tuple cs))
  | .bin .pow a _, "base" => some (.obj a)
  | .bin .pow _ b, "exponent" => some (.obj b)
  | .bin .lshift a _, "shiftee" => some (.obj a)
  | .bin .lshift _ b, "shift" => some (.obj b)
  | .bin .rshift a _, "shiftee" => some (.obj a)
  | .bin .rshift _ b, "shift" => some (.obj b)
  | .bin .quot a _, "numerator" => some (.obj a)
  | .bin .quot _ b, "denominator" => some (.obj b)
  | .bin .floordiv a _, "numerator" => some (.obj a)
  | .bin .floordiv _ b, "denominator" => some (.obj b)
  | .bin .rem a _, "numerator" => some (.obj a)
  | .bin .rem _ b, "denominator" => some (.obj b)
  | .un _ a, "child" => some (.obj a)
  | .cmp _ a _, "left" => some (.obj a)
  | .cmp o _ _, "operator" => some (.str o.sym)
  | .cmp _ _ b, "right" => some (.obj b)
  | .ite c _ _, "condition" => some (.obj c)
  | .ite _ t _, "then" => some (.obj t)
  | .ite _ _ e, "else_" => some (.obj e)
  | .call f _, "function" => some (.obj f)
  | .call _ as, "parameters" => some (.obj (.tuple as))
  | .subscript a _, "aggregate" => some (.obj a)
  | .subscript _ i, "index" => some (.obj i)
  | .lookup a _, "aggregate" => some (.obj a)
  | .lookup _ n, "name" => some (.str n)
  | _, _ => Option.none

def C16Val.attr (cx : C16Ctx) : C16Val → String → Option C16Val
  | .obj e, f => e.c16Attr f
  | .urec r, "lmap" => some (.dict r.lmap)
  | .urec r, "rmap" => some (.dict r.rmap)
  | .urec _, "equations" => some .eqSet
  | .self, f => C16Env.get f cx.selfAttrs
  | _, _ => Option.none

/-- Python truthiness -/
def C16Val.truthy : C16Val → Option Bool
  | .none => some false
  | .bool b => some b
  | .int i => some (i != 0)
  | .urec _ => some true
  | .recs l => some (!l.isEmpty)
  | .objs l => some (!l.isEmpty)
  | .row l => some (!l.isEmpty)
  | .idxs l => some (!l.isEmpty)
  | .strs l => some (!l.isEmpty)
  | .str s => some (s != "")
  | .dict m => some (!m.isEmpty)
  | _ => Option.none

def C16Val.len : C16Val → Option Nat
  | .obj e => (c16Elems e).map List.length
  | .objs l => some l.length
  | .recs l => some l.length
  | .idxs l => some l.length
  | .parts l => some l.length
  | .row l => some l.length
  | .table l => some l.length
  | .eqs l => some l.length
  | .dict m => some m.length
  | _ => Option.none

/-- what a `for` loop / `yield from` / `list(…)` sees of a value -/
def C16Val.iter : C16Val → Option (List C16Val)
  | .obj e => (c16Elems e).map (·.map .obj)
  | .objs l => some (l.map .obj)
  | .recs l => some (l.map .urec)
  | .idxs l => some (l.map fun i => .int (Int.ofNat i))
  | .parts l => some (l.map .idxs)
  | .row l => some (l.map fun p => .tup (.int (Int.ofNat p.1)) (.recs p.2))
  | .table l => some (l.map .row)
  | .eqs l => some (l.map fun p => .tup (.obj p.1) (.obj p.2))
  | .strs l => some (l.map .str)
  | .seq l => some l
  | _ => Option.none

/-- a list of records as a value: the empty list is the (kind-less) `[]` -/
def C16Val.ofRecs : List URec → C16Val
  | [] => .objs []
  | l => .recs l

def C16Val.asRecs : C16Val → Option (List URec)
  | .recs l => some l
  | .objs [] => some []
  | _ => Option.none

def C16Val.ofRow : List (Nat × List URec) → C16Val
  | [] => .objs []
  | l => .row l

def C16Val.ofTable : List (List (Nat × List URec)) → C16Val
  | [] => .objs []
  | l => .table l

def C16Val.asTable : C16Val → Option (List (List (Nat × List URec)))
  | .table l => some l
  | .objs [] => some []
  | _ => Option.none

def C16Val.ofOptRec : Option URec → C16Val
  | some r => .urec r
  | Option.none => .none

def c16KindOf : C16Val → Option String
  | .obj e => some e.kind
  | .none => some "NoneType"
  | _ => Option.none

def c16IsInstance (v c : C16Val) : Option Bool :=
  match c16KindOf v, c with
  | some k, .cls n => some (k == n)
  | some k, .clss ns => some (ns.contains k)
  | _, _ => Option.none

def c16Cmp (op : C16Cmp) (a b : C16Val) : Option Bool :=
  match op, a, b with
  | .eq, .obj x, .obj y => some (x.pyEq y)
  | .ne, .obj x, .obj y => some (!x.pyEq y)
  | .eq, .int x, .int y => some (x == y)
  | .ne, .int x, .int y => some (x != y)
  | .ge, .int x, .int y => some (decide (x ≥ y))
  | .eq, .str x, .str y => some (x == y)
  | .ne, .str x, .str y => some (x != y)
  | .in_, .str x, .dict m => some (m.keys.contains x)
  | .notIn, .str x, .dict m => some (!m.keys.contains x)
  | .in_, .str x, .strs l => some (l.contains x)
  | .notIn, .str x, .strs l => some (!l.contains x)
  | .in_, .int x, .idxs l => some (decide (0 ≤ x) && l.contains x.toNat)
  | .notIn, .int x, .idxs l => some (!(decide (0 ≤ x) && l.contains x.toNat))
  | .is_, .unbound, _ => Option.none
  | .isNot, .unbound, _ => Option.none
  | .is_, .none, .none => some true
  | .isNot, .none, .none => some false
  | .is_, _, .none => some false
  | .isNot, _, .none => some true
  | _, _, _ => Option.none

def c16Arith (op : C16Arith) (a b : C16Val) : Option C16Val :=
  match op, a, b with
  | .add, .int x, .int y => some (.int (x + y))
  | .sub, .int x, .int y => some (.int (x - y))
  | .sub, .idxs s, .idxs t => some (.idxs (s.filter fun i => !t.contains i))
  | _, _, _ => Option.none

def c16Index (a i : C16Val) : Option C16Val :=
  match a, i with
  | .dict m, .str k => (AMap.get m k).map .obj
  | .obj e, .int n =>
    match c16Elems e with
    | some cs => if 0 ≤ n then some (.obj (cs.getD n.toNat zero)) else Option.none
    | Option.none => Option.none
  | .table t, .int n => if 0 ≤ n then (t[n.toNat]?).map .row else Option.none
  | _, _ => Option.none

/-- the value a list display / `list(…)` of these elements is -/
def c16Collect : List C16Val → Option C16Val
  | [] => some (.objs [])
  | .obj e :: rest => match c16Collect rest with
    | some (.objs l) => some (.objs (e :: l))
    | _ => Option.none
  | .urec r :: rest => match c16Collect rest with
    | some (.recs l) => some (.recs (r :: l))
    | some (.objs []) => some (.recs [r])
    | _ => Option.none
  | .idxs s :: rest => match c16Collect rest with
    | some (.parts l) => some (.parts (s :: l))
    | some (.objs []) => some (.parts [s])
    | _ => Option.none
  | .int i :: rest => match c16Collect rest with
    | some (.idxs l) => if 0 ≤ i then some (.idxs (i.toNat :: l)) else Option.none
    | some (.objs []) => if 0 ≤ i then some (.idxs [i.toNat]) else Option.none
    | _ => Option.none
  | .tup (.obj a) (.obj b) :: rest => match c16Collect rest with
    | some (.eqs l) => some (.eqs ((a, b) :: l))
    | some (.objs []) => some (.eqs [(a, b)])
    | _ => Option.none
  | _ :: _ => Option.none

/-- `x.append(v)` -/
def c16Append (x v : C16Val) : Option C16Val :=
  match x, v with
  | .objs l, .obj e => some (.objs (l ++ [e]))
  | .objs [], .urec r => some (.recs [r])
  | .recs l, .urec r => some (.recs (l ++ [r]))
  | .objs [], .tup (.int j) (.recs rs) => if 0 ≤ j then some (.row [(j.toNat, rs)]) else Option.none
  | .row l, .tup (.int j) (.recs rs) => if 0 ≤ j then some (.row (l ++ [(j.toNat, rs)])) else Option.none
  | .objs [], .row r => some (.table [r])
  | .objs [], .objs [] => some (.table [[]])
  | .table t, .row r => some (.table (t ++ [r]))
  | .table t, .objs [] => some (.table (t ++ [[]]))
  | _, _ => Option.none

/-- `x.extend(v)` -/
def c16Extend (x v : C16Val) : Option C16Val :=
  match x, v with
  | .objs [], .recs l => some (.recs l)
  | .recs l, .recs l' => some (.recs (l ++ l'))
  | .recs l, .objs [] => some (.recs l)
  | .objs l, .objs l' => some (.objs (l ++ l'))
  | _, _ => Option.none

/-- `d[k] = v` on a dict (insertion order; an existing key keeps its place) -/
def AMap.put (k : String) (v : Expr) : AMap → AMap
  | [] => [(k, v)]
  | (n, w) :: rest => if n = k then (n, v) :: rest else (n, w) :: AMap.put k v rest

def c16EnumFrom : Nat → List C16Val → List C16Val
  | _, [] => []
  | n, v :: rest => .tup (.int (Int.ofNat n)) v :: c16EnumFrom (n + 1) rest

def c16Zip : List C16Val → List C16Val → List C16Val
  | a :: as, b :: bs => .tup a b :: c16Zip as bs
  | _, _ => []

/-- `range(a, b)` for `0 ≤ a` -/
def c16Range (a b : Int) : List Nat :=
  if 0 ≤ a then (List.range (b - a).toNat).map (· + a.toNat) else []

/-! ### calls that are not expressions of the language -/

def c16Builtin (b : C16Builtin) (args : List C16Val) : Option C16Val :=
  match b, args with
  | .len, [v] => v.len.map fun n => .int (Int.ofNat n)
  | .isinstance, [v, k] => (c16IsInstance v k).map .bool
  | .type_, [v] => (c16KindOf v).map .cls
  | .range, [.int n] => some (.idxs (c16Range 0 n))
  | .range, [.int m, .int n] => some (.idxs (c16Range m n))
  | .set, [.idxs l] => some (.idxs l)
  | .set, [.eqs _] => some .eqSet
  | .set, [.objs []] => some .eqSet
  | .set, [.eqSet] => some .eqSet
  | .list, [.eqSet] => some .eqSet
  | .list, [v] => match v.iter with
    | some items => c16Collect items
    | Option.none => Option.none
  | .zip, [a, b] => match a.iter, b.iter with
    | some xs, some ys => some (.seq (c16Zip xs ys))
    | _, _ => Option.none
  | .enumerate, [a] => a.iter.map fun xs => .seq (c16EnumFrom 0 xs)
  | .combinations, [.idxs l, .int n] =>
    if 0 ≤ n then some (.parts (combinations l n.toNat)) else Option.none
  | .permutations, [.idxs l] => if l.length ≤ 1 then some (.parts [l]) else Option.none
  | _, _ => Option.none

/-- `self.m(…)`: `rec` is the dispatch, `map_commut_assoc` a generator, the rest plain methods -/
def c16SelfCall (cx : C16Ctx) (env : C16Env) (m : String) (args : List C16Val) : Option C16Val :=
  if m = "rec" then
    match args with
    | [.obj x, .obj y, u] => u.asRecs.map fun us => C16Val.ofRecs (cx.recur x y us)
    | _ => Option.none
  else if m = "map_commut_assoc" then
    (cx.gen (cx.closure.getD env) (.self m) args).map .seq
  else cx.fn (.self m) args

/-- `v.m(…)` on a value that is not the mapper -/
def c16Meth (cx : C16Ctx) (v : C16Val) (m : String) (args : List C16Val) : Option C16Val :=
  match v, m, args with
  | .dict d, "copy", [] => some (.dict d)
  | .dict d, "items", [] => some (.seq (d.map fun p => .tup (.str p.1) (.obj p.2)))
  | .urec r, "unify", [a] => cx.fn (.meth "UnificationRecord" "unify") [.urec r, a]
  | _, _, _ => Option.none

/-! ### expressions -/

def C16Val.isUnbound : C16Val → Bool
  | .unbound => true
  | _ => false

/-- a name: a local of the running function, else a variable of the enclosing one -/
def c16Lookup (cx : C16Ctx) (env : C16Env) (x : String) : Option C16Val :=
  match C16Env.get x env with
  | some v => if v.isUnbound then Option.none else some v
  | Option.none =>
    match C16Env.get x (cx.closure.getD []) with
    | some v => if v.isUnbound then Option.none else some v
    | Option.none => Option.none

/-- `factory(items)` -/
def c16Factory (f : Option C16Val) (items : Option (List C16Val)) : Option C16Val :=
  match f, items with
  | some (.factory o), some vs =>
    match c16Collect vs with
    | some (.objs l) => some (.obj (factory o l))
    | _ => Option.none
  | _, _ => Option.none

mutual
/-- the value of an expression (`none`: no meaning — an unbound name, an operation on a value of
the wrong kind, an exception) -/
def C16E.eval (cx : C16Ctx) (env : C16Env) : C16E → Option C16Val
  | .name x => c16Lookup cx env x
  | .pyNone => some .none
  | .bool b => some (.bool b)
  | .int n => some (.int n)
  | .nil => some (.objs [])
  | .emptyDict => some (.dict [])
  | .clsRef c => some (.cls c)
  | .factoryRef o => some (.factory o)
  | .attr e f =>
    match C16E.eval cx env e with
    | some v => v.attr cx f
    | Option.none => Option.none
  | .builtin b args =>
    match C16E.evalArgs cx env args with
    | some vs => c16Builtin b vs
    | Option.none => Option.none
  | .mapSet e => C16E.eval cx env e
  | .fnCall f args =>
    match C16E.evalArgs cx env args with
    | some vs => cx.fn (.modfn f) vs
    | Option.none => Option.none
  | .localCall f args =>
    match C16E.evalArgs cx env args with
    | some vs => (cx.gen (cx.closure.getD env) (.nested f) vs).map .seq
    | Option.none => Option.none
  | .varCall x args =>
    match C16E.evalArgs cx env args with
    | some [v] => c16Factory (c16Lookup cx env x) v.iter
    | _ => Option.none
  | .selfCall m args =>
    match C16E.evalArgs cx env args with
    | some vs => c16SelfCall cx env m vs
    | Option.none => Option.none
  | .meth e m args =>
    match C16E.eval cx env e, C16E.evalArgs cx env args with
    | some v, some vs => c16Meth cx v m vs
    | _, _ => Option.none
  | .cmp op a b =>
    match C16E.eval cx env a, C16E.eval cx env b with
    | some x, some y => (c16Cmp op x y).map .bool
    | _, _ => Option.none
  | .cmp3 op1 op2 a b c =>
    match C16E.eval cx env a, C16E.eval cx env b with
    | some x, some y =>
      match c16Cmp op1 x y with
      | some false => some (.bool false)
      | some true =>
        match C16E.eval cx env c with
        | some z => (c16Cmp op2 y z).map .bool
        | Option.none => Option.none
      | Option.none => Option.none
    | _, _ => Option.none
  | .and_ a b =>
    match C16E.eval cx env a with
    | some x =>
      match x.truthy with
      | some false => some x
      | some true => C16E.eval cx env b
      | Option.none => Option.none
    | Option.none => Option.none
  | .or_ a b =>
    match C16E.eval cx env a with
    | some x =>
      match x.truthy with
      | some true => some x
      | some false => C16E.eval cx env b
      | Option.none => Option.none
    | Option.none => Option.none
  | .not_ a =>
    match C16E.eval cx env a with
    | some x => x.truthy.map fun t => .bool (!t)
    | Option.none => Option.none
  | .arith op a b =>
    match C16E.eval cx env a, C16E.eval cx env b with
    | some x, some y => c16Arith op x y
    | _, _ => Option.none
  | .index a i =>
    match C16E.eval cx env a, C16E.eval cx env i with
    | some x, some y => c16Index x y
    | _, _ => Option.none
  | .tuple items =>
    match C16E.evalArgs cx env items with
    | some [.cls a, .cls b] => some (.clss [a, b])
    | some [x, y] => some (.tup x y)
    | _ => Option.none
  | .list items =>
    match C16E.evalArgs cx env items with
    | some vs => c16Collect vs
    | Option.none => Option.none
  | .listStar a b =>
    match C16E.eval cx env a, C16E.eval cx env b with
    | some (.idxs s), some (.parts p) => some (.parts (s :: p))
    | _, _ => Option.none
  | .setLit items =>
    match C16E.evalArgs cx env items with
    | some [.int i] => if 0 ≤ i then some (.idxs [i.toNat]) else Option.none
    | _ => Option.none
  | .gen elt v it =>
    match C16E.eval cx env it with
    | some c =>
      match c.iter with
      | some is => (is.mapM fun i => C16E.eval cx (C16Env.set v i env) elt).map .seq
      | Option.none => Option.none
    | Option.none => Option.none
/-- arguments, left to right -/
def C16E.evalArgs (cx : C16Ctx) (env : C16Env) : List C16E → Option (List C16Val)
  | [] => some []
  | a :: rest =>
    match C16E.eval cx env a, C16E.evalArgs cx env rest with
    | some v, some vs => some (v :: vs)
    | _, _ => Option.none
end

/-- the items an iterable expression produces, in order -/
def C16E.evalIter (cx : C16Ctx) (env : C16Env) (e : C16E) : Option (List C16Val) :=
  match e.eval cx env with
  | some v => v.iter
  | Option.none => Option.none

/-! ### statements -/

inductive C16Ctl where
  | run
  | ret (v : C16Val)
  | brk
  | cont
  | raised (exc : String)
  /-- the statement has no meaning in this reading -/
  | stuck
  deriving Inhabited

structure C16St where
  env : C16Env
  /-- attributes written to `self` -/
  attrs : C16Env := []
  /-- what a generator has yielded so far -/
  out : List C16Val := []
  ctl : C16Ctl := .run
  deriving Inhabited

def C16St.stuck (st : C16St) : C16St := { st with ctl := .stuck }

def C16St.bind (st : C16St) (x : String) (v : C16Val) : C16St :=
  { st with env := C16Env.set x v st.env }

/-- bind the targets of a `for` -/
def c16BindTargets (st : C16St) : List String → C16Val → C16St
  | [x], v => st.bind x v
  | [x, y], .tup a b => (st.bind x a).bind y b
  | _, _ => st.stuck

/-- the iterations of a `for`: stops at `break` / `return` / an exception; `continue` goes on -/
def c16Loop (step : C16Val → C16St → C16St) : List C16Val → C16St → C16St
  | [], st => st
  | v :: rest, st =>
    let st' := step v st
    match st'.ctl with
    | .run => c16Loop step rest st'
    | .cont => c16Loop step rest { st' with ctl := .run }
    | _ => st'

mutual
def C16S.exec (cx : C16Ctx) : C16S → C16St → C16St
  | .assign x e, st =>
    match e.eval cx st.env with
    | some v => st.bind x v
    | Option.none => st.stuck
  | .unpack1 x e, st =>
    match e.eval cx st.env with
    | some (.obj (.tuple [i])) => st.bind x (.obj i)
    | some (.obj (.list [i])) => st.bind x (.obj i)
    | _ => st.stuck
  | .setAttr f e, st =>
    match e.eval cx st.env with
    | some v => { st with attrs := C16Env.set f v st.attrs }
    | Option.none => st.stuck
  | .setItem x k v, st =>
    match C16Env.get x st.env, k.eval cx st.env, v.eval cx st.env with
    | some (.dict m), some (.str key), some (.obj val) => st.bind x (.dict (AMap.put key val m))
    | _, _, _ => st.stuck
  | .append x e, st =>
    match C16Env.get x st.env, e.eval cx st.env with
    | some l, some v =>
      match c16Append l v with
      | some l' => st.bind x l'
      | Option.none => st.stuck
    | _, _ => st.stuck
  | .extend x e, st =>
    match C16Env.get x st.env, e.eval cx st.env with
    | some l, some v =>
      match c16Extend l v with
      | some l' => st.bind x l'
      | Option.none => st.stuck
    | _, _ => st.stuck
  | .update x e, st =>
    match C16Env.get x st.env, e.eval cx st.env with
    | some .eqSet, some .eqSet => st
    | some .eqSet, some (.eqs _) => st
    | some .eqSet, some (.objs []) => st
    | _, _ => st.stuck
  | .ifThen c t e, st =>
    match c.eval cx st.env with
    | some v =>
      match v.truthy with
      | some true => C16S.execList cx t st
      | some false => C16S.execList cx e st
      | Option.none => st.stuck
    | Option.none => st.stuck
  | .forIn ts it body orelse, st =>
    match it.evalIter cx st.env with
    | Option.none => st.stuck
    | some items =>
      let st' := c16Loop (fun v s => C16S.execList cx body (c16BindTargets s ts v)) items st
      match st'.ctl with
      | .brk => { st' with ctl := .run }
      | .run => C16S.execList cx orelse st'
      | _ => st'
  | .ret Option.none, st => { st with ctl := .ret .none }
  | .ret (some e), st =>
    match e.eval cx st.env with
    | some v => { st with ctl := .ret v }
    | Option.none => st.stuck
  | .yield_ e, st =>
    match e.eval cx st.env with
    | some v => { st with out := st.out ++ [v] }
    | Option.none => st.stuck
  | .yieldFrom e, st =>
    match e.evalIter cx st.env with
    | some vs => { st with out := st.out ++ vs }
    | Option.none => st.stuck
  | .brk, st => { st with ctl := .brk }
  | .cont, st => { st with ctl := .cont }
  | .raise_ exc, st => { st with ctl := .raised exc }
  | .def_ _, st => st
  | .import_ _, st => st
def C16S.execList (cx : C16Ctx) : List C16S → C16St → C16St
  | [], st => st
  | s :: rest, st =>
    let st' := C16S.exec cx s st
    match st'.ctl with
    | .run => C16S.execList cx rest st'
    | _ => st'
end

/-! ### functions -/

/-- bind the parameters: positional arguments, then the defaults of the remaining ones -/
def c16BindParams (cx : C16Ctx) : List (String × Option C16E) → List C16Val → Option C16Env
  | [], [] => some []
  | [], _ :: _ => Option.none
  | (p, _) :: ps, a :: as => (c16BindParams cx ps as).map fun env => (p, a) :: env
  | (p, some d) :: ps, [] =>
    match d.eval cx [], c16BindParams cx ps [] with
    | some v, some env => some ((p, v) :: env)
    | _, _ => Option.none
  | (_, Option.none) :: _, [] => Option.none

/-- the state a call of `fn` ends in -/
def c16RunFn (cx : C16Ctx) (fn : C16Fn) (args : List C16Val) : Option C16St :=
  match c16BindParams cx fn.params args with
  | some env =>
    some (C16S.execList cx fn.body { env := env ++ fn.locals.map fun x => (x, .unbound) })
  | Option.none => Option.none

/-- outcome of a call -/
inductive C16Res (α : Type) where
  | ok (a : α)
  | raises (exc : String)
  /-- no meaning in this reading -/
  | stuck
  deriving Inhabited

/-- the value a plain function returns (`None` when control falls off the end) -/
def c16CallVal (cx : C16Ctx) (fn : C16Fn) (args : List C16Val) : C16Res C16Val :=
  if fn.isGen then .stuck else
  match c16RunFn cx fn args with
  | some st =>
    match st.ctl with
    | .ret v => .ok v
    | .run => .ok .none
    | .raised x => .raises x
    | _ => .stuck
  | Option.none => .stuck

/-- what a generator function yields -/
def c16CallGen (cx : C16Ctx) (fn : C16Fn) (args : List C16Val) : C16Res (List C16Val) :=
  if !fn.isGen then .stuck else
  match c16RunFn cx fn args with
  | some st =>
    match st.ctl with
    | .ret _ => .ok st.out
    | .run => .ok st.out
    | .raised x => .raises x
    | _ => .stuck
  | Option.none => .stuck

/-- the attributes an `__init__` leaves on the instance -/
def c16CallInit (cx : C16Ctx) (fn : C16Fn) (args : List C16Val) : C16Res C16Env :=
  match c16RunFn cx fn args with
  | some st =>
    match st.ctl with
    | .ret .none => .ok st.attrs
    | .run => .ok st.attrs
    | .raised x => .raises x
    | _ => .stuck
  | Option.none => .stuck

/-! ## classes, attribute resolution, one dispatched call -/

def c16FindFn (T : C16Table) (n : String) : Option C16Fn := T.fns.find? (·.name == n)

def c16FindClass (T : C16Table) (n : String) : Option C16Class := T.classes.find? (·.name == n)

def c16BindOf (T : C16Table) (cls attr : String) : Option String :=
  (T.binds.find? fun b => b.cls == cls && b.attr == attr).map (·.impl)

/-- Python attribute look-up on a class: the first class of the MRO whose body binds it -/
def c16ResolveMro (T : C16Table) (attr : String) : List String → Option String
  | [] => Option.none
  | cls :: rest =>
    match c16BindOf T cls attr with
    | some f => some f
    | Option.none => c16ResolveMro T attr rest

def c16Resolve (T : C16Table) (cls attr : String) : Option String :=
  match c16FindClass T cls with
  | some c => c16ResolveMro T attr c.mro
  | Option.none => Option.none

/-- the name starts with `map_` -/
def c16IsHandlerName (n : String) : Bool :=
  n.toList.take 4 == ['m', 'a', 'p', '_']

/-- the `map_*` attributes an instance of `cls` has -/
def c16HandlerNames (T : C16Table) (cls : String) : List String :=
  match c16FindClass T cls with
  | some c => (T.binds.filter fun b => c.mro.contains b.cls && c16IsHandlerName b.attr).map (·.attr)
  | Option.none => []

/-- the mapper class of this property -/
def c16Mapper : String := "UnidirectionalUnifier"

/-- the function that handles node `e` on a `UnidirectionalUnifier`: `Mapper.__call__` (the
dispatch model of C04) against the handler names of the table, then attribute resolution -/
def c16HandlerOf (classes : List C04NodeClass) (T : C16Table) (e : Expr) : C16Res String :=
  match c04Dispatch classes (c16HandlerNames T c16Mapper) e with
  | .invalidForeign => .raises "ValueError"
  | .unsupported => .raises "UnsupportedExpressionError"
  | .handler n => match c16Resolve T c16Mapper n with
    | some f => .ok f
    | Option.none => .stuck
  | .foreign n => match c16Resolve T c16Mapper n with
    | some f => .ok f
    | Option.none => .stuck

/-- the handler function `h` (or the failed dispatch) run on `(self, expr, other, urecs)` -/
def c16StepFn (T : C16Table) (cx : C16Ctx) (h : C16Res String) (e other : Expr)
    (urecs : List URec) : C16Res (List URec) :=
  match h with
  | .raises x => .raises x
  | .stuck => .stuck
  | .ok f =>
    match c16FindFn T f with
    | Option.none => .stuck
    | some fn =>
      match c16CallVal cx fn [.self, .obj e, .obj other, C16Val.ofRecs urecs] with
      | .ok v => match v.asRecs with
        | some r => .ok r
        | Option.none => .stuck
      | .raises x => .raises x
      | .stuck => .stuck

/-- **One handler call `self.rec(expr, other, urecs)`** as the table describes it. -/
def c16Step (classes : List C04NodeClass) (T : C16Table) (cx : C16Ctx) (e other : Expr)
    (urecs : List URec) : C16Res (List URec) :=
  c16StepFn T cx (c16HandlerOf classes T e) e other urecs

/-! ## linking: what the calls that leave a function mean when the callee is run from the table -/

/-- the record an `UnificationRecord.__init__` leaves behind -/
def c16RecOfAttrs (a : C16Env) : Option C16Val :=
  match C16Env.get "lmap" a, C16Env.get "rmap" a with
  | some (.dict l), some (.dict r) => some (.urec ⟨l, r⟩)
  | _, _ => Option.none

def c16ResOpt {α : Type} : C16Res α → Option α
  | .ok a => some a
  | _ => Option.none

/-- run the function an attribute of a class resolves to -/
def c16CallAttr (T : C16Table) (cx : C16Ctx) (cls attr : String) (args : List C16Val) :
    Option C16Val :=
  match c16Resolve T cls attr with
  | some f =>
    match c16FindFn T f with
    | some fn => c16ResOpt (c16CallVal cx fn args)
    | Option.none => Option.none
  | Option.none => Option.none

/-- a value-returning callee run from the table under `cx`: a class of the module is constructed
(its `__init__` runs; only records are built), a function of the module is called, a method is
resolved along the MRO of its class (`self.m`: of `UnidirectionalUnifier`) -/
def c16LinkFn (T : C16Table) (cx : C16Ctx) : C16Callee → List C16Val → Option C16Val
  | .modfn name, args =>
    match c16FindClass T name with
    | some _ =>
      match c16Resolve T name "__init__" with
      | some f =>
        match c16FindFn T f with
        | some fn =>
          match c16CallInit cx fn (.self :: args) with
          | .ok attrs => c16RecOfAttrs attrs
          | _ => Option.none
        | Option.none => Option.none
      | Option.none => Option.none
    | Option.none =>
      match c16FindFn T name with
      | some fn => c16ResOpt (c16CallVal cx fn args)
      | Option.none => Option.none
  | .meth cls m, args => c16CallAttr T cx cls m args
  | .self m, args => c16CallAttr T cx c16Mapper m (.self :: args)
  | .nested _, _ => Option.none

/-- a generator callee run from the table: the method `self.m` or a nested function (by qualified
name), which sees the variables `closure` of the function enclosing it -/
def c16LinkGen (T : C16Table) (cx : C16Ctx) (closure : C16Env) :
    C16Callee → List C16Val → Option (List C16Val)
  | .self m, args =>
    match c16Resolve T c16Mapper m with
    | some f =>
      match c16FindFn T f with
      | some fn => c16ResOpt (c16CallGen { cx with closure := Option.none } fn (.self :: args))
      | Option.none => Option.none
    | Option.none => Option.none
  | .nested q, args =>
    match c16FindFn T q with
    | some fn => c16ResOpt (c16CallGen { cx with closure := some closure } fn args)
    | Option.none => Option.none
  | _, _ => Option.none

/-- the attributes `UnidirectionalUnifier(cands)` has: the table's `__init__` run on
`(self, cands)` -/
def c16MapperAttrs (T : C16Table) (cands : List String) : C16Env :=
  let cx0 : C16Ctx := { recur := fun _ _ _ => [], fn := fun _ _ => Option.none,
                        gen := fun _ _ _ => Option.none, closure := Option.none, selfAttrs := [] }
  match c16Resolve T c16Mapper "__init__" with
  | some f =>
    match c16FindFn T f with
    | some fn =>
      match c16CallInit cx0 fn [.self, .strs cands] with
      | .ok attrs => attrs
      | _ => []
    | Option.none => []
  | Option.none => []

/-- everything tied together by fuel (for RUNNING the table: the compiled driver answers the
`unify-table` requests of the correspondence stream with this) -/
def c16CtxFuel (classes : List C04NodeClass) (T : C16Table) (attrs : C16Env) : Nat → C16Ctx
  | 0 => { recur := fun _ _ _ => [], fn := fun _ _ => Option.none, gen := fun _ _ _ => Option.none,
           closure := Option.none, selfAttrs := attrs }
  | n + 1 =>
    let cx := c16CtxFuel classes T attrs n
    { recur := fun e o u => match c16Step classes T cx e o u with
        | .ok r => r
        | _ => []
      fn := fun name args => c16LinkFn T cx name args
      gen := fun cl name args => c16LinkGen T cx cl name args
      closure := Option.none
      selfAttrs := attrs }

/-- `UnidirectionalUnifier(cands)(pattern, target)` run from the table: the entry point
`__call__` (default `urecs`), then dispatch -/
def c16UnifyT (classes : List C04NodeClass) (T : C16Table) (fuel : Nat) (cands : List String)
    (pattern target : Expr) : C16Res (List URec) :=
  let cx := c16CtxFuel classes T (c16MapperAttrs T cands) fuel
  match c16Resolve T c16Mapper "__call__" with
  | some f =>
    match c16FindFn T f with
    | some fn =>
      match c16CallVal cx fn [.self, .obj pattern, .obj target] with
      | .ok v => match v.asRecs with
        | some r => .ok r
        | Option.none => .stuck
      | .raises x => .raises x
      | .stuck => .stuck
    | Option.none => .stuck
  | Option.none => .stuck

end PV.Unify
