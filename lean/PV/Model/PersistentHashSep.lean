import PV.Model.Pickle
import PV.Model.TravTable
/-
  C17, persistent-hash digest: the definitions behind the injectivity theorems
  (PV/Proofs/PersistentHashInj.lean) — executable, so that the driver can evaluate the hypotheses
  on the correspondence inputs.

    * `c17Erase`     the tree with every field the digest never sees blanked out
    * `c17TokClass`  how a token at the start of a node reads (class name / int / bool / float / name)
    * `c17Sep ar`    the separable trees for a rank discipline `ar`
    * `c17CommonSep` is there a rank discipline under which two trees are both separable?
    * `c17Flat`      what the hash object sees: the pieces concatenated
-/
namespace PV.Pickle
open PV

/-! ### what is not fed -/

mutual
/-- the tree with every field the digest never sees blanked out -/
def c17Erase : Expr → Expr
  | .const (.flt r _ _) => .const (.flt r 0 1)
  | .const c => .const c
  | .var x => .var x
  | .nary o cs => .nary o (c17EraseL cs)
  | .bin o a b => .bin o (c17Erase a) (c17Erase b)
  | .un o a => .un o (c17Erase a)
  | .cmp o a b => .cmp o (c17Erase a) (c17Erase b)
  | .ite c t e => .ite (c17Erase c) (c17Erase t) (c17Erase e)
  | .call f as => .call (c17Erase f) (c17EraseL as)
  | .callKw f as _ vs => .callKw (c17Erase f) (c17EraseL as) [] (c17EraseL vs)
  | .subscript a i => .subscript (c17Erase a) (c17Erase i)
  | .lookup a _ => .lookup (c17Erase a) ""
  | .cse c _ _ => .cse (c17Erase c) none ""
  | .subst c _ xs => .subst (c17Erase c) [] (c17EraseL xs)
  | .deriv c _ => .deriv (c17Erase c) []
  | .slice cs => .slice (c17EraseSlice cs)
  | .nan => .nan
  | .wildcard => .wildcard
  | .dotWild _ => .dotWild ""
  | .starWild _ => .starWild ""
  | .funcSym => .funcSym
  | .tuple cs => .tuple (c17EraseL cs)
  | .list cs => .list (c17EraseL cs)
def c17EraseL : List Expr → List Expr
  | [] => []
  | c :: cs => c17Erase c :: c17EraseL cs
/-- `None` parts of a slice are skipped by the walk -/
def c17EraseSlice : List Expr → List Expr
  | [] => []
  | .const .none :: cs => c17EraseSlice cs
  | c :: cs => c17Erase c :: c17EraseSlice cs
end

/-! ### tokens a node can start with -/

/-- the characters of the `repr` of an `int` -/
def c17NumCh (c : Char) : Bool := c.isDigit || c == '-'

def _root_.PV.NaryOp.c17Idx : NaryOp → Nat
  | .sum => 0 | .prod => 1 | .bor => 2 | .bxor => 3 | .band => 4 | .lor => 5 | .land => 6
  | .min => 7 | .max => 8

def _root_.PV.BinOp.c17Idx : BinOp → Nat
  | .quot => 0 | .floordiv => 1 | .rem => 2 | .pow => 3 | .lshift => 4 | .rshift => 5

def _root_.PV.UnOp.c17Idx : UnOp → Nat
  | .bnot => 0 | .lnot => 1

def _root_.PV.Const.c17Idx : Const → Nat
  | .int _ => 1 | .bool _ => 2 | .flt .. => 3 | .str _ => 4 | .none => 5

/-- (constructor, operator) a class-name token announces -/
def c17HeadTag : String → Option (Nat × Nat)
  | "Sum" => some (10, 0) | "Product" => some (10, 1) | "BitwiseOr" => some (10, 2)
  | "BitwiseXor" => some (10, 3) | "BitwiseAnd" => some (10, 4) | "LogicalOr" => some (10, 5)
  | "LogicalAnd" => some (10, 6) | "Min" => some (10, 7) | "Max" => some (10, 8)
  | "Quotient" => some (11, 0) | "FloorDiv" => some (11, 1) | "Remainder" => some (11, 2)
  | "Power" => some (11, 3) | "LeftShift" => some (11, 4) | "RightShift" => some (11, 5)
  | "BitwiseNot" => some (12, 0) | "LogicalNot" => some (12, 1)
  | "Comparison" => some (13, 0) | "If" => some (14, 0) | "Call" => some (15, 0)
  | "CallWithKwargs" => some (16, 0) | "Subscript" => some (17, 0) | "Lookup" => some (18, 0)
  | "CommonSubexpression" => some (19, 0) | "Substitution" => some (20, 0)
  | "Derivative" => some (21, 0) | "Slice" => some (22, 0) | "NaN" => some (23, 0)
  | "Wildcard" => some (24, 0) | "DotWildcard" => some (25, 0) | "StarWildcard" => some (26, 0)
  | "FunctionSymbol" => some (27, 0) | "tuple" => some (28, 0) | "list" => some (29, 0)
  | _ => none

/-- **How a token at the start of a node reads.**  `(1, 1)`: the `repr` of an `int` (digits and
`-` only); `(1, 2)`: `True` / `False`; a class name: that class; `(1, 3)`: looks like a float
`repr` (starts like a number, or is `inf` / `nan`); `(0, 0)`: anything else — a name. -/
def c17TokClass (s : String) : Nat × Nat :=
  let cs := s.toList
  if !cs.isEmpty && cs.all c17NumCh then (1, 1)
  else if s == "True" || s == "False" then (1, 2)
  else match c17HeadTag s with
    | some t => t
    | none =>
      if (match cs with | c :: _ => c17NumCh c | [] => false) || s == "inf" || s == "nan"
      then (1, 3) else (0, 0)

/-- which node a tree is at its root: (constructor, operator) -/
def c17Tag : Expr → Nat × Nat
  | .const c => (1, c.c17Idx)
  | .var _ => (0, 0)
  | .nary o _ => (10, o.c17Idx)
  | .bin o _ _ => (11, o.c17Idx)
  | .un o _ => (12, o.c17Idx)
  | .cmp .. => (13, 0) | .ite .. => (14, 0) | .call .. => (15, 0) | .callKw .. => (16, 0)
  | .subscript .. => (17, 0) | .lookup .. => (18, 0) | .cse .. => (19, 0) | .subst .. => (20, 0)
  | .deriv .. => (21, 0) | .slice _ => (22, 0) | .nan => (23, 0) | .wildcard => (24, 0)
  | .dotWild _ => (25, 0) | .starWild _ => (26, 0) | .funcSym => (27, 0) | .tuple _ => (28, 0)
  | .list _ => (29, 0)

/-! ### the separable class -/

mutual
/-- **Separable trees** for a rank discipline `ar` (class name ↦ number of children; keys
`"CallWithKwargs.kw"` for the keyword values, `"Slice"` for the parts that are not `None`):
every variable name reads as a name, every float `repr` as a float, and every variadic node has
the number of children `ar` prescribes for its class. -/
def c17Sep (ar : String → Nat) : Expr → Bool
  | .const (.flt r _ _) => c17TokClass r == (1, 3)
  | .const _ => true
  | .var x => c17TokClass x == (0, 0)
  | .nary o cs => cs.length == ar o.name && c17SepL ar cs
  | .bin _ a b => c17Sep ar a && c17Sep ar b
  | .un _ a => c17Sep ar a
  | .cmp _ a b => c17Sep ar a && c17Sep ar b
  | .ite c t e => c17Sep ar c && c17Sep ar t && c17Sep ar e
  | .call f as => c17Sep ar f && as.length == ar "Call" && c17SepL ar as
  | .callKw f as _ vs =>
      c17Sep ar f && as.length == ar "CallWithKwargs" && c17SepL ar as &&
        vs.length == ar "CallWithKwargs.kw" && c17SepL ar vs
  | .subscript a i => c17Sep ar a && c17Sep ar i
  | .lookup a _ => c17Sep ar a
  | .cse c _ _ => c17Sep ar c
  | .subst c _ xs => c17Sep ar c && xs.length == ar "Substitution" && c17SepL ar xs
  | .deriv c _ => c17Sep ar c
  | .slice cs => (cs.filter (fun c => !c.c04IsNone)).length == ar "Slice" && c17SepL ar cs
  | .tuple cs => cs.length == ar "tuple" && c17SepL ar cs
  | .list cs => cs.length == ar "list" && c17SepL ar cs
  | _ => true
def c17SepL (ar : String → Nat) : List Expr → Bool
  | [] => true
  | c :: cs => c17Sep ar c && c17SepL ar cs
end

/-! ### a common rank discipline for two trees (decision procedure used by the driver) -/

mutual
/-- the (key, number of children) pairs a tree demands of a rank discipline, in preorder -/
def c17RankDemands : Expr → List (String × Nat)
  | .nary o cs => (o.name, cs.length) :: c17RankDemandsL cs
  | .bin _ a b => c17RankDemands a ++ c17RankDemands b
  | .un _ a => c17RankDemands a
  | .cmp _ a b => c17RankDemands a ++ c17RankDemands b
  | .ite c t e => c17RankDemands c ++ c17RankDemands t ++ c17RankDemands e
  | .call f as => ("Call", as.length) :: (c17RankDemands f ++ c17RankDemandsL as)
  | .callKw f as _ vs =>
      ("CallWithKwargs", as.length) :: ("CallWithKwargs.kw", vs.length) ::
        (c17RankDemands f ++ c17RankDemandsL as ++ c17RankDemandsL vs)
  | .subscript a i => c17RankDemands a ++ c17RankDemands i
  | .lookup a _ => c17RankDemands a
  | .cse c _ _ => c17RankDemands c
  | .subst c _ xs => ("Substitution", xs.length) :: (c17RankDemands c ++ c17RankDemandsL xs)
  | .deriv c _ => c17RankDemands c
  | .slice cs =>
      ("Slice", (cs.filter (fun c => !c.c04IsNone)).length) :: c17RankDemandsL cs
  | .tuple cs => ("tuple", cs.length) :: c17RankDemandsL cs
  | .list cs => ("list", cs.length) :: c17RankDemandsL cs
  | _ => []
def c17RankDemandsL : List Expr → List (String × Nat)
  | [] => []
  | c :: cs => c17RankDemands c ++ c17RankDemandsL cs
end

/-- the discipline that grants every key its FIRST demand -/
def c17RankOf (ds : List (String × Nat)) (k : String) : Nat :=
  match ds.find? (fun d => d.1 == k) with
  | some d => d.2
  | none => 0

/-- both trees are separable under one rank discipline (if any discipline works, the one made of
the first demands does) -/
def c17CommonSep (a b : Expr) : Bool :=
  let ar := c17RankOf (c17RankDemands a ++ c17RankDemands b)
  c17Sep ar a && c17Sep ar b

/-! ### concatenation of the pieces -/

/-- what the hash object sees: the pieces, each through `enc`, concatenated -/
def c17Flat (enc : String → List Char) (l : List String) : List Char := l.flatMap enc

/-- a self-delimiting piece encoding: an encoded piece followed by anything decodes in one way -/
def C17PrefixFree (enc : String → List Char) : Prop :=
  ∀ (s t : String) (u v : List Char), enc s ++ u = enc t ++ v → s = t ∧ u = v

end PV.Pickle
