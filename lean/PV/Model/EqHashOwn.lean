import PV.Model.EqHash
/-
  C01 — the HAND-WRITTEN `__eq__` / `__hash__` / `__ne__` of the legacy number-like classes
  (`Polynomial`, pymbolic/polynomial.py; `Rational`, pymbolic/rational.py; their subclasses), inside
  Python's `==` as CPython dispatches it, next to the generated methods of every other class.

  What the methods do is read from their SOURCE by `extract/classes.py` into records `C01OwnEqInfo`
  (lean/PV/Model/Classes.lean; regenerated into `PV.Generated.c01OwnEqs`): which of the two shapes,
  which attributes are compared / hashed.  `eqF` / `hashX` below run those records.

      class Polynomial(Expression):                      class Rational(Expression):
          def __eq__(self, other):                           def __init__(self, numerator, denominator=1):
              return (isinstance(other, Polynomial)               d_unit = traits.traits(denominator).get_unit(denominator)
                      and (self.Base == other.Base)               numerator /= d_unit
                      and (self.Data == other.Data))              denominator /= d_unit
          def __ne__(self, other):                                self.Numerator = numerator
              return not self.__eq__(other)                       self.Denominator = denominator
          def __hash__(self):                                def __eq__(self, other):
              return hash((type(self).__name__,                   if not isinstance(other, Rational):
                           self.Base, self.Data))                     other = Rational(other)
                                                                  return self.Numerator == other.Numerator and \
                                                                         self.Denominator == other.Denominator
                                                             def __hash__(self):
                                                                 if self.Denominator == 1:
                                                                     return hash(self.Numerator)
                                                                 return hash((type(self).__name__, self.Numerator,
                                                                              self.Denominator))

  `a == b` (CPython `PyObject_RichCompare`): when `type(b)` is a PROPER SUBCLASS of `type(a)`,
  `b.__eq__(a)` is asked first; otherwise `a.__eq__(b)`; a builtin left operand answers
  `NotImplemented` for an instance on the right, so `b.__eq__(a)` is asked.  No `__eq__` of an
  expression class answers `NotImplemented`.  Tuples compare elementwise over the common prefix
  (first unequal pair decides, an exception propagates), then by length.  `x and y` does not
  evaluate `y` when `x` is false.

  An instance of `Rational` / `Polynomial` is `.inst cls .legacy <init args> none` (these classes
  never set `_hash_value`).  `Rational(other)` inside `__eq__` (`other` not a Rational): the unit
  of the denominator `1` is `1`, `other /= 1`, `1 /= 1`: a number becomes the float of the same
  value (an int beyond 2^53 would be rounded: the model abstains), an expression `e` stays `e`
  (`Expression.__truediv__` returns `self` for a divisor one; the extractor checks that only the
  polynomial shape overrides it — `Polynomial.__truediv__` builds a new polynomial with float
  coefficients: the model abstains), anything else (`str`, `None`, tuple, mapping) raises
  `TypeError`.

  The recursion of `==` is neither structural in the left nor in the right operand (reflected
  calls, the coercion): `eqF` recurses on a fuel argument; `ownEq` supplies enough of it
  (`depth a + depth b + 1`: every nested call has a smaller depth sum).
-/
namespace PV.EqHash
open PV PV.Pickle

/-- class table, records of the hand-written methods, hash functions of the process -/
structure OwnCtx where
  tbl : ClassTable
  owns : List C01OwnEqInfo
  P : HashParams

/-- the record describing the hand-written `__eq__` / `__hash__` an instance of class `c` runs -/
def OwnCtx.own? (X : OwnCtx) (c : String) : Option C01OwnEqInfo :=
  match X.tbl.find? c with
  | some i => if i.ownEq then X.owns.find? (fun o => o.name == i.ownDefiner) else none
  | none => none

/-- `isinstance(<instance of class c>, name)` -/
def OwnCtx.isInstance (X : OwnCtx) (c name : String) : Bool :=
  c == name || (match X.tbl.find? c with
                | some i => i.ancestors.contains name
                | none => false)

/-- `type(b)` (class `c'`) is a proper subclass of `type(a)` (class `c`) -/
def OwnCtx.properSub (X : OwnCtx) (c' c : String) : Bool :=
  c' != c && (match X.tbl.find? c' with
              | some i => i.ancestors.contains c
              | none => false)

/-- instances of a class (or subclass) with the polynomial shape override `__truediv__` -/
def OwnCtx.isPolyShape (X : OwnCtx) (c : String) : Bool :=
  match X.own? c with
  | some o => o.shape == .polynomial
  | none => false

/-! ### outcomes of `==` -/

inductive Res where
  | ok (b : Bool)
  /-- the comparison raises (`TypeError` from `Rational(other)`) -/
  | raises
  /-- outside the model (int beyond 2^53 coerced to float, `Polynomial / 1`, out of fuel) -/
  | unmodelled
  deriving Repr, DecidableEq, Inhabited

/-- `x and y` on two computed outcomes: `y` counts only when `x` is true -/
def Res.and : Res → Res → Res
  | .ok true, r => r
  | r, _ => r

/-- `c1 and c2 and …` -/
def resAll : List Res → Res
  | [] => .ok true
  | r :: rs => r.and (resAll rs)

def Res.not : Res → Res
  | .ok b => .ok (!b)
  | r => r

/-- CPython's tuple `==`: elementwise over the common prefix, then the lengths -/
def tupleEqWith (f : Obj → Obj → Res) : List Obj → List Obj → Res
  | x :: xs, y :: ys =>
      match f x y with
      | .ok true => tupleEqWith f xs ys
      | r => r
  | [], [] => .ok true
  | _, _ => .ok false

/-- CPython's dict `==` for two keyword mappings of equal length: every entry of the left one, in
insertion order, is looked up in the right one and the values are compared -/
def kwEqWith (f : Obj → Obj → Res) : List String → List Obj → List String → List Obj → Res
  | n :: ns, v :: vs, ms, ws =>
      match assocLookupO n ms ws with
      | some w =>
          (match f v w with
           | .ok true => kwEqWith f ns vs ms ws
           | r => r)
      | none => .ok false
  | _, _, _, _ => .ok true

/-! ### numbers as `Rational(other)` stores them -/

def twoPow53 : Int := 9007199254740992

/-- `c / 1` for a numeric constant: the float of the same value (`none`: not a number, or an int
that a float does not hold exactly) -/
def constToFloat? : Const → Option Const
  | .int n => if -twoPow53 ≤ n ∧ n ≤ twoPow53 then some (.flt (toString n ++ ".0") n 1) else none
  | .bool b => some (.flt (if b then "1.0" else "0.0") (if b then 1 else 0) 1)
  | .flt r n d => some (.flt r n d)
  | _ => none

def constIsNumeric : Const → Bool
  | .int _ | .bool _ | .flt .. => true
  | _ => false

/-- the float `1.0` (`denominator /= d_unit` with both equal to the int `1`) -/
def floatOne : Obj := .atom (.flt "1.0" 1 1)

/-- value of attribute `a` of an instance whose init args (attributes `names`) are `vals` -/
def attrOf (names : List String) (vals : List Obj) (a : String) : Option Obj :=
  (names.zip vals).lookup a

/-! ### `hash` -/

/-- the hand-written `__hash__` of an instance of class `c` with init args `fs` (their hashes:
`hs`), as the record describes it -/
def ownHash (P : HashParams) (o : C01OwnEqInfo) (c : String) (fs : List Obj) (hs : List Nat) : Nat :=
  let tagged := P.tuple "tuple" ((if o.hashTagged then [P.str c] else []) ++ pick o.initAttrs hs o.hashAttrs)
  match o.hashUnitAttr, o.hashUnitValue with
  | some ua, some uv =>
      -- `if self.<ua> == 1: return hash(self.<uv>)`
      (match attrOf o.initAttrs fs ua, (o.initAttrs.zip hs).lookup uv with
       | some (.atom d), some hv => if d.pyEq (.int 1) then hv else tagged
       | _, _ => tagged)
  | _, _ => tagged

mutual
/-- `hash(o)` for a freshly built object: hand-written `__hash__` for the classes that have one,
the generated one (`hashGen`) for the others, nested fields through the same function -/
def hashX (X : OwnCtx) : Obj → Nat
  | .atom c => c.hash X.P
  | .tuple xs => X.P.tuple "tuple" (hashXL X xs)
  | .list xs => X.P.tuple "list" (hashXL X xs)
  | .dict ks vs => X.P.mapping ((ks.map X.P.str).zip (hashXL X vs))
  | .inst c k fs _ =>
      let hs := hashXL X fs
      match X.own? c with
      | some o => ownHash X.P o c fs hs
      | none =>
        match X.tbl.template? c with
        | some (tpl, legacyPath) =>
            if legacyPath then X.P.tuple "tuple" (X.P.str c :: hs)
            else X.P.tuple "tuple" (pick tpl.fields hs tpl.hashFields)
        | none => instHash X.P c k hs
def hashXL (X : OwnCtx) : List Obj → List Nat
  | [] => []
  | x :: xs => hashX X x :: hashXL X xs
end

/-! ### `==` -/

/-- what `Rational(other)` stores, for `other` that is not an instance of the class: the init
args (numerator, denominator) -/
inductive Coerced where
  | fields (fs : List Obj)
  | raises
  | unmodelled

def coerceOther (X : OwnCtx) : Obj → Coerced
  | .atom c =>
      if constIsNumeric c then
        (match constToFloat? c with
         | some f => .fields [.atom f, floatOne]
         | none => .unmodelled)
      else .raises                                       -- `'abc' /= 1`, `None /= 1`: TypeError
  | .tuple _ => .raises
  | .list _ => .raises
  | .dict _ _ => .raises
  | .inst c k fs h =>
      if X.isPolyShape c then .unmodelled                -- `Polynomial.__truediv__`
      else .fields [.inst c k fs h, floatOne]            -- `expr / 1 is expr`

/-- `type(self).__eq__(self, other)` for an instance `self`; `f` answers the nested `==` -/
def methEq (X : OwnCtx) (f : Obj → Obj → Res) : Obj → Obj → Res
  | .inst c k fs h, other =>
    match X.own? c with
    | some o =>
      let cmp (fs' : List Obj) : Res :=
        resAll (((pick o.initAttrs fs o.eqAttrs).zip (pick o.initAttrs fs' o.eqAttrs)).map
                  fun p => f p.1 p.2)
      let isInst : Bool :=
        match other with
        | .inst c' _ _ _ => if o.eqIsinstance then X.isInstance c' o.name else c' == c
        | _ => false
      (match isInst, other with
       | true, .inst _ _ fs' _ => cmp fs'
       | _, _ =>
          if o.eqCoerces then
            (match coerceOther X other with
             | .fields fs' => cmp fs'
             | .raises => .raises
             | .unmodelled => .unmodelled)
          else .ok false)
    | none =>
      match other with
      | .inst c' k' fs' h' =>
        let sameClass := c == c' && k == k'
        let sameHash := hashX X (.inst c k fs h) == hashX X (.inst c' k' fs' h')
        (match X.tbl.template? c with
         | some (tpl, legacyPath) =>
             if tpl.kind == .legacy || legacyPath then
               -- `Expression.__eq__` / the legacy branch: hash comparison, then `is_equal`
               -- (`type(other) is type(self)` and the init-arg tuples are `==`)
               if !(if tpl.kind == .legacy then true else sameClass) then .ok false
               else if !sameHash then .ok false
               else if !sameClass then .ok false
               else tupleEqWith f fs fs'
             else
               if !(!tpl.eqClassChecked || sameClass) then .ok false
               else if !sameHash then .ok false
               else resAll (pick tpl.fields ((fs.zip fs').map fun p => f p.1 p.2) tpl.eqFields)
         | none =>
             if !sameClass then .ok false
             else if !sameHash then .ok false
             else tupleEqWith f fs fs')
      | _ => .ok false
  | _, _ => .ok false

/-- Python's `a == b` with `fuel` levels of nesting left -/
def eqF (X : OwnCtx) : Nat → Obj → Obj → Res
  | 0, _, _ => .unmodelled
  | fuel + 1, a, b =>
    match a, b with
    | .atom c, .atom d => .ok (c.pyEq d)
    | .tuple xs, .tuple ys => tupleEqWith (eqF X fuel) xs ys
    | .list xs, .list ys =>
        if xs.length != ys.length then .ok false else tupleEqWith (eqF X fuel) xs ys
    | .dict ks vs, .dict ks' vs' =>
        if ks.length != ks'.length then .ok false else kwEqWith (eqF X fuel) ks vs ks' vs'
    | .inst c k fs h, .inst c' k' fs' h' =>
        if X.properSub c' c then methEq X (eqF X fuel) (.inst c' k' fs' h') (.inst c k fs h)
        else methEq X (eqF X fuel) (.inst c k fs h) (.inst c' k' fs' h')
    | .inst c k fs h, b => methEq X (eqF X fuel) (.inst c k fs h) b
    | a, .inst c' k' fs' h' => methEq X (eqF X fuel) (.inst c' k' fs' h') a       -- reflected
    | _, _ => .ok false

mutual
def objDepth : Obj → Nat
  | .atom _ => 0
  | .tuple xs => objDepthL xs + 1
  | .list xs => objDepthL xs + 1
  | .dict _ vs => objDepthL vs + 1
  | .inst _ _ fs _ => objDepthL fs + 1
def objDepthL : List Obj → Nat
  | [] => 0
  | x :: xs => max (objDepth x) (objDepthL xs)
end

/-- `a == b` -/
def ownEq (X : OwnCtx) (a b : Obj) : Res := eqF X (objDepth a + objDepth b + 1) a b

/-- `a != b`: every `__ne__` in sight is `not self.__eq__(other)`, asked in the order of `==` -/
def ownNe (X : OwnCtx) (a b : Obj) : Res := (ownEq X a b).not

/-- `probe in {stored: …}` for two separately built objects: equal hashes, then `stored == probe` -/
def ownFinds (X : OwnCtx) (stored probe : Obj) : Res :=
  if hashX X stored != hashX X probe then .ok false else ownEq X stored probe

/-! ### where the model applies -/

mutual
/-- no instance of a class with a hand-written `__eq__` inside -/
def ownFree (X : OwnCtx) : Obj → Bool
  | .atom _ => true
  | .tuple xs => ownFreeL X xs
  | .list xs => ownFreeL X xs
  | .dict _ vs => ownFreeL X vs
  | .inst c _ fs _ => (X.own? c).isNone && ownFreeL X fs
def ownFreeL (X : OwnCtx) : List Obj → Bool
  | [] => true
  | x :: xs => ownFree X x && ownFreeL X xs
end

mutual
/-- the instances of hand-written classes inside have one value per init arg, and where the record
has a unit test (`self.Denominator == 1`) that attribute is a NUMBER (for anything else the test is
itself a nested `==`; the model does not follow it) -/
def ownShaped (X : OwnCtx) : Obj → Bool
  | .atom _ => true
  | .tuple xs => ownShapedL X xs
  | .list xs => ownShapedL X xs
  | .dict _ vs => ownShapedL X vs
  | .inst c _ fs _ =>
      (match X.own? c with
       | some o =>
           fs.length == o.initAttrs.length &&
           (match o.hashUnitAttr with
            | some ua => (match attrOf o.initAttrs fs ua with
                          | some (.atom d) => constIsNumeric d
                          | _ => false)
            | none => true)
       | none => true) && ownShapedL X fs
def ownShapedL (X : OwnCtx) : List Obj → Bool
  | [] => true
  | x :: xs => ownShaped X x && ownShapedL X xs
end

/-! ### the constructor of the rational shape -/

inductive InitRes where
  | stored (numerator denominator : Obj)
  | err (kind : String)
  | unmodelled
  deriving Repr, Inhabited

/-- `-c` as a float, for `numerator /= -1` -/
def constNegFloat? : Const → Option Const
  | .int n => if -twoPow53 ≤ n ∧ n ≤ twoPow53 then
                some (if n = 0 then .flt "-0.0" 0 1 else .flt (toString (-n) ++ ".0") (-n) 1)
              else none
  | .bool b => some (if b then .flt "-1.0" (-1) 1 else .flt "-0.0" 0 1)
  | _ => none

/-- `Rational(numerator, denominator)`: `d_unit` is the sign of an `int` denominator
(`IntegerTraits.get_unit`; zero has none: `RuntimeError`), a float denominator has traits without
`get_unit` (`AttributeError`), an expression has no traits (`NoTraitsError`); then both are DIVIDED
by the unit — true division, so ints are stored as floats, and nothing is reduced: `Rational(2, 4)`
stores `(2.0, 4.0)`.  An expression numerator over a negative denominator becomes
`Quotient(numerator, -1)`. -/
def rationalInit (X : OwnCtx) (num den : Obj) : InitRes :=
  match den with
  | .atom (.flt ..) => .err "AttributeError"
  | .atom (.str _) => .err "NoTraitsError"
  | .atom .none => .err "NoTraitsError"
  | .tuple _ | .list _ | .dict _ _ => .err "NoTraitsError"
  | .inst c _ _ _ => if X.isPolyShape c then .unmodelled else .err "NoTraitsError"
  | .atom dc =>
    let d : Int := match dc with
      | .int n => n
      | .bool b => if b then 1 else 0
      | _ => 0
    if d = 0 then .err "RuntimeError"
    else if d.natAbs > twoPow53.natAbs then .unmodelled
    else
      let den' : Obj := .atom (.flt (toString d.natAbs ++ ".0") d.natAbs 1)
      match num with
      | .atom (.flt r n m) =>
          if d > 0 then .stored (.atom (.flt r n m)) den' else .unmodelled
      | .atom nc =>
          if !constIsNumeric nc then .err "TypeError"
          else (match (if d > 0 then constToFloat? nc else constNegFloat? nc) with
                | some f => .stored (.atom f) den'
                | none => .unmodelled)
      | .tuple _ | .list _ | .dict _ _ => .err "TypeError"
      | .inst c k fs h =>
          if X.isPolyShape c then .unmodelled
          else if d > 0 then .stored (.inst c k fs h) den'
          else .stored (.inst "Quotient" .dataclass [.inst c k fs h, .atom (.int (-1))] none) den'

end PV.EqHash
