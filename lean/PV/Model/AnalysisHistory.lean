import PV.Model.Traverse
import PV.Model.NodeCount
/-
  C09 — HISTORIES: one analysis object (or several, interleaved) is given several expressions in a
  row.  The property quantifies over "cached and uncached": an answer may not depend on what the
  mapper instance has been asked before.

    * `DependencyMapper` / `CachedDependencyMapper`: the model functions are pure, so the model
      answer of a history is the list of the single answers (`depsHist`, a loop over the steps;
      every step names its own mapper, i.e. its own flags and cached-ness).
    * `get_num_nodes`: a fresh `NodeCountMapper` per call (`numNodesHist`).
    * ONE `NodeCountMapper` given `e₁, …, eₖ`: its `_cache` is deliberately per instance, so
      `count` after the i-th call is the number of `post_visit`s made so far (`countHist`; the
      instance is discarded after an exception: the history stops there).
    * ONE `FlopCounter` / ONE `CSEAwareFlopCounter` (`flopsHist`): `flopsG` with the seen-set
      threaded (the seen-set is per instance on purpose); discarded after an exception.
  Several counter objects interleaved are independent objects: the model answer is the family of
  the per-object histories.
-/
namespace PV

/-- one call `mapper(e)` on a (cached or uncached) dependency mapper with flags `fl`: building the
first cache key hashes `e`, a Python list anywhere is a `TypeError` -/
def depsCall (fl : DepFlags) (cached : Bool) (e : Expr) : Except DepErr (List Expr) :=
  if cached && e.hasList then .error .unhashable else deps fl e

/-- a history of dependency-mapper calls, each step with the flags / cached-ness of the mapper it
is given to: the loop `for (m, e) in steps: out.append(m(e))` with pure mappers -/
def depsHist : List (DepFlags × Bool × Expr) → List (Except DepErr (List Expr))
  | [] => []
  | (fl, cached, e) :: rest => depsCall fl cached e :: depsHist rest

/-- `[get_num_nodes(e) for e in es]` -/
def numNodesHist : List Expr → List (Except DepErr Nat)
  | [] => []
  | e :: rest => c09NumNodes e :: numNodesHist rest

/-- ONE `NodeCountMapper` instance: `m(e₁); m.count; m(e₂); m.count; …` started with `count = n`
and the cache `cache`.  The answers are the successive values of `count`; at the first exception
the history ends with that error (the instance is not used again). -/
def countHist : List Expr → Nat → List Expr → List (Except DepErr Nat)
  | [], _, _ => []
  | e :: rest, n, cache =>
    if e.hasList then [.error .unhashable] else
    match c09CountWalk e cache with
    | .error err => [.error err]
    | .ok (k, cache') => .ok (n + k) :: countHist rest (n + k) cache'

/-- ONE flop counter object (`aware = false`: the memoizing `FlopCounter`, whose first cache key
hashes the tree; `aware = true`: `CSEAwareFlopCounter` with its seen-set `seen`) given `es` one
after the other; at the first exception the history ends with that error. -/
def flopsHist (aware : Bool) : List Expr → List Expr → List (Except DepErr Nat)
  | [], _ => []
  | e :: rest, seen =>
    if !aware && e.hasList then [.error .unhashable] else
    match flopsG aware e seen with
    | .error err => [.error err]
    | .ok (n, seen') => .ok n :: flopsHist aware rest seen'

end PV
