import PV.Model.TravTable
import PV.Model.Cse
import PV.Model.CseTagger
/-
  C12 (T-gen).  What the source of the common-subexpression code SAYS, as plain tables —
  regenerated from the live source by extract/cse.py into lean/PV/Generated/Cse.lean — and the
  table-driven reading of it:

    * `C12KeyTable`   / `c12KeyT`        `NormalizedKeyGetter.__call__` (which classes are
                                          normalised, how operands are counted, the key's shape)
    * `C12Prog`       / `c12RunProg`     the statements of `visit` and of the `map_*` overrides of
                                          a counting `WalkMapper` (`UseCountMapper`, `CSEWalkMapper`)
    * `C12CountTable` / `c12CountStep`   one handler call of such a mapper, recursion left open:
                                          an override of the class, else the inherited `WalkMapper`
                                          row of the C04 table with the class's `visit`
    * `C12MBody`      / `c12MapStep`     one handler call of a rebuilding `IdentityMapper`
                                          subclass (`CSEMapper`, `CSETagMapper`): the key test
                                          against `to_eliminate`, `get_cse` and its table, the
                                          histogram test, the `type(expr) is …` test, the
                                          constructor calls; else the inherited `IdentityMapper`
                                          row of the C04 table (rebuild order, `is_zero` collapse)
    * `C12TagAllTable`/ `c12TagAllT`     `tag_common_subexpressions` (threshold of `to_eliminate`)
    * `C12WTree`      / `c12WTreeT`      `wrap_in_cse` and `make_common_subexpression` as decision
                                          trees over the node class, `prefix`, `scope`
    * `C12CtorTable`  / `c12MkCse`       `CommonSubexpression(child, prefix, scope)`: defaults and
                                          `__post_init__`

  Nothing here knows the current source: every class list, number, test, order and constructor
  argument comes from a table argument.  PV/Proofs/CseTable.lean proves that the hand-written
  models (`normalizedKey`, `useCount`, `cseMap`, `tagAll`, `wrapInCse`, `makeCse`, `c12HistWalk`,
  `c12HistTag`) are these interpreters run on the tables the models were written against, and
  PV/Properties/C12Table.lean that the regenerated tables ARE those tables.
-/
namespace PV

/-! ### errors: the model's `CseErr` inside the table world's `DepErr` -/

def c12Err : CseErr → DepErr
  | .foreign => .foreign
  | .unhashable => .unhashable

def c12Lift {α : Type} : Except CseErr α → Except DepErr α
  | .ok a => .ok a
  | .error e => .error (c12Err e)

/-! ### `NormalizedKeyGetter` -/

structure C12KeyTable where
  /-- the node classes `isinstance(expr, COMMUTATIVE_CLASSES)` accepts -/
  commClasses : List String
  /-- `for child in expr.<field>` -/
  field : String
  /-- `kid_count[child] = kid_count.get(child, <start>) + <step>` -/
  start : Nat
  step : Nat
  /-- the key is the pair `(type(expr), frozenset(…))` -/
  withType : Bool
  /-- `frozenset(kid_count.items())` (false: the keys only — multiplicities dropped) -/
  items : Bool
  /-- `else: return expr` -/
  elseExpr : Bool
  deriving Repr, DecidableEq, Inhabited

def c12KidAddT (start step : Nat) (c : Expr) : List (Expr × Nat) → List (Expr × Nat)
  | [] => [(c, start + step)]
  | (k, n) :: rest =>
    if k.pyEq c then (k, n + step) :: rest else (k, n) :: c12KidAddT start step c rest

def c12KidFromT (start step : Nat) (acc : List (Expr × Nat)) : List Expr → List (Expr × Nat)
  | [] => acc
  | c :: cs => c12KidFromT start step (c12KidAddT start step c acc) cs

/-- the key the table describes (`none`: a shape this interpreter gives no meaning to) -/
def c12KeyT (K : C12KeyTable) (e : Expr) : Option CKey :=
  if K.commClasses.contains e.kind then
    match e with
    | .nary o _ =>
      match e.c04Field K.field with
      | some (.many cs) =>
        if K.withType then
          let kids := c12KidFromT K.start K.step [] cs
          some (.comm o (if K.items then kids else kids.map fun p => (p.1, 0)))
        else none
      | _ => none
    | _ => none
  else if K.elseExpr then some (.plain e) else none

/-! ### counting walk mappers -/

/-- the statements of `visit` / of a `map_*` override, in continuation form: every statement
carries what follows it; `if key in self.D: … else: …` carries both continuations -/
inductive C12Prog where
  /-- the end of the function (returns `None`) -/
  | done
  /-- `return True` / `return False` -/
  | ret (b : Bool)
  /-- `key = self.get_key(expr)` -/
  | getKey (k : C12Prog)
  /-- the next dictionary statement uses `expr` itself as the key -/
  | keyIsExpr (k : C12Prog)
  /-- `if key in self.D:` -/
  | ifIn (t e : C12Prog)
  /-- `self.D[key] += n` -/
  | incr (n : Nat) (k : C12Prog)
  /-- `self.D[key] = n` -/
  | assign (n : Nat) (k : C12Prog)
  /-- `self.D[key] = self.D.get(key, d) + n` -/
  | getPlus (d n : Nat) (k : C12Prog)
  /-- `self.rec(expr.F)` -/
  | recur (site : C04Rec) (k : C12Prog)
  deriving Repr, DecidableEq, Inhabited

structure C12CountTable where
  cls : String
  /-- the single base class -/
  base : String
  /-- the attribute `__init__` sets to `{}`; every dictionary statement acts on it -/
  dictAttr : String
  /-- the attribute `__init__` stores the key getter in -/
  keyAttr : Option String
  visit : C12Prog
  /-- the `map_*` functions of the class body -/
  overrides : List (String × C12Prog)
  deriving Repr, DecidableEq, Inhabited

/-- `self.D[key] += n` on a key that is present -/
def c12IncrBy (k : CKey) (n : Nat) : Counts → Counts
  | [] => []
  | (k', m) :: rest => if k'.eq k then (k', m + n) :: rest else (k', m) :: c12IncrBy k n rest

def c12CountSeqL (rec : Expr → Counts → Except DepErr Counts) :
    List Expr → Counts → Except DepErr Counts
  | [], c => .ok c
  | x :: xs, c =>
    match rec x c with
    | .ok c1 => c12CountSeqL rec xs c1
    | .error err => .error err

def c12CountSites (rec : Expr → Counts → Except DepErr Counts) (e : Expr) :
    List C04Rec → Counts → Except DepErr Counts
  | [], c => .ok c
  | r :: rs, c =>
    match c04RecChildren e r with
    | none => .error .unsupported
    | some cs =>
      match c12CountSeqL rec cs c with
      | .ok c1 => c12CountSites rec e rs c1
      | .error err => .error err

/-- Run the statements of one function on node `e`: the value returned (`none`: fell off the
end) and the dictionary.  Building the key of a commutative node hashes its operands, every
dictionary operation hashes the key: a node that contains a Python list raises `TypeError`. -/
def c12RunProg (key : Expr → Option CKey) (rec : Expr → Counts → Except DepErr Counts) (e : Expr) :
    C12Prog → Option CKey → Counts → Except DepErr (Option Bool × Counts)
  | .done, _, c => .ok (none, c)
  | .ret b, _, c => .ok (some b, c)
  | .getKey k, _, c =>
    match key e with
    | some (.comm o kids) =>
      if e.hasList then .error .unhashable else c12RunProg key rec e k (some (.comm o kids)) c
    | some ky => c12RunProg key rec e k (some ky) c
    | none => .error .unsupported
  | .keyIsExpr k, _, c => c12RunProg key rec e k (some (.plain e)) c
  | .ifIn t f, some ky, c =>
    if e.hasList then .error .unhashable
    else match c.find ky with
      | some _ => c12RunProg key rec e t (some ky) c
      | none => c12RunProg key rec e f (some ky) c
  | .incr n k, some ky, c =>
    if e.hasList then .error .unhashable
    else match c.find ky with
      | some _ => c12RunProg key rec e k (some ky) (c12IncrBy ky n c)
      | none => .error .unsupported                       -- KeyError
  | .assign n k, some ky, c =>
    if e.hasList then .error .unhashable
    else c12RunProg key rec e k (some ky) (c.set ky n)
  | .getPlus d n k, some ky, c =>
    if e.hasList then .error .unhashable
    else c12RunProg key rec e k (some ky) (c.set ky ((c.find ky).getD d + n))
  | .recur site k, ky, c =>
    match c04RecChildren e site with
    | none => .error .unsupported
    | some cs =>
      match c12CountSeqL rec cs c with
      | .ok c1 => c12RunProg key rec e k ky c1
      | .error err => .error err
  | _, none, _ => .error .unsupported                     -- a dictionary statement without a key

/-- what finally runs for a handler name of a counting mapper -/
inductive C12CBody where
  /-- a function of the class body -/
  | override (p : C12Prog)
  /-- the inherited `WalkMapper` function (its regenerated C04 row) -/
  | inherited (b : C04Body)
  deriving Repr, DecidableEq, Inhabited

def c12FindOverride (T : C12CountTable) (n : String) : Option C12Prog :=
  (T.overrides.find? (fun h => h.1 == n)).map (·.2)

/-- attribute lookup `self.<n>`: the class body first, then `WalkMapper`; `return self.map_x(…)`
stubs of `Mapper` are followed through the same lookup -/
def c12CBodyOf (walk : List C04Handler) (T : C12CountTable) : Nat → String → Option C12CBody
  | 0, _ => none
  | fuel + 1, n =>
    match c12FindOverride T n with
    | some p => some (.override p)
    | none => match c04FindHandler walk n with
      | none => none
      | some h => match h.body with
        | .delegate to _ => c12CBodyOf walk T fuel to
        | b => some (.inherited b)

def c12CNames (walk : List C04Handler) (T : C12CountTable) : List String :=
  T.overrides.map (·.1) ++ walk.map (·.name)

def c12CResolve (classes : List C04NodeClass) (walk : List C04Handler) (T : C12CountTable)
    (e : Expr) : Except DepErr C12CBody :=
  match c04Dispatch classes (c12CNames walk T) e with
  | .invalidForeign => .error .foreign
  | .unsupported => .error .unsupported
  | .handler n => match c12CBodyOf walk T 4 n with
    | some b => .ok b
    | none => .error .unsupported
  | .foreign n => match c12CBodyOf walk T 4 n with
    | some b => .ok b
    | none => .error .unsupported

/-- One handler call with the resolved body `body`; `visit` is the class's `visit` (the inherited
`post_visit` is `WalkMapper`'s no-op — checked by the extractor). -/
def c12CountStepB (key : Expr → Option CKey) (visit : C12Prog) (body : Except DepErr C12CBody)
    (rec : Expr → Counts → Except DepErr Counts) (e : Expr) (c : Counts) : Except DepErr Counts :=
  match body with
  | .error err => .error err
  | .ok (.override p) =>
    match c12RunProg key rec e p none c with
    | .ok (_, c1) => .ok c1
    | .error err => .error err
  | .ok (.inherited (.walk v _ recs _ _)) =>
    match v with
    | .absent => c12CountSites rec e recs c
    | .plain =>
      match c12RunProg key rec e visit none c with
      | .ok (_, c1) => c12CountSites rec e recs c1
      | .error err => .error err
    | .guard =>
      match c12RunProg key rec e visit none c with
      | .ok (r, c1) => if r == some true then c12CountSites rec e recs c1 else .ok c1
      | .error err => .error err
  | .ok (.inherited _) => .error .unsupported

/-- **One handler call of the counting mapper the tables describe**, recursion through `rec`. -/
def c12CountStep (classes : List C04NodeClass) (walk : List C04Handler) (K : C12KeyTable)
    (T : C12CountTable) (rec : Expr → Counts → Except DepErr Counts) (e : Expr) (c : Counts) :
    Except DepErr Counts :=
  c12CountStepB (c12KeyT K) T.visit (c12CResolve classes walk T e) rec e c

/-! ### `CommonSubexpression(child, prefix, scope)` -/

structure C12CtorTable where
  /-- dataclass fields in constructor order -/
  fields : List String
  /-- the default of `scope` -/
  scopeDefault : String
  /-- `__post_init__`: `scope=None` is replaced by this value -/
  noneScopeBecomes : Option String
  deriving Repr, DecidableEq, Inhabited

/-- a constructor call; `none` for an omitted argument, `some none` for `None` -/
def c12MkCse (C : C12CtorTable) (child : Expr) (pfx : Option (Option String))
    (scope : Option (Option String)) : Option Expr :=
  if C.fields == ["child", "prefix", "scope"] then
    let p : Option String := match pfx with
      | some p => p
      | none => none                                  -- default `None`
    match scope with
    | none => some (.cse child p C.scopeDefault)
    | some (some s) => some (.cse child p s)
    | some none => match C.noneScopeBecomes with
      | some s => some (.cse child p s)
      | none => none                                  -- a wrapper with `scope=None`: not in the model
  else none

/-! ### `wrap_in_cse` / `make_common_subexpression` -/

inductive C12WCond where
  /-- `isinstance(expr, …)`: the node classes accepted -/
  | isInst (classes : List String)
  /-- `type(expr) is <cls>` -/
  | exact (cls : String)
  /-- `<parameter> is None` -/
  | argNone (a : String)
  /-- `expr.<f> is None` -/
  | fieldNone (f : String)
  /-- `<parameter> == "<v>"` -/
  | argEq (a v : String)
  /-- `expr.<f> == <parameter>` -/
  | fieldEqArg (f a : String)
  /-- `is_constant(expr)` -/
  | isConstant
  /-- `isinstance(field, MultiVector)` (never true of a node of the model) -/
  | isMultiVector
  /-- a numpy object array of non-scalar shape (never true of a node of the model) -/
  | isObjArray
  /-- short-circuit `and` / `or`, `not` -/
  | and (a b : C12WCond)
  | or (a b : C12WCond)
  | not (a : C12WCond)
  deriving Repr, DecidableEq, Inhabited

inductive C12WVal where
  | self
  | field (f : String)
  deriving Repr, DecidableEq, Inhabited

inductive C12WArg where
  | omitted
  | arg (a : String)
  deriving Repr, DecidableEq, Inhabited

inductive C12WTree where
  /-- `return expr` -/
  | same
  /-- `return CommonSubexpression(<child>, <prefix>[, <scope>])` -/
  | mk (child : C12WVal) (pfx scope : C12WArg)
  /-- the componentwise branches (recognised by their text, not interpreted) -/
  | componentwise
  | ite (c : C12WCond) (t e : C12WTree)
  deriving Repr, DecidableEq, Inhabited

/-- the `str | None` valued fields of a node -/
def Expr.c12StrField : Expr → String → Option (Option String)
  | .cse _ p _, "prefix" => some p
  | .cse _ _ s, "scope" => some (some s)
  | _, _ => none

def c12CondT (e : Expr) (args : List (String × Option String)) : C12WCond → Option Bool
  | .isInst cls => some (cls.contains e.kind)
  | .exact c => some (e.kind == c)
  | .argNone a => (c04Assoc a args).map (·.isNone)
  | .fieldNone f => (e.c12StrField f).map (·.isNone)
  | .argEq a v => (c04Assoc a args).map (· == some v)
  | .fieldEqArg f a =>
    match e.c12StrField f, c04Assoc a args with
    | some x, some y => some (x == y)
    | _, _ => none
  | .isConstant => some e.isConstant
  | .isMultiVector => some false
  | .isObjArray => some false
  | .and a b =>
    match c12CondT e args a with
    | some true => c12CondT e args b
    | r => r
  | .or a b =>
    match c12CondT e args a with
    | some false => c12CondT e args b
    | r => r
  | .not a => (c12CondT e args a).map (!·)

def c12WArgT (args : List (String × Option String)) : C12WArg → Option (Option (Option String))
  | .omitted => some none
  | .arg a => (c04Assoc a args).map some

/-- the value the decision tree returns for node `e` and the arguments `args` (`none`: no claim) -/
def c12WTreeT (C : C12CtorTable) (e : Expr) (args : List (String × Option String)) :
    C12WTree → Option Expr
  | .same => some e
  | .componentwise => none
  | .mk child pfx scope =>
    let ch : Option Expr := match child with
      | .self => some e
      | .field f => match e.c04Field f with
        | some (.one c) => some c
        | _ => none
    match ch, c12WArgT args pfx, c12WArgT args scope with
    | some c, some p, some s => c12MkCse C c p s
    | _, _, _ => none
  | .ite c t f =>
    match c12CondT e args c with
    | some true => c12WTreeT C e args t
    | some false => c12WTreeT C e args f
    | none => none

/-! ### rebuilding mappers (`CSEMapper`, `CSETagMapper`) -/

inductive C12Cmp where
  | gt | ge | lt | le | eq | ne
  deriving Repr, DecidableEq, Inhabited

structure C12Thr where
  op : C12Cmp
  n : Nat
  deriving Repr, DecidableEq, Inhabited

def C12Thr.holds (t : C12Thr) (count : Nat) : Bool :=
  match t.op with
  | .gt => decide (count > t.n)
  | .ge => decide (count ≥ t.n)
  | .lt => decide (count < t.n)
  | .le => decide (count ≤ t.n)
  | .eq => count == t.n
  | .ne => count != t.n

/-- an expression-valued piece of a handler -/
inductive C12MExpr where
  /-- `getattr(IdentityMapper, expr.mapper_method)(self, expr)` -/
  | identity
  /-- `prim.wrap_in_cse(a)` / `prim.wrap_in_cse(a, expr.prefix)` -/
  | wrapCse (a : C12MExpr) (withPrefix : Bool)
  /-- `self.rec(expr.<f>)` -/
  | recField (f : String)
  /-- `r = a; if type(r) is prim.<cls>: r = r.child` -/
  | unwrapExact (a : C12MExpr) (cls : String)
  /-- `type(expr)(a, expr.<f₁>, …, **expr.get_extra_properties())` -/
  | ctorSame (a : C12MExpr) (copied : List String) (extra : Bool)
  /-- `CommonSubexpression(expr)` -/
  | newCse
  deriving Repr, DecidableEq, Inhabited

/-- what a branch of a handler returns -/
inductive C12MRet where
  /-- `self.get_cse(expr, key)` -/
  | getCse
  | expr (a : C12MExpr)
  deriving Repr, DecidableEq, Inhabited

inductive C12MBody where
  /-- `key = self.get_key(expr); if key in self.to_eliminate: return hit else: return miss` -/
  | keyed (hit miss : C12MRet)
  /-- `if self.subexpr_histogram.get(expr, d) <cmp> n: return hit else: return miss` -/
  | histo (dflt : Nat) (thr : C12Thr) (hit miss : C12MRet)
  /-- `if type(expr) is prim.<cls>: return t else: return e` -/
  | ifExact (cls : String) (t e : C12MRet)
  /-- a constructor call in `IdentityMapper` style -/
  | rebuild (b : C04Body)
  deriving Repr, DecidableEq, Inhabited

/-- `CSEMapper.get_cse` -/
structure C12GetCse where
  /-- `if key is None: key = self.get_key(expr)` -/
  keyDefaults : Bool
  /-- `try: return self.canonical_subexprs[key]` comes first -/
  lookupFirst : Bool
  /-- on `KeyError`: `new_expr = <fresh>` -/
  fresh : C12MExpr
  /-- `self.canonical_subexprs[key] = new_expr` before it is returned -/
  stores : Bool
  deriving Repr, DecidableEq, Inhabited

structure C12MRow where
  name : String
  /-- `__name__` of the function the attribute is bound to (`map_sum` for `map_product = map_sum`) -/
  impl : String
  body : C12MBody
  deriving Repr, DecidableEq, Inhabited

structure C12MapTable where
  cls : String
  base : String
  keyAttr : Option String
  elimAttr : Option String
  tableAttr : Option String
  histAttr : Option String
  getCse : Option C12GetCse
  rows : List C12MRow
  deriving Repr, DecidableEq, Inhabited

/-- what finally runs for a handler name of a rebuilding mapper -/
inductive C12MBodyR where
  | own (b : C12MBody)
  /-- the inherited `IdentityMapper` function (its regenerated C04 row) -/
  | inherited (b : C04Body)
  deriving Repr, DecidableEq, Inhabited

def c12FindRow (T : C12MapTable) (n : String) : Option C12MRow :=
  T.rows.find? (fun r => r.name == n)

def c12MBodyOf (ident : List C04Handler) (T : C12MapTable) : Nat → String → Option C12MBodyR
  | 0, _ => none
  | fuel + 1, n =>
    match c12FindRow T n with
    | some r => some (.own r.body)
    | none => match c04FindHandler ident n with
      | none => none
      | some h => match h.body with
        | .delegate to _ => c12MBodyOf ident T fuel to
        | b => some (.inherited b)

def c12MNames (ident : List C04Handler) (T : C12MapTable) : List String :=
  T.rows.map (·.name) ++ ident.map (·.name)

def c12MResolve (classes : List C04NodeClass) (ident : List C04Handler) (T : C12MapTable)
    (e : Expr) : Except DepErr C12MBodyR :=
  match c04Dispatch classes (c12MNames ident T) e with
  | .invalidForeign => .error .foreign
  | .unsupported => .error .unsupported
  | .handler n => match c12MBodyOf ident T 4 n with
    | some b => .ok b
    | none => .error .unsupported
  | .foreign n => match c12MBodyOf ident T 4 n with
    | some b => .ok b
    | none => .error .unsupported

/-- `getattr(IdentityMapper, expr.mapper_method)`: the node's own `mapper_method` (the nearest
class of its MRO that names one) looked up in `IdentityMapper` — NOT in the subclass.  Constants
and containers have no `mapper_method`. -/
def c12IdentOwn (classes : List C04NodeClass) (ident : List C04Handler) (e : Expr) :
    Except DepErr C04Body :=
  match e with
  | .const _ | .tuple _ | .list _ => .error .unsupported
  | e =>
    match c04FindClass classes e.kind with
    | none => .error .unsupported
    | some c =>
      match c.mro.find? (·.isSome) with
      | some (some m) =>
        match c04BodyOf ident 4 m with
        | some b => .ok b
        | none => .error .unsupported
      | _ => .error .unsupported

abbrev C12Rec := Expr → Tbl → Except DepErr (Expr × Tbl)

/-- the mapped children of one recursion site, the table threaded through -/
def c12MapSeqM (rec : C12Rec) : List Expr → Tbl → Except DepErr (List Expr × Tbl)
  | [], T => .ok ([], T)
  | c :: cs, T =>
    match rec c T with
    | .error err => .error err
    | .ok (c', T1) =>
      match c12MapSeqM rec cs T1 with
      | .error err => .error err
      | .ok (cs', T2) => .ok (c' :: cs', T2)

/-- the same, `None` parts staying in place (slices) -/
def c12MapSeqNotNoneM (rec : C12Rec) : List Expr → Tbl → Except DepErr (List Expr × Tbl)
  | [], T => .ok ([], T)
  | c :: cs, T =>
    if c.c04IsNone then
      match c12MapSeqNotNoneM rec cs T with
      | .error err => .error err
      | .ok (cs', T1) => .ok (c :: cs', T1)
    else
      match rec c T with
      | .error err => .error err
      | .ok (c', T1) =>
        match c12MapSeqNotNoneM rec cs T1 with
        | .error err => .error err
        | .ok (cs', T2) => .ok (c' :: cs', T2)

def c12MapRecM (rec : C12Rec) (e : Expr) (r : C04Rec) (T : Tbl) :
    Except DepErr (C04Val × Tbl) :=
  match e.c04Field r.field, r.iter with
  | some (.one c), .one =>
    match rec c T with
    | .ok (c', T1) => .ok (.one c', T1)
    | .error err => .error err
  | some (.many cs), .each =>
    match c12MapSeqM rec cs T with
    | .ok (cs', T1) => .ok (.many cs', T1)
    | .error err => .error err
  | some (.many cs), .eachNotNone =>
    match c12MapSeqNotNoneM rec cs T with
    | .ok (cs', T1) => .ok (.many cs', T1)
    | .error err => .error err
  | some (.dict vs), .eachValue =>
    match c12MapSeqM rec vs T with
    | .ok (vs', T1) => .ok (.dict vs', T1)
    | .error err => .error err
  | _, _ => .error .unsupported

def c12MapRecsM (rec : C12Rec) (e : Expr) :
    List C04Rec → Tbl → Except DepErr (List (String × C04Val × Bool) × Tbl)
  | [], T => .ok ([], T)
  | r :: rs, T =>
    match c12MapRecM rec e r T with
    | .error err => .error err
    | .ok (v, T1) =>
      match c12MapRecsM rec e rs T1 with
      | .error err => .error err
      | .ok (vs, T2) => .ok ((r.field, v, true) :: vs, T2)

/-- One `IdentityMapper` handler call (row `b` of the C04 table) with the table of canonical
wrappers threaded through the recursive calls: sites in table order, the `is_zero` collapse, the
constructor call.  (The "same object" test changes no value: it returns the node when every
mapped child IS the original.) -/
def c12RebuildM (rec : C12Rec) (e : Expr) (b : C04Body) (T : Tbl) : Except DepErr (Expr × Tbl) :=
  match b with
  | .same => .ok (e, T)
  | .rebuild recs _ _ zeroCollapse ctor =>
    match c12MapRecsM rec e recs T with
    | .error err => .error err
    | .ok (vals, T1) =>
      let collapse := zeroCollapse && (match vals with
        | [(_, .one c', _)] => c'.isZero
        | _ => false)
      if collapse then .ok (zero, T1)
      else match c04Rebuild e vals ctor with
        | some r => .ok (r, T1)
        | none => .error .unsupported
  | _ => .error .unsupported

/-- everything a handler of a rebuilding mapper can consult -/
structure C12MEnv where
  keyOf : Expr → Option CKey
  wrap : Expr → Option String → Option Expr
  mkCse : Expr → Option Expr                          -- `CommonSubexpression(expr)`
  identOf : Expr → Except DepErr C04Body
  getCse : Option C12GetCse
  recur : C12Rec

def c12EvalM (env : C12MEnv) (e : Expr) : C12MExpr → Tbl → Except DepErr (Expr × Tbl)
  | .identity, T =>
    match env.identOf e with
    | .ok b => c12RebuildM env.recur e b T
    | .error err => .error err
  | .wrapCse a withPrefix, T =>
    match c12EvalM env e a T with
    | .error err => .error err
    | .ok (r, T1) =>
      let pfx : Option (Option String) := if withPrefix then e.c12StrField "prefix" else some none
      match pfx with
      | none => .error .unsupported
      | some p => match env.wrap r p with
        | some w => .ok (w, T1)
        | none => .error .unsupported
  | .recField f, T =>
    match e.c04Field f with
    | some (.one c) => env.recur c T
    | _ => .error .unsupported
  | .unwrapExact a cls, T =>
    match c12EvalM env e a T with
    | .error err => .error err
    | .ok (r, T1) =>
      if r.kind == cls then
        match r.c04Field "child" with
        | some (.one c) => .ok (c, T1)
        | _ => .error .unsupported
      else .ok (r, T1)
  | .ctorSame a copied _, T =>
    match c12EvalM env e a T with
    | .error err => .error err
    | .ok (r, T1) =>
      -- an exact `CommonSubexpression` has no extra properties: fields not passed get defaults
      match e, copied with
      | .cse _ p _, ["prefix"] => .ok (.cse r p evalScope, T1)
      | _, _ => .error .unsupported
  | .newCse, T =>
    match env.mkCse e with
    | some w => .ok (w, T)
    | none => .error .unsupported

/-- what a branch returns; `ky`: the key bound by `key = self.get_key(expr)` -/
def c12RetM (env : C12MEnv) (e : Expr) (ky : Option CKey) : C12MRet → Tbl →
    Except DepErr (Expr × Tbl)
  | .expr a, T => c12EvalM env e a T
  | .getCse, T =>
    match env.getCse, ky with
    | some g, some k =>
      match (if g.lookupFirst then T.find k else none) with
      | some w => .ok (w, T)
      | none =>
        match c12EvalM env e g.fresh T with
        | .error err => .error err
        | .ok (w, T1) => .ok (w, if g.stores then T1.set k w else T1)
    | _, _ => .error .unsupported

/-- One handler call with the resolved body `body`; `elim` is `self.to_eliminate`, `hist` is
`self.subexpr_histogram`.  Building / looking up a key hashes the node. -/
def c12MapStepB (env : C12MEnv) (elim : List CKey) (hist : Counts)
    (body : Except DepErr C12MBodyR) (e : Expr) (T : Tbl) : Except DepErr (Expr × Tbl) :=
  match body with
  | .error err => .error err
  | .ok (.own (.keyed hit miss)) =>
    if e.hasList then .error .unhashable
    else match env.keyOf e with
      | none => .error .unsupported
      | some k =>
        if inElim elim k then c12RetM env e (some k) hit T else c12RetM env e (some k) miss T
  | .ok (.own (.histo d thr hit miss)) =>
    if e.hasList then .error .unhashable
    else if thr.holds ((hist.find (.plain e)).getD d) then c12RetM env e none hit T
    else c12RetM env e none miss T
  | .ok (.own (.ifExact cls t f)) =>
    if e.kind == cls then c12RetM env e none t T else c12RetM env e none f T
  | .ok (.own (.rebuild b)) => c12RebuildM env.recur e b T
  | .ok (.inherited b) => c12RebuildM env.recur e b T

/-- **One handler call of the rebuilding mapper the tables describe**, recursion through `rec`. -/
def c12MapStep (classes : List C04NodeClass) (ident : List C04Handler) (K : C12KeyTable)
    (C : C12CtorTable) (W : C12WTree) (T : C12MapTable) (elim : List CKey) (hist : Counts)
    (rec : C12Rec) (e : Expr) (tbl : Tbl) : Except DepErr (Expr × Tbl) :=
  c12MapStepB
    { keyOf := c12KeyT K,
      wrap := fun r p => c12WTreeT C r [("prefix", p)] W,
      mkCse := fun x => c12MkCse C x none none,
      identOf := c12IdentOwn classes ident,
      getCse := T.getCse,
      recur := rec }
    elim hist (c12MResolve classes ident T e) e tbl

/-! ### `tag_common_subexpressions` -/

structure C12TagAllTable where
  /-- `if count <cmp> <n>` of the set comprehension -/
  threshold : C12Thr
  keyGetter : String
  counter : String
  mapper : String
  /-- one counting mapper for the whole list -/
  oneCounter : Bool
  /-- one rebuilding mapper (one table of canonical wrappers) for the whole list -/
  oneMapper : Bool
  /-- both mappers use the same key getter -/
  sharedKeyGetter : Bool
  /-- a single expression instead of an iterable is rejected (`TypeError`) -/
  rejectsExpression : Bool
  deriving Repr, DecidableEq, Inhabited

/-- `{key for key, count in counts.items() if count <cmp> n}` -/
def c12ElimT (A : C12TagAllTable) (cnt : Counts) : List CKey :=
  (cnt.filter fun p => A.threshold.holds p.2).map (·.1)

def c12MapAllM (rec : C12Rec) : List Expr → Tbl → Except DepErr (List Expr × Tbl) := c12MapSeqM rec

/-- `tag_common_subexpressions(es)` as the table describes it, given the two mappers' `rec` -/
def c12TagAllT (A : C12TagAllTable) (count : Expr → Counts → Except DepErr Counts)
    (map : List CKey → C12Rec) (es : List Expr) : Except DepErr (List Expr) :=
  if A.oneCounter && A.oneMapper && A.sharedKeyGetter then
    match c12CountSeqL count es [] with
    | .error err => .error err
    | .ok cnt =>
      match c12MapAllM (map (c12ElimT A cnt)) es [] with
      | .error err => .error err
      | .ok (out, _) => .ok out
  else .error .unsupported

/-! ### the steps iterated (fuel = size of the tree): the table-driven functions themselves -/

def c12CountFuel (classes : List C04NodeClass) (walk : List C04Handler) (K : C12KeyTable)
    (T : C12CountTable) : Nat → Expr → Counts → Except DepErr Counts
  | 0, _, _ => .error .unsupported
  | fuel + 1, e, c => c12CountStep classes walk K T (c12CountFuel classes walk K T fuel) e c

/-- **the table-driven counting walk** -/
def c12CountT (classes : List C04NodeClass) (walk : List C04Handler) (K : C12KeyTable)
    (T : C12CountTable) (e : Expr) (c : Counts) : Except DepErr Counts :=
  c12CountFuel classes walk K T e.size e c

def c12MapFuel (classes : List C04NodeClass) (ident : List C04Handler) (K : C12KeyTable)
    (C : C12CtorTable) (W : C12WTree) (T : C12MapTable) (elim : List CKey) (hist : Counts) :
    Nat → C12Rec
  | 0, _, _ => .error .unsupported
  | fuel + 1, e, tbl =>
    c12MapStep classes ident K C W T elim hist (c12MapFuel classes ident K C W T elim hist fuel) e tbl

/-- **the table-driven rebuilding mapper** -/
def c12MapT (classes : List C04NodeClass) (ident : List C04Handler) (K : C12KeyTable)
    (C : C12CtorTable) (W : C12WTree) (T : C12MapTable) (elim : List CKey) (hist : Counts) : C12Rec :=
  fun e tbl => c12MapFuel classes ident K C W T elim hist e.size e tbl

/-- all the tables of the tagger of pymbolic/cse.py -/
structure C12Tables where
  classes : List C04NodeClass
  walk : List C04Handler
  ident : List C04Handler
  key : C12KeyTable
  count : C12CountTable
  mapper : C12MapTable
  tagAll : C12TagAllTable
  ctor : C12CtorTable
  wrap : C12WTree

/-- **`tag_common_subexpressions` as the tables describe it** -/
def c12TagAllRun (X : C12Tables) (es : List Expr) : Except DepErr (List Expr) :=
  c12TagAllT X.tagAll (c12CountT X.classes X.walk X.key X.count)
    (fun elim => c12MapT X.classes X.ident X.key X.ctor X.wrap X.mapper elim []) es

/-- **`w = CSEWalkMapper(); w(e); CSETagMapper(w)(e)` as the tables describe it** -/
def c12HistRun (classes : List C04NodeClass) (walk ident : List C04Handler) (K : C12KeyTable)
    (C : C12CtorTable) (W : C12WTree) (H : C12CountTable) (G : C12MapTable) (e : Expr) :
    Except DepErr Expr :=
  match c12CountT classes walk K H e [] with
  | .error err => .error err
  | .ok hist =>
    match c12MapT classes ident K C W G [] hist e [] with
    | .ok (r, _) => .ok r
    | .error err => .error err

end PV
