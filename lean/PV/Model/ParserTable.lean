import PV.Model.Parser
/-
  C07 (also C06), T-gen.  The shape of the table that `extract/parser.py` regenerates on every run
  from the SOURCE of `pymbolic/parser.py` (`PV/Generated/Parser.lean`), and its meaning.

  What the table holds (all of it read with `inspect` + `ast`, nothing defaulted):

    * `terminals`   — the `if next_tag is _t: return …` chain of `parse_terminal`;
    * `prefixes`    — every `elif pstate.is_next(_t):` branch of `parse_prefix`, its BODY translated
                      statement by statement into the small language `C07Cmd` / `C07Stmt` / `C07Tm`;
    * `postfixes`   — every `elif next_tag is _t and _PREC_x > min_precedence:` branch of
                      `parse_postfix`: the tag test, the precedence NAME of the guard, `>` or `>=`,
                      and the body in the same language (which level the operand is parsed at, which
                      node is built from which locals in which order, `did_something = True`);
    * `compTable`   — `Parser._COMP_TABLE`;
    * `joinToSlice` — the body of the helper `_join_to_slice` as a term;
    * `exprDefault`, `exprExit` — the default of `min_precedence` and the tail of
                      `parse_expression` (`if isinstance(left_exp, FinalizedTuple): return tuple(…)`);
    * `arglist`     — the tags and levels of `parse_arglist` (its loop is matched against a fixed
                      template by the extractor; any other statement is an extraction error);
    * `call`        — `Parser.__call__`: dropped tag, default level, end-of-input check.

  A lexer tag (`_openpar`) is recorded with its name and with the way the token model (`Tok`)
  shows it: the literal text of its rule in `Parser.lex_table` (`.sym "("`), or one of the six
  token classes.

  The meaning is given by the interpreter below: `c07ExprT`, `c07PrefixT`, `c07LoopT`,
  `c07ArglistT`, `c07TopT` are `parse_expression`, `parse_prefix`, the `while did_something` loop
  around `parse_postfix`, `parse_arglist` and `__call__` with the SAME fuel discipline as the
  hand-written `parseExpr`, `parsePrefix`, `postfixLoop`, `parseArglist`, `parseTop`
  (`PV/Model/Parser.lean`), but every decision that the source makes is looked up in the table:
  which branch a token selects (first row, in source order, whose tag test AND guard hold), what
  the branch does (the statements are executed one by one on a state of token position, local
  variables and the `did_something` flag), how the loop ends.

  Fixed in the interpreter (hand-written, not read from `/repo`): the meaning of the `LexIterator`
  primitives of `pytools.lex` (`advance`, `expect`, `expect_not_end`, `is_next`, `is_at_end`,
  `next_tag`, `next_str`, `copy`/`assign` around a `try`), of tuple displays, of `isinstance`, of
  the node constructors (`c07Build`), and the convention by which the model represents Python
  containers: a tuple is `Expr.tuple` plus the flag "is a FinalizedContainer", a list is
  `Expr.list` and always finalized (the parser builds lists only through `FinalizedList`), and a
  value that crosses the `parse_expression` boundary loses the flag (`parse_expression` strips
  `FinalizedTuple` on its normal exit; on the early exit at the end of the input no later branch
  can look at it).

  `PV/Proofs/ParserTable*.lean` prove, for ALL token lists, levels and fuel, that the interpreter
  run on the table the model was written against is the hand-written parser;
  `PV.C07.parser_table_current` proves the regenerated table equal to that table.
-/
namespace PV

/-- how the token model shows a lexer tag -/
inductive C07Tok where
  | sym (text : String)      -- a literal rule of `lex_table`: the token is `.sym text`
  | int | float | imaginary | identifier | tTrue | tFalse
  deriving Repr, DecidableEq, Inhabited

/-- a module-level tag constant (`_openpar = intern("openpar")`) -/
structure C07Tag where
  name : String
  tok : C07Tok
  deriving Repr, DecidableEq, Inhabited

def C07Tok.matches : C07Tok → Tok → Bool
  | .sym s, .sym t => s == t
  | .int, .int _ => true
  | .float, .flt _ _ _ => true
  | .imaginary, .imag _ => true
  | .identifier, .ident _ => true
  | .tTrue, .tTrue => true
  | .tFalse, .tFalse => true
  | _, _ => false

def C07Tag.matches (t : C07Tag) (tok : Tok) : Bool := t.tok.matches tok

/-- the `_PREC_*` constants by name; their values are `PV.Generated.parserPrec` -/
inductive C07Prec where
  | comma | slice | ifp | lor | land | bor | bxor | band | comparison | shift | plus | times
  | power | unary | call
  deriving Repr, DecidableEq, Inhabited

def C07Prec.get (P : ParserPrec) : C07Prec → Nat
  | .comma => P.comma | .slice => P.slice | .ifp => P.ifp | .lor => P.lor | .land => P.land
  | .bor => P.bor | .bxor => P.bxor | .band => P.band | .comparison => P.comparison
  | .shift => P.shift | .plus => P.plus | .times => P.times | .power => P.power
  | .unary => P.unary | .call => P.call

/-- second argument of a `self.parse_expression(pstate, …)` call -/
inductive C07Lvl where
  | prec (p : C07Prec)
  | lit (n : Nat)
  | dflt                      -- argument omitted: the default of the signature
  deriving Repr, DecidableEq, Inhabited

def C07Lvl.get (P : ParserPrec) (dflt : Nat) : C07Lvl → Nat
  | .prec p => p.get P
  | .lit n => n
  | .dflt => dflt

/-- classes and functions the parser's bodies call or test with `isinstance` (each name is
resolved by the extractor to the object it denotes at run time) -/
inductive C07Cls where
  | Sum | Product | BitwiseOr | BitwiseXor | BitwiseAnd | LogicalOr | LogicalAnd
  | Quotient | FloorDiv | Remainder | Power | LeftShift | RightShift
  | LogicalNot | BitwiseNot | Comparison | If | Call | CallWithKwargs | Subscript | Lookup
  | Slice | Wildcard | Variable
  | FinalizedTuple | FinalizedList | FinalizedContainer | tuple | list | immutabledict
  | joinToSlice
  | other (qualname : String)
  deriving Repr, DecidableEq, Inhabited

/-- conditions -/
inductive C07Cond where
  | isInst (x : String) (classes : List C07Cls)      -- `isinstance(x, C)` / `isinstance(x, (C, D))`
  | truthy (x : String)                              -- `if x:`
  | atEnd (i : Nat)                                  -- `pstate.is_at_end(i)`
  | nextTagIs (i : Nat) (t : C07Tag)                 -- `pstate.next_tag(i) is _t` (IndexError at the end)
  | isNext (t : C07Tag)                              -- `pstate.is_next(_t)`
  | not (c : C07Cond)
  | and (a b : C07Cond)                              -- short-circuit, as in Python
  | or (a b : C07Cond)
  deriving Repr, DecidableEq, Inhabited

/-- expressions that build values -/
inductive C07Tm where
  | var (x : String)
  | none                                             -- `None`
  | tnil                                             -- `()`
  | tcons (star : Bool) (hd tl : C07Tm)              -- `(hd, …tl)` / `(*hd, …tl)`
  | tcat (a b : C07Tm)                               -- `a + b` on tuples
  | lst (elems : C07Tm)                              -- `[…]` with the elements of the tuple term
  | attr (a : C07Tm) (name : String)                 -- `a.children`
  | neg (a : C07Tm)                                  -- `-a`
  | nextStr                                          -- `pstate.next_str()`
  | compOp                                           -- `self._COMP_TABLE[next_tag]`
  | mk0 (c : C07Cls)                                 -- `C()`
  | mk1 (c : C07Cls) (a : C07Tm)                     -- `C(a)`
  | mk2 (c : C07Cls) (a b : C07Tm)
  | mk3 (c : C07Cls) (a b d : C07Tm)
  | cond (c : C07Cond) (a b : C07Tm)                 -- `if c: v = a  else: v = b`
  deriving Repr, DecidableEq, Inhabited

inductive C07Stmt where
  | advance                                          -- `pstate.advance()`
  | expectNotEnd                                     -- `pstate.expect_not_end()`
  | expect (t : C07Tag)                              -- `pstate.expect(_t)`
  | parse (x : String) (lvl : C07Lvl)                -- `x = self.parse_expression(pstate, lvl)`
  | arglist (a k : String)                           -- `a, k = self.parse_arglist(pstate)`
  | assign (x : String) (t : C07Tm)
  /-- `e = pstate.copy(); try: x = self.parse_expression(e, lvl)
      except ParseError: fv = fail   else: ov = ok; pstate.assign(e)` -/
  | tryParse (x : String) (lvl : C07Lvl) (ov : String) (ok : C07Tm) (fv : String) (fail : C07Tm)
  | assertC (c : C07Cond)                            -- `assert c`
  | setDid                                           -- `did_something = True`
  deriving Repr, DecidableEq, Inhabited

inductive C07Cmd where
  | s (st : C07Stmt)
  | ifc (c : C07Cond) (thn els : List C07Stmt)
  deriving Repr, DecidableEq, Inhabited

/-- what `parse_terminal` returns for a tag -/
inductive C07Conv where
  | intOf                                            -- `int(text)`
  | floatOf                                          -- `self.parse_float(text)`
  | complexOf                                        -- `complex(text)`
  | constBool (b : Bool) (text : String)             -- `assert text == "True"; return True`
  | variable (warn : Bool)                           -- `Variable(text)` (with a DeprecationWarning)
  deriving Repr, DecidableEq, Inhabited

structure C07TermRow where
  tag : C07Tag
  conv : C07Conv
  deriving Repr, DecidableEq, Inhabited

structure C07PreRow where
  tag : C07Tag
  body : List C07Cmd
  deriving Repr, DecidableEq, Inhabited

/-- the first conjunct of a `parse_postfix` test -/
inductive C07Test where
  | is (t : C07Tag)                                  -- `next_tag is _t`
  | inComp                                           -- `next_tag in self._COMP_TABLE`
  deriving Repr, DecidableEq, Inhabited

structure C07PostRow where
  test : C07Test
  prec : C07Prec                                     -- `_PREC_x > min_precedence`
  strict : Bool                                      -- `>` (true) or `>=`
  body : List C07Cmd
  deriving Repr, DecidableEq, Inhabited

/-- the parameters of `parse_arglist` (the loop itself is a fixed template) -/
structure C07Arglist where
  sep : C07Tag
  close : C07Tag
  kwName : C07Tag
  kwEq : C07Tag
  kwLvl : C07Lvl
  posLvl : C07Lvl
  deriving Repr, DecidableEq, Inhabited

/-- `Parser.__call__` -/
structure C07Call where
  dropped : String             -- the tag filtered out of the lexer's result
  dflt : Nat                   -- default of `min_precedence`
  endCheck : Bool              -- `if not pstate.is_at_end(): pstate.raise_parse_error(…)`
  deriving Repr, DecidableEq, Inhabited

structure C07ParserTable where
  compTable : List (C07Tag × String)
  joinToSlice : C07Tm
  /-- what `parse_float` does with the text: the characters replaced by `e` before `float()` -/
  floatReplaces : List String
  /-- the positional constructor parameters (dataclass fields) of every node class a body builds -/
  ctors : List (String × List String)
  terminals : List C07TermRow
  prefixes : List C07PreRow
  postfixes : List C07PostRow
  exprDefault : Nat
  exprExit : C07Tm
  arglist : C07Arglist
  call : C07Call
  deriving Repr, DecidableEq, Inhabited

/-! ### values and local variables -/

inductive C07Val where
  | expr (e : Expr) (fin : Bool)
  | str (s : String)
  | kwargs (kn : List String) (kv : List Expr)
  deriving Repr, Inhabited

abbrev C07Env := List (String × C07Val)

def c07Get : C07Env → String → Except PErr C07Val
  | [], _ => throw .noClaim                               -- NameError
  | (y, v) :: rest, x => if y == x then pure v else c07Get rest x

def c07Set (env : C07Env) (x : String) (v : C07Val) : C07Env := (x, v) :: env

/-- `isinstance(v, C)` -/
def c07IsInst : C07Val → C07Cls → Bool
  | .expr (.nary .sum _) _, .Sum => true
  | .expr (.nary .prod _) _, .Product => true
  | .expr (.slice _) _, .Slice => true
  | .expr (.tuple _) _, .tuple => true
  | .expr (.list _) _, .list => true
  | .expr (.tuple _) fin, .FinalizedTuple => fin
  | .expr (.list _) _, .FinalizedList => true
  | .expr (.tuple _) fin, .FinalizedContainer => fin
  | .expr (.list _) _, .FinalizedContainer => true
  | _, _ => false

/-- what is read at the evaluation of a term: the locals, the tokens at the current position, the
token `parse_postfix` dispatched on (`next_tag`), `_COMP_TABLE` -/
structure C07Ctx where
  comp : List (C07Tag × String)
  disp : Option Tok
  deriving Inhabited

def c07CompOf (comp : List (C07Tag × String)) (tok : Tok) : Option String :=
  (comp.find? fun r => r.1.matches tok).map (·.2)

def c07EvalCond (env : C07Env) (toks : List Tok) : C07Cond → Except PErr Bool
  | .isInst x cs => do
      let v ← c07Get env x
      pure (cs.any (c07IsInst v))
  | .truthy x => do
      match ← c07Get env x with
      | .kwargs kn _ => pure (!kn.isEmpty)
      | .expr (.tuple cs) _ => pure (!cs.isEmpty)
      | .expr (.list cs) _ => pure (!cs.isEmpty)
      | _ => throw .noClaim
  | .atEnd i => pure (toks.drop i).isEmpty
  | .nextTagIs i t =>
      match toks.drop i with
      | [] => throw .noClaim                              -- IndexError
      | tok :: _ => pure (t.matches tok)
  | .isNext t =>
      match toks with
      | [] => pure false
      | tok :: _ => pure (t.matches tok)
  | .not c => do pure (!(← c07EvalCond env toks c))
  | .and a b => do if ← c07EvalCond env toks a then c07EvalCond env toks b else pure false
  | .or a b => do if ← c07EvalCond env toks a then pure true else c07EvalCond env toks b

def c07AsExpr : C07Val → Except PErr Expr
  | .expr e _ => pure e
  | _ => throw .noClaim

def c07AsTuple : C07Val → Except PErr (List Expr)
  | .expr (.tuple cs) _ => pure cs
  | _ => throw .noClaim

/-- the elements `*v` splices into a tuple display -/
def c07AsIter : C07Val → Except PErr (List Expr)
  | .expr (.tuple cs) _ => pure cs
  | .expr (.list cs) _ => pure cs
  | _ => throw .noClaim

def c07NaryOf : C07Cls → Option NaryOp
  | .Sum => some .sum | .Product => some .prod | .BitwiseOr => some .bor
  | .BitwiseXor => some .bxor | .BitwiseAnd => some .band | .LogicalOr => some .lor
  | .LogicalAnd => some .land | _ => none

def c07BinOf : C07Cls → Option BinOp
  | .Quotient => some .quot | .FloorDiv => some .floordiv | .Remainder => some .rem
  | .Power => some .pow | .LeftShift => some .lshift | .RightShift => some .rshift | _ => none

/-- `C(args…)` for the classes and functions of `C07Cls`; `jts` is `_join_to_slice` -/
def c07Build (jts : C07Val → C07Val → Except PErr C07Val) (c : C07Cls) (args : List C07Val) :
    Except PErr C07Val :=
  match c07NaryOf c with
  | some op =>
    match args with
    | [.expr (.tuple cs) _] => pure (.expr (.nary op cs) false)
    | _ => throw .noClaim
  | none =>
  match c07BinOf c with
  | some op =>
    match args with
    | [.expr a _, .expr b _] => pure (.expr (.bin op a b) false)
    | _ => throw .noClaim
  | none =>
  match c, args with
  | .Wildcard, [] => pure (.expr .wildcard false)
  | .Variable, [.str s] => pure (.expr (.var s) false)
  | .LogicalNot, [.expr a _] => pure (.expr (.un .lnot a) false)
  | .BitwiseNot, [.expr a _] => pure (.expr (.un .bnot a) false)
  | .Comparison, [.expr a _, .str o, .expr b _] =>
      match CmpOp.ofSym? o with
      | some op => pure (.expr (.cmp op a b) false)
      | none => throw .noClaim
  | .If, [.expr c _, .expr t _, .expr e _] => pure (.expr (.ite c t e) false)
  | .Call, [.expr f _, .expr (.tuple as) _] => pure (.expr (.call f as) false)
  | .CallWithKwargs, [.expr f _, .expr (.tuple as) _, .kwargs kn kv] =>
      pure (.expr (.callKw f as kn kv) false)
  | .Subscript, [.expr a _, .expr i _] => pure (.expr (.subscript a i) false)
  | .Lookup, [.expr a _, .str n] => pure (.expr (.lookup a n) false)
  | .Slice, [.expr (.tuple cs) _] => pure (.expr (.slice cs) false)
  | .FinalizedTuple, [.expr (.tuple cs) _] => pure (.expr (.tuple cs) true)
  | .FinalizedList, [.expr (.tuple cs) _] => pure (.expr (.list cs) true)
  | .FinalizedList, [.expr (.list cs) _] => pure (.expr (.list cs) true)
  | .tuple, [.expr (.tuple cs) _] => pure (.expr (.tuple cs) false)
  | .immutabledict, [.kwargs kn kv] => pure (.kwargs kn kv)
  | .joinToSlice, [a, b] => jts a b
  | _, _ => throw .noClaim

def c07EvalTm (jts : C07Val → C07Val → Except PErr C07Val) (cx : C07Ctx) (env : C07Env)
    (toks : List Tok) : C07Tm → Except PErr C07Val
  | .var x => c07Get env x
  | .none => pure (.expr (.const .none) false)
  | .tnil => pure (.expr (.tuple []) false)
  | .tcons star hd tl => do
      let h ← c07EvalTm jts cx env toks hd
      let hs ← if star then c07AsIter h else (do pure [← c07AsExpr h])
      let ts ← c07EvalTm jts cx env toks tl >>= c07AsTuple
      pure (.expr (.tuple (hs ++ ts)) false)
  | .tcat a b => do
      let xs ← c07EvalTm jts cx env toks a >>= c07AsTuple
      let ys ← c07EvalTm jts cx env toks b >>= c07AsTuple
      pure (.expr (.tuple (xs ++ ys)) false)
  | .lst t => do
      let xs ← c07EvalTm jts cx env toks t >>= c07AsTuple
      pure (.expr (.list xs) false)
  | .attr a name => do
      match ← c07EvalTm jts cx env toks a with
      | .expr (.nary _ cs) _ => if name == "children" then pure (.expr (.tuple cs) false) else throw .noClaim
      | .expr (.slice cs) _ => if name == "children" then pure (.expr (.tuple cs) false) else throw .noClaim
      | _ => throw .noClaim
  | .neg a => do
      let e ← c07EvalTm jts cx env toks a >>= c07AsExpr
      let n ← parseNeg e
      pure (.expr n false)
  | .nextStr =>
      match toks with
      | .ident s :: _ => pure (.str s)
      | .sym s :: _ => pure (.str s)
      | _ => throw .noClaim
  | .compOp =>
      match cx.disp.bind (c07CompOf cx.comp) with
      | some o => pure (.str o)
      | none => throw .noClaim                             -- KeyError
  | .mk0 c => c07Build jts c []
  | .mk1 c a => do
      let x ← c07EvalTm jts cx env toks a
      c07Build jts c [x]
  | .mk2 c a b => do
      let x ← c07EvalTm jts cx env toks a
      let y ← c07EvalTm jts cx env toks b
      c07Build jts c [x, y]
  | .mk3 c a b d => do
      let x ← c07EvalTm jts cx env toks a
      let y ← c07EvalTm jts cx env toks b
      let z ← c07EvalTm jts cx env toks d
      c07Build jts c [x, y, z]
  | .cond c a b => do
      if ← c07EvalCond env toks c then c07EvalTm jts cx env toks a
      else c07EvalTm jts cx env toks b

/-- `_join_to_slice(left, right)`: its extracted body, evaluated with the two parameters bound -/
def c07Jts (body : C07Tm) (cx : C07Ctx) (l r : C07Val) : Except PErr C07Val :=
  c07EvalTm (fun _ _ => throw .noClaim) cx [("left", l), ("right", r)] [] body

/-! ### statements -/

structure C07St where
  toks : List Tok
  env : C07Env
  did : Bool
  deriving Inhabited

/-- everything a body needs from outside: the table, the precedence values, the dispatch token,
`self.parse_expression` and `self.parse_arglist` -/
structure C07Run where
  T : C07ParserTable
  P : ParserPrec
  disp : Option Tok
  pe : Nat → List Tok → Except PErr (Expr × List Tok)
  al : List Tok → Except PErr ((List Expr × List String × List Expr) × List Tok)

def C07Run.cx (R : C07Run) : C07Ctx := { comp := R.T.compTable, disp := R.disp }

def C07Run.tm (R : C07Run) (st : C07St) (t : C07Tm) : Except PErr C07Val :=
  c07EvalTm (c07Jts R.T.joinToSlice R.cx) R.cx st.env st.toks t

def c07ExecStmt (R : C07Run) (st : C07St) : C07Stmt → Except PErr C07St
  | .advance => pure { st with toks := st.toks.tail }
  | .expectNotEnd => if st.toks.isEmpty then throw .parse else pure st
  | .expect t =>
      match st.toks with
      | [] => throw .parse
      | tok :: _ => if t.matches tok then pure st else throw .parse
  | .parse x lvl => do
      let (e, rest) ← R.pe (lvl.get R.P R.T.exprDefault) st.toks
      pure { st with toks := rest, env := c07Set st.env x (.expr e false) }
  | .arglist a k => do
      let ((args, kn, kv), rest) ← R.al st.toks
      pure { st with toks := rest,
                     env := c07Set (c07Set st.env a (.expr (.tuple args) false)) k (.kwargs kn kv) }
  | .assign x t => do
      let v ← R.tm st t
      pure { st with env := c07Set st.env x v }
  | .tryParse x lvl ov ok fv fail =>
      match R.pe (lvl.get R.P R.T.exprDefault) st.toks with
      | .ok (e, rest) => do
          let st1 : C07St := { st with env := c07Set st.env x (.expr e false) }
          let v ← R.tm st1 ok
          pure { st1 with toks := rest, env := c07Set st1.env ov v }
      | .error .parse => do
          let v ← R.tm st fail
          pure { st with env := c07Set st.env fv v }
      | .error e => throw e
  | .assertC c => do
      if ← c07EvalCond st.env st.toks c then pure st else throw .assertion
  | .setDid => pure { st with did := true }

def c07ExecStmts (R : C07Run) : List C07Stmt → C07St → Except PErr C07St
  | [], st => pure st
  | s :: ss, st => do
      let st' ← c07ExecStmt R st s
      c07ExecStmts R ss st'

def c07ExecCmd (R : C07Run) (st : C07St) : C07Cmd → Except PErr C07St
  | .s s => c07ExecStmt R st s
  | .ifc c thn els => do
      if ← c07EvalCond st.env st.toks c then c07ExecStmts R thn st else c07ExecStmts R els st

def c07RunBody (R : C07Run) : List C07Cmd → C07St → Except PErr C07St
  | [], st => pure st
  | c :: cs, st => do
      let st' ← c07ExecCmd R st c
      c07RunBody R cs st'

/-- the value of the local `left_exp` as the pair the parser model carries -/
def c07Left (env : C07Env) : Except PErr (Expr × Bool) := do
  match ← c07Get env "left_exp" with
  | .expr e fin => pure (e, fin)
  | _ => throw .noClaim

/-! ### dispatch -/

def C07Test.holds (comp : List (C07Tag × String)) (tok : Tok) : C07Test → Bool
  | .is t => t.matches tok
  | .inComp => (c07CompOf comp tok).isSome

def C07PostRow.guardOk (r : C07PostRow) (P : ParserPrec) (m : Nat) : Bool :=
  if r.strict then decide (r.prec.get P > m) else decide (r.prec.get P ≥ m)

/-- the `if … elif …` chain of `parse_postfix`: the first row whose test holds -/
def c07FindPost (comp : List (C07Tag × String)) (P : ParserPrec) (m : Nat) (tok : Tok) :
    List C07PostRow → Option C07PostRow
  | [] => none
  | r :: rs => if r.test.holds comp tok && r.guardOk P m then some r else c07FindPost comp P m tok rs

def c07FindPre (tok : Tok) : List C07PreRow → Option C07PreRow
  | [] => none
  | r :: rs => if r.tag.matches tok then some r else c07FindPre tok rs

def c07TokText : Tok → Option String
  | .ident s => some s
  | .sym s => some s
  | .tTrue => some "True"
  | .tFalse => some "False"
  | _ => none

/-- `parse_terminal` on the token `tok` -/
def c07Terminal (rows : List C07TermRow) (tok : Tok) : Except PErr Expr :=
  match rows.find? fun r => r.tag.matches tok with
  | none => throw .parse                                   -- `pstate.expected("terminal")`
  | some r =>
    match r.conv, tok with
    | .intOf, .int n => pure (.const (.int n))
    | .floatOf, .flt s n d => pure (.const (.flt s n d))
    | .constBool b text, t =>
        if c07TokText t == some text then pure (.const (.bool b)) else throw .assertion
    | .variable _, t =>
        match c07TokText t with
        | some s => pure (.var s)
        | none => throw .noClaim
    | _, _ => throw .noClaim

/-- the normal exit of `parse_expression` (after the loop) -/
def c07Exit (T : C07ParserTable) (left : Expr) (fin : Bool) : Except PErr Expr := do
  let cx : C07Ctx := { comp := T.compTable, disp := none }
  let v ← c07EvalTm (c07Jts T.joinToSlice cx) cx [("left_exp", .expr left fin)] [] T.exprExit
  c07AsExpr v

mutual
/-- `parse_expression(pstate, min_precedence)` -/
def c07ExprT (T : C07ParserTable) (P : ParserPrec) : Nat → Nat → List Tok →
    Except PErr (Expr × List Tok)
  | 0, _, _ => throw .noClaim
  | fuel + 1, m, toks => do
      let ((left, fin), rest) ← c07PrefixT T P fuel toks
      c07LoopT T P fuel m left fin rest
/-- `parse_prefix` -/
def c07PrefixT (T : C07ParserTable) (P : ParserPrec) : Nat → List Tok →
    Except PErr ((Expr × Bool) × List Tok)
  | 0, _ => throw .noClaim
  | _ + 1, [] => throw .parse                              -- `pstate.expect_not_end()`
  | fuel + 1, tok :: rest =>
    match c07FindPre tok T.prefixes with
    | some row => do
        let R : C07Run := { T := T, P := P, disp := none,
                            pe := fun m ts => c07ExprT T P fuel m ts,
                            al := fun ts => c07ArglistT T P fuel ts [] [] [] false }
        let st ← c07RunBody R row.body { toks := tok :: rest, env := [], did := false }
        let l ← c07Left st.env
        pure (l, st.toks)
    | none => do                                           -- `else: self.parse_terminal(pstate)`
        let e ← c07Terminal T.terminals tok
        pure ((e, false), rest)
/-- the loop of `parse_expression` around `parse_postfix` -/
def c07LoopT (T : C07ParserTable) (P : ParserPrec) : Nat → Nat → Expr → Bool → List Tok →
    Except PErr (Expr × List Tok)
  | 0, _, _, _, _ => throw .noClaim
  | _ + 1, _, left, _, [] => pure (left, [])                -- `if pstate.is_at_end(): return left_exp`
  | fuel + 1, m, left, fin, tok :: rest =>
    match c07FindPost T.compTable P m tok T.postfixes with
    | none => do                                           -- `did_something` stays False
        let e ← c07Exit T left fin
        pure (e, tok :: rest)
    | some row => do
        let R : C07Run := { T := T, P := P, disp := some tok,
                            pe := fun m ts => c07ExprT T P fuel m ts,
                            al := fun ts => c07ArglistT T P fuel ts [] [] [] false }
        let st ← c07RunBody R row.body
          { toks := tok :: rest, env := [("left_exp", .expr left fin)], did := false }
        let (l, f) ← c07Left st.env
        if st.did then c07LoopT T P fuel m l f st.toks
        else do
          let e ← c07Exit T l f
          pure (e, st.toks)
/-- `parse_arglist` (fixed template, tags and levels from the table) -/
def c07ArglistT (T : C07ParserTable) (P : ParserPrec) : Nat → List Tok → List Expr →
    List String → List Expr → Bool → Except PErr ((List Expr × List String × List Expr) × List Tok)
  | 0, _, _, _, _, _ => throw .noClaim
  | _ + 1, [], _, _, _, _ => throw .parse
  | fuel + 1, tok :: rest, args, kwn, kwv, commaAllowed =>
    let toks := tok :: rest
    let sawComma := T.arglist.sep.matches tok
    if sawComma && !commaAllowed then throw .parse else
    let toks1 := if sawComma then rest else toks
    match toks1 with
    | [] => throw .parse
    | t1 :: rest1 =>
      if T.arglist.close.matches t1 then pure ((args, kwn, kwv), rest1) else
      if !sawComma && commaAllowed then throw .parse else
      let isKw : Bool := T.arglist.kwName.matches t1 && (match rest1 with
        | t2 :: _ => T.arglist.kwEq.matches t2
        | [] => false)
      if isKw then
        match c07TokText t1, rest1 with
        | some k, _ :: rest2 => do
          let (v, rest') ← c07ExprT T P fuel (T.arglist.kwLvl.get P T.exprDefault) rest2
          -- kwargs[kw] = …: a repeated keyword overwrites the earlier value, keeps its position
          let (kwn', kwv') :=
            if kwn.contains k then
              (kwn, (kwn.zip kwv).map fun p => if p.1 == k then v else p.2)
            else (kwn ++ [k], kwv ++ [v])
          c07ArglistT T P fuel rest' args kwn' kwv' true
        | _, _ => throw .noClaim
      else
        if !kwn.isEmpty then throw .parse else do
          let (a, rest') ← c07ExprT T P fuel (T.arglist.posLvl.get P T.exprDefault) toks1
          c07ArglistT T P fuel rest' (args ++ [a]) kwn kwv true
end

/-- `Parser.__call__` on the tokens that are left when the dropped tag is filtered out -/
def c07TopT (T : C07ParserTable) (P : ParserPrec) (minPrec : Nat) (toks : List Tok) :
    Except PErr Expr :=
  match c07ExprT T P (2 * toks.length + 8) minPrec toks with
  | .ok (e, []) => pure e
  | .ok (e, _ :: _) => if T.call.endCheck then throw .parse else pure e
  | .error e => throw e

end PV
