import PV.Model.Pickle
import PV.Model.TravTable
/-
  C17 (T-gen).  What the body of `PersistentHashWalkMapper` (pymbolic/mapper/persistent_hash.py)
  says, as a plain table — regenerated from the live source by extract/persistent_hash.py into
  lean/PV/Generated/PersistentHash.lean — and the table-driven digest:

    * `c17DigestStep`  one handler call of the mapper on a node, recursion left open (`self.rec`):
                       an override of the class if it has one for the handler the node is
                       dispatched to, otherwise the inherited `WalkMapper` handler (its row in
                       the regenerated traversal table: visit, recursion sites in order,
                       post_visit) with the `visit` / `post_visit` of the class;
    * `c17DigestT`     the whole digest: the step iterated (fuel = size of the tree).

  Nothing here knows the current source: which pieces are fed, in which order, by `repr` or by
  value, and the traversal order all come from the two table arguments.  PV/Proofs/
  PersistentHashTable.lean proves that the hand-written `digest` (PV/Model/Pickle.lean) is
  `c17DigestT` of the regenerated tables.
-/
namespace PV
open PV.Pickle

/-- one byte string handed to `self.key_hash.update(<piece>.encode("utf8"))` -/
inductive C17Piece where
  /-- `type(expr).__name__` -/
  | className
  /-- `expr.F` (a string-valued field, fed by VALUE) -/
  | field (f : String)
  /-- `repr(expr)` (constants) -/
  | reprSelf
  /-- `str(expr)` (constants) -/
  | strSelf
  /-- `repr(expr.F)` -/
  | reprField (f : String)
  /-- `str(expr.F)` -/
  | strField (f : String)
  deriving Repr, DecidableEq, Inhabited

inductive C17Step where
  | feed (p : C17Piece)
  /-- `self.rec(expr.F)` / `for c in expr.F: self.rec(c)` (a recursion site as in the C04 tables) -/
  | recur (site : C04Rec)
  deriving Repr, DecidableEq, Inhabited

/-- one `map_*` function defined in the class body -/
structure C17Handler where
  name : String
  /-- the steps sit under `if self.visit(expr):` -/
  guarded : Bool
  /-- the numpy-scalar normalisation (`expr = expr.item()`) precedes the steps -/
  numpyItem : Bool
  steps : List C17Step
  deriving Repr, DecidableEq, Inhabited

/-- `Expression.update_persistent_hash` -/
inductive C17ExprUpdate where
  /-- not defined: pytools' `KeyBuilder` keys expression dataclasses itself -/
  | absent
  /-- `PersistentHashWalkMapper(key_hash)(self)` -/
  | viaWalkMapper
  deriving Repr, DecidableEq, Inhabited

structure C17Table where
  /-- the single base class -/
  base : String
  /-- `__init__` stores its argument as `self.key_hash` -/
  storesKeyHash : Bool
  /-- what `visit` feeds, in order -/
  visitFeeds : List C17Piece
  /-- the constant `visit` returns (`true`: the children are walked) -/
  visitReturns : Bool
  /-- what `post_visit` feeds (inherited no-op: nothing) -/
  postVisitFeeds : List C17Piece
  overrides : List C17Handler
  exprUpdate : C17ExprUpdate
  deriving Repr, DecidableEq, Inhabited

/-! ### pieces of a node -/

/-- the string-valued dataclass fields of a node, under their Python names -/
def Expr.c17StrField : Expr → String → Option String
  | .var x, "name" => some x
  | .cmp o _ _, "operator" => some o.sym
  | .lookup _ n, "name" => some n
  | .dotWild n, "name" => some n
  | .starWild n, "name" => some n
  | .cse _ _ s, "scope" => some s
  | _, _ => none

/-- `repr(s)` of a `str` without backslashes or non-printable characters: single quotes, unless
the string contains a single quote and no double quote (both: not modelled, escapes) -/
def c17PyReprStr (s : String) : String :=
  if s.toList.contains '\'' && !s.toList.contains '"' then "\"" ++ s ++ "\"" else "'" ++ s ++ "'"

/-- the string a piece denotes on a node; `none`: not modelled (no claim) -/
def c17PieceStr (e : Expr) : C17Piece → Option String
  | .className => some e.kind
  | .field f => e.c17StrField f
  | .reprSelf => match e with
    | .const c => constRepr c
    | _ => none
  | .strSelf => match e with
    | .const c => constRepr c       -- `str` = `repr` for int / bool / float
    | _ => none
  | .reprField f => (e.c17StrField f).map c17PyReprStr
  | .strField f => e.c17StrField f

def c17Feeds (e : Expr) : List C17Piece → Except DepErr (List String)
  | [] => pure []
  | p :: ps => match c17PieceStr e p with
    | none => .error .unsupported
    | some s => do
        let rest ← c17Feeds e ps
        pure (s :: rest)

/-- the steps of an override, in order -/
def c17RunSteps (rec : Expr → Except DepErr (List String)) (e : Expr) :
    List C17Step → Except DepErr (List String)
  | [] => pure []
  | .feed p :: rest => match c17PieceStr e p with
    | none => .error .unsupported
    | some s => do
        let y ← c17RunSteps rec e rest
        pure (s :: y)
  | .recur site :: rest => match c04RecChildren e site with
    | none => .error .unsupported
    | some cs => do
        let x ← c04SeqL rec cs
        let y ← c17RunSteps rec e rest
        pure (x ++ y)

/-! ### dispatch to an override or to the inherited handler -/

/-- what finally runs for a handler name -/
inductive C17Body where
  /-- a function of the class body -/
  | override (h : C17Handler)
  /-- the inherited `WalkMapper` function (its regenerated row) -/
  | inherited (b : C04Body)
  deriving Repr, DecidableEq, Inhabited

def c17FindOverride (T : C17Table) (n : String) : Option C17Handler :=
  T.overrides.find? (fun h => h.name == n)

/-- attribute lookup `self.<n>`: the class body first, then `WalkMapper`; `return self.map_x(…)`
stubs of `Mapper` are followed through the same lookup -/
def c17BodyOf (walk : List C04Handler) (T : C17Table) : Nat → String → Option C17Body
  | 0, _ => none
  | fuel + 1, n =>
    match c17FindOverride T n with
    | some h => some (.override h)
    | none => match c04FindHandler walk n with
      | none => none
      | some h => match h.body with
        | .delegate to _ => c17BodyOf walk T fuel to
        | b => some (.inherited b)

/-- the `map_*` attribute names of the class (`dir`) -/
def c17HandlerNames (walk : List C04Handler) (T : C17Table) : List String :=
  T.overrides.map (·.name) ++ walk.map (·.name)

def c17Resolve (classes : List C04NodeClass) (walk : List C04Handler) (T : C17Table) (e : Expr) :
    Except DepErr C17Body :=
  match c04Dispatch classes (c17HandlerNames walk T) e with
  | .invalidForeign => .error .foreign
  | .unsupported => .error .unsupported
  | .handler n => match c17BodyOf walk T 4 n with
    | some b => .ok b
    | none => .error .unsupported
  | .foreign n => match c17BodyOf walk T 4 n with
    | some b => .ok b
    | none => .error .unsupported

/-! ### one handler call, recursion left open -/

/-- One handler call with the resolved body `body`. -/
def c17DigestStepB (T : C17Table) (body : Except DepErr C17Body)
    (rec : Expr → Except DepErr (List String)) (e : Expr) : Except DepErr (List String) :=
  match body with
  | .error err => .error err
  | .ok (.override h) =>
    if h.guarded then do
      let v ← c17Feeds e T.visitFeeds
      if T.visitReturns then do
        let b ← c17RunSteps rec e h.steps
        pure (v ++ b)
      else pure v
    else c17RunSteps rec e h.steps
  | .ok (.inherited (.walk visit _ recs post _)) => do
      let v ← (match visit with
        | .absent => pure []
        | _ => c17Feeds e T.visitFeeds)
      if visit == .guard && !T.visitReturns then pure v
      else do
        let inner ← c04SeqSites (fun _ c => rec c) false e recs
        let p ← (if post then c17Feeds e T.postVisitFeeds else pure [])
        pure (v ++ inner ++ p)
  | .ok (.inherited _) => .error .unsupported

/-- **One handler call of the mapper the two tables describe**, recursion through `rec`. -/
def c17DigestStep (classes : List C04NodeClass) (walk : List C04Handler) (T : C17Table)
    (rec : Expr → Except DepErr (List String)) (e : Expr) : Except DepErr (List String) :=
  c17DigestStepB T (c17Resolve classes walk T e) rec e

/-- the step iterated `fuel` times -/
def c17DigestFuel (classes : List C04NodeClass) (walk : List C04Handler) (T : C17Table) :
    Nat → Expr → Except DepErr (List String)
  | 0, _ => .error .unsupported
  | fuel + 1, e => c17DigestStep classes walk T (c17DigestFuel classes walk T fuel) e

/-- **The table-driven digest**: the byte strings fed to the key hash by the mapper whose class
body is `T` on top of the `WalkMapper` rows `walk`, for the node classes `classes`. -/
def c17DigestT (classes : List C04NodeClass) (walk : List C04Handler) (T : C17Table) (e : Expr) :
    Except DepErr (List String) :=
  c17DigestFuel classes walk T e.size e

end PV
