import PV.Model.Compile
import PV.Model.TravTable
import PV.Model.AnalysisTable
/-
  C13 (T-gen).  What the source text of the code generators says, as plain tables — regenerated from
  the live source by extract/codegen.py into lean/PV/Generated/Codegen.lean — and interpreters that
  give every table a meaning:

    A. `ASTToPymbolic` (pymbolic/interop/ast.py): the operator maps (`bin_op_map`, `unary_op_map`,
       `comparison_op_map`; a `bool_op_map` does not exist today) with the module-level helper
       functions they point to, every `map_*` handler as a small program, the dispatch of
       `ASTMapper.rec` (first `map_<class>` along the MRO of the node's class);
       `c13FromAstT` RUNS such a table on a Python AST.
    B. `PymbolicToASTMapper`: every `map_*` handler (which `ast` class, which operator object, the
       arguments in evaluation order under their field names), the folding helper
       `_map_multi_children_op` (start element, iteration slice, nesting), `to_python_ast`;
       `c13ToAstT` RUNS such a table on an expression (with the memo protocol `wrap` around every
       `self.rec`).
    C. `CompileMapper`: what the class body overrides (`map_constant` as text conditions,
       `map_common_subexpression`, `rec_with_force_parens_around`); `c13PrinterOf` turns the rows
       into the two parameters of the stringifier model `strG`.
    D. `CompiledExpression`: `_compile` statement by statement (`c13CompileT`), `__init__`,
       `__getstate__`, `__setstate__`, `__call__`, `context`.
    E. `to_evaluatable_python_function`: the signature it builds.

  Nothing here knows the current source: operators, operand order, nesting, argument order, the
  pickled state all come from the table arguments.  PV/Properties/C13Table.lean proves that the
  hand-written models of PV/Model/Compile.lean ARE these interpreters on the regenerated tables.
-/
namespace PV

def c13Assoc {α : Type} (k : String) : List (String × α) → Option α
  | [] => none
  | (n, v) :: rest => if n = k then some v else c13Assoc k rest

/-! ## A. `ASTToPymbolic` -/

/-- the body of a module-level helper (`_add`, `_sub`, `_neg`, …): `return <build>` -/
inductive C13Build where
  /-- the `i`-th parameter -/
  | arg (i : Nat)
  /-- an integer literal (`(-1)`) -/
  | int (n : Int)
  /-- a tuple display `(a, b)` -/
  | tuple (xs : List C13Build)
  /-- `p.Cls(a, …)`: positional constructor arguments -/
  | node (cls : String) (args : List C13Build)
  /-- `-a` (Python's unary minus on the mapped operand) -/
  | neg (a : C13Build)
  deriving Repr, Inhabited

/-- a value of an operator map -/
inductive C13MapVal where
  /-- a node class used as the constructor (`p.Quotient`) -/
  | cls (name : String)
  /-- a module-level function `def name(x₁ … xₙ): return body` -/
  | fn (name : String) (arity : Nat) (body : C13Build)
  /-- a string (`comparison_op_map`) -/
  | str (s : String)
  deriving Repr, Inhabited

/-- where the key of an operator-map lookup comes from: `type(expr.f)` / `type(x)` -/
inductive C13KeySrc where
  | field (f : String)
  | loc (x : String)
  deriving Repr, DecidableEq, Inhabited

/-- value expressions of the handlers of `ASTToPymbolic`; `expr` is the AST node being mapped -/
inductive C13FExpr where
  | loc (x : String)                           -- a local variable
  | field (f : String)                         -- `expr.f` (a string / constant payload)
  | recF (f : String)                          -- `self.rec(expr.f)`
  | recLoc (x : String)                        -- `self.rec(x)`, `x` bound by `x, = expr.f`
  | recEach (f : String)                       -- `tuple([self.rec(a) for a in expr.f])`
  | kwDict (f : String)                        -- `{kw.arg: self.rec(kw.value) for kw in expr.f}`
  | noneOrRecF (f : String)                    -- `none_or_rec(expr.f)`: `None` is passed through
  | node (cls : String) (args : List C13FExpr) -- `p.Cls(a, …)`
  | applyLoc (x : String) (args : List C13FExpr) -- `x(a, …)`, `x` bound by an operator-map lookup
  deriving Repr, Inhabited

/-- handler bodies of `ASTToPymbolic` -/
inductive C13FProg where
  | ret (e : C13FExpr)
  | assign (x : String) (e : C13FExpr) (k : C13FProg)
  /-- `try: x = self.<map>[type(<src>)]  except KeyError: raise <exc>(…) from None` -/
  | lookupOp (x map : String) (src : C13KeySrc) (exc : String) (k : C13FProg)
  /-- `x, = expr.f` (exactly one element, else `ValueError`) -/
  | unpack1 (x f : String) (k : C13FProg)
  /-- `if getattr(expr, "f", []): t  else: e` -/
  | ifNonEmpty (f : String) (t e : C13FProg)
  /-- `if isinstance(expr.f, slice): <dead>  else: e` — no `ast` node is a built-in `slice`; the
  text of the dead branch is kept as data -/
  | ifBuiltinSlice (f : String) (dead : String) (e : C13FProg)
  | raise (exc : String)
  deriving Repr, Inhabited

/-- a class of Python's `ast` module (or `NoneType`) as the dispatch sees it -/
structure C13AstClass where
  name : String
  /-- `"map_" + c.__name__` for `c` along `type(expr).__mro__` -/
  mroHandlers : List String
  /-- `_fields` -/
  fields : List String
  deriving Repr, DecidableEq, Inhabited

structure C13FHandler where
  name : String
  definedIn : String
  body : C13FProg
  deriving Repr, Inhabited

structure C13FromTable where
  classes : List C13AstClass
  /-- every `map_*` attribute of the class -/
  handlers : List C13FHandler
  /-- the exception `not_supported` raises -/
  notSupported : String
  /-- the class-level operator dictionaries, by attribute name -/
  maps : List (String × List (String × C13MapVal))
  deriving Repr, Inhabited

/-- values the handlers of `ASTToPymbolic` compute with -/
inductive C13FVal where
  | expr (e : Expr)
  | tup (es : List Expr)
  | str (s : String)
  | dict (ns : List String) (vs : List Expr)
  | mapVal (v : C13MapVal)
  | opv (name : String)                         -- an operator object (`ast.Add()`)
  | nodeV (r : Except AErr Expr)                -- an AST node, as its suspended `self.rec`
  | none

/-- a value used where pymbolic expects an expression -/
def C13FVal.toExpr : C13FVal → Except AErr Expr
  | .expr e => pure e
  | .tup es => pure (.tuple es)
  | .str s => pure (.const (.str s))
  | .none => pure (.const .none)
  | _ => throw .noClaim

def c13NaryOfName : String → Option NaryOp
  | "Sum" => some .sum | "Product" => some .prod | "BitwiseOr" => some .bor
  | "BitwiseXor" => some .bxor | "BitwiseAnd" => some .band | "LogicalOr" => some .lor
  | "LogicalAnd" => some .land | "Min" => some .min | "Max" => some .max | _ => none

def c13BinOfName : String → Option BinOp
  | "Quotient" => some .quot | "FloorDiv" => some .floordiv | "Remainder" => some .rem
  | "Power" => some .pow | "LeftShift" => some .lshift | "RightShift" => some .rshift | _ => none

def c13UnOfName : String → Option UnOp
  | "BitwiseNot" => some .bnot | "LogicalNot" => some .lnot | _ => none

def c13MkNode1 (cls : String) : C13FVal → Except AErr Expr
  | .str s => if cls = "Variable" then pure (.var s) else throw .noClaim
  | .tup es => match c13NaryOfName cls with
    | some o => pure (.nary o es)
    | none => throw .noClaim
  | .expr a => match c13UnOfName cls with
    | some o => pure (.un o a)
    | none => throw .noClaim
  | _ => throw .noClaim

def c13MkNode2 (cls : String) (x y : C13FVal) : Except AErr Expr :=
  if cls = "Subscript" then
    match x with
    | .expr a => do pure (.subscript a (← y.toExpr))
    | _ => throw .noClaim
  else match x, y with
    | .expr a, .expr b => match c13BinOfName cls with
      | some o => pure (.bin o a b)
      | none => throw .noClaim
    | .expr f, .tup as => if cls = "Call" then pure (.call f as) else throw .noClaim
    | .expr a, .str n => if cls = "Lookup" then pure (.lookup a n) else throw .noClaim
    | _, _ => throw .noClaim

def c13MkNode3 (cls : String) : C13FVal → C13FVal → C13FVal → Except AErr Expr
  | .expr c, .expr t, .expr e => if cls = "If" then pure (.ite c t e) else throw .noClaim
  | .expr l, .str s, .expr r =>
    if cls = "Comparison" then
      match CmpOp.ofSym? s with
      | some o => pure (.cmp o l r)
      | none => throw .noClaim
    else throw .noClaim
  | .expr f, .tup as, .dict ns vs =>
    if cls = "CallWithKwargs" then pure (.callKw f as ns vs) else throw .noClaim
  | _, _, _ => throw .noClaim

/-- `p.Cls(a₁, …, aₙ)`: the positional arguments are the dataclass fields in declaration order
(`c13CtorFields`, compared with the regenerated class table by `PV.C13.ctor_fields_current`) -/
def c13MkNode (cls : String) : List C13FVal → Except AErr Expr
  | [a] => c13MkNode1 cls a
  | [a, b] => c13MkNode2 cls a b
  | [a, b, c] => c13MkNode3 cls a b c
  | _ => throw .noClaim

/-- constructor (= dataclass field) order `c13MkNode` assumes -/
def c13CtorFields : List (String × List String) :=
  [("Variable", ["name"]), ("Sum", ["children"]), ("Product", ["children"]),
   ("BitwiseOr", ["children"]), ("BitwiseXor", ["children"]), ("BitwiseAnd", ["children"]),
   ("LogicalOr", ["children"]), ("LogicalAnd", ["children"]), ("Min", ["children"]),
   ("Max", ["children"]), ("Quotient", ["numerator", "denominator"]),
   ("FloorDiv", ["numerator", "denominator"]), ("Remainder", ["numerator", "denominator"]),
   ("Power", ["base", "exponent"]), ("LeftShift", ["shiftee", "shift"]),
   ("RightShift", ["shiftee", "shift"]), ("BitwiseNot", ["child"]), ("LogicalNot", ["child"]),
   ("If", ["condition", "then", "else_"]), ("Comparison", ["left", "operator", "right"]),
   ("Call", ["function", "parameters"]),
   ("CallWithKwargs", ["function", "parameters", "kw_parameters"]),
   ("Lookup", ["aggregate", "name"]), ("Subscript", ["aggregate", "index"])]

mutual
/-- the body of a helper function on the argument values `args` -/
def c13BuildEval (args : List Expr) : C13Build → Except AErr C13FVal
  | .arg i => match args[i]? with
    | some e => pure (.expr e)
    | none => throw .noClaim
  | .int n => pure (.expr (.const (.int n)))
  | .tuple xs => do pure (.tup (← c13BuildEvalEs args xs))
  | .node cls as => do pure (.expr (← c13MkNode cls (← c13BuildEvalL args as)))
  | .neg a => do
      let v ← c13BuildEval args a
      let e ← v.toExpr
      pure (.expr (← astNeg e))
def c13BuildEvalL (args : List Expr) : List C13Build → Except AErr (List C13FVal)
  | [] => pure []
  | x :: xs => do
      let v ← c13BuildEval args x
      let vs ← c13BuildEvalL args xs
      pure (v :: vs)
/-- the elements of a tuple display, as expressions -/
def c13BuildEvalEs (args : List Expr) : List C13Build → Except AErr (List Expr)
  | [] => pure []
  | x :: xs => do
      let v ← c13BuildEval args x
      let e ← v.toExpr
      let es ← c13BuildEvalEs args xs
      pure (e :: es)
end

def c13ToExprs : List C13FVal → Except AErr (List Expr)
  | [] => pure []
  | v :: vs => do
      let e ← v.toExpr
      let es ← c13ToExprs vs
      pure (e :: es)

/-- calling a value of an operator map on mapped operands -/
def c13ApplyMapVal : C13MapVal → List C13FVal → Except AErr C13FVal
  | .cls name, vs => do pure (.expr (← c13MkNode name vs))
  | .fn _ arity body, vs =>
    if vs.length = arity then do
      let es ← c13ToExprs vs
      c13BuildEval es body
    else throw .typeError
  | .str _, _ => throw .typeError

/-- exceptions of the Python-AST mappers, by class name -/
def c13AErrOfExc : String → AErr
  | "NotImplementedError" => .notImplemented
  | "ValueError" => .valueError
  | "TypeError" => .typeError
  | "IndexError" => .indexError
  | "AssertionError" => .assertion
  | _ => .noClaim

/-- an attribute of the AST node being mapped -/
inductive C13FField where
  /-- an `ast` node (or `None`: `isNone`), with its suspended `self.rec` -/
  | node (isNone : Bool) (r : Except AErr Expr)
  | nodes (rs : List (Except AErr Expr))
  | str (s : String)
  | cst (c : Const)
  | op (name : String)
  | ops (names : List String)
  /-- `keywords`: the `arg` of every `ast.keyword` and the suspended `self.rec(kw.value)` -/
  | kws (ns : List String) (rs : List (Except AErr Expr))

def c13SeqF : List (Except AErr Expr) → Except AErr (List Expr)
  | [] => pure []
  | r :: rs => do
      let x ← r
      let xs ← c13SeqF rs
      pure (x :: xs)

/-- continuation of a value (`none`: the value is the handler's result) -/
abbrev C13FCont := Option (C13FVal → Except AErr Expr)

def C13FCont.val (k : C13FCont) (v : C13FVal) : Except AErr Expr :=
  match k with
  | none => v.toExpr
  | some k => k v

/-- finish with the expression-valued computation `m` -/
def C13FCont.run (k : C13FCont) (m : Except AErr Expr) : Except AErr Expr :=
  match k with
  | none => m
  | some k => m >>= fun e => k (.expr e)

mutual
/-- value expressions, operands in Python's evaluation order, then the continuation -/
def c13FEval (ctx : List (String × C13FField)) (loc : List (String × C13FVal)) :
    C13FExpr → C13FCont → Except AErr Expr
  | .loc x, k => match c13Assoc x loc with
    | some v => k.val v
    | none => throw .noClaim
  | .field f, k => match c13Assoc f ctx with
    | some (.str s) => k.val (.str s)
    | some (.cst c) => k.val (.expr (.const c))
    | _ => throw .noClaim
  | .recF f, k => match c13Assoc f ctx with
    | some (.node _ r) => k.run r
    | _ => throw .noClaim
  | .recLoc x, k => match c13Assoc x loc with
    | some (.nodeV r) => k.run r
    | _ => throw .noClaim
  | .recEach f, k => match c13Assoc f ctx with
    | some (.nodes rs) => c13SeqF rs >>= fun es => k.val (.tup es)
    | _ => throw .noClaim
  | .kwDict f, k => match c13Assoc f ctx with
    | some (.kws ns rs) => c13SeqF rs >>= fun es => k.val (.dict ns es)
    | _ => throw .noClaim
  | .noneOrRecF f, k => match c13Assoc f ctx with
    | some (.node true _) => k.val .none
    | some (.node false r) => k.run r
    | _ => throw .noClaim
  | .node cls as, k =>
      c13FEvalL ctx loc as [] fun vs => k.run (c13MkNode cls vs)
  | .applyLoc x as, k => match c13Assoc x loc with
    | some (.mapVal mv) =>
        c13FEvalL ctx loc as [] fun vs => c13ApplyMapVal mv vs >>= fun v => k.val v
    | _ => throw .noClaim
/-- the arguments of a call, left to right; `acc` holds the values so far (reversed) -/
def c13FEvalL (ctx : List (String × C13FField)) (loc : List (String × C13FVal)) :
    List C13FExpr → List C13FVal → (List C13FVal → Except AErr Expr) → Except AErr Expr
  | [], acc, k => k acc.reverse
  | a :: as, acc, k =>
      c13FEval ctx loc a (some fun v => c13FEvalL ctx loc as (v :: acc) k)
end

def C13FromTable.map? (T : C13FromTable) (m : String) : Option (List (String × C13MapVal)) :=
  c13Assoc m T.maps

def c13MapValToVal : C13MapVal → C13FVal
  | .str s => .str s
  | v => .mapVal v

/-- the name of the class of the operator object a key source denotes -/
def c13KeyName (ctx : List (String × C13FField)) (loc : List (String × C13FVal)) :
    C13KeySrc → Option String
  | .field f => match c13Assoc f ctx with
    | some (.op n) => some n
    | _ => none
  | .loc x => match c13Assoc x loc with
    | some (.opv n) => some n
    | _ => none

/-- statements -/
def c13FRun (T : C13FromTable) (ctx : List (String × C13FField)) :
    List (String × C13FVal) → C13FProg → Except AErr Expr
  | loc, .ret e => c13FEval ctx loc e none
  | loc, .assign x e k => c13FEval ctx loc e (some fun v => c13FRun T ctx ((x, v) :: loc) k)
  | loc, .lookupOp x m src exc k =>
    match c13KeyName ctx loc src with
    | none => throw .noClaim
    | some opName => match T.map? m with
      | none => throw .noClaim
      | some entries => match c13Assoc opName entries with
        | none => throw (c13AErrOfExc exc)
        | some v => c13FRun T ctx ((x, c13MapValToVal v) :: loc) k
  | loc, .unpack1 x f k => match c13Assoc f ctx with
    | some (.ops [o]) => c13FRun T ctx ((x, .opv o) :: loc) k
    | some (.ops _) => throw .valueError
    | some (.nodes [r]) => c13FRun T ctx ((x, .nodeV r) :: loc) k
    | some (.nodes _) => throw .valueError
    | _ => throw .noClaim
  | loc, .ifNonEmpty f t e => match c13Assoc f ctx with
    | some (.kws ns _) => if ns.isEmpty then c13FRun T ctx loc e else c13FRun T ctx loc t
    | some (.nodes rs) => if rs.isEmpty then c13FRun T ctx loc e else c13FRun T ctx loc t
    | _ => throw .noClaim
  | loc, .ifBuiltinSlice _ _ e => c13FRun T ctx loc e
  | _, .raise exc => throw (c13AErrOfExc exc)

def C13FromTable.handler? (T : C13FromTable) (h : String) : Option C13FProg :=
  match T.handlers.find? (fun e => e.name == h) with
  | some e => some e.body
  | none => none

/-- `ASTMapper.rec`: the first `map_<class>` along the MRO that the mapper has -/
def c13FFirstHandler (T : C13FromTable) : List String → Option C13FProg
  | [] => none
  | h :: hs => match T.handler? h with
    | some p => some p
    | none => c13FFirstHandler T hs

/-- one node of class `cls` with the attributes `fields` -/
def c13FClass (T : C13FromTable) (cls : String) (fields : List (String × C13FField)) :
    Except AErr Expr :=
  match T.classes.find? (fun c => c.name == cls) with
  | none => throw .noClaim
  | some c => match c13FFirstHandler T c.mroHandlers with
    | none => throw (c13AErrOfExc T.notSupported)
    | some p => c13FRun T fields [] p

/-- class name of the comparison operator object in Python's `ast` -/
def CmpOp.c13AstName : CmpOp → String
  | .eq => "Eq" | .ne => "NotEq" | .lt => "Lt" | .le => "LtE" | .gt => "Gt" | .ge => "GtE"

def PyAst.c13IsNone : PyAst → Bool
  | .absent => true
  | _ => false

def c13SliceFields : List String → List (Except AErr Expr) → List (String × C13FField)
  | n :: ns, r :: rs => (n, .node false r) :: c13SliceFields ns rs
  | _, _ => []

mutual
/-- **The table-driven importer**: the handler the dispatch of the table reaches, run on the node;
every `self.rec(child)` is the same function on the child. -/
def c13FromAstT (T : C13FromTable) : PyAst → Except AErr Expr
  | .const c => c13FClass T "Constant" [("value", .cst c)]
  | .name x => c13FClass T "Name" [("id", .str x)]
  | .binop l op r =>
      c13FClass T "BinOp" [("left", .node l.c13IsNone (c13FromAstT T l)), ("op", .op op.name),
        ("right", .node r.c13IsNone (c13FromAstT T r))]
  | .unop op a =>
      c13FClass T "UnaryOp" [("op", .op op.name), ("operand", .node a.c13IsNone (c13FromAstT T a))]
  | .boolop isOr vs =>
      c13FClass T "BoolOp" [("op", .op (if isOr then "Or" else "And")),
        ("values", .nodes (c13FromAstRunsT T vs))]
  | .ifexp c t e =>
      c13FClass T "IfExp" [("test", .node c.c13IsNone (c13FromAstT T c)),
        ("body", .node t.c13IsNone (c13FromAstT T t)),
        ("orelse", .node e.c13IsNone (c13FromAstT T e))]
  | .compare l ops rs =>
      c13FClass T "Compare" [("left", .node l.c13IsNone (c13FromAstT T l)),
        ("ops", .ops (ops.map CmpOp.c13AstName)), ("comparators", .nodes (c13FromAstRunsT T rs))]
  | .call f as ns vs =>
      c13FClass T "Call" [("func", .node f.c13IsNone (c13FromAstT T f)),
        ("args", .nodes (c13FromAstRunsT T as)), ("keywords", .kws ns (c13FromAstRunsT T vs))]
  | .attribute v a =>
      c13FClass T "Attribute" [("value", .node v.c13IsNone (c13FromAstT T v)), ("attr", .str a)]
  | .subscript v s =>
      c13FClass T "Subscript" [("value", .node v.c13IsNone (c13FromAstT T v)),
        ("slice", .node s.c13IsNone (c13FromAstT T s))]
  | .tuple es => c13FClass T "Tuple" [("elts", .nodes (c13FromAstRunsT T es))]
  | .list es => c13FClass T "List" [("elts", .nodes (c13FromAstRunsT T es))]
  | .slice ps => c13FClass T "Slice" (c13SliceFields ["lower", "upper", "step"] (c13FromAstRunsT T ps))
  | .absent => c13FClass T "NoneType" []
def c13FromAstRunsT (T : C13FromTable) : List PyAst → List (Except AErr Expr)
  | [] => []
  | a :: as => c13FromAstT T a :: c13FromAstRunsT T as
end

/-- the suspended `self.rec(a)` of the hand-written importer on a list of nodes -/
def c13ModelRunsF : List PyAst → List (Except AErr Expr)
  | [] => []
  | a :: as => fromAst a :: c13ModelRunsF as

/-! ## B. `PymbolicToASTMapper` -/

/-- what a comprehension `[self.rec(x) for x in …]` iterates over -/
inductive C13TIter where
  | field (f : String)      -- `expr.f`
  | self                    -- `expr` itself (a Python tuple / list)
  deriving Repr, DecidableEq, Inhabited

/-- the `children` argument of the folding helper -/
inductive C13TChildren where
  | field (f : String)              -- `expr.f` (a tuple of operands)
  | fields (fs : List String)       -- `(expr.f₁, expr.f₂)`
  deriving Repr, DecidableEq, Inhabited

/-- value expressions of the handlers of `PymbolicToASTMapper`; `expr` is the node being mapped.
Arguments of an `ast` constructor are listed IN EVALUATION ORDER under the field names Python binds
them to. -/
inductive C13TExpr where
  | self                                        -- `expr` (a constant)
  | negSelf                                     -- `-expr`
  | none                                        -- `None`
  | emptyList                                   -- `[]`
  | field (f : String)                          -- `expr.f` (a string)
  | op (cls : String)                           -- `ast.Add()` … an operator object
  | recF (f : String)                           -- `self.rec(expr.f)`
  | recEach (it : C13TIter)                     -- `[self.rec(x) for x in it]`
  | kwEach (f : String) (sorted : Bool)
      -- `[ast.keyword(arg=kw, value=self.rec(param)) for kw, param in sorted(expr.f.items())]`
  | mk (cls : String) (names : List String) (args : List C13TExpr)       -- `ast.Cls(…)`
  | mkStar (cls : String) (fields : List String) (arg : C13TExpr)        -- `ast.Cls(*arg)`
  | foldCall (helper : String) (children : C13TChildren) (op : C13TExpr)
      -- `self.<helper>(<children>, <op>)`
  deriving Repr, Inhabited

inductive C13TCond where
  | isInst (types : List String)                -- `isinstance(expr, T)` / `isinstance(expr, (T₁, T₂))`
  | selfLt (n : Int)                            -- `expr < n`
  | and (a b : C13TCond)
  deriving Repr, DecidableEq, Inhabited

inductive C13TProg where
  | ret (e : C13TExpr)
  | raise (exc : String)
  | ite (c : C13TCond) (t e : C13TProg)
  /-- `assert expr.f is not None` -/
  | assertFieldNotNone (f : String) (k : C13TProg)
  /-- statements outside the handler language, kept as text (only where the reader says so) -/
  | unmodelled (src : String)
  /-- `return self.<h>(expr, *args, **kwargs)` (inherited `Mapper` stubs) -/
  | delegate (h : String)
  deriving Repr, Inhabited

/-- role of an argument of the node the folding helper builds -/
inductive C13FoldArg where
  | item        -- the loop variable
  | opParam     -- the operator object passed in
  | acc         -- the result so far
  deriving Repr, DecidableEq, Inhabited

/-- `_map_multi_children_op(self, children, op_type)`:
`rec_children = [self.rec(child) for child in children]; result = rec_children[init];
for child in rec_children[lo:hi:step]: result = ast.<ctor>(…); return result` -/
structure C13FoldRow where
  name : String
  init : Int
  lo : Option Int
  hi : Option Int
  step : Option Int
  ctor : String
  argNames : List String
  argRoles : List C13FoldArg
  deriving Repr, DecidableEq, Inhabited

structure C13THandler where
  name : String
  definedIn : String
  body : C13TProg
  deriving Repr, Inhabited

structure C13ToTable where
  /-- `PymbolicToASTMapper.__mro__` -/
  mro : List String
  /-- every `map_*` attribute of the class (`map_foreign` is the dispatch model's) -/
  handlers : List C13THandler
  folds : List C13FoldRow
  /-- `to_python_ast`: `return <entryMapper>()(expr)` -/
  entryMapper : String
  deriving Repr, Inhabited

inductive C13TVal where
  | ast (a : PyAst)
  | asts (as : List PyAst)
  | str (s : String)
  | cst (c : Const)
  | opB (o : PyBin)
  | opU (o : PyUn)
  | opBool (isOr : Bool)
  | none
  | kws (ns : List String) (vs : List PyAst)
  deriving Inhabited

/-- the operator object `ast.<cls>()` -/
def c13OpVal (cls : String) : Option C13TVal :=
  match PyBin.ofName? cls with
  | some o => some (.opB o)
  | none => match PyUn.ofName? cls with
    | some o => some (.opU o)
    | none => if cls = "Or" then some (.opBool true) else if cls = "And" then some (.opBool false)
      else none

def c13AstsOf : List C13TVal → Option (List PyAst)
  | [] => some []
  | .ast a :: rest => (c13AstsOf rest).map (a :: ·)
  | _ => none

/-- `ast.<cls>(name₁=v₁, …)`.  `NameConstant` is CPython's deprecated alias of `Constant`. -/
def c13MkAst (cls : String) (args : List (String × C13TVal)) : Except AErr PyAst :=
  if cls = "Name" then
    match c13Assoc "id" args with
    | some (.str s) => pure (.name s)
    | _ => throw .noClaim
  else if cls = "Constant" ∨ cls = "NameConstant" then
    match c13Assoc "value" args with
    | some (.cst c) => pure (.const c)
    | _ => throw .noClaim
  else if cls = "BinOp" then
    match c13Assoc "left" args, c13Assoc "op" args, c13Assoc "right" args with
    | some (.ast l), some (.opB o), some (.ast r) => pure (.binop l o r)
    | _, _, _ => throw .noClaim
  else if cls = "UnaryOp" then
    match c13Assoc "op" args, c13Assoc "operand" args with
    | some (.opU o), some (.ast a) => pure (.unop o a)
    | _, _ => throw .noClaim
  else if cls = "BoolOp" then
    match c13Assoc "op" args, c13Assoc "values" args with
    | some (.opBool o), some (.asts vs) => pure (.boolop o vs)
    | _, _ => throw .noClaim
  else if cls = "IfExp" then
    match c13Assoc "test" args, c13Assoc "body" args, c13Assoc "orelse" args with
    | some (.ast c), some (.ast t), some (.ast e) => pure (.ifexp c t e)
    | _, _, _ => throw .noClaim
  else if cls = "Call" then
    match c13Assoc "func" args, c13Assoc "args" args, c13Assoc "keywords" args with
    | some (.ast f), some (.asts as), some (.asts []) => pure (.call f as [] [])
    | some (.ast f), some (.asts as), some (.kws ns vs) => pure (.call f as ns vs)
    | _, _, _ => throw .noClaim
  else if cls = "Attribute" then
    match c13Assoc "value" args, c13Assoc "attr" args with
    | some (.ast v), some (.str a) => pure (.attribute v a)
    | _, _ => throw .noClaim
  else if cls = "Subscript" then
    match c13Assoc "value" args, c13Assoc "slice" args with
    | some (.ast v), some (.ast s) => pure (.subscript v s)
    | _, _ => throw .noClaim
  else if cls = "Tuple" then
    match c13Assoc "elts" args with
    | some (.asts es) => pure (.tuple es)
    | _ => throw .noClaim
  else if cls = "List" then
    match c13Assoc "elts" args with
    | some (.asts es) => pure (.list es)
    | _ => throw .noClaim
  else if cls = "Slice" then
    if args.map (·.1) == ["lower", "upper", "step"].take args.length then
      match c13AstsOf (args.map (·.2)) with
      | some ps => pure (.slice ps)
      | none => throw .noClaim
    else throw .noClaim
  else throw .noClaim

/-! ### the folding helper -/

/-- `rec_children[init]` and `rec_children[lo:hi:step]` for the two slices this interpreter knows:
last element, then the others from the second-last down (`[-1]`, `[-2::-1]`); first element, then
the others in order (`[0]`, `[1:]`) -/
def c13FoldOrder (row : C13FoldRow) (xs : List PyAst) : Except AErr (PyAst × List PyAst) :=
  if row.init = -1 ∧ row.lo = some (-2) ∧ row.hi = none ∧ row.step = some (-1) then
    match xs.getLast? with
    | none => throw .indexError
    | some l => pure (l, xs.dropLast.reverse)
  else if row.init = 0 ∧ row.lo = some 1 ∧ row.hi = none ∧ (row.step = none ∨ row.step = some 1) then
    match xs with
    | [] => throw .indexError
    | x :: rest => pure (x, rest)
  else throw .noClaim

def c13FoldArgVal (op : C13TVal) (item acc : PyAst) : C13FoldArg → C13TVal
  | .item => .ast item
  | .opParam => op
  | .acc => .ast acc

def c13FoldLoop (row : C13FoldRow) (op : C13TVal) : PyAst → List PyAst → Except AErr PyAst
  | acc, [] => pure acc
  | acc, c :: cs => do
      let acc' ← c13MkAst row.ctor (row.argNames.zip (row.argRoles.map (c13FoldArgVal op c acc)))
      c13FoldLoop row op acc' cs

/-- the helper after the children have been mapped -/
def c13FoldT (row : C13FoldRow) (op : C13TVal) (xs : List PyAst) : Except AErr PyAst :=
  match c13FoldOrder row xs with
  | .error e => .error e
  | .ok (i, items) => c13FoldLoop row op i items

/-! ### constants as the handler `map_constant` sees them -/

def Const.c13IsInst (c : Const) : String → Option Bool
  | "bool" => some (match c with | .bool _ => true | _ => false)
  | "int" => some (match c with | .int _ | .bool _ => true | _ => false)
  | "float" => some (match c with | .flt .. => true | _ => false)
  | _ => Option.none

def c13IsInstAny (c : Const) : List String → Option Bool
  | [] => some false
  | t :: ts => match c.c13IsInst t, c13IsInstAny c ts with
    | some a, some b => some (a || b)
    | _, _ => none

/-- `c < 0` (false for `nan` and `-0.0`) -/
def Const.c13LtZero : Const → Option Bool
  | .int n => some (decide (n < 0))
  | .bool _ => some false
  | .flt r n d => some (decide ((d = 0 ∧ r = "-inf") ∨ (d ≠ 0 ∧ n < 0)))
  | _ => Option.none

/-- `-c` of a negative number (the `repr` loses its sign) -/
def Const.c13Neg : Const → Option Const
  | .int n => some (.int (-n))
  | .flt r n d => some (.flt (r.drop 1).toString (-n) d)
  | _ => Option.none

def c13TCondEval (c : Const) : C13TCond → Option Bool
  | .isInst ts => c13IsInstAny c ts
  | .selfLt n => if n = 0 then c.c13LtZero else none
  | .and a b => match c13TCondEval c a with
    | some true => c13TCondEval c b
    | some false => some false
    | none => none

/-- attribute names of the two-operand classes, in the order of the constructor arguments -/
def BinOp.c13Fields : BinOp → String × String
  | .quot | .floordiv | .rem => ("numerator", "denominator")
  | .pow => ("base", "exponent")
  | .lshift | .rshift => ("shiftee", "shift")

/-! ### running a handler (generic in the monad: `Except AErr` for the memo-free reading, `AstM`
for the mapper as coded) -/

section
variable {M : Type → Type} [Monad M] (lift : {α : Type} → Except AErr α → M α)

/-- an attribute of the node being mapped -/
inductive C13TField (M : Type → Type) where
  | node (run : M PyAst)
  | nodes (runs : List (M PyAst))
  | str (s : String)
  | kw (names : List String) (runs : List (M PyAst))
  | none

structure C13TCtx (M : Type → Type) where
  selfConst : Option Const := Option.none
  selfRuns : Option (List (M PyAst)) := Option.none
  fields : List (String × C13TField M) := []

def c13SeqT : List (M PyAst) → M (List PyAst)
  | [] => pure []
  | r :: rs => do
      let x ← r
      let xs ← c13SeqT rs
      pure (x :: xs)

def c13RunNth : List (M PyAst) → Nat → M PyAst
  | [], _ => lift (throw .noClaim)
  | r :: _, 0 => r
  | _ :: rs, i + 1 => c13RunNth rs i

def c13MapIdx (f : Nat → M PyAst) : List Nat → M (List PyAst)
  | [] => pure []
  | i :: is => do
      let x ← f i
      let xs ← c13MapIdx f is
      pure (x :: xs)

abbrev C13TCont (M : Type → Type) := Option (C13TVal → M PyAst)

def C13TCont.val (k : C13TCont M) (v : C13TVal) : M PyAst :=
  match k with
  | Option.none => match v with
    | .ast a => lift (pure a)
    | _ => lift (throw .noClaim)
  | some k => k v

def C13TCont.run (k : C13TCont M) (m : M PyAst) : M PyAst :=
  match k with
  | Option.none => m
  | some k => m >>= fun a => k (.ast a)

def c13TChildrenRuns (ctx : C13TCtx M) : C13TChildren → Option (List (M PyAst))
  | .field f => match c13Assoc f ctx.fields with
    | some (.nodes rs) => some rs
    | _ => Option.none
  | .fields fs => fs.mapM fun f => match c13Assoc f ctx.fields with
    | some (.node r) => some r
    | _ => Option.none

mutual
def c13TEval (T : C13ToTable) (ctx : C13TCtx M) : C13TExpr → C13TCont M → M PyAst
  | .self, k => match ctx.selfConst with
    | some c => C13TCont.val lift k (.cst c)
    | Option.none => lift (throw .noClaim)
  | .negSelf, k => match ctx.selfConst with
    | some c => match c.c13Neg with
      | some c' => C13TCont.val lift k (.cst c')
      | Option.none => lift (throw .noClaim)
    | Option.none => lift (throw .noClaim)
  | .none, k => C13TCont.val lift k .none
  | .emptyList, k => C13TCont.val lift k (.asts [])
  | .field f, k => match c13Assoc f ctx.fields with
    | some (.str s) => C13TCont.val lift k (.str s)
    | _ => lift (throw .noClaim)
  | .op cls, k => match c13OpVal cls with
    | some v => C13TCont.val lift k v
    | Option.none => lift (throw .noClaim)
  | .recF f, k => match c13Assoc f ctx.fields with
    | some (.node r) => C13TCont.run k r
    | _ => lift (throw .noClaim)
  | .recEach it, k =>
    match (match it with
      | .self => ctx.selfRuns
      | .field f => match c13Assoc f ctx.fields with
        | some (.nodes rs) => some rs
        | _ => Option.none) with
    | some rs => c13SeqT rs >>= fun xs => C13TCont.val lift k (.asts xs)
    | Option.none => lift (throw .noClaim)
  | .kwEach f sorted, k => match c13Assoc f ctx.fields with
    | some (.kw ns rs) =>
        let kw := if sorted then sortedKw ns else enumFrom 0 ns
        c13MapIdx (c13RunNth lift rs) (kw.map (·.2)) >>= fun ys =>
          C13TCont.val lift k (.kws (kw.map (·.1)) ys)
    | _ => lift (throw .noClaim)
  | .mk cls names args, k =>
      c13TEvalArgs T ctx names args [] fun vs => C13TCont.run k (lift (c13MkAst cls vs))
  | .mkStar cls fields arg, k =>
      c13TEval T ctx arg (some fun v => match v with
        | .asts xs =>
          if xs.length > fields.length then lift (throw .typeError)
          else C13TCont.run k (lift (c13MkAst cls (fields.zip (xs.map C13TVal.ast))))
        | _ => lift (throw .noClaim))
  | .foldCall helper children op, k =>
    match c13TChildrenRuns ctx children, T.folds.find? (fun r => r.name == helper) with
    | some rs, some row =>
        c13TEval T ctx op (some fun ov =>
          c13SeqT rs >>= fun xs => C13TCont.run k (lift (c13FoldT row ov xs)))
    | _, _ => lift (throw .noClaim)
/-- constructor arguments in evaluation order; `acc`: (field name, value) so far, reversed -/
def c13TEvalArgs (T : C13ToTable) (ctx : C13TCtx M) :
    List String → List C13TExpr → List (String × C13TVal) →
    (List (String × C13TVal) → M PyAst) → M PyAst
  | n :: ns, a :: as, acc, k =>
      c13TEval T ctx a (some fun v => c13TEvalArgs T ctx ns as ((n, v) :: acc) k)
  | _, _, acc, k => k acc.reverse
end

def c13TRun (T : C13ToTable) (ctx : C13TCtx M) (callH : String → M PyAst) : C13TProg → M PyAst
  | .ret e => c13TEval lift T ctx e Option.none
  | .raise exc => lift (throw (c13AErrOfExc exc))
  | .ite c t e => match ctx.selfConst with
    | Option.none => lift (throw .noClaim)
    | some cst => match c13TCondEval cst c with
      | some true => c13TRun T ctx callH t
      | some false => c13TRun T ctx callH e
      | Option.none => lift (throw .noClaim)
  | .assertFieldNotNone f k => match c13Assoc f ctx.fields with
    | some .none => lift (throw .assertion)
    | some _ => c13TRun T ctx callH k
    | Option.none => lift (throw .noClaim)
  | .unmodelled _ => lift (throw .noClaim)
  | .delegate h => callH h

def C13ToTable.handler? (T : C13ToTable) (h : String) : Option C13TProg :=
  match T.handlers.find? (fun e => e.name == h) with
  | some e => some e.body
  | Option.none => Option.none

def c13TRunHandler (T : C13ToTable) (ctx : C13TCtx M) : Nat → String → M PyAst
  | 0, _ => lift (throw .noClaim)
  | fuel + 1, h => match T.handler? h with
    | Option.none => lift (throw .noClaim)
    | some p => c13TRun lift T ctx (c13TRunHandler T ctx fuel) p

/-- `Mapper.__call__` on the node `e` whose attributes are `ctx` -/
def c13TNode (cl : List C04NodeClass) (T : C13ToTable) (e : Expr) (ctx : C13TCtx M) : M PyAst :=
  match c04Dispatch cl (T.handlers.map (·.name)) e with
  | .invalidForeign => lift (throw .foreign)
  | .unsupported => lift (throw .noClaim)
  | .handler n => c13TRunHandler lift T ctx 4 n
  | .foreign n => c13TRunHandler lift T ctx 4 n

mutual
/-- **The table-driven exporter**: the handler the dispatch reaches, run on the node; every
`self.rec(child)` is `wrap child` (the memo protocol of the mapper) around the same function. -/
def c13ToAstT (cl : List C04NodeClass) (T : C13ToTable) (wrap : Expr → M PyAst → M PyAst) :
    Expr → M PyAst
  | .const c => c13TNode lift cl T (.const c) { selfConst := some c }
  | .var x => c13TNode lift cl T (.var x) { fields := [("name", .str x)] }
  | .nary o cs =>
      c13TNode lift cl T (.nary o cs) { fields := [("children", .nodes (c13ToAstRunsT cl T wrap cs))] }
  | .bin o a b =>
      c13TNode lift cl T (.bin o a b) { fields :=
        [(o.c13Fields.1, .node (wrap a (c13ToAstT cl T wrap a))),
         (o.c13Fields.2, .node (wrap b (c13ToAstT cl T wrap b)))] }
  | .un o a =>
      c13TNode lift cl T (.un o a) { fields := [("child", .node (wrap a (c13ToAstT cl T wrap a)))] }
  | .cmp o a b =>
      c13TNode lift cl T (.cmp o a b) { fields :=
        [("left", .node (wrap a (c13ToAstT cl T wrap a))), ("operator", .str o.sym),
         ("right", .node (wrap b (c13ToAstT cl T wrap b)))] }
  | .ite c t e =>
      c13TNode lift cl T (.ite c t e) { fields :=
        [("condition", .node (wrap c (c13ToAstT cl T wrap c))),
         ("then", .node (wrap t (c13ToAstT cl T wrap t))),
         ("else_", .node (wrap e (c13ToAstT cl T wrap e)))] }
  | .call f as =>
      c13TNode lift cl T (.call f as) { fields :=
        [("function", .node (wrap f (c13ToAstT cl T wrap f))),
         ("parameters", .nodes (c13ToAstRunsT cl T wrap as))] }
  | .callKw f as ns vs =>
      c13TNode lift cl T (.callKw f as ns vs) { fields :=
        [("function", .node (wrap f (c13ToAstT cl T wrap f))),
         ("parameters", .nodes (c13ToAstRunsT cl T wrap as)),
         ("kw_parameters", .kw ns (c13ToAstRunsT cl T wrap vs))] }
  | .subscript a i =>
      c13TNode lift cl T (.subscript a i) { fields :=
        [("aggregate", .node (wrap a (c13ToAstT cl T wrap a))),
         ("index", .node (wrap i (c13ToAstT cl T wrap i)))] }
  | .lookup a n =>
      c13TNode lift cl T (.lookup a n) { fields :=
        [("aggregate", .node (wrap a (c13ToAstT cl T wrap a))), ("name", .str n)] }
  | .cse c p sc =>
      c13TNode lift cl T (.cse c p sc) { fields :=
        [("child", .node (wrap c (c13ToAstT cl T wrap c))), ("scope", .str sc)] }
  | .subst c vars vals =>
      c13TNode lift cl T (.subst c vars vals) { fields :=
        [("child", .node (wrap c (c13ToAstT cl T wrap c))),
         ("values", .nodes (c13ToAstRunsT cl T wrap vals))] }
  | .deriv c vars =>
      c13TNode lift cl T (.deriv c vars) { fields :=
        [("child", .node (wrap c (c13ToAstT cl T wrap c)))] }
  | .slice cs =>
      c13TNode lift cl T (.slice cs) { fields := [("children", .nodes (c13ToAstRunsT cl T wrap cs))] }
  | .nan => c13TNode lift cl T .nan { fields := [("data_type", .none)] }
  | .wildcard => c13TNode lift cl T .wildcard {}
  | .dotWild n => c13TNode lift cl T (.dotWild n) { fields := [("name", .str n)] }
  | .starWild n => c13TNode lift cl T (.starWild n) { fields := [("name", .str n)] }
  | .funcSym => c13TNode lift cl T .funcSym {}
  | .tuple cs =>
      c13TNode lift cl T (.tuple cs) { selfRuns := some (c13ToAstRunsT cl T wrap cs) }
  | .list cs =>
      c13TNode lift cl T (.list cs) { selfRuns := some (c13ToAstRunsT cl T wrap cs) }
def c13ToAstRunsT (cl : List C04NodeClass) (T : C13ToTable) (wrap : Expr → M PyAst → M PyAst) :
    List Expr → List (M PyAst)
  | [] => []
  | c :: cs => wrap c (c13ToAstT cl T wrap c) :: c13ToAstRunsT cl T wrap cs
end

end

/-- the suspended `self.rec(c)` of the hand-written exporter as coded (memo table) -/
def c13ModelRunsC : List Expr → List (AstM PyAst)
  | [] => []
  | c :: cs => withAstCache c (toAstNode c) :: c13ModelRunsC cs

/-- … and of the memo-free reading -/
def c13ModelRunsP : List Expr → List (Except AErr PyAst)
  | [] => []
  | c :: cs => toAst c :: c13ModelRunsP cs

/-- the memo-free reading: computations are plain `Except` values, `self.rec` is the bare handler -/
@[reducible] def c13LiftId {α : Type} (x : Except AErr α) : Except AErr α := x
@[reducible] def c13NoMemo (_ : Expr) (k : Except AErr PyAst) : Except AErr PyAst := k

/-- `to_python_ast(expr)`: a fresh instance of the mapper the table names, called on `expr` -/
def c13ToPythonAstT (cl : List C04NodeClass) (T : C13ToTable) (e : Expr) : Except AErr PyAst :=
  if T.entryMapper = "PymbolicToASTMapper" ∧ T.mro.contains "CachedMapper" then
    match withAstCache e (c13ToAstT (M := AstM) AstM.lift cl T withAstCache e) [] with
    | .ok (r, _) => .ok r
    | .error err => .error err
  else .error .noClaim

/-! ## C. `CompileMapper` -/

/-- conditions on the text `result` of a constant and on the enclosing precedence -/
inductive C13TextCond where
  | wrapped                          -- `result.startswith("(") and result.endswith(")")`
  | has (ch : String)                -- `ch in result`
  | encGt (prec : String)            -- `enclosing_prec > PREC_X`
  | not (c : C13TextCond)
  | and (a b : C13TextCond)
  | or (a b : C13TextCond)
  deriving Repr, DecidableEq, Inhabited

/-- one function of the class body of `CompileMapper` -/
inductive C13StrOverride where
  /-- `map_constant`: the numpy-scalar normalisation; `result = <text>(expr)`;
  `if cond: return self.parenthesize(result)  else: return result` (`thenParen` / `elseParen`:
  which branch parenthesises) -/
  | constant (numpyPreamble : Bool) (text : String) (cond : C13TextCond) (thenParen elseParen : Bool)
  /-- `return self.rec(expr.<field>, enclosing_prec)` -/
  | recChild (field : String) (sameEnclosing : Bool)
  /-- `while isinstance(expr, <cls>): expr = expr.<field>`, then
  `return <base>.<meth>(self, expr, *args, **kwargs)` -/
  | peelThenBase (cls field base meth : String)
  /-- `return <base>.<meth>(self, expr, enclosing_prec)` -/
  | callBase (base meth : String)
  /-- a printer for objects outside the tree model (polynomials, numpy arrays): name only -/
  | outside
  deriving Repr, DecidableEq, Inhabited

structure C13CompileMapperTable where
  bases : List String
  overrides : List (String × C13StrOverride)
  deriving Repr, DecidableEq, Inhabited

def c13PrecByName (S : PrintPrec) : String → Option Nat
  | "PREC_CALL" => some S.call | "PREC_POWER" => some S.power | "PREC_UNARY" => some S.unary
  | "PREC_PRODUCT" => some S.product | "PREC_SUM" => some S.sum | "PREC_SHIFT" => some S.shift
  | "PREC_BITWISE_AND" => some S.band | "PREC_BITWISE_XOR" => some S.bxor
  | "PREC_BITWISE_OR" => some S.bor | "PREC_COMPARISON" => some S.comparison
  | "PREC_LOGICAL_AND" => some S.land | "PREC_LOGICAL_OR" => some S.lor | "PREC_IF" => some S.ifp
  | "PREC_NONE" => some S.none | _ => none

/-- `ch in repr(c)` for the sign characters (an int has a `-` iff it is negative; the `repr` of a
float is part of the constant) -/
def Const.c13ReprHas (c : Const) (ch : String) : Option Bool :=
  if ch = "-" then
    match c with
    | .int n => some (decide (n < 0))
    | .bool _ => some false
    | .flt r _ _ => some (r.startsWith "-" || r.contains '-')
    | _ => Option.none
  else if ch = "+" then
    match c with
    | .int _ => some false
    | .bool _ => some false
    | .flt r _ _ => some (r.contains '+')
    | _ => Option.none
  else Option.none

def c13TextCondEval (S : PrintPrec) (c : Const) (enc : Nat) : C13TextCond → Option Bool
  | .wrapped => some false              -- no int / bool / float text starts with a parenthesis
  | .has ch => c.c13ReprHas ch
  | .encGt p => (c13PrecByName S p).map fun n => decide (enc > n)
  | .not a => (c13TextCondEval S c enc a).map (!·)
  | .and a b => match c13TextCondEval S c enc a, c13TextCondEval S c enc b with
    | some x, some y => some (x && y)
    | _, _ => none
  | .or a b => match c13TextCondEval S c enc a, c13TextCondEval S c enc b with
    | some x, some y => some (x || y)
    | _, _ => none

/-- the `map_constant` a row describes (`repr` and `str` give the same text on the modelled
constants) -/
def c13ConstT (S : PrintPrec) (text : String) (cond : C13TextCond) (thenParen elseParen : Bool)
    (c : Const) (enc : Nat) : Except SErr Pieces :=
  if text = "repr" ∨ text = "str" then
    match constPiecesReprBare c enc with
    | .error e => .error e
    | .ok ps => match c13TextCondEval S c enc cond with
      | none => .error .unsupported
      | some b => pure (if (if b then thenParen else elseParen) then parens ps else ps)
  else .error .unsupported

def c13OverrideOk : String × C13StrOverride → Bool
  | ("map_constant", _) | ("map_common_subexpression", _) | ("rec_with_force_parens_around", _) => true
  | ("map_foreign", .callBase "StringifyMapper" "map_foreign") => true
  | (_, .outside) => true
  | _ => false

/-- the two parameters of the stringifier model `strG` a class body amounts to: the constant
printer, and whether common subexpressions are printed as their child (both overrides present) or
as the base class does (both absent); anything else is not expressible (`none`) -/
def c13PrinterOf (T : C13CompileMapperTable) (S : PrintPrec) :
    Option ((Const → Nat → Except SErr Pieces) × Bool) :=
  if T.bases = ["StringifyMapper"] ∧ T.overrides.all c13OverrideOk then
    let cf? : Option (Const → Nat → Except SErr Pieces) :=
      match c13Assoc "map_constant" T.overrides with
      | none => some (constPieces S)
      | some (.constant _ text cond tp ep) => some (c13ConstT S text cond tp ep)
      | some _ => none
    let bare? : Option Bool :=
      match c13Assoc "map_common_subexpression" T.overrides,
            c13Assoc "rec_with_force_parens_around" T.overrides with
      | none, none => some false
      | some (.recChild "child" true),
        some (.peelThenBase "CommonSubexpression" "child" "StringifyMapper"
          "rec_with_force_parens_around") => some true
      | _, _ => none
    match cf?, bare? with
    | some cf, some bare => some (cf, bare)
    | _, _ => none
  else none

/-- `CompileMapper()(expr, prec)` for the class body `T` -/
def c13StrT (T : C13CompileMapperTable) (S : PrintPrec) (e : Expr) (enc : Nat) :
    Except SErr Pieces :=
  match c13PrinterOf T S with
  | none => .error .unsupported
  | some (cf, bare) => strG S cf bare e enc

/-! ## D. `CompiledExpression` -/

inductive C13VarSrc where
  | listed        -- `self._Variables`
  | used          -- the remaining used variables
  deriving Repr, DecidableEq, Inhabited

/-- the statements of `_compile`, in order -/
inductive C13CStep where
  | storeExpr (attr : String)                    -- `self.<attr> = expression`
  | storeVars (attr : String) (makeVariable : Bool)
      -- `self.<attr> = [primi.make_variable(v) for v in variables]`
  | ctxFromContext (copy : Bool)                 -- `ctx = self.context().copy()`
  | ctxTryImport (name : String)
      -- `try: import <name>  except ImportError: pass  else: ctx["<name>"] = <name>`
  | depsOf (mapper : String) (compositeLeaves : Option Bool) (attr : String)
      -- `used = <mapper>(composite_leaves=…)(self.<attr>)`
  | minusAttrSet (attr : String)                 -- `used -= set(self.<attr>)`
  | minusCtxVars                                 -- `used -= {pymbolic.var(key) for key in list(ctx.keys())}`
  | toList                                       -- `used = list(used)`
  | sortByName                                   -- `used.sort(key=lambda v: v.name)`
  | allVars (first second : C13VarSrc)           -- `all_variables = <first> + <second>`
  | body (mapper attr prec : String)             -- `expr_s = <mapper>()(self.<attr>, <prec>)`
  | lambdaText (pieces : List String) (sep : String)
      -- `func_s = "<p₀>{}<p₁>{}<p₂>".format("<sep>".join(str(v) for v in all_variables), expr_s)`
  | evalCode (attr : String)                     -- `self.<attr> = eval(func_s, ctx)`
  deriving Repr, DecidableEq, Inhabited

/-- one element of the tuple `__getstate__` returns -/
inductive C13StateItem where
  | attr (a : String)
  | emptyList
  | none
  deriving Repr, DecidableEq, Inhabited

structure C13CompiledTable where
  /-- `__init__`: `if variables is None: variables = []` -/
  initNoneDefault : Bool
  /-- `__init__` ends in `self._compile(expression, variables)` -/
  initCallsCompile : Bool
  compile : List C13CStep
  getstate : List C13StateItem
  /-- `__setstate__` is `self._compile(*state)` -/
  setstateCompileStar : Bool
  /-- `__call__` is `return self.<attr>(*args)` -/
  callCodeStar : Option String
  /-- keys of the dict literal `context()` returns -/
  contextKeys : List String
  deriving Repr, DecidableEq, Inhabited

structure C13CState where
  exprAttr : Option String := none
  varsAttr : Option String := none
  ctx : Option (List String) := none
  used : Option (List String) := none
  usedIsList : Bool := false
  all : Option (List String) := none
  src : Option String := none
  lam : Bool := false
  codeAttr : Option String := none

/-- one statement of `_compile`; `pr` is the printer the `body` statement calls -/
def c13CStepRun (ini : C09DepInit) (pr : String → Option (Expr → Nat → Except SErr Pieces))
    (S : PrintPrec) (ctxKeys : List String) (e : Expr) (listed : List String) (st : C13CState) :
    C13CStep → Except CompErr C13CState
  | .storeExpr a => pure { st with exprAttr := some a }
  | .storeVars a mk => if mk then pure { st with varsAttr := some a } else throw .noClaim
  | .ctxFromContext _ => pure { st with ctx := some ctxKeys }
  | .ctxTryImport n => match st.ctx with
    | some c => pure { st with ctx := some (c ++ [n]) }
    | none => throw .noClaim
  | .depsOf mapper cl a =>
    if mapper = "DependencyMapper" ∧ st.exprAttr = some a then
      match deps (c09InitFlags ini {} cl) e with
      | .error err => throw (CompErr.ofDep err)
      | .ok us => pure { st with used := some (varNames us), usedIsList := false }
    else throw .noClaim
  | .minusAttrSet a => match st.used with
    | some u => if st.varsAttr = some a ∧ !st.usedIsList
        then pure { st with used := some (u.filter fun v => !listed.contains v) }
        else throw .noClaim
    | none => throw .noClaim
  | .minusCtxVars => match st.used, st.ctx with
    | some u, some c => if !st.usedIsList
        then pure { st with used := some (u.filter fun v => !c.contains v) }
        else throw .noClaim
    | _, _ => throw .noClaim
  | .toList => pure { st with usedIsList := true }
  | .sortByName => match st.used with
    | some u => if st.usedIsList then pure { st with used := some (sortStrings u) } else throw .noClaim
    | none => throw .noClaim
  | .allVars a b => match st.used with
    | some u => if st.usedIsList ∧ st.varsAttr.isSome then
        let pick : C13VarSrc → List String := fun | .listed => listed | .used => u
        pure { st with all := some (pick a ++ pick b) }
      else throw .noClaim
    | none => throw .noClaim
  | .body mapper a prec =>
    match pr mapper, c13PrecByName S prec with
    | some p, some n =>
      if st.exprAttr = some a then
        match p e n with
        | .error err => throw (CompErr.ofStr err)
        | .ok ps => pure { st with src := some (render ps) }
      else throw .noClaim
    | _, _ => throw .noClaim
  | .lambdaText _ _ => if st.all.isSome ∧ st.src.isSome then pure { st with lam := true } else throw .noClaim
  | .evalCode a => if st.lam ∧ st.ctx.isSome then pure { st with codeAttr := some a } else throw .noClaim

def c13CStepsRun (ini : C09DepInit) (pr : String → Option (Expr → Nat → Except SErr Pieces))
    (S : PrintPrec) (ctxKeys : List String) (e : Expr) (listed : List String) :
    C13CState → List C13CStep → Except CompErr C13CState
  | st, [] => pure st
  | st, s :: ss =>
    match c13CStepRun ini pr S ctxKeys e listed st s with
    | .error err => .error err
    | .ok st' => c13CStepsRun ini pr S ctxKeys e listed st' ss

/-- **`CompiledExpression._compile(expression, variables)` as the table says it** -/
def c13CompileT (ini : C09DepInit) (pr : String → Option (Expr → Nat → Except SErr Pieces))
    (T : C13CompiledTable) (S : PrintPrec) (e : Expr) (listed : List String) :
    Except CompErr Compiled :=
  match c13CStepsRun ini pr S T.contextKeys e listed {} T.compile with
  | .error err => .error err
  | .ok st => match st.exprAttr, st.varsAttr, st.all, st.src, st.codeAttr with
    | some _, some _, some args, some src, some _ =>
        pure { expr := e, vars := listed, args := args, src := src }
    | _, _, _, _, _ => throw .noClaim

/-- the text handed to `eval`, from the `lambdaText` row -/
def c13LambdaT (T : C13CompiledTable) (args : List String) (src : String) : Option String :=
  match T.compile.find? (fun s => match s with | .lambdaText .. => true | _ => false) with
  | some (.lambdaText [p0, p1, p2] sep) => some (p0 ++ sep.intercalate args ++ p1 ++ src ++ p2)
  | _ => none

/-- the attributes `_compile` stores the expression / the listed variables in -/
def c13ExprAttr (T : C13CompiledTable) : Option String :=
  T.compile.findSome? fun s => match s with | .storeExpr a => some a | _ => none
def c13VarsAttr (T : C13CompiledTable) : Option String :=
  T.compile.findSome? fun s => match s with | .storeVars a _ => some a | _ => none

/-- `__getstate__`: the tuple of the named attributes, when it is (expression, variables) -/
def c13GetstateT (T : C13CompiledTable) (c : Compiled) : Option (Expr × List String) :=
  match T.getstate, c13ExprAttr T, c13VarsAttr T with
  | [.attr a, .attr b], some ea, some va =>
      if a = ea ∧ b = va then some (c.expr, c.vars) else none
  | [.attr a, .emptyList], some ea, _ => if a = ea then some (c.expr, []) else none
  | _, _, _ => none

/-- `__setstate__(state)` -/
def c13SetstateT (ini : C09DepInit) (pr : String → Option (Expr → Nat → Except SErr Pieces))
    (T : C13CompiledTable) (S : PrintPrec) (st : Expr × List String) : Except CompErr Compiled :=
  if T.setstateCompileStar then c13CompileT ini pr T S st.1 st.2 else throw .noClaim

/-- the printers `_compile` can name -/
def c13Printers (CM : C13CompileMapperTable) (S : PrintPrec) (mapper : String) :
    Option (Expr → Nat → Except SErr Pieces) :=
  if mapper = "CompileMapper" then some (c13StrT CM S) else none

/-! ## E. `to_evaluatable_python_function` -/

structure C13FuncSrcTable where
  /-- `dep_mapper = <depMapper>(composite_leaves=…)` -/
  depMapper : String
  compositeLeaves : Option Bool
  /-- `deps = sorted({dep.name for dep in dep_mapper(expr)})` -/
  namesSortedSet : Bool
  /-- the names become keyword-only parameters without defaults; there are no other parameters -/
  kwonlyOnly : Bool
  /-- `body=[ast.Return(to_python_ast(expr))]` -/
  bodyReturnsToPythonAst : Bool
  /-- the function is named by the second argument -/
  nameFromArg : Bool
  /-- `return unparse(ast.fix_missing_locations(ast_module))` with `unparse = ast.unparse` -/
  unparse : String
  deriving Repr, DecidableEq, Inhabited

inductive FsErr where
  | dep (e : DepErr)
  | ast (e : AErr)
  | noClaim
  deriving Repr, DecidableEq, Inhabited

/-- the `ast.FunctionDef` handed to `ast.unparse`: keyword-only parameter names and the returned
expression -/
structure FuncSig where
  kwonly : List String
  body : PyAst

def dedupSorted : List String → List String
  | [] => []
  | [x] => [x]
  | x :: y :: rest => if x = y then dedupSorted (y :: rest) else x :: dedupSorted (y :: rest)

/-- hand-written model of `to_evaluatable_python_function` up to `ast.unparse` -/
def funcSigModel (e : Expr) : Except FsErr FuncSig :=
  match deps compileDepFlags e with
  | .error err => .error (.dep err)
  | .ok us =>
    match toAstC e with
    | .error err => .error (.ast err)
    | .ok a => .ok { kwonly := dedupSorted (sortStrings (varNames us)), body := a }

/-- the same from the tables -/
def c13FuncSigT (ini : C09DepInit) (cl : List C04NodeClass) (TT : C13ToTable) (T : C13FuncSrcTable)
    (e : Expr) : Except FsErr FuncSig :=
  if (T.depMapper = "CachedDependencyMapper" ∨ T.depMapper = "DependencyMapper") ∧ T.namesSortedSet
      ∧ T.kwonlyOnly ∧ T.bodyReturnsToPythonAst then
    match deps (c09InitFlags ini {} T.compositeLeaves) e with
    | .error err => .error (.dep err)
    | .ok us =>
      match c13ToPythonAstT cl TT e with
      | .error err => .error (.ast err)
      | .ok a => .ok { kwonly := dedupSorted (sortStrings (varNames us)), body := a }
  else .error .noClaim

end PV
