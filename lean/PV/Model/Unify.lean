import PV.Model.Ops
/-
  The one-directional unifier of pymbolic/mapper/unifier.py (C16):
    `unify_map`, `UnificationRecord.unify`, `unify_many`,
    `UnifierBase.unification_record_from_equation / map_constant / map_variable / map_call /
     map_subscript / map_lookup / map_quotient … / map_comparison / map_if / map_list`,
    `UnidirectionalUnifier.treat_mismatch` (= no records) and `map_commut_assoc` for sums and
    products (candidate pairing `match_children`, leftover partitioning
    `match_plain_var_candidates` with `subsets` / `partitions`).

  Records are association lists in dict insertion order: `lmap : name ↦ target subterm`,
  `rmap : target variable name ↦ pattern variable` (the "tool to reject some unifications early":
  it makes the unifier refuse to bind two pattern variables to the same target *variable*).
  The `equations` list of a record carries exactly the items of `lmap` (as a set), so it is not
  modelled separately.

  Fragment (everything else is answered `(noclaim)` by the driver):
    pattern : int / bool constants, variables, Sum, Product, Quotient, FloorDiv, Remainder, Power,
              LeftShift, RightShift, BitwiseNot, LogicalNot, Comparison, If, Call, Subscript (index
              an expression or a tuple), Lookup.
    target  : the same node kinds (any constant), every Sum / Product with at most 8 operands
              (the iteration order of CPython's small-int sets is ascending only below 8; the order
              decides which leftover partition is the *first* successful one).
  The other n-ary classes (Min, Max, bitwise and logical and/or) use `UnifierBase.map_sum`, which
  raises `TypeError` in `pytools.generate_permutations(range(n))` on the current tree; they are not
  named by the property and are outside the fragment (the model returns no record for them).
-/
namespace PV.Unify
open PV

abbrev AMap := List (String × Expr)

def AMap.get : AMap → String → Option Expr
  | [], _ => none
  | (k, v) :: m, x => if k = x then some v else AMap.get m x

def AMap.keys (m : AMap) : List String := m.map (·.1)

/-- loop of `unify_map`: `res` is the growing copy of `m1`, the third argument what is left of
`map2.items()` -/
def unifyMapGo (m1 : AMap) : AMap → AMap → Option AMap
  | res, [] => some res
  | res, (k, v) :: rest =>
    match AMap.get m1 k with
    | some v1 => if v1.pyEq v then unifyMapGo m1 res rest else none     -- `map1[name] != value`
    | none => unifyMapGo m1 (res ++ [(k, v)]) rest

/-- `unify_map(map1, map2)` -/
def unifyMap (m1 m2 : AMap) : Option AMap := unifyMapGo m1 m1 m2

/-- `UnificationRecord` -/
structure URec where
  lmap : AMap
  rmap : AMap
  deriving Inhabited

def URec.empty : URec := ⟨[], []⟩

/-- `UnificationRecord.unify` -/
def URec.unify (a b : URec) : Option URec :=
  match unifyMap a.lmap b.lmap with
  | none => none
  | some l =>
    match unifyMap a.rmap b.rmap with
    | none => none
    | some r => some ⟨l, r⟩

/-- `unify_many(unis1, uni2)` -/
def unifyMany (us : List URec) (n : URec) : List URec := us.filterMap (fun u => u.unify n)

/-- `unification_record_from_equation(Variable(x), rhs)` of a `UnidirectionalUnifier`
(`rhs_mapping_candidates is None`, `force_var_match`) -/
def recFromEq (cands : List String) (x : String) (rhs : Expr) : Option URec :=
  match rhs with
  | .tuple _ => none
  | .list _ => none
  | .var y => if cands.contains x then some ⟨[(x, rhs)], [(y, .var x)]⟩ else none
  | _ => if cands.contains x then some ⟨[(x, rhs)], []⟩ else none

/-- `map_variable` -/
def mapVariable (cands : List String) (x : String) (other : Expr) (urecs : List URec) : List URec :=
  match recFromEq cands x other with
  | some n => unifyMany urecs n
  | none =>
    match other with
    | .var y => if y = x && !cands.contains x then urecs else []
    | _ => []

/-- `child` is a "plain (free) variable" of a sum / product pattern -/
def isPlain (cands : List String) : Expr → Bool
  | .var x => cands.contains x
  | _ => false

def plainNames (cands : List String) : List Expr → List String
  | [] => []
  | .var x :: cs => if cands.contains x then x :: plainNames cands cs else plainNames cands cs
  | _ :: cs => plainNames cands cs

/-- `factory`: `flattened_sum` / `flattened_product` -/
def factory (o : NaryOp) (items : List Expr) : Expr :=
  match o with
  | .sum => flattenedSum items
  | _ => flattenedProduct items

/-- `itertools.combinations(s, size)` (lexicographic in the order of `s`) -/
def combinations : List Nat → Nat → List (List Nat)
  | _, 0 => [[]]
  | [], _ + 1 => []
  | x :: xs, k + 1 => (combinations xs k).map (x :: ·) ++ combinations xs (k + 1)

/-- `subsets(s, max_size)`: all combinations of sizes 1 … max_size, by size -/
def subsetsUpTo (s : List Nat) (maxSize : Nat) : List (List Nat) :=
  (List.range maxSize).flatMap (fun i => combinations s (i + 1))

/-- `partitions(s, k)`; `k = 0` yields nothing (the Python recursion runs `k` into the negative
numbers and dies out when the set is exhausted) -/
def partitions : Nat → List Nat → List (List (List Nat))
  | 0, _ => []
  | 1, s => [[s]]
  | k + 2, s =>
    (subsetsUpTo s (s.length + 1 - (k + 2))).flatMap fun sub =>
      (partitions (k + 1) (s.filter (fun i => !sub.contains i))).map (sub :: ·)

/-- the inner loop of `match_plain_var_candidates` for one partition: bind every plain variable
to the (flattened) sum / product of its share of the leftovers.  `none`: the partition is
inconsistent with `urec`. -/
def bindParts (cands : List String) (o : NaryOp) (ds : List Expr) :
    URec → List (List Nat × String) → Option URec
  | urec, [] => some urec
  | urec, (subset, x) :: rest =>
    match recFromEq cands x (factory o (subset.map (fun i => ds.getD i zero))) with
    | none => none        -- (the real code crashes here; unreachable inside the fragment)
    | some n =>
      match urec.unify n with
      | none => none
      | some u => bindParts cands o ds u rest

/-- `match_plain_var_candidates(urec, other_leftovers)` -/
def matchPlain (cands : List String) (o : NaryOp) (plain : List String) (hasNonvar : Bool)
    (ds : List Expr) (urecs : List URec) (urec : URec) (left : List Nat) : List URec :=
  if plain.isEmpty && left.isEmpty then [urec]
  else
    let results := (partitions plain.length left).filterMap
      (fun part => bindParts cands o ds urec (part.zip plain))
    if hasNonvar then
      -- "urecs was merged in": the FIRST consistent partition is yielded, then `return`
      results.head?.toList
    else
      results.flatMap (fun res => unifyMany urecs res)

/-- `match_children(urec, next_cand_idx, other_leftovers)`; `table` = the rows of
`unification_candidates` from `next_cand_idx` on -/
def matchChildren (cands : List String) (o : NaryOp) (plain : List String) (hasNonvar : Bool)
    (ds : List Expr) (urecs : List URec) :
    List (List (Nat × List URec)) → URec → List Nat → List URec
  | [], urec, left => matchPlain cands o plain hasNonvar ds urecs urec left
  | row :: rest, urec, left =>
    row.flatMap fun (j, pairUrecs) =>
      if left.contains j then
        (pairUrecs.filterMap (fun p => p.unify urec)).flatMap fun cu =>      -- unify_many(pair_urecs, urec)
          matchChildren cands o plain hasNonvar ds urecs rest cu (left.filter (· != j))
      else []

/-- `if isinstance(index, tuple) and len(index) == 1: index, = index` -/
def unpackIndex : Expr → Expr
  | .tuple [i] => i
  | i => i

mutual
/-- `UnidirectionalUnifier.rec(expr, other, urecs)`, by recursion on the pattern -/
def unifyE (cands : List String) : Expr → Expr → List URec → List URec
  | .const c, other, urecs => if (Expr.const c).pyEq other then urecs else []     -- map_constant
  | .var x, other, urecs => mapVariable cands x other urecs
  | .nary o cs, other, urecs =>
    match other with
    | .nary o' ds =>
      if o = o' && (o = .sum || o = .prod) then
        -- map_commut_assoc
        let table := candTable cands cs ds urecs
        matchChildren cands o (plainNames cands cs) (!table.isEmpty) ds urecs table URec.empty
          (List.range ds.length)
      else []
    | _ => []
  | .bin o a b, other, urecs =>
    match other with
    | .bin o' a' b' => if o = o' then unifyE cands a a' (unifyE cands b b' urecs) else []
    | _ => []
  | .un o a, other, urecs =>
    match other with
    | .un o' a' => if o = o' then unifyE cands a a' urecs else []
    | _ => []
  | .cmp o a b, other, urecs =>
    match other with
    | .cmp o' a' b' => if o = o' then unifyE cands a a' (unifyE cands b b' urecs) else []
    | _ => []
  | .ite c t e, other, urecs =>
    match other with
    | .ite c' t' e' => unifyE cands c c' (unifyE cands t t' (unifyE cands e e' urecs))
    | _ => []
  | .call f as, other, urecs =>
    match other with
    | .call f' as' => unifyE cands f f' (unifyL cands as as' urecs)
    | _ => []
  | .subscript a (.tuple [i1]), other, urecs =>       -- a length-1 index tuple is unpacked
    match other with
    | .subscript a' i' => unifyE cands a a' (unifyE cands i1 (unpackIndex i') urecs)
    | _ => []
  | .subscript a i, other, urecs =>
    match other with
    | .subscript a' i' => unifyE cands a a' (unifyE cands i (unpackIndex i') urecs)
    | _ => []
  | .lookup a n, other, urecs =>
    match other with
    | .lookup a' n' => if n = n' then unifyE cands a a' urecs else []
    | _ => []
  | .tuple cs, other, urecs =>                          -- map_tuple = map_list
    match other with
    | .tuple ds => unifyL cands cs ds urecs
    | _ => []
  | _, _, _ => []
/-- the loop of `map_list` (mismatching lengths give no record either way) -/
def unifyL (cands : List String) : List Expr → List Expr → List URec → List URec
  | [], [], urecs => urecs
  | c :: cs, d :: ds, urecs =>
    let r := unifyE cands c d urecs
    if r.isEmpty then [] else unifyL cands cs ds r
  | _, _, _ => []
/-- `unification_candidates`: one row per non-plain child of the pattern, listing the target
operands (index, records) it unifies with under `urecs` -/
def candTable (cands : List String) : List Expr → List Expr → List URec → List (List (Nat × List URec))
  | [], _, _ => []
  | c :: cs, ds, urecs =>
    if isPlain cands c then candTable cands cs ds urecs
    else
      ((List.range ds.length).filterMap fun j =>
        let r := unifyE cands c (ds.getD j zero) urecs
        if r.isEmpty then none else some (j, r)) :: candTable cands cs ds urecs
end

/-- `UnidirectionalUnifier(cands)(pattern, target)` -/
def unify (cands : List String) (pattern target : Expr) : List URec :=
  unifyE cands pattern target [URec.empty]

/-! ### instantiation -/

mutual
/-- replace the variables bound by `m` (one simultaneous pass, like `substitute`) -/
def inst (m : AMap) : Expr → Expr
  | .var x => match AMap.get m x with
    | some v => v
    | none => .var x
  | .const c => .const c
  | .nary o cs => .nary o (instL m cs)
  | .bin o a b => .bin o (inst m a) (inst m b)
  | .un o a => .un o (inst m a)
  | .cmp o a b => .cmp o (inst m a) (inst m b)
  | .ite c t e => .ite (inst m c) (inst m t) (inst m e)
  | .call f as => .call (inst m f) (instL m as)
  | .callKw f as ns vs => .callKw (inst m f) (instL m as) ns (instL m vs)
  | .subscript a i => .subscript (inst m a) (inst m i)
  | .lookup a n => .lookup (inst m a) n
  | .cse c p s => .cse (inst m c) p s
  | .subst c vs xs => .subst (inst m c) vs (instL m xs)
  | .deriv c vs => .deriv (inst m c) vs
  | .slice cs => .slice (instL m cs)
  | .tuple cs => .tuple (instL m cs)
  | .list cs => .list (instL m cs)
  | .nan => .nan
  | .wildcard => .wildcard
  | .dotWild n => .dotWild n
  | .starWild n => .starWild n
  | .funcSym => .funcSym
def instL (m : AMap) : List Expr → List Expr
  | [] => []
  | c :: cs => inst m c :: instL m cs
end

mutual
/-- names of the variables occurring in a tree -/
def varsOf : Expr → List String
  | .var x => [x]
  | .nary _ cs => varsOfL cs
  | .bin _ a b => varsOf a ++ varsOf b
  | .un _ a => varsOf a
  | .cmp _ a b => varsOf a ++ varsOf b
  | .ite c t e => varsOf c ++ varsOf t ++ varsOf e
  | .call f as => varsOf f ++ varsOfL as
  | .callKw f as _ vs => varsOf f ++ varsOfL as ++ varsOfL vs
  | .subscript a i => varsOf a ++ varsOf i
  | .lookup a _ => varsOf a
  | .cse c _ _ => varsOf c
  | .subst c _ xs => varsOf c ++ varsOfL xs
  | .deriv c _ => varsOf c
  | .slice cs => varsOfL cs
  | .tuple cs => varsOfL cs
  | .list cs => varsOfL cs
  | _ => []
def varsOfL : List Expr → List String
  | [] => []
  | c :: cs => varsOf c ++ varsOfL cs
end

/-! ### fragment -/

def constOkPattern : Const → Bool
  | .int _ => true
  | .bool _ => true
  | _ => false

mutual
/-- patterns the model speaks about -/
def patOk : Expr → Bool
  | .const c => constOkPattern c
  | .var _ => true
  | .nary o cs => (o == .sum || o == .prod) && patOkL cs
  | .bin _ a b => patOk a && patOk b
  | .un _ a => patOk a
  | .cmp _ a b => patOk a && patOk b
  | .ite c t e => patOk c && patOk t && patOk e
  | .call f as => patOk f && patOkL as
  | .subscript a (.tuple is) => patOk a && patOkL is
  | .subscript a i => patOk a && patOk i
  | .lookup a _ => patOk a
  | _ => false
def patOkL : List Expr → Bool
  | [] => true
  | c :: cs => patOk c && patOkL cs
end

mutual
/-- targets the model speaks about -/
def tgtOk : Expr → Bool
  | .const (.flt ..) => false
  | .const _ => true
  | .var _ => true
  | .nary o cs => (o == .sum || o == .prod) && cs.length ≤ 8 && tgtOkL cs
  | .bin _ a b => tgtOk a && tgtOk b
  | .un _ a => tgtOk a
  | .cmp _ a b => tgtOk a && tgtOk b
  | .ite c t e => tgtOk c && tgtOk t && tgtOk e
  | .call f as => tgtOk f && tgtOkL as
  | .subscript a (.tuple is) => tgtOk a && tgtOkL is
  | .subscript a i => tgtOk a && tgtOk i
  | .lookup a _ => tgtOk a
  | _ => false
def tgtOkL : List Expr → Bool
  | [] => true
  | c :: cs => tgtOk c && tgtOkL cs
end

end PV.Unify

/-! ### guards of the partial soundness theorem (C16) — the shapes on which the code deviates
from the instantiation law are excluded by these decidable conditions -/
namespace PV.Unify
open PV

def isTuple1 : Expr → Bool
  | .tuple [_] => true
  | _ => false

/-- the operands of a target sum / product: at least one, none zero-valued (`is_zero`), for a
product none equal to one — exactly when `flattened_sum` / `flattened_product` drop nothing -/
def noUnitOperands (o : NaryOp) (cs : List Expr) : Bool :=
  !cs.isEmpty && cs.all (fun c => !c.isZero && (o != .prod || !c.isOne))

mutual
/-- target guard: every sum / product has `noUnitOperands`, no subscript has a 1-tuple index -/
def tgtGuard : Expr → Bool
  | .nary o cs => (if o = .sum ∨ o = .prod then noUnitOperands o cs else true) && tgtGuardL cs
  | .bin _ a b => tgtGuard a && tgtGuard b
  | .un _ a => tgtGuard a
  | .cmp _ a b => tgtGuard a && tgtGuard b
  | .ite c t e => tgtGuard c && tgtGuard t && tgtGuard e
  | .call f as => tgtGuard f && tgtGuardL as
  | .subscript a i => !isTuple1 i && tgtGuard a && tgtGuard i
  | .lookup a _ => tgtGuard a
  | .tuple cs => tgtGuardL cs
  | _ => true
def tgtGuardL : List Expr → Bool
  | [] => true
  | c :: cs => tgtGuard c && tgtGuardL cs
end

mutual
/-- pattern guard: no empty sum / product, no 1-tuple subscript index -/
def patGuard : Expr → Bool
  | .nary _ cs => !cs.isEmpty && patGuardL cs
  | .bin _ a b => patGuard a && patGuard b
  | .un _ a => patGuard a
  | .cmp _ a b => patGuard a && patGuard b
  | .ite c t e => patGuard c && patGuard t && patGuard e
  | .call f as => patGuard f && patGuardL as
  | .subscript a i => !isTuple1 i && patGuard a && patGuard i
  | .lookup a _ => patGuard a
  | .tuple cs => patGuardL cs
  | _ => true
def patGuardL : List Expr → Bool
  | [] => true
  | c :: cs => patGuard c && patGuardL cs
end

mutual
/-- (operator, number of operands) of every n-ary node of a tree -/
def arities : Expr → List (NaryOp × Nat)
  | .nary o cs => (o, cs.length) :: aritiesL cs
  | .bin _ a b => arities a ++ arities b
  | .un _ a => arities a
  | .cmp _ a b => arities a ++ arities b
  | .ite c t e => arities c ++ arities t ++ arities e
  | .call f as => arities f ++ aritiesL as
  | .subscript a i => arities a ++ arities i
  | .lookup a _ => arities a
  | .tuple cs => aritiesL cs
  | _ => []
def aritiesL : List Expr → List (NaryOp × Nat)
  | [] => []
  | c :: cs => arities c ++ aritiesL cs
end

mutual
/-- arity guard: no sum / product of the pattern with exactly ONE free-variable operand meets a
target sum / product with one operand fewer (there the code binds the variable to 0 resp. 1) -/
def arityGuard (cands : List String) (ar : List (NaryOp × Nat)) : Expr → Bool
  | .nary o cs =>
      !((plainNames cands cs).length == 1 && ar.contains (o, cs.length - 1)) && arityGuardL cands ar cs
  | .bin _ a b => arityGuard cands ar a && arityGuard cands ar b
  | .un _ a => arityGuard cands ar a
  | .cmp _ a b => arityGuard cands ar a && arityGuard cands ar b
  | .ite c t e => arityGuard cands ar c && arityGuard cands ar t && arityGuard cands ar e
  | .call f as => arityGuard cands ar f && arityGuardL cands ar as
  | .subscript a i => arityGuard cands ar a && arityGuard cands ar i
  | .lookup a _ => arityGuard cands ar a
  | .tuple cs => arityGuardL cands ar cs
  | _ => true
def arityGuardL (cands : List String) (ar : List (NaryOp × Nat)) : List Expr → Bool
  | [] => true
  | c :: cs => arityGuard cands ar c && arityGuardL cands ar cs
end

/-- all guards of `unify_sound_partial` -/
def guards (cands : List String) (pattern target : Expr) : Bool :=
  patGuard pattern && tgtGuard target && arityGuard cands (arities target) pattern

end PV.Unify

/-! ### AC normal form (decision procedure for "equal up to reordering and regrouping of sums and
products"; sound w.r.t. the inductive relation `ACEq`, see `PV.C16.acEquiv_sound`) -/
namespace PV.Unify
open PV

mutual
/-- a canonical text of a tree, used only as the sort key of operands -/
def keyOf : Expr → String
  | .const (.int n) => "i" ++ toString n
  | .const (.bool b) => if b then "i1" else "i0"
  | .const (.flt r _ _) => "f" ++ r
  | .const (.str s) => "s\"" ++ s ++ "\""
  | .const .none => "nil"
  | .var x => "v:" ++ x
  | .nary o cs => "(" ++ o.name ++ keyOfL cs ++ ")"
  | .bin o a b => "(" ++ o.name ++ " " ++ keyOf a ++ " " ++ keyOf b ++ ")"
  | .un o a => "(" ++ o.name ++ " " ++ keyOf a ++ ")"
  | .cmp o a b => "(cmp" ++ o.sym ++ " " ++ keyOf a ++ " " ++ keyOf b ++ ")"
  | .ite c t e => "(if " ++ keyOf c ++ " " ++ keyOf t ++ " " ++ keyOf e ++ ")"
  | .call f as => "(call " ++ keyOf f ++ keyOfL as ++ ")"
  | .callKw f as ns vs => "(callkw " ++ keyOf f ++ keyOfL as ++ " " ++ toString ns ++ keyOfL vs ++ ")"
  | .subscript a i => "(sub " ++ keyOf a ++ " " ++ keyOf i ++ ")"
  | .lookup a n => "(look " ++ keyOf a ++ " " ++ n ++ ")"
  | .cse c p s => "(cse " ++ keyOf c ++ " " ++ toString p ++ " " ++ s ++ ")"
  | .subst c vs xs => "(subst " ++ keyOf c ++ " " ++ toString vs ++ keyOfL xs ++ ")"
  | .deriv c vs => "(deriv " ++ keyOf c ++ " " ++ toString vs ++ ")"
  | .slice cs => "(slice" ++ keyOfL cs ++ ")"
  | .nan => "nan"
  | .wildcard => "wild"
  | .dotWild n => "dot:" ++ n
  | .starWild n => "star:" ++ n
  | .funcSym => "fsym"
  | .tuple cs => "(tuple" ++ keyOfL cs ++ ")"
  | .list cs => "(list" ++ keyOfL cs ++ ")"
def keyOfL : List Expr → String
  | [] => ""
  | c :: cs => " " ++ keyOf c ++ keyOfL cs
end

/-- merge the operands of nested applications of `o` (one level: the operands are normal forms) -/
def flattenOps (o : NaryOp) : List Expr → List Expr
  | [] => []
  | .nary o' ys :: rest =>
    if o' = o then ys ++ flattenOps o rest else .nary o' ys :: flattenOps o rest
  | c :: rest => c :: flattenOps o rest

/-- insertion into a list sorted by `keyOf` -/
def insertOp (x : Expr) : List Expr → List Expr
  | [] => [x]
  | y :: ys => if keyOf x ≤ keyOf y then x :: y :: ys else y :: insertOp x ys

/-- insertion sort by `keyOf` (structural, so that the kernel can evaluate it) -/
def sortOps : List Expr → List Expr
  | [] => []
  | c :: cs => insertOp c (sortOps cs)

/-- a one-operand sum / product is its operand -/
def collapse1 (o : NaryOp) : List Expr → Expr
  | [x] => x
  | xs => .nary o xs

mutual
/-- AC normal form: sums in sums and products in products merged, operands sorted, one-operand
sums / products collapsed, `True` / `False` written `1` / `0` (Python equality) -/
def acNorm : Expr → Expr
  | .const (.bool b) => .const (.int (if b then 1 else 0))
  | .nary o cs =>
    if o = .sum ∨ o = .prod then collapse1 o (sortOps (flattenOps o (acNormL cs)))
    else .nary o (acNormL cs)
  | .bin o a b => .bin o (acNorm a) (acNorm b)
  | .un o a => .un o (acNorm a)
  | .cmp o a b => .cmp o (acNorm a) (acNorm b)
  | .ite c t e => .ite (acNorm c) (acNorm t) (acNorm e)
  | .call f as => .call (acNorm f) (acNormL as)
  | .subscript a i => .subscript (acNorm a) (acNorm i)
  | .lookup a n => .lookup (acNorm a) n
  | .tuple cs => .tuple (acNormL cs)
  | e => e
def acNormL : List Expr → List Expr
  | [] => []
  | c :: cs => acNorm c :: acNormL cs
end

/-- decision procedure: Python equality of the normal forms -/
def acEquiv (a b : Expr) : Bool := (acNorm a).pyEq (acNorm b)

end PV.Unify
