import PV.Model.TravTable
/-
  C04.  Two parts of the stock traversals the expression model (`Expr`) has no constructor for:

  * nodes of USER classes (a class hierarchy hanging off one of the library's classes): which
    body a mapper with a given handler table runs for a node, from the MRO of its class alone
    (`c04ResolveMro`), and when that outcome REPORTS the node (raises) instead of answering;
  * numpy arrays of any rank under a `WalkMapper` handler row: what one recursion site hands to
    `self.rec` (`aItems`: the ENTRIES by index for `numpy.ndindex` / `.flat`; the items of Python's
    iteration protocol for `for child in expr` — entries for rank 1, sub-array VIEWS for rank
    >= 2, `TypeError` for rank 0) and the event trace of the walk (`aWalkObj`).
-/
namespace PV

/-! ### user node classes -/

/-- the handler names library classes hand down: every name in the TAIL of some class's MRO
(`map_algebraic_leaf`, `map_leaf`, `map_quotient_base`, ...: the names of the base classes) -/
def c04InheritedNames (classes : List C04NodeClass) : List String :=
  (classes.flatMap (fun c => c.mro.tail.filterMap id)).eraseDups

/-- a mapper with the handlers of `tbl` REPORTS a node dispatched under the name `n`: it has no
such attribute (dispatch moves on to the next ancestor, finally to the unsupported hook), or the
function behind it is `raise NotImplementedError` (delegating stubs followed) -/
def c04Reports (tbl : List C04Handler) (n : String) : Bool :=
  match c04FindHandler tbl n with
  | none => true
  | some _ => c04BodyOf tbl 4 n == some .raises

/-- the body a mapper with the handlers of `tbl` runs for a node whose class has the MRO `mro`
(`Mapper.__call__` = `dispatchExpr`); user classes included -/
def c04ResolveMro (tbl : List C04Handler) (mro : List (Option String)) : Except DepErr C04Body :=
  match dispatchExpr (tbl.map (·.name)) mro with
  | .handler n => match c04BodyOf tbl 4 n with
    | some b => .ok b
    | none => .error .unsupported
  | _ => .error .unsupported

/-- the outcome is an error: the unsupported-expression error or `NotImplementedError` -/
def c04Reported : Except DepErr C04Body → Bool
  | .error _ => true
  | .ok .raises => true
  | .ok _ => false

/-! ### numpy arrays under a walk handler -/

def shapeSize : List Nat → Nat
  | [] => 1
  | n :: rest => n * shapeSize rest

/-- an object the walk over an array meets: the entry at a flat (row-major) index — an object of
the tree — or an array: the array itself (`offset 0`, its own shape) or a VIEW of some of its
entries (`a[i]` of a rank >= 2 array: a new object that is no node of the tree) -/
inductive AObj where
  | entry (i : Nat)
  | array (shape : List Nat) (offset : Nat)
  deriving Repr, DecidableEq, Inhabited

structure AEvent where
  post : Bool
  obj : AObj
  args : Bool
  deriving Repr, DecidableEq, Inhabited

/-- what one recursion site over the container itself hands to `self.rec`, in order.
`ndindex`: `for i in numpy.ndindex(expr.shape): rec(expr[i])` — every entry, by index.
`each`: `for child in expr` — numpy's iteration protocol: the entries of a 1-d array, the
`shape[0]` sub-arrays `expr[i]` of an n-d array, `TypeError` (here `none`) for a 0-d array. -/
def aItems (iter : C04Iter) (shape : List Nat) (off : Nat) : Option (List AObj) :=
  match iter, shape with
  | .ndindex, _ => some ((List.range (shapeSize shape)).map (fun i => .entry (off + i)))
  | .each, [] => none
  | .each, [n] => some ((List.range n).map (fun i => .entry (off + i)))
  | .each, n :: rest => some ((List.range n).map (fun i => .array rest (off + i * shapeSize rest)))
  | _, _ => none

/-- the entries are leaves here: `visit`, `post_visit` -/
def aLeaf (args : Bool) (i : Nat) : List AEvent := [⟨false, .entry i, args⟩, ⟨true, .entry i, args⟩]

/-- the recursion sites of the array handler, in order -/
def aSeqSites (rec : Bool → AObj → Except DepErr (List AEvent)) (args : Bool) (shape : List Nat)
    (off : Nat) : List C04Rec → Except DepErr (List AEvent)
  | [] => pure []
  | r :: rs =>
    if r.field != "" then .error .unsupported
    else match aItems r.iter shape off with
      | none => .error .foreign
      | some items => do
          let x ← c04SeqL (rec (args && r.fwd)) items
          let y ← aSeqSites rec args shape off rs
          pure (x ++ y)

/-- The walk of an object when arrays are handled by the row `body` (every array the walk meets —
views included — is dispatched to the same handler): `visit`; unless it is a guard and `visit`
answered `False` (`skipArrays`) the recursion sites; `post_visit`. -/
def aWalkObj (body : C04Body) (skipArrays : Bool) (args : Bool) : Nat → AObj →
    Except DepErr (List AEvent)
  | _, .entry i => pure (aLeaf args i)
  | 0, .array _ _ => .error .unsupported
  | fuel + 1, .array shape off =>
    match body with
    | .walk visit vf recs post pf =>
      let v : List AEvent := match visit with
        | .absent => []
        | _ => [⟨false, .array shape off, args && vf⟩]
      let p : List AEvent := if post then [⟨true, .array shape off, args && pf⟩] else []
      if visit == .guard && skipArrays then pure v
      else do
        let inner ← aSeqSites (fun a o => aWalkObj body skipArrays a fuel o) args shape off recs
        pure (v ++ inner ++ p)
    | _ => .error .unsupported

/-- **The property's trace for an array**: `visit` on the array, every entry once in index order,
`post_visit` on the array — with the extra arguments. -/
def aSpec (args : Bool) (shape : List Nat) : List AEvent :=
  [⟨false, .array shape 0, args⟩] ++ (List.range (shapeSize shape)).flatMap (aLeaf args)
    ++ [⟨true, .array shape 0, args⟩]

/-- the walk of a whole array by the `map_numpy_array` row of a handler table -/
def aWalkTable (tbl : List C04Handler) (skipArrays args : Bool) (shape : List Nat) :
    Except DepErr (List AEvent) :=
  match c04BodyOf tbl 4 "map_numpy_array" with
  | some b => aWalkObj b skipArrays args (shape.length + 2) (.array shape 0)
  | none => .error .unsupported

end PV
