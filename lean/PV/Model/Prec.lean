/-
  Precedence tables of the parser (`pymbolic/parser.py: _PREC_*`) and of the stringifier
  (`pymbolic/mapper/stringifier.py: PREC_*`).  The current values are regenerated from /repo on
  every run into `PV/Generated/Prec.lean` (extract/prec.py).
-/
namespace PV

structure ParserPrec where
  comma : Nat
  slice : Nat
  ifp : Nat
  lor : Nat
  land : Nat
  bor : Nat
  bxor : Nat
  band : Nat
  comparison : Nat
  shift : Nat
  plus : Nat
  times : Nat
  power : Nat
  unary : Nat
  call : Nat
  deriving Repr, DecidableEq, Inhabited

structure PrintPrec where
  call : Nat
  power : Nat
  unary : Nat
  product : Nat
  sum : Nat
  shift : Nat
  band : Nat
  bxor : Nat
  bor : Nat
  comparison : Nat
  land : Nat
  lor : Nat
  ifp : Nat
  none : Nat
  deriving Repr, DecidableEq, Inhabited

end PV
