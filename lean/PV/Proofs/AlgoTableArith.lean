import PV.Proofs.AlgoTable
import PV.Generated.Algo
/-
  C19 (T-gen): `integer_power`, `extended_euclidean`, `gcd`, `lcm`, `find_factors` — the
  hand-written loop functions of PV/Model/Algo.lean are what the table interpreter computes on the
  bodies regenerated from the current source.

  Every proof has the same three layers: (1) the regenerated function equals an expected literal
  (`…_body_current`, by `rfl`: any change of the source body breaks it); (2) one run of the loop
  body on a symbolic store (`…_body`), by rewriting with `c19_run`; (3) induction on the loop's
  termination measure (`…_loop`), unrolling one iteration with `c19While_succ_*`.
-/
namespace PV.Algo
open PV.Generated

/-! ## `integer_power` -/

def c19IpPre : List C19S := [
  .assert (.isinst (.var "n") ["int"]),
  .ite (.cmp .lt (.var "n") (.int 0)) [.raise "RuntimeError"] [],
  .assign (.pat (.name "aux")) (.var "one")]

def c19IpCond : C19E := .cmp .gt (.var "n") (.int 0)
def c19IpBody : List C19S := [
  .ite (.bin .bitand (.var "n") (.int 1)) [
    .aug "aux" .mul (.var "x"),
    .ite (.cmp .eq (.var "n") (.int 1)) [
      .ret (.var "aux")] []] [],
  .assign (.pat (.name "x")) (.bin .mul (.var "x") (.var "x")),
  .aug "n" .floordiv (.int 2)]

/-- the body of `integer_power` in the current source -/
theorem c19_integer_power_body_current :
    c19Fn_algorithm_integer_power = ⟨"algorithm.integer_power", .func, ["x", "n", "one"], [.int 1],
      c19IpPre ++ [.while c19IpCond c19IpBody, .ret (.var "aux")]⟩ := rfl

theorem c19Scalar_bitand_one {α : Type} (ops : C19Ops α) (m : Nat) :
    c19Scalar ops .bitand (.int m) (.int 1) = .ok (.int (if m % 2 = 1 then 1 else 0)) := by
  have : (Int.toNat 1) = 1 := rfl
  simp [c19Scalar_bitand, this, Nat.and_one_is_mod]
  split <;> omega

theorem c19_fdiv_two (m : Nat) : Int.fdiv (m : Int) 2 = ((m / 2 : Nat) : Int) := by
  rw [Int.fdiv_eq_ediv_of_nonneg _ (by omega)]; omega

section
variable {α β : Type} (cx : C19Cx α) (emb : β → C19V α) (mul : β → β → β)
  (hmul : ∀ a b, c19BinOp cx .mul (emb a) (emb b) = .ok (emb (mul a b)))
include hmul

theorem c19_ip_body (o : C19V α) (a x : β) (m : Nat) :
    c19ExecL cx c19IpBody [("x", emb x), ("n", .int m), ("one", o), ("aux", emb a)]
      = if m % 2 = 1 then
          if m = 1 then .ret (emb (mul a x))
          else .next [("x", emb (mul x x)), ("n", .int (m / 2 : Nat)), ("one", o),
            ("aux", emb (mul a x))]
        else .next [("x", emb (mul x x)), ("n", .int (m / 2 : Nat)), ("one", o), ("aux", emb a)] := by
  unfold c19IpBody
  by_cases h1 : m % 2 = 1
  · by_cases h2 : m = 1
    · subst h2
      c19_run [hmul, c19Scalar_bitand_one]
      simp
    · have h3 : ((m : Int) == 1) = false := by simp; omega
      c19_run [hmul, c19Scalar_bitand_one, h1, h3, c19_fdiv_two]
      simp [h2]
  · have h3 : m % 2 = 0 := by omega
    c19_run [hmul, c19Scalar_bitand_one, h1, h3, c19_fdiv_two]

/-- the `while` loop of `integer_power` followed by `return aux` IS `integerPowerLoop` -/
theorem c19_ip_loop (o : C19V α) : ∀ (m : Nat) (a x : β) (k : Nat), m + 1 ≤ k →
    (c19While (c19Test cx c19IpCond) (c19ExecL cx c19IpBody) k
      [("x", emb x), ("n", .int m), ("one", o), ("aux", emb a)]).andThen
        (c19ExecL cx [.ret (.var "aux")])
      = .ret (emb (integerPowerLoop mul a x m)) := by
  intro m
  induction m using Nat.strongRecOn with
  | _ m ih =>
    intro a x k hk
    obtain ⟨k, rfl⟩ : ∃ k', k = k' + 1 := ⟨k - 1, by omega⟩
    have hb := c19_ip_body cx emb mul hmul o a x m
    unfold integerPowerLoop
    by_cases h0 : m = 0
    · subst h0
      rw [c19While_succ_false _ _ _ _ (by unfold c19IpCond; c19_run []; simp)]
      c19_run []
    · have ht : c19Test cx c19IpCond
          [("x", emb x), ("n", .int m), ("one", o), ("aux", emb a)] = .ok true := by
        unfold c19IpCond; c19_run []; simp; omega
      have hpos : m > 0 := by omega
      by_cases h1 : m % 2 = 1
      · by_cases h2 : m = 1
        · subst h2
          simp only [if_true] at hb
          rw [c19While_succ_ret _ _ _ _ _ ht hb]
          simp
        · simp only [h1, h2, if_true, if_false] at hb
          rw [c19While_succ_true _ _ _ _ _ ht hb]
          simp only [hpos, h1, h2, if_true, if_false]
          exact ih (m / 2) (by omega) (mul a x) (mul x x) k (by omega)
      · simp only [h1, if_false] at hb
        rw [c19While_succ_true _ _ _ _ _ ht hb]
        simp only [hpos, h1, if_true, if_false]
        exact ih (m / 2) (by omega) a (mul x x) k (by omega)
end

theorem c19IsInst_int {α : Type} (cx : C19Cx α) (i : Int) : c19IsInst cx (.int i) ["int"] = true := rfl

theorem c19_find_integer_power :
    c19FindFn c19Table "algorithm.integer_power" = some c19Fn_algorithm_integer_power := rfl

/-- `integer_power(x, n, one)` for `n ≥ 0` on values of any kind whose `*` the interpreter computes
as `mul` (at this call depth): the regenerated body returns `integerPowerLoop mul one x n`. -/
theorem c19_integer_power_run {α β : Type} (ops : C19Ops α)
    (ext : String → List (C19V α) → C19R (C19V α)) (emb : β → C19V α) (mul : β → β → β) (n : Nat)
    (hmul : ∀ a b, c19BinOp (c19CxAt ops c19Table ext n (n + 1)) .mul (emb a) (emb b)
      = .ok (emb (mul a b)))
    (x one : β) (m : Nat) (hn : m ≤ n) :
    c19RunFn ops c19Table ext (n + 1) "algorithm.integer_power" [emb x, .int m, emb one]
      = .ok (emb (integerPower mul one x m)) := by
  have hloop := c19_ip_loop (c19CxAt ops c19Table ext n (n + 1)) emb mul hmul (emb one) m one x
    (n + 1) (by omega)
  have hlt : decide ((m : Int) < 0) = false := by simp
  have hpre : c19ExecL (c19CxAt ops c19Table ext n (n + 1)) c19IpPre
      [("x", emb x), ("n", .int m), ("one", emb one)]
      = .next [("x", emb x), ("n", .int m), ("one", emb one), ("aux", emb one)] := by
    unfold c19IpPre
    c19_run [c19IsInst_int, hlt]
  rw [c19RunFn_succ ops c19Table ext n _ _ _ _ c19_find_integer_power
    (by rw [c19_integer_power_body_current]; rfl)]
  simp only [c19_integer_power_body_current]
  rw [c19ExecL_append, hpre, C19O.andThen_next, c19ExecL_while, c19CxAt_fuel, hloop]
  rfl

/-- negative exponents are refused before anything is multiplied -/
theorem c19_integer_power_negative {α : Type} (ops : C19Ops α)
    (ext : String → List (C19V α) → C19R (C19V α)) (x one : C19V α) (i : Int) (hi : i < 0) (n : Nat) :
    c19RunFn ops c19Table ext (n + 1) "algorithm.integer_power" [x, .int i, one]
      = .raise "RuntimeError" := by
  have hlt : decide (i < 0) = true := by simp [hi]
  rw [c19RunFn_succ ops c19Table ext n _ _ _ _ c19_find_integer_power
    (by rw [c19_integer_power_body_current]; rfl)]
  simp only [c19_integer_power_body_current]
  rw [c19ExecL_append]
  unfold c19IpPre
  c19_run [c19IsInst_int, hlt]
  rfl

/-! ## `extended_euclidean`, `gcd`, `lcm` -/

def c19EuPre : List C19S := [
  .assign (.pat (.name "t")) (.commonTraits [(.var "q"), (.var "r")]),
  .ite (.cmp .lt (.method (.var "t") "norm" [(.var "q")]) (.method (.var "t") "norm" [(.var "r")])) [
    .assign (.pat (.tuple [(.name "p"), (.name "a"), (.name "b")])) (.call "algorithm.extended_euclidean" [(.var "r"), (.var "q")]),
    .ret (.tuple [(.var "p"), (.var "b"), (.var "a")])] [],
  .assign (.pat (.name "Q")) (.tuple [(.int 1), (.int 0)]),
  .assign (.pat (.name "R")) (.tuple [(.int 0), (.int 1)])]

def c19EuBody : List C19S := [
  .assign (.pat (.tuple [(.name "quot"), (.name "t")])) (.call "divmod" [(.var "q"), (.var "r")]),
  .assign (.pat (.name "T")) (.tuple [(.bin .sub (.index (.var "Q") (.int 0)) (.bin .mul (.var "quot") (.index (.var "R") (.int 0)))), (.bin .sub (.index (.var "Q") (.int 1)) (.bin .mul (.var "quot") (.index (.var "R") (.int 1))))]),
  .assign (.pat (.tuple [(.name "q"), (.name "r")])) (.tuple [(.var "r"), (.var "t")]),
  .assign (.pat (.tuple [(.name "Q"), (.name "R")])) (.tuple [(.var "R"), (.var "T")])]

def c19EuRet : C19S :=
  .ret (.tuple [(.var "q"), (.index (.var "Q") (.int 0)), (.index (.var "Q") (.int 1))])

/-- the body of `extended_euclidean` in the current source -/
theorem c19_extended_euclidean_body_current :
    c19Fn_algorithm_extended_euclidean = ⟨"algorithm.extended_euclidean", .func, ["q", "r"], [],
      c19EuPre ++ [.while (.var "r") c19EuBody, c19EuRet]⟩ := rfl

section
variable {α : Type}

def c19EuStore (q r : Int) (t : C19V α) (Q0 Q1 R0 R1 : Int) (extra : C19Store α) : C19Store α :=
  [("q", .int q), ("r", .int r), ("t", t), ("Q", .tup [.int Q0, .int Q1]),
   ("R", .tup [.int R0, .int R1])] ++ extra

def c19Enc3 (p : Int × Int × Int) : C19V α := .tup [.int p.1, .int p.2.1, .int p.2.2]

theorem c19_eu_body (cx : C19Cx α) (q r : Int) (hr : r ≠ 0) (t : C19V α) (Q0 Q1 R0 R1 : Int)
    (extra : C19Store α) (hx : extra = [] ∨ ∃ a b, extra = [("quot", a), ("T", b)]) :
    c19ExecL cx c19EuBody (c19EuStore q r t Q0 Q1 R0 R1 extra) =
      .next (c19EuStore r (Int.fmod q r) (.int (Int.fmod q r)) R0 R1
        (Q0 - Int.fdiv q r * R0) (Q1 - Int.fdiv q r * R1)
        [("quot", .int (Int.fdiv q r)),
         ("T", .tup [.int (Q0 - Int.fdiv q r * R0), .int (Q1 - Int.fdiv q r * R1)])]) := by
  unfold c19EuBody c19EuStore
  rcases hx with rfl | ⟨a, b, rfl⟩
  · c19_run [c19Call_divmod_ne _ _ _ hr]
  · c19_run [c19Call_divmod_ne _ _ _ hr]

/-- the `while r:` loop of `extended_euclidean` followed by its `return` IS `extEuclidLoop` -/
theorem c19_eu_loop (cx : C19Cx α) :
    ∀ (m : Nat) (q r : Int) (t : C19V α) (Q0 Q1 R0 R1 : Int) (extra : C19Store α) (k : Nat),
      r.natAbs ≤ m → m + 1 ≤ k → (extra = [] ∨ ∃ a b, extra = [("quot", a), ("T", b)]) →
      (c19While (c19Test cx (.var "r")) (c19ExecL cx c19EuBody) k
        (c19EuStore q r t Q0 Q1 R0 R1 extra)).andThen (c19ExecL cx [c19EuRet])
        = .ret (c19Enc3 (extEuclidLoop q r Q0 Q1 R0 R1)) := by
  intro m
  induction m with
  | zero =>
    intro q r t Q0 Q1 R0 R1 extra k hm hk hx
    obtain ⟨k, rfl⟩ : ∃ k', k = k' + 1 := ⟨k - 1, by omega⟩
    have hr : r = 0 := by omega
    subst hr
    unfold extEuclidLoop
    rw [c19While_succ_false _ _ _ _ (by unfold c19EuStore; c19_run [])]
    unfold c19EuStore c19EuRet c19Enc3
    c19_run []
    simp
  | succ m ih =>
    intro q r t Q0 Q1 R0 R1 extra k hm hk hx
    obtain ⟨k, rfl⟩ : ∃ k', k = k' + 1 := ⟨k - 1, by omega⟩
    unfold extEuclidLoop
    by_cases hr : r = 0
    · subst hr
      rw [c19While_succ_false _ _ _ _ (by unfold c19EuStore; c19_run [])]
      unfold c19EuStore c19EuRet c19Enc3
      c19_run []
      simp
    · have ht : c19Test cx (.var "r") (c19EuStore q r t Q0 Q1 R0 R1 extra) = .ok true := by
        unfold c19EuStore; c19_run []; simp [hr]
      have hb := c19_eu_body cx q r hr t Q0 Q1 R0 R1 extra hx
      have hlt := natAbs_fmod_lt q r hr
      rw [c19While_succ_true _ _ _ _ _ ht hb]
      simp only [hr, dite_false]
      exact ih r (Int.fmod q r) (.int (Int.fmod q r)) R0 R1 (Q0 - Int.fdiv q r * R0)
        (Q1 - Int.fdiv q r * R1) [("quot", .int (Int.fdiv q r)),
         ("T", .tup [.int (Q0 - Int.fdiv q r * R0), .int (Q1 - Int.fdiv q r * R1)])] k
        (by omega) (by omega) (Or.inr ⟨_, _, rfl⟩)

theorem c19Call_extended_euclidean (cx : C19Cx α) (a b : C19V α) :
    c19Call cx "algorithm.extended_euclidean" [a, b]
      = cx.calls "algorithm.extended_euclidean" [a, b] := rfl

theorem c19Method_integer_norm (ops : C19Ops α) (ext : String → List (C19V α) → C19R (C19V α))
    (n k : Nat) (v : C19V α) :
    c19Method (c19CxAt ops c19Table ext n k) (.obj "IntegerTraits" [] []) "norm" [v]
      = c19RunFn ops c19Table ext n "IntegerTraits.norm" [v] := rfl

theorem c19_integer_norm_run (ops : C19Ops α) (ext : String → List (C19V α) → C19R (C19V α))
    (n : Nat) (i : Int) :
    c19RunFn ops c19Table ext (n + 1) "IntegerTraits.norm" [.int i] = .ok (.int (i.natAbs : Int)) := by
  have hf : c19FindFn c19Table "IntegerTraits.norm" = some c19Fn_IntegerTraits_norm := rfl
  rw [c19RunFn_succ ops c19Table ext n _ _ _ _ hf rfl]
  simp only [c19Fn_IntegerTraits_norm]
  c19_run []
  rfl

theorem c19_find_traits : c19FindFn c19Table "traits.traits" = some c19Fn_traits_traits := rfl

theorem c19Call_traits (cx : C19Cx α) (a : C19V α) :
    c19Call cx "traits.traits" [a] = cx.calls "traits.traits" [a] := rfl

theorem c19New_integer_traits (ops : C19Ops α) (ext : String → List (C19V α) → C19R (C19V α))
    (n k : Nat) :
    c19New (c19CxAt ops c19Table ext n k) "IntegerTraits" [] = .ok (.obj "IntegerTraits" [] []) := rfl

/-- `traits(x)` of a Python int: `x.traits()` raises `AttributeError`, the handler answers
`IntegerTraits()` -/
theorem c19_traits_int_run (ops : C19Ops α) (ext : String → List (C19V α) → C19R (C19V α))
    (i : Int) (n : Nat) :
    c19RunFn ops c19Table ext (n + 1) "traits.traits" [.int i] = .ok (.obj "IntegerTraits" [] []) := by
  rw [c19RunFn_succ ops c19Table ext _ _ _ _ _ c19_find_traits rfl]
  simp only [c19Fn_traits_traits]
  have h1 : c19IsInst (c19CxAt ops c19Table ext n (n + 1)) (.int i) ["complex", "float"] = false := rfl
  c19_run [c19Method, h1, c19IsInst_int, c19New_integer_traits]
  rfl



/-- `common_traits(q, r)` of two Python ints: `traits` of each (read from the table), reduced with
the rule chain of the table — the second `IntegerTraits()` is an instance of the class of the
first -/
theorem c19CommonTraits_ints (ops : C19Ops α) (ext : String → List (C19V α) → C19R (C19V α))
    (n k : Nat) (q r : Int) :
    c19CommonTraits (c19CxAt ops c19Table ext (n + 1) k) [.int q, .int r]
      = .ok (.obj "IntegerTraits" [] []) := by
  have hrules : (c19CxAt ops c19Table ext (n + 1) k).tbl.commonTraits
      = ["ySubX", "xSubY", "raiseNoCommonTraits"] := rfl
  have hinst : c19IsInst (c19CxAt ops c19Table ext (n + 1) k) (.obj "IntegerTraits" [] [])
      ((c19ClassesOf (c19CxAt ops c19Table ext (n + 1) k).tbl
        (.obj "IntegerTraits" [] [] : C19V α)).take 1) = true := rfl
  have htwo : c19TraitsTwo (c19CxAt ops c19Table ext (n + 1) k)
      ["ySubX", "xSubY", "raiseNoCommonTraits"] (.obj "IntegerTraits" [] [])
      (.obj "IntegerTraits" [] []) = .ok (.obj "IntegerTraits" [] []) := by
    rw [c19TraitsTwo]
    simp only [String.reduceEq, if_true, hinst]
  simp only [c19CommonTraits, c19MapM, c19CxAt_calls, c19_traits_int_run, C19R.bind_ok,
    c19TraitsFold, hrules, htwo]

theorem c19_find_extended_euclidean : c19FindFn c19Table "algorithm.extended_euclidean"
    = some c19Fn_algorithm_extended_euclidean := rfl

section
variable (ops : C19Ops α) (ext : String → List (C19V α) → C19R (C19V α))

/-- `extended_euclidean(q, r)` when `|q| ≥ |r|`: no swap, the loop runs -/
theorem c19_extended_euclidean_noswap (q r : Int) (h : ¬ q.natAbs < r.natAbs) (n : Nat)
    (hn : r.natAbs + 2 ≤ n) :
    c19RunFn ops c19Table ext (n + 1) "algorithm.extended_euclidean" [.int q, .int r]
      = .ok (c19Enc3 (extEuclidLoop q r 1 0 0 1)) := by
  obtain ⟨n, rfl⟩ : ∃ n', n = n' + 1 := ⟨n - 1, by omega⟩
  obtain ⟨n, rfl⟩ : ∃ n', n = n' + 1 := ⟨n - 1, by omega⟩
  have hlt : decide ((q.natAbs : Int) < (r.natAbs : Int)) = false := by simp; omega
  have hpre : c19ExecL (c19CxAt ops c19Table ext (n + 1 + 1) (n + 1 + 1 + 1)) c19EuPre
      [("q", .int q), ("r", .int r)]
      = .next (c19EuStore q r (.obj "IntegerTraits" [] []) 1 0 0 1 []) := by
    unfold c19EuPre c19EuStore
    c19_run [c19CommonTraits_ints, c19Method_integer_norm,
      c19_integer_norm_run, hlt]
  have hloop := c19_eu_loop (c19CxAt ops c19Table ext (n + 1 + 1) (n + 1 + 1 + 1))
    r.natAbs q r (.obj "IntegerTraits" [] []) 1 0 0 1 [] (n + 1 + 1 + 1) (Nat.le_refl _) (by omega)
    (Or.inl rfl)
  rw [c19RunFn_succ ops c19Table ext _ _ _ _ _ c19_find_extended_euclidean
    (by rw [c19_extended_euclidean_body_current]; rfl)]
  simp only [c19_extended_euclidean_body_current]
  rw [c19ExecL_append, hpre, C19O.andThen_next, c19ExecL_while, c19CxAt_fuel, hloop]
  rfl

/-- **`extended_euclidean` as regenerated IS `extEuclid`** on Python ints. -/
theorem c19_extended_euclidean_run (q r : Int) (n : Nat) (hn : q.natAbs + r.natAbs + 3 ≤ n) :
    c19RunFn ops c19Table ext (n + 1) "algorithm.extended_euclidean" [.int q, .int r]
      = .ok (c19Enc3 (extEuclid q r)) := by
  by_cases h : q.natAbs < r.natAbs
  · obtain ⟨n, rfl⟩ : ∃ n', n = n' + 1 := ⟨n - 1, by omega⟩
    have hrec := c19_extended_euclidean_noswap ops ext r q (by omega) n (by omega)
    have hlt : decide ((q.natAbs : Int) < (r.natAbs : Int)) = true := by simp; omega
    have h2 : ¬ r.natAbs < q.natAbs := by omega
    rw [extEuclid, dif_pos h, extEuclid, dif_neg h2]
    rw [c19RunFn_succ ops c19Table ext _ _ _ _ _ c19_find_extended_euclidean
      (by rw [c19_extended_euclidean_body_current]; rfl)]
    simp only [c19_extended_euclidean_body_current]
    rw [c19ExecL_append]
    unfold c19EuPre
    obtain ⟨n, rfl⟩ : ∃ n', n = n' + 1 := ⟨n - 1, by omega⟩
    c19_run [c19CommonTraits_ints, c19Method_integer_norm,
      c19_integer_norm_run, hlt, c19Call_extended_euclidean, hrec, c19Enc3]
    rfl
  · rw [extEuclid, dif_neg h]
    exact c19_extended_euclidean_noswap ops ext q r h n (by omega)
end

end

/-! ## `find_factors` -/

section
variable {α : Type}

def c19FfPre : List C19S := [
  .assign (.pat (.name "n1")) (.int 2),
  .assign (.pat (.name "max_n1")) (.bin .add (.call "isqrt" [(.var "n")]) (.int 1))]
def c19FfCond : C19E :=
  .and (.cmp .ne (.bin .mod (.var "n") (.var "n1")) (.int 0)) (.cmp .le (.var "n1") (.var "max_n1"))
def c19FfBody : List C19S := [.aug "n1" .add (.int 1)]
def c19FfPost : List C19S := [
  .ite (.cmp .gt (.var "n1") (.var "max_n1")) [
    .assign (.pat (.name "n1")) (.var "n")] [],
  .assign (.pat (.name "n2")) (.bin .floordiv (.var "n") (.var "n1")),
  .ret (.tuple [(.var "n1"), (.var "n2")])]

theorem c19_find_factors_body_current :
    c19Fn_algorithm_find_factors = ⟨"algorithm.find_factors", .func, ["n"], [],
      c19FfPre ++ (.while c19FfCond c19FfBody :: c19FfPost)⟩ := rfl

theorem c19_fmod_nat (a b : Nat) : Int.fmod (a : Int) (b : Int) = ((a % b : Nat) : Int) := by
  rw [Int.fmod_eq_emod_of_nonneg _ (by omega)]; simp

theorem c19_fdiv_nat (a b : Nat) : Int.fdiv (a : Int) (b : Int) = ((a / b : Nat) : Int) := by
  rw [Int.fdiv_eq_ediv_of_nonneg _ (by omega)]; simp

def c19FfStore (n n1 M : Nat) : C19Store α := [("n", .int n), ("n1", .int n1), ("max_n1", .int M)]

theorem c19_ff_test (cx : C19Cx α) (n n1 M : Nat) (h1 : n1 ≠ 0) :
    c19Test cx c19FfCond (c19FfStore n n1 M) = .ok (decide (n % n1 ≠ 0 ∧ n1 ≤ M)) := by
  have h1' : (n1 : Int) ≠ 0 := by omega
  unfold c19FfCond c19FfStore
  by_cases ha : n % n1 = 0
  · have : (((n % n1 : Nat) : Int) == 0) = true := by simp [ha]
    c19_run [c19Scalar_mod_ne _ _ _ h1', c19_fmod_nat, this]
    simp [ha]
  · have : (((n % n1 : Nat) : Int) == 0) = false := by simp; omega
    c19_run [c19Scalar_mod_ne _ _ _ h1', c19_fmod_nat, this]
    simp [ha]

theorem c19_ff_loop (cx : C19Cx α) (n M : Nat) : ∀ (d n1 k : Nat), n1 ≠ 0 → M + 1 - n1 ≤ d → d + 1 ≤ k →
    c19While (c19Test cx c19FfCond) (c19ExecL cx c19FfBody) k (c19FfStore n n1 M)
      = .next (c19FfStore n (findFactorsLoop n n1 M) M) := by
  intro d
  induction d with
  | zero =>
    intro n1 k h1 hd hk
    obtain ⟨k, rfl⟩ : ∃ k', k = k' + 1 := ⟨k - 1, by omega⟩
    have ht := c19_ff_test cx n n1 M h1
    have hc : ¬ (n % n1 ≠ 0 ∧ n1 ≤ M) := by omega
    unfold findFactorsLoop
    rw [if_neg hc]
    rw [c19While_succ_false _ _ _ _ (by rw [ht]; simp [hc])]
  | succ d ih =>
    intro n1 k h1 hd hk
    obtain ⟨k, rfl⟩ : ∃ k', k = k' + 1 := ⟨k - 1, by omega⟩
    have ht := c19_ff_test cx n n1 M h1
    unfold findFactorsLoop
    by_cases hc : n % n1 ≠ 0 ∧ n1 ≤ M
    · rw [if_pos hc]
      have hb : c19ExecL cx c19FfBody (c19FfStore n n1 M) = .next (c19FfStore n (n1 + 1) M) := by
        unfold c19FfBody c19FfStore
        c19_run []
        simp
      rw [c19While_succ_true _ _ _ _ _ (by rw [ht]; simp [hc]) hb]
      exact ih (n1 + 1) k (by omega) (by omega) (by omega)
    · rw [if_neg hc]
      rw [c19While_succ_false _ _ _ _ (by rw [ht]; simp [hc])]

theorem c19Call_isqrt_nat (cx : C19Cx α) (n : Nat) :
    c19Call cx "isqrt" [.int (n : Int)] = .ok (.int (Nat.sqrt n : Nat)) := by
  rw [c19Call_isqrt, if_neg (by omega)]; simp

theorem c19_find_find_factors :
    c19FindFn c19Table "algorithm.find_factors" = some c19Fn_algorithm_find_factors := rfl

/-- what `find_factors` answers: the pair, or `ZeroDivisionError` -/
def c19EncFactors : Option (Nat × Nat) → C19R (C19V α)
  | some p => .ok (.tup [.int p.1, .int p.2])
  | none => .raise "ZeroDivisionError"

theorem c19_ff_post (cx : C19Cx α) (n n1 M : Nat) :
    c19Finish .func (c19ExecL cx c19FfPost (c19FfStore n n1 M)) =
      c19EncFactors (if (if n1 > M then n else n1) = 0 then none
        else some ((if n1 > M then n else n1), n / (if n1 > M then n else n1))) := by
  unfold c19FfPost c19FfStore c19EncFactors
  by_cases h : n1 > M
  · have hd : decide ((n1 : Int) > (M : Int)) = true := by simp; omega
    by_cases h0 : n = 0
    · subst h0
      c19_run [hd]
      simp [h]
    · have h0' : (n : Int) ≠ 0 := by omega
      c19_run [hd, c19Scalar_floordiv_ne _ _ _ h0', c19_fdiv_nat]
      simp [h, h0]
  · have hd : decide ((n1 : Int) > (M : Int)) = false := by simp; omega
    by_cases h0 : n1 = 0
    · subst h0
      c19_run [hd]
      simp [h]
    · have h0' : (n1 : Int) ≠ 0 := by omega
      c19_run [hd, c19Scalar_floordiv_ne _ _ _ h0', c19_fdiv_nat]
      simp [h, h0]

/-- **`find_factors` as regenerated IS `findFactorsPy`** (with the exact integer square root). -/
theorem c19_find_factors_run (ops : C19Ops α) (ext : String → List (C19V α) → C19R (C19V α))
    (n d : Nat) (hd : Nat.sqrt n + 2 ≤ d) :
    c19RunFn ops c19Table ext (d + 1) "algorithm.find_factors" [.int n]
      = c19EncFactors (findFactorsPy n) := by
  have hpre : c19ExecL (c19CxAt ops c19Table ext d (d + 1)) c19FfPre [("n", .int n)]
      = .next (c19FfStore n 2 (Nat.sqrt n + 1)) := by
    unfold c19FfPre c19FfStore
    c19_run [c19Call_isqrt_nat]
    simp
  have hloop := c19_ff_loop (c19CxAt ops c19Table ext d (d + 1)) n (Nat.sqrt n + 1)
    (Nat.sqrt n + 1) 2 (d + 1) (by omega) (by omega) (by omega)
  rw [c19RunFn_succ ops c19Table ext _ _ _ _ _ c19_find_find_factors
    (by rw [c19_find_factors_body_current]; rfl)]
  simp only [c19_find_factors_body_current]
  rw [c19ExecL_append, hpre, C19O.andThen_next, c19ExecL_while, c19CxAt_fuel, hloop,
    C19O.andThen_next, c19_ff_post]
  unfold findFactorsPy findFactors
  simp only []
end

/-! ## `gcd`, `lcm` -/

theorem c19Call_gcd {α : Type} (cx : C19Cx α) (a b : C19V α) :
    c19Call cx "algorithm.gcd" [a, b] = cx.calls "algorithm.gcd" [a, b] := rfl

/-- what `lcm` answers: the value, or `ZeroDivisionError` -/
def c19EncLcm {α : Type} : Option Int → C19R (C19V α)
  | some v => .ok (.int v)
  | none => .raise "ZeroDivisionError"

section
variable {α : Type} (ops : C19Ops α) (ext : String → List (C19V α) → C19R (C19V α))

/-- **`gcd` as regenerated IS the model's `gcd`** -/
theorem c19_gcd_run (q r : Int) (n : Nat) (hn : q.natAbs + r.natAbs + 4 ≤ n) :
    c19RunFn ops c19Table ext (n + 1) "algorithm.gcd" [.int q, .int r] = .ok (.int (gcd q r)) := by
  have hf : c19FindFn c19Table "algorithm.gcd" = some c19Fn_algorithm_gcd := rfl
  obtain ⟨n, rfl⟩ : ∃ n', n = n' + 1 := ⟨n - 1, by omega⟩
  have he := c19_extended_euclidean_run ops ext q r n (by omega)
  rw [c19RunFn_succ ops c19Table ext _ _ _ _ _ hf rfl]
  simp only [c19Fn_algorithm_gcd]
  c19_run [c19Call_extended_euclidean, he, c19Enc3]
  rfl

/-- **`lcm` as regenerated IS the model's `lcm`** (`abs(q*r)//gcd(q, r)`, raising when the gcd
is zero) -/
theorem c19_lcm_run (q r : Int) (n : Nat) (hn : q.natAbs + r.natAbs + 5 ≤ n) :
    c19RunFn ops c19Table ext (n + 1) "algorithm.lcm" [.int q, .int r] = c19EncLcm (lcm q r) := by
  have hf : c19FindFn c19Table "algorithm.lcm" = some c19Fn_algorithm_lcm := rfl
  obtain ⟨n, rfl⟩ : ∃ n', n = n' + 1 := ⟨n - 1, by omega⟩
  have hg := c19_gcd_run ops ext q r n (by omega)
  rw [c19RunFn_succ ops c19Table ext _ _ _ _ _ hf rfl]
  simp only [c19Fn_algorithm_lcm]
  unfold lcm c19EncLcm
  by_cases h0 : gcd q r = 0
  · c19_run [c19Call_gcd, hg, h0]
    rfl
  · c19_run [c19Call_gcd, hg, c19Scalar_floordiv_ne _ _ _ h0]
    simp [h0]
end

end PV.Algo
