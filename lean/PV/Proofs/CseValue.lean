import PV.Proofs.CseRel
import PV.Proofs.CseNest
import PV.Proofs.CsePerm
/-
  C12 helper: tagging preserves the value, as an instance of the generic induction.

  `okEq x y`: the two results are the same value whenever either is a value (both may raise, then
  possibly different exceptions: a shared commuted sum can meet another failing operand first).
-/
namespace PV

def okEq {α : Type} (x y : Except Err α) : Prop := ∀ v, x = .ok v ↔ y = .ok v

theorem okEq.refl {α} (x : Except Err α) : okEq x x := fun _ => Iff.rfl
theorem okEq.symm {α} {x y : Except Err α} (h : okEq x y) : okEq y x := fun v => (h v).symm
theorem okEq.trans {α} {x y z : Except Err α} (h1 : okEq x y) (h2 : okEq y z) : okEq x z :=
  fun v => (h1 v).trans (h2 v)

theorem okEq.bind {α β} {x y : Except Err α} {f g : α → Except Err β} (h : okEq x y)
    (hf : ∀ a, okEq (f a) (g a)) : okEq (x >>= f) (y >>= g) := by
  intro v
  cases x with
  | ok a =>
    have hy : y = .ok a := (h a).mp rfl
    subst hy
    exact hf a v
  | error e =>
    cases y with
    | ok b => have := (h b).mpr rfl; cases this
    | error e' =>
      constructor <;> intro hh <;> cases hh

theorem okEq.ite {α} {c : Bool} {x x' y y' : Except Err α} (h1 : okEq x x') (h2 : okEq y y') :
    okEq (if c then x else y) (if c then x' else y') := by
  cases c <;> simpa

/-- same value whenever either expression has one (environment fixed) -/
def okEquiv (env : Env) (a b : Expr) : Prop := okEq (den env a) (den env b)

section
variable {env : Env}

theorem den_wrapInCse (r : Expr) (p : Option String) : den env (wrapInCse r p) = den env r := by
  cases r
  case cse c q s =>
    cases p with
    | none => rfl
    | some pp =>
      simp only [wrapInCse]
      split
      · simp only [den]
      · rfl
  all_goals first | rfl | simp only [wrapInCse, den]

theorem fold_congr (o : NaryOp) {cs cs' : List Expr} (h : RelL (okEquiv env) cs cs') :
    ∀ acc, okEq (denFold env o acc cs) (denFold env o acc cs') := by
  induction h with
  | nil => intro acc; exact okEq.refl _
  | cons h1 _ ih =>
    intro acc
    simp only [denFold]
    exact okEq.bind h1 fun v => okEq.bind (okEq.refl _) fun acc' => ih acc'

theorem reduce_congr (o : NaryOp) {cs cs' : List Expr} (h : RelL (okEquiv env) cs cs') :
    okEq (denReduce env o cs) (denReduce env o cs') := by
  cases h with
  | nil => exact okEq.refl _
  | cons h1 h2 =>
    simp only [denReduce]
    exact okEq.bind h1 fun v => fold_congr o h2 v

theorem any_congr {cs cs' : List Expr} (h : RelL (okEquiv env) cs cs') :
    okEq (denAny env cs) (denAny env cs') := by
  induction h with
  | nil => exact okEq.refl _
  | cons h1 _ ih =>
    simp only [denAny]
    exact okEq.bind h1 fun v => okEq.bind (okEq.refl _) fun t => okEq.ite (okEq.refl _) ih

theorem all_congr {cs cs' : List Expr} (h : RelL (okEquiv env) cs cs') :
    okEq (denAll env cs) (denAll env cs') := by
  induction h with
  | nil => exact okEq.refl _
  | cons h1 _ ih =>
    simp only [denAll]
    exact okEq.bind h1 fun v => okEq.bind (okEq.refl _) fun t => okEq.ite ih (okEq.refl _)

theorem minmax_congr (isMin : Bool) {cs cs' : List Expr} (h : RelL (okEquiv env) cs cs') :
    ∀ cur, okEq (denMinMax env isMin cur cs) (denMinMax env isMin cur cs') := by
  induction h with
  | nil => intro cur; exact okEq.refl _
  | cons h1 _ ih =>
    intro cur
    simp only [denMinMax]
    refine okEq.bind h1 fun v => ?_
    cases cur with
    | none => exact ih _
    | some m => exact okEq.bind (okEq.refl _) fun b => ih _

theorem list_congr {cs cs' : List Expr} (h : RelL (okEquiv env) cs cs') :
    okEq (denList env cs) (denList env cs') := by
  induction h with
  | nil => exact okEq.refl _
  | cons h1 _ ih =>
    simp only [denList]
    exact okEq.bind h1 fun v => okEq.bind ih fun vs => okEq.refl _

theorem nary_congr (o : NaryOp) {cs cs' : List Expr} (h : RelL (okEquiv env) cs cs') :
    okEquiv env (.nary o cs) (.nary o cs') := by
  unfold okEquiv
  cases o <;> simp only [den]
  · exact fold_congr _ h _
  · exact fold_congr _ h _
  · exact reduce_congr _ h
  · exact reduce_congr _ h
  · exact reduce_congr _ h
  · exact any_congr h
  · exact all_congr h
  · exact minmax_congr _ h _
  · exact minmax_congr _ h _

/-! ### keys -/

theorem normalizedKey_cases (e : Expr) :
    (∃ o cs, o.isComm = true ∧ e = .nary o cs ∧ normalizedKey e = .comm o (kidCount cs)) ∨
      normalizedKey e = .plain e := by
  cases e
  case nary o cs =>
    cases o
    · exact Or.inl ⟨.sum, cs, rfl, rfl, rfl⟩
    · exact Or.inl ⟨.prod, cs, rfl, rfl, rfl⟩
    all_goals exact Or.inr rfl
  all_goals exact Or.inr rfl

def commZero : NaryOp → Value
  | .prod => .int 1
  | _ => .int 0

theorem den_comm {o : NaryOp} (ho : o.isComm = true) (cs : List Expr) :
    den env (.nary o cs) = denFold env o (commZero o) cs := by
  cases o <;> simp only [NaryOp.isComm, Bool.false_eq_true] at ho <;> simp only [den, commZero]

/-- what equal normalised keys mean for simple expressions: identical, or a sum / product of the
same operands in another order -/
theorem keyEq_simple {a b : Expr} (ha : a.simple = true) (hb : b.simple = true)
    (h : (normalizedKey a).eq (normalizedKey b) = true) :
    a = b ∨ ∃ o cs cs', o.isComm = true ∧ a = .nary o cs ∧ b = .nary o cs' ∧ cs.Perm cs' := by
  rcases normalizedKey_cases a with ⟨o, cs, ho, rfl, ka⟩ | ka <;>
    rcases normalizedKey_cases b with ⟨o', cs', ho', rfl, kb⟩ | kb <;> rw [ka, kb] at h
  · simp only [Expr.simple] at ha hb
    obtain ⟨h1, h2⟩ := perm_of_keyEq ha hb h
    subst h1
    exact Or.inr ⟨o, cs, cs', ho, rfl, rfl, h2⟩
  · simp [CKey.eq] at h
  · simp [CKey.eq] at h
  · simp only [CKey.eq] at h
    exact Or.inl (pyEq_eq_of_simple a b ha hb h)

theorem keyEq_okEquiv {a b : Expr} (ha : a.simple = true) (hb : b.simple = true)
    (h : (normalizedKey a).eq (normalizedKey b) = true) : okEquiv env a b := by
  rcases keyEq_simple ha hb h with rfl | ⟨o, cs, cs', ho, rfl, rfl, hp⟩
  · exact okEq.refl _
  · unfold okEquiv
    rw [den_comm ho, den_comm ho]
    intro v
    exact ⟨denFold_perm env ho hp _ v, denFold_perm env ho hp.symm _ v⟩

/-! ### the instance -/

/-- value preservation as a `CseSpec`: table entries are wrappers that mean what some simple
expression with that key means -/
theorem valueSpec (env : Env) : CseSpec (okEquiv env)
    (fun k w => ∃ e0, e0.simple = true ∧ k = normalizedKey e0 ∧ okEquiv env e0 w)
    (fun e => e.simple = true) where
  dchild := fun _ h => simple_children h
  const := fun _ => okEq.refl _
  var := fun _ => okEq.refl _
  nan := okEq.refl _
  wildcard := okEq.refl _
  dotWild := fun _ => okEq.refl _
  starWild := fun _ => okEq.refl _
  funcSym := okEq.refl _
  nary := fun o _ _ h => nary_congr o h
  bin := fun o a b a' b' ha hb => by
    unfold okEquiv; simp only [den]
    exact okEq.bind ha fun x => okEq.bind hb fun y => okEq.refl _
  un := fun o a a' ha => by
    unfold okEquiv
    cases o <;> simp only [den]
    · exact okEq.bind ha fun x => okEq.refl _
    · exact okEq.bind ha fun x => okEq.refl _
  cmp := fun o a b a' b' ha hb => by
    unfold okEquiv; simp only [den]
    exact okEq.bind ha fun x => okEq.bind hb fun y => okEq.refl _
  ite := fun c t e c' t' e' hc ht he => by
    unfold okEquiv; simp only [den]
    exact okEq.bind hc fun cv => okEq.bind (okEq.refl _) fun b => okEq.ite ht he
  call := fun f as f' as' hf has => by
    unfold okEquiv; simp only [den]
    exact okEq.bind hf fun fv => okEq.bind (list_congr has) fun avs => okEq.refl _
  callKw := fun f as ns vs f' as' vs' hf has hvs => by
    unfold okEquiv; simp only [den]
    exact okEq.bind (list_congr has) fun avs => okEq.bind (list_congr hvs) fun kvs =>
      okEq.bind hf fun fv => okEq.refl _
  subscript := fun a i a' i' ha hi => by
    unfold okEquiv; simp only [den]
    exact okEq.bind ha fun x => okEq.bind hi fun y => okEq.refl _
  lookup := fun a n a' ha => by
    unfold okEquiv; simp only [den]
    exact okEq.bind ha fun x => okEq.refl _
  subst := fun c vs xs xs' _ => by unfold okEquiv; simp only [den]; exact okEq.refl _
  deriv := fun c vs c' _ => by unfold okEquiv; simp only [den]; exact okEq.refl _
  slice := fun cs cs' _ => by unfold okEquiv; simp only [den]; exact okEq.refl _
  tuple := fun cs cs' h => by
    unfold okEquiv; simp only [den]
    exact okEq.bind (list_congr h) fun vs => okEq.refl _
  list := fun cs cs' h => by
    unfold okEquiv; simp only [den]
    exact okEq.bind (list_congr h) fun vs => okEq.refl _
  cse := fun c p s r hr => by
    unfold okEquiv at hr ⊢
    rw [den_wrapInCse]; simpa only [den] using hr
  hit := fun e k w hD hP hk => by
    obtain ⟨e0, hs0, rfl, h0⟩ := hP
    exact (keyEq_okEquiv hs0 hD hk).symm.trans h0
  put := fun e r T hD _ hr hT => by
    have hw : okEquiv env e (wrapInCse r none) := by
      unfold okEquiv at hr ⊢; rw [den_wrapInCse]; exact hr
    refine ⟨hw, ?_⟩
    intro p hp
    rcases Tbl.mem_set' hp with h | ⟨h2, h | ⟨w0, hm, hk⟩⟩
    · exact hT p h
    · exact ⟨e, hD, h, h2 ▸ hw⟩
    · obtain ⟨e0, hs0, hk0, _⟩ := hT (p.1, w0) hm
      refine ⟨e0, hs0, hk0, ?_⟩
      rw [h2]
      rw [hk0] at hk
      exact (keyEq_okEquiv hs0 hD hk).trans hw

end
end PV
