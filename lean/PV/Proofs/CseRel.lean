import PV.Model.Cse
import PV.Proofs.UnionPy
/-
  C12 helper: one generic induction over `cseMap`.

  `CseSpec R P D` lists what a relation `R` between an input tree and its tagged tree has to
  satisfy (a congruence rule per node class, the two wrapping rules, and the rules for reading and
  writing the canonical table whose entries satisfy `P`); `cseMap_rel` then shows that every run
  of the mapper relates input and output and keeps the table invariant.  The value theorem and the
  no-wrapper-around-wrapper theorem of C12 are instances.
-/
namespace PV

/-- pointwise lifting of a relation to operand lists -/
inductive RelL (R : Expr → Expr → Prop) : List Expr → List Expr → Prop
  | nil : RelL R [] []
  | cons {a a' : Expr} {as as' : List Expr} : R a a' → RelL R as as' → RelL R (a :: as) (a' :: as')

/-- table invariant: every entry satisfies `P` -/
def TblAll (P : CKey → Expr → Prop) (T : Tbl) : Prop := ∀ p ∈ T, P p.1 p.2

structure CseSpec (R : Expr → Expr → Prop) (P : CKey → Expr → Prop) (D : Expr → Prop) : Prop where
  dchild : ∀ e, D e → ∀ c ∈ e.children, D c
  const : ∀ c, R (.const c) (.const c)
  var : ∀ x, R (.var x) (.var x)
  nan : R .nan .nan
  wildcard : R .wildcard .wildcard
  dotWild : ∀ n, R (.dotWild n) (.dotWild n)
  starWild : ∀ n, R (.starWild n) (.starWild n)
  funcSym : R .funcSym .funcSym
  nary : ∀ o cs cs', RelL R cs cs' → R (.nary o cs) (.nary o cs')
  bin : ∀ o a b a' b', R a a' → R b b' → R (.bin o a b) (.bin o a' b')
  un : ∀ o a a', R a a' → R (.un o a) (.un o a')
  cmp : ∀ o a b a' b', R a a' → R b b' → R (.cmp o a b) (.cmp o a' b')
  ite : ∀ c t e c' t' e', R c c' → R t t' → R e e' → R (.ite c t e) (.ite c' t' e')
  call : ∀ f as f' as', R f f' → RelL R as as' → R (.call f as) (.call f' as')
  callKw : ∀ f as ns vs f' as' vs', R f f' → RelL R as as' → RelL R vs vs' →
    R (.callKw f as ns vs) (.callKw f' as' ns vs')
  subscript : ∀ a i a' i', R a a' → R i i' → R (.subscript a i) (.subscript a' i')
  lookup : ∀ a n a', R a a' → R (.lookup a n) (.lookup a' n)
  subst : ∀ c vs xs xs', RelL R xs xs' → R (.subst c vs xs) (.subst c vs xs')
  deriv : ∀ c vs c', R c c' → R (.deriv c vs) (.deriv c' vs)
  slice : ∀ cs cs', RelL R cs cs' → R (.slice cs) (.slice cs')
  tuple : ∀ cs cs', RelL R cs cs' → R (.tuple cs) (.tuple cs')
  list : ∀ cs cs', RelL R cs cs' → R (.list cs) (.list cs')
  /-- an existing wrapper: its child was mapped to `r`, the result is `wrap_in_cse(r, prefix)` -/
  cse : ∀ c p s r, R c r → R (.cse c p s) (wrapInCse r p)
  /-- reading the table -/
  hit : ∀ e k w, D e → P k w → k.eq (normalizedKey e) = true → R e w
  /-- writing the table (`canonical_subexprs[key] = wrap_in_cse(rebuilt)`), and returning it -/
  put : ∀ e r T, D e → e.isCseOp = true → R e r → TblAll P T →
    R e (wrapInCse r none) ∧ TblAll P (T.set (normalizedKey e) (wrapInCse r none))

theorem Tbl.find_some {k : CKey} {w : Expr} : ∀ {T : Tbl}, T.find k = some w →
    ∃ k', (k', w) ∈ T ∧ k'.eq k = true
  | [], h => by simp [Tbl.find] at h
  | (k0, w0) :: rest, h => by
    simp only [Tbl.find] at h
    by_cases hk : k0.eq k = true
    · simp [hk] at h; subst h; exact ⟨k0, by simp, hk⟩
    · simp [hk] at h
      obtain ⟨k', hm, he⟩ := Tbl.find_some h
      exact ⟨k', by simp [hm], he⟩

/-- what `opMode` can answer -/
theorem opMode_cases {elim : List CKey} {T : Tbl} {e : Expr} {m : OpMode}
    (h : opMode elim T e = .ok m) :
    m = .plain ∨ (∃ w k', m = .hit w ∧ (k', w) ∈ T ∧ k'.eq (normalizedKey e) = true) ∨
      (m = .miss (normalizedKey e) ∧ e.isCseOp = true ∧ T.find (normalizedKey e) = none) := by
  unfold opMode at h
  by_cases h1 : e.isCseOp = true
  · simp only [h1, if_true] at h
    by_cases h2 : e.hasList = true
    · simp [h2] at h
    · simp only [h2, Bool.false_eq_true, if_false] at h
      by_cases h3 : inElim elim (normalizedKey e) = true
      · simp only [h3, if_true] at h
        cases hf : T.find (normalizedKey e) with
        | none =>
          simp only [hf] at h
          injection h with h; subst h
          exact Or.inr (Or.inr ⟨rfl, h1, rfl⟩)
        | some w =>
          simp only [hf] at h
          injection h with h; subst h
          obtain ⟨k', hm, he⟩ := Tbl.find_some hf
          exact Or.inr (Or.inl ⟨w, k', rfl, hm, he⟩)
      · simp only [h3, Bool.false_eq_true, if_false] at h
        injection h with h; subst h; exact Or.inl rfl
  · simp only [h1, Bool.false_eq_true, if_false] at h
    injection h with h; subst h; exact Or.inl rfl

section
variable {R : Expr → Expr → Prop} {P : CKey → Expr → Prop} {D : Expr → Prop}

/-- the common tail of `map_sum`: given the mode and the rebuilt node -/
theorem finishOp_rel (S : CseSpec R P D) {elim : List CKey} {T0 T1 : Tbl} {e r : Expr} {m : OpMode}
    (hm : opMode elim T0 e = .ok m) (hnh : ∀ w, m ≠ .hit w) (hD : D e) (hr : R e r)
    (hT : TblAll P T1) :
    R e (finishOp m r T1).1 ∧ TblAll P (finishOp m r T1).2 := by
  rcases opMode_cases hm with rfl | ⟨w, _, rfl, _, _⟩ | ⟨rfl, hop, _⟩
  · exact ⟨hr, hT⟩
  · exact absurd rfl (hnh w)
  · simp only [finishOp]
    exact S.put e r T1 hD hop hr hT

theorem hit_rel (S : CseSpec R P D) {elim : List CKey} {T : Tbl} {e w : Expr}
    (hm : opMode elim T e = .ok (.hit w)) (hD : D e) (hT : TblAll P T) : R e w := by
  rcases opMode_cases hm with h | ⟨w', k', h, hmem, hk⟩ | ⟨h, _, _⟩
  · cases h
  · injection h with h; subst h
    exact S.hit e k' w hD (hT (k', w) hmem) hk
  · cases h

mutual
theorem cseMap_rel (S : CseSpec R P D) (elim : List CKey) :
    ∀ (e : Expr) (T : Tbl) (e' : Expr) (T' : Tbl), D e → TblAll P T →
      cseMap elim e T = .ok (e', T') → R e e' ∧ TblAll P T'
  | .const (.str _), _, _, _, _, _, h => by simp [cseMap] at h
  | .const .none, _, _, _, _, _, h => by simp [cseMap] at h
  | .const (.int n), T, e', T', _, hT, h => by
      simp only [cseMap, pure, Except.pure] at h
      injection h with h; injection h with h1 h2; subst h1; subst h2; exact ⟨S.const _, hT⟩
  | .const (.bool n), T, e', T', _, hT, h => by
      simp only [cseMap, pure, Except.pure] at h
      injection h with h; injection h with h1 h2; subst h1; subst h2; exact ⟨S.const _, hT⟩
  | .const (.flt a b c), T, e', T', _, hT, h => by
      simp only [cseMap, pure, Except.pure] at h
      injection h with h; injection h with h1 h2; subst h1; subst h2; exact ⟨S.const _, hT⟩
  | .var x, T, e', T', _, hT, h => by
      simp only [cseMap, pure, Except.pure] at h
      injection h with h; injection h with h1 h2; subst h1; subst h2; exact ⟨S.var _, hT⟩
  | .nan, T, e', T', _, hT, h => by
      simp only [cseMap, pure, Except.pure] at h
      injection h with h; injection h with h1 h2; subst h1; subst h2; exact ⟨S.nan, hT⟩
  | .wildcard, T, e', T', _, hT, h => by
      simp only [cseMap, pure, Except.pure] at h
      injection h with h; injection h with h1 h2; subst h1; subst h2; exact ⟨S.wildcard, hT⟩
  | .dotWild n, T, e', T', _, hT, h => by
      simp only [cseMap, pure, Except.pure] at h
      injection h with h; injection h with h1 h2; subst h1; subst h2; exact ⟨S.dotWild _, hT⟩
  | .starWild n, T, e', T', _, hT, h => by
      simp only [cseMap, pure, Except.pure] at h
      injection h with h; injection h with h1 h2; subst h1; subst h2; exact ⟨S.starWild _, hT⟩
  | .funcSym, T, e', T', _, hT, h => by
      simp only [cseMap, pure, Except.pure] at h
      injection h with h; injection h with h1 h2; subst h1; subst h2; exact ⟨S.funcSym, hT⟩
  | .nary o cs, T, e', T', hD, hT, h => by
      simp only [cseMap] at h
      obtain ⟨m, hm, h⟩ := except_bind_ok h
      have hcs : ∀ c ∈ cs, D c := fun c hc => S.dchild _ hD c (by simp [Expr.children, hc])
      cases m with
      | hit w =>
        simp only [pure, Except.pure] at h
        injection h with h; injection h with h1 h2; subst h1; subst h2
        exact ⟨hit_rel S hm hD hT, hT⟩
      | plain =>
        obtain ⟨⟨cs', T1⟩, h1, h⟩ := except_bind_ok h
        simp only [pure, Except.pure] at h
        injection h with h
        obtain ⟨r1, t1⟩ := cseMapL_rel S elim cs T cs' T1 hcs hT h1
        have := finishOp_rel S hm (by intro w hw; cases hw) hD (S.nary o cs cs' r1) t1
        rw [h] at this; exact this
      | miss k =>
        obtain ⟨⟨cs', T1⟩, h1, h⟩ := except_bind_ok h
        simp only [pure, Except.pure] at h
        injection h with h
        obtain ⟨r1, t1⟩ := cseMapL_rel S elim cs T cs' T1 hcs hT h1
        have := finishOp_rel S hm (by intro w hw; cases hw) hD (S.nary o cs cs' r1) t1
        rw [h] at this; exact this
  | .bin o a b, T, e', T', hD, hT, h => by
      simp only [cseMap] at h
      obtain ⟨m, hm, h⟩ := except_bind_ok h
      have ha : D a := S.dchild _ hD a (by simp [Expr.children])
      have hb : D b := S.dchild _ hD b (by simp [Expr.children])
      cases m with
      | hit w =>
        simp only [pure, Except.pure] at h
        injection h with h; injection h with h1 h2; subst h1; subst h2
        exact ⟨hit_rel S hm hD hT, hT⟩
      | plain =>
        obtain ⟨⟨a', T1⟩, h1, h⟩ := except_bind_ok h
        obtain ⟨⟨b', T2⟩, h2, h⟩ := except_bind_ok h
        simp only [pure, Except.pure] at h
        injection h with h
        obtain ⟨r1, t1⟩ := cseMap_rel S elim a T a' T1 ha hT h1
        obtain ⟨r2, t2⟩ := cseMap_rel S elim b T1 b' T2 hb t1 h2
        have := finishOp_rel S hm (by intro w hw; cases hw) hD (S.bin o a b a' b' r1 r2) t2
        rw [h] at this; exact this
      | miss k =>
        obtain ⟨⟨a', T1⟩, h1, h⟩ := except_bind_ok h
        obtain ⟨⟨b', T2⟩, h2, h⟩ := except_bind_ok h
        simp only [pure, Except.pure] at h
        injection h with h
        obtain ⟨r1, t1⟩ := cseMap_rel S elim a T a' T1 ha hT h1
        obtain ⟨r2, t2⟩ := cseMap_rel S elim b T1 b' T2 hb t1 h2
        have := finishOp_rel S hm (by intro w hw; cases hw) hD (S.bin o a b a' b' r1 r2) t2
        rw [h] at this; exact this
  | .call f as, T, e', T', hD, hT, h => by
      simp only [cseMap] at h
      obtain ⟨m, hm, h⟩ := except_bind_ok h
      have hf : D f := S.dchild _ hD f (by simp [Expr.children])
      have has : ∀ c ∈ as, D c := fun c hc => S.dchild _ hD c (by simp [Expr.children, hc])
      cases m with
      | hit w =>
        simp only [pure, Except.pure] at h
        injection h with h; injection h with h1 h2; subst h1; subst h2
        exact ⟨hit_rel S hm hD hT, hT⟩
      | plain =>
        obtain ⟨⟨f', T1⟩, h1, h⟩ := except_bind_ok h
        obtain ⟨⟨as', T2⟩, h2, h⟩ := except_bind_ok h
        simp only [pure, Except.pure] at h
        injection h with h
        obtain ⟨r1, t1⟩ := cseMap_rel S elim f T f' T1 hf hT h1
        obtain ⟨r2, t2⟩ := cseMapL_rel S elim as T1 as' T2 has t1 h2
        have := finishOp_rel S hm (by intro w hw; cases hw) hD (S.call f as f' as' r1 r2) t2
        rw [h] at this; exact this
      | miss k =>
        obtain ⟨⟨f', T1⟩, h1, h⟩ := except_bind_ok h
        obtain ⟨⟨as', T2⟩, h2, h⟩ := except_bind_ok h
        simp only [pure, Except.pure] at h
        injection h with h
        obtain ⟨r1, t1⟩ := cseMap_rel S elim f T f' T1 hf hT h1
        obtain ⟨r2, t2⟩ := cseMapL_rel S elim as T1 as' T2 has t1 h2
        have := finishOp_rel S hm (by intro w hw; cases hw) hD (S.call f as f' as' r1 r2) t2
        rw [h] at this; exact this
  | .un o a, T, e', T', hD, hT, h => by
      simp only [cseMap] at h
      have ha : D a := S.dchild _ hD a (by simp [Expr.children])
      obtain ⟨⟨a', T1⟩, h1, h⟩ := except_bind_ok h
      simp only [pure, Except.pure] at h
      injection h with h; injection h with e1 e2; subst e1; subst e2
      obtain ⟨r1, t1⟩ := cseMap_rel S elim a T a' T1 ha hT h1
      exact ⟨S.un o a a' r1, t1⟩
  | .cmp o a b, T, e', T', hD, hT, h => by
      simp only [cseMap] at h
      have ha : D a := S.dchild _ hD a (by simp [Expr.children])
      have hb : D b := S.dchild _ hD b (by simp [Expr.children])
      obtain ⟨⟨a', T1⟩, h1, h⟩ := except_bind_ok h
      obtain ⟨⟨b', T2⟩, h2, h⟩ := except_bind_ok h
      simp only [pure, Except.pure] at h
      injection h with h; injection h with e1 e2; subst e1; subst e2
      obtain ⟨r1, t1⟩ := cseMap_rel S elim a T a' T1 ha hT h1
      obtain ⟨r2, t2⟩ := cseMap_rel S elim b T1 b' T2 hb t1 h2
      exact ⟨S.cmp o a b a' b' r1 r2, t2⟩
  | .ite c t e, T, e', T', hD, hT, h => by
      simp only [cseMap] at h
      have hc : D c := S.dchild _ hD c (by simp [Expr.children])
      have ht : D t := S.dchild _ hD t (by simp [Expr.children])
      have he : D e := S.dchild _ hD e (by simp [Expr.children])
      obtain ⟨⟨c', T1⟩, h1, h⟩ := except_bind_ok h
      obtain ⟨⟨t', T2⟩, h2, h⟩ := except_bind_ok h
      obtain ⟨⟨e2, T3⟩, h3, h⟩ := except_bind_ok h
      simp only [pure, Except.pure] at h
      injection h with h; injection h with e1 e2; subst e1; subst e2
      obtain ⟨r1, t1⟩ := cseMap_rel S elim c T c' T1 hc hT h1
      obtain ⟨r2, t2⟩ := cseMap_rel S elim t T1 t' T2 ht t1 h2
      obtain ⟨r3, t3⟩ := cseMap_rel S elim e T2 _ T3 he t2 h3
      exact ⟨S.ite c t e c' t' _ r1 r2 r3, t3⟩
  | .callKw f as ns vs, T, e', T', hD, hT, h => by
      simp only [cseMap] at h
      have hf : D f := S.dchild _ hD f (by simp [Expr.children])
      have has : ∀ c ∈ as, D c := fun c hc => S.dchild _ hD c (by simp [Expr.children, hc])
      have hvs : ∀ c ∈ vs, D c := fun c hc => S.dchild _ hD c (by simp [Expr.children, hc])
      obtain ⟨⟨f', T1⟩, h1, h⟩ := except_bind_ok h
      obtain ⟨⟨as', T2⟩, h2, h⟩ := except_bind_ok h
      obtain ⟨⟨vs', T3⟩, h3, h⟩ := except_bind_ok h
      simp only [pure, Except.pure] at h
      injection h with h; injection h with e1 e2; subst e1; subst e2
      obtain ⟨r1, t1⟩ := cseMap_rel S elim f T f' T1 hf hT h1
      obtain ⟨r2, t2⟩ := cseMapL_rel S elim as T1 as' T2 has t1 h2
      obtain ⟨r3, t3⟩ := cseMapL_rel S elim vs T2 vs' T3 hvs t2 h3
      exact ⟨S.callKw f as ns vs f' as' vs' r1 r2 r3, t3⟩
  | .subscript a b, T, e', T', hD, hT, h => by
      simp only [cseMap] at h
      have ha : D a := S.dchild _ hD a (by simp [Expr.children])
      have hb : D b := S.dchild _ hD b (by simp [Expr.children])
      obtain ⟨⟨a', T1⟩, h1, h⟩ := except_bind_ok h
      obtain ⟨⟨b', T2⟩, h2, h⟩ := except_bind_ok h
      simp only [pure, Except.pure] at h
      injection h with h; injection h with e1 e2; subst e1; subst e2
      obtain ⟨r1, t1⟩ := cseMap_rel S elim a T a' T1 ha hT h1
      obtain ⟨r2, t2⟩ := cseMap_rel S elim b T1 b' T2 hb t1 h2
      exact ⟨S.subscript a b a' b' r1 r2, t2⟩
  | .lookup a n, T, e', T', hD, hT, h => by
      simp only [cseMap] at h
      have ha : D a := S.dchild _ hD a (by simp [Expr.children])
      obtain ⟨⟨a', T1⟩, h1, h⟩ := except_bind_ok h
      simp only [pure, Except.pure] at h
      injection h with h; injection h with e1 e2; subst e1; subst e2
      obtain ⟨r1, t1⟩ := cseMap_rel S elim a T a' T1 ha hT h1
      exact ⟨S.lookup a n a' r1, t1⟩
  | .cse c p s, T, e', T', hD, hT, h => by
      simp only [cseMap] at h
      have hc : D c := S.dchild _ hD c (by simp [Expr.children])
      obtain ⟨⟨r, T1⟩, h1, h⟩ := except_bind_ok h
      simp only [pure, Except.pure] at h
      injection h with h; injection h with e1 e2; subst e1; subst e2
      obtain ⟨r1, t1⟩ := cseMap_rel S elim c T r T1 hc hT h1
      exact ⟨S.cse c p s r r1, t1⟩
  | .subst c vs xs, T, e', T', hD, hT, h => by
      simp only [cseMap] at h
      have hxs : ∀ x ∈ xs, D x := fun x hx => S.dchild _ hD x (by simp [Expr.children, hx])
      obtain ⟨⟨xs', T1⟩, h1, h⟩ := except_bind_ok h
      simp only [pure, Except.pure] at h
      injection h with h; injection h with e1 e2; subst e1; subst e2
      obtain ⟨r1, t1⟩ := cseMapL_rel S elim xs T xs' T1 hxs hT h1
      exact ⟨S.subst c vs xs xs' r1, t1⟩
  | .deriv c vs, T, e', T', hD, hT, h => by
      simp only [cseMap] at h
      have hc : D c := S.dchild _ hD c (by simp [Expr.children])
      obtain ⟨⟨c', T1⟩, h1, h⟩ := except_bind_ok h
      simp only [pure, Except.pure] at h
      injection h with h; injection h with e1 e2; subst e1; subst e2
      obtain ⟨r1, t1⟩ := cseMap_rel S elim c T c' T1 hc hT h1
      exact ⟨S.deriv c vs c' r1, t1⟩
  | .slice cs, T, e', T', hD, hT, h => by
      simp only [cseMap] at h
      have hcs : ∀ c ∈ cs, D c := fun c hc => S.dchild _ hD c (by simp [Expr.children, hc])
      obtain ⟨⟨cs', T1⟩, h1, h⟩ := except_bind_ok h
      simp only [pure, Except.pure] at h
      injection h with h; injection h with e1 e2; subst e1; subst e2
      obtain ⟨r1, t1⟩ := cseMapSlice_rel S elim cs T cs' T1 hcs hT h1
      exact ⟨S.slice cs cs' r1, t1⟩
  | .tuple cs, T, e', T', hD, hT, h => by
      simp only [cseMap] at h
      have hcs : ∀ c ∈ cs, D c := fun c hc => S.dchild _ hD c (by simp [Expr.children, hc])
      obtain ⟨⟨cs', T1⟩, h1, h⟩ := except_bind_ok h
      simp only [pure, Except.pure] at h
      injection h with h; injection h with e1 e2; subst e1; subst e2
      obtain ⟨r1, t1⟩ := cseMapL_rel S elim cs T cs' T1 hcs hT h1
      exact ⟨S.tuple cs cs' r1, t1⟩
  | .list cs, T, e', T', hD, hT, h => by
      simp only [cseMap] at h
      have hcs : ∀ c ∈ cs, D c := fun c hc => S.dchild _ hD c (by simp [Expr.children, hc])
      obtain ⟨⟨cs', T1⟩, h1, h⟩ := except_bind_ok h
      simp only [pure, Except.pure] at h
      injection h with h; injection h with e1 e2; subst e1; subst e2
      obtain ⟨r1, t1⟩ := cseMapL_rel S elim cs T cs' T1 hcs hT h1
      exact ⟨S.list cs cs' r1, t1⟩
theorem cseMapL_rel (S : CseSpec R P D) (elim : List CKey) :
    ∀ (cs : List Expr) (T : Tbl) (cs' : List Expr) (T' : Tbl), (∀ c ∈ cs, D c) → TblAll P T →
      cseMapL elim cs T = .ok (cs', T') → RelL R cs cs' ∧ TblAll P T'
  | [], T, cs', T', _, hT, h => by
      simp only [cseMapL, pure, Except.pure] at h
      injection h with h; injection h with e1 e2; subst e1; subst e2
      exact ⟨RelL.nil, hT⟩
  | c :: cs, T, cs', T', hD, hT, h => by
      simp only [cseMapL] at h
      obtain ⟨⟨c', T1⟩, h1, h⟩ := except_bind_ok h
      obtain ⟨⟨cs2, T2⟩, h2, h⟩ := except_bind_ok h
      simp only [pure, Except.pure] at h
      injection h with h; injection h with e1 e2; subst e1; subst e2
      obtain ⟨r1, t1⟩ := cseMap_rel S elim c T c' T1 (hD c (by simp)) hT h1
      obtain ⟨r2, t2⟩ := cseMapL_rel S elim cs T1 cs2 T2 (fun x hx => hD x (by simp [hx])) t1 h2
      exact ⟨RelL.cons r1 r2, t2⟩
theorem cseMapSlice_rel (S : CseSpec R P D) (elim : List CKey) :
    ∀ (cs : List Expr) (T : Tbl) (cs' : List Expr) (T' : Tbl), (∀ c ∈ cs, D c) → TblAll P T →
      cseMapSlice elim cs T = .ok (cs', T') → RelL R cs cs' ∧ TblAll P T'
  | [], T, cs', T', _, hT, h => by
      simp only [cseMapSlice, pure, Except.pure] at h
      injection h with h; injection h with e1 e2; subst e1; subst e2
      exact ⟨RelL.nil, hT⟩
  | .const .none :: cs, T, cs', T', hD, hT, h => by
      simp only [cseMapSlice] at h
      obtain ⟨⟨cs2, T2⟩, h2, h⟩ := except_bind_ok h
      simp only [pure, Except.pure] at h
      injection h with h; injection h with e1 e2; subst e1; subst e2
      obtain ⟨r2, t2⟩ := cseMapSlice_rel S elim cs T cs2 T2 (fun x hx => hD x (by simp [hx])) hT h2
      exact ⟨RelL.cons (S.const _) r2, t2⟩
  | c :: cs, T, cs', T', hD, hT, h => by
      by_cases hn : c = .const .none
      · subst hn
        simp only [cseMapSlice] at h
        obtain ⟨⟨cs2, T2⟩, h2, h⟩ := except_bind_ok h
        simp only [pure, Except.pure] at h
        injection h with h; injection h with e1 e2; subst e1; subst e2
        obtain ⟨r2, t2⟩ := cseMapSlice_rel S elim cs T cs2 T2 (fun x hx => hD x (by simp [hx])) hT h2
        exact ⟨RelL.cons (S.const _) r2, t2⟩
      · rw [cseMapSlice.eq_3 _ _ _ _ (by intro h'; exact hn h')] at h
        obtain ⟨⟨c', T1⟩, h1, h⟩ := except_bind_ok h
        obtain ⟨⟨cs2, T2⟩, h2, h⟩ := except_bind_ok h
        simp only [pure, Except.pure] at h
        injection h with h; injection h with e1 e2; subst e1; subst e2
        obtain ⟨r1, t1⟩ := cseMap_rel S elim c T c' T1 (hD c (by simp)) hT h1
        obtain ⟨r2, t2⟩ := cseMapSlice_rel S elim cs T1 cs2 T2 (fun x hx => hD x (by simp [hx])) t1 h2
        exact ⟨RelL.cons r1 r2, t2⟩
end

end
end PV
