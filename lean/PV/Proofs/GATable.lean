import PV.Proofs.GATableSym
import PV.Proofs.GABits
/-
  C18 (T-gen): the table interpreter of PV/Model/GATable.lean run on the expected function table
  (PV/Proofs/GATableExpected.lean) IS the hand-written model of PV/Model/GA.lean — function by
  function, for all inputs.  Part 1: the bit-twiddling helpers and the blade-product weights.

  Every theorem is about ONE function body run by `c18RunFn` with an arbitrary callee resolver
  `callee`; what the body needs of the functions it calls is a hypothesis (`C18Has…`), discharged
  bottom-up in PV/Proofs/GATableLink.lean for the resolver `c18CallIn … (tail of the list)`.
-/
set_option linter.unusedSectionVars false
set_option linter.unusedVariables false
set_option linter.unusedSimpArgs false
namespace PV.GA.C18T

section
variable {R : Type} [Add R] [Mul R] [Neg R] [OfNat R 0] [OfNat R 1]

/-- abbreviation: the run-time record of a function of the expected module -/
abbrev c18Rt (Γ : C18Ctx R) (fuel : Nat) (callee : C18Callee R) : C18Rt R :=
  { M := c18ExpectedModule, Γ := Γ, fuel := fuel, callee := callee }

/-! ## global names of the expected module -/

@[simp] theorem c18Global_bit_count :
    (c18Global c18ExpectedModule "bit_count" : C18Res (C18Val R)) = .ok (.fn "bit_count") := rfl
@[simp] theorem c18Global_crs :
    (c18Global c18ExpectedModule "canonical_reordering_sign" : C18Res (C18Val R))
      = .ok (.fn "canonical_reordering_sign") := rfl
@[simp] theorem c18Global_smc :
    (c18Global c18ExpectedModule "_shared_metric_coeff" : C18Res (C18Val R))
      = .ok (.fn "_shared_metric_coeff") := rfl
@[simp] theorem c18Global_int :
    (c18Global c18ExpectedModule "int" : C18Res (C18Val R)) = .ok (.prim "int") := rfl
@[simp] theorem c18Global_len :
    (c18Global c18ExpectedModule "len" : C18Res (C18Val R)) = .ok (.prim "len") := rfl

/-! ## `bit_count` -/

theorem bit_count_loop (rt : C18Rt R) : ∀ (k i c : Nat), i < k →
    c18While (c18CondOf rt (.name "i"))
      (c18ExecList rt [
          .aug (.name "i") .band (.bin .sub (.name "i") (.nat 1)),
          .aug (.name "count") .add (.nat 1)])
      k [("i", .nat i), ("count", .nat c)]
      = .normal [("i", .nat 0), ("count", .nat (bitCountLoop i c))] := by
  intro k
  induction k with
  | zero => intro i c h; omega
  | succ k ih =>
    intro i c h
    unfold bitCountLoop
    by_cases hi : i = 0
    · subst hi
      rw [c18While_exit (env1 := [("i", .nat 0), ("count", .nat c)]) (by c18sym)]
      rfl
    · have h2 : i &&& (i - 1) < k := by
        have : i &&& (i - 1) ≤ i - 1 := Nat.and_le_right
        omega
      rw [c18While_iter (env1 := [("i", .nat i), ("count", .nat c)])
        (env2 := [("i", .nat (i &&& (i - 1))), ("count", .nat (c + 1))])
        (by c18sym [hi]) (by c18sym [show 1 ≤ i by omega])]
      simp only [hi, dite_false]
      exact ih _ _ h2

/-- **`bit_count` of the table is `bitCount`** -/
theorem c18_bit_count (Γ : C18Ctx R) (fuel : Nat) (callee : C18Callee R) (n : Nat) (h : n < fuel) :
    c18RunFn c18ExpectedModule Γ fuel callee c18X_bit_count [.nat n] [] = .ok (.nat (bitCount n)) := by
  simp only [c18RunFn, c18X_bit_count, c18BindArgs, List.nil_append, List.map_cons, List.map_nil, List.cons_append]
  c18sym
  rw [bit_count_loop _ fuel n 0 h]
  c18sym [bitCount]

/-- what a body that calls `bit_count` needs of its callee -/
def C18HasBitCount (fuel : Nat) (callee : C18Callee R) : Prop :=
  ∀ n, n < fuel → callee "bit_count" [.nat n] [] = .ok (.nat (bitCount n))

/-! ## `canonical_reordering_sign` -/

theorem reorder_loop (Γ : C18Ctx R) (fuel : Nat) (callee : C18Callee R)
    (hbc : C18HasBitCount fuel callee) (b : Nat) : ∀ (k a s : Nat), a < k → a < fuel →
    c18While (c18CondOf (c18Rt Γ fuel callee) (.name "a_bits"))
      (c18ExecList (c18Rt Γ fuel callee) [
          .assign [.name "s"] false (.bin .add (.name "s")
            (.call (.name "bit_count") [(.bin .band (.name "a_bits") (.name "b_bits"))] [] [])),
          .assign [.name "a_bits"] false (.bin .shr (.name "a_bits") (.nat 1))])
      k [("a_bits", .nat a), ("b_bits", .nat b), ("s", .nat s)]
      = .normal [("a_bits", .nat 0), ("b_bits", .nat b), ("s", .nat (reorderLoop a b s))] := by
  intro k
  induction k with
  | zero => intro a s h; omega
  | succ k ih =>
    intro a s h hf
    unfold reorderLoop
    by_cases ha : a = 0
    · subst ha
      rw [c18While_exit (env1 := [("a_bits", .nat 0), ("b_bits", .nat b), ("s", .nat s)])
        (by c18sym)]
      rfl
    · have h2 : a >>> 1 < k := by
        rw [Nat.shiftRight_eq_div_pow]; omega
      have h3 : a >>> 1 < fuel := by
        rw [Nat.shiftRight_eq_div_pow]; omega
      have h4 : a &&& b < fuel := by
        have : a &&& b ≤ a := Nat.and_le_left
        omega
      rw [c18While_iter (env1 := [("a_bits", .nat a), ("b_bits", .nat b), ("s", .nat s)])
        (env2 := [("a_bits", .nat (a >>> 1)), ("b_bits", .nat b),
          ("s", .nat (s + bitCount (a &&& b)))])
        (by c18sym [ha]) (by c18sym [c18Apply, hbc _ h4])]
      simp only [ha, dite_false]
      exact ih _ _ h2 h3

/-- the value `canonical_reordering_sign` returns: the Python int `reorderSign a b` -/
theorem c18_crs (Γ : C18Ctx R) (fuel : Nat) (callee : C18Callee R)
    (hbc : C18HasBitCount fuel callee) (a b : Nat) (h : a < fuel) :
    c18RunFn c18ExpectedModule Γ fuel callee c18X_canonical_reordering_sign [.nat a, .nat b] []
      = .ok (.ofInt (reorderSign a b)) := by
  have h1 : a >>> 1 < fuel := by
    rw [Nat.shiftRight_eq_div_pow]; omega
  simp only [c18RunFn, c18X_canonical_reordering_sign, c18BindArgs, List.nil_append,
    List.cons_append, List.map_cons, List.map_nil]
  c18sym
  rw [reorder_loop Γ fuel callee hbc b fuel (a >>> 1) 0 h1 h1]
  c18sym [reorderSign, reorderSignExp]
  rcases Nat.mod_two_eq_zero_or_one (reorderLoop (a >>> 1) b 0) with hs | hs <;> c18sym [hs]

/-- what a body that calls `canonical_reordering_sign` needs of its callee -/
def C18HasCrs (fuel : Nat) (callee : C18Callee R) : Prop :=
  ∀ a b, a < fuel →
    callee "canonical_reordering_sign" [.nat a, .nat b] [] = .ok (.ofInt (reorderSign a b))

/-! ## `_shared_metric_coeff` -/

/-- an int or coefficient value as a coefficient -/
def c18ValR : C18Val R → R
  | .nat n => c18OfNat n
  | .neg n => -(c18OfNat (n + 1))
  | .coef c => c
  | _ => 0

/-- the environment of the loop of `_shared_metric_coeff` -/
def smcEnv (sh idx : Nat) (rv bv : C18Val R) : C18Env R :=
  [("shared_bits", .nat sh), ("space", .space), ("result", rv), ("basis_idx", .nat idx),
   ("bit", bv)]

def smcBody : List C18Stmt := [
  .assign [.name "bit"] false (.bin .shl (.nat 1) (.name "basis_idx")),
  .ifThen (.bin .band (.name "shared_bits") (.name "bit"))
    [
      .assign [.name "result"] false (.bin .mul (.name "result") (.index (.attr (.name "space") "metric_matrix") [(.name "basis_idx"), (.name "basis_idx")])),
      .aug (.name "shared_bits") .bxor (.name "bit")
    ]
    [],
  .aug (.name "basis_idx") .add (.nat 1)]

theorem smc_body (rt : C18Rt R) (sh idx : Nat) (rv bv : C18Val R)
    (hrv : rv = .nat 1 ∨ ∃ r, rv = .coef r) :
    c18ExecList rt smcBody (smcEnv sh idx rv bv) =
      .normal (if sh &&& (1 <<< idx) ≠ 0
        then smcEnv (sh ^^^ (1 <<< idx)) (idx + 1) (.coef (c18ValR rv * rt.Γ.g idx))
          (.nat (1 <<< idx))
        else smcEnv sh (idx + 1) rv (.nat (1 <<< idx))) := by
  by_cases hb : sh &&& (1 <<< idx) = 0
  · rcases hrv with rfl | ⟨r, rfl⟩ <;> c18sym [smcBody, smcEnv, hb]
  · have hb' : (sh &&& 1 <<< idx != 0) = true := by simp [hb]
    rcases hrv with rfl | ⟨r, rfl⟩ <;> c18sym [smcBody, smcEnv, hb, hb', c18ValR]

theorem smc_loop (rt : C18Rt R) : ∀ (f t idx : Nat) (rv bv : C18Val R),
    t < 2 ^ f → (rv = .nat 1 ∨ ∃ r, rv = .coef r) → ∀ k, f < k →
    ∃ env', c18While (c18CondOf rt (.name "shared_bits")) (c18ExecList rt smcBody) k
        (smcEnv (t <<< idx) idx rv bv) = .normal env' ∧
      c18Get "result" env' = some (if t = 0 then rv
        else .coef (smcLoop rt.Γ.g f (t <<< idx) idx (c18ValR rv))) := by
  intro f
  induction f with
  | zero =>
    intro t idx rv bv ht _ k hk
    have : t = 0 := by simpa using ht
    subst this
    obtain ⟨k, rfl⟩ : ∃ k', k = k' + 1 := ⟨k - 1, by omega⟩
    refine ⟨smcEnv 0 idx rv bv, ?_, by simp [smcEnv, c18Get]⟩
    rw [c18While_exit (env1 := smcEnv 0 idx rv bv) (by c18sym [smcEnv])]
  | succ n ih =>
    intro t idx rv bv ht hrv k hk
    obtain ⟨k, rfl⟩ : ∃ k', k = k' + 1 := ⟨k - 1, by omega⟩
    by_cases h0 : t = 0
    · subst h0
      refine ⟨smcEnv 0 idx rv bv, ?_, by simp [smcEnv, c18Get]⟩
      rw [c18While_exit (env1 := smcEnv 0 idx rv bv) (by c18sym [smcEnv])]
    · have hne : t <<< idx ≠ 0 := by rw [Ne, Nat.shiftLeft_eq_zero_iff]; exact h0
      have hand : t <<< idx &&& 1 <<< idx = (t % 2) <<< idx := by
        rw [← Nat.shiftLeft_and_distrib, Nat.and_one_is_mod]
      have hlt : t / 2 < 2 ^ n := by rw [Nat.pow_succ] at ht; omega
      have hstep := smc_body rt (t <<< idx) idx rv bv hrv
      rw [c18While_iter (env1 := smcEnv (t <<< idx) idx rv bv) (by c18sym [smcEnv, hne]) hstep]
      simp only [h0, if_false]
      rw [smcLoop]
      simp only [hne, if_false]
      rcases Nat.mod_two_eq_zero_or_one t with h2 | h2
      · have hsh : t <<< idx = (t / 2) <<< (idx + 1) := by
          rw [Nat.shiftLeft_succ_inside]; congr 1; omega
        have hz : (t <<< idx &&& 1 <<< idx) = 0 := by rw [hand, h2]; simp
        have ht2 : t / 2 ≠ 0 := by omega
        simp only [hz, ne_eq, not_true_eq_false, if_false]
        rw [hsh]
        obtain ⟨env', h1, h2'⟩ := ih (t / 2) (idx + 1) rv (.nat (1 <<< idx)) hlt hrv k (by omega)
        exact ⟨env', h1, by simpa [ht2] using h2'⟩
      · have hx : t ^^^ 1 = 2 * (t / 2) := by
          rw [eq_iff_mod2_div2, xor_mod2, xor_div2]
          constructor
          · omega
          · simp
        have hsh : t <<< idx ^^^ 1 <<< idx = (t / 2) <<< (idx + 1) := by
          rw [← Nat.shiftLeft_xor_distrib, hx, Nat.shiftLeft_succ_inside]
        have hz : (t <<< idx &&& 1 <<< idx) ≠ 0 := by
          rw [hand, h2, Ne, Nat.shiftLeft_eq_zero_iff]; omega
        simp only [hz, ne_eq, not_false_eq_true, if_true]
        rw [hsh]
        obtain ⟨env', h1, h2'⟩ := ih (t / 2) (idx + 1) (.coef (c18ValR rv * rt.Γ.g idx))
          (.nat (1 <<< idx)) hlt (Or.inr ⟨_, rfl⟩) k (by omega)
        refine ⟨env', h1, ?_⟩
        rw [h2']
        by_cases ht2 : t / 2 = 0
        · simp [ht2, c18ValR]
          cases n <;> simp [smcLoop]
        · simp [ht2, c18ValR]

/-- the value `_shared_metric_coeff` returns: the int `1` for the empty bitmap, a coefficient
otherwise -/
def c18SmcVal (g : Nat → R) (sh : Nat) : C18Val R :=
  if sh = 0 then .nat 1 else .coef (sharedMetricCoeff g sh)

theorem c18ValR_smcVal (g : Nat → R) (sh : Nat) : c18ValR (c18SmcVal g sh) = sharedMetricCoeff g sh := by
  unfold c18SmcVal
  by_cases h : sh = 0
  · subst h; simp [c18ValR, sharedMetricCoeff, smcLoop]
  · simp [h, c18ValR]

/-- **`_shared_metric_coeff` of the table is `sharedMetricCoeff`** -/
theorem c18_smc (Γ : C18Ctx R) (fuel : Nat) (callee : C18Callee R) (sh : Nat) (h : sh < fuel)
    (h2 : 2 ≤ fuel) :
    c18RunFn c18ExpectedModule Γ fuel callee c18X__shared_metric_coeff [.nat sh, .space] []
      = .ok (c18SmcVal Γ.g sh) := by
  have hf : sh.log2 + 1 < fuel := by
    by_cases h0 : sh = 0
    · subst h0; simp; omega
    · have := Nat.log2_lt h0 |>.mpr (Nat.lt_two_pow_self)
      omega
  obtain ⟨env', h1, h3⟩ := smc_loop (c18Rt Γ fuel callee) (sh.log2 + 1) sh 0 (.nat 1) .unbound
    Nat.lt_log2_self (Or.inl rfl) fuel hf
  simp only [Nat.shiftLeft_zero, smcEnv] at h1 h3
  simp only [c18RunFn, c18X__shared_metric_coeff, c18BindArgs, List.nil_append, List.cons_append,
    List.map_cons, List.map_nil]
  c18sym
  rw [show c18ExecList (c18Rt Γ fuel callee) smcBody = c18ExecList (c18Rt Γ fuel callee) smcBody
    from rfl] at h1
  simp only [smcBody] at h1
  rw [h1]
  c18sym [h3, c18SmcVal, sharedMetricCoeff, c18ValR]
  by_cases h0 : sh = 0 <;> simp [h0]

/-- what a body that calls `_shared_metric_coeff` needs of its callee -/
def C18HasSmc (Γ : C18Ctx R) (fuel : Nat) (callee : C18Callee R) : Prop :=
  ∀ sh, sh < fuel →
    callee "_shared_metric_coeff" [.nat sh, .space] [] = .ok (c18SmcVal Γ.g sh)

/-! ## the blade-product weights -/

section Weights
variable (Γ : C18Ctx R) (fuel : Nat) (callee : C18Callee R)

/-- `_OuterProduct.generic_blade_product_weight` (also bound to `orthogonal_…` by the class body) -/
theorem c18_wOuter (a b : Nat) :
    c18RunFn c18ExpectedModule Γ fuel callee c18X__OuterProduct_generic_blade_product_weight
      [.nat a, .nat b, .space] [] = .ok (.nat (if a &&& b ≠ 0 then 0 else 1)) := by
  simp only [c18RunFn, c18X__OuterProduct_generic_blade_product_weight, c18BindArgs,
    List.nil_append, List.cons_append, List.map_cons, List.map_nil]
  c18sym

theorem c18_wGeometric (hs : C18HasSmc Γ fuel callee) (a b : Nat) (ha : a < fuel) :
    c18RunFn c18ExpectedModule Γ fuel callee c18X__GeometricProduct_orthogonal_blade_product_weight
      [.nat a, .nat b, .space] []
      = .ok (if a &&& b ≠ 0 then c18SmcVal Γ.g (a &&& b) else .nat 1) := by
  have hlt : a &&& b < fuel := Nat.lt_of_le_of_lt Nat.and_le_left ha
  simp only [c18RunFn, c18X__GeometricProduct_orthogonal_blade_product_weight, c18BindArgs,
    List.nil_append, List.cons_append, List.map_cons, List.map_nil]
  by_cases h : a &&& b = 0
  · c18sym [h]
  · have h' : (a &&& b != 0) = true := by simp [h]
    c18sym [h, h', hs _ hlt]

theorem c18_wInner (hs : C18HasSmc Γ fuel callee) (a b : Nat) (ha : a < fuel) :
    c18RunFn c18ExpectedModule Γ fuel callee c18X__InnerProduct_orthogonal_blade_product_weight
      [.nat a, .nat b, .space] []
      = .ok (if a &&& b = a ∨ a &&& b = b then c18SmcVal Γ.g (a &&& b) else .nat 0) := by
  have hlt : a &&& b < fuel := Nat.lt_of_le_of_lt Nat.and_le_left ha
  simp only [c18RunFn, c18X__InnerProduct_orthogonal_blade_product_weight, c18BindArgs,
    List.nil_append, List.cons_append, List.map_cons, List.map_nil]
  by_cases h1 : a &&& b = a
  · have h1' : (a &&& b == a) = true := by simp [h1]
    c18sym [h1', hs _ hlt]
    simp [h1]
  · have h1' : (a &&& b == a) = false := by simp [h1]
    by_cases h2 : a &&& b = b
    · have h2' : (a &&& b == b) = true := by simp [h2]
      c18sym [h1', h2', hs _ hlt]
      simp [h2]
    · have h2' : (a &&& b == b) = false := by simp [h2]
      c18sym [h1', h2', h1, h2]

theorem c18_wLeft (hs : C18HasSmc Γ fuel callee) (a b : Nat) (ha : a < fuel) :
    c18RunFn c18ExpectedModule Γ fuel callee
      c18X__LeftContractionProduct_orthogonal_blade_product_weight [.nat a, .nat b, .space] []
      = .ok (if a &&& b = a then c18SmcVal Γ.g (a &&& b) else .nat 0) := by
  have hlt : a &&& b < fuel := Nat.lt_of_le_of_lt Nat.and_le_left ha
  simp only [c18RunFn, c18X__LeftContractionProduct_orthogonal_blade_product_weight, c18BindArgs,
    List.nil_append, List.cons_append, List.map_cons, List.map_nil]
  by_cases h1 : a &&& b = a
  · have h1' : (a &&& b == a) = true := by simp [h1]
    c18sym [h1', hs _ hlt]
    simp [h1]
  · have h1' : (a &&& b == a) = false := by simp [h1]
    c18sym [h1', h1]

theorem c18_wRight (hs : C18HasSmc Γ fuel callee) (a b : Nat) (ha : a < fuel) :
    c18RunFn c18ExpectedModule Γ fuel callee
      c18X__RightContractionProduct_orthogonal_blade_product_weight [.nat a, .nat b, .space] []
      = .ok (if a &&& b = b then c18SmcVal Γ.g (a &&& b) else .nat 0) := by
  have hlt : a &&& b < fuel := Nat.lt_of_le_of_lt Nat.and_le_left ha
  simp only [c18RunFn, c18X__RightContractionProduct_orthogonal_blade_product_weight, c18BindArgs,
    List.nil_append, List.cons_append, List.map_cons, List.map_nil]
  by_cases h1 : a &&& b = b
  · have h1' : (a &&& b == b) = true := by simp [h1]
    c18sym [h1', hs _ hlt]
    simp [h1]
  · have h1' : (a &&& b == b) = false := by simp [h1]
    c18sym [h1', h1]

theorem c18_wScalar (hs : C18HasSmc Γ fuel callee) (a b : Nat) (ha : a < fuel) :
    c18RunFn c18ExpectedModule Γ fuel callee c18X__ScalarProduct_orthogonal_blade_product_weight
      [.nat a, .nat b, .space] []
      = .ok (if a = b then c18SmcVal Γ.g a else .nat 0) := by
  simp only [c18RunFn, c18X__ScalarProduct_orthogonal_blade_product_weight, c18BindArgs,
    List.nil_append, List.cons_append, List.map_cons, List.map_nil]
  by_cases h1 : a = b
  · have h1' : (a == b) = true := by simp [h1]
    c18sym [h1', hs _ ha]
    simp [h1]
  · have h1' : (a == b) = false := by simp [h1]
    c18sym [h1', h1]

/-- the five `generic_blade_product_weight`s of the products other than the outer one (spaces
with a non-diagonal metric) raise -/
theorem c18_wGeneric_raises (a b : Nat) :
    c18RunFn c18ExpectedModule Γ fuel callee c18X__GeometricProduct_generic_blade_product_weight
        [.nat a, .nat b, .space] [] = .raise "NotImplementedError" ∧
    c18RunFn c18ExpectedModule Γ fuel callee c18X__InnerProduct_generic_blade_product_weight
        [.nat a, .nat b, .space] [] = .raise "NotImplementedError" ∧
    c18RunFn c18ExpectedModule Γ fuel callee
        c18X__LeftContractionProduct_generic_blade_product_weight
        [.nat a, .nat b, .space] [] = .raise "NotImplementedError" ∧
    c18RunFn c18ExpectedModule Γ fuel callee
        c18X__RightContractionProduct_generic_blade_product_weight
        [.nat a, .nat b, .space] [] = .raise "NotImplementedError" ∧
    c18RunFn c18ExpectedModule Γ fuel callee c18X__ScalarProduct_generic_blade_product_weight
        [.nat a, .nat b, .space] [] = .raise "NotImplementedError" := by
  refine ⟨?_, ?_, ?_, ?_, ?_⟩ <;>
    simp [c18RunFn, c18X__GeometricProduct_generic_blade_product_weight,
      c18X__InnerProduct_generic_blade_product_weight,
      c18X__LeftContractionProduct_generic_blade_product_weight,
      c18X__RightContractionProduct_generic_blade_product_weight,
      c18X__ScalarProduct_generic_blade_product_weight, c18BindArgs, c18ExecList_cons,
      c18Exec_raise]

/-! ### the values are the model's weights -/

variable (g : Nat → R)

theorem c18ValR_wOuter (a b : Nat) :
    c18ValR (.nat (if a &&& b ≠ 0 then 0 else 1) : C18Val R) = wOuter g a b := by
  unfold wOuter; by_cases h : a &&& b = 0 <;> simp [h, c18ValR]

theorem c18ValR_wGeometric (a b : Nat) :
    c18ValR (if a &&& b ≠ 0 then c18SmcVal g (a &&& b) else .nat 1) = wGeometric g a b := by
  unfold wGeometric; by_cases h : a &&& b = 0 <;> simp [h, c18ValR_smcVal] <;> rfl

theorem c18ValR_wInner (a b : Nat) :
    c18ValR (if a &&& b = a ∨ a &&& b = b then c18SmcVal g (a &&& b) else .nat 0)
      = wInner g a b := by
  unfold wInner; by_cases h : a &&& b = a ∨ a &&& b = b <;> simp [h, c18ValR_smcVal] <;> rfl

theorem c18ValR_wLeft (a b : Nat) :
    c18ValR (if a &&& b = a then c18SmcVal g (a &&& b) else .nat 0)
      = wLeftContraction g a b := by
  unfold wLeftContraction; by_cases h : a &&& b = a <;> simp [h, c18ValR_smcVal] <;> rfl

theorem c18ValR_wRight (a b : Nat) :
    c18ValR (if a &&& b = b then c18SmcVal g (a &&& b) else .nat 0)
      = wRightContraction g a b := by
  unfold wRightContraction; by_cases h : a &&& b = b <;> simp [h, c18ValR_smcVal] <;> rfl

theorem c18ValR_wScalar (a b : Nat) :
    c18ValR (if a = b then c18SmcVal g a else .nat 0) = wScalar g a b := by
  unfold wScalar; by_cases h : a = b <;> simp [h, c18ValR_smcVal] <;> rfl

end Weights

end
end PV.GA.C18T
