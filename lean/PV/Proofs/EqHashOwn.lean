import PV.Proofs.EqHash
import PV.Model.EqHashOwn
/-
  C01 — lemmas about `==` / `hash` with the hand-written methods of the legacy number-like classes
  inside (`eqF`, `ownEq`, `hashX`, lean/PV/Model/EqHashOwn.lean).

  1. On objects without an instance of such a class the extended functions ARE the generated ones
     (`hashX_free`, `eqF_free`, `ownEq_free`): everything proved about `eqGen` / `hashGen` carries
     over, and the fields of a `Rational` / `Polynomial` that are ordinary trees compare
     structurally.
  2. One level of `Rational` / `Polynomial` on top of ordinary fields: what `==` answers
     (`polyEq_spec`, `ratEq_spec`, `ratEq_plain`, `ratEq_num`, …).
-/
namespace PV.EqHash
open PV PV.Pickle

/-! ### small facts -/

theorem resAll_ok (bs : List Bool) : resAll (bs.map Res.ok) = .ok (bs.all id) := by
  induction bs with
  | nil => rfl
  | cons b bs ih => cases b <;> simp [resAll, Res.and, ih]

theorem pick_map {α β : Type} (g : α → β) (names : List String) (vals : List α) (sel : List String) :
    pick names (vals.map g) sel = (pick names vals sel).map g := by
  have hl : ∀ n, (names.zip (vals.map g)).lookup n = ((names.zip vals).lookup n).map g := by
    intro n
    induction names generalizing vals with
    | nil => simp
    | cons m ms ih =>
      cases vals with
      | nil => simp
      | cons v vs =>
        simp only [List.map_cons, List.zip_cons_cons, List.lookup_cons]
        cases n == m <;> simp [ih]
  simp only [pick, hl, List.map_filterMap]

theorem eqGenL_eq_zip (t : ClassTable) (P : HashParams) : ∀ (as bs : List Obj),
    eqGenL t P as bs = (as.zip bs).map fun p => eqGen t P p.1 p.2
  | [], _ => by simp [eqGenL]
  | _ :: _, [] => by simp [eqGenL]
  | a :: as, b :: bs => by simp [eqGenL, eqGenL_eq_zip t P as bs]

theorem zip_map_ok (f : Obj → Obj → Res) (g : Obj → Obj → Bool) : ∀ (as bs : List Obj),
    (∀ a ∈ as, ∀ b ∈ bs, f a b = .ok (g a b)) →
    (as.zip bs).map (fun p => f p.1 p.2) = ((as.zip bs).map fun p => g p.1 p.2).map Res.ok
  | [], _, _ => by simp
  | _ :: _, [], _ => by simp
  | a :: as, b :: bs, h => by
    simp only [List.zip_cons_cons, List.map_cons, h a List.mem_cons_self b List.mem_cons_self,
      zip_map_ok f g as bs (fun a' ha' b' hb' =>
        h a' (List.mem_cons_of_mem _ ha') b' (List.mem_cons_of_mem _ hb'))]

/-- CPython's tuple `==` over pointwise-decided elements is "same length and all equal" -/
theorem tupleEqWith_ok (f : Obj → Obj → Res) (g : Obj → Obj → Bool) : ∀ (as bs : List Obj),
    (∀ a ∈ as, ∀ b ∈ bs, f a b = .ok (g a b)) →
    tupleEqWith f as bs = .ok (as.length == bs.length && ((as.zip bs).map fun p => g p.1 p.2).all id)
  | [], [], _ => by simp [tupleEqWith]
  | [], _ :: _, _ => by simp [tupleEqWith]
  | _ :: _, [], _ => by simp [tupleEqWith]
  | a :: as, b :: bs, h => by
    have h1 := h a List.mem_cons_self b List.mem_cons_self
    have h2 := tupleEqWith_ok f g as bs (fun a' ha' b' hb' =>
      h a' (List.mem_cons_of_mem _ ha') b' (List.mem_cons_of_mem _ hb'))
    simp only [tupleEqWith, h1, h2, List.length_cons, List.zip_cons_cons, List.map_cons,
      List.all_cons, id]
    cases g a b <;> simp

theorem kwEqWith_ok (f : Obj → Obj → Res) (t : ClassTable) (P : HashParams) :
    ∀ (ns : List String) (vs : List Obj) (ms : List String) (ws : List Obj),
    (∀ v ∈ vs, ∀ w ∈ ws, f v w = .ok (eqGen t P v w)) →
    kwEqWith f ns vs ms ws = .ok (eqGenKw t P ns vs ms ws)
  | [], _, _, _, _ => by simp [kwEqWith, eqGenKw]
  | _ :: _, [], _, _, _ => by simp [kwEqWith, eqGenKw]
  | n :: ns, v :: vs, ms, ws, h => by
    have h2 := kwEqWith_ok f t P ns vs ms ws (fun v' hv' w' hw' =>
      h v' (List.mem_cons_of_mem _ hv') w' hw')
    simp only [kwEqWith, eqGenKw, h2]
    cases hl : assocLookupO n ms ws with
    | none => rfl
    | some w =>
      simp only [h v List.mem_cons_self w (lookupO_mem_vals hl)]
      cases eqGen t P v w <;> simp

theorem objDepth_le_depthL : ∀ {xs : List Obj} {x : Obj}, x ∈ xs → objDepth x ≤ objDepthL xs
  | y :: ys, x, h => by
    simp only [objDepthL]
    rcases List.mem_cons.mp h with rfl | h'
    · exact Nat.le_max_left _ _
    · exact Nat.le_trans (objDepth_le_depthL h') (Nat.le_max_right _ _)

theorem ownFreeL_iff {X : OwnCtx} : ∀ {xs : List Obj},
    ownFreeL X xs = true ↔ ∀ x ∈ xs, ownFree X x = true
  | [] => by simp [ownFreeL]
  | y :: ys => by
    simp only [ownFreeL, Bool.and_eq_true, List.forall_mem_cons, ownFreeL_iff (xs := ys)]

/-! ### 1. without hand-written classes inside: the generated methods -/

mutual
theorem hashX_free (X : OwnCtx) : ∀ o : Obj, ownFree X o = true → hashX X o = hashGen X.tbl X.P o
  | .atom _, _ => rfl
  | .tuple xs, h => by
      simp only [ownFree] at h
      simp only [hashX, hashGen, hashXL_free X xs h]
  | .list xs, h => by
      simp only [ownFree] at h
      simp only [hashX, hashGen, hashXL_free X xs h]
  | .dict _ vs, h => by
      simp only [ownFree] at h
      simp only [hashX, hashGen, hashXL_free X vs h]
  | .inst c k fs v, h => by
      simp only [ownFree, Bool.and_eq_true, Option.isNone_iff_eq_none] at h
      simp only [hashX, hashGen, hashXL_free X fs h.2, h.1]
      cases X.tbl.template? c <;> rfl
theorem hashXL_free (X : OwnCtx) : ∀ xs : List Obj, ownFreeL X xs = true →
    hashXL X xs = hashGenL X.tbl X.P xs
  | [], _ => rfl
  | x :: xs, h => by
      simp only [ownFreeL, Bool.and_eq_true] at h
      simp only [hashXL, hashGenL, hashX_free X x h.1, hashXL_free X xs h.2]
end

/-- the Boolean skeletons of the three instance paths, written with early returns as in the code -/
theorem inst_paths (sameClass sameHash allArgs isLegacy : Bool) :
    (if !(if isLegacy then true else sameClass) then Res.ok false
     else if !sameHash then .ok false else if !sameClass then .ok false else .ok allArgs)
      = .ok (if isLegacy then sameHash && (sameClass && allArgs)
             else sameClass && sameHash && (sameClass && allArgs)) := by
  cases sameClass <;> cases sameHash <;> cases allArgs <;> cases isLegacy <;> rfl

/-- an instance of a class with generated / `Expression` methods is never `==` to an instance of
another class (table satisfying `Ok`: every generated `__eq__` tests the class) -/
theorem methEq_diffclass (X : OwnCtx) (ok : X.tbl.Ok = true) (f : Obj → Obj → Res)
    (c : String) (k : Kind) (fs : List Obj) (v : Option Nat) (c' : String) (k' : Kind)
    (fs' : List Obj) (v' : Option Nat) (hown : X.own? c = none) (hne : (c == c') = false) :
    methEq X f (.inst c k fs v) (.inst c' k' fs' v') = .ok false := by
  simp only [methEq, hown, hne, Bool.false_and]
  cases ht : X.tbl.template? c with
  | none => simp
  | some p =>
    obtain ⟨tpl, lp⟩ := p
    simp only []
    by_cases hleg : (tpl.kind == ClassKind.legacy) = true
    · simp only [hleg, Bool.true_or, if_true]
      split <;> simp
    · simp only [Bool.not_eq_true] at hleg
      cases lp with
      | true => simp [hleg]
      | false =>
        obtain ⟨_, _, hcc, _, _⟩ := okDataclass_spec (template_dataclass ok ht).2
        simp [hleg, hcc]

theorem properSub_ne {X : OwnCtx} {c' c : String} (h : X.properSub c' c = true) :
    (c == c') = false := by
  simp only [OwnCtx.properSub, Bool.and_eq_true, bne_iff_ne, ne_eq] at h
  simp only [beq_eq_false_iff_ne, ne_eq]
  exact fun e => h.1 e.symm

/-- **conservativity.**  On objects that contain no instance of a class with a hand-written
`__eq__`, Python's `==` as modelled here (dispatch order, reflected calls, tuple and mapping
comparison, early returns) answers what the table-driven generated method answers, for every table
satisfying `Ok` and every amount of fuel above the depth of the left operand. -/
theorem eqF_free (X : OwnCtx) (ok : X.tbl.Ok = true) : ∀ (fuel : Nat) (a b : Obj),
    ownFree X a = true → ownFree X b = true → objDepth a < fuel →
    eqF X fuel a b = .ok (eqGen X.tbl X.P a b) := by
  intro fuel
  induction fuel with
  | zero => intro a b _ _ h; exact absurd h (Nat.not_lt_zero _)
  | succ fuel ih =>
    intro a b fa fb hd
    have ihL : ∀ (xs ys : List Obj), ownFreeL X xs = true → ownFreeL X ys = true →
        objDepthL xs < fuel → ∀ x ∈ xs, ∀ y ∈ ys, eqF X fuel x y = .ok (eqGen X.tbl X.P x y) := by
      intro xs ys fx fy hx x hxm y hym
      exact ih x y (ownFreeL_iff.mp fx x hxm) (ownFreeL_iff.mp fy y hym)
        (Nat.lt_of_le_of_lt (objDepth_le_depthL hxm) hx)
    cases a <;> cases b <;> simp only [ownFree, Bool.and_eq_true, Option.isNone_iff_eq_none] at fa fb <;>
      simp only [objDepth, Nat.add_lt_add_iff_right] at hd
    case atom.atom c d => simp only [eqF, eqGen]
    case tuple.tuple xs ys =>
      simp only [eqF, eqGen]
      rw [tupleEqWith_ok _ (eqGen X.tbl X.P) xs ys (ihL xs ys fa fb hd), eqGenL_eq_zip]
    case list.list xs ys =>
      simp only [eqF, eqGen]
      rw [tupleEqWith_ok _ (eqGen X.tbl X.P) xs ys (ihL xs ys fa fb hd), eqGenL_eq_zip]
      by_cases hl : xs.length = ys.length <;> simp [hl]
    case dict.dict ks vs ms ws =>
      simp only [eqF, eqGen]
      rw [kwEqWith_ok _ X.tbl X.P ks vs ms ws (ihL vs ws fa fb hd)]
      by_cases hl : ks.length = ms.length <;> simp [hl]
    case inst.inst c k fs v c' k' fs' v' =>
      have hha : hashX X (.inst c k fs v) = hashGen X.tbl X.P (.inst c k fs v) :=
        hashX_free X _ (by simp only [ownFree, fa.1, fa.2, Option.isNone_none, Bool.and_self])
      have hhb : hashX X (.inst c' k' fs' v') = hashGen X.tbl X.P (.inst c' k' fs' v') :=
        hashX_free X _ (by simp only [ownFree, fb.1, fb.2, Option.isNone_none, Bool.and_self])
      have hzip := zip_map_ok (eqF X fuel) (eqGen X.tbl X.P) fs fs' (ihL fs fs' fa.2 fb.2 hd)
      have htup := tupleEqWith_ok (eqF X fuel) (eqGen X.tbl X.P) fs fs' (ihL fs fs' fa.2 fb.2 hd)
      -- the forward call `a.__eq__(b)`
      have fwd : methEq X (eqF X fuel) (.inst c k fs v) (.inst c' k' fs' v')
          = .ok (eqGen X.tbl X.P (.inst c k fs v) (.inst c' k' fs' v')) := by
        simp only [methEq, fa.1, eqGen, hha, hhb, htup, hzip, pick_map, resAll_ok, ← eqGenL_eq_zip]
        cases ht : X.tbl.template? c with
        | none =>
          simp only []
          cases (c == c' && k == k') <;>
            cases (hashGen X.tbl X.P (.inst c k fs v) == hashGen X.tbl X.P (.inst c' k' fs' v')) <;>
            simp
        | some p =>
          obtain ⟨tpl, lp⟩ := p
          simp only []
          by_cases hleg : (tpl.kind == ClassKind.legacy) = true
          · have := inst_paths (c == c' && k == k')
              (hashGen X.tbl X.P (.inst c k fs v) == hashGen X.tbl X.P (.inst c' k' fs' v'))
              (fs.length == fs'.length && (eqGenL X.tbl X.P fs fs').all id) true
            simp only [if_true] at this
            simp only [hleg, Bool.true_or, if_true, this]
          · simp only [Bool.not_eq_true] at hleg
            cases lp with
            | true =>
              have := inst_paths (c == c' && k == k')
                (hashGen X.tbl X.P (.inst c k fs v) == hashGen X.tbl X.P (.inst c' k' fs' v'))
                (fs.length == fs'.length && (eqGenL X.tbl X.P fs fs').all id) false
              simp only [Bool.false_eq_true, if_false] at this
              simp only [hleg, Bool.false_or, if_true, Bool.false_eq_true, if_false, this]
            | false =>
              simp only [hleg, Bool.false_or, Bool.false_eq_true, if_false]
              cases (!tpl.eqClassChecked || (c == c' && k == k')) <;>
                cases (hashGen X.tbl X.P (.inst c k fs v) == hashGen X.tbl X.P (.inst c' k' fs' v')) <;>
                simp
      simp only [eqF]
      by_cases hps : X.properSub c' c = true
      · -- a proper subclass on the right is asked first: both directions answer False
        have hne := properSub_ne hps
        have hne' : (c' == c) = false := by
          simp only [beq_eq_false_iff_ne, ne_eq] at hne ⊢
          exact fun e => hne e.symm
        have h1 := methEq_diffclass X ok (eqF X fuel) c k fs v c' k' fs' v' fa.1 hne
        rw [fwd] at h1
        simp only [hps, if_true, methEq_diffclass X ok (eqF X fuel) c' k' fs' v' c k fs v fb.1 hne']
        exact h1.symm
      · simp only [hps, Bool.false_eq_true, if_false]
        exact fwd
    case inst.atom c k fs v d => simp only [eqF, methEq, fa.1, eqGen]
    case inst.tuple c k fs v ys => simp only [eqF, methEq, fa.1, eqGen]
    case inst.list c k fs v ys => simp only [eqF, methEq, fa.1, eqGen]
    case inst.dict c k fs v ms ws => simp only [eqF, methEq, fa.1, eqGen]
    case atom.inst d c k fs v => simp only [eqF, methEq, fb.1, eqGen]
    case tuple.inst ys c k fs v => simp only [eqF, methEq, fb.1, eqGen]
    case list.inst ys c k fs v => simp only [eqF, methEq, fb.1, eqGen]
    case dict.inst ms ws c k fs v => simp only [eqF, methEq, fb.1, eqGen]
    all_goals simp only [eqF, eqGen]

/-- `a == b` for two objects without hand-written classes inside -/
theorem ownEq_free (X : OwnCtx) (ok : X.tbl.Ok = true) (a b : Obj) (fa : ownFree X a = true)
    (fb : ownFree X b = true) : ownEq X a b = .ok (eqGen X.tbl X.P a b) :=
  eqF_free X ok _ a b fa fb (by omega)

/-! ### 2. one level of hand-written `__eq__` over ordinary attribute values -/

/-- pairwise `==` of two lists of attribute values -/
def pairsEq (as bs : List Obj) : Bool := (as.zip bs).all fun p => p.1.pyEq p.2

theorem pairsEq_symm : ∀ (as bs : List Obj), (∀ a ∈ as, a.wf = true) → (∀ b ∈ bs, b.wf = true) →
    pairsEq as bs = pairsEq bs as
  | [], [], _, _ => rfl
  | [], _ :: _, _, _ => rfl
  | _ :: _, [], _, _ => rfl
  | a :: as, b :: bs, wa, wb => by
    have ih := pairsEq_symm as bs (fun x hx => wa x (List.mem_cons_of_mem _ hx))
      (fun x hx => wb x (List.mem_cons_of_mem _ hx))
    simp only [pairsEq, List.zip_cons_cons, List.all_cons] at ih ⊢
    rw [ih]
    congr 1
    have ha := wa a List.mem_cons_self
    have hb := wb b List.mem_cons_self
    cases h1 : a.pyEq b with
    | true => exact (Obj.pyEq_symm a b ha hb h1).symm
    | false =>
      cases h2 : b.pyEq a with
      | true => rw [Obj.pyEq_symm b a hb ha h2] at h1; exact absurd h1 (by simp)
      | false => rfl

theorem lookup_mem_pair {α : Type} {n : String} {x : α} : ∀ {l : List (String × α)},
    l.lookup n = some x → (n, x) ∈ l
  | [], h => by simp at h
  | (m, y) :: l, h => by
    simp only [List.lookup_cons] at h
    cases hnm : n == m with
    | true =>
      simp only [hnm] at h
      simp only [beq_iff_eq] at hnm
      simp only [Option.some.injEq] at h
      subst h; subst hnm
      exact List.mem_cons_self
    | false =>
      simp only [hnm] at h
      exact List.mem_cons_of_mem _ (lookup_mem_pair h)

theorem pick_subset {α : Type} {names : List String} {vals : List α} {sel : List String} {x : α}
    (h : x ∈ pick names vals sel) : x ∈ vals := by
  simp only [pick, List.mem_filterMap] at h
  obtain ⟨n, _, hn⟩ := h
  exact (List.of_mem_zip (lookup_mem_pair hn)).2

/-- side conditions under which an attribute value is an ordinary, well-formed tree of the table -/
structure Plain (X : OwnCtx) (o : Obj) : Prop where
  free : ownFree X o = true
  wf : o.wf = true
  conf : conforms X.tbl o = true

/-- the chain `self.A == other.A and …` over ordinary attribute values -/
theorem cmpChain_spec (X : OwnCtx) (ok : X.tbl.Ok = true) (hP : X.P.Ok) (fuel : Nat)
    (as bs : List Obj) (pa : ∀ a ∈ as, Plain X a) (pb : ∀ b ∈ bs, Plain X b)
    (hd : objDepthL as < fuel) :
    resAll ((as.zip bs).map fun p => eqF X fuel p.1 p.2) = .ok (pairsEq as bs) := by
  rw [zip_map_ok (eqF X fuel) (fun a b => a.pyEq b) as bs, resAll_ok]
  · simp only [pairsEq, List.all_map]; rfl
  · intro a ha b hb
    rw [eqF_free X ok fuel a b (pa a ha).free (pb b hb).free
      (Nat.lt_of_le_of_lt (objDepth_le_depthL ha) hd),
      eqGen_eq_pyEq ok hP a b (pa a ha).wf (pb b hb).wf (pa a ha).conf (pb b hb).conf]

theorem methEq_own_inst (X : OwnCtx) (f : Obj → Obj → Res) {c : String} {o : C01OwnEqInfo}
    (hc : X.own? c = some o) (k : Kind) (fs : List Obj) (h : Option Nat) (c' : String) (k' : Kind)
    (fs' : List Obj) (h' : Option Nat)
    (hi : (if o.eqIsinstance then X.isInstance c' o.name else c' == c) = true) :
    methEq X f (.inst c k fs h) (.inst c' k' fs' h') =
      resAll (((pick o.initAttrs fs o.eqAttrs).zip (pick o.initAttrs fs' o.eqAttrs)).map
        fun p => f p.1 p.2) := by
  simp only [methEq, hc, hi]

theorem objDepthL_le_of_forall {D : Nat} : ∀ {l : List Obj}, (∀ x ∈ l, objDepth x ≤ D) →
    objDepthL l ≤ D
  | [], _ => Nat.zero_le _
  | x :: xs, h => by
    simp only [objDepthL]
    exact Nat.max_le.mpr ⟨h x List.mem_cons_self,
      objDepthL_le_of_forall fun y hy => h y (List.mem_cons_of_mem _ hy)⟩

theorem objDepthL_pick {names : List String} {vals : List Obj} {sel : List String} :
    objDepthL (pick names vals sel) ≤ objDepthL vals :=
  objDepthL_le_of_forall fun _ hx => objDepth_le_depthL (pick_subset hx)

/-! one step of `==` (the fuel stays a variable, so nothing unfolds further) -/

theorem eqF_inst_inst (X : OwnCtx) (fuel : Nat) (c : String) (k : Kind) (fs : List Obj)
    (h : Option Nat) (c' : String) (k' : Kind) (fs' : List Obj) (h' : Option Nat) :
    eqF X (fuel + 1) (.inst c k fs h) (.inst c' k' fs' h') =
      if X.properSub c' c then methEq X (eqF X fuel) (.inst c' k' fs' h') (.inst c k fs h)
      else methEq X (eqF X fuel) (.inst c k fs h) (.inst c' k' fs' h') := by
  simp only [eqF]

theorem eqF_inst_atom (X : OwnCtx) (fuel : Nat) (c : String) (k : Kind) (fs : List Obj)
    (h : Option Nat) (d : Const) :
    eqF X (fuel + 1) (.inst c k fs h) (.atom d) = methEq X (eqF X fuel) (.inst c k fs h) (.atom d) := by
  simp only [eqF]

theorem eqF_atom_inst (X : OwnCtx) (fuel : Nat) (c : String) (k : Kind) (fs : List Obj)
    (h : Option Nat) (d : Const) :
    eqF X (fuel + 1) (.atom d) (.inst c k fs h) = methEq X (eqF X fuel) (.inst c k fs h) (.atom d) := by
  simp only [eqF]

/-- the values of the attributes the hand-written `__eq__` compares -/
def eqVals (o : C01OwnEqInfo) (fs : List Obj) : List Obj := pick o.initAttrs fs o.eqAttrs

/-- **both operands instances of the defining class** (`isinstance`, so subclasses included; no
coercion happens): the answer is the pairwise `==` of the compared attributes — whatever the two
classes are, whatever the other init args hold, whichever operand CPython asks first. -/
theorem ownEq_inst_spec (X : OwnCtx) (ok : X.tbl.Ok = true) (hP : X.P.Ok) {o : C01OwnEqInfo}
    {c c' : String} (hc : X.own? c = some o) (hc' : X.own? c' = some o)
    (hin : o.eqIsinstance = true) (hi : X.isInstance c o.name = true)
    (hi' : X.isInstance c' o.name = true) (k k' : Kind) (fs fs' : List Obj) (h h' : Option Nat)
    (pf : ∀ x ∈ fs, Plain X x) (pf' : ∀ x ∈ fs', Plain X x) :
    ownEq X (.inst c k fs h) (.inst c' k' fs' h') = .ok (pairsEq (eqVals o fs) (eqVals o fs')) := by
  have pa : ∀ x ∈ eqVals o fs, Plain X x := fun x hx => pf x (pick_subset hx)
  have pb : ∀ x ∈ eqVals o fs', Plain X x := fun x hx => pf' x (pick_subset hx)
  have da : objDepthL (eqVals o fs) ≤ objDepthL fs := objDepthL_pick
  have db : objDepthL (eqVals o fs') ≤ objDepthL fs' := objDepthL_pick
  simp only [ownEq, objDepth]
  rw [eqF_inst_inst]
  by_cases hps : X.properSub c' c = true
  · simp only [hps, if_true]
    rw [methEq_own_inst X _ hc' k' fs' h' c k fs h (by simp [hin, hi])]
    rw [show pick o.initAttrs fs' o.eqAttrs = eqVals o fs' from rfl,
      show pick o.initAttrs fs o.eqAttrs = eqVals o fs from rfl,
      cmpChain_spec X ok hP _ _ _ pb pa (by omega)]
    rw [pairsEq_symm _ _ (fun a ha => (pb a ha).wf) (fun a ha => (pa a ha).wf)]
  · simp only [hps, Bool.false_eq_true, if_false]
    rw [methEq_own_inst X _ hc k fs h c' k' fs' h' (by simp [hin, hi'])]
    rw [show pick o.initAttrs fs' o.eqAttrs = eqVals o fs' from rfl,
      show pick o.initAttrs fs o.eqAttrs = eqVals o fs from rfl,
      cmpChain_spec X ok hP _ _ _ pa pb (by omega)]

/-! #### laws of `pairsEq` -/

theorem pairsEq_refl : ∀ (as : List Obj), (∀ a ∈ as, a.wf = true) → pairsEq as as = true
  | [], _ => rfl
  | a :: as, wa => by
    simp only [pairsEq, List.zip_cons_cons, List.all_cons, Bool.and_eq_true]
    exact ⟨Obj.pyEq_refl a (wa a List.mem_cons_self),
      pairsEq_refl as fun x hx => wa x (List.mem_cons_of_mem _ hx)⟩

theorem pairsEq_trans : ∀ (as bs cs : List Obj), as.length = bs.length → bs.length = cs.length →
    (∀ a ∈ as, a.wf = true) → (∀ b ∈ bs, b.wf = true) → (∀ c ∈ cs, c.wf = true) →
    pairsEq as bs = true → pairsEq bs cs = true → pairsEq as cs = true
  | [], _, _, _, _, _, _, _, _, _ => by simp [pairsEq]
  | _ :: _, [], _, h, _, _, _, _, _, _ => by simp at h
  | _ :: _, _ :: _, [], _, h, _, _, _, _, _ => by simp at h
  | a :: as, b :: bs, c :: cs, l1, l2, wa, wb, wc, h1, h2 => by
    simp only [pairsEq, List.zip_cons_cons, List.all_cons, Bool.and_eq_true] at h1 h2 ⊢
    exact ⟨Obj.pyEq_trans a b c (wa a List.mem_cons_self) (wb b List.mem_cons_self)
        (wc c List.mem_cons_self) h1.1 h2.1,
      pairsEq_trans as bs cs (by simpa using l1) (by simpa using l2)
        (fun x hx => wa x (List.mem_cons_of_mem _ hx)) (fun x hx => wb x (List.mem_cons_of_mem _ hx))
        (fun x hx => wc x (List.mem_cons_of_mem _ hx)) h1.2 h2.2⟩

/-- pairwise-equal attribute values hash pairwise equal -/
theorem pairsEq_hash {X : OwnCtx} (ok : X.tbl.Ok = true) (hP : X.P.Ok) : ∀ (as bs : List Obj),
    as.length = bs.length → (∀ a ∈ as, Plain X a) → (∀ b ∈ bs, Plain X b) → pairsEq as bs = true →
    hashXL X as = hashXL X bs
  | [], [], _, _, _, _ => rfl
  | [], _ :: _, h, _, _, _ => by simp at h
  | _ :: _, [], h, _, _, _ => by simp at h
  | a :: as, b :: bs, hl, pa, pb, h => by
    simp only [pairsEq, List.zip_cons_cons, List.all_cons, Bool.and_eq_true] at h
    have ha := pa a List.mem_cons_self
    have hb := pb b List.mem_cons_self
    simp only [hashXL]
    rw [pairsEq_hash ok hP as bs (by simpa using hl) (fun x hx => pa x (List.mem_cons_of_mem _ hx))
      (fun x hx => pb x (List.mem_cons_of_mem _ hx)) h.2]
    rw [hashX_free X a ha.free, hashX_free X b hb.free, hashGen_eq_hash ok X.P a ha.conf,
      hashGen_eq_hash ok X.P b hb.conf, Obj.eq_hash hP a b ha.wf hb.wf h.1]

/-! #### the rational shape -/

/-- what `C01OwnEqInfo.ok` says about a record of the rational shape: `__eq__`, `__hash__` and
`__getinitargs__` all speak about the same two attributes (numerator `an`, denominator `ad`), the
unit test of `__hash__` looks at the denominator and hashes the numerator -/
structure RatShape (o : C01OwnEqInfo) (an ad : String) : Prop where
  init : o.initAttrs = [an, ad]
  eq : o.eqAttrs = [an, ad]
  hash : o.hashAttrs = [an, ad]
  ne : an ≠ ad
  isinst : o.eqIsinstance = true
  coerces : o.eqCoerces = true
  tagged : o.hashTagged = true
  unitA : o.hashUnitAttr = some ad
  unitV : o.hashUnitValue = some an

theorem ratShape_of_ok {o : C01OwnEqInfo} (hok : o.ok = true) (hs : o.shape = .rational) :
    ∃ an ad, RatShape o an ad := by
  simp only [C01OwnEqInfo.ok, hs, Bool.and_eq_true, decide_eq_true_eq, beq_iff_eq, and_assoc] at hok
  obtain ⟨hnd, hin, htag, _, _, hh, _, hco, hie, hm⟩ := hok
  cases he : o.eqAttrs with
  | nil => simp [he] at hm
  | cons an r1 =>
    cases r1 with
    | nil => simp [he] at hm
    | cons ad r2 =>
      cases r2 with
      | cons _ _ => simp [he] at hm
      | nil =>
        cases hua : o.hashUnitAttr with
        | none => simp [he, hua] at hm
        | some ua =>
          cases huv : o.hashUnitValue with
          | none => simp [he, hua, huv] at hm
          | some uv =>
            simp only [he, hua, huv, Bool.and_eq_true, beq_iff_eq] at hm
            refine ⟨an, ad, ⟨by rw [hie, he], he, by rw [hh, he], ?_, hin, hco, htag, by rw [hua, hm.1],
              by rw [huv, hm.2]⟩⟩
            rw [hie, he] at hnd
            simp only [List.nodup_cons, List.mem_cons, List.not_mem_nil, or_false] at hnd
            exact hnd.1

theorem RatShape.eqVals {o : C01OwnEqInfo} {an ad : String} (rs : RatShape o an ad) (n d : Obj) :
    eqVals o [n, d] = [n, d] := by
  have h1 : (ad == an) = false := by
    simp only [beq_eq_false_iff_ne, ne_eq]; exact fun e => rs.ne e.symm
  simp [EqHash.eqVals, rs.init, rs.eq, pick, List.lookup, h1]

theorem plain_floatOne (X : OwnCtx) : Plain X floatOne := ⟨rfl, rfl, rfl⟩

theorem plain_atom (X : OwnCtx) (c : Const) (h : c.wf = true) : Plain X (.atom c) := ⟨rfl, h, rfl⟩

/-- the coercion branch of a hand-written `__eq__`: `other = C(other)`, then the comparison chain
against the init args the constructor stored -/
theorem methEq_own_coerce_inst (X : OwnCtx) (f : Obj → Obj → Res) {c : String} {o : C01OwnEqInfo}
    (hc : X.own? c = some o) (hco : o.eqCoerces = true) (k : Kind) (fs : List Obj) (h : Option Nat)
    (c' : String) (k' : Kind) (fs' : List Obj) (h' : Option Nat)
    (hni : (if o.eqIsinstance then X.isInstance c' o.name else c' == c) = false)
    (hnp : X.isPolyShape c' = false) :
    methEq X f (.inst c k fs h) (.inst c' k' fs' h') =
      resAll (((pick o.initAttrs fs o.eqAttrs).zip
        (pick o.initAttrs [.inst c' k' fs' h', floatOne] o.eqAttrs)).map fun p => f p.1 p.2) := by
  simp only [methEq, hc, hni, hco, coerceOther, hnp, Bool.false_eq_true, if_false, if_true]

theorem methEq_own_coerce_atom (X : OwnCtx) (f : Obj → Obj → Res) {c : String} {o : C01OwnEqInfo}
    (hc : X.own? c = some o) (hco : o.eqCoerces = true) (k : Kind) (fs : List Obj) (h : Option Nat)
    (d fl : Const) (hn : constIsNumeric d = true) (hf : constToFloat? d = some fl) :
    methEq X f (.inst c k fs h) (.atom d) =
      resAll (((pick o.initAttrs fs o.eqAttrs).zip
        (pick o.initAttrs [.atom fl, floatOne] o.eqAttrs)).map fun p => f p.1 p.2) := by
  simp only [methEq, hc, hco, coerceOther, hn, hf, if_true]

/-- a `Rational` against something that cannot be divided by one: the comparison RAISES -/
theorem methEq_own_coerce_raises (X : OwnCtx) (f : Obj → Obj → Res) {c : String} {o : C01OwnEqInfo}
    (hc : X.own? c = some o) (hco : o.eqCoerces = true) (k : Kind) (fs : List Obj) (h : Option Nat)
    (other : Obj)
    (hb : (∃ d, other = .atom d ∧ constIsNumeric d = false) ∨ (∃ xs, other = .tuple xs) ∨
          (∃ ks vs, other = .dict ks vs)) :
    methEq X f (.inst c k fs h) other = .raises := by
  rcases hb with ⟨d, rfl, hd⟩ | ⟨xs, rfl⟩ | ⟨ks, vs, rfl⟩
  · simp [methEq, hc, hco, coerceOther, hd]
  · simp [methEq, hc, hco, coerceOther]
  · simp [methEq, hc, hco, coerceOther]

/-- **`Rational(n, d) == e`** for an ordinary node `e` (not a Rational, not a subclass of the
Rational's class): `n == e and d == 1.0` — equal to its bare numerator when the denominator is
one, although the classes differ. -/
theorem ratEq_plain (X : OwnCtx) (ok : X.tbl.Ok = true) (hP : X.P.Ok) {o : C01OwnEqInfo} {c an ad : String}
    (hc : X.own? c = some o) (rs : RatShape o an ad) (k : Kind) (n d : Obj) (h : Option Nat)
    (c' : String) (k' : Kind) (fs' : List Obj) (h' : Option Nat)
    (he : X.own? c' = none) (hni : X.isInstance c' o.name = false) (hps : X.properSub c' c = false)
    (pn : Plain X n) (pd : Plain X d) (pe : Plain X (.inst c' k' fs' h')) :
    ownEq X (.inst c k [n, d] h) (.inst c' k' fs' h') =
      .ok (n.pyEq (.inst c' k' fs' h') && d.pyEq floatOne) := by
  simp only [ownEq, objDepth]
  rw [eqF_inst_inst]
  simp only [hps, Bool.false_eq_true, if_false]
  rw [methEq_own_coerce_inst X _ hc rs.coerces k [n, d] h c' k' fs' h' (by simp [rs.isinst, hni])
    (by simp [OwnCtx.isPolyShape, he])]
  rw [show pick o.initAttrs [n, d] o.eqAttrs = eqVals o [n, d] from rfl,
    show pick o.initAttrs [Obj.inst c' k' fs' h', floatOne] o.eqAttrs
      = eqVals o [Obj.inst c' k' fs' h', floatOne] from rfl, rs.eqVals, rs.eqVals]
  rw [cmpChain_spec X ok hP _ [n, d] [.inst c' k' fs' h', floatOne]
    (by intro a ha; simp only [List.mem_cons, List.not_mem_nil, or_false] at ha
        rcases ha with rfl | rfl <;> assumption)
    (by intro a ha; simp only [List.mem_cons, List.not_mem_nil, or_false] at ha
        rcases ha with rfl | rfl
        · exact pe
        · exact plain_floatOne X)
    (by simp only [objDepthL]; omega)]
  simp [pairsEq]

/-- … and the other way round the ordinary node answers for itself: never equal -/
theorem plainEq_rat (X : OwnCtx) (ok : X.tbl.Ok = true) {o : C01OwnEqInfo} {c : String}
    (hc : X.own? c = some o) (k : Kind) (fs : List Obj) (h : Option Nat)
    (c' : String) (k' : Kind) (fs' : List Obj) (h' : Option Nat)
    (he : X.own? c' = none) (hps : X.properSub c c' = false) :
    ownEq X (.inst c' k' fs' h') (.inst c k fs h) = .ok false := by
  have hne : (c' == c) = false := by
    simp only [beq_eq_false_iff_ne, ne_eq]
    rintro rfl
    rw [hc] at he
    exact absurd he (by simp)
  simp only [ownEq, objDepth]
  rw [eqF_inst_inst]
  simp only [hps, Bool.false_eq_true, if_false]
  exact methEq_diffclass X ok _ c' k' fs' h' c k fs h he hne

theorem constToFloat?_numVal {d fl : Const} (h : constToFloat? d = some fl) :
    fl.numVal? = d.numVal? := by
  cases d with
  | int n =>
    simp only [constToFloat?] at h
    split at h
    · simp only [Option.some.injEq] at h; subst h; simp [Const.numVal?]
    · simp at h
  | bool b =>
    simp only [constToFloat?, Option.some.injEq] at h
    subst h; cases b <;> simp [Const.numVal?]
  | flt r n m => simp only [constToFloat?, Option.some.injEq] at h; subst h; rfl
  | str _ => simp [constToFloat?] at h
  | none => simp [constToFloat?] at h

/-- the float a number is turned into compares like the number -/
theorem constToFloat?_pyEq {d fl : Const} (h : constToFloat? d = some fl) (hn : constIsNumeric d = true)
    (x : Obj) : x.pyEq (.atom fl) = x.pyEq (.atom d) := by
  have hv := constToFloat?_numVal h
  cases x <;> simp only [Obj.pyEq]
  case atom c =>
    unfold Const.pyEq
    rw [hv]
    cases hc : c.numVal? with
    | some p => cases hd : d.numVal? <;> simp
    | none =>
      cases hd : d.numVal? with
      | some q => simp
      | none =>
        cases d <;> simp [constIsNumeric] at hn <;> simp [Const.numVal?] at hd
        -- a float without a value (inf / nan spelled by its repr) is kept as it is
        all_goals (simp only [constToFloat?, Option.some.injEq] at h; subst h; rfl)

/-- **`Rational(n, d) == k`** for a number `k` — and `k == Rational(n, d)`, which CPython hands to
the same method: `n == k and d == 1` -/
theorem ratEq_num (X : OwnCtx) (ok : X.tbl.Ok = true) (hP : X.P.Ok) {o : C01OwnEqInfo} {c an ad : String}
    (hc : X.own? c = some o) (rs : RatShape o an ad) (k : Kind) (n d : Obj) (h : Option Nat)
    (kc fl : Const) (hn : constIsNumeric kc = true) (hf : constToFloat? kc = some fl)
    (hw : kc.wf = true) (pn : Plain X n) (pd : Plain X d) :
    ownEq X (.inst c k [n, d] h) (.atom kc) = .ok (n.pyEq (.atom kc) && d.pyEq floatOne) ∧
    ownEq X (.atom kc) (.inst c k [n, d] h) = .ok (n.pyEq (.atom kc) && d.pyEq floatOne) := by
  have hwf : fl.wf = true := by
    cases kc <;> simp [constToFloat?] at hf
    · obtain ⟨_, rfl⟩ := hf; rfl
    · subst hf; rfl
    · subst hf; exact hw
  have key : methEq X (eqF X (objDepthL [n, d] + 1)) (.inst c k [n, d] h) (.atom kc)
      = .ok (n.pyEq (.atom kc) && d.pyEq floatOne) := by
    rw [methEq_own_coerce_atom X _ hc rs.coerces k [n, d] h kc fl hn hf]
    rw [show pick o.initAttrs [n, d] o.eqAttrs = eqVals o [n, d] from rfl,
      show pick o.initAttrs [Obj.atom fl, floatOne] o.eqAttrs = eqVals o [Obj.atom fl, floatOne] from rfl,
      rs.eqVals, rs.eqVals]
    rw [cmpChain_spec X ok hP _ [n, d] [.atom fl, floatOne]
      (by intro a ha; simp only [List.mem_cons, List.not_mem_nil, or_false] at ha
          rcases ha with rfl | rfl <;> assumption)
      (by intro a ha; simp only [List.mem_cons, List.not_mem_nil, or_false] at ha
          rcases ha with rfl | rfl
          · exact plain_atom X fl hwf
          · exact plain_floatOne X)
      (by omega)]
    simp [pairsEq, constToFloat?_pyEq hf hn]
  constructor
  · simp only [ownEq, objDepth, Nat.add_zero]
    rw [eqF_inst_atom]; exact key
  · simp only [ownEq, objDepth, Nat.zero_add]
    rw [eqF_atom_inst]; exact key

/-! #### hashes -/

theorem hashXL_eq_map (X : OwnCtx) : ∀ xs : List Obj, hashXL X xs = xs.map (hashX X)
  | [] => rfl
  | x :: xs => by simp [hashXL, hashXL_eq_map X xs]

theorem hashX_own (X : OwnCtx) {c : String} {o : C01OwnEqInfo} (hc : X.own? c = some o) (k : Kind)
    (fs : List Obj) (h : Option Nat) :
    hashX X (.inst c k fs h) = ownHash X.P o c fs (hashXL X fs) := by
  simp only [hashX, hc]

theorem lookup_zip_isSome {α β : Type} (n : String) : ∀ (names : List String) (xs : List α)
    (ys : List β), xs.length = ys.length →
    ((names.zip xs).lookup n).isSome = ((names.zip ys).lookup n).isSome
  | [], _, _, _ => by simp
  | _ :: _, [], [], _ => by simp
  | _ :: _, [], _ :: _, h => by simp at h
  | _ :: _, _ :: _, [], h => by simp at h
  | m :: ms, x :: xs, y :: ys, h => by
    simp only [List.zip_cons_cons, List.lookup_cons]
    cases n == m
    · exact lookup_zip_isSome n ms xs ys (by simpa using h)
    · rfl

theorem pick_length {α β : Type} (names : List String) (xs : List α) (ys : List β)
    (h : xs.length = ys.length) : ∀ sel : List String,
    (pick names xs sel).length = (pick names ys sel).length
  | [] => rfl
  | s :: ss => by
    have h1 := lookup_zip_isSome s names xs ys h
    have ih := pick_length names xs ys h ss
    simp only [pick, List.filterMap_cons] at ih ⊢
    cases hx : (names.zip xs).lookup s <;> cases hy : (names.zip ys).lookup s <;>
      simp_all

/-- **instances of the same class with pairwise `==` compared attributes hash equal** when the
hash covers exactly the compared attributes (polynomial shape: no unit test) -/
theorem ownHash_eq_of_pairsEq (X : OwnCtx) (ok : X.tbl.Ok = true) (hP : X.P.Ok) {o : C01OwnEqInfo}
    {c : String} (hc : X.own? c = some o) (hu : o.hashUnitAttr = none) (hh : o.hashAttrs = o.eqAttrs)
    (k k' : Kind) (fs fs' : List Obj) (h h' : Option Nat) (hl : fs.length = fs'.length)
    (pf : ∀ x ∈ fs, Plain X x) (pf' : ∀ x ∈ fs', Plain X x)
    (he : pairsEq (eqVals o fs) (eqVals o fs') = true) :
    hashX X (.inst c k fs h) = hashX X (.inst c k' fs' h') := by
  rw [hashX_own X hc, hashX_own X hc]
  simp only [ownHash, hu, hh, hashXL_eq_map, pick_map]
  rw [← hashXL_eq_map, ← hashXL_eq_map]
  rw [pairsEq_hash ok hP (pick o.initAttrs fs o.eqAttrs) (pick o.initAttrs fs' o.eqAttrs)
    (pick_length _ _ _ hl _) (fun x hx => pf x (pick_subset hx)) (fun x hx => pf' x (pick_subset hx)) he]

/-- the hand-written `__hash__` of the rational shape on (numerator, NUMBER denominator) -/
theorem hashX_rat (X : OwnCtx) {o : C01OwnEqInfo} {c an ad : String} (hc : X.own? c = some o)
    (rs : RatShape o an ad) (k : Kind) (n : Obj) (dc : Const) (h : Option Nat) :
    hashX X (.inst c k [n, .atom dc] h) =
      if dc.pyEq (.int 1) then hashX X n
      else X.P.tuple "tuple" [X.P.str c, hashX X n, dc.hash X.P] := by
  have h1 : (ad == an) = false := by
    simp only [beq_eq_false_iff_ne, ne_eq]; exact fun e => rs.ne e.symm
  rw [hashX_own X hc]
  simp [ownHash, rs.init, rs.hash, rs.tagged, rs.unitA, rs.unitV, attrOf, pick, List.lookup, h1,
    hashXL, hashX]

theorem plain_hashX {X : OwnCtx} (ok : X.tbl.Ok = true) {a : Obj} (pa : Plain X a) :
    hashX X a = a.hash X.P := by
  rw [hashX_free X a pa.free, hashGen_eq_hash ok X.P a pa.conf]

theorem const_one_float : Const.pyEq (.flt "1.0" 1 1) (.int 1) = true := by decide

/-- a denominator `==` to the float one passes the unit test `self.Denominator == 1` -/
theorem den_unit_of_eq {dc : Const} (h : (Obj.atom dc).pyEq floatOne = true) :
    dc.pyEq (.int 1) = true :=
  Const.pyEq_trans dc _ _ (by simpa [Obj.pyEq, floatOne] using h) const_one_float

/-- two `==` denominators take the same branch of the unit test -/
theorem den_unit_congr {dc dc' : Const} (h : dc.pyEq dc' = true) :
    dc.pyEq (.int 1) = dc'.pyEq (.int 1) := by
  cases h1 : dc.pyEq (.int 1) with
  | true => exact (Const.pyEq_trans dc' dc _ (Const.pyEq_symm _ _ h) h1).symm
  | false =>
    cases h2 : dc'.pyEq (.int 1) with
    | false => rfl
    | true => rw [Const.pyEq_trans dc dc' _ h h2] at h1; exact absurd h1 (by simp)

/-- **equal Rationals of the same class hash equal** (number denominators) -/
theorem ratEq_hash (X : OwnCtx) (ok : X.tbl.Ok = true) (hP : X.P.Ok) {o : C01OwnEqInfo} {c an ad : String}
    (hc : X.own? c = some o) (rs : RatShape o an ad) (k k' : Kind) (n n' : Obj) (dc dc' : Const)
    (h h' : Option Nat) (pn : Plain X n) (pn' : Plain X n')
    (he : (n.pyEq n' && dc.pyEq dc') = true) :
    hashX X (.inst c k [n, .atom dc] h) = hashX X (.inst c k' [n', .atom dc'] h') := by
  simp only [Bool.and_eq_true] at he
  rw [hashX_rat X hc rs, hashX_rat X hc rs, den_unit_congr he.2, plain_hashX ok pn, plain_hashX ok pn',
    Obj.eq_hash hP n n' pn.wf pn'.wf he.1, Const.eq_hash hP dc dc' he.2]

/-- **a Rational that is `==` to an ordinary node or a number hashes like it** -/
theorem ratEq_other_hash (X : OwnCtx) (ok : X.tbl.Ok = true) (hP : X.P.Ok) {o : C01OwnEqInfo}
    {c an ad : String} (hc : X.own? c = some o) (rs : RatShape o an ad) (k : Kind) (n : Obj) (dc : Const)
    (h : Option Nat) (e : Obj) (pn : Plain X n) (pe : Plain X e)
    (he : (n.pyEq e && (Obj.atom dc).pyEq floatOne) = true) :
    hashX X (.inst c k [n, .atom dc] h) = hashX X e := by
  simp only [Bool.and_eq_true] at he
  rw [hashX_rat X hc rs, den_unit_of_eq he.2, if_pos rfl, plain_hashX ok pn, plain_hashX ok pe,
    Obj.eq_hash hP n e pn.wf pe.wf he.1]

/-! ### the fuel of `ownEq` is enough -/

theorem tupleEqWith_congr (f g : Obj → Obj → Res) : ∀ (as bs : List Obj),
    (∀ a ∈ as, ∀ b ∈ bs, f a b = g a b) → tupleEqWith f as bs = tupleEqWith g as bs
  | [], [], _ => rfl
  | [], _ :: _, _ => rfl
  | _ :: _, [], _ => rfl
  | a :: as, b :: bs, h => by
    simp only [tupleEqWith, h a List.mem_cons_self b List.mem_cons_self,
      tupleEqWith_congr f g as bs (fun a' ha' b' hb' =>
        h a' (List.mem_cons_of_mem _ ha') b' (List.mem_cons_of_mem _ hb'))]

theorem kwEqWith_congr (f g : Obj → Obj → Res) :
    ∀ (ns : List String) (vs : List Obj) (ms : List String) (ws : List Obj),
    (∀ v ∈ vs, ∀ w ∈ ws, f v w = g v w) → kwEqWith f ns vs ms ws = kwEqWith g ns vs ms ws
  | [], _, _, _, _ => by simp [kwEqWith]
  | _ :: _, [], _, _, _ => by simp [kwEqWith]
  | n :: ns, v :: vs, ms, ws, h => by
    have h2 := kwEqWith_congr f g ns vs ms ws (fun v' hv' w' hw' =>
      h v' (List.mem_cons_of_mem _ hv') w' hw')
    simp only [kwEqWith, h2]
    cases hl : assocLookupO n ms ws with
    | none => rfl
    | some w => simp only [h v List.mem_cons_self w (lookupO_mem_vals hl)]

theorem zipmap_congr (f g : Obj → Obj → Res) (as bs : List Obj)
    (h : ∀ a ∈ as, ∀ b ∈ bs, f a b = g a b) :
    (as.zip bs).map (fun p => f p.1 p.2) = (as.zip bs).map (fun p => g p.1 p.2) := by
  apply List.map_congr_left
  intro p hp
  exact h p.1 (List.of_mem_zip hp).1 p.2 (List.of_mem_zip hp).2

theorem coerceOther_depth (X : OwnCtx) (other : Obj) (L : List Obj)
    (h : coerceOther X other = .fields L) : ∀ y ∈ L, objDepth y ≤ objDepth other := by
  cases other with
  | atom d =>
    simp only [coerceOther] at h
    split at h
    · split at h
      · simp only [Coerced.fields.injEq] at h; subst h
        intro y hy
        simp only [List.mem_cons, List.not_mem_nil, or_false] at hy
        rcases hy with rfl | rfl <;> simp [objDepth, floatOne]
      · simp at h
    · simp at h
  | tuple xs => simp [coerceOther] at h
  | list xs => simp [coerceOther] at h
  | dict ks vs => simp [coerceOther] at h
  | inst c k fs v =>
    simp only [coerceOther] at h
    split at h
    · simp at h
    · simp only [Coerced.fields.injEq] at h; subst h
      intro y hy
      simp only [List.mem_cons, List.not_mem_nil, or_false] at hy
      rcases hy with rfl | rfl
      · exact Nat.le_refl _
      · simp [objDepth, floatOne]

/-- `type(self).__eq__(self, other)` only asks the nested `==` about (an init arg of `self`,
something no deeper than `other`) -/
theorem methEq_congr (X : OwnCtx) (f g : Obj → Obj → Res) (c : String) (k : Kind) (fs : List Obj)
    (h : Option Nat) (other : Obj)
    (hfg : ∀ x ∈ fs, ∀ y, objDepth y ≤ objDepth other → f x y = g x y) :
    methEq X f (.inst c k fs h) other = methEq X g (.inst c k fs h) other := by
  have hpick : ∀ (o : C01OwnEqInfo) (L : List Obj), (∀ y ∈ L, objDepth y ≤ objDepth other) →
      ((pick o.initAttrs fs o.eqAttrs).zip (pick o.initAttrs L o.eqAttrs)).map (fun p => f p.1 p.2)
      = ((pick o.initAttrs fs o.eqAttrs).zip (pick o.initAttrs L o.eqAttrs)).map (fun p => g p.1 p.2) :=
    fun o L hL => zipmap_congr f g _ _ fun a ha b hb =>
      hfg a (pick_subset ha) b (hL b (pick_subset hb))
  cases hown : X.own? c with
  | some o =>
    cases other with
    | atom d =>
      simp only [methEq, hown]
      cases hc : coerceOther X _ with
      | fields L => simp only [hpick o L (coerceOther_depth X _ L hc)]
      | raises => rfl
      | unmodelled => rfl
    | tuple xs =>
      simp only [methEq, hown]
      cases hc : coerceOther X _ with
      | fields L => simp only [hpick o L (coerceOther_depth X _ L hc)]
      | raises => rfl
      | unmodelled => rfl
    | list xs =>
      simp only [methEq, hown]
      cases hc : coerceOther X _ with
      | fields L => simp only [hpick o L (coerceOther_depth X _ L hc)]
      | raises => rfl
      | unmodelled => rfl
    | dict ks vs =>
      simp only [methEq, hown]
      cases hc : coerceOther X _ with
      | fields L => simp only [hpick o L (coerceOther_depth X _ L hc)]
      | raises => rfl
      | unmodelled => rfl
    | inst c' k' fs' h' =>
      have hin := hpick o fs' (fun y hy => Nat.le_of_lt (by
        simp only [objDepth]; exact Nat.lt_succ_of_le (objDepth_le_depthL hy)))
      simp only [methEq, hown]
      cases (if o.eqIsinstance then X.isInstance c' o.name else c' == c) with
      | true => simp only [hin]
      | false =>
        simp only []
        cases hc : coerceOther X _ with
        | fields L => simp only [hpick o L (coerceOther_depth X _ L hc)]
        | raises => rfl
        | unmodelled => rfl
  | none =>
    cases other with
    | inst c' k' fs' h' =>
      have hfl : ∀ a ∈ fs, ∀ b ∈ fs', f a b = g a b := fun a ha b hb =>
        hfg a ha b (Nat.le_of_lt (by
          simp only [objDepth]; exact Nat.lt_succ_of_le (objDepth_le_depthL hb)))
      simp only [methEq, hown, tupleEqWith_congr f g fs fs' hfl, zipmap_congr f g fs fs' hfl]
    | _ => simp only [methEq, hown]

/-- **the fuel of `ownEq` is enough**: with `objDepth a + objDepth b + 1` levels (or more) the
answer no longer depends on the fuel — `Res.unmodelled` never means "out of fuel". -/
theorem eqF_fuel (X : OwnCtx) : ∀ (n : Nat) (a b : Obj), objDepth a + objDepth b < n →
    ∀ m, eqF X (n + m) a b = eqF X n a b := by
  intro n
  induction n with
  | zero => intro a b h; exact absurd h (Nat.not_lt_zero _)
  | succ n ih =>
    intro a b hlt m
    have hfg : ∀ x y, objDepth x + objDepth y < n → eqF X (n + m) x y = eqF X n x y :=
      fun x y h => ih x y h m
    have hL : ∀ {xs : List Obj} {x : Obj}, x ∈ xs → objDepth x ≤ objDepthL xs :=
      fun h => objDepth_le_depthL h
    rw [show n + 1 + m = (n + m) + 1 by omega]
    cases a <;> cases b <;> simp only [objDepth] at hlt
    case atom.atom => simp only [eqF]
    case tuple.tuple xs ys =>
      simp only [eqF]
      exact tupleEqWith_congr _ _ xs ys fun x hx y hy => hfg x y (by
        have := hL hx; have := hL hy; omega)
    case list.list xs ys =>
      simp only [eqF]
      rw [tupleEqWith_congr _ _ xs ys fun x hx y hy => hfg x y (by
        have := hL hx; have := hL hy; omega)]
    case dict.dict ks vs ms ws =>
      simp only [eqF]
      rw [kwEqWith_congr _ _ ks vs ms ws fun x hx y hy => hfg x y (by
        have := hL hx; have := hL hy; omega)]
    case inst.inst c k fs v c' k' fs' v' =>
      simp only [eqF]
      rw [methEq_congr X (eqF X (n + m)) (eqF X n) c k fs v (.inst c' k' fs' v') (fun x hx y hy =>
          hfg x y (by have := hL hx; simp only [objDepth] at hy; omega)),
        methEq_congr X (eqF X (n + m)) (eqF X n) c' k' fs' v' (.inst c k fs v) (fun x hx y hy =>
          hfg x y (by have := hL hx; simp only [objDepth] at hy; omega))]
    case inst.atom c k fs v d =>
      simp only [eqF]
      exact methEq_congr X _ _ c k fs v _ (fun x hx y hy =>
          hfg x y (by have := hL hx; simp only [objDepth] at hy; omega))
    case inst.tuple c k fs v ys =>
      simp only [eqF]
      exact methEq_congr X _ _ c k fs v _ (fun x hx y hy =>
          hfg x y (by have := hL hx; simp only [objDepth] at hy; omega))
    case inst.list c k fs v ys =>
      simp only [eqF]
      exact methEq_congr X _ _ c k fs v _ (fun x hx y hy =>
          hfg x y (by have := hL hx; simp only [objDepth] at hy; omega))
    case inst.dict c k fs v ms ws =>
      simp only [eqF]
      exact methEq_congr X _ _ c k fs v _ (fun x hx y hy =>
          hfg x y (by have := hL hx; simp only [objDepth] at hy; omega))
    case atom.inst d c k fs v =>
      simp only [eqF]
      exact methEq_congr X _ _ c k fs v _ (fun x hx y hy =>
          hfg x y (by have := hL hx; simp only [objDepth] at hy; omega))
    case tuple.inst ys c k fs v =>
      simp only [eqF]
      exact methEq_congr X _ _ c k fs v _ (fun x hx y hy =>
          hfg x y (by have := hL hx; simp only [objDepth] at hy; omega))
    case list.inst ys c k fs v =>
      simp only [eqF]
      exact methEq_congr X _ _ c k fs v _ (fun x hx y hy =>
          hfg x y (by have := hL hx; simp only [objDepth] at hy; omega))
    case dict.inst ms ws c k fs v =>
      simp only [eqF]
      exact methEq_congr X _ _ c k fs v _ (fun x hx y hy =>
          hfg x y (by have := hL hx; simp only [objDepth] at hy; omega))
    all_goals simp only [eqF]

/-- `ownEq` is `eqF` with ANY larger amount of fuel -/
theorem ownEq_eq_eqF (X : OwnCtx) (a b : Obj) (fuel : Nat)
    (h : objDepth a + objDepth b < fuel) : eqF X fuel a b = ownEq X a b := by
  obtain ⟨m, rfl⟩ : ∃ m, fuel = objDepth a + objDepth b + 1 + m := ⟨fuel - (objDepth a + objDepth b + 1), by omega⟩
  exact eqF_fuel X _ a b (by omega) m

/-! ### 3. interpreter modes -/

theorem inMode_default (t : ClassTable) : t.inMode .debugFlag true = t := by
  simp only [ClassTable.inMode, C01FrozenSource.eval, Bool.and_true]
  exact List.map_id' t

theorem find?_inMode (t : ClassTable) (src : C01FrozenSource) (dbg : Bool) (c : String) :
    (t.inMode src dbg).find? c
      = (t.find? c).map fun i => { i with frozen := i.frozen && src.eval dbg } := by
  simp only [ClassTable.find?, ClassTable.inMode]
  induction t with
  | nil => rfl
  | cons i t ih =>
    simp only [List.map_cons, List.find?_cons]
    cases i.name == c <;> simp [ih]

/-- under `python -O` (`frozen=__debug__` evaluates to false) NO attribute of NO class is
protected -/
theorem frozenFor_optimized (t : ClassTable) (c f : String) :
    (t.inMode .debugFlag false).frozenFor c f = false := by
  simp only [ClassTable.frozenFor, find?_inMode, C01FrozenSource.eval, Bool.and_false]
  cases t.find? c with
  | none => rfl
  | some i =>
    simp only [Option.map_some]
    cases i.kind with
    | dataclass => rfl
    | legacy => rfl
    | sub =>
      simp only []
      cases t.find? i.base <;> simp

theorem fieldIndex_inMode (t : ClassTable) (src : C01FrozenSource) (dbg : Bool) (c f : String) :
    fieldIndex (t.inMode src dbg) c f = fieldIndex t c f := by
  simp only [fieldIndex, find?_inMode]
  cases t.find? c <;> rfl

/-- operations other than `setattr` / `delattr` never look at the class table -/
def Op1.isAttrOp : Op1 → Bool
  | .setattr .. => true
  | .delattr .. => true
  | _ => false

theorem step1_tbl_irrelevant (t₁ t₂ : ClassTable) (P : HashParams) (w : World1) (op : Op1)
    (h : op.isAttrOp = false) : step1 t₁ P w op = step1 t₂ P w op := by
  cases op <;> simp only [Op1.isAttrOp, Bool.true_eq_false] at h <;> rfl

theorem run1_tbl_irrelevant (t₁ t₂ : ClassTable) (P : HashParams) : ∀ (ops : List Op1) (w : World1),
    (∀ op ∈ ops, op.isAttrOp = false) → run1 t₁ P w ops = run1 t₂ P w ops
  | [], _, _ => rfl
  | op :: ops, w, h => by
    simp only [run1]
    rw [step1_tbl_irrelevant t₁ t₂ P w op (h op List.mem_cons_self),
      run1_tbl_irrelevant t₁ t₂ P ops _ (fun o ho => h o (List.mem_cons_of_mem _ ho))]

end PV.EqHash
