import PV.Model.Compile
import PV.Proofs.CompileBits
import PV.Proofs.OpsSound
import PV.Proofs.UnionPy
import PV.Proofs.Simple
/-
  C13 — helper lemmas: the parameterised stringifier is the C06 stringifier, insertion sort of
  strings, `foldBin` and the value of right-nested operator chains.
-/
namespace PV

/-! ### `strG` with the stringifier's own constant printer is `strE` -/

mutual
theorem strG_eq_strE (S : PrintPrec) : ∀ (e : Expr) (enc : Nat),
    strG S (constPieces S) false e enc = strE S e enc
  | .const c, enc => by simp only [strG, strE]
  | .var x, _ => by simp only [strG, strE]
  | .wildcard, _ => by simp only [strG, strE]
  | .call f as, _ => by
      simp only [strG, strE, strG_eq_strE S f, strGL_eq_strL S as]
  | .callKw f as ns vs, _ => by
      simp only [strG, strE, strG_eq_strE S f, strGL_eq_strL S as, strGL_eq_strL S vs]
  | .subscript a (.tuple cs), enc => by
      simp only [strG, strE, strG_eq_strE S a, strGL_eq_strL S cs]
  | .subscript a (.const c), enc => by
      rw [strG, strE, strG_eq_strE S a, strG_eq_strE S (.const c)]
      all_goals (intro _ h; cases h)
  | .subscript a (.var x), enc => by
      rw [strG, strE, strG_eq_strE S a, strG_eq_strE S (.var x)]
      all_goals (intro _ h; cases h)
  | .subscript a (.nary o cs), enc => by
      rw [strG, strE, strG_eq_strE S a, strG_eq_strE S (.nary o cs)]
      all_goals (intro _ h; cases h)
  | .subscript a (.bin o x y), enc => by
      rw [strG, strE, strG_eq_strE S a, strG_eq_strE S (.bin o x y)]
      all_goals (intro _ h; cases h)
  | .subscript a (.un o x), enc => by
      rw [strG, strE, strG_eq_strE S a, strG_eq_strE S (.un o x)]
      all_goals (intro _ h; cases h)
  | .subscript a (.cmp o x y), enc => by
      rw [strG, strE, strG_eq_strE S a, strG_eq_strE S (.cmp o x y)]
      all_goals (intro _ h; cases h)
  | .subscript a (.ite x y z), enc => by
      rw [strG, strE, strG_eq_strE S a, strG_eq_strE S (.ite x y z)]
      all_goals (intro _ h; cases h)
  | .subscript a (.call f as), enc => by
      rw [strG, strE, strG_eq_strE S a, strG_eq_strE S (.call f as)]
      all_goals (intro _ h; cases h)
  | .subscript a (.callKw f as ns vs), enc => by
      rw [strG, strE, strG_eq_strE S a, strG_eq_strE S (.callKw f as ns vs)]
      all_goals (intro _ h; cases h)
  | .subscript a (.subscript x y), enc => by
      rw [strG, strE, strG_eq_strE S a, strG_eq_strE S (.subscript x y)]
      all_goals (intro _ h; cases h)
  | .subscript a (.lookup x n), enc => by
      rw [strG, strE, strG_eq_strE S a, strG_eq_strE S (.lookup x n)]
      all_goals (intro _ h; cases h)
  | .subscript a (.cse x p s), enc => by
      rw [strG, strE, strG_eq_strE S a, strG_eq_strE S (.cse x p s)]
      all_goals (intro _ h; cases h)
  | .subscript a (.subst x vs xs), enc => by
      rw [strG, strE, strG_eq_strE S a, strG_eq_strE S (.subst x vs xs)]
      all_goals (intro _ h; cases h)
  | .subscript a (.deriv x vs), enc => by
      rw [strG, strE, strG_eq_strE S a, strG_eq_strE S (.deriv x vs)]
      all_goals (intro _ h; cases h)
  | .subscript a (.slice cs), enc => by
      rw [strG, strE, strG_eq_strE S a, strG_eq_strE S (.slice cs)]
      all_goals (intro _ h; cases h)
  | .subscript a .nan, enc => by
      rw [strG, strE, strG_eq_strE S a, strG_eq_strE S .nan]
      all_goals (intro _ h; cases h)
  | .subscript a .wildcard, enc => by
      rw [strG, strE, strG_eq_strE S a, strG_eq_strE S .wildcard]
      all_goals (intro _ h; cases h)
  | .subscript a (.dotWild n), enc => by
      rw [strG, strE, strG_eq_strE S a, strG_eq_strE S (.dotWild n)]
      all_goals (intro _ h; cases h)
  | .subscript a (.starWild n), enc => by
      rw [strG, strE, strG_eq_strE S a, strG_eq_strE S (.starWild n)]
      all_goals (intro _ h; cases h)
  | .subscript a .funcSym, enc => by
      rw [strG, strE, strG_eq_strE S a, strG_eq_strE S .funcSym]
      all_goals (intro _ h; cases h)
  | .subscript a (.list cs), enc => by
      rw [strG, strE, strG_eq_strE S a, strG_eq_strE S (.list cs)]
      all_goals (intro _ h; cases h)
  | .lookup a n, enc => by simp only [strG, strE, strG_eq_strE S a]
  | .nary .sum cs, enc => by simp only [strG, strE, strGL_eq_strL S cs]
  | .nary .prod cs, enc => by simp only [strG, strE, strGForceL_eq S false cs]
  | .bin .quot a b, enc => by
      simp only [strG, strE, strG_eq_strE S a, strG_eq_strE S b, forceWrapG, Bool.false_eq_true, if_false]
  | .bin .floordiv a b, enc => by
      simp only [strG, strE, strG_eq_strE S a, strG_eq_strE S b, forceWrapG, Bool.false_eq_true, if_false]
  | .bin .rem a b, enc => by
      simp only [strG, strE, strG_eq_strE S a, strG_eq_strE S b, forceWrapG, Bool.false_eq_true, if_false]
  | .bin .pow a b, enc => by simp only [strG, strE, strG_eq_strE S a, strG_eq_strE S b]
  | .bin .lshift a b, enc => by simp only [strG, strE, strG_eq_strE S a, strG_eq_strE S b]
  | .bin .rshift a b, enc => by simp only [strG, strE, strG_eq_strE S a, strG_eq_strE S b]
  | .un .bnot a, enc => by simp only [strG, strE, strG_eq_strE S a]
  | .un .lnot a, enc => by simp only [strG, strE, strG_eq_strE S a]
  | .nary .bor cs, enc => by simp only [strG, strE, strGL_eq_strL S cs]
  | .nary .bxor cs, enc => by simp only [strG, strE, strGL_eq_strL S cs]
  | .nary .band cs, enc => by simp only [strG, strE, strGL_eq_strL S cs]
  | .nary .lor cs, enc => by simp only [strG, strE, strGL_eq_strL S cs]
  | .nary .land cs, enc => by simp only [strG, strE, strGL_eq_strL S cs]
  | .cmp o a b, enc => by simp only [strG, strE, strG_eq_strE S a, strG_eq_strE S b]
  | .ite c t e, enc => by
      simp only [strG, strE, strG_eq_strE S c, strG_eq_strE S t, strG_eq_strE S e]
  | .tuple cs, _ => by simp only [strG, strE, strGL_eq_strL S cs]
  | .list cs, _ => by simp only [strG, strE, strGL_eq_strL S cs]
  | .slice cs, enc => by simp only [strG, strE, strGSliceL_eq S cs]
  | .nary .min cs, _ => by simp only [strG, strE, strGL_eq_strL S cs]
  | .nary .max cs, _ => by simp only [strG, strE, strGL_eq_strL S cs]
  | .cse c _ _, _ => by
      simp only [strG, strE, strG_eq_strE S c, Bool.false_eq_true, if_false]
  | .nan, _ => by simp only [strG, strE]
  | .funcSym, _ => by simp only [strG, strE]
  | .dotWild _, _ => by simp only [strG, strE]
  | .starWild _, _ => by simp only [strG, strE]
  | .subst .., _ => by simp only [strG, strE]
  | .deriv .., _ => by simp only [strG, strE]
theorem strGL_eq_strL (S : PrintPrec) : ∀ (cs : List Expr) (enc : Nat),
    strGL S (constPieces S) false cs enc = strL S cs enc
  | [], _ => by simp only [strGL, strL]
  | c :: cs, enc => by simp only [strGL, strL, strG_eq_strE S c, strGL_eq_strL S cs]
theorem strGForceL_eq (S : PrintPrec) (all : Bool) : ∀ (cs : List Expr) (enc : Nat),
    strGForceL S (constPieces S) false all cs enc = strForceL S all cs enc
  | [], _ => by simp only [strGForceL, strForceL]
  | c :: cs, enc => by
      simp only [strGForceL, strForceL, strG_eq_strE S c, strGForceL_eq S all cs, forceWrapG,
        Bool.false_eq_true, if_false]
theorem strGSliceL_eq (S : PrintPrec) : ∀ (cs : List Expr),
    strGSliceL S (constPieces S) false cs = strSliceL S cs
  | [] => by simp only [strGSliceL, strSliceL]
  | .const .none :: cs => by simp only [strGSliceL, strSliceL, strGSliceL_eq S cs]
  | .const (.int n) :: cs => by
      rw [strGSliceL, strSliceL, strG_eq_strE S (.const (.int n)), strGSliceL_eq S cs]
      all_goals (intro h; cases h)
  | .const (.bool n) :: cs => by
      rw [strGSliceL, strSliceL, strG_eq_strE S (.const (.bool n)), strGSliceL_eq S cs]
      all_goals (intro h; cases h)
  | .const (.flt r n d) :: cs => by
      rw [strGSliceL, strSliceL, strG_eq_strE S (.const (.flt r n d)), strGSliceL_eq S cs]
      all_goals (intro h; cases h)
  | .const (.str n) :: cs => by
      rw [strGSliceL, strSliceL, strG_eq_strE S (.const (.str n)), strGSliceL_eq S cs]
      all_goals (intro h; cases h)
  | .var x :: cs => by
      rw [strGSliceL, strSliceL, strG_eq_strE S (.var x), strGSliceL_eq S cs]
      all_goals (intro h; cases h)
  | .nary o xs :: cs => by
      rw [strGSliceL, strSliceL, strG_eq_strE S (.nary o xs), strGSliceL_eq S cs]
      all_goals (intro h; cases h)
  | .bin o x y :: cs => by
      rw [strGSliceL, strSliceL, strG_eq_strE S (.bin o x y), strGSliceL_eq S cs]
      all_goals (intro h; cases h)
  | .un o x :: cs => by
      rw [strGSliceL, strSliceL, strG_eq_strE S (.un o x), strGSliceL_eq S cs]
      all_goals (intro h; cases h)
  | .cmp o x y :: cs => by
      rw [strGSliceL, strSliceL, strG_eq_strE S (.cmp o x y), strGSliceL_eq S cs]
      all_goals (intro h; cases h)
  | .ite x y z :: cs => by
      rw [strGSliceL, strSliceL, strG_eq_strE S (.ite x y z), strGSliceL_eq S cs]
      all_goals (intro h; cases h)
  | .call f as :: cs => by
      rw [strGSliceL, strSliceL, strG_eq_strE S (.call f as), strGSliceL_eq S cs]
      all_goals (intro h; cases h)
  | .callKw f as ns vs :: cs => by
      rw [strGSliceL, strSliceL, strG_eq_strE S (.callKw f as ns vs), strGSliceL_eq S cs]
      all_goals (intro h; cases h)
  | .subscript x y :: cs => by
      rw [strGSliceL, strSliceL, strG_eq_strE S (.subscript x y), strGSliceL_eq S cs]
      all_goals (intro h; cases h)
  | .lookup x n :: cs => by
      rw [strGSliceL, strSliceL, strG_eq_strE S (.lookup x n), strGSliceL_eq S cs]
      all_goals (intro h; cases h)
  | .cse x p s :: cs => by
      rw [strGSliceL, strSliceL, strG_eq_strE S (.cse x p s), strGSliceL_eq S cs]
      all_goals (intro h; cases h)
  | .subst x vs xs :: cs => by
      rw [strGSliceL, strSliceL, strG_eq_strE S (.subst x vs xs), strGSliceL_eq S cs]
      all_goals (intro h; cases h)
  | .deriv x vs :: cs => by
      rw [strGSliceL, strSliceL, strG_eq_strE S (.deriv x vs), strGSliceL_eq S cs]
      all_goals (intro h; cases h)
  | .slice xs :: cs => by
      rw [strGSliceL, strSliceL, strG_eq_strE S (.slice xs), strGSliceL_eq S cs]
      all_goals (intro h; cases h)
  | .nan :: cs => by
      rw [strGSliceL, strSliceL, strG_eq_strE S .nan, strGSliceL_eq S cs]
      all_goals (intro h; cases h)
  | .wildcard :: cs => by
      rw [strGSliceL, strSliceL, strG_eq_strE S .wildcard, strGSliceL_eq S cs]
      all_goals (intro h; cases h)
  | .dotWild n :: cs => by
      rw [strGSliceL, strSliceL, strG_eq_strE S (.dotWild n), strGSliceL_eq S cs]
      all_goals (intro h; cases h)
  | .starWild n :: cs => by
      rw [strGSliceL, strSliceL, strG_eq_strE S (.starWild n), strGSliceL_eq S cs]
      all_goals (intro h; cases h)
  | .funcSym :: cs => by
      rw [strGSliceL, strSliceL, strG_eq_strE S .funcSym, strGSliceL_eq S cs]
      all_goals (intro h; cases h)
  | .tuple xs :: cs => by
      rw [strGSliceL, strSliceL, strG_eq_strE S (.tuple xs), strGSliceL_eq S cs]
      all_goals (intro h; cases h)
  | .list xs :: cs => by
      rw [strGSliceL, strSliceL, strG_eq_strE S (.list xs), strGSliceL_eq S cs]
      all_goals (intro h; cases h)
end

/-! ### insertion sort of strings -/

theorem insertSorted_perm (x : String) : ∀ l : List String, (insertSorted x l).Perm (x :: l)
  | [] => by simp [insertSorted]
  | y :: ys => by
      unfold insertSorted
      split
      · exact List.Perm.refl _
      · exact ((insertSorted_perm x ys).cons y).trans (List.Perm.swap x y ys)

theorem sortStrings_perm : ∀ l : List String, (sortStrings l).Perm l
  | [] => by simp [sortStrings]
  | x :: xs => by
      unfold sortStrings
      exact (insertSorted_perm x _).trans ((sortStrings_perm xs).cons x)

/-- ascending (non-strict) string order -/
def StrSorted (l : List String) : Prop := l.Pairwise (· ≤ ·)

theorem insertSorted_sorted (x : String) : ∀ l : List String, StrSorted l → StrSorted (insertSorted x l)
  | [], _ => by simp [insertSorted, StrSorted]
  | y :: ys, h => by
      unfold insertSorted
      have hy := List.pairwise_cons.mp h
      split
      · rename_i hxy
        refine List.pairwise_cons.mpr ⟨?_, h⟩
        intro z hz
        rcases List.mem_cons.mp hz with rfl | hz
        · exact hxy
        · exact String.le_trans hxy (hy.1 z hz)
      · rename_i hxy
        have hyx : y ≤ x := by
          cases String.le_total x y with
          | inl h' => exact absurd h' hxy
          | inr h' => exact h'
        refine List.pairwise_cons.mpr ⟨?_, insertSorted_sorted x ys hy.2⟩
        intro z hz
        have := (insertSorted_perm x ys).mem_iff.mp hz
        rcases List.mem_cons.mp this with rfl | hz
        · exact hyx
        · exact hy.1 z hz

theorem sortStrings_sorted : ∀ l : List String, StrSorted (sortStrings l)
  | [] => by simp [sortStrings, StrSorted]
  | x :: xs => by
      unfold sortStrings
      exact insertSorted_sorted x _ (sortStrings_sorted xs)

theorem sorted_perm_eq : ∀ l₁ l₂ : List String, StrSorted l₁ → StrSorted l₂ → l₁.Perm l₂ → l₁ = l₂
  | [], l₂, _, _, hp => by simpa using hp.symm.eq_nil
  | a :: l₁, [], _, _, hp => by simpa using hp.eq_nil
  | a :: l₁, b :: l₂, h₁, h₂, hp => by
      have ha := List.pairwise_cons.mp h₁
      have hb := List.pairwise_cons.mp h₂
      have hab : a = b := by
        have ha2 : a ∈ b :: l₂ := hp.mem_iff.mp (List.mem_cons_self ..)
        have hb1 : b ∈ a :: l₁ := hp.mem_iff.mpr (List.mem_cons_self ..)
        rcases List.mem_cons.mp ha2 with h | h
        · exact h
        · rcases List.mem_cons.mp hb1 with h' | h'
          · exact h'.symm
          · exact String.le_antisymm (ha.1 b h') (hb.1 a h)
      subst hab
      rw [sorted_perm_eq l₁ l₂ ha.2 hb.2 (List.Perm.cons_inv hp)]

/-- the result of the sort does not depend on the order in which the set was iterated -/
theorem sortStrings_perm_eq {l₁ l₂ : List String} (hp : l₁.Perm l₂) :
    sortStrings l₁ = sortStrings l₂ :=
  sorted_perm_eq _ _ (sortStrings_sorted l₁) (sortStrings_sorted l₂)
    ((sortStrings_perm l₁).trans (hp.trans (sortStrings_perm l₂).symm))

theorem sortStrings_strict {l : List String} (hn : l.Nodup) : (sortStrings l).Pairwise (· < ·) := by
  have hs := sortStrings_sorted l
  have hn' : (sortStrings l).Nodup := (sortStrings_perm l).nodup_iff.mpr hn
  unfold StrSorted at hs
  have hboth := hs.and hn'
  refine hboth.imp ?_
  intro a b h
  rcases h with ⟨hle, hne⟩
  apply String.not_le.mp
  intro hba
  exact hne (String.le_antisymm hle hba)

theorem mem_sortStrings {l : List String} {x : String} : x ∈ sortStrings l ↔ x ∈ l :=
  (sortStrings_perm l).mem_iff

/-! ### exact numbers: the `Num` of a value, total addition and multiplication on `Num` -/

def Num.toValue : Num → Value
  | .i n => .int n
  | .q r => .frac r

theorem Num.toValue_num (x : Num) : x.toValue.num? = some x := by cases x <;> rfl

def Value.isBoolV : Value → Bool
  | .bool _ => true
  | _ => false

theorem value_eq_toValue {v : Value} {x : Num} (h : v.num? = some x) (hb : v.isBoolV = false) :
    v = x.toValue := by
  cases v <;> simp [Value.num?, Value.isBoolV] at h hb <;> subst h <;> rfl

def addNum : Num → Num → Num
  | .i a, .i b => .i (a + b)
  | x, y => .q (x.toRat + y.toRat)

def mulNum : Num → Num → Num
  | .i a, .i b => .i (a * b)
  | x, y => .q (x.toRat * y.toRat)

theorem addN_eq (x y : Num) : addN x y = .ok (addNum x y).toValue := by
  cases x <;> cases y <;> rfl

theorem mulN_eq (x y : Num) : mulN x y = .ok (mulNum x y).toValue := by
  cases x <;> cases y <;> rfl

theorem addNum_assoc (x y z : Num) : addNum (addNum x y) z = addNum x (addNum y z) := by
  cases x <;> cases y <;> cases z <;>
    simp [addNum, Num.toRat, Rat.add_assoc, Int.add_assoc]

theorem mulNum_assoc (x y z : Num) : mulNum (mulNum x y) z = mulNum x (mulNum y z) := by
  cases x <;> cases y <;> cases z <;>
    simp [mulNum, Num.toRat, Rat.mul_assoc, Int.mul_assoc]

theorem addNum_zero (x : Num) : addNum (.i 0) x = x := by
  cases x <;> simp [addNum, Num.toRat]

theorem mulNum_one (x : Num) : mulNum (.i 1) x = x := by
  cases x <;> simp [mulNum, Num.toRat]

theorem add_num {a b : Value} {x y : Num} (ha : a.num? = some x) (hb : b.num? = some y) :
    Value.add a b = .ok (addNum x y).toValue := by
  rw [Value.add, arith_num ha hb, addN_eq]

theorem mul_num {a b : Value} {x y : Num} (ha : a.num? = some x) (hb : b.num? = some y) :
    Value.mul a b = .ok (mulNum x y).toValue := by
  rw [Value.mul, arith_num ha hb, mulN_eq]

/-! ### left fold (the evaluator) against right nesting (the AST)

Generic over a carrier `κ` of "good" operand values: `toV` embeds it into `Value`, `ofV` recognises
its members.  Instances: exact numbers (`Num`) for `+ *`, ints-and-bools (`IB`) for `| ^ &`. -/

/-- `x₁ ∘ (x₂ ∘ (… ∘ xₙ))` -/
def nestK {κ : Type} (f : κ → κ → κ) : κ → List κ → κ
  | x, [] => x
  | x, y :: ys => f x (nestK f y ys)

theorem foldl_assoc_shift {κ : Type} {f : κ → κ → κ} (hassoc : ∀ a b c, f (f a b) c = f a (f b c)) :
    ∀ (ys : List κ) (a x : κ), ys.foldl f (f a x) = f a (ys.foldl f x)
  | [], _, _ => rfl
  | y :: ys, a, x => by
      simp only [List.foldl]
      rw [hassoc, foldl_assoc_shift hassoc ys a (f x y)]

theorem foldl_eq_nest {κ : Type} {f : κ → κ → κ} (hassoc : ∀ a b c, f (f a b) c = f a (f b c)) :
    ∀ (ys : List κ) (x : κ), ys.foldl f x = nestK f x ys
  | [], _ => rfl
  | y :: ys, x => by
      simp only [List.foldl, nestK]
      rw [foldl_assoc_shift hassoc ys x y, foldl_eq_nest hassoc ys y]

/-- the value of `v₁ op (v₂ op (… op vₙ))`, all operands already computed -/
def rightNest (op : Value → Value → R) : List Value → R
  | [] => throw .noClaim
  | [v] => pure v
  | v :: w :: rest => do
      let r ← rightNest op (w :: rest)
      op v r

/-- `ofV v = some x` pointwise -/
def RepsOf {κ : Type} (ofV : Value → Option κ) : List Value → List κ → Prop
  | [], [] => True
  | v :: vs, x :: xs => ofV v = some x ∧ RepsOf ofV vs xs
  | _, _ => False

theorem rightNest_rep {κ : Type} {toV : κ → Value} {ofV : Value → Option κ}
    {op : Value → Value → R} {f : κ → κ → κ} (hback : ∀ x, ofV (toV x) = some x)
    (hop : ∀ {a b : Value} {x y : κ}, ofV a = some x → ofV b = some y →
      op a b = .ok (toV (f x y))) :
    ∀ (v : Value) (vs : List Value) (x : κ) (xs : List κ), ofV v = some x → RepsOf ofV vs xs →
      vs ≠ [] → rightNest op (v :: vs) = .ok (toV (nestK f x xs))
  | v, [w], x, [y], hv, hws, _ => by
      have hw : ofV w = some y := hws.1
      simp only [rightNest, nestK, bind, Except.bind, pure, Except.pure]
      exact hop hv hw
  | v, w :: w' :: rest, x, y :: y' :: ys, hv, hws, _ => by
      have ih := rightNest_rep hback hop w (w' :: rest) y (y' :: ys) hws.1 hws.2 (by simp)
      rw [rightNest, ih]
      simp only [nestK, bind, Except.bind]
      exact hop hv (hback _)
  | _, [], _, _, _, _, h => absurd rfl h
  | _, [_], _, [], _, h, _ => by simp [RepsOf] at h
  | _, [_], _, _ :: _ :: _, _, h, _ => by simp [RepsOf] at h
  | _, _ :: _ :: _, _, [], _, h, _ => by simp [RepsOf] at h
  | _, _ :: _ :: _, _, [_], _, h, _ => by simp [RepsOf] at h

/-- every operand that evaluates has a property -/
def OperandsOk (env : Env) (P : Value → Prop) : List Expr → Prop
  | [] => True
  | c :: cs => (∀ v, den env c = .ok v → P v) ∧ OperandsOk env P cs

def Value.isExactNum (v : Value) : Prop := ∃ x, v.num? = some x

/-- the evaluator's eager left fold: with good operands only the operands can fail, in order -/
theorem denFold_good {κ : Type} {toV : κ → Value} {ofV : Value → Option κ} {env : Env}
    {o : NaryOp} {f : κ → κ → κ} (hback : ∀ x, ofV (toV x) = some x)
    (hop : ∀ {a b : Value} {x y : κ}, ofV a = some x → ofV b = some y →
      o.apply a b = .ok (toV (f x y))) :
    ∀ (cs : List Expr) (a : κ), OperandsOk env (fun v => ∃ x, ofV v = some x) cs →
      match denList env cs with
      | .error e => denFold env o (toV a) cs = .error e
      | .ok vs => ∃ ns, RepsOf ofV vs ns ∧ denFold env o (toV a) cs = .ok (toV (ns.foldl f a))
  | [], a, _ => by
      simp only [denList, pure, Except.pure]
      exact ⟨[], trivial, by simp [denFold, pure, Except.pure]⟩
  | c :: cs, a, hok => by
      cases hc : den env c with
      | error e => simp only [denList, denFold, hc, bind, Except.bind]
      | ok v =>
        obtain ⟨x, hx⟩ := hok.1 v hc
        have happ := hop (hback a) hx
        have ih := denFold_good hback hop cs (f a x) hok.2
        cases hl : denList env cs with
        | error e =>
          rw [hl] at ih
          simp only [denList, denFold, hc, hl, happ, bind, Except.bind]
          exact ih
        | ok vs =>
          rw [hl] at ih
          obtain ⟨ns, hns, hfold⟩ := ih
          simp only [denList, denFold, hc, hl, happ, bind, Except.bind, pure, Except.pure]
          exact ⟨x :: ns, ⟨hx, hns⟩, by simpa [List.foldl] using hfold⟩

/-- the AST's right-nested chain: all operands are computed (in order) before any operator runs -/
theorem denAst_foldBin (env : Env) (op : PyBin) :
    ∀ (x : PyAst) (xs : List PyAst) (a : PyAst), foldBin op (x :: xs) = .ok a →
      denAst env a = (denAstL env (x :: xs) >>= rightNest op.apply)
  | x, [], a, h => by
      simp only [foldBin, pure, Except.pure, Except.ok.injEq] at h
      subst h
      simp only [denAstL, bind, Except.bind, pure, Except.pure]
      cases denAst env x <;> rfl
  | x, y :: rest, a, h => by
      simp only [foldBin] at h
      obtain ⟨r, hr, ha⟩ := except_bind_ok h
      simp only [pure, Except.pure, Except.ok.injEq] at ha
      subst ha
      have ih := denAst_foldBin env op y rest r hr
      simp only [denAst, ih]
      simp only [denAstL, bind, Except.bind, pure, Except.pure]
      cases denAst env x with
      | error e => rfl
      | ok v =>
        cases denAst env y with
        | error e => rfl
        | ok w =>
          cases denAstL env rest with
          | error e => rfl
          | ok ws => simp only [rightNest, bind, Except.bind]

/-! ### pointwise agreement of mapped operands, list evaluation -/

/-- `denAst env xᵢ = den env cᵢ` pointwise -/
def RelL (env : Env) : List PyAst → List Expr → Prop
  | [], [] => True
  | x :: xs, c :: cs => denAst env x = den env c ∧ RelL env xs cs
  | _, _ => False

theorem relL_denList {env : Env} : ∀ (xs : List PyAst) (cs : List Expr), RelL env xs cs →
    denAstL env xs = denList env cs
  | [], [], _ => by simp [denAstL, denList]
  | x :: xs, c :: cs, h => by
      simp only [denAstL, denList, h.1, relL_denList xs cs h.2]
  | [], _ :: _, h => by simp [RelL] at h
  | _ :: _, [], h => by simp [RelL] at h

theorem denList_cons_ok {env : Env} {c : Expr} {cs : List Expr} {vs : List Value}
    (h : denList env (c :: cs) = .ok vs) :
    ∃ v vs', vs = v :: vs' ∧ den env c = .ok v ∧ denList env cs = .ok vs' := by
  simp only [denList] at h
  obtain ⟨v, hv, h⟩ := except_bind_ok h
  obtain ⟨vs', hvs, h⟩ := except_bind_ok h
  simp only [pure, Except.pure, Except.ok.injEq] at h
  exact ⟨v, vs', h.symm, hv, hvs⟩

theorem denList_nil_ok {env : Env} : ∀ {cs : List Expr}, denList env cs = .ok [] → cs = []
  | [], _ => rfl
  | c :: cs, h => by
      obtain ⟨v, vs', hvs, _, _⟩ := denList_cons_ok h
      cases hvs

theorem OperandsOk.mono {env : Env} {P Q : Value → Prop} (hPQ : ∀ v, P v → Q v) :
    ∀ {cs : List Expr}, OperandsOk env P cs → OperandsOk env Q cs
  | [], _ => trivial
  | _ :: _, h => ⟨fun v hv => hPQ v (h.1 v hv), OperandsOk.mono hPQ h.2⟩

theorem OperandsOk.head_of_mem {env : Env} {P : Value → Prop} :
    ∀ {cs : List Expr}, OperandsOk env P cs → ∀ c ∈ cs, ∀ v, den env c = .ok v → P v
  | [], _, c, hc, _, _ => by simp at hc
  | d :: ds, h, c, hc, v, hv => by
      rcases List.mem_cons.mp hc with rfl | hc
      · exact h.1 v hv
      · exact OperandsOk.head_of_mem h.2 c hc v hv

/-- operand of a sum / product with `n` operands: an exact number; not a `bool` when it is the
only operand (`0 + True` is `1`, the one-operand AST is the operand itself) -/
def ArithOperand (n : Nat) (v : Value) : Prop := v.isExactNum ∧ (n = 1 → v.isBoolV = false)

/-- sums and products: the evaluator's left fold from the unit equals the right-nested chain -/
theorem nary_fold_value {env : Env} {o : NaryOp} {op : PyBin} {f : Num → Num → Num} {u : Num}
    (hsame : op.apply = o.apply)
    (hop : ∀ {a b : Value} {x y : Num}, a.num? = some x → b.num? = some y →
      o.apply a b = .ok (f x y).toValue)
    (hassoc : ∀ a b c, f (f a b) c = f a (f b c)) (hunit : ∀ x, f u x = x)
    {xs : List PyAst} {cs : List Expr} {a : PyAst}
    (hrel : RelL env xs cs) (hfold : foldBin op xs = .ok a)
    (hgood : OperandsOk env (ArithOperand cs.length) cs) :
    denAst env a = denFold env o u.toValue cs := by
  cases xs with
  | nil => simp [foldBin, throw, throwThe, MonadExceptOf.throw] at hfold
  | cons x xs' =>
    cases cs with
    | nil => simp [RelL] at hrel
    | cons c cs' =>
      rw [denAst_foldBin env op x xs' a hfold, relL_denList _ _ hrel, hsame]
      have hg := denFold_good (toV := Num.toValue) (ofV := Value.num?) (env := env) (o := o)
        Num.toValue_num hop (c :: cs') u (OperandsOk.mono (fun v hv => hv.1) hgood)
      cases hl : denList env (c :: cs') with
      | error e =>
        rw [hl] at hg
        simp only [bind, Except.bind, hg]
      | ok vs =>
        rw [hl] at hg
        obtain ⟨ns, hns, hden⟩ := hg
        obtain ⟨v, vs', rfl, hv, hvs'⟩ := denList_cons_ok hl
        rw [hden]
        simp only [bind, Except.bind]
        cases ns with
        | nil => simp [RepsOf] at hns
        | cons n ns' =>
          cases vs' with
          | nil =>
            have hcs' : cs' = [] := denList_nil_ok hvs'
            subst hcs'
            cases ns' with
            | cons _ _ => simp [RepsOf] at hns
            | nil =>
              have hnb := (hgood.1 v hv).2 rfl
              simp only [rightNest, pure, Except.pure, List.foldl, hunit]
              rw [value_eq_toValue hns.1 hnb]
          | cons w ws =>
            rw [rightNest_rep (toV := Num.toValue) (f := f) Num.toValue_num hop v (w :: ws) n ns'
              hns.1 hns.2 (by simp)]
            simp only [List.foldl, hunit, foldl_eq_nest hassoc]

/-- operand of a bitwise chain: an int or a bool -/
def BitOperand (v : Value) : Prop := ∃ x, v.ib? = some x

/-- `| ^ &` chains of any length: `reduce(op, operands)` equals the right-nested chain on ints and
bools (associativity of the two's-complement operators, `bool` results kept for all-bool chains) -/
theorem reduce_fold_value {env : Env} {o : NaryOp} {op : PyBin} {f : IB → IB → IB}
    (hsame : op.apply = o.apply)
    (hop : ∀ {a b : Value} {x y : IB}, a.ib? = some x → b.ib? = some y →
      o.apply a b = .ok (f x y).toValue)
    (hassoc : ∀ a b c, f (f a b) c = f a (f b c))
    {xs : List PyAst} {cs : List Expr} {a : PyAst}
    (hrel : RelL env xs cs) (hfold : foldBin op xs = .ok a)
    (hgood : OperandsOk env BitOperand cs) :
    denAst env a = denReduce env o cs := by
  cases xs with
  | nil => simp [foldBin, throw, throwThe, MonadExceptOf.throw] at hfold
  | cons x xs' =>
    cases cs with
    | nil => simp [RelL] at hrel
    | cons c cs' =>
      rw [denAst_foldBin env op x xs' a hfold, relL_denList _ _ hrel, hsame]
      simp only [denReduce, denList]
      cases hc : den env c with
      | error e => simp only [bind, Except.bind]
      | ok v =>
        obtain ⟨n, hn⟩ := hgood.1 v hc
        have hv : n.toValue = v := ib_roundtrip hn
        have hg := denFold_good (toV := IB.toValue) (ofV := Value.ib?) (env := env) (o := o)
          IB.ib_toValue hop cs' n hgood.2
        rw [hv] at hg
        cases hl : denList env cs' with
        | error e =>
          rw [hl] at hg
          simp only [bind, Except.bind, hg]
        | ok vs' =>
          rw [hl] at hg
          obtain ⟨ns', hns, hden⟩ := hg
          simp only [bind, Except.bind, pure, Except.pure, hden]
          cases vs' with
          | nil =>
            cases ns' with
            | cons _ _ => simp [RepsOf] at hns
            | nil => simp only [rightNest, pure, Except.pure, List.foldl, hv]
          | cons w ws =>
            rw [rightNest_rep (toV := IB.toValue) (f := f) IB.ib_toValue hop v (w :: ws) n ns' hn hns
              (by simp)]
            rw [foldl_eq_nest hassoc]

def BoolOperand (v : Value) : Prop := ∃ b, v = .bool b

/-- `or` / `and` on boolean operands: the operand CPython returns is the evaluator's bool -/
theorem boolop_value {env : Env} (isOr : Bool) :
    ∀ (xs : List PyAst) (cs : List Expr), RelL env xs cs → xs ≠ [] →
      OperandsOk env BoolOperand cs →
      denBoolOp env isOr xs = (if isOr then denAny env cs else denAll env cs)
  | [x], [c], hrel, _, hgood => by
      simp only [denBoolOp, hrel.1]
      cases hc : den env c with
      | error e => cases isOr <;> simp [denAny, denAll, hc, bind, Except.bind]
      | ok v =>
        obtain ⟨b, rfl⟩ := hgood.1 v hc
        cases isOr <;> cases b <;>
          simp [denAny, denAll, hc, bind, Except.bind, Value.truthy, pure, Except.pure]
  | x :: y :: rest, c :: d :: cs', hrel, _, hgood => by
      have ih := boolop_value isOr (y :: rest) (d :: cs') hrel.2 (by simp) hgood.2
      simp only [denBoolOp, hrel.1]
      cases hc : den env c with
      | error e => cases isOr <;> simp [denAny, denAll, hc, bind, Except.bind]
      | ok v =>
        obtain ⟨b, rfl⟩ := hgood.1 v hc
        rw [ih]
        cases isOr <;> cases b <;>
          simp [denAny, denAll, hc, bind, Except.bind, Value.truthy, pure, Except.pure]
  | [], _, _, h, _ => absurd rfl h
  | [_], [], h, _, _ => by simp [RelL] at h
  | [_], _ :: _ :: _, h, _, _ => by simp [RelL] at h
  | _ :: _ :: _, [], h, _, _ => by simp [RelL] at h
  | _ :: _ :: _, [_], h, _, _ => by simp [RelL] at h

theorem pyBin_apply (o : BinOp) : o.pyBin.apply = o.apply := by cases o <;> rfl

/-! ### AST → expression of a right-nested chain, and flattening it again -/

/-- `x₁ ∘ (x₂ ∘ (… ∘ xₙ))` as binary nodes of the n-ary class `o` -/
def nestExpr (o : NaryOp) : List Expr → Expr
  | [] => .nary o []
  | [x] => x
  | x :: y :: rest => .nary o [x, nestExpr o (y :: rest)]

theorem fromAst_foldBin {op : PyBin} {o : NaryOp}
    (hc : op.construct = some fun x y => .nary o [x, y]) :
    ∀ (xs : List PyAst) (es : List Expr) (a : PyAst), xs ≠ [] → fromAstL xs = .ok es →
      foldBin op xs = .ok a → fromAst a = .ok (nestExpr o es)
  | [], _, _, h, _, _ => absurd rfl h
  | [x], es, a, _, hes, ha => by
      simp only [foldBin, pure, Except.pure, Except.ok.injEq] at ha
      subst ha
      simp only [fromAstL] at hes
      obtain ⟨e, he, hes⟩ := except_bind_ok hes
      simp only [bind, Except.bind, pure, Except.pure, Except.ok.injEq] at hes
      subst hes
      simpa [nestExpr] using he
  | x :: y :: rest, es, a, _, hes, ha => by
      simp only [foldBin] at ha
      obtain ⟨r, hr, ha⟩ := except_bind_ok ha
      simp only [pure, Except.pure, Except.ok.injEq] at ha
      subst ha
      rw [fromAstL] at hes
      obtain ⟨e, he, hes⟩ := except_bind_ok hes
      obtain ⟨es', hes', hes⟩ := except_bind_ok hes
      simp only [pure, Except.pure, Except.ok.injEq] at hes
      subst hes
      have ih := fromAst_foldBin hc (y :: rest) es' r (by simp) hes' hr
      have hne : ∃ e' es'', es' = e' :: es'' := by
        rw [fromAstL] at hes'
        obtain ⟨e', _, h2⟩ := except_bind_ok hes'
        obtain ⟨es'', _, h2⟩ := except_bind_ok h2
        simp only [pure, Except.pure, Except.ok.injEq] at h2
        exact ⟨e', es'', h2.symm⟩
      obtain ⟨e', es'', rfl⟩ := hne
      simp only [fromAst, hc, he, ih, bind, Except.bind, pure, Except.pure, nestExpr]

/-- what one child contributes to the flattened children of an `o` node -/
def spliceOf (o : NaryOp) (c : Expr) : List Expr :=
  match flattenNest c with
  | .nary o' ds => if o' == o then ds else [.nary o' ds]
  | c' => [c']

theorem flattenNestInto_cons (o : NaryOp) (c : Expr) (cs : List Expr) :
    flattenNestInto o (c :: cs) = spliceOf o c ++ flattenNestInto o cs := by
  rw [flattenNestInto, spliceOf]
  split <;> rename_i h <;> simp only [h]
  · split <;> simp
  · rfl

theorem flattenNestInto_congr (o : NaryOp) : ∀ (es cs : List Expr),
    flattenNestL es = flattenNestL cs → flattenNestInto o es = flattenNestInto o cs
  | [], [], _ => rfl
  | e :: es, c :: cs, h => by
      simp only [flattenNestL, List.cons.injEq] at h
      rw [flattenNestInto_cons, flattenNestInto_cons, flattenNestInto_congr o es cs h.2]
      simp only [spliceOf, h.1]
  | [], _ :: _, h => by simp [flattenNestL] at h
  | _ :: _, [], h => by simp [flattenNestL] at h

theorem flattenNestInto_nil (o : NaryOp) : flattenNestInto o [] = [] := by
  simp [flattenNestInto]

theorem flattenNest_pair (o : NaryOp) (ho : o.isAssoc = true) (x N y : Expr) (rest : List Expr)
    (hN : spliceOf o N = flattenNestInto o (y :: rest)) :
    flattenNest (.nary o [x, N]) = .nary o (flattenNestInto o (x :: y :: rest)) := by
  rw [flattenNest]
  simp only [ho, if_true]
  rw [flattenNestInto_cons o x [N], flattenNestInto_cons o N [], flattenNestInto_nil,
    List.append_nil, hN, flattenNestInto_cons o x (y :: rest)]

theorem spliceOf_nestExpr (o : NaryOp) (ho : o.isAssoc = true) : ∀ (es : List Expr), es ≠ [] →
    spliceOf o (nestExpr o es) = flattenNestInto o es
  | [], h => absurd rfl h
  | [x], _ => by
      rw [flattenNestInto_cons, flattenNestInto_nil, List.append_nil]
      rfl
  | x :: y :: rest, _ => by
      have ih := spliceOf_nestExpr o ho (y :: rest) (by simp)
      have h1 := flattenNest_pair o ho x (nestExpr o (y :: rest)) y rest ih
      show spliceOf o (.nary o [x, nestExpr o (y :: rest)]) = _
      simp only [spliceOf, h1, beq_self_eq_true, if_true]

theorem flattenNest_nestExpr (o : NaryOp) (ho : o.isAssoc = true) (x y : Expr)
    (rest : List Expr) :
    flattenNest (nestExpr o (x :: y :: rest)) = .nary o (flattenNestInto o (x :: y :: rest)) :=
  flattenNest_pair o ho x (nestExpr o (y :: rest)) y rest
    (spliceOf_nestExpr o ho (y :: rest) (by simp))

theorem pyBin_construct (o : BinOp) : o.pyBin.construct = some (Expr.bin o) := by
  cases o <;> rfl

/-! ### a dependency set has no two `==`-equal members -/

/-- no earlier member is Python-equal to a later one -/
def PyNodup (r : List Expr) : Prop := r.Pairwise fun y x => y.pyEq x = false

theorem PyNodup.insPy {a : List Expr} (h : PyNodup a) (x : Expr) : PyNodup (PV.insPy a x) := by
  unfold PV.insPy
  split
  · exact h
  · rename_i hany
    unfold PyNodup
    rw [List.pairwise_append]
    refine ⟨h, List.pairwise_singleton _ _, ?_⟩
    intro y hy z hz
    simp only [List.mem_singleton] at hz
    subst hz
    cases hyz : y.pyEq z with
    | false => rfl
    | true => exact absurd (List.any_eq_true.mpr ⟨y, hy, hyz⟩) hany

theorem PyNodup.unionPy : ∀ (b : List Expr) {a : List Expr}, PyNodup a → PyNodup (PV.unionPy a b)
  | [], _, h => h
  | x :: b, a, h => by rw [unionPy_cons]; exact PyNodup.unionPy b (h.insPy x)

theorem PyNodup.nil : PyNodup [] := List.Pairwise.nil
theorem PyNodup.single (e : Expr) : PyNodup [e] := List.pairwise_singleton _ _

theorem PyNodup.depSingle {e : Expr} {r : List Expr} (h : depSingle e = .ok r) : PyNodup r := by
  unfold PV.depSingle at h
  split at h
  · cases h
  · cases h; exact PyNodup.single e

mutual
theorem deps_pyNodup (fl : DepFlags) : ∀ (e : Expr) (r : List Expr), deps fl e = .ok r → PyNodup r
  | .const c, r, h => by
      cases c <;> simp only [deps] at h <;> cases h <;> exact PyNodup.nil
  | .var x, r, h => by cases h; exact PyNodup.single _
  | .call f as, r, h => by
      simp only [deps] at h
      split at h
      · exact depsL_pyNodup fl as r h
      · exact PyNodup.depSingle h
      · obtain ⟨a, ha, h⟩ := except_bind_ok h
        obtain ⟨b, _, h⟩ := except_bind_ok h
        cases h
        exact PyNodup.unionPy b (deps_pyNodup fl f a ha)
  | .callKw f as ns vs, r, h => by
      simp only [deps] at h
      split at h
      · obtain ⟨a, ha, h⟩ := except_bind_ok h
        obtain ⟨b, _, h⟩ := except_bind_ok h
        cases h
        exact PyNodup.unionPy b (depsL_pyNodup fl as a ha)
      · exact PyNodup.depSingle h
      · obtain ⟨a, ha, h⟩ := except_bind_ok h
        obtain ⟨b, _, h⟩ := except_bind_ok h
        obtain ⟨c, _, h⟩ := except_bind_ok h
        cases h
        exact PyNodup.unionPy c (PyNodup.unionPy b (deps_pyNodup fl f a ha))
  | .lookup a n, r, h => by
      simp only [deps] at h
      split at h
      · exact PyNodup.depSingle h
      · exact deps_pyNodup fl a r h
  | .subscript a i, r, h => by
      simp only [deps] at h
      split at h
      · exact PyNodup.depSingle h
      · obtain ⟨x, hx, h⟩ := except_bind_ok h
        obtain ⟨y, _, h⟩ := except_bind_ok h
        cases h
        exact PyNodup.unionPy y (deps_pyNodup fl a x hx)
  | .cse c p s, r, h => by
      simp only [deps] at h
      split at h
      · cases h
      · split at h
        · cases h; exact PyNodup.single _
        · exact deps_pyNodup fl c r h
  | .nary _ cs, r, h => by
      simp only [deps] at h
      exact depsL_pyNodup fl cs r h
  | .bin _ a b, r, h => by
      simp only [deps] at h
      obtain ⟨x, hx, h⟩ := except_bind_ok h
      obtain ⟨y, _, h⟩ := except_bind_ok h
      cases h
      exact PyNodup.unionPy y (deps_pyNodup fl a x hx)
  | .un _ a, r, h => by
      simp only [deps] at h
      exact deps_pyNodup fl a r h
  | .cmp _ a b, r, h => by
      simp only [deps] at h
      obtain ⟨x, hx, h⟩ := except_bind_ok h
      obtain ⟨y, _, h⟩ := except_bind_ok h
      cases h
      exact PyNodup.unionPy y (deps_pyNodup fl a x hx)
  | .ite c t e, r, h => by
      simp only [deps] at h
      obtain ⟨x, hx, h⟩ := except_bind_ok h
      obtain ⟨y, _, h⟩ := except_bind_ok h
      obtain ⟨z, _, h⟩ := except_bind_ok h
      cases h
      exact PyNodup.unionPy z (PyNodup.unionPy y (deps_pyNodup fl c x hx))
  | .slice cs, r, h => by
      simp only [deps] at h
      exact depsSlice_pyNodup fl cs r h
  | .tuple cs, r, h => by
      simp only [deps] at h
      exact depsL_pyNodup fl cs r h
  | .list cs, r, h => by
      simp only [deps] at h
      exact depsL_pyNodup fl cs r h
  | .nan, r, h => by cases h; exact PyNodup.nil
  | .wildcard, r, h => by cases h; exact PyNodup.nil
  | .dotWild _, r, h => by cases h; exact PyNodup.nil
  | .starWild _, r, h => by cases h; exact PyNodup.nil
  | .funcSym, r, h => by cases h; exact PyNodup.nil
  | .subst .., r, h => by simp [deps, throw, throwThe, MonadExceptOf.throw] at h
  | .deriv .., r, h => by simp [deps, throw, throwThe, MonadExceptOf.throw] at h
theorem depsL_pyNodup (fl : DepFlags) : ∀ (cs : List Expr) (r : List Expr),
    depsL fl cs = .ok r → PyNodup r
  | [], r, h => by cases h; exact PyNodup.nil
  | c :: cs, r, h => by
      simp only [depsL] at h
      obtain ⟨x, hx, h⟩ := except_bind_ok h
      obtain ⟨y, _, h⟩ := except_bind_ok h
      cases h
      exact PyNodup.unionPy y (deps_pyNodup fl c x hx)
theorem depsSlice_pyNodup (fl : DepFlags) : ∀ (cs : List Expr) (r : List Expr),
    depsSlice fl cs = .ok r → PyNodup r
  | [], r, h => by cases h; exact PyNodup.nil
  | c :: cs, r, h => by
      by_cases hc : c = .const .none
      · subst hc
        simp only [depsSlice] at h
        exact depsSlice_pyNodup fl cs r h
      · rw [depsSlice.eq_3 _ _ _ hc] at h
        obtain ⟨x, hx, h⟩ := except_bind_ok h
        obtain ⟨y, _, h⟩ := except_bind_ok h
        cases h
        exact PyNodup.unionPy y (deps_pyNodup fl c x hx)
end

/-! ### the names of a set of variable nodes -/

theorem mem_varNames {x : String} : ∀ {used : List Expr}, x ∈ varNames used ↔ .var x ∈ used
  | [] => by simp [varNames]
  | c :: rest => by
      cases c <;> simp [varNames, mem_varNames (used := rest)]

def varName? : Expr → Option String
  | .var x => some x
  | _ => none

theorem varNames_eq_filterMap : ∀ used : List Expr, varNames used = used.filterMap varName?
  | [] => rfl
  | c :: rest => by
      cases c <;> simp [varNames, varName?, List.filterMap_cons, varNames_eq_filterMap rest]

theorem varNames_perm {u u' : List Expr} (h : u.Perm u') : (varNames u).Perm (varNames u') := by
  rw [varNames_eq_filterMap, varNames_eq_filterMap]
  exact h.filterMap _

theorem varNames_nodup : ∀ {used : List Expr}, PyNodup used → (varNames used).Nodup
  | [], _ => by simp [varNames]
  | c :: rest, h => by
      have hc := List.pairwise_cons.mp h
      have ih := varNames_nodup (used := rest) hc.2
      cases c with
      | var x =>
        simp only [varNames, List.nodup_cons]
        refine ⟨?_, ih⟩
        intro hx
        have := hc.1 (.var x) (mem_varNames.mp hx)
        simp [Expr.pyEq] at this
      | _ => simpa [varNames] using ih

/-! ### the memo table of `PymbolicToASTMapper` is transparent on a coherent universe -/

/-- memo invariant: every stored node is the AST of its key -/
def AstInv (U : Expr → Prop) (s : AstCache) : Prop :=
  ∀ k v, (k, v) ∈ s → U k ∧ toAst k = .ok v

theorem astCache_find_some {e : Expr} {v : PyAst} : ∀ {s : AstCache}, AstCache.find e s = some v →
    ∃ k, (k, v) ∈ s ∧ Expr.keyEq k e = true
  | [], h => by simp [AstCache.find] at h
  | (k', v') :: rest, h => by
      simp only [AstCache.find] at h
      by_cases hk : Expr.keyEq k' e = true
      · simp [hk] at h; subst h; exact ⟨k', by simp, hk⟩
      · simp [hk] at h
        obtain ⟨k, hm, he⟩ := astCache_find_some (s := rest) h
        exact ⟨k, by simp [hm], he⟩

/-- `m` (with the memo table) computes `d` (without) from every state satisfying the invariant and
re-establishes it -/
def SimA (U : Expr → Prop) {α : Type} (m : AstM α) (d : Except AErr α) : Prop :=
  ∀ s, AstInv U s →
    match m s with
    | .ok (a, s') => d = .ok a ∧ AstInv U s'
    | .error e => d = .error e

section
variable {U : Expr → Prop}

theorem SimA.pure {α} (a : α) : SimA U (AstM.pure a) (.ok a) := fun _ h => ⟨rfl, h⟩

theorem SimA.throw {α} (e : AErr) : SimA U (AstM.throw e : AstM α) (.error e) := fun _ _ => rfl

theorem SimA.lift {α} (x : Except AErr α) : SimA U (AstM.lift x) x := by
  intro s h
  cases x with
  | ok a => exact ⟨rfl, h⟩
  | error e => rfl

theorem SimA.bind {α β} {m : AstM α} {d : Except AErr α} {f : α → AstM β}
    {g : α → Except AErr β} (hm : SimA U m d) (hf : ∀ a, SimA U (f a) (g a)) :
    SimA U (m >>= f) (d >>= g) := by
  intro s hs
  have h1 := hm s hs
  show match AstM.bind m f s with
    | .ok (a, s') => (d >>= g) = .ok a ∧ AstInv U s'
    | .error e => (d >>= g) = .error e
  unfold AstM.bind
  cases hms : m s with
  | error e =>
    rw [hms] at h1
    simp only [h1]; rfl
  | ok p =>
    obtain ⟨a, s1⟩ := p
    rw [hms] at h1
    obtain ⟨hd, i1⟩ := h1
    have h2 := hf a s1 i1
    simp only [hd]
    exact h2

/-- the memoising dispatch wrapper is transparent -/
theorem SimA.memo (hU : Universe U) {e : Expr} {k : AstM PyAst} (he : U e)
    (hk : SimA U k (toAst e)) : SimA U (withAstCache e k) (toAst e) := by
  intro s hs
  unfold withAstCache
  simp only [hU.nolist e he, Bool.false_eq_true, if_false]
  cases hf : AstCache.find e s with
  | some v =>
    obtain ⟨k', hmem, heq⟩ := astCache_find_some hf
    obtain ⟨hUk, hv⟩ := hs k' v hmem
    have : k' = e := hU.coherent k' e hUk he (keyEq_pyEq heq)
    subst this
    exact ⟨hv, hs⟩
  | none =>
    have h1 := hk s hs
    cases hks : k s with
    | error err => rw [hks] at h1; exact h1
    | ok p =>
      obtain ⟨r, s1⟩ := p
      rw [hks] at h1
      obtain ⟨hr, i1⟩ := h1
      refine ⟨hr, ?_⟩
      intro k' v' hm
      simp only [List.mem_cons, Prod.mk.injEq] at hm
      rcases hm with ⟨rfl, rfl⟩ | hm
      · exact ⟨he, hr⟩
      · exact i1 k' v' hm

theorem SimA.mapIdx {α} {f : Nat → AstM α} {g : Nat → Except AErr α}
    (h : ∀ i, SimA U (f i) (g i)) : ∀ is : List Nat, SimA U (mapIdxM f is) (mapIdxE g is)
  | [] => SimA.pure _
  | i :: is => by
      simp only [mapIdxM, mapIdxE]
      exact SimA.bind (h i) fun x => SimA.bind (SimA.mapIdx h is) fun xs => SimA.pure _

end

end PV
