import PV.Model.Traverse
import PV.Model.Eval
/-
  Subterm relation (reflexive-transitive closure of `Expr.children`) and the flag-free
  substitution function `substE` with its link to the coded `substM`.
-/
namespace PV

inductive Subterm : Expr → Expr → Prop
  | refl (e : Expr) : Subterm e e
  | step {t c e : Expr} : Subterm t c → c ∈ e.children → Subterm t e

theorem Subterm.child {c e : Expr} (h : c ∈ e.children) : Subterm c e :=
  .step (.refl c) h

theorem Subterm.trans {a b c : Expr} (h1 : Subterm a b) (h2 : Subterm b c) : Subterm a c := by
  induction h2 with
  | refl => exact h1
  | step _ hc ih => exact .step ih hc

mutual
/-- the substituted tree, rebuilt naively (no identity-preservation bookkeeping) -/
def substE (σ : SubstMap) : Expr → Expr
  | .var x => match σ.apply (.var x) with
    | some r => r
    | none => .var x
  | .subscript a i => match σ.apply (.subscript a i) with
    | some r => r
    | none => .subscript (substE σ a) (substE σ i)
  | .lookup a n => match σ.apply (.lookup a n) with
    | some r => r
    | none => .lookup (substE σ a) n
  | .const c => .const c
  | .nary o cs => .nary o (substEL σ cs)
  | .bin o a b => .bin o (substE σ a) (substE σ b)
  | .un o a => .un o (substE σ a)
  | .cmp o a b => .cmp o (substE σ a) (substE σ b)
  | .ite c t e => .ite (substE σ c) (substE σ t) (substE σ e)
  | .call f as => .call (substE σ f) (substEL σ as)
  | .callKw f as ns vs => .callKw (substE σ f) (substEL σ as) ns (substEL σ vs)
  | .cse c p s => if (substE σ c).isZero then zero else .cse (substE σ c) p s
  | .subst c vs xs => .subst (substE σ c) vs (substEL σ xs)
  | .deriv c vs => .deriv (substE σ c) vs
  | .slice cs => .slice (substEL σ cs)
  | .tuple cs => .tuple (substEL σ cs)
  | .list cs => .list (substEL σ cs)
  | .nan => .nan
  | .wildcard => .wildcard
  | .dotWild n => .dotWild n
  | .starWild n => .starWild n
  | .funcSym => .funcSym
def substEL (σ : SubstMap) : List Expr → List Expr
  | [] => []
  | c :: cs => substE σ c :: substEL σ cs
end

mutual
theorem substM_spec (σ : SubstMap) : ∀ e : Expr,
    (substM σ e).1 = substE σ e ∧ ((substM σ e).2 = false → substE σ e = e)
  | .var x => by
      simp only [substM, substE]
      cases σ.apply (.var x) <;> simp
  | .const _ => by simp [substM, substE]
  | .nan => by simp [substM, substE]
  | .wildcard => by simp [substM, substE]
  | .dotWild _ => by simp [substM, substE]
  | .starWild _ => by simp [substM, substE]
  | .funcSym => by simp [substM, substE]
  | .subscript a b => by
      have ha := substM_spec σ a
      have hb := substM_spec σ b
      simp only [substM, substE]
      cases σ.apply (.subscript a b) with
      | some r => simp
      | none =>
        revert ha hb
        generalize substM σ a = pa
        generalize substM σ b = pb
        obtain ⟨a', ca⟩ := pa
        obtain ⟨b', cb⟩ := pb
        rintro ⟨rfl, h1⟩ ⟨rfl, h2⟩
        cases ca <;> cases cb <;> simp_all
  | .lookup a n => by
      have ha := substM_spec σ a
      simp only [substM, substE]
      cases σ.apply (.lookup a n) with
      | some r => simp
      | none =>
        revert ha
        generalize substM σ a = pa
        obtain ⟨a', ca⟩ := pa
        rintro ⟨rfl, h1⟩
        cases ca <;> simp_all
  | .bin o a b => by
      have ha := substM_spec σ a
      have hb := substM_spec σ b
      simp only [substM, substE]
      revert ha hb
      generalize substM σ a = pa
      generalize substM σ b = pb
      obtain ⟨a', ca⟩ := pa
      obtain ⟨b', cb⟩ := pb
      rintro ⟨rfl, h1⟩ ⟨rfl, h2⟩
      cases ca <;> cases cb <;> simp_all
  | .cmp o a b => by
      have ha := substM_spec σ a
      have hb := substM_spec σ b
      simp only [substM, substE]
      revert ha hb
      generalize substM σ a = pa
      generalize substM σ b = pb
      obtain ⟨a', ca⟩ := pa
      obtain ⟨b', cb⟩ := pb
      rintro ⟨rfl, h1⟩ ⟨rfl, h2⟩
      cases ca <;> cases cb <;> simp_all
  | .un o a => by
      have ha := substM_spec σ a
      simp only [substM, substE]
      revert ha
      generalize substM σ a = pa
      obtain ⟨a', ca⟩ := pa
      rintro ⟨rfl, h1⟩
      cases ca <;> simp_all
  | .deriv a vs => by
      have ha := substM_spec σ a
      simp only [substM, substE]
      revert ha
      generalize substM σ a = pa
      obtain ⟨a', ca⟩ := pa
      rintro ⟨rfl, h1⟩
      cases ca <;> simp_all
  | .cse a p s => by
      have ha := substM_spec σ a
      simp only [substM, substE]
      revert ha
      generalize substM σ a = pa
      obtain ⟨a', ca⟩ := pa
      rintro ⟨rfl, h1⟩
      cases hz : (substE σ a).isZero <;> cases ca <;> simp_all
  | .ite a b c => by
      have ha := substM_spec σ a
      have hb := substM_spec σ b
      have hc := substM_spec σ c
      simp only [substM, substE]
      revert ha hb hc
      generalize substM σ a = pa
      generalize substM σ b = pb
      generalize substM σ c = pc
      obtain ⟨a', ca⟩ := pa
      obtain ⟨b', cb⟩ := pb
      obtain ⟨c', cc⟩ := pc
      rintro ⟨rfl, h1⟩ ⟨rfl, h2⟩ ⟨rfl, h3⟩
      cases ca <;> cases cb <;> cases cc <;> simp_all
  | .nary o cs => by
      have ha := substML_spec σ cs
      simp only [substM, substE]
      revert ha
      generalize substL σ cs = pa
      obtain ⟨a', ca⟩ := pa
      rintro ⟨rfl, h1⟩
      cases ca <;> simp_all
  | .slice cs => by
      have ha := substML_spec σ cs
      simp only [substM, substE]
      revert ha
      generalize substL σ cs = pa
      obtain ⟨a', ca⟩ := pa
      rintro ⟨rfl, h1⟩
      cases ca <;> simp_all
  | .tuple cs => by
      have ha := substML_spec σ cs
      simp only [substM, substE]
      revert ha
      generalize substL σ cs = pa
      obtain ⟨a', ca⟩ := pa
      rintro ⟨rfl, h1⟩
      cases ca <;> simp_all
  | .list cs => by
      have ha := substML_spec σ cs
      simp only [substM, substE]
      simp [ha.1]
  | .call a cs => by
      have ha := substM_spec σ a
      have hb := substML_spec σ cs
      simp only [substM, substE]
      revert ha hb
      generalize substM σ a = pa
      generalize substL σ cs = pb
      obtain ⟨a', ca⟩ := pa
      obtain ⟨b', cb⟩ := pb
      rintro ⟨rfl, h1⟩ ⟨rfl, h2⟩
      cases ca <;> cases cb <;> simp_all
  | .subst a vs cs => by
      have ha := substM_spec σ a
      have hb := substML_spec σ cs
      simp only [substM, substE]
      revert ha hb
      generalize substM σ a = pa
      generalize substL σ cs = pb
      obtain ⟨a', ca⟩ := pa
      obtain ⟨b', cb⟩ := pb
      rintro ⟨rfl, h1⟩ ⟨rfl, h2⟩
      cases ca <;> cases cb <;> simp_all
  | .callKw a bs ns cs => by
      have ha := substM_spec σ a
      have hb := substML_spec σ bs
      have hc := substML_spec σ cs
      simp only [substM, substE]
      revert ha hb hc
      generalize substM σ a = pa
      generalize substL σ bs = pb
      generalize substL σ cs = pc
      obtain ⟨a', ca⟩ := pa
      obtain ⟨b', cb⟩ := pb
      obtain ⟨c', cc⟩ := pc
      rintro ⟨rfl, h1⟩ ⟨rfl, h2⟩ ⟨rfl, h3⟩
      cases ca <;> cases cb <;> cases cc <;> simp_all
theorem substML_spec (σ : SubstMap) : ∀ cs : List Expr,
    (substL σ cs).1 = substEL σ cs ∧ ((substL σ cs).2 = false → substEL σ cs = cs)
  | [] => by simp [substL, substEL]
  | a :: cs => by
      have ha := substM_spec σ a
      have hb := substML_spec σ cs
      simp only [substL, substEL]
      revert ha hb
      generalize substM σ a = pa
      generalize substL σ cs = pb
      obtain ⟨a', ca⟩ := pa
      obtain ⟨b', cb⟩ := pb
      rintro ⟨rfl, h1⟩ ⟨rfl, h2⟩
      cases ca <;> cases cb <;> simp_all
end

end PV
