import PV.Proofs.SyntaxLexPieces
/-
  C06/C07.  The lexer on the rendered pieces of the printer: if every piece is lexed as itself in
  its context (`adjOk`, a decidable check on the piece list: shape of identifiers and float
  literals, and the character that follows each piece), then `lex (render ps) = .ok (toks ps)`.
-/
set_option linter.unusedSimpArgs false
namespace PV.Lexer
open PV


/-! ### pieces of the printer -/

def pieceChars : Piece → List Char
  | .tok t => t.text.toList
  | .sp => [' ']

theorem render_toList (ps : List Piece) : (render ps).toList = ps.flatMap pieceChars := by
  simp only [render, String.toList_join, List.flatMap_map]
  congr 1
  funext p
  cases p <;> rfl

def symEntry (s : List Char) : Option (List Char × String × (Char → Bool)) :=
  symTable.find? (fun e => e.1 == s)

/-- the float token that `floatTok` makes of the text `r` is `flt r n d` -/
def floatTokIs (r : String) (n : Int) (d : Nat) : Bool :=
  match floatTok r.toList with
  | .ok t => t == Tok.flt r n d
  | .error _ => false

/-- the piece, followed by `nx`, is lexed as itself -/
def pieceOk : Piece → Option Char → Bool
  | .sp, nx => nextNot isSpace nx
  | .tok (.sym s), nx =>
    match symEntry s.toList with
    | some e => nextNot e.2.2 nx
    | none => false
  | .tok (.int n), nx => decide ((Nat.toDigits 10 n).length ≤ 4300) && nextNot intStop nx
  | .tok (.ident s), nx => identOk s.toList && nextNot isIdCont nx
  | .tok .tTrue, nx => nextNot isWord nx
  | .tok .tFalse, nx => nextNot isWord nx
  | .tok (.flt r n d), nx => floatShape r.toList && floatTokIs r n d && nextNot isWord nx
  | .tok (.imag _), _ => false

/-- the lexed item a piece stands for -/
def pieceTag : Piece → String
  | .sp => "whitespace"
  | .tok (.sym s) => match symEntry s.toList with
    | some e => e.2.1
    | none => ""
  | .tok (.int _) => "int"
  | .tok (.ident _) => "identifier"
  | .tok .tTrue => "True"
  | .tok .tFalse => "False"
  | .tok (.flt ..) => "float"
  | .tok (.imag _) => "imaginary"

def pieceTok : Piece → Option Tok
  | .sp => none
  | .tok t => some t

theorem charIsDigit {c : Char} (h : c.isDigit = true) : isDigit c = true := by
  simp only [Char.isDigit, Bool.and_eq_true, decide_eq_true_eq] at h
  simp only [isDigit, Bool.and_eq_true, decide_eq_true_eq]
  have h1 : '0'.val ≤ c.val := h.1
  have h2 := h.2
  rw [UInt32.le_iff_toNat_le] at h1 h2
  exact ⟨h1, h2⟩


theorem symTable_nonempty : ∀ e ∈ symTable, e.1 ≠ [] := by decide

theorem symTable_tags : ∀ e ∈ symTable, e.2.1 ≠ "whitespace" ∧ e.2.1 ≠ "int" ∧ e.2.1 ≠ "float" ∧
    e.2.1 ≠ "imaginary" ∧ e.2.1 ≠ "identifier" ∧ e.2.1 ≠ "True" ∧ e.2.1 ≠ "False" := by decide

theorem symEntry_some {s : List Char} {e : List Char × String × (Char → Bool)}
    (h : symEntry s = some e) : e ∈ symTable ∧ e.1 = s := by
  unfold symEntry at h
  refine ⟨List.mem_of_find?_eq_some h, ?_⟩
  have := List.find?_some h
  simpa using this

theorem tokOf_sym {tag : String} {s : List Char} (h : tag ≠ "whitespace" ∧ tag ≠ "int" ∧
    tag ≠ "float" ∧ tag ≠ "imaginary" ∧ tag ≠ "identifier" ∧ tag ≠ "True" ∧ tag ≠ "False") :
    tokOf (tag, s) = .ok (some (.sym (String.ofList s))) := by
  obtain ⟨h1, h2, h3, h4, h5, h6, h7⟩ := h
  simp [tokOf, h1, h2, h3, h4, h5, h6, h7, pure, Except.pure]

theorem piece_step {p : Piece} {rest : List Char} (h : pieceOk p rest.head? = true) :
    firstC rulesC (pieceChars p ++ rest) = some (pieceTag p, (pieceChars p).length) ∧
    pieceChars p ≠ [] ∧ tokOf (pieceTag p, pieceChars p) = .ok (pieceTok p) := by
  cases p with
  | sp =>
    simp only [pieceOk] at h
    exact ⟨sp_step rest h, by simp [pieceChars], rfl⟩
  | tok t =>
    cases t with
    | int n =>
      simp only [pieceOk, Bool.and_eq_true, decide_eq_true_eq] at h
      have hch : pieceChars (.tok (.int n)) = Nat.toDigits 10 n := by
        simp [pieceChars, Tok.text]
      rw [hch]
      have hdig : ∀ c ∈ Nat.toDigits 10 n, isDigit c = true := fun c hc =>
        charIsDigit (Nat.isDigit_of_mem_toDigits (by decide) (by decide) hc)
      cases hds : Nat.toDigits 10 n with
      | nil => exact absurd hds Nat.toDigits_ne_nil
      | cons d ds =>
        rw [hds] at hdig h
        refine ⟨?_, by simp, ?_⟩
        · exact int_step (hdig d (List.mem_cons_self ..))
            (fun c hc => hdig c (List.mem_cons_of_mem _ hc)) h.2
        · have hv : Nat.ofDigitChars 10 (d :: ds) 0 = n := by
            rw [← hds]; exact Nat.ofDigitChars_ten_toDigits
          have hl : ¬ (d :: ds).length > 4300 := by omega
          simp only [pieceTag, tokOf, hl, hv, pieceTok, pure, Except.pure]
          simp
    | flt r n d =>
      simp only [pieceOk, Bool.and_eq_true] at h
      obtain ⟨⟨hsh, htk⟩, hn⟩ := h
      have hch : pieceChars (.tok (.flt r n d)) = r.toList := rfl
      rw [hch]
      refine ⟨float_step hsh hn, ?_, ?_⟩
      · obtain ⟨d', ds, _, _, hc⟩ := floatShape_inv hsh
        rcases hc with ⟨_, _, _, _, h | ⟨_, _, _, _, _, _, h⟩⟩ | ⟨_, _, _, _, _, _, h⟩ <;>
          rw [h] <;> simp
      · unfold floatTokIs at htk
        cases hf : floatTok r.toList with
        | error e => rw [hf] at htk; cases htk
        | ok t =>
          rw [hf] at htk
          have : t = Tok.flt r n d := by simpa using htk
          subst this
          simp [pieceTag, tokOf, hf, pieceTok, bind, Except.bind, pure, Except.pure]
    | imag s => simp [pieceOk] at h
    | ident s =>
      simp only [pieceOk, Bool.and_eq_true] at h
      have hch : pieceChars (.tok (.ident s)) = s.toList := rfl
      rw [hch]
      cases hs : s.toList with
      | nil => rw [hs] at h; simp [identOk] at h
      | cons c r =>
        rw [hs] at h
        refine ⟨ident_step h.1 h.2, by simp, ?_⟩
        have : String.ofList (c :: r) = s := by rw [← hs, String.ofList_toList]
        simp [pieceTag, tokOf, pieceTok, this, pure, Except.pure]
    | tTrue =>
      have hch : pieceChars (.tok .tTrue) = ['T', 'r', 'u', 'e'] := by decide
      rw [hch]
      simp only [pieceOk] at h
      exact ⟨true_step rest h, by simp, by simp [pieceTag, tokOf, pieceTok, pure, Except.pure]⟩
    | tFalse =>
      have hch : pieceChars (.tok .tFalse) = ['F', 'a', 'l', 's', 'e'] := by decide
      rw [hch]
      simp only [pieceOk] at h
      exact ⟨false_step rest h, by simp, by simp [pieceTag, tokOf, pieceTok, pure, Except.pure]⟩
    | sym s =>
      simp only [pieceOk] at h
      have hch : pieceChars (.tok (.sym s)) = s.toList := rfl
      rw [hch]
      cases he : symEntry s.toList with
      | none => rw [he] at h; cases h
      | some e =>
        rw [he] at h
        obtain ⟨hm, h1⟩ := symEntry_some he
        obtain ⟨txt, tag, bad⟩ := e
        simp only at h1 h
        subst h1
        refine ⟨?_, symTable_nonempty _ hm, ?_⟩
        · simpa [pieceTag, he] using sym_step hm rest h
        · have := tokOf_sym (s := s.toList) (symTable_tags _ hm)
          simp only at this
          simp [pieceTag, he, this, pieceTok, String.ofList_toList]


/-! ### the loop -/

/-- first character of what follows: of the next piece, or `nx` after the last piece -/
def nextCharN : List Piece → Option Char → Option Char
  | [], nx => nx
  | q :: _, _ => (pieceChars q).head?

/-- every piece of the list is lexed as itself in its context; `nx` follows the last piece -/
def adjOkN : List Piece → Option Char → Bool
  | [], _ => true
  | p :: ps, nx => pieceOk p (nextCharN ps nx) && adjOkN ps nx

/-- the decidable condition of `lex_render`: the pieces of a printed form, as a whole string -/
def adjOk (ps : List Piece) : Bool := adjOkN ps none

theorem pieceOk_nonempty {p : Piece} {nx : Option Char} (h : pieceOk p nx = true) :
    pieceChars p ≠ [] := by
  have : nx = (match nx with | some c => [c] | none => ([] : List Char)).head? := by
    cases nx <;> rfl
  rw [this] at h
  exact (piece_step h).2.1

theorem head_flatMap : ∀ {ps : List Piece} {nx : Option Char}, adjOkN ps nx = true →
    ∀ rest : List Char, rest.head? = nx → (ps.flatMap pieceChars ++ rest).head? = nextCharN ps nx
  | [], _, _, rest, hr => by simpa [nextCharN] using hr
  | p :: ps, nx, h, rest, _ => by
    simp only [adjOkN, Bool.and_eq_true] at h
    have := pieceOk_nonempty h.1
    cases hp : pieceChars p with
    | nil => exact absurd hp this
    | cons c r => simp [nextCharN, hp]

theorem lexLoop_step {tbl : LexTable} {fuel i : Nat} {cs : List Char} {tag : String} {n : Nat}
    (hne : cs ≠ []) (hf : firstMatch tbl tbl cs = some (tag, n)) :
    lexLoop tbl (fuel + 1) i cs =
      (lexLoop tbl fuel (i + n) (cs.drop n)).map (fun r => (tag, cs.take n) :: r) := by
  cases cs with
  | nil => exact absurd rfl hne
  | cons c cs =>
    simp only [lexLoop, hf]
    cases lexLoop tbl fuel (i + n) (List.drop n (c :: cs)) <;> rfl

theorem lex_pieces : ∀ (ps : List Piece) (fuel i : Nat), adjOkN ps none = true →
    (ps.flatMap pieceChars).length ≤ fuel →
    ∃ raws, lexLoop table fuel i (ps.flatMap pieceChars) = .ok raws ∧ toksOf raws = .ok (toks ps)
  | [], fuel, i, _, _ => ⟨[], by cases fuel <;> simp [lexLoop, pure, Except.pure], rfl⟩
  | p :: ps, fuel, i, h, hfuel => by
    simp only [adjOkN, Bool.and_eq_true] at h
    obtain ⟨hp, hps⟩ := h
    have hhead := head_flatMap hps [] rfl
    simp only [List.append_nil] at hhead
    rw [← hhead] at hp
    obtain ⟨hstep, hne, htok⟩ := piece_step hp
    simp only [List.flatMap_cons] at hfuel ⊢
    have hpos : 0 < (pieceChars p).length := List.length_pos_iff.mpr hne
    cases fuel with
    | zero => simp only [List.length_append] at hfuel; omega
    | succ fuel =>
      have hf : firstMatch table table (pieceChars p ++ ps.flatMap pieceChars)
          = some (pieceTag p, (pieceChars p).length) := by rw [firstMatch_table]; exact hstep
      rw [lexLoop_step (by simp [hne]) hf]
      obtain ⟨raws, hl, ht⟩ := lex_pieces ps fuel (i + (pieceChars p).length) hps (by
        simp only [List.length_append] at hfuel; omega)
      refine ⟨(pieceTag p, pieceChars p) :: raws, ?_, ?_⟩
      · simp [hl, Except.map]
      · simp only [toksOf, htok, ht, bind, Except.bind, pure, Except.pure]
        cases p <;> simp [pieceTok, toks]

theorem tableOk_table : tableOk table = true := by decide

/-- **the lexer reads a rendered piece list back as its tokens** -/
theorem lex_render_of_adjOk {ps : List Piece} (h : adjOk ps = true) :
    lex (render ps) = .ok (toks ps) := by
  obtain ⟨raws, hl, ht⟩ := lex_pieces ps (ps.flatMap pieceChars).length 0 h (Nat.le_refl _)
  simp only [lex, lexWith, lexRawWith, tableOk_table, if_true, render_toList, hl, bind, Except.bind, ht]


end PV.Lexer
