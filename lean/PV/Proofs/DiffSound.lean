import PV.Proofs.DiffEval
import Mathlib.Analysis.Calculus.Deriv.Add
import Mathlib.Analysis.Calculus.Deriv.Mul
import Mathlib.Analysis.Calculus.Deriv.Inv
import Mathlib.Analysis.Calculus.Deriv.Pow
import Mathlib.Analysis.Calculus.Deriv.Comp
import Mathlib.Analysis.Calculus.Deriv.Abs
import Mathlib.Analysis.SpecialFunctions.ExpDeriv
import Mathlib.Analysis.SpecialFunctions.Log.Deriv
import Mathlib.Analysis.SpecialFunctions.Trigonometric.Deriv
import Mathlib.Analysis.SpecialFunctions.Trigonometric.DerivHyp
import Mathlib.Analysis.SpecialFunctions.Trigonometric.ArctanDeriv
import Mathlib.Analysis.SpecialFunctions.Pow.Deriv
/-
  C10, part 2.  The differentiator model computes real derivatives: `diff_sound`.
-/
namespace PV

open Real Filter Topology

/-- the environment with every leaf that is Python-`==` to `v` set to `t` -/
def updL (ρ : Expr → ℝ) (v : Expr) (t : ℝ) : Expr → ℝ :=
  fun l => if l.pyEq v then t else ρ l

/-- where the functions of the table are differentiable (and defined in Python) -/
def DomCall : Option MathFn → List ℝ → Prop
  | some .log, [a] => 0 < a
  | some .tan, [a] => Real.cos a ≠ 0
  | some .fabs, [a] => a ≠ 0
  | some .copysign, [_, b] => b ≠ 0
  | _, _ => True

mutual
/-- The point `ρ` (where the leaves `== v` have the value `t0`) lies in the domain of `e`:
denominators are nonzero, bases of powers are positive unless the exponent is an integer literal
`n` (then: nonzero, or `n ≥ 0`), `log` arguments are positive, `cos ≠ 0` under `tan`, arguments of
`fabs` and sign arguments of `copysign` are nonzero, and the truth value of the condition of an
`If` does not change when `v` moves in a neighbourhood of `t0`. -/
def Dom (v : Expr) (t0 : ℝ) (ρ : Expr → ℝ) : Expr → Prop
  | .nary .sum cs => DomL v t0 ρ cs
  | .nary .prod cs => DomL v t0 ρ cs
  | .bin .quot a b => Dom v t0 ρ a ∧ Dom v t0 ρ b ∧ evalR ρ b ≠ 0
  | .bin .pow a b => Dom v t0 ρ a ∧ Dom v t0 ρ b ∧
      (0 < evalR ρ a ∨ ∃ n : ℤ, b = .const (.int n) ∧ (evalR ρ a ≠ 0 ∨ 0 ≤ n))
  | .ite c t e =>
      (∀ᶠ s in 𝓝 t0, (evalR (updL ρ v s) c = 0 ↔ evalR ρ c = 0)) ∧
      (evalR ρ c = 0 → Dom v t0 ρ e) ∧ (evalR ρ c ≠ 0 → Dom v t0 ρ t)
  | .call f args => DomL v t0 ρ args ∧ DomCall (callFn? f) (evalArgs ρ args)
  | .cse c _ _ => Dom v t0 ρ c
  | _ => True
def DomL (v : Expr) (t0 : ℝ) (ρ : Expr → ℝ) : List Expr → Prop
  | [] => True
  | c :: cs => Dom v t0 ρ c ∧ DomL v t0 ρ cs
end

mutual
/-- every `copysign(a, b)` in the tree has a numeric literal as its first argument (as in
`pymbolic.functions.sign`): the shape on which the table's answer `0` is right -/
def csOk : Expr → Bool
  | .nary _ cs => csOkL cs
  | .bin _ a b => csOk a && csOk b
  | .ite _ t e => csOk t && csOk e
  | .call f args => csOkL args && (match mathFn? f, args with
      | some .copysign, [a, _] => a.isConstant
      | _, _ => true)
  | .cse c _ _ => csOk c
  | _ => true
def csOkL : List Expr → Bool
  | [] => true
  | c :: cs => csOk c && csOkL cs
end

/-! ### small tools -/

theorem except_bind_ok {ε α β : Type} {x : Except ε α} {f : α → Except ε β} {b : β}
    (h : (x >>= f) = .ok b) : ∃ a, x = .ok a ∧ f a = .ok b := by
  cases x with
  | error e => simp [Bind.bind, Except.bind] at h
  | ok a => exact ⟨a, rfl, h⟩

theorem liftOp_ok {x : OpR} {d : Expr} (h : liftOp x = .ok d) : x = .ok d := by
  cases x with
  | error e => simp [liftOp] at h
  | ok a => simp only [liftOp] at h; injection h with h; subst h; rfl

theorem isNode_not_const {x : Expr} (h : x.isNode = true) : x.isConstant = false := by
  cases x <;> simp_all [Expr.isNode, Expr.isConstant]

theorem bin_pow_eval_node (ρ : Expr → ℝ) {x y t : Expr} (hx : x.isNode = true)
    (h : Ops.bin .pow x y = .ok t) : evalR ρ t = evalR ρ x ^ evalR ρ y :=
  dispatch_eval ρ (· ^ ·) (powD_eval ρ)
    (fun h => by
      unfold rpowD at h
      simp [isNode_not_const hx] at h) h

theorem pyBin_pow_eval_node (ρ : Expr → ℝ) {a b t : Expr} (ha : a.isNode = true)
    (h : pyBin .pow a b = .ok t) : evalR ρ t = evalR ρ a ^ evalR ρ b := by
  unfold pyBin at h
  split at h
  · simp [Expr.isNode] at ha
  · exact bin_pow_eval_node ρ ha h

theorem callFn_mathf (fn : MathFn) : callFn? (mathf fn) = some fn := by
  cases fn <;> rfl

theorem callFn_of_mathFn {f : Expr} {fn : MathFn} (h : mathFn? f = some fn) :
    callFn? f = some fn := by
  cases f <;> simp_all [mathFn?, callFn?]

theorem evalR_logCall (ρ : Expr → ℝ) (f : Expr) : evalR ρ (logCall f) = Real.log (evalR ρ f) := by
  simp [logCall, evalR, callFn?, evalArgs, evalCall]

theorem evalR_mcall1 (ρ : Expr → ℝ) (fn : MathFn) (p : Expr) :
    evalR ρ (mcall fn [p]) = evalCall (some fn) [evalR ρ p] := by
  simp only [mcall, evalR, callFn_mathf, evalArgs]

/-- the CSE handler: a tree that `is_zero` accepts denotes 0, so answering the literal `0` for it
(instead of a wrapper around it) does not change the value -/
theorem evalR_cseRule (ρ : Expr → ℝ) (d : Expr) (p : Option String) (s : String) :
    evalR ρ (cseRule d p s) = evalR ρ d := by
  unfold cseRule
  split
  · rename_i hz
    rw [isZero_eval ρ hz, evalR_zero]
  · simp only [evalR]

/-! ### the rules evaluate to the textbook formulas -/

theorem quotRule_eval (ρ : Expr → ℝ) {f g df dg d : Expr} (h : quotRule f g df dg = .ok d)
    (hg : evalR ρ g ≠ 0) :
    evalR ρ d =
      (evalR ρ df * evalR ρ g - evalR ρ f * evalR ρ dg) / evalR ρ g ^ 2 := by
  have hne : evalR ρ g ≠ 0 ∨ evalR ρ two ≠ 0 := Or.inl hg
  unfold quotRule at h
  split at h
  · rename_i hc
    simp only [Bool.and_eq_true] at hc
    simp only [pure, Except.pure] at h
    injection h with h; subst h
    simp [not_truthy_eval ρ hc.1, not_truthy_eval ρ hc.2]
  · split at h
    · rename_i _ hdf
      obtain ⟨nf, h1, h⟩ := except_bind_ok h
      obtain ⟨a, h2, h⟩ := except_bind_ok h
      obtain ⟨g2, h3, h⟩ := except_bind_ok h
      rw [pyBin_div_eval ρ h, pyBin_mul_eval ρ h2, pyNeg_eval ρ h1, pyBin_pow_eval ρ h3 hne,
        evalR_two, Real.rpow_two, not_truthy_eval ρ hdf]
      ring
    · split at h
      · rename_i _ _ hdg
        rw [pyBin_div_eval ρ h, not_truthy_eval ρ hdg]
        field_simp
        ring
      · obtain ⟨a, h1, h⟩ := except_bind_ok h
        obtain ⟨b, h2, h⟩ := except_bind_ok h
        obtain ⟨n, h3, h⟩ := except_bind_ok h
        obtain ⟨g2, h4, h⟩ := except_bind_ok h
        rw [pyBin_div_eval ρ h, pyBin_sub_eval ρ h3, pyBin_mul_eval ρ h1, pyBin_mul_eval ρ h2,
          pyBin_pow_eval ρ h4 hne, evalR_two, Real.rpow_two]
        ring

theorem powRule_eval_pos (ρ : Expr → ℝ) {f g df dg d : Expr} (h : powRule f g df dg = .ok d)
    (hf : 0 < evalR ρ f) :
    evalR ρ d =
      evalR ρ df * evalR ρ g * evalR ρ f ^ (evalR ρ g - 1)
        + evalR ρ dg * evalR ρ f ^ evalR ρ g * Real.log (evalR ρ f) := by
  have hne : ∀ y : ℝ, evalR ρ f ≠ 0 ∨ y ≠ 0 := fun _ => Or.inl hf.ne'
  unfold powRule at h
  split at h
  · rename_i hc
    simp only [Bool.and_eq_true] at hc
    simp only [pure, Except.pure] at h
    injection h with h; subst h
    simp [not_truthy_eval ρ hc.1, not_truthy_eval ρ hc.2]
  · split at h
    · rename_i _ hdf
      obtain ⟨p, h1, h⟩ := except_bind_ok h
      obtain ⟨a, h2, h⟩ := except_bind_ok h
      rw [pyBin_mul_eval ρ h, pyBin_mul_eval ρ h2, pyBin_pow_eval ρ h1 (hne _), evalR_logCall,
        not_truthy_eval ρ hdf]
      ring
    · split at h
      · rename_i _ _ hdg
        obtain ⟨g1, h1, h⟩ := except_bind_ok h
        obtain ⟨p, h2, h⟩ := except_bind_ok h
        obtain ⟨a, h3, h⟩ := except_bind_ok h
        rw [pyBin_mul_eval ρ h, pyBin_mul_eval ρ h3, pyBin_pow_eval ρ h2 (hne _),
          pyBin_sub_eval ρ h1, evalR_one, not_truthy_eval ρ hdg]
        ring
      · obtain ⟨p, h1, h⟩ := except_bind_ok h
        obtain ⟨a, h2, h⟩ := except_bind_ok h
        obtain ⟨l, h3, h⟩ := except_bind_ok h
        obtain ⟨g1, h4, h⟩ := except_bind_ok h
        obtain ⟨p1, h5, h⟩ := except_bind_ok h
        obtain ⟨b, h6, h⟩ := except_bind_ok h
        obtain ⟨r, h7, h⟩ := except_bind_ok h
        rw [pyBin_add_eval ρ h, pyBin_mul_eval ρ h3, pyBin_mul_eval ρ h2,
          pyBin_pow_eval ρ h1 (hne _), evalR_logCall, pyBin_mul_eval ρ h7, pyBin_mul_eval ρ h6,
          pyBin_pow_eval ρ h5 (hne _), pyBin_sub_eval ρ h4, evalR_one]
        ring

/-- exponent an integer literal: the derivative of the exponent is the literal `0` -/
theorem powRule_eval_const (ρ : Expr → ℝ) {f df d : Expr} {n : ℤ}
    (h : powRule f (.const (.int n)) df zero = .ok d)
    (hnode : df.truthy = true → f.isNode = true) :
    evalR ρ d = evalR ρ df * (n : ℝ) * evalR ρ f ^ ((n : ℝ) - 1) := by
  have hz : zero.truthy = false := rfl
  unfold powRule at h
  simp only [hz, Bool.not_false, Bool.and_true] at h
  split at h
  · rename_i hdf
    simp only [pure, Except.pure] at h
    injection h with h; subst h
    simp [not_truthy_eval ρ hdf]
  · rename_i hdf
    simp only [Bool.not_eq_true', Bool.not_eq_false] at hdf
    simp only [if_true] at h
    obtain ⟨g1, h1, h⟩ := except_bind_ok h
    obtain ⟨p, h2, h⟩ := except_bind_ok h
    obtain ⟨a, h3, h⟩ := except_bind_ok h
    rw [pyBin_mul_eval ρ h, pyBin_mul_eval ρ h3, pyBin_pow_eval_node ρ (hnode hdf) h2,
      pyBin_sub_eval ρ h1, evalR_one]
    simp only [evalR, Const.toReal]
    ring

theorem quotientOne_eval (ρ : Expr → ℝ) {p fm : Expr} (h : quotientOne p = .ok fm) :
    evalR ρ fm = 1 / evalR ρ p := by
  unfold quotientOne at h
  split at h
  · split at h
    · rename_i n hn
      simp only [pure, Except.pure] at h
      injection h with h; subst h
      simp only [beq_iff_eq] at hn; subst hn
      simp [evalR, Const.toReal]
    · split at h <;> simp [throw, throwThe, MonadExceptOf.throw] at h
  · split at h
    · rename_i b hb
      simp only [pure, Except.pure] at h
      injection h with h; subst h
      subst hb
      simp [evalR, Const.toReal]
    · simp [throw, throwThe, MonadExceptOf.throw] at h
  · split at h
    · rename_i r n d h1
      simp only [pure, Except.pure] at h
      injection h with h; subst h
      rw [isOne_eval ρ (e := .const (.flt r n d)) (by simpa [Expr.isOne] using h1)]
      simp
    · simp only [pure, Except.pure] at h
      injection h with h; subst h
      simp [evalR]
  all_goals first
    | (simp [throw, throwThe, MonadExceptOf.throw] at h; done)
    | (simp only [pure, Except.pure] at h
       injection h with h; subst h
       simp [evalR])

/-! ### calculus facts not in Mathlib in this form -/

theorem hasDerivAt_tanh (x : ℝ) : HasDerivAt Real.tanh (1 - Real.tanh x ^ 2) x := by
  have hc : Real.cosh x ≠ 0 := (Real.cosh_pos x).ne'
  have h : HasDerivAt (fun y => Real.sinh y / Real.cosh y)
      ((Real.cosh x * Real.cosh x - Real.sinh x * Real.sinh x) / Real.cosh x ^ 2) x :=
    (Real.hasDerivAt_sinh x).fun_div (Real.hasDerivAt_cosh x) hc
  have e : Real.tanh = fun y => Real.sinh y / Real.cosh y := funext Real.tanh_eq_sinh_div_cosh
  have e2 : (Real.cosh x * Real.cosh x - Real.sinh x * Real.sinh x) / Real.cosh x ^ 2
      = 1 - Real.tanh x ^ 2 := by
    rw [Real.tanh_eq_sinh_div_cosh]
    field_simp
  rw [← e2, e]; exact h

theorem hasDerivAt_tan' {x : ℝ} (hx : Real.cos x ≠ 0) :
    HasDerivAt Real.tan (Real.tan x ^ 2 + 1) x := by
  have h := Real.hasDerivAt_tan hx
  have e2 : 1 / Real.cos x ^ 2 = Real.tan x ^ 2 + 1 := by
    rw [Real.tan_eq_sin_div_cos]
    have := Real.sin_sq_add_cos_sq x
    field_simp
    linarith
  rw [← e2]; exact h


/-! ### the function table -/

theorem call1_sound (cfg : Smooth) (ρ : Expr → ℝ) (t0 : ℝ) {f p fm : Expr} {dP : ℝ} {g : ℝ → ℝ}
    (hfm : funcMap cfg f [p] = .ok fm) (hg : HasDerivAt g dP t0) (hgP : g t0 = evalR ρ p)
    (hdc : DomCall (callFn? f) [evalR ρ p]) :
    HasDerivAt (fun t => evalCall (callFn? f) [g t]) (evalR ρ fm * dP) t0 := by
  cases hmf : mathFn? f with
  | none => simp [funcMap, hmf, throw, throwThe, MonadExceptOf.throw] at hfm
  | some fn =>
    have hcf := callFn_of_mathFn hmf
    rw [hcf] at hdc ⊢
    cases fn <;> simp only [funcMap, hmf] at hfm
    · -- sin
      simp only [pure, Except.pure] at hfm; injection hfm with hfm; subst hfm
      have := hg.sin
      rw [hgP] at this
      simpa [evalR_mcall1, evalCall] using this
    · -- cos
      have hfm := liftOp_ok hfm
      have := hg.cos
      rw [hgP] at this
      simpa [negE_eval ρ hfm, evalR_mcall1, evalCall] using this
    · -- tan
      have hfm := liftOp_ok hfm
      obtain ⟨sq, h1, h2⟩ := except_bind_ok hfm
      simp only [DomCall] at hdc
      have := (hasDerivAt_tan' (x := g t0) (by rw [hgP]; exact hdc)).comp t0 hg
      rw [hgP] at this
      rw [pyBin_add_eval ρ h2, pyBin_pow_eval ρ h1 (Or.inr (by simp)), evalR_two, Real.rpow_two,
        evalR_one, evalR_mcall1]
      simpa [evalCall, Function.comp_def] using this
    · -- log
      simp only [DomCall] at hdc
      have := hg.log (by rw [hgP]; exact hdc.ne')
      rw [hgP] at this
      rw [quotientOne_eval ρ hfm]
      simpa [evalCall, div_eq_mul_inv, mul_comm] using this
    · -- exp
      simp only [pure, Except.pure] at hfm; injection hfm with hfm; subst hfm
      have := hg.exp
      rw [hgP] at this
      simpa [evalR_mcall1, evalCall] using this
    · -- sinh
      simp only [pure, Except.pure] at hfm; injection hfm with hfm; subst hfm
      have := hg.sinh
      rw [hgP] at this
      simpa [evalR_mcall1, evalCall] using this
    · -- cosh
      simp only [pure, Except.pure] at hfm; injection hfm with hfm; subst hfm
      have := hg.cosh
      rw [hgP] at this
      simpa [evalR_mcall1, evalCall] using this
    · -- tanh
      have hfm := liftOp_ok hfm
      obtain ⟨sq, h1, h2⟩ := except_bind_ok hfm
      have := (hasDerivAt_tanh (g t0)).comp t0 hg
      rw [hgP] at this
      rw [pyBin_sub_eval ρ h2, pyBin_pow_eval ρ h1 (Or.inr (by simp)), evalR_two, Real.rpow_two,
        evalR_one, evalR_mcall1]
      simpa [evalCall, Function.comp_def] using this
    · -- expm1
      simp only [pure, Except.pure] at hfm; injection hfm with hfm; subst hfm
      have := hg.exp.sub_const 1
      rw [hgP] at this
      simpa [evalR_mcall1, evalCall] using this
    · -- fabs
      split at hfm
      · simp only [pure, Except.pure] at hfm; injection hfm with hfm; subst hfm
        simp only [DomCall] at hdc
        have := (hasDerivAt_abs (x := g t0) (by rw [hgP]; exact hdc)).comp t0 hg
        rw [hgP] at this
        have es : evalR ρ (mcall .copysign [one, p]) = (SignType.sign (evalR ρ p) : ℝ) := by
          simp only [mcall, evalR, callFn_mathf, evalArgs, evalCall, Const.toReal, one]
          rcases lt_trichotomy (evalR ρ p) 0 with hlt | heq | hgt
          · simp [hlt, not_lt.mpr hlt.le, sign_neg hlt]
          · exact absurd heq hdc
          · simp [hgt, sign_pos hgt]
        rw [es]
        simpa [evalCall, Function.comp_def] using this
      · simp [throw, throwThe, MonadExceptOf.throw] at hfm
    · -- copysign with one argument
      simp [throw, throwThe, MonadExceptOf.throw] at hfm
/-- two arguments: only `copysign` (under "discontinuous"); with a literal first argument the
function is locally constant where the sign argument is nonzero, and the table's `0` is right -/
theorem call2_sound (cfg : Smooth) (ρ : Expr → ℝ) (t0 : ℝ) {f a b fm : Expr} {dB : ℝ}
    {g : ℝ → ℝ} (A : ℝ)
    (hfm : funcMap cfg f [a, b] = .ok fm) (hg : HasDerivAt g dB t0) (hgB : g t0 = evalR ρ b)
    (hdc : DomCall (callFn? f) [A, evalR ρ b]) :
    cfg = .discontinuous ∧ mathFn? f = some .copysign ∧ evalR ρ fm = 0 ∧
      HasDerivAt (fun t => evalCall (callFn? f) [A, g t]) 0 t0 := by
  cases hmf : mathFn? f with
  | none => simp [funcMap, hmf, throw, throwThe, MonadExceptOf.throw] at hfm
  | some fn =>
    have hcf := callFn_of_mathFn hmf
    rw [hcf] at hdc ⊢
    cases fn <;> simp only [funcMap, hmf] at hfm <;>
      try (simp [throw, throwThe, MonadExceptOf.throw] at hfm; done)
    split at hfm
    · simp only [pure, Except.pure] at hfm; injection hfm with hfm; subst hfm
      refine ⟨‹cfg = Smooth.discontinuous›, rfl, evalR_zero ρ, ?_⟩
      simp only [DomCall] at hdc
      have hc : ContinuousAt g t0 := hg.continuousAt
      rcases lt_or_gt_of_ne hdc with hlt | hgt
      · have hev : ∀ᶠ t in 𝓝 t0, g t < 0 := hc.eventually_lt continuousAt_const (by rw [hgB]; exact hlt)
        have heq : (fun t => evalCall (some MathFn.copysign) [A, g t]) =ᶠ[𝓝 t0] fun _ => -|A| := by
          filter_upwards [hev] with t ht
          simp [evalCall, ht, not_lt.mpr ht.le]
        exact (hasDerivAt_const t0 (-|A|)).congr_of_eventuallyEq heq
      · have hev : ∀ᶠ t in 𝓝 t0, 0 < g t := continuousAt_const.eventually_lt hc (by rw [hgB]; exact hgt)
        have heq : (fun t => evalCall (some MathFn.copysign) [A, g t]) =ᶠ[𝓝 t0] fun _ => |A| := by
          filter_upwards [hev] with t ht
          simp [evalCall, ht]
        exact (hasDerivAt_const t0 (|A|)).congr_of_eventuallyEq heq
    · simp [throw, throwThe, MonadExceptOf.throw] at hfm
/-! ### the main induction -/

section
variable (cfg : Smooth) (v : Expr) (ρ : Expr → ℝ) (t0 : ℝ)

theorem updL_self (hfix : ∀ l, l.pyEq v = true → ρ l = t0) : updL ρ v t0 = ρ := by
  funext l
  unfold updL
  split
  · exact (hfix l ‹_›).symm
  · rfl

theorem hasDerivAt_leaf (l : Expr) (hl : ∀ ρ', evalR ρ' l = ρ' l) :
    HasDerivAt (fun t => evalR (updL ρ v t) l)
      (evalR ρ (if l.pyEq v then one else zero)) t0 := by
  cases hpe : l.pyEq v
  · have e : (fun t => evalR (updL ρ v t) l) = fun _ => ρ l := by
      funext t; rw [hl]; simp [updL, hpe]
    rw [e]; simpa using hasDerivAt_const t0 (ρ l)
  · have e : (fun t => evalR (updL ρ v t) l) = fun t => t := by
      funext t; rw [hl]; simp [updL, hpe]
    rw [e]; simpa using hasDerivAt_id' t0

/-- a truthy derivative comes from a node (constants differentiate to the literal 0) -/
theorem diff_truthy_isNode {f df : Expr} (h : diff cfg v f = .ok df) (ht : df.truthy = true) :
    f.isNode = true := by
  cases f <;> simp only [Expr.isNode] <;> simp only [diff] at h
  · split at h
    · simp only [pure, Except.pure] at h
      injection h with h; subst h
      simp [zero, Expr.truthy, Const.truthy] at ht
    · simp [throw, throwThe, MonadExceptOf.throw] at h
  · simp [throw, throwThe, MonadExceptOf.throw] at h
  · simp [throw, throwThe, MonadExceptOf.throw] at h

variable (hfix : ∀ l, l.pyEq v = true → ρ l = t0)
include hfix

mutual
theorem diff_sound : ∀ (e d : Expr), diff cfg v e = .ok d →
    (cfg = .discontinuous → csOk e = true) → Dom v t0 ρ e →
    HasDerivAt (fun t => evalR (updL ρ v t) e) (evalR ρ d) t0
  | .const c, d, h, _, _ => by
      simp only [diff] at h
      split at h
      · simp only [pure, Except.pure] at h
        injection h with h; subst h
        simpa [evalR] using hasDerivAt_const t0 c.toReal
      · simp [throw, throwThe, MonadExceptOf.throw] at h
  | .var n, d, h, _, _ => by
      simp only [diff, pure, Except.pure] at h
      injection h with h; subst h
      exact hasDerivAt_leaf v ρ t0 (.var n) (fun ρ' => by simp only [evalR])
  | .subscript a i, d, h, _, _ => by
      simp only [diff] at h
      split at h
      · simp [throw, throwThe, MonadExceptOf.throw] at h
      · simp only [pure, Except.pure] at h
        injection h with h; subst h
        exact hasDerivAt_leaf v ρ t0 (.subscript a i) (fun ρ' => by simp only [evalR])
  | .nary .sum cs, d, h, hcs, hd => by
      simp only [diff] at h
      obtain ⟨ds, h1, h⟩ := except_bind_ok h
      simp only [pure, Except.pure] at h
      injection h with h; subst h
      simp only [Dom] at hd
      have := diffL_sound cs ds h1 (fun hc => by simpa [csOk] using hcs hc) hd
      simpa [evalR, flattenedSum_eval] using this
  | .nary .prod cs, d, h, hcs, hd => by
      simp only [diff] at h
      split at h
      · simp [throw, throwThe, MonadExceptOf.throw] at h
      · obtain ⟨ts, h1, h⟩ := except_bind_ok h
        simp only [pure, Except.pure] at h
        injection h with h; subst h
        simp only [Dom] at hd
        obtain ⟨D, hD, hpre⟩ := diffProd_sound cs [] ts h1 (fun hc => by simpa [csOk] using hcs hc) hd
        have e1 : evalR ρ (flattenedSum ts) = D := by
          rw [flattenedSum_eval, hpre]; simp [evalProd]
        rw [e1]; simpa [evalR] using hD
  | .bin .quot f g, d, h, hcs, hd => by
      simp only [diff] at h
      obtain ⟨df, h1, h⟩ := except_bind_ok h
      obtain ⟨dg, h2, h⟩ := except_bind_ok h
      have h := liftOp_ok h
      simp only [Dom] at hd
      obtain ⟨hdf, hdg, hne⟩ := hd
      have hcf : cfg = .discontinuous → csOk f = true := fun hc => by
        have := hcs hc; simp only [csOk, Bool.and_eq_true] at this; exact this.1
      have hcg : cfg = .discontinuous → csOk g = true := fun hc => by
        have := hcs hc; simp only [csOk, Bool.and_eq_true] at this; exact this.2
      have i1 := diff_sound f df h1 hcf hdf
      have i2 := diff_sound g dg h2 hcg hdg
      have hne' : (fun t => evalR (updL ρ v t) g) t0 ≠ 0 := by
        simp only [updL_self v ρ t0 hfix]; exact hne
      have := i1.fun_div i2 hne'
      simp only [updL_self v ρ t0 hfix] at this
      rw [quotRule_eval ρ h hne]
      simpa [evalR] using this
  | .bin .pow f g, d, h, hcs, hd => by
      simp only [diff] at h
      obtain ⟨df, h1, h⟩ := except_bind_ok h
      obtain ⟨dg, h2, h⟩ := except_bind_ok h
      have h := liftOp_ok h
      simp only [Dom] at hd
      obtain ⟨hdf, hdg, hcase⟩ := hd
      have hcf : cfg = .discontinuous → csOk f = true := fun hc => by
        have := hcs hc; simp only [csOk, Bool.and_eq_true] at this; exact this.1
      have hcg : cfg = .discontinuous → csOk g = true := fun hc => by
        have := hcs hc; simp only [csOk, Bool.and_eq_true] at this; exact this.2
      have i1 := diff_sound f df h1 hcf hdf
      rcases hcase with hpos | ⟨n, hgn, hn⟩
      · have i2 := diff_sound g dg h2 hcg hdg
        have hpos' : 0 < (fun t => evalR (updL ρ v t) f) t0 := by
          simp only [updL_self v ρ t0 hfix]; exact hpos
        have := i1.rpow i2 hpos'
        simp only [updL_self v ρ t0 hfix] at this
        rw [powRule_eval_pos ρ h hpos]
        simpa [evalR] using this
      · subst hgn
        have hdg0 : dg = zero := by
          simp only [diff, Expr.isConstant, if_true, pure, Except.pure] at h2
          injection h2 with h2; exact h2.symm
        subst hdg0
        rw [powRule_eval_const ρ h (fun ht => diff_truthy_isNode cfg v h1 ht)]
        have efun : (fun t => evalR (updL ρ v t) (.bin .pow f (.const (.int n)))) =
            fun t => (fun t => evalR (updL ρ v t) f) t ^ (n : ℝ) := by
          funext t; simp [evalR, Const.toReal]
        rw [efun]
        by_cases hn0 : n = 0
        · subst hn0
          have e0 : (fun t => (fun t => evalR (updL ρ v t) f) t ^ ((0 : ℤ) : ℝ)) = fun _ => (1 : ℝ) := by
            funext t; simp
          rw [e0]
          simpa using hasDerivAt_const t0 (1 : ℝ)
        · have hcond : (fun t => evalR (updL ρ v t) f) t0 ≠ 0 ∨ (1 : ℝ) ≤ (n : ℝ) := by
            simp only [updL_self v ρ t0 hfix]
            rcases hn with hn | hn
            · exact Or.inl hn
            · right
              have : (1 : ℤ) ≤ n := by omega
              exact_mod_cast this
          have := i1.rpow_const (p := (n : ℝ)) hcond
          simp only [updL_self v ρ t0 hfix] at this
          exact this
  | .ite c t e, d, h, hcs, hd => by
      simp only [diff] at h
      split at h
      · rename_i hcfg
        obtain ⟨dt, h1, h⟩ := except_bind_ok h
        obtain ⟨de, h2, h⟩ := except_bind_ok h
        simp only [pure, Except.pure] at h
        injection h with h; subst h
        simp only [Dom] at hd
        obtain ⟨hev, hde, hdt⟩ := hd
        have hct : cfg = .discontinuous → csOk t = true := fun hc => by
          have := hcs hc; simp only [csOk, Bool.and_eq_true] at this; exact this.1
        have hce : cfg = .discontinuous → csOk e = true := fun hc => by
          have := hcs hc; simp only [csOk, Bool.and_eq_true] at this; exact this.2
        by_cases hc0 : evalR ρ c = 0
        · have i2 := diff_sound e de h2 hce (hde hc0)
          have heq : (fun s => evalR (updL ρ v s) (.ite c t e)) =ᶠ[𝓝 t0]
              fun s => evalR (updL ρ v s) e := by
            filter_upwards [hev] with s hs
            have : evalR (updL ρ v s) c = 0 := hs.2 hc0
            simp [evalR, this]
          have := i2.congr_of_eventuallyEq heq
          simpa [evalR, hc0] using this
        · have i1 := diff_sound t dt h1 hct (hdt hc0)
          have heq : (fun s => evalR (updL ρ v s) (.ite c t e)) =ᶠ[𝓝 t0]
              fun s => evalR (updL ρ v s) t := by
            filter_upwards [hev] with s hs
            have : evalR (updL ρ v s) c ≠ 0 := fun h0 => hc0 (hs.1 h0)
            simp [evalR, this]
          have := i1.congr_of_eventuallyEq heq
          simpa [evalR, hc0] using this
      · simp [throw, throwThe, MonadExceptOf.throw] at h
  | .cse c p s, d, h, hcs, hd => by
      simp only [diff] at h
      split at h
      · simp [throw, throwThe, MonadExceptOf.throw] at h
      · obtain ⟨dc, h1, h⟩ := except_bind_ok h
        simp only [pure, Except.pure] at h
        injection h with h; subst h
        simp only [Dom] at hd
        have := diff_sound c dc h1 (fun hc => by simpa [csOk] using hcs hc) hd
        rw [evalR_cseRule]
        simpa [evalR] using this
  | .call f [], d, h, _, _ => by
      simp only [diff, pure, Except.pure] at h
      injection h with h; subst h
      simpa [evalR, evalArgs] using hasDerivAt_const t0 (evalCall (callFn? f) [])
  | .call f [p], d, h, hcs, hd => by
      simp only [diff] at h
      obtain ⟨fm, hfm, h⟩ := except_bind_ok h
      obtain ⟨ts, hts, h⟩ := except_bind_ok h
      simp only [pure, Except.pure] at h
      injection h with h; subst h
      simp only [diffCall] at hts
      obtain ⟨dp, hdp, hts⟩ := except_bind_ok hts
      obtain ⟨tm, htm, hts⟩ := except_bind_ok hts
      have htm := liftOp_ok htm
      simp only [pure, Except.pure, Bind.bind, Except.bind] at hts
      injection hts with hts; subst hts
      simp only [Dom, DomL, and_true] at hd
      obtain ⟨hdp', hdc⟩ := hd
      have hcp : cfg = .discontinuous → csOk p = true := fun hc => by
        have := hcs hc; simp only [csOk, csOkL, Bool.and_eq_true] at this; exact this.1.1
      have ip := diff_sound p dp hdp hcp hdp'
      have ed : evalR ρ (flattenedSum [tm]) = evalR ρ fm * evalR ρ dp := by
        rw [flattenedSum_eval, evalSum, evalSum, add_zero, pyBin_mul_eval ρ htm]
      rw [ed]
      have hP : (fun t => evalR (updL ρ v t) p) t0 = evalR ρ p := by
        simp only [updL_self v ρ t0 hfix]
      have efun : (fun t => evalR (updL ρ v t) (.call f [p])) =
          fun t => evalCall (callFn? f) [(fun t => evalR (updL ρ v t) p) t] := by
        funext t; simp only [evalR, evalArgs]
      rw [efun]
      simp only [evalArgs] at hdc
      exact call1_sound cfg ρ t0 hfm ip hP hdc
  | .call f [a, b], d, h, hcs, hd => by
      simp only [diff] at h
      obtain ⟨fm, hfm, h⟩ := except_bind_ok h
      obtain ⟨ts, hts, h⟩ := except_bind_ok h
      simp only [pure, Except.pure] at h
      injection h with h; subst h
      simp only [diffCall] at hts
      obtain ⟨da, hda, hts⟩ := except_bind_ok hts
      obtain ⟨ta, hta, hts⟩ := except_bind_ok hts
      obtain ⟨ts', hts', hts⟩ := except_bind_ok hts
      obtain ⟨db, hdb, hts'⟩ := except_bind_ok hts'
      obtain ⟨tb, htb, hts'⟩ := except_bind_ok hts'
      have hta := liftOp_ok hta
      have htb := liftOp_ok htb
      simp only [pure, Except.pure, Bind.bind, Except.bind] at hts hts'
      injection hts' with hts'; subst hts'
      injection hts with hts; subst hts
      simp only [Dom, DomL, and_true, evalArgs] at hd
      obtain ⟨⟨_, hdb'⟩, hdc⟩ := hd
      have hB : (fun t => evalR (updL ρ v t) b) t0 = evalR ρ b := by
        simp only [updL_self v ρ t0 hfix]
      -- the derivative of `b` does not need `csOk` unless the setting is "discontinuous"
      have hcb : cfg = .discontinuous → csOk b = true := fun hc => by
        have := hcs hc; simp only [csOk, csOkL, Bool.and_eq_true] at this; exact this.1.2.1
      have ib := diff_sound b db hdb hcb hdb'
      obtain ⟨hcfg, hmf, hfm0, hder⟩ := call2_sound cfg ρ t0 (evalR ρ a) hfm ib hB hdc
      have hconst : a.isConstant = true := by
        have := hcs hcfg
        simp only [csOk, hmf, Bool.and_eq_true] at this
        exact this.2
      have ea : ∀ ρ' : Expr → ℝ, evalR ρ' a = evalR ρ a := by
        intro ρ'
        cases a <;> simp [Expr.isConstant] at hconst <;> simp only [evalR]
      have efun : (fun t => evalR (updL ρ v t) (.call f [a, b])) =
          fun t => evalCall (callFn? f) [evalR ρ a, (fun t => evalR (updL ρ v t) b) t] := by
        funext t; simp only [evalR, evalArgs, ea]
      have ed : evalR ρ (flattenedSum [ta, tb]) = 0 := by
        rw [flattenedSum_eval]
        simp only [evalSum, pyBin_mul_eval ρ hta, pyBin_mul_eval ρ htb, hfm0]
        ring
      rw [efun, ed]
      exact hder
  | .call f (_ :: _ :: _ :: _), d, h, _, _ => by
      simp only [diff] at h
      obtain ⟨fm, hfm, h⟩ := except_bind_ok h
      unfold funcMap at hfm
      split at hfm
      all_goals first
        | (simp [throw, throwThe, MonadExceptOf.throw] at hfm; done)
        | (rename_i heq; simp at heq)
  | .nary .bor _, _, h, _, _ | .nary .bxor _, _, h, _, _ | .nary .band _, _, h, _, _
  | .nary .lor _, _, h, _, _ | .nary .land _, _, h, _, _ | .nary .min _, _, h, _, _
  | .nary .max _, _, h, _, _ | .bin .floordiv _ _, _, h, _, _ | .bin .rem _ _, _, h, _, _
  | .bin .lshift _ _, _, h, _, _ | .bin .rshift _ _, _, h, _, _ | .un _ _, _, h, _, _
  | .cmp _ _ _, _, h, _, _ | .callKw _ _ _ _, _, h, _, _ | .lookup _ _, _, h, _, _
  | .subst _ _ _, _, h, _, _ | .deriv _ _, _, h, _, _ | .slice _, _, h, _, _ | .nan, _, h, _, _
  | .wildcard, _, h, _, _ | .dotWild _, _, h, _, _ | .starWild _, _, h, _, _
  | .funcSym, _, h, _, _ | .tuple _, _, h, _, _ | .list _, _, h, _, _ => by
      simp [diff, throw, throwThe, MonadExceptOf.throw] at h
termination_by structural e => e
theorem diffL_sound : ∀ (cs ds : List Expr), diffL cfg v cs = .ok ds →
    (cfg = .discontinuous → csOkL cs = true) → DomL v t0 ρ cs →
    HasDerivAt (fun t => evalSum (updL ρ v t) cs) (evalSum ρ ds) t0
  | [], ds, h, _, _ => by
      simp only [diffL, pure, Except.pure] at h
      injection h with h; subst h
      simpa [evalSum] using hasDerivAt_const t0 (0 : ℝ)
  | c :: cs, ds, h, hcs, hd => by
      simp only [diffL] at h
      obtain ⟨d, h1, h⟩ := except_bind_ok h
      obtain ⟨ds', h2, h⟩ := except_bind_ok h
      simp only [pure, Except.pure] at h
      injection h with h; subst h
      simp only [DomL] at hd
      have hc1 : cfg = .discontinuous → csOk c = true := fun hc => by
        have := hcs hc; simp only [csOkL, Bool.and_eq_true] at this; exact this.1
      have hc2 : cfg = .discontinuous → csOkL cs = true := fun hc => by
        have := hcs hc; simp only [csOkL, Bool.and_eq_true] at this; exact this.2
      have := (diff_sound c d h1 hc1 hd.1).fun_add (diffL_sound cs ds' h2 hc2 hd.2)
      simpa [evalSum] using this
termination_by structural cs => cs
theorem diffProd_sound : ∀ (cs pre ts : List Expr), diffProd cfg v pre cs = .ok ts →
    (cfg = .discontinuous → csOkL cs = true) → DomL v t0 ρ cs →
    ∃ D : ℝ, HasDerivAt (fun t => evalProd (updL ρ v t) cs) D t0 ∧
      evalSum ρ ts = evalProd ρ pre * D
  | [], pre, ts, h, _, _ => by
      simp only [diffProd, pure, Except.pure] at h
      injection h with h; subst h
      exact ⟨0, by simpa [evalProd] using hasDerivAt_const t0 (1 : ℝ), by simp [evalSum]⟩
  | c :: cs, pre, ts, h, hcs, hd => by
      simp only [diffProd] at h
      obtain ⟨d, h1, h⟩ := except_bind_ok h
      obtain ⟨ts', h2, h⟩ := except_bind_ok h
      simp only [pure, Except.pure] at h
      injection h with h; subst h
      simp only [DomL] at hd
      have hc1 : cfg = .discontinuous → csOk c = true := fun hc => by
        have := hcs hc; simp only [csOkL, Bool.and_eq_true] at this; exact this.1
      have hc2 : cfg = .discontinuous → csOkL cs = true := fun hc => by
        have := hcs hc; simp only [csOkL, Bool.and_eq_true] at this; exact this.2
      obtain ⟨D, hD, hpre⟩ := diffProd_sound cs (pre ++ [c]) ts' h2 hc2 hd.2
      have hc := diff_sound c d h1 hc1 hd.1
      refine ⟨evalR ρ d * evalProd ρ cs + evalR ρ c * D, ?_, ?_⟩
      · have := hc.fun_mul hD
        simp only [updL_self v ρ t0 hfix] at this
        simpa [evalProd] using this
      · simp only [evalSum, hpre, flattenedProduct_eval, evalProd_append, evalProd]
        ring
termination_by structural cs => cs
end

end

end PV
