import PV.Model.RationalOps
import PV.Proofs.AlgoArith
import Mathlib.Algebra.Field.Rat
import Mathlib.Algebra.Order.Field.Rat
import Mathlib.Data.Rat.Cast.Defs
import Mathlib.Data.Int.GCD
import Mathlib.RingTheory.Coprime.Lemmas
import Mathlib.Tactic.Ring
import Mathlib.Tactic.FieldSimp
import Mathlib.Tactic.Linarith
/-
  C19: what the `Rational` methods compute under the Python-2 reading of `/` — the value in ℚ of
  the result, the exactness of every division, and the normalisation of the result.
-/
namespace PV.Algo

/-- the rational number a result stands for -/
def RatRes.value : RatRes → Option ℚ
  | .int i => some (i : ℚ)
  | .rat n d => some ((n : ℚ) / (d : ℚ))
  | .raise _ => none

/-- in lowest terms with a positive denominator (a plain int counts as such) -/
def RatRes.reduced : RatRes → Prop
  | .int _ => True
  | .rat n d => 0 < d ∧ Int.gcd n d = 1
  | .raise _ => False

/-- a `Rational` object as the constructor leaves it: positive denominator -/
def RatRes.positive : RatRes → Prop
  | .int _ => True
  | .rat _ d => 0 < d
  | .raise _ => False

theorem fdiv_mul_cancel_left' (g a : ℤ) (hg : g ≠ 0) : Int.fdiv (g * a) g = a := by
  rw [Int.fdiv_eq_ediv_of_dvd ⟨a, rfl⟩, Int.mul_ediv_cancel_left a hg]

/-! ## the constructor and `quotient` -/

theorem ratInit_value (n d : ℤ) (hd : d ≠ 0) : (ratInit n d).value = some ((n : ℚ) / d) := by
  unfold ratInit
  by_cases h1 : d < 0
  · simp only [h1, if_true, RatRes.value]
    push_cast
    rw [neg_div_neg_eq]
  · have h2 : d > 0 := by omega
    simp [h1, h2, RatRes.value]

theorem ratInit_positive (n d : ℤ) (hd : d ≠ 0) : (ratInit n d).positive := by
  unfold ratInit
  by_cases h1 : d < 0
  · simp only [h1, if_true, RatRes.positive]; omega
  · have h2 : d > 0 := by omega
    simp [h1, h2, RatRes.positive]

theorem ratInit_reduced (n d : ℤ) (hd : d ≠ 0) (h : Int.gcd n d = 1) : (ratInit n d).reduced := by
  unfold ratInit
  by_cases h1 : d < 0
  · simp only [h1, if_true, RatRes.reduced]
    exact ⟨by omega, by simpa using h⟩
  · have h2 : d > 0 := by omega
    simp [h1, h2, RatRes.reduced, h]

theorem ratInit_zero (n : ℤ) : ratInit n 0 = .raise "RuntimeError" := by simp [ratInit]

theorem ratQuotient_value (n d : ℤ) (hd : d ≠ 0) : (ratQuotient n d).value = some ((n : ℚ) / d) := by
  unfold ratQuotient
  by_cases h : d - 1 = 0
  · have : d = 1 := by omega
    subst this
    simp [RatRes.value]
  · simp only [h, if_false]
    exact ratInit_value n d hd

theorem ratQuotient_reduced (n d : ℤ) (hd : d ≠ 0) (h : Int.gcd n d = 1) :
    (ratQuotient n d).reduced := by
  unfold ratQuotient
  by_cases h1 : d - 1 = 0
  · simp [h1, RatRes.reduced]
  · simp only [h1, if_false]
    exact ratInit_reduced n d hd h

theorem ratQuotient_positive (n d : ℤ) (hd : d ≠ 0) : (ratQuotient n d).positive := by
  unfold ratQuotient
  by_cases h1 : d - 1 = 0
  · simp [h1, RatRes.positive]
  · simp only [h1, if_false]
    exact ratInit_positive n d hd

/-! ## the computed gcd -/

theorem gcd_ne_zero_right (a b : ℤ) (hb : b ≠ 0) : gcd a b ≠ 0 := by
  intro h; exact hb ((gcd_eq_zero_iff a b).mp h).2

theorem gcd_ne_zero_left (a b : ℤ) (ha : a ≠ 0) : gcd a b ≠ 0 := by
  intro h; exact ha ((gcd_eq_zero_iff a b).mp h).1

theorem gcd_dvd_left' (a b : ℤ) : gcd a b ∣ a := (extEuclid_dvd a b).1
theorem gcd_dvd_right' (a b : ℤ) : gcd a b ∣ b := (extEuclid_dvd a b).2.1

/-- dividing both arguments by the computed gcd (whatever its sign) leaves coprime numbers -/
theorem gcd_div_coprime (a b g x y : ℤ) (hgd : gcd a b = g) (hg : g ≠ 0) (hx : a = g * x)
    (hy : b = g * y) : Int.gcd x y = 1 := by
  have h0 : (gcd a b).natAbs = Int.gcd a b := gcd_natAbs a b
  rw [hgd] at h0
  subst hx hy
  rw [Int.gcd_mul_left] at h0
  have hpos : 0 < g.natAbs := Int.natAbs_pos.mpr hg
  have : g.natAbs * 1 = g.natAbs * Int.gcd x y := by omega
  exact (Nat.eq_of_mul_eq_mul_left hpos this).symm

/-! ## `__add__` -/

/-- the decomposition the proof of `__add__` works with: `d1 = g·k1`, `d2 = g·k2` -/
theorem ratAdd_eq (n1 d1 n2 d2 : ℤ) (h1 : d1 ≠ 0) (h2 : d2 ≠ 0) :
    ∃ g k1 k2 a b h, g ≠ 0 ∧ h ≠ 0 ∧ d1 = g * k1 ∧ d2 = g * k2 ∧ k1 ≠ 0 ∧ k2 ≠ 0 ∧
      n1 * k2 + n2 * k1 = h * a ∧ g * k1 * k2 = h * b ∧ b ≠ 0 ∧ Int.gcd a b = 1 ∧
      ratAdd n1 d1 n2 d2 = ratQuotient a b := by
  have hg := gcd_ne_zero_left d1 d2 h1
  obtain ⟨k1, hk1⟩ := gcd_dvd_left' d1 d2
  obtain ⟨k2, hk2⟩ := gcd_dvd_right' d1 d2
  unfold ratAdd
  simp only []
  generalize gcd d1 d2 = g at *
  subst hk1 hk2
  have hk1' : k1 ≠ 0 := by rintro rfl; simp at h1
  have hk2' : k2 ≠ 0 := by rintro rfl; simp at h2
  have hnd : Int.fdiv (g * k1 * (g * k2)) g = g * k1 * k2 := by
    have : g * k1 * (g * k2) = g * (g * k1 * k2) := by ring
    rw [this, fdiv_mul_cancel_left' _ _ hg]
  have hA : Int.fdiv (n1 * (g * k1 * k2)) (g * k1) = n1 * k2 := by
    have : n1 * (g * k1 * k2) = (g * k1) * (n1 * k2) := by ring
    rw [this, fdiv_mul_cancel_left' _ _ h1]
  have hB : Int.fdiv (n2 * (g * k1 * k2)) (g * k2) = n2 * k1 := by
    have : n2 * (g * k1 * k2) = (g * k2) * (n2 * k1) := by ring
    rw [this, fdiv_mul_cancel_left' _ _ h2]
  have hden0 : g * k1 * k2 ≠ 0 := mul_ne_zero (mul_ne_zero hg hk1') hk2'
  have hh := gcd_ne_zero_left (g * k1 * k2) (n1 * k2 + n2 * k1) hden0
  obtain ⟨b, hb⟩ := gcd_dvd_left' (g * k1 * k2) (n1 * k2 + n2 * k1)
  obtain ⟨a, ha⟩ := gcd_dvd_right' (g * k1 * k2) (n1 * k2 + n2 * k1)
  have hcop := gcd_div_coprime _ _ _ b a rfl hh hb ha
  simp only [hg, h1, h2, if_false, hnd, hA, hB, hh]
  generalize gcd (g * k1 * k2) (n1 * k2 + n2 * k1) = h at *
  have hb0 : b ≠ 0 := by rintro rfl; simp at hb; omega
  refine ⟨g, k1, k2, a, b, h, hg, hh, rfl, rfl, hk1', hk2', ha, hb, hb0, ?_, ?_⟩
  · rwa [Int.gcd_comm]
  · rw [ha, hb, fdiv_mul_cancel_left' _ _ hh, fdiv_mul_cancel_left' _ _ hh]

/-- **`__add__` adds**: for non-zero denominators the result stands for `n1/d1 + n2/d2`, it never
raises, and it is in lowest terms with a positive denominator -/
theorem ratAdd_value (n1 d1 n2 d2 : ℤ) (h1 : d1 ≠ 0) (h2 : d2 ≠ 0) :
    (ratAdd n1 d1 n2 d2).value = some ((n1 : ℚ) / d1 + (n2 : ℚ) / d2) ∧
      (ratAdd n1 d1 n2 d2).reduced := by
  obtain ⟨g, k1, k2, a, b, h, hg, hh, hd1, hd2, hk1, hk2, hnum, hden, hb, hcop, heq⟩ :=
    ratAdd_eq n1 d1 n2 d2 h1 h2
  rw [heq]
  refine ⟨?_, ratQuotient_reduced a b hb hcop⟩
  rw [ratQuotient_value a b hb]
  congr 1
  have hgq : (g : ℚ) ≠ 0 := by exact_mod_cast hg
  have hhq : (h : ℚ) ≠ 0 := by exact_mod_cast hh
  have hk1q : (k1 : ℚ) ≠ 0 := by exact_mod_cast hk1
  have hk2q : (k2 : ℚ) ≠ 0 := by exact_mod_cast hk2
  have hbq : (b : ℚ) ≠ 0 := by exact_mod_cast hb
  have e1 : (n1 : ℚ) * k2 + n2 * k1 = h * a := by exact_mod_cast hnum
  have e2 : (g : ℚ) * k1 * k2 = h * b := by exact_mod_cast hden
  subst hd1 hd2
  push_cast
  have : (a : ℚ) / b = (h * a) / (h * b) := by field_simp
  rw [this, ← e1, ← e2]
  field_simp

/-- **every `/` of `__add__` divides exactly** (no remainder is dropped by the floor division of
the Python-2 reading): `a*b / gcd(a, b)` in `lcm`, the two `… * newden / denominator`, and the two
divisions by the final gcd -/
theorem ratAdd_divisions_exact (n1 d1 n2 d2 : ℤ) (h1 : d1 ≠ 0) :
    let newden := Int.fdiv (d1 * d2) (gcd d1 d2)
    let newnum := Int.fdiv (n1 * newden) d1 + Int.fdiv (n2 * newden) d2
    gcd d1 d2 ∣ d1 * d2 ∧ d1 ∣ n1 * newden ∧ d2 ∣ n2 * newden ∧
      gcd newden newnum ∣ newnum ∧ gcd newden newnum ∣ newden := by
  intro newden newnum
  have hdvd : gcd d1 d2 ∣ d1 * d2 := Dvd.dvd.mul_right (gcd_dvd_left' d1 d2) d2
  have hnd : newden * gcd d1 d2 = d1 * d2 := Int.fdiv_mul_cancel hdvd
  refine ⟨hdvd, ?_, ?_, gcd_dvd_right' _ _, gcd_dvd_left' _ _⟩
  · obtain ⟨k2, hk2⟩ := gcd_dvd_right' d1 d2
    have hg : gcd d1 d2 ≠ 0 := gcd_ne_zero_left d1 d2 h1
    · have : newden = d1 * k2 := by
        have h1 : newden * gcd d1 d2 = (d1 * k2) * gcd d1 d2 := by
          rw [hnd]; conv_lhs => rw [hk2]
          ring
        exact Int.eq_of_mul_eq_mul_right hg h1
      rw [this]
      exact ⟨n1 * k2, by ring⟩
  · obtain ⟨k1, hk1⟩ := gcd_dvd_left' d1 d2
    have hg : gcd d1 d2 ≠ 0 := gcd_ne_zero_left d1 d2 h1
    · have : newden = d2 * k1 := by
        have h1 : newden * gcd d1 d2 = (d2 * k1) * gcd d1 d2 := by
          rw [hnd]; conv_lhs => rw [hk1]
          ring
        exact Int.eq_of_mul_eq_mul_right hg h1
      rw [this]
      exact ⟨n2 * k1, by ring⟩

/-! ## `__mul__` -/

/-- **every `/` of `__mul__` divides exactly** -/
theorem ratMul_divisions_exact (n1 d1 n2 d2 : ℤ) :
    gcd n1 d2 ∣ n1 ∧ gcd n2 d1 ∣ Int.fdiv n1 (gcd n1 d2) * n2 ∧ gcd n2 d1 ∣ d1 ∧
      gcd n1 d2 ∣ Int.fdiv d1 (gcd n2 d1) * d2 :=
  ⟨gcd_dvd_left' _ _, Dvd.dvd.mul_left (gcd_dvd_left' _ _) _, gcd_dvd_right' _ _,
    Dvd.dvd.mul_left (gcd_dvd_right' _ _) _⟩

theorem ratMul_eq (n1 d1 n2 d2 : ℤ) (h1 : d1 ≠ 0) (h2 : d2 ≠ 0) :
    ∃ g1 g2 x1 y1 x2 y2, g1 ≠ 0 ∧ g2 ≠ 0 ∧ n1 = g1 * x1 ∧ d2 = g1 * y2 ∧ n2 = g2 * x2 ∧
      d1 = g2 * y1 ∧ y1 ≠ 0 ∧ y2 ≠ 0 ∧ Int.gcd x1 y2 = 1 ∧ Int.gcd x2 y1 = 1 ∧
      ratMul n1 d1 n2 d2 = (if y1 * y2 - 1 = 0 then .int (x1 * x2) else ratInit (x1 * x2) (y1 * y2)) := by
  have hg1 := gcd_ne_zero_right n1 d2 h2
  have hg2 := gcd_ne_zero_right n2 d1 h1
  obtain ⟨x1, hx1⟩ := gcd_dvd_left' n1 d2
  obtain ⟨y2, hy2⟩ := gcd_dvd_right' n1 d2
  obtain ⟨x2, hx2⟩ := gcd_dvd_left' n2 d1
  obtain ⟨y1, hy1⟩ := gcd_dvd_right' n2 d1
  have hc1 := gcd_div_coprime _ _ _ x1 y2 rfl hg1 hx1 hy2
  have hc2 := gcd_div_coprime _ _ _ x2 y1 rfl hg2 hx2 hy1
  unfold ratMul
  simp only []
  generalize gcd n1 d2 = g1 at *
  generalize gcd n2 d1 = g2 at *
  subst hx1 hy2 hx2 hy1
  have hy1' : y1 ≠ 0 := by rintro rfl; simp at h1
  have hy2' : y2 ≠ 0 := by rintro rfl; simp at h2
  refine ⟨g1, g2, x1, y1, x2, y2, hg1, hg2, rfl, rfl, rfl, rfl, hy1', hy2', hc1, hc2, ?_⟩
  have e1 : Int.fdiv (Int.fdiv (g1 * x1) g1 * (g2 * x2)) g2 = x1 * x2 := by
    rw [fdiv_mul_cancel_left' _ _ hg1]
    have : x1 * (g2 * x2) = g2 * (x1 * x2) := by ring
    rw [this, fdiv_mul_cancel_left' _ _ hg2]
  have e2 : Int.fdiv (Int.fdiv (g2 * y1) g2 * (g1 * y2)) g1 = y1 * y2 := by
    rw [fdiv_mul_cancel_left' _ _ hg2]
    have : y1 * (g1 * y2) = g1 * (y1 * y2) := by ring
    rw [this, fdiv_mul_cancel_left' _ _ hg1]
  simp only [hg1, hg2, if_false, e1, e2]

/-- **`__mul__` multiplies**: for non-zero denominators the result stands for
`(n1/d1)·(n2/d2)` and never raises -/
theorem ratMul_value (n1 d1 n2 d2 : ℤ) (h1 : d1 ≠ 0) (h2 : d2 ≠ 0) :
    (ratMul n1 d1 n2 d2).value = some ((n1 : ℚ) / d1 * ((n2 : ℚ) / d2)) ∧
      (ratMul n1 d1 n2 d2).positive := by
  obtain ⟨g1, g2, x1, y1, x2, y2, hg1, hg2, rfl, rfl, rfl, rfl, hy1, hy2, -, -, heq⟩ :=
    ratMul_eq n1 d1 n2 d2 h1 h2
  rw [heq]
  have hy : y1 * y2 ≠ 0 := mul_ne_zero hy1 hy2
  have hg1q : (g1 : ℚ) ≠ 0 := by exact_mod_cast hg1
  have hg2q : (g2 : ℚ) ≠ 0 := by exact_mod_cast hg2
  have hy1q : (y1 : ℚ) ≠ 0 := by exact_mod_cast hy1
  have hy2q : (y2 : ℚ) ≠ 0 := by exact_mod_cast hy2
  by_cases hone : y1 * y2 - 1 = 0
  · have h1' : y1 * y2 = 1 := by omega
    have h1q : (y1 : ℚ) * y2 = 1 := by exact_mod_cast h1'
    simp only [hone, if_true, RatRes.value, RatRes.positive, and_true]
    congr 1
    push_cast
    field_simp
    rw [mul_comm (y1 : ℚ) y2] at h1q
    calc (x1 : ℚ) * x2 * y1 * y2 = x1 * x2 * (y2 * y1) := by ring
      _ = x1 * x2 := by rw [h1q]; ring
  · simp only [hone, if_false]
    refine ⟨?_, ratInit_positive _ _ hy⟩
    rw [ratInit_value _ _ hy]
    congr 1
    push_cast
    field_simp

/-- the product of two `Rational`s in lowest terms is in lowest terms -/
theorem ratMul_reduced (n1 d1 n2 d2 : ℤ) (h1 : d1 ≠ 0) (h2 : d2 ≠ 0)
    (hr1 : Int.gcd n1 d1 = 1) (hr2 : Int.gcd n2 d2 = 1) : (ratMul n1 d1 n2 d2).reduced := by
  obtain ⟨g1, g2, x1, y1, x2, y2, hg1, hg2, rfl, rfl, rfl, rfl, hy1, hy2, hc1, hc2, heq⟩ :=
    ratMul_eq n1 d1 n2 d2 h1 h2
  rw [heq]
  have hy : y1 * y2 ≠ 0 := mul_ne_zero hy1 hy2
  by_cases hone : y1 * y2 - 1 = 0
  · simp [hone, RatRes.reduced]
  · simp only [hone, if_false]
    apply ratInit_reduced _ _ hy
    have c11 : IsCoprime x1 y1 :=
      (Int.isCoprime_iff_gcd_eq_one.mpr hr1).of_mul_left_right.of_mul_right_right
    have c22 : IsCoprime x2 y2 :=
      (Int.isCoprime_iff_gcd_eq_one.mpr hr2).of_mul_left_right.of_mul_right_right
    have c12 : IsCoprime x1 y2 := Int.isCoprime_iff_gcd_eq_one.mpr hc1
    have c21 : IsCoprime x2 y1 := Int.isCoprime_iff_gcd_eq_one.mpr hc2
    exact Int.isCoprime_iff_gcd_eq_one.mp
      (IsCoprime.mul_left (IsCoprime.mul_right c11 c12) (IsCoprime.mul_right c21 c22))

/-! ## `__neg__`, `__sub__`, `__rsub__` -/

theorem ratNeg_value (n d : ℤ) (hd : d ≠ 0) : (ratNeg n d).value = some (-((n : ℚ) / d)) := by
  unfold ratNeg
  rw [ratInit_value _ _ hd]
  congr 1
  push_cast
  ring

/-- `-Rational(n, d)` is again a `Rational` with a positive denominator, standing for `-(n/d)` -/
theorem ratNeg_eq (n d : ℤ) (hd : d ≠ 0) :
    ∃ n' d', ratNeg n d = .rat n' d' ∧ 0 < d' ∧ (n' : ℚ) / d' = -((n : ℚ) / d) := by
  have hv := ratNeg_value n d hd
  have hp := ratInit_positive (-n) d hd
  unfold ratNeg at hv hp ⊢
  rcases h : ratInit (-n) d with i | ⟨n', d'⟩ | k
  · unfold ratInit at h; split_ifs at h
  · rw [h] at hv hp
    exact ⟨n', d', rfl, hp, by simpa [RatRes.value] using hv⟩
  · rw [h] at hp; exact hp.elim

/-- the value of an operand with a non-zero denominator -/
def RatArg.value (a : RatArg) : ℚ := (a.fields.1 : ℚ) / a.fields.2

/-- **`__sub__` subtracts** -/
theorem ratSub_value (n1 d1 : ℤ) (other : RatArg) (h1 : d1 ≠ 0) (h2 : other.fields.2 ≠ 0) :
    (ratSub n1 d1 other).value = some ((n1 : ℚ) / d1 - other.value) ∧
      (ratSub n1 d1 other).reduced := by
  unfold ratSub RatArg.value
  cases other with
  | int i =>
    simp only [ratNegArg, RatArg.fields]
    obtain ⟨hv, hr⟩ := ratAdd_value n1 d1 (-i) 1 h1 (by decide)
    refine ⟨?_, hr⟩
    rw [hv]; congr 1; push_cast; ring
  | rat a b =>
    simp only [RatArg.fields] at h2 ⊢
    obtain ⟨n', d', he, hd', hq⟩ := ratNeg_eq a b h2
    simp only [ratNegArg, he]
    obtain ⟨hv, hr⟩ := ratAdd_value n1 d1 n' d' h1 (by omega)
    refine ⟨?_, hr⟩
    rw [hv, hq]; congr 1; ring

/-- **`__rsub__` subtracts the other way round**: `other - self` -/
theorem ratRsub_value (n1 d1 : ℤ) (other : RatArg) (h1 : d1 ≠ 0) (h2 : other.fields.2 ≠ 0) :
    (ratRsub n1 d1 other).value = some (other.value - (n1 : ℚ) / d1) ∧
      (ratRsub n1 d1 other).reduced := by
  unfold ratRsub RatArg.value
  obtain ⟨n', d', he, hd', hq⟩ := ratNeg_eq n1 d1 h1
  simp only [he, RatRes.bind]
  obtain ⟨hv, hr⟩ := ratAdd_value n' d' other.fields.1 other.fields.2 (by omega) h2
  refine ⟨?_, hr⟩
  rw [hv, hq]; congr 1; ring

/-! ## `__div__`, `__rdiv__`, `reciprocal`, `__pow__` -/

theorem ratInit_eq (n d : ℤ) (hd : d ≠ 0) :
    ∃ n' d', ratInit n d = .rat n' d' ∧ 0 < d' ∧ (n' : ℚ) / d' = (n : ℚ) / d := by
  have hv := ratInit_value n d hd
  have hp := ratInit_positive n d hd
  rcases h : ratInit n d with i | ⟨n', d'⟩ | k
  · unfold ratInit at h; split_ifs at h
  · rw [h] at hv hp
    exact ⟨n', d', rfl, hp, by simpa [RatRes.value] using hv⟩
  · rw [h] at hp; exact hp.elim

/-- **`__div__` divides** (the `/` of Python 2) when the divisor is not zero … -/
theorem ratDiv_value (n1 d1 : ℤ) (other : RatArg) (h1 : d1 ≠ 0) (h2 : other.fields.2 ≠ 0)
    (h3 : other.fields.1 ≠ 0) :
    (ratDiv n1 d1 other).value = some ((n1 : ℚ) / d1 / other.value) := by
  unfold ratDiv RatArg.value
  obtain ⟨n', d', he, hd', hq⟩ := ratInit_eq other.fields.2 other.fields.1 h3
  simp only [he, RatRes.bind]
  rw [(ratMul_value n1 d1 n' d' h1 (by omega)).1, hq]
  congr 1
  have : (other.fields.1 : ℚ) ≠ 0 := by exact_mod_cast h3
  have : (other.fields.2 : ℚ) ≠ 0 := by exact_mod_cast h2
  field_simp

/-- … and raises `RuntimeError` (not `ZeroDivisionError`) when the divisor is zero -/
theorem ratDiv_zero (n1 d1 : ℤ) (other : RatArg) (h3 : other.fields.1 = 0) :
    ratDiv n1 d1 other = .raise "RuntimeError" := by
  unfold ratDiv
  rw [h3, ratInit_zero]
  rfl

/-- **`__rdiv__`**: `other / self` -/
theorem ratRdiv_value (n1 d1 : ℤ) (other : RatArg) (h1 : d1 ≠ 0) (h2 : other.fields.2 ≠ 0)
    (h3 : n1 ≠ 0) :
    (ratRdiv n1 d1 other).value = some (other.value / ((n1 : ℚ) / d1)) := by
  unfold ratRdiv RatArg.value
  obtain ⟨n', d', he, hd', hq⟩ := ratInit_eq d1 n1 h3
  simp only [he, RatRes.bind]
  rw [(ratMul_value n' d' _ _ (by omega) h2).1, hq]
  congr 1
  have : (n1 : ℚ) ≠ 0 := by exact_mod_cast h3
  have : (d1 : ℚ) ≠ 0 := by exact_mod_cast h1
  field_simp

theorem ratRdiv_zero (d1 : ℤ) (other : RatArg) : ratRdiv 0 d1 other = .raise "RuntimeError" := by
  unfold ratRdiv
  rw [ratInit_zero]
  rfl

theorem ratReciprocal_value (n d : ℤ) (hn : n ≠ 0) :
    (ratReciprocal n d).value = some ((d : ℚ) / n) :=
  ratInit_value d n hn

/-- **`__pow__` as coded computes the power of the RECIPROCAL**: `(d/n)^k`, not `(n/d)^k` -/
theorem ratPow_value (n d : ℤ) (k : ℕ) (hn : n ≠ 0) :
    (ratPow n d k).value = some (((d : ℚ) / n) ^ k) := by
  unfold ratPow
  rw [ratInit_value _ _ (pow_ne_zero k hn)]
  congr 1
  push_cast
  rw [div_pow]

end PV.Algo
