import PV.Model.AlgoScalar
import PV.Proofs.AlgoTablePoly
/-
  C19 (T-gen): `Polynomial.__divmod__` with a divisor that is NOT a `Polynomial` (a Python int) —
  the first branch of the regenerated body — is `divmodScalar`.
-/
namespace PV.Algo
open PV.Generated
variable {α : Type}

section
variable (ops : C19Ops α) (ext : String → List (C19V α) → C19R (C19V α))

/-- one entry of `dm_list` -/
def c19EncDm (d : Int) (t : Term) : C19V α :=
  .tup [.int t.1, .tup [.int (Int.fdiv t.2 d), .int (Int.fmod t.2 d)]]

theorem c19IsInst_int_poly (n k : Nat) (d : Int) :
    c19IsInst (c19CxAt ops c19Table ext n k) (.int d : C19V α) ["Polynomial"] = false := rfl

theorem c19EncTerms_fdiv (p : Poly) (d : Int) :
    (p.map fun t => (c19EncTerm (t.1, Int.fdiv t.2 d) : C19V α))
      = c19EncTerms (p.map fun t => (t.1, Int.fdiv t.2 d)) := by
  simp [c19EncTerms, List.map_map, Function.comp_def]

theorem c19EncTerms_fmod (p : Poly) (d : Int) :
    (p.map fun t => (c19EncTerm (t.1, Int.fmod t.2 d) : C19V α))
      = c19EncTerms (p.map fun t => (t.1, Int.fmod t.2 d)) := by
  simp [c19EncTerms, List.map_map, Function.comp_def]

/-- the non-`Polynomial` branch of `__divmod__` on an int divisor `d ≠ 0` -/
theorem c19_dm_scalar (b : String) (p : Poly) (d : Int) (hd : d ≠ 0) (n kf : Nat) :
    c19ExecL (c19CxAt ops c19Table ext (n + 1) kf) c19DmMixed
        [("self", c19EncPoly b p), ("other", .int d)]
      = .ret (.tup [c19EncPoly b (p.map fun t => (t.1, Int.fdiv t.2 d)),
                    c19EncPoly b (p.map fun t => (t.1, Int.fmod t.2 d))]) := by
  unfold c19DmMixed c19EncPoly
  c19_run [c19IsInst_int_poly, c19Attr_poly_base, c19Attr_poly_data]
  simp only [c19EncTerms]
  rw [c19MapM_enc _ c19EncTerm (c19EncDm d) p
    (by intro t; unfold c19EncTerm c19EncDm; c19_run [c19Call_divmod_ne _ _ _ hd])]
  c19_run []
  rw [c19MapM_enc _ (c19EncDm d) (fun t => c19EncTerm (t.1, Int.fdiv t.2 d)) p
    (by intro t; unfold c19EncTerm c19EncDm; c19_run [])]
  c19_run [c19New_polynomial, c19EncTerms_fdiv, c19_poly_init_run]
  rw [c19MapM_enc _ (c19EncDm d) (fun t => c19EncTerm (t.1, Int.fmod t.2 d)) p
    (by intro t; unfold c19EncTerm c19EncDm; c19_run [])]
  c19_run [c19New_polynomial, c19EncTerms_fmod, c19_poly_init_run]
  rfl

/-- ... on the divisor `0`: `divmod(coeff, 0)` raises for the first term -/
theorem c19_dm_scalar_zero (b : String) (t : Term) (p : Poly) (n kf : Nat) :
    c19ExecL (c19CxAt ops c19Table ext (n + 1) kf) c19DmMixed
        [("self", c19EncPoly b (t :: p)), ("other", .int 0)]
      = .raise "ZeroDivisionError" := by
  unfold c19DmMixed c19EncPoly
  c19_run [c19IsInst_int_poly, c19Attr_poly_base, c19Attr_poly_data]
  simp only [c19EncTerms, List.map_cons, c19MapM, c19EncTerm]
  c19_run [c19Call_divmod_zero]

/-- **`Polynomial.__divmod__` as regenerated, called with an int divisor, IS `divmodScalar`**:
coefficient by coefficient with Python's floor `divmod`, every term kept in both results;
`ZeroDivisionError` for the divisor 0 as soon as there is a term. -/
theorem c19_poly_divmod_scalar_run (b : String) (p : Poly) (d : Int) (n : Nat) :
    c19RunFn ops c19Table ext (n + 1 + 1) "Polynomial.__divmod__" [c19EncPoly b p, .int d]
      = c19EncDivmod b (divmodScalar p d) := by
  rw [c19RunFn_succ ops c19Table ext _ _ _ _ _ c19_find_poly_divmod
    (by rw [c19_poly_divmod_body_current]; rfl)]
  simp only [c19_poly_divmod_body_current]
  rw [c19ExecL_append]
  by_cases hd : d = 0
  · subst hd
    cases p with
    | nil =>
      -- the empty polynomial: no term, no division
      unfold c19DmMixed c19EncPoly
      c19_run [c19IsInst_int_poly, c19Attr_poly_base, c19Attr_poly_data]
      simp only [c19EncTerms, List.map_nil, c19MapM]
      c19_run [c19New_polynomial, c19_poly_init_run]
      simp only [c19MapM]
      c19_run [c19New_polynomial, c19_poly_init_run]
      rfl
    | cons t p =>
      rw [c19_dm_scalar_zero ops ext b t p]
      rfl
  · rw [c19_dm_scalar ops ext b p d hd]
    simp [divmodScalar, hd, c19EncDivmod]

end
end PV.Algo
