import PV.Model.Ops
import Mathlib.Algebra.Ring.Defs
import Mathlib.Algebra.Ring.Basic
import Mathlib.Data.Int.Cast.Basic
import Mathlib.Algebra.Ring.Int.Defs
import Mathlib.Data.Int.Cast.Lemmas

namespace PV

universe u
variable {K : Type u} [Ring K]

mutual
def evalRing (ρ : String → K) : Expr → Option K
  | .const (.int n) => some (n : K)
  | .var x => some (ρ x)
  | .nary .sum cs => evalRingFold ρ (· + ·) 0 cs
  | .nary .prod cs => evalRingFold ρ (· * ·) 1 cs
  | _ => none
def evalRingFold (ρ : String → K) (f : K → K → K) (acc : K) : List Expr → Option K
  | [] => some acc
  | c :: cs => match evalRing ρ c with
     | some k => evalRingFold ρ f (f acc k) cs
     | none => none
end

def plainRing (ρ : String → K) : OpProg → Option K
  | .leaf e => evalRing ρ e
  | .bin .add p q => match plainRing ρ p, plainRing ρ q with
    | some a, some b => some (a + b)
    | _, _ => none
  | .bin .sub p q => match plainRing ρ p, plainRing ρ q with
    | some a, some b => some (a - b)
    | _, _ => none
  | .bin .mul p q => match plainRing ρ p, plainRing ρ q with
    | some a, some b => some (a * b)
    | _, _ => none
  | .un .neg p => match plainRing ρ p with
    | some a => some (-a)
    | none => none
  | .un .pos p => plainRing ρ p
  | _ => none

section
variable (ρ : String → K)

theorem evalRing_const {c : Const} {k : K} (h : evalRing ρ (.const c) = some k) :
    ∃ n : Int, c = .int n ∧ k = (n : K) := by
  cases c <;> simp only [evalRing] at h <;> try contradiction
  · injection h with h; exact ⟨_, rfl, h.symm⟩

theorem fold_append (f : K → K → K) : ∀ (cs ds : List Expr) (acc : K),
    evalRingFold ρ f acc (cs ++ ds) = (evalRingFold ρ f acc cs).bind (fun r => evalRingFold ρ f r ds)
  | [], ds, acc => by simp [evalRingFold]
  | c :: cs, ds, acc => by
      simp only [List.cons_append, evalRingFold]
      cases evalRing ρ c with
      | none => simp
      | some k => simp only; exact fold_append f cs ds _

theorem fold_acc (f : K → K → K) (e : K) (hassoc : ∀ a b c, f (f a b) c = f a (f b c))
    (hl : ∀ a, f e a = a) (hr : ∀ a, f a e = a) : ∀ (cs : List Expr) (acc : K),
    evalRingFold ρ f acc cs = (evalRingFold ρ f e cs).map (f acc)
  | [], acc => by simp [evalRingFold, hr]
  | c :: cs, acc => by
      simp only [evalRingFold]
      cases evalRing ρ c with
      | none => simp
      | some k =>
        simp only
        rw [fold_acc f e hassoc hl hr cs (f acc k), fold_acc f e hassoc hl hr cs (f e k)]
        cases evalRingFold ρ f e cs with
        | none => simp
        | some r => simp [hassoc, hl]

theorem sum_acc {cs : List Expr} {s : K} (acc : K)
    (h : evalRingFold ρ (· + ·) 0 cs = some s) :
    evalRingFold ρ (· + ·) acc cs = some (acc + s) := by
  rw [fold_acc ρ (· + ·) 0 (fun a b c => add_assoc a b c) zero_add add_zero cs acc, h]; rfl

theorem prod_acc {cs : List Expr} {s : K} (acc : K)
    (h : evalRingFold ρ (· * ·) 1 cs = some s) :
    evalRingFold ρ (· * ·) acc cs = some (acc * s) := by
  rw [fold_acc ρ (· * ·) 1 (fun a b c => mul_assoc a b c) one_mul mul_one cs acc, h]; rfl

theorem fold_mul_zero : ∀ (cs : List Expr) (k : K),
    evalRingFold ρ (· * ·) 0 cs = some k → k = 0
  | [], k, h => by simp only [evalRingFold] at h; injection h with h; exact h.symm
  | c :: cs, k, h => by
      simp only [evalRingFold] at h
      cases hc : evalRing ρ c with
      | none => rw [hc] at h; contradiction
      | some k' =>
        rw [hc] at h; simp only [zero_mul] at h
        exact fold_mul_zero cs k h

mutual
theorem falsy_ring : ∀ (e : Expr) (k : K), e.truthy = false → evalRing ρ e = some k → k = 0
  | .const c, k, ht, he => by
      obtain ⟨n, rfl, rfl⟩ := evalRing_const ρ he
      simp only [Expr.truthy, Const.truthy, bne_eq_false_iff_eq] at ht
      subst ht; exact Int.cast_zero
  | .nary .sum cs, k, ht, he => by
      simp only [Expr.truthy] at ht; simp only [evalRing] at he
      exact falsySum_ring cs k ht he
  | .nary .prod cs, k, ht, he => by
      simp only [Expr.truthy] at ht; simp only [evalRing] at he
      exact falsyProd_ring cs 1 k ht he
  | .var _, _, ht, _ => by simp [Expr.truthy] at ht
  | .nary .bor _, _, _, he | .nary .bxor _, _, _, he | .nary .band _, _, _, he
  | .nary .lor _, _, _, he | .nary .land _, _, _, he | .nary .min _, _, _, he
  | .nary .max _, _, _, he => by simp [evalRing] at he
  | .bin .., _, _, he | .un .., _, _, he | .cmp .., _, _, he | .ite .., _, _, he
  | .call .., _, _, he | .callKw .., _, _, he | .subscript .., _, _, he | .lookup .., _, _, he
  | .cse .., _, _, he | .subst .., _, _, he | .deriv .., _, _, he | .slice .., _, _, he
  | .nan, _, _, he | .wildcard, _, _, he | .dotWild .., _, _, he | .starWild .., _, _, he
  | .funcSym, _, _, he | .tuple .., _, _, he | .list .., _, _, he => by simp [evalRing] at he
theorem falsySum_ring : ∀ (cs : List Expr) (k : K), Expr.truthySum cs = false →
    evalRingFold ρ (· + ·) 0 cs = some k → k = 0
  | [], _, ht, _ => by simp [Expr.truthySum] at ht
  | [c], k, ht, he => by
      simp only [Expr.truthySum] at ht
      simp only [evalRingFold] at he
      cases hc : evalRing ρ c with
      | none => rw [hc] at he; contradiction
      | some k' =>
        rw [hc] at he; simp only [zero_add] at he
        injection he with he; subst he
        exact falsy_ring c k' ht hc
  | _ :: _ :: _, _, ht, _ => by simp [Expr.truthySum] at ht
theorem falsyProd_ring : ∀ (cs : List Expr) (acc k : K), Expr.truthyProd cs = false →
    evalRingFold ρ (· * ·) acc cs = some k → k = 0
  | [], _, _, ht, _ => by simp [Expr.truthyProd] at ht
  | c :: cs, acc, k, ht, he => by
      simp only [Expr.truthyProd, Bool.and_eq_false_iff] at ht
      simp only [evalRingFold] at he
      cases hc : evalRing ρ c with
      | none => rw [hc] at he; contradiction
      | some k' =>
        rw [hc] at he; simp only at he
        rcases ht with ht | ht
        · have := falsy_ring c k' ht hc
          subst this
          rw [mul_zero] at he
          exact fold_mul_zero ρ cs k he
        · exact falsyProd_ring cs _ k ht he
end

theorem isZero_ring {e : Expr} {k : K} (hz : e.isZero = true) (he : evalRing ρ e = some k) :
    k = 0 := by
  simp only [Expr.isZero, Bool.not_eq_true'] at hz
  exact falsy_ring ρ e k hz he

theorem isOne_ring {e : Expr} {k : K} (h1 : e.isOne = true) (he : evalRing ρ e = some k) :
    k = 1 := by
  cases e <;> simp only [Expr.isOne] at h1 <;> try contradiction
  obtain ⟨n, rfl, rfl⟩ := evalRing_const ρ he
  simp only [Const.isOne, beq_iff_eq] at h1
  subst h1; exact Int.cast_one

theorem evalRing_zero : evalRing ρ zero = some 0 := by
  simp only [zero, evalRing, Int.cast_zero]

theorem evalRing_sum_pair {x y : Expr} {a b : K} (hx : evalRing ρ x = some a)
    (hy : evalRing ρ y = some b) : evalRing ρ (.nary .sum [x, y]) = some (a + b) := by
  simp only [evalRing, evalRingFold, hx, hy, zero_add]

theorem evalRing_prod_pair {x y : Expr} {a b : K} (hx : evalRing ρ x = some a)
    (hy : evalRing ρ y = some b) : evalRing ρ (.nary .prod [x, y]) = some (a * b) := by
  simp only [evalRing, evalRingFold, hx, hy, one_mul]

theorem evalRing_sum_cons {x : Expr} {cs : List Expr} {a b : K} (hx : evalRing ρ x = some a)
    (hy : evalRing ρ (.nary .sum cs) = some b) :
    evalRing ρ (.nary .sum (x :: cs)) = some (a + b) := by
  simp only [evalRing] at hy
  simp only [evalRing, evalRingFold, hx, zero_add]
  exact sum_acc ρ a hy

theorem evalRing_prod_cons {x : Expr} {cs : List Expr} {a b : K} (hx : evalRing ρ x = some a)
    (hy : evalRing ρ (.nary .prod cs) = some b) :
    evalRing ρ (.nary .prod (x :: cs)) = some (a * b) := by
  simp only [evalRing] at hy
  simp only [evalRing, evalRingFold, hx, one_mul]
  exact prod_acc ρ a hy

theorem evalRing_sum_append {cs ds : List Expr} {a b : K}
    (hx : evalRing ρ (.nary .sum cs) = some a) (hy : evalRing ρ (.nary .sum ds) = some b) :
    evalRing ρ (.nary .sum (cs ++ ds)) = some (a + b) := by
  simp only [evalRing] at hx hy ⊢
  rw [fold_append, hx]
  exact sum_acc ρ a hy

theorem evalRing_prod_append {cs ds : List Expr} {a b : K}
    (hx : evalRing ρ (.nary .prod cs) = some a) (hy : evalRing ρ (.nary .prod ds) = some b) :
    evalRing ρ (.nary .prod (cs ++ ds)) = some (a * b) := by
  simp only [evalRing] at hx hy ⊢
  rw [fold_append, hx]
  exact prod_acc ρ a hy

theorem evalRing_sum_snoc {cs : List Expr} {y : Expr} {a b : K}
    (hx : evalRing ρ (.nary .sum cs) = some a) (hy : evalRing ρ y = some b) :
    evalRing ρ (.nary .sum (cs ++ [y])) = some (a + b) := by
  simp only [evalRing] at hx ⊢
  rw [fold_append, hx]
  simp only [Option.bind_some, evalRingFold, hy]

theorem evalRing_prod_snoc {cs : List Expr} {y : Expr} {a b : K}
    (hx : evalRing ρ (.nary .prod cs) = some a) (hy : evalRing ρ y = some b) :
    evalRing ρ (.nary .prod (cs ++ [y])) = some (a * b) := by
  simp only [evalRing] at hx ⊢
  rw [fold_append, hx]
  simp only [Option.bind_some, evalRingFold, hy]

theorem rmulD_ring {self other t : Expr} {a b : K} (h : rmulD self other = .ret t)
    (hs : evalRing ρ self = some a) (ho : evalRing ρ other = some b) :
    evalRing ρ t = some (b * a) := by
  unfold rmulD at h
  split at h
  · contradiction
  · split at h
    · split at h
      · injection h with h; subst h
        rw [isZero_ring ρ ‹_› ho, zero_mul]; exact evalRing_zero ρ
      · split at h
        · injection h with h; subst h
          rw [isOne_ring ρ ‹_› ho, one_mul]; exact hs
        · injection h with h; subst h
          exact evalRing_prod_cons ρ ho hs
    · split at h
      · injection h with h; subst h
        rw [isOne_ring ρ ‹_› ho, one_mul]; exact hs
      · split at h
        · injection h with h; subst h
          rw [isZero_ring ρ ‹_› ho, zero_mul]; exact evalRing_zero ρ
        · injection h with h; subst h
          exact evalRing_prod_pair ρ ho hs

theorem mulD_ring {self other t : Expr} {a b : K} (h : mulD self other = .ret t)
    (hs : evalRing ρ self = some a) (ho : evalRing ρ other = some b) :
    evalRing ρ t = some (a * b) := by
  unfold mulD at h
  split at h
  · contradiction
  · split at h
    · split at h
      · injection h with h; subst h
        exact evalRing_prod_append ρ hs ho
      · split at h
        · injection h with h; subst h
          rw [isZero_ring ρ ‹_› ho, mul_zero]; exact evalRing_zero ρ
        · split at h
          · injection h with h; subst h
            rw [isOne_ring ρ ‹_› ho, mul_one]; exact hs
          · injection h with h; subst h
            exact evalRing_prod_snoc ρ hs ho
    · split at h
      · injection h with h; subst h
        rw [isOne_ring ρ ‹_› ho, mul_one]; exact hs
      · split at h
        · injection h with h; subst h
          rw [isZero_ring ρ ‹_› ho, mul_zero]; exact evalRing_zero ρ
        · injection h with h; subst h
          exact evalRing_prod_pair ρ hs ho

theorem evalRing_negOne : evalRing ρ negOne = some (-1) := by
  simp only [negOne, evalRing, Int.cast_neg, Int.cast_one]

theorem negE_ring {e n : Expr} {k : K} (h : negE e = .ok n) (he : evalRing ρ e = some k) :
    evalRing ρ n = some (-k) := by
  unfold negE at h
  split at h
  · obtain ⟨m, rfl, rfl⟩ := evalRing_const ρ he
    simp only [Const.neg, pure, Except.pure] at h
    injection h with h; subst h
    simp only [evalRing, Int.cast_neg]
  · split at h
    · split at h
      · rename_i r hr
        simp only [pure, Except.pure] at h
        injection h with h; subst h
        have := rmulD_ring ρ hr he (evalRing_negOne ρ)
        rw [this, neg_one_mul]
      · simp only [throw, throwThe, MonadExceptOf.throw] at h; contradiction
    · simp only [throw, throwThe, MonadExceptOf.throw] at h; contradiction

theorem exprAdd_ring {self other t : Expr} {a b : K} (h : exprAdd self other = .ret t)
    (hs : evalRing ρ self = some a) (ho : evalRing ρ other = some b) :
    evalRing ρ t = some (a + b) := by
  unfold exprAdd at h
  split at h
  · contradiction
  · split at h
    · split at h
      · split at h
        · injection h with h; subst h
          exact evalRing_sum_cons ρ hs ho
        · injection h with h; subst h
          exact evalRing_sum_pair ρ hs ho
      · injection h with h; subst h
        rename_i hst
        simp only [Bool.not_eq_true] at hst
        rw [falsy_ring ρ _ _ hst hs, zero_add]; exact ho
    · injection h with h; subst h
      rename_i hot
      simp only [Bool.not_eq_true] at hot
      rw [falsy_ring ρ _ _ hot ho, add_zero]; exact hs

theorem addD_ring {self other t : Expr} {a b : K} (h : addD self other = .ret t)
    (hs : evalRing ρ self = some a) (ho : evalRing ρ other = some b) :
    evalRing ρ t = some (a + b) := by
  unfold addD at h
  split at h
  · split at h
    · contradiction
    · split at h
      · injection h with h; subst h
        exact evalRing_sum_append ρ hs ho
      · split at h
        · injection h with h; subst h
          rename_i hot
          simp only [Bool.not_eq_true', ] at hot
          rw [falsy_ring ρ _ _ hot ho, add_zero]; exact hs
        · injection h with h; subst h
          exact evalRing_sum_snoc ρ hs ho
  · exact exprAdd_ring ρ h hs ho

theorem raddD_ring {self other t : Expr} {a b : K} (h : raddD self other = .ret t)
    (hs : evalRing ρ self = some a) (ho : evalRing ρ other = some b) :
    evalRing ρ t = some (b + a) := by
  unfold raddD at h
  split at h
  · split at h
    · contradiction
    · split at h
      · injection h with h; subst h
        rename_i hot
        simp only [Bool.not_eq_true'] at hot
        rw [falsy_ring ρ _ _ hot ho, zero_add]; exact hs
      · injection h with h; subst h
        exact evalRing_sum_cons ρ ho hs
  · split at h
    · contradiction
    · split at h
      · split at h
        · injection h with h; subst h
          exact evalRing_sum_pair ρ ho hs
        · injection h with h; subst h
          rename_i hst
          simp only [Bool.not_eq_true] at hst
          rw [falsy_ring ρ _ _ hst hs, add_zero]; exact ho
      · injection h with h; subst h
        rename_i hot
        simp only [Bool.not_eq_true] at hot
        rw [falsy_ring ρ _ _ hot ho, zero_add]; exact hs

theorem subD_ring {self other t : Expr} {a b : K} (h : subD self other = .ret t)
    (hs : evalRing ρ self = some a) (ho : evalRing ρ other = some b) :
    evalRing ρ t = some (a - b) := by
  unfold subD at h
  split at h
  · split at h
    · contradiction
    · split at h
      · injection h with h; subst h
        rename_i hot
        simp only [Bool.not_eq_true'] at hot
        rw [falsy_ring ρ _ _ hot ho, sub_zero]; exact hs
      · split at h
        · rename_i n hn
          injection h with h; subst h
          rw [sub_eq_add_neg]
          exact evalRing_sum_snoc ρ hs (negE_ring ρ hn ho)
        · contradiction
  · split at h
    · contradiction
    · split at h
      · split at h
        · rename_i n hn
          rw [sub_eq_add_neg]
          exact exprAdd_ring ρ h hs (negE_ring ρ hn ho)
        · contradiction
      · injection h with h; subst h
        rename_i hot
        simp only [Bool.not_eq_true] at hot
        rw [falsy_ring ρ _ _ hot ho, sub_zero]; exact hs

theorem rsubD_ring {self other t : Expr} {a b : K} (h : rsubD self other = .ret t)
    (hs : evalRing ρ self = some a) (ho : evalRing ρ other = some b) :
    evalRing ρ t = some (b - a) := by
  unfold rsubD at h
  split at h
  · contradiction
  · split at h
    · contradiction
    · rename_i n hn
      have hn' := negE_ring ρ hn hs
      split at h
      · injection h with h; subst h
        rw [sub_eq_add_neg]
        exact evalRing_sum_pair ρ ho hn'
      · injection h with h; subst h
        rename_i hot
        simp only [Bool.not_eq_true] at hot
        rw [falsy_ring ρ _ _ hot ho, zero_sub]; exact hn'

theorem dispatch_ring {fwd refl : Expr → Expr → Dunder} (g : K → K → K)
    (hf : ∀ {s o t : Expr} {a b : K}, fwd s o = .ret t → evalRing ρ s = some a →
      evalRing ρ o = some b → evalRing ρ t = some (g a b))
    (hr : ∀ {s o t : Expr} {a b : K}, refl s o = .ret t → evalRing ρ s = some a →
      evalRing ρ o = some b → evalRing ρ t = some (g b a))
    {x y t : Expr} {a b : K} (h : dispatch fwd refl x y = .ok t)
    (hx : evalRing ρ x = some a) (hy : evalRing ρ y = some b) :
    evalRing ρ t = some (g a b) := by
  unfold dispatch at h
  simp only [pure, Except.pure, throw, throwThe, MonadExceptOf.throw] at h
  split at h
  · split at h
    · rename_i r hr'
      injection h with h; subst h
      exact hf hr' hx hy
    · contradiction
    · split at h
      · split at h
        · rename_i r hr'
          injection h with h; subst h
          exact hr hr' hy hx
        · contradiction
        · contradiction
      · contradiction
  · split at h
    · split at h
      · split at h
        · rename_i r hr'
          injection h with h; subst h
          exact hr hr' hy hx
        · contradiction
        · contradiction
      · contradiction
    · contradiction

theorem bin_add_ring {x y t : Expr} {a b : K} (h : Ops.bin .add x y = .ok t)
    (hx : evalRing ρ x = some a) (hy : evalRing ρ y = some b) :
    evalRing ρ t = some (a + b) :=
  dispatch_ring ρ (· + ·) (addD_ring ρ) (raddD_ring ρ) h hx hy

theorem bin_sub_ring {x y t : Expr} {a b : K} (h : Ops.bin .sub x y = .ok t)
    (hx : evalRing ρ x = some a) (hy : evalRing ρ y = some b) :
    evalRing ρ t = some (a - b) :=
  dispatch_ring ρ (· - ·) (subD_ring ρ) (rsubD_ring ρ) h hx hy

theorem bin_mul_ring {x y t : Expr} {a b : K} (h : Ops.bin .mul x y = .ok t)
    (hx : evalRing ρ x = some a) (hy : evalRing ρ y = some b) :
    evalRing ρ t = some (a * b) :=
  dispatch_ring ρ (· * ·) (mulD_ring ρ) (rmulD_ring ρ) h hx hy

theorem constBin_add (m n : Int) : constBin .add (.int m) (.int n) = .ok (.const (.int (m + n))) := rfl
theorem constBin_sub (m n : Int) : constBin .sub (.int m) (.int n) = .ok (.const (.int (m - n))) := rfl
theorem constBin_mul (m n : Int) : constBin .mul (.int m) (.int n) = .ok (.const (.int (m * n))) := rfl

theorem plainRing_bin {o : PyBinOp} {p q : OpProg} {k : K}
    (h : plainRing ρ (.bin o p q) = some k) :
    ∃ ka kb, plainRing ρ p = some ka ∧ plainRing ρ q = some kb ∧
      ((o = .add ∧ k = ka + kb) ∨ (o = .sub ∧ k = ka - kb) ∨ (o = .mul ∧ k = ka * kb)) := by
  cases o <;> simp only [plainRing] at h <;> try contradiction
  all_goals
    cases hp : plainRing ρ p with
    | none => rw [hp] at h; contradiction
    | some ka =>
      cases hq : plainRing ρ q with
      | none => rw [hp, hq] at h; contradiction
      | some kb =>
        rw [hp, hq] at h; injection h with h
        exact ⟨ka, kb, rfl, rfl, by simp [h.symm]⟩

theorem plainRing_un {o : PyUnOp} {p : OpProg} {k : K}
    (h : plainRing ρ (.un o p) = some k) :
    ∃ ka, plainRing ρ p = some ka ∧ ((o = .neg ∧ k = -ka) ∨ (o = .pos ∧ k = ka)) := by
  cases o <;> simp only [plainRing] at h <;> try contradiction
  · cases hp : plainRing ρ p with
    | none => rw [hp] at h; contradiction
    | some ka => rw [hp] at h; injection h with h; exact ⟨ka, rfl, Or.inl ⟨rfl, h.symm⟩⟩
  · exact ⟨k, h, Or.inr ⟨rfl, rfl⟩⟩

theorem no_reorder : ∀ (p : OpProg) (t : Expr) (k : K),
    p.build = .ok t → plainRing ρ p = some k → evalRing ρ t = some k := by
  intro p
  induction p with
  | leaf e =>
    intro t k hb hp
    simp only [OpProg.build, pure, Except.pure] at hb
    injection hb with hb; subst hb
    simpa only [plainRing] using hp
  | bin o p q ihp ihq =>
    intro t k hb hp
    obtain ⟨ka, kb, hka, hkb, hk⟩ := plainRing_bin ρ hp
    simp only [OpProg.build, bind, Except.bind] at hb
    cases hpb : p.build with
    | error e => rw [hpb] at hb; contradiction
    | ok a =>
      rw [hpb] at hb; simp only at hb
      cases hqb : q.build with
      | error e => rw [hqb] at hb; contradiction
      | ok b =>
        rw [hqb] at hb; simp only at hb
        have ha := ihp a ka hpb hka
        have hb' := ihq b kb hqb hkb
        split at hb
        · obtain ⟨m, rfl, rfl⟩ := evalRing_const ρ ha
          obtain ⟨n, rfl, rfl⟩ := evalRing_const ρ hb'
          rcases hk with ⟨rfl, rfl⟩ | ⟨rfl, rfl⟩ | ⟨rfl, rfl⟩
          · rw [constBin_add] at hb; injection hb with hb; subst hb
            simp only [evalRing, Int.cast_add]
          · rw [constBin_sub] at hb; injection hb with hb; subst hb
            simp only [evalRing, Int.cast_sub]
          · rw [constBin_mul] at hb; injection hb with hb; subst hb
            simp only [evalRing, Int.cast_mul]
        · rcases hk with ⟨rfl, rfl⟩ | ⟨rfl, rfl⟩ | ⟨rfl, rfl⟩
          · exact bin_add_ring ρ hb ha hb'
          · exact bin_sub_ring ρ hb ha hb'
          · exact bin_mul_ring ρ hb ha hb'
  | un o p ihp =>
    intro t k hb hp
    obtain ⟨ka, hka, hk⟩ := plainRing_un ρ hp
    simp only [OpProg.build, bind, Except.bind] at hb
    cases hpb : p.build with
    | error e => rw [hpb] at hb; contradiction
    | ok a =>
      rw [hpb] at hb; simp only at hb
      have ha := ihp a ka hpb hka
      split at hb
      · obtain ⟨m, rfl, rfl⟩ := evalRing_const ρ ha
        rcases hk with ⟨rfl, rfl⟩ | ⟨rfl, rfl⟩
        · have hb2 : (Except.ok (.const (.int (-m))) : OpR) = .ok t := hb
          injection hb2 with hb2; subst hb2
          simp only [evalRing, Int.cast_neg]
        · have hb2 : (Except.ok (.const (.int m)) : OpR) = .ok t := hb
          injection hb2 with hb2; subst hb2
          simp only [evalRing]
      · rcases hk with ⟨rfl, rfl⟩ | ⟨rfl, rfl⟩
        · simp only [Ops.un] at hb
          split at hb
          · exact negE_ring ρ hb ha
          · simp only [throw, throwThe, MonadExceptOf.throw] at hb; contradiction
        · simp only [Ops.un, pure, Except.pure, throw, throwThe, MonadExceptOf.throw] at hb
          split at hb
          · injection hb with hb; subst hb; exact ha
          · contradiction
end

end PV

