import PV.Model.CCode
/-
  C14.  Invariants of the CSE allocator of the C code mapper model.

  * `RefInv` (holds in EVERY state reachable with `emit`, `copy`, `copy_with_mapped_cses`): every
    hoisted name an assignment refers to is assigned by an earlier entry of `cse_name_list`.
  * `Inv` (holds on one mapper without `copy`): names pairwise distinct, `cse_names` = the names,
    `cse_to_name` lists the wrapped children entry by entry, children pairwise different under `==`.
-/
namespace PV.C14
open PV

/-- the dictionary key an entry was stored under (ghost `child`; mapped entries: the pair's value) -/
def entryKey (e : CEntry) : CCKey :=
  match e.child with
  | some c => .expr c
  | none => e.val

/-- every entry refers only to names assigned by earlier entries (`seen`: names assigned so far) -/
def refsBefore : List String → List CEntry → Prop
  | _, [] => True
  | seen, e :: es => (∀ r ∈ e.refs, r ∈ seen) ∧ refsBefore (seen ++ [e.name]) es

theorem refsBefore_append (seen : List String) (l : List CEntry) (e : CEntry) :
    refsBefore seen (l ++ [e]) ↔
      refsBefore seen l ∧ ∀ r ∈ e.refs, r ∈ seen ++ l.map (·.name) := by
  induction l generalizing seen with
  | nil => simp [refsBefore]
  | cons x xs ih =>
    simp only [List.cons_append, refsBefore, ih, List.map_cons, List.append_assoc,
      List.nil_append, List.cons_append, and_assoc]

theorem refsBefore_append_list (seen : List String) (l ext : List CEntry)
    (h1 : refsBefore seen l) (h2 : ∀ e ∈ ext, e.refs = []) : refsBefore seen (l ++ ext) := by
  induction ext generalizing l with
  | nil => simpa using h1
  | cons x xs ih =>
    have : l ++ x :: xs = (l ++ [x]) ++ xs := by simp
    rw [this]
    apply ih
    · rw [refsBefore_append]
      refine ⟨h1, ?_⟩
      rw [h2 x (by simp)]
      simp
    · intro e he
      exact h2 e (by simp [he])

/-- the state only grows, and its configuration is fixed -/
def Ext (st st' : CSt) : Prop :=
  (∃ ext, st'.nameList = st.nameList ++ ext) ∧ st'.reverse = st.reverse ∧ st'.pfx = st.pfx

theorem Ext.refl (st : CSt) : Ext st st := ⟨⟨[], by simp⟩, rfl, rfl⟩

theorem Ext.trans {a b c : CSt} (h1 : Ext a b) (h2 : Ext b c) : Ext a c := by
  obtain ⟨⟨e1, h1l⟩, h1r, h1p⟩ := h1
  obtain ⟨⟨e2, h2l⟩, h2r, h2p⟩ := h2
  exact ⟨⟨e1 ++ e2, by rw [h2l, h1l, List.append_assoc]⟩, h2r.trans h1r, h2p.trans h1p⟩

theorem Ext.assigned_mono {a b : CSt} (h : Ext a b) {r : String} (hr : r ∈ a.assigned) :
    r ∈ b.assigned := by
  obtain ⟨⟨e, hl⟩, _, _⟩ := h
  simp only [CSt.assigned, hl, List.map_append, List.mem_append]
  exact Or.inl hr

/-! ### `RefInv`: assigned before use, in every state -/

structure RefInv (st : CSt) : Prop where
  /-- every assignment refers only to names assigned by earlier entries -/
  before : refsBefore [] st.nameList
  /-- every name `cse_to_name` can return is assigned -/
  vals : ∀ kv ∈ st.toName, kv.2 ∈ st.assigned

/-- what one call of the printer guarantees about the allocator -/
def RefStep (st : CSt) (refs : List String) (st' : CSt) : Prop :=
  RefInv st' ∧ Ext st st' ∧ ∀ r ∈ refs, r ∈ st'.assigned

abbrev Printer := CSt → Expr → Nat → Except CErr COut

def RefGood (f : Printer) : Prop :=
  ∀ st e enc d refs st', RefInv st → f st e enc = .ok (d, refs, st') → RefStep st refs st'

theorem printAll_ref (f : Printer) (hf : RefGood f) :
    ∀ pl st ds refs st', RefInv st → printAll f st pl = .ok (ds, refs, st') →
      RefStep st refs st' := by
  intro pl
  induction pl with
  | nil =>
    intro st ds refs st' hi h
    simp only [printAll, pure, Except.pure, Except.ok.injEq, Prod.mk.injEq] at h
    obtain ⟨_, rfl, rfl⟩ := h
    exact ⟨hi, Ext.refl _, by simp⟩
  | cons x rest ih =>
    intro st ds refs st' hi h
    obtain ⟨e, enc⟩ := x
    simp only [printAll, bind, Except.bind] at h
    cases h1 : f st e enc with
    | error err => simp [h1] at h
    | ok v =>
      obtain ⟨d1, r1, st1⟩ := v
      simp only [h1] at h
      cases h2 : printAll f st1 rest with
      | error err => simp [h2] at h
      | ok w =>
        obtain ⟨ds2, r2, st2⟩ := w
        simp only [h2, pure, Except.pure, Except.ok.injEq, Prod.mk.injEq] at h
        obtain ⟨_, rfl, rfl⟩ := h
        obtain ⟨i1, e1, m1⟩ := hf st e enc d1 r1 st1 hi h1
        obtain ⟨i2, e2, m2⟩ := ih st1 ds2 r2 st2 i1 h2
        refine ⟨i2, e1.trans e2, ?_⟩
        intro r hr
        rcases List.mem_append.mp hr with hr | hr
        · exact e2.assigned_mono (m1 r hr)
        · exact m2 r hr

theorem ccodeGeneric_ref (S : PrintPrec) (f : Printer) (hf : RefGood f) :
    ∀ st e enc d refs st', RefInv st → ccodeGeneric S f st e enc = .ok (d, refs, st') →
      RefStep st refs st' := by
  intro st e enc d refs st' hi h
  simp only [ccodeGeneric, bind, Except.bind] at h
  cases hp : plan S e enc with
  | error err => simp [hp] at h
  | ok pl =>
    simp only [hp] at h
    cases h2 : printAll f st pl with
    | error err => simp [h2] at h
    | ok w =>
      obtain ⟨ds, r, st2⟩ := w
      simp only [h2] at h
      cases h3 : assemble S st.reverse e enc ds with
      | error err => simp [h3] at h
      | ok dd =>
        simp only [h3, pure, Except.pure, Except.ok.injEq, Prod.mk.injEq] at h
        obtain ⟨_, rfl, rfl⟩ := h
        exact printAll_ref f hf pl st ds r st2 hi h2

theorem ccodeCse_ref (S : PrintPrec) (f : Printer) (hf : RefGood f) :
    ∀ st c p d refs st', RefInv st →
      ccodeCse S f st c p = .ok (d, refs, st') → RefStep st refs st' := by
  intro st c p d refs st' hi h
  have hval := hi.vals
  unfold ccodeCse at h
  split at h
  · simp [throw, throwThe, MonadExceptOf.throw] at h
  · split at h
    · rename_i kv hfind
      simp only [pure, Except.pure, Except.ok.injEq, Prod.mk.injEq] at h
      obtain ⟨_, rfl, rfl⟩ := h
      refine ⟨hi, Ext.refl _, ?_⟩
      intro r hr
      simp only [List.mem_singleton] at hr
      subst hr
      exact hval kv (List.mem_of_find?_eq_some hfind)
    · split at h
      · simp [throw, throwThe, MonadExceptOf.throw] at h
      · rename_i d1 r1 st1 h1
        obtain ⟨i1, e1, m1⟩ := hf st c S.none d1 r1 st1 hi h1
        split at h
        · simp [throw, throwThe, MonadExceptOf.throw] at h
        · rename_i n hn
          split at h
          · simp [throw, throwThe, MonadExceptOf.throw] at h
          · simp only [pure, Except.pure, Except.ok.injEq, Prod.mk.injEq] at h
            obtain ⟨_, rfl, rfl⟩ := h
            refine ⟨?_, ?_, ?_⟩
            · constructor
              · show refsBefore [] (st1.nameList ++ [_])
                rw [refsBefore_append]
                exact ⟨i1.before, by simpa [CSt.assigned] using m1⟩
              · intro kv hkv
                simp only [List.mem_append, List.mem_singleton] at hkv
                rcases hkv with hkv | hkv
                · have := i1.vals kv hkv
                  simp only [CSt.assigned, List.map_append, List.mem_append] at this ⊢
                  exact Or.inl this
                · subst hkv
                  simp [CSt.assigned]
            · refine Ext.trans e1 ⟨⟨[_], rfl⟩, rfl, rfl⟩
            · intro r hr
              simp only [List.mem_singleton] at hr
              subst hr
              simp [CSt.assigned]


theorem ccodeE_ref (S : PrintPrec) : ∀ fuel, RefGood (ccodeE S fuel) := by
  intro fuel
  induction fuel with
  | zero =>
    intro st e enc d refs st' _ h
    simp [ccodeE, throw, throwThe, MonadExceptOf.throw] at h
  | succ n ih =>
    intro st e enc d refs st' hi h
    cases e with
    | cse c p sc =>
      simp only [ccodeE] at h
      exact ccodeCse_ref S _ ih st c p d refs st' hi h
    | _ =>
      simp only [ccodeE] at h
      exact ccodeGeneric_ref S _ ih st _ enc d refs st' hi h

theorem ccode_ref (S : PrintPrec) (st : CSt) (e : Expr) (d : Doc) (refs : List String) (st' : CSt)
    (hi : RefInv st) (h : ccode S st e = .ok (d, refs, st')) : RefStep st refs st' :=
  ccodeE_ref S _ st e _ d refs st' hi h

/-! ### `Inv`: one mapper, no `copy` -/

structure Inv (st : CSt) : Prop where
  nodup : st.assigned.Nodup
  namesEq : st.names = st.nameList.map (fun e => CCKey.text e.name)
  toNameEq : st.toName = st.nameList.map (fun e => (entryKey e, e.name))
  once : (st.nameList.map entryKey).Pairwise (fun a b => a.eq b = false)
  hoisted : ∀ e ∈ st.nameList, e.child.isSome = true

def InvGood (f : Printer) : Prop :=
  ∀ st e enc d refs st', Inv st → f st e enc = .ok (d, refs, st') → Inv st'

theorem printAll_inv (f : Printer) (hf : InvGood f) :
    ∀ pl st ds refs st', Inv st → printAll f st pl = .ok (ds, refs, st') → Inv st' := by
  intro pl
  induction pl with
  | nil =>
    intro st ds refs st' hi h
    simp only [printAll, pure, Except.pure, Except.ok.injEq, Prod.mk.injEq] at h
    obtain ⟨_, _, rfl⟩ := h
    exact hi
  | cons x rest ih =>
    intro st ds refs st' hi h
    obtain ⟨e, enc⟩ := x
    simp only [printAll, bind, Except.bind] at h
    cases h1 : f st e enc with
    | error err => simp [h1] at h
    | ok v =>
      obtain ⟨d1, r1, st1⟩ := v
      simp only [h1] at h
      cases h2 : printAll f st1 rest with
      | error err => simp [h2] at h
      | ok w =>
        obtain ⟨ds2, r2, st2⟩ := w
        simp only [h2, pure, Except.pure, Except.ok.injEq, Prod.mk.injEq] at h
        obtain ⟨_, _, rfl⟩ := h
        exact ih st1 ds2 r2 st2 (hf st e enc d1 r1 st1 hi h1) h2

theorem ccodeGeneric_inv (S : PrintPrec) (f : Printer) (hf : InvGood f) :
    ∀ st e enc d refs st', Inv st → ccodeGeneric S f st e enc = .ok (d, refs, st') → Inv st' := by
  intro st e enc d refs st' hi h
  simp only [ccodeGeneric, bind, Except.bind] at h
  cases hp : plan S e enc with
  | error err => simp [hp] at h
  | ok pl =>
    simp only [hp] at h
    cases h2 : printAll f st pl with
    | error err => simp [h2] at h
    | ok w =>
      obtain ⟨ds, r, st2⟩ := w
      simp only [h2] at h
      cases h3 : assemble S st.reverse e enc ds with
      | error err => simp [h3] at h
      | ok dd =>
        simp only [h3, pure, Except.pure, Except.ok.injEq, Prod.mk.injEq] at h
        obtain ⟨_, _, rfl⟩ := h
        exact printAll_inv f hf pl st ds r st2 hi h2

theorem firstFree_not_taken (taken : List CCKey) (cand : Nat → String) :
    ∀ fuel i n, firstFree taken cand fuel i = some n → nameTaken taken n = false := by
  intro fuel
  induction fuel with
  | zero => intro i n h; simp [firstFree] at h
  | succ k ih =>
    intro i n h
    simp only [firstFree] at h
    split at h
    · exact ih _ _ h
    · rename_i hnt
      simp only [Option.some.injEq] at h
      subst h
      simpa using hnt

theorem nameTaken_names (l : List CEntry) (n : String) :
    nameTaken (l.map (fun e => CCKey.text e.name)) n = false → n ∉ l.map (·.name) := by
  intro h hmem
  simp only [nameTaken, List.any_map, List.any_eq_false, Function.comp] at h
  obtain ⟨e, he, rfl⟩ := List.mem_map.mp hmem
  have := h e he
  simp at this

theorem find_none_all {l : List (CCKey × String)} {k : CCKey}
    (h : l.find? (fun kv => kv.1.eq k) = none) : ∀ kv ∈ l, kv.1.eq k = false := by
  intro kv hkv
  have := List.find?_eq_none.mp h kv hkv
  simpa using this

/-- the hoisting step keeps `Inv`, and a wrapper whose child is known changes nothing -/
theorem ccodeCse_inv (S : PrintPrec) (f : Printer) (hf : InvGood f) :
    ∀ st c p d refs st', Inv st → ccodeCse S f st c p = .ok (d, refs, st') → Inv st' := by
  intro st c p d refs st' hi h
  unfold ccodeCse at h
  split at h
  · simp [throw, throwThe, MonadExceptOf.throw] at h
  · split at h
    · simp only [pure, Except.pure, Except.ok.injEq, Prod.mk.injEq] at h
      obtain ⟨_, _, rfl⟩ := h
      exact hi
    · split at h
      · simp [throw, throwThe, MonadExceptOf.throw] at h
      · rename_i d1 r1 st1 h1
        have i1 := hf st c S.none d1 r1 st1 hi h1
        split at h
        · simp [throw, throwThe, MonadExceptOf.throw] at h
        · rename_i n hn
          split at h
          · simp [throw, throwThe, MonadExceptOf.throw] at h
          · rename_i hfind
            simp only [pure, Except.pure, Except.ok.injEq, Prod.mk.injEq] at h
            obtain ⟨_, _, rfl⟩ := h
            have hfree : nameTaken st1.names n = false := firstFree_not_taken _ _ _ _ _ hn
            rw [i1.namesEq] at hfree
            have hnew : n ∉ st1.nameList.map (·.name) := nameTaken_names _ _ hfree
            have hkeys := find_none_all hfind
            constructor
            · simp only [CSt.assigned, List.map_append, List.map_cons, List.map_nil]
              rw [List.nodup_append]
              refine ⟨i1.nodup, by simp, ?_⟩
              intro a ha b hb
              simp only [List.mem_singleton] at hb
              subst hb
              intro hab
              subst hab
              exact hnew ha
            · simp [i1.namesEq]
            · simp [i1.toNameEq, entryKey]
            · simp only [List.map_append, List.map_cons, List.map_nil]
              rw [List.pairwise_append]
              refine ⟨i1.once, by simp, ?_⟩
              intro a ha b hb
              simp only [List.mem_singleton] at hb
              subst hb
              obtain ⟨e, he, rfl⟩ := List.mem_map.mp ha
              have := hkeys (entryKey e, e.name) (by rw [i1.toNameEq]; exact List.mem_map.mpr ⟨e, he, rfl⟩)
              simpa [entryKey] using this
            · intro e he
              simp only [List.mem_append, List.mem_singleton] at he
              rcases he with he | he
              · exact i1.hoisted e he
              · subst he; rfl

theorem ccodeE_inv (S : PrintPrec) : ∀ fuel, InvGood (ccodeE S fuel) := by
  intro fuel
  induction fuel with
  | zero =>
    intro st e enc d refs st' _ h
    simp [ccodeE, throw, throwThe, MonadExceptOf.throw] at h
  | succ n ih =>
    intro st e enc d refs st' hi h
    cases e with
    | cse c p sc =>
      simp only [ccodeE] at h
      exact ccodeCse_inv S _ ih st c p d refs st' hi h
    | _ =>
      simp only [ccodeE] at h
      exact ccodeGeneric_inv S _ ih st _ enc d refs st' hi h

theorem inv_init (reverse : Bool) (pfx : String) : Inv { reverse, pfx } := by
  constructor <;> simp [CSt.assigned]

theorem refInv_init (reverse : Bool) (pfx : String) : RefInv { reverse, pfx } := by
  constructor <;> simp [refsBefore]


/-! ### histories on one mapper -/

theorem emits_inv (S : PrintPrec) : ∀ es st outs st', Inv st → emits S st es = .ok (outs, st') →
    Inv st' := by
  intro es
  induction es with
  | nil =>
    intro st outs st' hi h
    simp only [emits, pure, Except.pure, Except.ok.injEq, Prod.mk.injEq] at h
    obtain ⟨_, rfl⟩ := h
    exact hi
  | cons e rest ih =>
    intro st outs st' hi h
    simp only [emits, bind, Except.bind] at h
    cases h1 : ccode S st e with
    | error err => simp [h1] at h
    | ok v =>
      obtain ⟨d1, r1, st1⟩ := v
      simp only [h1] at h
      cases h2 : emits S st1 rest with
      | error err => simp [h2] at h
      | ok w =>
        obtain ⟨o2, st2⟩ := w
        simp only [h2, pure, Except.pure, Except.ok.injEq, Prod.mk.injEq] at h
        obtain ⟨_, rfl⟩ := h
        exact ih st1 o2 st2 (ccodeE_inv S _ st e _ d1 r1 st1 hi h1) h2

theorem emits_ref (S : PrintPrec) : ∀ es st outs st', RefInv st → emits S st es = .ok (outs, st') →
    RefInv st' ∧ Ext st st' ∧ ∀ o ∈ outs, ∀ r ∈ o.2, r ∈ st'.assigned := by
  intro es
  induction es with
  | nil =>
    intro st outs st' hi h
    simp only [emits, pure, Except.pure, Except.ok.injEq, Prod.mk.injEq] at h
    obtain ⟨rfl, rfl⟩ := h
    exact ⟨hi, Ext.refl _, by simp⟩
  | cons e rest ih =>
    intro st outs st' hi h
    simp only [emits, bind, Except.bind] at h
    cases h1 : ccode S st e with
    | error err => simp [h1] at h
    | ok v =>
      obtain ⟨d1, r1, st1⟩ := v
      simp only [h1] at h
      cases h2 : emits S st1 rest with
      | error err => simp [h2] at h
      | ok w =>
        obtain ⟨o2, st2⟩ := w
        simp only [h2, pure, Except.pure, Except.ok.injEq, Prod.mk.injEq] at h
        obtain ⟨rfl, rfl⟩ := h
        obtain ⟨i1, e1, m1⟩ := ccode_ref S st e d1 r1 st1 hi h1
        obtain ⟨i2, e2, m2⟩ := ih st1 o2 st2 i1 h2
        refine ⟨i2, e1.trans e2, ?_⟩
        intro o ho
        simp only [List.mem_cons] at ho
        rcases ho with rfl | ho
        · intro r hr
          exact e2.assigned_mono (m1 r hr)
        · exact m2 o ho

/-! ### `copy` keeps `RefInv` (but not `Inv`) -/

theorem dictSet_vals (d : List (CCKey × String)) (k : CCKey) (v : String) (P : String → Prop)
    (hd : ∀ kv ∈ d, P kv.2) (hv : P v) : ∀ kv ∈ dictSet d k v, P kv.2 := by
  induction d with
  | nil => intro kv h; simp only [dictSet, List.mem_singleton] at h; subst h; exact hv
  | cons x xs ih =>
    intro kv h
    obtain ⟨k', v'⟩ := x
    simp only [dictSet] at h
    split at h
    · simp only [List.mem_cons] at h
      rcases h with rfl | h
      · exact hv
      · exact hd kv (by simp [h])
    · simp only [List.mem_cons] at h
      rcases h with rfl | h
      · exact hd _ (by simp)
      · exact ih (fun kv hkv => hd kv (by simp [hkv])) kv h

theorem ofList_vals (l : List CEntry) (P : String → Prop) (hl : ∀ e ∈ l, P e.name) :
    ∀ (d : List (CCKey × String)), (∀ kv ∈ d, P kv.2) →
      ∀ kv ∈ l.foldl (fun d e => dictSet d e.val e.name) d, P kv.2 := by
  induction l with
  | nil => intro d hd; simpa using hd
  | cons x xs ih =>
    intro d hd
    simp only [List.foldl_cons]
    apply ih (fun e he => hl e (by simp [he]))
    exact dictSet_vals d _ _ P hd (hl x (by simp))

theorem refInv_ofList (reverse : Bool) (pfx : String) (l : List CEntry)
    (h : refsBefore [] l) : RefInv (CSt.ofList reverse pfx l) := by
  constructor
  · exact h
  · intro kv hkv
    simp only [CSt.ofList] at hkv
    refine ofList_vals l (fun n => n ∈ l.map (·.name)) ?_ [] (by simp) kv hkv
    intro e he
    exact List.mem_map.mpr ⟨e, he, rfl⟩

theorem refInv_copy (st : CSt) (h : RefInv st) : RefInv st.copy :=
  refInv_ofList _ _ _ h.before

theorem refInv_copyMapped (st : CSt) (pairs : List (String × Expr)) (h : RefInv st) :
    RefInv (st.copyWithMappedCses pairs) := by
  apply refInv_ofList
  apply refsBefore_append_list _ _ _ h.before
  intro e he
  obtain ⟨p, _, rfl⟩ := List.mem_map.mp he
  rfl

/-! ### pools -/

/-- what an output of `runOps` promises about the final pool -/
def OutOK (pool' : List CSt) : COpn → CStepOut → Prop
  | .emit i _, .text _ refs => ∀ st', pool'[i]? = some st' → ∀ r ∈ refs, r ∈ st'.assigned
  | _, _ => True

/-- `OutOK` for every (operation, output) pair of a run -/
def OutsOK (pool' : List CSt) : List COpn → List CStepOut → Prop
  | [], [] => True
  | op :: ops, o :: os => OutOK pool' op o ∧ OutsOK pool' ops os
  | _, _ => False

theorem runOps_ref (S : PrintPrec) : ∀ ops pool outs pool', (∀ st ∈ pool, RefInv st) →
    runOps S pool ops = .ok (outs, pool') →
      (∀ st ∈ pool', RefInv st) ∧
      (∀ (i : Nat) st, pool[i]? = some st → ∃ st', pool'[i]? = some st' ∧ Ext st st') ∧
      OutsOK pool' ops outs := by
  intro ops
  induction ops with
  | nil =>
    intro pool outs pool' hp h
    simp only [runOps, pure, Except.pure, Except.ok.injEq, Prod.mk.injEq] at h
    obtain ⟨rfl, rfl⟩ := h
    exact ⟨hp, fun i st hi => ⟨st, hi, Ext.refl _⟩, trivial⟩
  | cons op rest ih =>
    intro pool outs pool' hp h
    cases op with
    | emit i e =>
      simp only [runOps] at h
      cases hi : pool[i]? with
      | none => simp [hi, throw, throwThe, MonadExceptOf.throw] at h
      | some st =>
        simp only [hi, bind, Except.bind] at h
        cases h1 : ccode S st e with
        | error err => simp [h1] at h
        | ok v =>
          obtain ⟨d1, r1, st1⟩ := v
          simp only [h1] at h
          cases h2 : runOps S (pool.set i st1) rest with
          | error err => simp [h2] at h
          | ok w =>
            obtain ⟨o2, p2⟩ := w
            simp only [h2, pure, Except.pure, Except.ok.injEq, Prod.mk.injEq] at h
            obtain ⟨rfl, rfl⟩ := h
            have hst : RefInv st := hp st (List.mem_of_getElem? hi)
            obtain ⟨i1, e1, m1⟩ := ccode_ref S st e d1 r1 st1 hst h1
            have hp1 : ∀ s ∈ pool.set i st1, RefInv s := by
              intro s hs
              rcases List.mem_or_eq_of_mem_set hs with hs | hs
              · exact hp s hs
              · subst hs; exact i1
            obtain ⟨a, b, c⟩ := ih (pool.set i st1) o2 p2 hp1 h2
            have hlt : i < pool.length := by
              rcases Nat.lt_or_ge i pool.length with hh | hh
              · exact hh
              · rw [List.getElem?_eq_none hh] at hi; cases hi
            refine ⟨a, ?_, ?_⟩
            · intro j s hj
              by_cases hji : i = j
              · subst hji
                obtain ⟨s', hs', es'⟩ := b i st1 (by simp [List.getElem?_set_self hlt])
                rw [hi] at hj
                cases hj
                exact ⟨s', hs', e1.trans es'⟩
              · exact b j s (by rw [List.getElem?_set_ne hji]; exact hj)
            · refine ⟨?_, c⟩
              intro s' hs' r hr
              obtain ⟨s'', hs'', es''⟩ := b i st1 (by simp [List.getElem?_set_self hlt])
              rw [hs'] at hs''
              cases hs''
              exact es''.assigned_mono (m1 r hr)
    | copy i =>
      simp only [runOps] at h
      cases hi : pool[i]? with
      | none => simp [hi, throw, throwThe, MonadExceptOf.throw] at h
      | some st =>
        simp only [hi, bind, Except.bind] at h
        cases h2 : runOps S (pool ++ [st.copy]) rest with
        | error err => simp [h2] at h
        | ok w =>
          obtain ⟨o2, p2⟩ := w
          simp only [h2, pure, Except.pure, Except.ok.injEq, Prod.mk.injEq] at h
          obtain ⟨rfl, rfl⟩ := h
          have hst : RefInv st := hp st (List.mem_of_getElem? hi)
          have hp1 : ∀ s ∈ pool ++ [st.copy], RefInv s := by
            intro s hs
            simp only [List.mem_append, List.mem_singleton] at hs
            rcases hs with hs | rfl
            · exact hp s hs
            · exact refInv_copy st hst
          obtain ⟨a, b, c⟩ := ih _ o2 p2 hp1 h2
          refine ⟨a, ?_, trivial, c⟩
          intro j s hj
          have hlt : j < pool.length := by
            rcases Nat.lt_or_ge j pool.length with hh | hh
            · exact hh
            · rw [List.getElem?_eq_none hh] at hj; cases hj
          exact b j s (by rw [List.getElem?_append_left hlt]; exact hj)
    | copyMapped i pairs =>
      simp only [runOps] at h
      cases hi : pool[i]? with
      | none => simp [hi, throw, throwThe, MonadExceptOf.throw] at h
      | some st =>
        simp only [hi, bind, Except.bind] at h
        cases h2 : runOps S (pool ++ [st.copyWithMappedCses pairs]) rest with
        | error err => simp [h2] at h
        | ok w =>
          obtain ⟨o2, p2⟩ := w
          simp only [h2, pure, Except.pure, Except.ok.injEq, Prod.mk.injEq] at h
          obtain ⟨rfl, rfl⟩ := h
          have hst : RefInv st := hp st (List.mem_of_getElem? hi)
          have hp1 : ∀ s ∈ pool ++ [st.copyWithMappedCses pairs], RefInv s := by
            intro s hs
            simp only [List.mem_append, List.mem_singleton] at hs
            rcases hs with hs | rfl
            · exact hp s hs
            · exact refInv_copyMapped st pairs hst
          obtain ⟨a, b, c⟩ := ih _ o2 p2 hp1 h2
          refine ⟨a, ?_, trivial, c⟩
          intro j s hj
          have hlt : j < pool.length := by
            rcases Nat.lt_or_ge j pool.length with hh | hh
            · exact hh
            · rw [List.getElem?_eq_none hh] at hj; cases hj
          exact b j s (by rw [List.getElem?_append_left hlt]; exact hj)


/-! ### pools whose copies are all made before anything is hoisted -/

def isPlainCopy : COpn → Bool
  | .copy _ => true
  | .copyMapped _ [] => true
  | _ => false

def isEmit : COpn → Bool
  | .emit _ _ => true
  | _ => false

/-- nothing hoisted yet -/
def Fresh (st : CSt) : Prop := st.nameList = [] ∧ st.toName = [] ∧ st.names = []

theorem Fresh.inv {st : CSt} (h : Fresh st) : Inv st := by
  obtain ⟨h1, h2, h3⟩ := h
  constructor <;> simp [CSt.assigned, h1, h2, h3]

theorem Fresh.copy {st : CSt} (h : Fresh st) : Fresh st.copy := by
  obtain ⟨h1, _, _⟩ := h
  simp [Fresh, CSt.copy, CSt.ofList, h1]

theorem Fresh.copyMapped {st : CSt} (h : Fresh st) : Fresh (st.copyWithMappedCses []) := by
  obtain ⟨h1, _, _⟩ := h
  simp [Fresh, CSt.copyWithMappedCses, CSt.ofList, h1]

theorem runOps_emits_inv (S : PrintPrec) : ∀ ops pool outs pool',
    (∀ op ∈ ops, isEmit op = true) → (∀ st ∈ pool, Inv st) →
    runOps S pool ops = .ok (outs, pool') → ∀ st ∈ pool', Inv st := by
  intro ops
  induction ops with
  | nil =>
    intro pool outs pool' _ hp h
    simp only [runOps, pure, Except.pure, Except.ok.injEq, Prod.mk.injEq] at h
    obtain ⟨_, rfl⟩ := h
    exact hp
  | cons op rest ih =>
    intro pool outs pool' hops hp h
    have hrest : ∀ op ∈ rest, isEmit op = true := fun o ho => hops o (by simp [ho])
    cases op with
    | emit i e =>
      simp only [runOps] at h
      cases hi : pool[i]? with
      | none => simp [hi, throw, throwThe, MonadExceptOf.throw] at h
      | some st =>
        simp only [hi, bind, Except.bind] at h
        cases h1 : ccode S st e with
        | error err => simp [h1] at h
        | ok v =>
          obtain ⟨d1, r1, st1⟩ := v
          simp only [h1] at h
          cases h2 : runOps S (pool.set i st1) rest with
          | error err => simp [h2] at h
          | ok w =>
            obtain ⟨o2, p2⟩ := w
            simp only [h2, pure, Except.pure, Except.ok.injEq, Prod.mk.injEq] at h
            obtain ⟨_, rfl⟩ := h
            have hst : Inv st := hp st (List.mem_of_getElem? hi)
            have i1 : Inv st1 := ccodeE_inv S _ st e _ d1 r1 st1 hst h1
            refine ih (pool.set i st1) o2 p2 hrest ?_ h2
            intro s hs
            rcases List.mem_or_eq_of_mem_set hs with hs | hs
            · exact hp s hs
            · subst hs; exact i1
    | copy i => have := hops (.copy i) (by simp); simp [isEmit] at this
    | copyMapped i pairs => have := hops (.copyMapped i pairs) (by simp); simp [isEmit] at this

theorem runOps_copies_first_inv (S : PrintPrec) (ems : List COpn)
    (hems : ∀ op ∈ ems, isEmit op = true) : ∀ cps pool outs pool',
    (∀ op ∈ cps, isPlainCopy op = true) → (∀ st ∈ pool, Fresh st) →
    runOps S pool (cps ++ ems) = .ok (outs, pool') → ∀ st ∈ pool', Inv st := by
  intro cps
  induction cps with
  | nil =>
    intro pool outs pool' _ hp h
    exact runOps_emits_inv S ems pool outs pool' hems (fun st hst => (hp st hst).inv) h
  | cons op rest ih =>
    intro pool outs pool' hops hp h
    have hrest : ∀ op ∈ rest, isPlainCopy op = true := fun o ho => hops o (by simp [ho])
    cases op with
    | emit i e => have := hops (.emit i e) (by simp); simp [isPlainCopy] at this
    | copy i =>
      simp only [List.cons_append, runOps] at h
      cases hi : pool[i]? with
      | none => simp [hi, throw, throwThe, MonadExceptOf.throw] at h
      | some st =>
        simp only [hi, bind, Except.bind] at h
        cases h2 : runOps S (pool ++ [st.copy]) (rest ++ ems) with
        | error err => simp [h2] at h
        | ok w =>
          obtain ⟨o2, p2⟩ := w
          simp only [h2, pure, Except.pure, Except.ok.injEq, Prod.mk.injEq] at h
          obtain ⟨_, rfl⟩ := h
          refine ih _ o2 p2 hrest ?_ h2
          intro s hs
          simp only [List.mem_append, List.mem_singleton] at hs
          rcases hs with hs | rfl
          · exact hp s hs
          · exact (hp st (List.mem_of_getElem? hi)).copy
    | copyMapped i pairs =>
      have hpl := hops (.copyMapped i pairs) (by simp)
      cases pairs with
      | cons x xs => simp [isPlainCopy] at hpl
      | nil =>
        simp only [List.cons_append, runOps] at h
        cases hi : pool[i]? with
        | none => simp [hi, throw, throwThe, MonadExceptOf.throw] at h
        | some st =>
          simp only [hi, bind, Except.bind] at h
          cases h2 : runOps S (pool ++ [st.copyWithMappedCses []]) (rest ++ ems) with
          | error err => simp [h2] at h
          | ok w =>
            obtain ⟨o2, p2⟩ := w
            simp only [h2, pure, Except.pure, Except.ok.injEq, Prod.mk.injEq] at h
            obtain ⟨_, rfl⟩ := h
            refine ih _ o2 p2 hrest ?_ h2
            intro s hs
            simp only [List.mem_append, List.mem_singleton] at hs
            rcases hs with hs | rfl
            · exact hp s hs
            · exact (hp st (List.mem_of_getElem? hi)).copyMapped

end PV.C14
