import PV.Model.CseTally
import PV.Proofs.CseErase
/-
  C12 helper: forgetting the arithmetic / handler events, the counting evaluator `evalCnt` with the
  symbolic function semantics IS the instrumented evaluator `evalTr` (same result, same `child` and
  `call` events), for every expression and every log.
-/
namespace PV

theorem c12CacheOf_erase : ∀ (t : C12Log), cacheOf (c12Erase t) = c12CacheOf t
  | [] => rfl
  | .child w v :: t => by simp [c12Erase, cacheOf, c12CacheOf, c12CacheOf_erase t]
  | .call .. :: t => by simp [c12Erase, cacheOf, c12CacheOf, c12CacheOf_erase t]
  | .arithN .. :: t => by simp [c12Erase, c12CacheOf, c12CacheOf_erase t]
  | .arithB .. :: t => by simp [c12Erase, c12CacheOf, c12CacheOf_erase t]
  | .node _ :: t => by simp [c12Erase, c12CacheOf, c12CacheOf_erase t]

/-- `m` (counting log) and `k` (log of `evalTr`) compute the same result and, after erasure, the
same log -/
def ErC {α : Type} (m : C12M α) (k : TrM α) : Prop :=
  ∀ (t : C12Log), (m t).1 = (k (c12Erase t)).1 ∧ c12Erase (m t).2 = (k (c12Erase t)).2

theorem ErC.pure {α} (a : α) : ErC (C12M.pure a) (TrM.pure a) := fun _ => ⟨rfl, rfl⟩
theorem ErC.throw {α} (e : Err) : ErC (C12M.throw e : C12M α) (TrM.throw e) := fun _ => ⟨rfl, rfl⟩
theorem ErC.lift {α} (x : Except Err α) : ErC (C12M.lift x) (TrM.lift x) := fun _ => ⟨rfl, rfl⟩

theorem ErC.bind {α β} {m : C12M α} {k : TrM α} {f : α → C12M β} {g : α → TrM β}
    (h : ErC m k) (hf : ∀ a, ErC (f a) (g a)) : ErC (m >>= f) (k >>= g) := by
  intro t
  obtain ⟨h1, h2⟩ := h t
  show (C12M.bind m f t).1 = (TrM.bind k g (c12Erase t)).1 ∧
    c12Erase (C12M.bind m f t).2 = (TrM.bind k g (c12Erase t)).2
  cases hm : m t with
  | mk r t1 =>
    cases hk : k (c12Erase t) with
    | mk r' s1 =>
      rw [hm, hk] at h1 h2
      simp only at h1 h2
      subst h1; subst h2
      cases r with
      | error e => simp only [C12M.bind, TrM.bind, hm, hk]; exact ⟨trivial, trivial⟩
      | ok a =>
        simp only [C12M.bind, TrM.bind, hm, hk]
        exact hf a t1

theorem ErC.ite {α} {c : Bool} {m1 m2 : C12M α} {k1 k2 : TrM α} (h1 : ErC m1 k1) (h2 : ErC m2 k2) :
    ErC (if c then m1 else m2) (if c then k1 else k2) := by
  cases c <;> simpa

/-- an event that `evalTr` does not record, followed by `m` -/
theorem ErC.silent {α} {u : C12M Unit} {m : C12M α} {k : TrM α}
    (hu : ∀ t, (u t).1 = .ok () ∧ c12Erase (u t).2 = c12Erase t) (h : ErC m k) :
    ErC (u >>= fun _ => m) k := by
  intro t
  obtain ⟨u1, u2⟩ := hu t
  show (C12M.bind u (fun _ => m) t).1 = _ ∧ c12Erase (C12M.bind u (fun _ => m) t).2 = _
  cases hx : u t with
  | mk r t1 =>
    rw [hx] at u1 u2
    simp only at u1 u2
    subst u1
    simp only [C12M.bind, hx]
    rw [← u2]
    exact h t1

theorem c12Done_silent (e : Expr) (t : C12Log) :
    (c12Done e t).1 = .ok () ∧ c12Erase (c12Done e t).2 = c12Erase t := by
  unfold c12Done
  by_cases h : e.isCseOp = true <;> simp [h, c12Erase]

theorem emitN_silent (o : NaryOp) (a b : Value) (t : C12Log) :
    (C12M.emit (.arithN o a b) t).1 = .ok () ∧
      c12Erase (C12M.emit (.arithN o a b) t).2 = c12Erase t := by
  simp [C12M.emit, c12Erase]

theorem emitB_silent (o : BinOp) (a b : Value) (t : C12Log) :
    (C12M.emit (.arithB o a b) t).1 = .ok () ∧
      c12Erase (C12M.emit (.arithB o a b) t).2 = c12Erase t := by
  simp [C12M.emit, c12Erase]

theorem ErC.call (fv : Value) (args : List Value) (ns : List String) (kvs : List Value) :
    ErC (c12Call c12SemApp fv args ns kvs) (callTr fv args ns kvs) := by
  intro t
  unfold c12Call callTr
  cases fv <;> exact ⟨rfl, rfl⟩

theorem ErC.cse {env : Env} {c : Expr} {p : Option String} {sc : String}
    (hc : ErC (evalCnt c12SemApp env c) (evalTr env c)) :
    ErC (evalCnt c12SemApp env (.cse c p sc)) (evalTr env (.cse c p sc)) := by
  intro t
  simp only [evalCnt, evalTr, c12CacheOf_erase]
  by_cases hl : c.hasList = true
  · simp only [hl, if_true]; exact ⟨trivial, trivial⟩
  · simp only [hl, Bool.false_eq_true, if_false]
    cases hf : findBy Expr.pyEq (.cse c p sc) (c12CacheOf t) with
    | some v => exact ⟨rfl, rfl⟩
    | none =>
      obtain ⟨h1, h2⟩ := hc t
      cases hm : evalCnt c12SemApp env c t with
      | mk r t1 =>
        cases hk : evalTr env c (c12Erase t) with
        | mk r' s1 =>
          rw [hm, hk] at h1 h2
          simp only at h1 h2
          subst h1; subst h2
          cases r with
          | error e => exact ⟨rfl, rfl⟩
          | ok v => exact ⟨rfl, rfl⟩

/-- the result of a handler followed by the silent "handler returned" event -/
theorem ErC.thenDone {m : C12M Value} {k : TrM Value} (e : Expr) (h : ErC m k) :
    ErC (m >>= fun r => c12Done e >>= fun _ => C12M.pure r) k := by
  have : k = (k >>= fun r => TrM.pure r) := by
    funext t
    show k t = TrM.bind k (fun r => TrM.pure r) t
    simp only [TrM.bind]
    cases hk : k t with
    | mk r t1 => cases r <;> rfl
  rw [this]
  exact ErC.bind h fun r => ErC.silent (c12Done_silent e) (ErC.pure r)

mutual
theorem cnt_er (env : Env) : ∀ e, ErC (evalCnt c12SemApp env e) (evalTr env e)
  | .const c => by simp only [evalCnt, evalTr]; exact ErC.lift _
  | .var x => by
      simp only [evalCnt, evalTr]
      cases env.get x with
      | none => exact ErC.throw _
      | some v => exact ErC.pure _
  | .nary .sum cs => by
      simp only [evalCnt, evalTr]
      exact ErC.thenDone _ (cntFold_er env .sum (.int 0) cs)
  | .nary .prod cs => by
      simp only [evalCnt, evalTr]
      exact ErC.thenDone _ (cntFold_er env .prod (.int 1) cs)
  | .nary .bor cs => by simp only [evalCnt, evalTr]; exact cntReduce_er env .bor cs
  | .nary .bxor cs => by simp only [evalCnt, evalTr]; exact cntReduce_er env .bxor cs
  | .nary .band cs => by simp only [evalCnt, evalTr]; exact cntReduce_er env .band cs
  | .nary .lor cs => by simp only [evalCnt, evalTr]; exact cntAny_er env cs
  | .nary .land cs => by simp only [evalCnt, evalTr]; exact cntAll_er env cs
  | .nary .min cs => by simp only [evalCnt, evalTr]; exact cntMinMax_er env true none cs
  | .nary .max cs => by simp only [evalCnt, evalTr]; exact cntMinMax_er env false none cs
  | .bin o a b => by
      simp only [evalCnt, evalTr]
      exact ErC.bind (cnt_er env a) fun x => ErC.bind (cnt_er env b) fun y =>
        ErC.silent (emitB_silent o x y) (ErC.thenDone _ (ErC.lift _))
  | .un .bnot a => by
      simp only [evalCnt, evalTr]
      exact ErC.bind (cnt_er env a) fun x => ErC.lift _
  | .un .lnot a => by
      simp only [evalCnt, evalTr]
      exact ErC.bind (cnt_er env a) fun x => ErC.bind (ErC.lift _) fun t => ErC.pure _
  | .cmp o a b => by
      simp only [evalCnt, evalTr]
      exact ErC.bind (cnt_er env a) fun x => ErC.bind (cnt_er env b) fun y => ErC.lift _
  | .ite c t e => by
      simp only [evalCnt, evalTr]
      exact ErC.bind (cnt_er env c) fun cv => ErC.bind (ErC.lift _) fun tv =>
        ErC.ite (cnt_er env t) (cnt_er env e)
  | .call f as => by
      simp only [evalCnt, evalTr]
      exact ErC.bind (cnt_er env f) fun fv => ErC.bind (cntList_er env as) fun avs =>
        ErC.thenDone _ (ErC.call _ _ _ _)
  | .callKw f as ns vs => by
      simp only [evalCnt, evalTr]
      exact ErC.bind (cntList_er env as) fun avs => ErC.bind (cntList_er env vs) fun kvs =>
        ErC.bind (cnt_er env f) fun fv => ErC.call _ _ _ _
  | .subscript a i => by
      simp only [evalCnt, evalTr]
      exact ErC.bind (cnt_er env a) fun x => ErC.bind (cnt_er env i) fun y => ErC.lift _
  | .lookup a n => by
      simp only [evalCnt, evalTr]
      exact ErC.bind (cnt_er env a) fun x => ErC.lift _
  | .cse c p sc => ErC.cse (cnt_er env c)
  | .subst .. => by simp only [evalCnt, evalTr]; exact ErC.throw _
  | .deriv .. => by simp only [evalCnt, evalTr]; exact ErC.throw _
  | .slice _ => by simp only [evalCnt, evalTr]; exact ErC.throw _
  | .nan => by simp only [evalCnt, evalTr]; exact ErC.pure _
  | .wildcard => by simp only [evalCnt, evalTr]; exact ErC.throw _
  | .dotWild _ => by simp only [evalCnt, evalTr]; exact ErC.throw _
  | .starWild _ => by simp only [evalCnt, evalTr]; exact ErC.throw _
  | .funcSym => by simp only [evalCnt, evalTr]; exact ErC.throw _
  | .tuple cs => by
      simp only [evalCnt, evalTr]
      exact ErC.bind (cntList_er env cs) fun vs => ErC.pure _
  | .list cs => by
      simp only [evalCnt, evalTr]
      exact ErC.bind (cntList_er env cs) fun vs => ErC.pure _
theorem cntFold_er (env : Env) (o : NaryOp) :
    ∀ (acc : Value) (cs : List Expr),
      ErC (evalCntFold c12SemApp env o acc cs) (evalTrFold env o acc cs)
  | acc, [] => by simp only [evalCntFold, evalTrFold]; exact ErC.pure _
  | acc, c :: cs => by
      simp only [evalCntFold, evalTrFold]
      exact ErC.bind (cnt_er env c) fun v => ErC.silent (emitN_silent o acc v)
        (ErC.bind (ErC.lift _) fun acc' => cntFold_er env o acc' cs)
theorem cntReduce_er (env : Env) (o : NaryOp) :
    ∀ (cs : List Expr), ErC (evalCntReduce c12SemApp env o cs) (evalTrReduce env o cs)
  | [] => by simp only [evalCntReduce, evalTrReduce]; exact ErC.throw _
  | c :: cs => by
      simp only [evalCntReduce, evalTrReduce]
      exact ErC.bind (cnt_er env c) fun v => cntFold_er env o v cs
theorem cntAny_er (env : Env) :
    ∀ (cs : List Expr), ErC (evalCntAny c12SemApp env cs) (evalTrAny env cs)
  | [] => by simp only [evalCntAny, evalTrAny]; exact ErC.pure _
  | c :: cs => by
      simp only [evalCntAny, evalTrAny]
      exact ErC.bind (cnt_er env c) fun v => ErC.bind (ErC.lift _) fun t =>
        ErC.ite (ErC.pure _) (cntAny_er env cs)
theorem cntAll_er (env : Env) :
    ∀ (cs : List Expr), ErC (evalCntAll c12SemApp env cs) (evalTrAll env cs)
  | [] => by simp only [evalCntAll, evalTrAll]; exact ErC.pure _
  | c :: cs => by
      simp only [evalCntAll, evalTrAll]
      exact ErC.bind (cnt_er env c) fun v => ErC.bind (ErC.lift _) fun t =>
        ErC.ite (cntAll_er env cs) (ErC.pure _)
theorem cntMinMax_er (env : Env) (isMin : Bool) :
    ∀ (cur : Option Value) (cs : List Expr),
      ErC (evalCntMinMax c12SemApp env isMin cur cs) (evalTrMinMax env isMin cur cs)
  | cur, [] => by
      simp only [evalCntMinMax, evalTrMinMax]
      cases cur with
      | none => exact ErC.throw _
      | some m => exact ErC.pure _
  | cur, c :: cs => by
      simp only [evalCntMinMax, evalTrMinMax]
      refine ErC.bind (cnt_er env c) fun v => ?_
      cases cur with
      | none => exact cntMinMax_er env isMin (some v) cs
      | some m => exact ErC.bind (ErC.lift _) fun better => cntMinMax_er env isMin _ cs
theorem cntList_er (env : Env) :
    ∀ (cs : List Expr), ErC (evalCntList c12SemApp env cs) (evalTrList env cs)
  | [] => by simp only [evalCntList, evalTrList]; exact ErC.pure _
  | c :: cs => by
      simp only [evalCntList, evalTrList]
      exact ErC.bind (cnt_er env c) fun v => ErC.bind (cntList_er env cs) fun vs => ErC.pure _
end

end PV
