import PV.Model.CseTally
import PV.Proofs.CseShare
/-
  C12 helper: what `UseCountMapper` counts.  The walk of `useCount` and the memoising reference walk
  `c12Plan` skip at exactly the same places, and every place where they skip (an operation whose
  key has been seen before) ends up with a count of at least two, i.e. in `to_eliminate`.
-/
set_option linter.unusedSimpArgs false
namespace PV

/-! ### the count table -/

/-- counts only grow -/
def Counts.le (c c' : Counts) : Prop :=
  ∀ k n, c.find k = some n → ∃ m, n ≤ m ∧ c'.find k = some m

theorem Counts.le_refl (c : Counts) : c.le c := fun _ n h => ⟨n, Nat.le_refl n, h⟩
theorem Counts.le_trans {a b c : Counts} (h1 : a.le b) (h2 : b.le c) : a.le c := by
  intro k n h
  obtain ⟨m, hm, h'⟩ := h1 k n h
  obtain ⟨m', hm', h''⟩ := h2 k m h'
  exact ⟨m', Nat.le_trans hm hm', h''⟩

theorem Counts.le_incr (k0 : CKey) : ∀ (c : Counts), c.le (c.incr k0)
  | [] => fun _ _ h => by simp [Counts.find] at h
  | (k', n') :: rest => by
    intro k n h
    simp only [Counts.incr]
    by_cases h0 : k'.eq k0 = true
    · simp only [h0, if_true, Counts.find] at h ⊢
      by_cases hk : k'.eq k = true
      · simp only [hk, if_true] at h ⊢
        injection h with h; subst h
        exact ⟨n' + 1, Nat.le_succ _, rfl⟩
      · simp only [hk, Bool.false_eq_true, if_false] at h ⊢
        exact ⟨n, Nat.le_refl n, h⟩
    · simp only [h0, Bool.false_eq_true, if_false, Counts.find] at h ⊢
      by_cases hk : k'.eq k = true
      · simp only [hk, if_true] at h ⊢
        exact ⟨n, Nat.le_refl n, h⟩
      · simp only [hk, Bool.false_eq_true, if_false] at h ⊢
        exact Counts.le_incr k0 rest k n h

theorem Counts.find_incr_self (k0 : CKey) : ∀ (c : Counts) (n : Nat), c.find k0 = some n →
    (c.incr k0).find k0 = some (n + 1)
  | [], _, h => by simp [Counts.find] at h
  | (k', n') :: rest, n, h => by
    simp only [Counts.find, Counts.incr] at h ⊢
    by_cases h0 : k'.eq k0 = true
    · simp only [h0, if_true] at h ⊢
      injection h with h; subst h
      simp [Counts.find, h0]
    · simp only [h0, Bool.false_eq_true, if_false] at h ⊢
      simp only [Counts.find, h0, Bool.false_eq_true, if_false]
      exact Counts.find_incr_self k0 rest n h

theorem Counts.find_incr_isSome (k0 k : CKey) : ∀ (c : Counts),
    ((c.incr k0).find k).isSome = (c.find k).isSome
  | [] => rfl
  | (k', n') :: rest => by
    simp only [Counts.incr]
    by_cases h0 : k'.eq k0 = true
    · simp only [h0, if_true, Counts.find]
      by_cases hk : k'.eq k = true <;> simp [hk]
    · simp only [h0, Bool.false_eq_true, if_false, Counts.find]
      by_cases hk : k'.eq k = true
      · simp [hk]
      · simp only [hk, Bool.false_eq_true, if_false]
        exact Counts.find_incr_isSome k0 k rest

theorem Counts.find_append (k0 : CKey) (n0 : Nat) (k : CKey) : ∀ (c : Counts),
    (c ++ [(k0, n0)]).find k =
      match c.find k with
      | some n => some n
      | none => if k0.eq k then some n0 else none
  | [] => by simp [Counts.find]
  | (k', n') :: rest => by
    simp only [List.cons_append, Counts.find]
    by_cases hk : k'.eq k = true
    · simp [hk]
    · simp only [hk, Bool.false_eq_true, if_false]
      exact Counts.find_append k0 n0 k rest

theorem Counts.le_append (k0 : CKey) (n0 : Nat) (c : Counts) : c.le (c ++ [(k0, n0)]) := by
  intro k n h
  refine ⟨n, Nat.le_refl n, ?_⟩
  rw [Counts.find_append, h]

theorem Counts.find_some_mem {k : CKey} {n : Nat} : ∀ {c : Counts}, c.find k = some n →
    ∃ k', (k', n) ∈ c ∧ k'.eq k = true
  | [], h => by simp [Counts.find] at h
  | (k0, n0) :: rest, h => by
    simp only [Counts.find] at h
    by_cases hk : k0.eq k = true
    · simp only [hk, if_true] at h
      injection h with h; subst h
      exact ⟨k0, by simp, hk⟩
    · simp only [hk, Bool.false_eq_true, if_false] at h
      obtain ⟨k', hm, he⟩ := Counts.find_some_mem h
      exact ⟨k', by simp [hm], he⟩

/-- a key counted at least twice is in `to_eliminate` -/
theorem inElim_of_find {cf : Counts} {k : CKey} {m : Nat} (h : cf.find k = some m) (hm : 2 ≤ m) :
    inElim (elimKeys cf) k = true := by
  obtain ⟨k', hmem, hk⟩ := Counts.find_some_mem h
  simp only [inElim, elimKeys, List.any_eq_true, List.mem_map, List.mem_filter, decide_eq_true_eq]
  exact ⟨k', ⟨(k', m), ⟨hmem, by show 1 < m; omega⟩, rfl⟩, hk⟩

/-- what every entry of a count table satisfies: counted at least once, under the key of a
simple expression -/
def CntOk (p : CKey × Nat) : Prop := 1 ≤ p.2 ∧ ∃ e0 : Expr, e0.simple = true ∧ p.1 = normalizedKey e0

theorem Counts.pos_incr (k0 : CKey) : ∀ (c : Counts), (∀ p ∈ c, CntOk p) →
    ∀ p ∈ c.incr k0, CntOk p
  | [], _ => fun _ hp => by simp [Counts.incr] at hp
  | (k', n') :: rest, h => by
    intro p hp
    simp only [Counts.incr] at hp
    have hr : ∀ p ∈ rest, CntOk p := fun p hp => h p (by simp [hp])
    by_cases h0 : k'.eq k0 = true
    · simp only [h0, if_true, List.mem_cons] at hp
      rcases hp with rfl | hp
      · have := h (k', n') (by simp)
        exact ⟨by simp, this.2⟩
      · exact hr p hp
    · simp only [h0, Bool.false_eq_true, if_false, List.mem_cons] at hp
      rcases hp with rfl | hp
      · exact h _ (by simp)
      · exact Counts.pos_incr k0 rest hr p hp

/-- the keys to eliminate are keys of simple expressions -/
def ElimKeys (elim : List CKey) : Prop :=
  ∀ k ∈ elim, ∃ e0 : Expr, e0.simple = true ∧ k = normalizedKey e0

theorem elimKeys_ok {cnt : Counts} (h : ∀ p ∈ cnt, CntOk p) : ElimKeys (elimKeys cnt) := by
  intro k hk
  simp only [elimKeys, List.mem_map, List.mem_filter] at hk
  obtain ⟨p, ⟨hp, _⟩, rfl⟩ := hk
  exact (h p hp).2

/-! ### memo membership -/

theorem c12Has_append (d : List Expr) (e x : Expr) :
    c12Has (d ++ [e]) x = (c12Has d x || c12SameKey e x) := by
  simp [c12Has, List.any_append]

theorem c12Has_cons (e : Expr) (P : List Expr) (x : Expr) :
    c12Has (e :: P) x = (c12SameKey e x || c12Has P x) := by
  simp [c12Has]

theorem c12Has_append_list (d d' : List Expr) (x : Expr) :
    c12Has (d ++ d') x = (c12Has d x || c12Has d' x) := by
  simp [c12Has, List.any_append]

theorem c12Has_mem {d : List Expr} {x : Expr} (h : c12Has d x = true) :
    ∃ s ∈ d, c12SameKey s x = true := by
  simpa [c12Has, List.any_eq_true] using h

theorem c12Has_of_mem {d : List Expr} {x s : Expr} (hs : s ∈ d) (h : c12SameKey s x = true) :
    c12Has d x = true := by
  simp only [c12Has, List.any_eq_true]; exact ⟨s, hs, h⟩

/-- an operation that is strictly smaller than every member of `P` has no key in `P` -/
theorem c12Has_false_of_size {P : List Expr} {e : Expr} (he : e.simple = true)
    (hP : ∀ p ∈ P, p.simple = true) (hs : ∀ p ∈ P, e.size < p.size) : c12Has P e = false := by
  cases h : c12Has P e with
  | false => rfl
  | true =>
    obtain ⟨s, hm, hk⟩ := c12Has_mem h
    have := keyEq_size (hP s hm) he hk
    have := hs s hm
    omega

/-- the key of a variable or constant is never the key of an operation -/
theorem leafKey_ne_op {l x : Expr} (hl : (∃ n, l = .var n) ∨ (∃ c, l = .const c))
    (hx : x.isCseOp = true) : (normalizedKey l).eq (normalizedKey x) = false := by
  rcases hl with ⟨n, rfl⟩ | ⟨c, rfl⟩ <;> cases x <;> simp only [Expr.isCseOp, Bool.false_eq_true] at hx
  all_goals (rename_i o cs; cases o <;> simp_all [normalizedKey, CKey.eq, Expr.pyEq, Expr.isCseOp])

/-! ### the places where the reference walk skips -/

/-- the tagged operands of an operation node (the node rebuilt by `IdentityMapper`) -/
def c12Rebuild (elim : List CKey) (T : Tbl) : Expr → Expr
  | .nary o cs => .nary o (applyTblL elim T cs)
  | .bin o a b => .bin o (applyTbl elim T a) (applyTbl elim T b)
  | .call f as => .call (applyTbl elim T f) (applyTblL elim T as)
  | e => e

mutual
/-- every memo hit of the reference walk is on a key of `elim` -/
def c12HitsElim (elim : List CKey) : Expr → List Expr → Bool
  | .nary o cs, d =>
      if c12Has d (.nary o cs) then inElim elim (normalizedKey (.nary o cs))
      else c12HitsElimL elim cs d
  | .bin o a b, d =>
      if c12Has d (.bin o a b) then inElim elim (normalizedKey (.bin o a b))
      else c12HitsElim elim a d && c12HitsElim elim b (c12Plan a d)
  | .call f as, d =>
      if c12Has d (.call f as) then inElim elim (normalizedKey (.call f as))
      else c12HitsElim elim f d && c12HitsElimL elim as (c12Plan f d)
  | _, _ => true
def c12HitsElimL (elim : List CKey) : List Expr → List Expr → Bool
  | [], _ => true
  | c :: cs, d => c12HitsElim elim c d && c12HitsElimL elim cs (c12Plan c d)
end

/-- invariant tying the count table to the memo `d` of the reference walk; `P` are the operations
in progress (counted already, not yet in the memo) -/
def UInv (cnt : Counts) (d P : List Expr) : Prop :=
  (∀ p ∈ cnt, CntOk p) ∧
  ∀ x, x.frag = true → x.isCseOp = true →
    (cnt.find (normalizedKey x)).isSome = (c12Has d x || c12Has P x)

theorem ucLeaf_plan {l : Expr} (hl : (∃ n, l = .var n) ∨ (∃ n, l = .const (.int n)))
    (cnt : Counts) (d P : List Expr) (hI : UInv cnt d P) :
    ∃ cnt', ucLeaf l cnt = .ok cnt' ∧ UInv cnt' d P ∧ cnt.le cnt' := by
  have hnl : l.hasList = false := by
    rcases hl with ⟨n, rfl⟩ | ⟨n, rfl⟩ <;> simp [Expr.hasList]
  have hl' : (∃ n, l = .var n) ∨ (∃ c, l = .const c) := by
    rcases hl with h | ⟨n, rfl⟩
    · exact Or.inl h
    · exact Or.inr ⟨_, rfl⟩
  simp only [ucLeaf, ucVisit, hnl, Bool.false_eq_true, if_false]
  cases hf : cnt.find (normalizedKey l) with
  | some n =>
    refine ⟨cnt.incr (normalizedKey l), rfl, ⟨Counts.pos_incr _ _ hI.1, ?_⟩, Counts.le_incr _ _⟩
    intro x hx ho
    rw [Counts.find_incr_isSome]
    exact hI.2 x hx ho
  | none =>
    refine ⟨cnt ++ [(normalizedKey l, 1)], rfl, ⟨?_, ?_⟩, Counts.le_append _ _ _⟩
    · intro p hp
      rcases List.mem_append.mp hp with hp | hp
      · exact hI.1 p hp
      · simp only [List.mem_singleton] at hp; subst hp
        refine ⟨by simp, l, ?_, rfl⟩
        rcases hl with ⟨n, rfl⟩ | ⟨n, rfl⟩ <;> simp [Expr.simple, Const.simple]
    · intro x hx ho
      rw [Counts.find_append, leafKey_ne_op hl' ho]
      have := hI.2 x hx ho
      cases hfx : cnt.find (normalizedKey x) with
      | some m => rw [hfx] at this; simpa using this
      | none => rw [hfx] at this; simpa using this

/-- the step shared by the three operation classes: what `visit` does at `e` -/
theorem ucVisit_op {e : Expr} (he : e.frag = true) (ho : e.isCseOp = true)
    (cnt : Counts) (d P : List Expr) (hI : UInv cnt d P)
    (hP : ∀ p ∈ P, p.simple = true) (hs : ∀ p ∈ P, e.size < p.size) :
    (c12Has d e = true ∧ ∃ n, 1 ≤ n ∧ cnt.find (normalizedKey e) = some n ∧
        ucVisit e cnt = .ok (false, cnt.incr (normalizedKey e)) ∧
        UInv (cnt.incr (normalizedKey e)) d P) ∨
    (c12Has d e = false ∧ ucVisit e cnt = .ok (true, cnt ++ [(normalizedKey e, 1)]) ∧
        UInv (cnt ++ [(normalizedKey e, 1)]) d (e :: P)) := by
  have hsimp := frag_simple e he
  have hnl := simple_nolist e hsimp
  have hPe := c12Has_false_of_size hsimp hP hs
  have hk := hI.2 e he ho
  rw [hPe, Bool.or_false] at hk
  simp only [ucVisit, hnl, Bool.false_eq_true, if_false]
  cases hf : cnt.find (normalizedKey e) with
  | some n =>
    rw [hf] at hk
    refine Or.inl ⟨by simpa using hk.symm, n, ?_, rfl, rfl, Counts.pos_incr _ _ hI.1, ?_⟩
    · obtain ⟨k', hm, _⟩ := Counts.find_some_mem hf
      exact (hI.1 _ hm).1
    · intro x hx hox
      rw [Counts.find_incr_isSome]
      exact hI.2 x hx hox
  | none =>
    rw [hf] at hk
    refine Or.inr ⟨by simpa using hk.symm, rfl, ?_, ?_⟩
    · intro p hp
      rcases List.mem_append.mp hp with hp | hp
      · exact hI.1 p hp
      · simp only [List.mem_singleton] at hp; subst hp
        exact ⟨by simp, e, hsimp, rfl⟩
    · intro x hx hox
      rw [Counts.find_append, c12Has_cons]
      have := hI.2 x hx hox
      simp only [c12SameKey]
      cases hfx : cnt.find (normalizedKey x) with
      | some m =>
        rw [hfx] at this
        revert this
        cases c12Has d x <;> cases c12Has P x <;>
          cases (normalizedKey e).eq (normalizedKey x) <;> simp
      | none =>
        rw [hfx] at this
        revert this
        cases c12Has d x <;> cases c12Has P x <;>
          cases (normalizedKey e).eq (normalizedKey x) <;> simp

/-- after the operands: the operation leaves the in-progress list and enters the memo -/
theorem UInv.finish {cnt : Counts} {d P : List Expr} {e : Expr} (h : UInv cnt d (e :: P)) :
    UInv cnt (d ++ [e]) P := by
  refine ⟨h.1, ?_⟩
  intro x hx ho
  rw [h.2 x hx ho, c12Has_append, c12Has_cons]
  cases c12Has d x <;> cases c12SameKey e x <;> cases c12Has P x <;> rfl

theorem hitsElim_of_repeat {e : Expr} {cnt : Counts} {n : Nat} (hn : 1 ≤ n)
    (hf : cnt.find (normalizedKey e) = some n) (cf : Counts)
    (hle : (cnt.incr (normalizedKey e)).le cf) : inElim (elimKeys cf) (normalizedKey e) = true := by
  obtain ⟨m, hm, hfm⟩ := hle _ _ (Counts.find_incr_self _ _ _ hf)
  exact inElim_of_find hfm (by omega)

mutual
theorem useCount_plan : ∀ (e : Expr) (cnt : Counts) (d P : List Expr), e.frag = true →
    UInv cnt d P → (∀ p ∈ P, p.simple = true) → (∀ p ∈ P, e.size < p.size) →
    ∃ cnt', useCount e cnt = .ok cnt' ∧ UInv cnt' (c12Plan e d) P ∧ cnt.le cnt' ∧
      ∀ cf, cnt'.le cf → c12HitsElim (elimKeys cf) e d = true
  | .const (.int n), cnt, d, P, _, hI, _, _ => by
      obtain ⟨cnt', h1, h2, h3⟩ := ucLeaf_plan (l := .const (.int n)) (Or.inr ⟨n, rfl⟩) cnt d P hI
      refine ⟨cnt', ?_, ?_, h3, fun _ _ => by simp only [c12HitsElim]⟩
      · simp only [useCount]; exact h1
      · simp only [c12Plan]; exact h2
  | .var x, cnt, d, P, _, hI, _, _ => by
      obtain ⟨cnt', h1, h2, h3⟩ := ucLeaf_plan (l := .var x) (Or.inl ⟨x, rfl⟩) cnt d P hI
      refine ⟨cnt', ?_, ?_, h3, fun _ _ => by simp only [c12HitsElim]⟩
      · simp only [useCount]; exact h1
      · simp only [c12Plan]; exact h2
  | .nary o cs, cnt, d, P, he, hI, hP, hs => by
      have hfr := he
      simp only [Expr.frag, Bool.and_eq_true] at he
      have hop : (Expr.nary o cs).isCseOp = true := by
        cases o <;> simp_all [NaryOp.isComm, Expr.isCseOp]
      rcases ucVisit_op hfr hop cnt d P hI hP hs with ⟨hh, n, hn, hf, hv, hI'⟩ | ⟨hh, hv, hI'⟩
      · refine ⟨cnt.incr (normalizedKey (.nary o cs)), by simp [useCount, hv, bind, Except.bind, pure, Except.pure], ?_,
          Counts.le_incr _ _, ?_⟩
        · simpa [c12Plan, hh] using hI'
        · intro cf hle
          simp only [c12HitsElim, hh, if_true]
          exact hitsElim_of_repeat hn hf cf hle
      · obtain ⟨cnt2, h1, h2, h3, h4⟩ := useCountL_plan cs _ d (.nary o cs :: P) he.2 hI'
          (by intro p hp; rcases List.mem_cons.mp hp with rfl | hp
              · exact frag_simple _ hfr
              · exact hP p hp)
          (by intro p hp; rcases List.mem_cons.mp hp with rfl | hp
              · simp only [Expr.size]; omega
              · have := hs p hp; simp only [Expr.size] at this; omega)
        refine ⟨cnt2, by simp [useCount, hv, bind, Except.bind, h1], ?_,
          Counts.le_trans (Counts.le_append _ _ _) h3, ?_⟩
        · simp only [c12Plan, hh, Bool.false_eq_true, if_false]
          exact h2.finish
        · intro cf hle
          simp only [c12HitsElim, hh, Bool.false_eq_true, if_false]
          exact h4 cf hle
  | .bin o a b, cnt, d, P, he, hI, hP, hs => by
      have hfr := he
      simp only [Expr.frag, Bool.and_eq_true] at he
      have hop : (Expr.bin o a b).isCseOp = true := by
        cases o <;> simp_all [BinOp.isDivPow, Expr.isCseOp]
      have hshift : o ≠ .lshift ∧ o ≠ .rshift := by
        cases o <;> simp_all [BinOp.isDivPow]
      rcases ucVisit_op hfr hop cnt d P hI hP hs with ⟨hh, n, hn, hf, hv, hI'⟩ | ⟨hh, hv, hI'⟩
      · refine ⟨cnt.incr (normalizedKey (.bin o a b)), ?_, ?_, Counts.le_incr _ _, ?_⟩
        · cases o <;> simp_all [useCount, bind, Except.bind, pure, Except.pure]
        · simpa [c12Plan, hh] using hI'
        · intro cf hle
          simp only [c12HitsElim, hh, if_true]
          exact hitsElim_of_repeat hn hf cf hle
      · have hP' : ∀ p ∈ Expr.bin o a b :: P, p.simple = true := by
          intro p hp; rcases List.mem_cons.mp hp with rfl | hp
          · exact frag_simple _ hfr
          · exact hP p hp
        obtain ⟨cnt2, h1, h2, h3, h4⟩ := useCount_plan a _ d (.bin o a b :: P) he.1.2 hI' hP'
          (by intro p hp; rcases List.mem_cons.mp hp with rfl | hp
              · simp only [Expr.size]; omega
              · have := hs p hp; simp only [Expr.size] at this; omega)
        obtain ⟨cnt3, g1, g2, g3, g4⟩ := useCount_plan b cnt2 (c12Plan a d) (.bin o a b :: P) he.2
          h2 hP'
          (by intro p hp; rcases List.mem_cons.mp hp with rfl | hp
              · simp only [Expr.size]; omega
              · have := hs p hp; simp only [Expr.size] at this; omega)
        refine ⟨cnt3, ?_, ?_, Counts.le_trans (Counts.le_append _ _ _) (Counts.le_trans h3 g3), ?_⟩
        · cases o <;> simp_all [useCount, bind, Except.bind, pure, Except.pure]
        · simp only [c12Plan, hh, Bool.false_eq_true, if_false]
          exact g2.finish
        · intro cf hle
          simp only [c12HitsElim, hh, Bool.false_eq_true, if_false, Bool.and_eq_true]
          exact ⟨h4 cf (Counts.le_trans g3 hle), g4 cf hle⟩
  | .call f as, cnt, d, P, he, hI, hP, hs => by
      have hfr := he
      simp only [Expr.frag, Bool.and_eq_true] at he
      have hop : (Expr.call f as).isCseOp = true := rfl
      rcases ucVisit_op hfr hop cnt d P hI hP hs with ⟨hh, n, hn, hf, hv, hI'⟩ | ⟨hh, hv, hI'⟩
      · refine ⟨cnt.incr (normalizedKey (.call f as)), by simp [useCount, hv, bind, Except.bind, pure, Except.pure], ?_,
          Counts.le_incr _ _, ?_⟩
        · simpa [c12Plan, hh] using hI'
        · intro cf hle
          simp only [c12HitsElim, hh, if_true]
          exact hitsElim_of_repeat hn hf cf hle
      · have hP' : ∀ p ∈ Expr.call f as :: P, p.simple = true := by
          intro p hp; rcases List.mem_cons.mp hp with rfl | hp
          · exact frag_simple _ hfr
          · exact hP p hp
        obtain ⟨cnt2, h1, h2, h3, h4⟩ := useCount_plan f _ d (.call f as :: P) he.1 hI' hP'
          (by intro p hp; rcases List.mem_cons.mp hp with rfl | hp
              · simp only [Expr.size]; omega
              · have := hs p hp; simp only [Expr.size] at this; omega)
        obtain ⟨cnt3, g1, g2, g3, g4⟩ := useCountL_plan as cnt2 (c12Plan f d) (.call f as :: P) he.2
          h2 hP'
          (by intro p hp; rcases List.mem_cons.mp hp with rfl | hp
              · simp only [Expr.size]; omega
              · have := hs p hp; simp only [Expr.size] at this; omega)
        refine ⟨cnt3, by simp [useCount, hv, bind, Except.bind, h1, g1], ?_,
          Counts.le_trans (Counts.le_append _ _ _) (Counts.le_trans h3 g3), ?_⟩
        · simp only [c12Plan, hh, Bool.false_eq_true, if_false]
          exact g2.finish
        · intro cf hle
          simp only [c12HitsElim, hh, Bool.false_eq_true, if_false, Bool.and_eq_true]
          exact ⟨h4 cf (Counts.le_trans g3 hle), g4 cf hle⟩
  | .const (.bool _), _, _, _, h, _, _, _ | .const (.flt ..), _, _, _, h, _, _, _
  | .const (.str _), _, _, _, h, _, _, _ | .const .none, _, _, _, h, _, _, _
  | .un .., _, _, _, h, _, _, _ | .cmp .., _, _, _, h, _, _, _ | .ite .., _, _, _, h, _, _, _
  | .callKw .., _, _, _, h, _, _, _ | .subscript .., _, _, _, h, _, _, _
  | .lookup .., _, _, _, h, _, _, _ | .cse .., _, _, _, h, _, _, _ | .subst .., _, _, _, h, _, _, _
  | .deriv .., _, _, _, h, _, _, _ | .slice _, _, _, _, h, _, _, _ | .nan, _, _, _, h, _, _, _
  | .wildcard, _, _, _, h, _, _, _ | .dotWild _, _, _, _, h, _, _, _
  | .starWild _, _, _, _, h, _, _, _ | .funcSym, _, _, _, h, _, _, _
  | .tuple _, _, _, _, h, _, _, _ | .list _, _, _, _, h, _, _, _ => by simp [Expr.frag] at h
theorem useCountL_plan : ∀ (cs : List Expr) (cnt : Counts) (d P : List Expr),
    Expr.fragL cs = true → UInv cnt d P → (∀ p ∈ P, p.simple = true) →
    (∀ p ∈ P, Expr.sizeL cs < p.size) →
    ∃ cnt', useCountL cs cnt = .ok cnt' ∧ UInv cnt' (c12PlanL cs d) P ∧ cnt.le cnt' ∧
      ∀ cf, cnt'.le cf → c12HitsElimL (elimKeys cf) cs d = true
  | [], cnt, d, P, _, hI, _, _ =>
      ⟨cnt, rfl, by simpa [c12PlanL] using hI, Counts.le_refl _, fun _ _ => by simp [c12HitsElimL]⟩
  | c :: cs, cnt, d, P, he, hI, hP, hs => by
      simp only [Expr.fragL, Bool.and_eq_true] at he
      obtain ⟨cnt1, h1, h2, h3, h4⟩ := useCount_plan c cnt d P he.1 hI hP
        (by intro p hp; have := hs p hp; simp only [Expr.sizeL] at this; omega)
      obtain ⟨cnt2, g1, g2, g3, g4⟩ := useCountL_plan cs cnt1 (c12Plan c d) P he.2 h2 hP
        (by intro p hp; have := hs p hp; simp only [Expr.sizeL] at this; omega)
      refine ⟨cnt2, by simp [useCountL, bind, Except.bind, h1, g1], by simpa [c12PlanL] using g2,
        Counts.le_trans h3 g3, ?_⟩
      intro cf hle
      simp only [c12HitsElimL, Bool.and_eq_true]
      exact ⟨h4 cf (Counts.le_trans g3 hle), g4 cf hle⟩
end

/-- **what the use counts mean**: counting a fragment list never fails, and with the final table
every memo hit of the reference walk is on a key counted more than once -/
theorem useCountL_hitsElim (es : List Expr) (hf : Expr.fragL es = true) :
    ∃ cnt, useCountL es [] = .ok cnt ∧ c12HitsElimL (elimKeys cnt) es [] = true ∧
      ElimKeys (elimKeys cnt) := by
  obtain ⟨cnt, h1, h2, _, h4⟩ := useCountL_plan es [] [] [] hf
    ⟨by intro p hp; simp at hp, by intro x _ _; simp [Counts.find, c12Has]⟩
    (by intro p hp; simp at hp) (by intro p hp; simp at hp)
  exact ⟨cnt, h1, h4 cnt (Counts.le_refl _), elimKeys_ok h2.1⟩

end PV
