import PV.Model.Callback
import PV.Proofs.WalkTable
import PV.Proofs.WalkIdentity
/-
  C04 — `CallbackMapper`: which node kinds reach `function`, and the calls a delegating
  `function` sees with an `IdentityMapper` fallback (`callbackTrace`).
-/
set_option linter.unusedSimpArgs false
namespace PV

/-- the node kinds `CallbackMapper` lists (its `map_*` attributes) -/
def Expr.c04CallbackListed : Expr → Bool
  | .const (.str _) | .const .none => false
  | .wildcard | .dotWild _ | .starWild _ | .nan => false
  | .nary .min _ | .nary .max _ => false
  | .callKw _ _ _ _ | .subst _ _ _ | .deriv _ _ | .slice _ => false
  | _ => true

/-- listed kinds: `function` is called, with the extra arguments -/
theorem c04CallbackBody_listed {e : Expr} (h : e.c04CallbackListed = true) :
    c04CallbackBody e = .ok (.callback true) := by
  cases e with
  | const k => cases k <;> simp_all [Expr.c04CallbackListed, c04CallbackBody]
  | nary o cs => cases o <;> simp_all [Expr.c04CallbackListed, c04CallbackBody]
  | _ => simp_all [Expr.c04CallbackListed, c04CallbackBody]

/-- unlisted kinds: dispatch fails (foreign object / no handler) or ends at a raising stub -/
theorem c04CallbackBody_unlisted {e : Expr} (h : e.c04CallbackListed = false) :
    c04CallbackBody e = .ok .raises ∨ ∃ err, c04CallbackBody e = .error err := by
  cases e with
  | const k => cases k <;> simp_all [Expr.c04CallbackListed, c04CallbackBody]
  | nary o cs => cases o <;> simp_all [Expr.c04CallbackListed, c04CallbackBody]
  | _ => simp_all [Expr.c04CallbackListed, c04CallbackBody]

/-- the node occurrences in pre-order through ALL direct children in field order -/
def c04Pre (e : Expr) : List Expr :=
  e :: e.children.attach.flatMap (fun ⟨c, _⟩ => c04Pre c)
termination_by e.size
decreasing_by exact Expr.size_lt_of_mem_children ‹_›

theorem c04Pre_eq (e : Expr) : c04Pre e = e :: e.children.flatMap c04Pre := by
  rw [c04Pre]; simp [List.flatMap_subtype, List.unattach_attach]

/-- outcome of a traversal that either succeeds with `l` or raises -/
def C04Outcome {β : Type} (ok : Bool) (l : List β) (r : Except DepErr (List β)) : Prop :=
  if ok then r = .ok l else ∃ err, r = .error err

theorem c04SeqL_outcome {β : Type} {f : Expr → Except DepErr (List β)} {p : Expr → Bool}
    {l : Expr → List β} : ∀ {cs : List Expr}, (∀ c ∈ cs, C04Outcome (p c) (l c) (f c)) →
      C04Outcome (cs.all p) (cs.flatMap l) (c04SeqL f cs)
  | [], _ => by simp [C04Outcome, c04SeqL]; rfl
  | c :: cs, h => by
    have hc := h c (by simp)
    have ih := c04SeqL_outcome (f := f) (p := p) (l := l)
      (fun d hd => h d (List.mem_cons_of_mem _ hd))
    simp only [c04SeqL, List.all_cons, List.flatMap_cons]
    cases hp : p c <;> cases hps : cs.all p <;>
      simp only [C04Outcome, hp, hps, if_true, Bool.false_eq_true, if_false, Bool.and_self,
        Bool.and_true, Bool.and_false] at hc ih ⊢
    · obtain ⟨err, he⟩ := hc; exact ⟨err, by rw [he]; rfl⟩
    · obtain ⟨err, he⟩ := hc; exact ⟨err, by rw [he]; rfl⟩
    · obtain ⟨err, he⟩ := ih; exact ⟨err, by rw [hc, he]; rfl⟩
    · rw [hc, ih]; rfl

/-- **The callback trace.**  With enough fuel: if every node of the tree is of a kind the callback
mapper lists, `function` is called on every node occurrence exactly once, in pre-order through all
children in field order, each time with the extra arguments; otherwise the traversal raises. -/
theorem callbackTraceF_total (a : Bool) : ∀ (fuel : Nat) (e : Expr), e.size ≤ fuel →
    C04Outcome (allSub Expr.c04CallbackListed e) ((c04Pre e).map (fun n => (n, a)))
      (callbackTraceF fuel a e)
  | 0, e, h => by have := Expr.size_pos e; omega
  | fuel + 1, e, h => by
    have ih : ∀ c ∈ e.children, C04Outcome (allSub Expr.c04CallbackListed c)
        ((c04Pre c).map (fun n => (n, a))) (callbackTraceF fuel a c) := fun c hc =>
      callbackTraceF_total a fuel c (by have := Expr.size_lt_of_mem_children hc; omega)
    have hs := c04SeqL_outcome ih
    rw [allSub_eq, c04Pre_eq, callbackTraceF]
    cases hl : e.c04CallbackListed with
    | true =>
      rw [c04CallbackBody_listed hl]
      simp only [c04CallbackStepB, Bool.and_true, Bool.true_and]
      cases hall : e.children.all (allSub Expr.c04CallbackListed) <;>
        simp only [C04Outcome, hall, if_true, Bool.false_eq_true, if_false] at hs ⊢
      · obtain ⟨err, he⟩ := hs; exact ⟨err, by rw [he]; rfl⟩
      · rw [hs]; simp [List.map_flatMap, bind, Except.bind, pure, Except.pure, List.flatMap_def]; rfl
    | false =>
      simp only [Bool.false_and, C04Outcome, Bool.false_eq_true, if_false]
      rcases c04CallbackBody_unlisted hl with hb | ⟨err, hb⟩ <;> rw [hb]
      · exact ⟨_, rfl⟩
      · exact ⟨_, rfl⟩

theorem callbackTrace_total (a : Bool) (e : Expr) :
    C04Outcome (allSub Expr.c04CallbackListed e) ((c04Pre e).map (fun n => (n, a)))
      (callbackTrace a e) :=
  callbackTraceF_total a e.size e (Nat.le_refl _)

end PV
