import PV.Proofs.UnifyAC
import Mathlib.Algebra.Field.Basic
import Mathlib.Algebra.CharZero.Defs
import Mathlib.Algebra.GroupWithZero.Units.Basic
import Mathlib.Data.Int.Cast.Lemmas
import Mathlib.Algebra.BigOperators.Group.List.Basic
/-
  AC-equivalence is sound for VALUES: AC-equal trees have the same value in every field of
  characteristic 0 under every assignment of the variables (sums, products, quotients, negation-free
  rational expressions; every other node is uninterpreted and makes the value undefined on both
  sides).  Exact commutative arithmetic is what `Sum` / `Product` mean for Python ints, bools and
  Fractions (C02 / C03); floats enter only as the exact rationals they are.
-/
namespace PV.Unify
open PV

set_option linter.unusedSectionVars false

universe u
variable {K : Type u} [Field K] [CharZero K]

/-- value of a constant: ints, bools (0 / 1) and finite floats as exact rationals -/
def evalConst : Const → Option K
  | .int n => some (n : K)
  | .bool b => some (if b then 1 else 0)
  | .flt _ n d => if d = 0 then none else some ((n : K) / (d : K))
  | _ => none

theorem evalConst_of_numVal {c : Const} {n : Int} {d : Nat} (h : c.numVal? = some (n, d)) :
    evalConst (K := K) c = some ((n : K) / (d : K)) := by
  cases c with
  | int m => simp [Const.numVal?] at h; obtain ⟨rfl, rfl⟩ := h; simp [evalConst]
  | bool b =>
    simp [Const.numVal?] at h; obtain ⟨rfl, rfl⟩ := h
    cases b <;> simp [evalConst]
  | flt r m e =>
    simp only [Const.numVal?] at h
    split at h
    · simp at h
    · rename_i he
      simp only [Option.some.injEq, Prod.mk.injEq] at h
      obtain ⟨rfl, rfl⟩ := h
      simp [evalConst, he]
  | str _ => simp [Const.numVal?] at h
  | none => simp [Const.numVal?] at h

theorem evalConst_of_not_numVal {c : Const} (h : c.numVal? = none) :
    evalConst (K := K) c = none := by
  cases c with
  | int m => simp [Const.numVal?] at h
  | bool b => simp [Const.numVal?] at h
  | flt r m e =>
    simp only [Const.numVal?] at h
    split at h
    · rename_i he; simp [evalConst, he]
    · simp at h
  | str _ => rfl
  | none => rfl

/-- Python equality of constants is equality of values -/
theorem evalConst_pyEq {a b : Const} (h : a.pyEq b = true) :
    evalConst (K := K) a = evalConst b := by
  unfold Const.pyEq at h
  split at h
  · rename_i n d n' d' ha hb
    have hd := Const.numVal?_den ha
    have hd' := Const.numVal?_den hb
    rw [evalConst_of_numVal ha, evalConst_of_numVal hb]
    have hdK : (d : K) ≠ 0 := Nat.cast_ne_zero.2 hd
    have hdK' : (d' : K) ≠ 0 := Nat.cast_ne_zero.2 hd'
    have hz : n * (d' : Int) = n' * (d : Int) := by simpa using h
    have hK : (n : K) * (d' : K) = (n' : K) * (d : K) := by exact_mod_cast congrArg (Int.cast (R := K)) hz
    rw [Option.some.injEq, div_eq_div_iff hdK hdK']
    exact hK
  · rename_i ha hb
    rw [evalConst_of_not_numVal ha, evalConst_of_not_numVal hb]
  · simp at h

mutual
/-- value of a tree in a field of characteristic 0 (`none`: not a rational expression) -/
def evalC (ρ : String → K) : Expr → Option K
  | .const c => evalConst c
  | .var x => some (ρ x)
  | .nary .sum cs => (evalCL ρ cs).map List.sum
  | .nary .prod cs => (evalCL ρ cs).map List.prod
  | .bin .quot a b =>
    match evalC ρ a, evalC ρ b with
    | some x, some y => some (x / y)
    | _, _ => none
  | _ => none
def evalCL (ρ : String → K) : List Expr → Option (List K)
  | [] => some []
  | c :: cs =>
    match evalC ρ c, evalCL ρ cs with
    | some k, some ks => some (k :: ks)
    | _, _ => none
end

variable (ρ : String → K)

theorem evalCL_append : ∀ (as bs : List Expr),
    evalCL ρ (as ++ bs) =
      match evalCL ρ as, evalCL ρ bs with
      | some x, some y => some (x ++ y)
      | _, _ => none
  | [], bs => by cases h : evalCL ρ bs <;> simp [evalCL, h]
  | a :: as, bs => by
    simp only [List.cons_append, evalCL, evalCL_append as bs]
    cases evalC ρ a <;> cases evalCL ρ as <;> cases evalCL ρ bs <;> simp

/-- permuting the operands permutes the values (or leaves the list undefined) -/
theorem evalCL_perm {as bs : List Expr} (h : as.Perm bs) :
    (evalCL ρ as = none ∧ evalCL ρ bs = none) ∨
    ∃ ks ls, evalCL ρ as = some ks ∧ evalCL ρ bs = some ls ∧ ks.Perm ls := by
  induction h with
  | nil => exact Or.inr ⟨[], [], rfl, rfl, .refl _⟩
  | cons x _ ih =>
    simp only [evalCL]
    cases hx : evalC ρ x with
    | none => exact Or.inl ⟨by simp, by simp⟩
    | some k =>
      rcases ih with ⟨h1, h2⟩ | ⟨ks, ls, h1, h2, hp⟩
      · exact Or.inl ⟨by simp [h1], by simp [h2]⟩
      · exact Or.inr ⟨k :: ks, k :: ls, by simp [h1], by simp [h2], hp.cons k⟩
  | swap x y l =>
    simp only [evalCL]
    cases evalC ρ x <;> cases evalC ρ y <;> cases evalCL ρ l <;> simp
    exact List.Perm.swap _ _ _
  | trans _ _ ih1 ih2 =>
    rcases ih1 with ⟨h1, h2⟩ | ⟨ks, ls, h1, h2, hp⟩
    · rcases ih2 with ⟨h3, h4⟩ | ⟨ks', ls', h3, _, _⟩
      · exact Or.inl ⟨h1, h4⟩
      · rw [h2] at h3; simp at h3
    · rcases ih2 with ⟨h3, _⟩ | ⟨ks', ls', h3, h4, hp'⟩
      · rw [h2] at h3; simp at h3
      · rw [h2] at h3; simp only [Option.some.injEq] at h3; subst h3
        exact Or.inr ⟨ks, ls', h1, h4, hp.trans hp'⟩

theorem evalCL_pyEqL : ∀ (cs ds : List Expr),
    (∀ c ∈ cs, ∀ b, c.pyEq b = true → evalC ρ c = evalC ρ b) →
    Expr.pyEqL cs ds = true → evalCL ρ cs = evalCL ρ ds
  | [], [], _, _ => rfl
  | c :: cs, d :: ds, ih, h => by
    simp only [Expr.pyEqL, Bool.and_eq_true] at h
    simp only [evalCL, ih c (by simp) d h.1,
      evalCL_pyEqL cs ds (fun c' hc' => ih c' (by simp [hc'])) h.2]
  | [], _ :: _, _, h => by simp [Expr.pyEqL] at h
  | _ :: _, [], _, h => by simp [Expr.pyEqL] at h

/-- Python equality preserves the value -/
theorem evalC_pyEq (a : Expr) : ∀ b, a.pyEq b = true → evalC ρ a = evalC ρ b := by
  induction a using Expr.induct with
  | h e ih =>
    intro b hb
    cases e <;> cases b <;> simp only [Expr.pyEq, Bool.and_eq_true, Bool.false_eq_true] at hb <;>
      try (simp only [evalC]; done)
    case const.const => simp only [evalC]; exact evalConst_pyEq hb
    case var.var => simp_all
    case nary.nary o cs o' ds =>
      obtain ⟨ho, hl⟩ := hb
      have ho' : o = o' := by simpa using ho
      subst ho'
      have := evalCL_pyEqL ρ cs ds (fun c hc => ih c (by simpa [Expr.children] using hc)) hl
      cases o <;> simp only [evalC, this]
    case bin.bin o a b o' a' b' =>
      obtain ⟨⟨ho, ha⟩, hb'⟩ := hb
      have ho' : o = o' := by simpa using ho
      subst ho'
      have h1 := ih a (by simp [Expr.children]) a' ha
      have h2 := ih b (by simp [Expr.children]) b' hb'
      cases o <;> simp only [evalC, h1, h2]

theorem evalC_perm {o : NaryOp} (hac : isAC o) {cs ds : List Expr} (h : cs.Perm ds) :
    evalC ρ (.nary o cs) = evalC ρ (.nary o ds) := by
  rcases evalCL_perm ρ h with ⟨h1, h2⟩ | ⟨ks, ls, h1, h2, hp⟩
  · rcases hac with rfl | rfl <;> simp only [evalC, h1, h2]
  · rcases hac with rfl | rfl <;> simp only [evalC, h1, h2, Option.map_some]
    · rw [hp.sum_eq]
    · rw [hp.prod_eq]

theorem evalC_flat {o : NaryOp} (hac : isAC o) (xs ys zs : List Expr) :
    evalC ρ (.nary o (xs ++ .nary o ys :: zs)) = evalC ρ (.nary o (xs ++ ys ++ zs)) := by
  rcases hac with rfl | rfl
  · simp only [evalC, evalCL_append, evalCL]
    cases evalCL ρ xs <;> cases evalCL ρ ys <;> cases evalCL ρ zs <;>
      simp [List.sum_append]
  · simp only [evalC, evalCL_append, evalCL]
    cases evalCL ρ xs <;> cases evalCL ρ ys <;> cases evalCL ρ zs <;>
      simp [List.prod_append]

theorem evalC_single {o : NaryOp} (hac : isAC o) (a : Expr) :
    evalC ρ (.nary o [a]) = evalC ρ a := by
  rcases hac with rfl | rfl <;> simp only [evalC, evalCL] <;> cases evalC ρ a <;> simp

mutual
/-- **AC-equal trees have equal values** in every field of characteristic 0, under every
assignment (both undefined, or both defined and equal) -/
theorem ACEq.evalC_eq : ∀ {a b : Expr}, ACEq a b → evalC ρ a = evalC ρ b
  | _, _, .refl _ => rfl
  | _, _, .py h => evalC_pyEq ρ _ _ h
  | _, _, .symm h => (ACEq.evalC_eq h).symm
  | _, _, .trans h1 h2 => (ACEq.evalC_eq h1).trans (ACEq.evalC_eq h2)
  | _, _, .nary o h => by
      have := ACEqL.evalCL_eq h
      cases o <;> simp only [evalC, this]
  | _, _, .bin o h1 h2 => by
      have e1 := ACEq.evalC_eq h1
      have e2 := ACEq.evalC_eq h2
      cases o <;> simp only [evalC, e1, e2]
  | _, _, .un _ _ => by simp only [evalC]
  | _, _, .cmp _ _ _ => by simp only [evalC]
  | _, _, .ite _ _ _ => by simp only [evalC]
  | _, _, .call _ _ => by simp only [evalC]
  | _, _, .subscript _ _ => by simp only [evalC]
  | _, _, .lookup _ _ => by simp only [evalC]
  | _, _, .tuple _ => by simp only [evalC]
  | _, _, .callKw _ _ _ _ => by simp only [evalC]
  | _, _, .cse _ _ _ => by simp only [evalC]
  | _, _, .subst _ _ _ => by simp only [evalC]
  | _, _, .deriv _ _ => by simp only [evalC]
  | _, _, .slice _ => by simp only [evalC]
  | _, _, .list _ => by simp only [evalC]
  | _, _, .perm hac h => evalC_perm ρ hac h
  | _, _, .flat xs ys zs hac => evalC_flat ρ hac xs ys zs
  | _, _, .single a hac => evalC_single ρ hac a
theorem ACEqL.evalCL_eq : ∀ {as bs : List Expr}, ACEqL as bs → evalCL ρ as = evalCL ρ bs
  | _, _, .nil => rfl
  | _, _, .cons h t => by simp only [evalCL, ACEq.evalC_eq h, ACEqL.evalCL_eq t]
end

end PV.Unify
