import PV.Proofs.AlgoTableMap
import PV.Model.RationalOps
/-
  C19 (T-gen): `Rational` arithmetic and `primitives.quotient` under the Python-2 reading of `/`
  — the table regenerated from the current source with every `/` read as `//`
  (`c19TablePy2 = c19Table.py2`) — symbolic execution of the table interpreter.

  The callees that contain no `/` (`traits`, `IntegerTraits.norm / get_unit`,
  `extended_euclidean`) are unchanged by the reading; their run lemmas are re-established here for
  the table `c19TablePy2` (the statements of PV/Proofs/AlgoTableArith.lean speak about `c19Table`).
-/
namespace PV.Algo
open PV.Generated
variable {α : Type}

/-- the regenerated table under the Python-2 reading of `/` -/
abbrev c19TablePy2 : C19Table := c19Table.py2

section
variable (ops : C19Ops α) (ext : String → List (C19V α) → C19R (C19V α))

/-! ## callees without `/` -/

theorem c19p2_find_traits : c19FindFn c19TablePy2 "traits.traits" = some c19Fn_traits_traits := rfl

theorem c19p2_traits_int_run (i : Int) (n : Nat) :
    c19RunFn ops c19TablePy2 ext (n + 1) "traits.traits" [.int i]
      = .ok (.obj "IntegerTraits" [] []) := by
  rw [c19RunFn_succ ops c19TablePy2 ext _ _ _ _ _ c19p2_find_traits rfl]
  simp only [c19Fn_traits_traits]
  have h1 : c19IsInst (c19CxAt ops c19TablePy2 ext n (n + 1)) (.int i) ["complex", "float"] = false := rfl
  have h2 : c19New (c19CxAt ops c19TablePy2 ext n (n + 1)) "IntegerTraits" []
      = .ok (.obj "IntegerTraits" [] []) := rfl
  c19_run [c19Method, h1, c19IsInst_int, h2]
  rfl

theorem c19p2_traitsTwo (n k : Nat) :
    c19TraitsTwo (c19CxAt ops c19TablePy2 ext n k)
      ["ySubX", "xSubY", "raiseNoCommonTraits"] (.obj "IntegerTraits" [] [])
      (.obj "IntegerTraits" [] []) = .ok (.obj "IntegerTraits" [] []) := by
  have hinst : c19IsInst (c19CxAt ops c19TablePy2 ext n k) (.obj "IntegerTraits" [] [])
      ((c19ClassesOf (c19CxAt ops c19TablePy2 ext n k).tbl
        (.obj "IntegerTraits" [] [] : C19V α)).take 1) = true := rfl
  rw [c19TraitsTwo]
  simp only [String.reduceEq, if_true, hinst]

theorem c19p2_traitsFold (n k : Nat) (l : List Int) :
    c19TraitsFold (c19CxAt ops c19TablePy2 ext n k) (.obj "IntegerTraits" [] [])
      (l.map fun _ => (.obj "IntegerTraits" [] [] : C19V α)) = .ok (.obj "IntegerTraits" [] []) := by
  have hrules : (c19CxAt ops c19TablePy2 ext n k).tbl.commonTraits
      = ["ySubX", "xSubY", "raiseNoCommonTraits"] := rfl
  induction l with
  | nil => rfl
  | cons a l ih =>
    simp only [List.map_cons, c19TraitsFold, hrules, c19p2_traitsTwo, C19R.bind_ok]
    exact ih

theorem c19p2_mapM_traits (n k : Nat) (l : List Int) :
    c19MapM (fun v => (c19CxAt ops c19TablePy2 ext (n + 1) k).calls "traits.traits" [v])
      (l.map fun i => (.int i : C19V α))
      = .ok (l.map fun _ => (.obj "IntegerTraits" [] [] : C19V α)) := by
  induction l with
  | nil => rfl
  | cons a l ih =>
    simp only [List.map_cons, c19MapM, c19CxAt_calls, c19p2_traits_int_run, C19R.bind_ok]
    simp only [c19CxAt_calls] at ih
    rw [ih]
    rfl

/-- `common_traits` of one or more Python ints is `IntegerTraits()` -/
theorem c19p2_commonTraits_ints (n k : Nat) (a : Int) (l : List Int) :
    c19CommonTraits (c19CxAt ops c19TablePy2 ext (n + 1) k) ((a :: l).map fun i => (.int i : C19V α))
      = .ok (.obj "IntegerTraits" [] []) := by
  unfold c19CommonTraits
  rw [c19p2_mapM_traits]
  simp only [List.map_cons, C19R.bind_ok]
  exact c19p2_traitsFold ops ext (n + 1) k l

theorem c19p2_commonTraits_two (n k : Nat) (a b : Int) :
    c19CommonTraits (c19CxAt ops c19TablePy2 ext (n + 1) k) [.int a, .int b]
      = .ok (.obj "IntegerTraits" [] []) :=
  c19p2_commonTraits_ints ops ext n k a [b]

theorem c19p2_commonTraits_four (n k : Nat) (a b c d : Int) :
    c19CommonTraits (c19CxAt ops c19TablePy2 ext (n + 1) k) [.int a, .int b, .int c, .int d]
      = .ok (.obj "IntegerTraits" [] []) :=
  c19p2_commonTraits_ints ops ext n k a [b, c, d]

theorem c19p2_Method_integer_norm (n k : Nat) (v : C19V α) :
    c19Method (c19CxAt ops c19TablePy2 ext n k) (.obj "IntegerTraits" [] []) "norm" [v]
      = c19RunFn ops c19TablePy2 ext n "IntegerTraits.norm" [v] := rfl

theorem c19p2_integer_norm_run (n : Nat) (i : Int) :
    c19RunFn ops c19TablePy2 ext (n + 1) "IntegerTraits.norm" [.int i]
      = .ok (.int (i.natAbs : Int)) := by
  have hf : c19FindFn c19TablePy2 "IntegerTraits.norm" = some c19Fn_IntegerTraits_norm := rfl
  rw [c19RunFn_succ ops c19TablePy2 ext n _ _ _ _ hf rfl]
  simp only [c19Fn_IntegerTraits_norm]
  c19_run []
  rfl

theorem c19p2_find_extended_euclidean : c19FindFn c19TablePy2 "algorithm.extended_euclidean"
    = some c19Fn_algorithm_extended_euclidean := rfl

theorem c19p2_extended_euclidean_noswap (q r : Int) (h : ¬ q.natAbs < r.natAbs) (n : Nat)
    (hn : r.natAbs + 2 ≤ n) :
    c19RunFn ops c19TablePy2 ext (n + 1) "algorithm.extended_euclidean" [.int q, .int r]
      = .ok (c19Enc3 (extEuclidLoop q r 1 0 0 1)) := by
  obtain ⟨n, rfl⟩ : ∃ n', n = n' + 1 := ⟨n - 1, by omega⟩
  obtain ⟨n, rfl⟩ : ∃ n', n = n' + 1 := ⟨n - 1, by omega⟩
  have hlt : decide ((q.natAbs : Int) < (r.natAbs : Int)) = false := by simp; omega
  have hpre : c19ExecL (c19CxAt ops c19TablePy2 ext (n + 1 + 1) (n + 1 + 1 + 1)) c19EuPre
      [("q", .int q), ("r", .int r)]
      = .next (c19EuStore q r (.obj "IntegerTraits" [] []) 1 0 0 1 []) := by
    unfold c19EuPre c19EuStore
    c19_run [c19p2_commonTraits_two, c19p2_Method_integer_norm,
      c19p2_integer_norm_run, hlt]
  have hloop := c19_eu_loop (c19CxAt ops c19TablePy2 ext (n + 1 + 1) (n + 1 + 1 + 1))
    r.natAbs q r (.obj "IntegerTraits" [] []) 1 0 0 1 [] (n + 1 + 1 + 1) (Nat.le_refl _) (by omega)
    (Or.inl rfl)
  rw [c19RunFn_succ ops c19TablePy2 ext _ _ _ _ _ c19p2_find_extended_euclidean
    (by rw [c19_extended_euclidean_body_current]; rfl)]
  simp only [c19_extended_euclidean_body_current]
  rw [c19ExecL_append, hpre, C19O.andThen_next, c19ExecL_while, c19CxAt_fuel, hloop]
  rfl

/-- `extended_euclidean` under the Python-2 reading (it contains no `/`) IS `extEuclid` -/
theorem c19p2_extended_euclidean_run (q r : Int) (n : Nat) (hn : q.natAbs + r.natAbs + 3 ≤ n) :
    c19RunFn ops c19TablePy2 ext (n + 1) "algorithm.extended_euclidean" [.int q, .int r]
      = .ok (c19Enc3 (extEuclid q r)) := by
  by_cases h : q.natAbs < r.natAbs
  · obtain ⟨n, rfl⟩ : ∃ n', n = n' + 1 := ⟨n - 1, by omega⟩
    have hrec := c19p2_extended_euclidean_noswap ops ext r q (by omega) n (by omega)
    have hlt : decide ((q.natAbs : Int) < (r.natAbs : Int)) = true := by simp; omega
    have h2 : ¬ r.natAbs < q.natAbs := by omega
    rw [extEuclid, dif_pos h, extEuclid, dif_neg h2]
    rw [c19RunFn_succ ops c19TablePy2 ext _ _ _ _ _ c19p2_find_extended_euclidean
      (by rw [c19_extended_euclidean_body_current]; rfl)]
    simp only [c19_extended_euclidean_body_current]
    rw [c19ExecL_append]
    unfold c19EuPre
    obtain ⟨n, rfl⟩ : ∃ n', n = n' + 1 := ⟨n - 1, by omega⟩
    c19_run [c19p2_commonTraits_two, c19p2_Method_integer_norm,
      c19p2_integer_norm_run, hlt, c19Call_extended_euclidean, hrec, c19Enc3]
    rfl
  · rw [extEuclid, dif_neg h]
    exact c19p2_extended_euclidean_noswap ops ext q r h n (by omega)

/-! ## `EuclideanRingTraits.gcd`, `lcm`, `IntegerTraits.get_unit` -/

theorem c19p2_Method_gcd (n k : Nat) (a b : C19V α) :
    c19Method (c19CxAt ops c19TablePy2 ext n k) (.obj "IntegerTraits" [] []) "gcd" [a, b]
      = c19RunFn ops c19TablePy2 ext n "EuclideanRingTraits.gcd" [a, b] := rfl

/-- `t.gcd(q, r)` is `extended_euclidean(q, r)[0]` -/
theorem c19p2_traits_gcd_run (q r : Int) (n : Nat) (hn : q.natAbs + r.natAbs + 4 ≤ n) :
    c19RunFn ops c19TablePy2 ext (n + 1) "EuclideanRingTraits.gcd" [.int q, .int r]
      = .ok (.int (gcd q r)) := by
  have hf : c19FindFn c19TablePy2 "EuclideanRingTraits.gcd"
      = some c19Fn_EuclideanRingTraits_gcd := rfl
  obtain ⟨n, rfl⟩ : ∃ n', n = n' + 1 := ⟨n - 1, by omega⟩
  have he := c19p2_extended_euclidean_run ops ext q r n (by omega)
  rw [c19RunFn_succ ops c19TablePy2 ext _ _ _ _ _ hf rfl]
  simp only [c19Fn_EuclideanRingTraits_gcd]
  c19_run [c19Call_extended_euclidean, he, c19Enc3]
  rfl

theorem c19p2_Method_lcm (n k : Nat) (a b : C19V α) :
    c19Method (c19CxAt ops c19TablePy2 ext n k) (.obj "IntegerTraits" [] []) "lcm" [a, b]
      = c19RunFn ops c19TablePy2 ext n "EuclideanRingTraits.lcm"
          [.obj "IntegerTraits" [] [], a, b] := rfl

/-- the body of `EuclideanRingTraits.lcm` in the current source, `/` read as `//` -/
theorem c19p2_lcm_body_current :
    c19FindFn c19TablePy2 "EuclideanRingTraits.lcm" = some ⟨"EuclideanRingTraits.lcm", .method,
      ["cls", "a", "b"], [],
      [.ret (.bin .floordiv (.bin .mul (.var "a") (.var "b"))
        (.method (.var "cls") "gcd" [(.var "a"), (.var "b")]))]⟩ := rfl

/-- what `t.lcm(a, b)` answers under the Python-2 reading -/
def c19EncTraitsLcm (a b : Int) : C19R (C19V α) :=
  if gcd a b = 0 then .raise "ZeroDivisionError" else .ok (.int (Int.fdiv (a * b) (gcd a b)))

theorem c19p2_traits_lcm_run (a b : Int) (n : Nat) (hn : a.natAbs + b.natAbs + 5 ≤ n) :
    c19RunFn ops c19TablePy2 ext (n + 1) "EuclideanRingTraits.lcm"
        [.obj "IntegerTraits" [] [], .int a, .int b] = c19EncTraitsLcm a b := by
  obtain ⟨n, rfl⟩ : ∃ n', n = n' + 1 := ⟨n - 1, by omega⟩
  have hg := c19p2_traits_gcd_run ops ext a b n (by omega)
  rw [c19RunFn_succ ops c19TablePy2 ext _ _ _ _ _ c19p2_lcm_body_current rfl]
  unfold c19EncTraitsLcm
  by_cases h0 : gcd a b = 0
  · c19_run [c19p2_Method_gcd, hg, h0]
    rfl
  · c19_run [c19p2_Method_gcd, hg, c19Scalar_floordiv_ne _ _ _ h0]
    simp [h0]

theorem c19p2_find_get_unit : c19FindFn c19TablePy2 "IntegerTraits.get_unit"
    = some c19Fn_IntegerTraits_get_unit := rfl

theorem c19p2_get_unit_run (i : Int) (n : Nat) :
    c19RunFn ops c19TablePy2 ext (n + 1) "IntegerTraits.get_unit" [.int i]
      = if i < 0 then .ok (.int (-1)) else if i > 0 then .ok (.int 1) else .raise "RuntimeError" := by
  rw [c19RunFn_succ ops c19TablePy2 ext _ _ _ _ _ c19p2_find_get_unit rfl]
  simp only [c19Fn_IntegerTraits_get_unit]
  by_cases h1 : i < 0
  · have : decide (i < 0) = true := by simp [h1]
    c19_run [this]
    simp [h1]
  · have h1' : decide (i < 0) = false := by simp [h1]
    by_cases h2 : i > 0
    · have : decide (i > 0) = true := by simp [h2]
      c19_run [h1', this]
      simp [h1, h2]
    · have : decide (i > 0) = false := by simp [h2]
      c19_run [h1', this]
      simp [h1, h2]

theorem c19p2_Method_get_unit (n k : Nat) (v : C19V α) :
    c19Method (c19CxAt ops c19TablePy2 ext n k) (.obj "IntegerTraits" [] []) "get_unit" [v]
      = c19RunFn ops c19TablePy2 ext n "IntegerTraits.get_unit" [v] := rfl

/-! ## `Rational.__init__` -/

/-- a `Rational` object with integer fields -/
def c19RatObj (n d : Int) : C19V α :=
  .obj "Rational" ["Numerator", "Denominator"] [.int n, .int d]

/-- results of the `Rational` methods on the wire of the interpreter -/
def c19EncRatRes : RatRes → C19R (C19V α)
  | .int i => .ok (.int i)
  | .rat n d => .ok (c19RatObj n d)
  | .raise k => .raise k

@[simp] theorem c19EncRatRes_int (i : Int) : (c19EncRatRes (.int i) : C19R (C19V α)) = .ok (.int i) := rfl
@[simp] theorem c19EncRatRes_rat (n d : Int) :
    (c19EncRatRes (.rat n d) : C19R (C19V α)) = .ok (c19RatObj n d) := rfl
@[simp] theorem c19EncRatRes_raise (k : String) : (c19EncRatRes (.raise k) : C19R (C19V α)) = .raise k := rfl

/-- the body of `Rational.__init__` in the current source, `/=` read as `//=` -/
theorem c19p2_rational_init_body_current :
    c19FindFn c19TablePy2 "Rational.__init__" = some ⟨"Rational.__init__", .init,
      ["self", "numerator", "denominator"], [(.int 1)], [
      .assign (.pat (.name "d_unit")) (.method (.call "traits.traits" [(.var "denominator")]) "get_unit" [(.var "denominator")]),
      .aug "numerator" .floordiv (.var "d_unit"),
      .aug "denominator" .floordiv (.var "d_unit"),
      .assign (.attr "self" "Numerator") (.var "numerator"),
      .assign (.attr "self" "Denominator") (.var "denominator")]⟩ := rfl

theorem c19_fdiv_neg_one (a : Int) : Int.fdiv a (-1) = -a := by
  rw [Int.fdiv_eq_ediv_of_dvd ⟨-a, by omega⟩]
  simp

theorem c19_fdiv_one (a : Int) : Int.fdiv a 1 = a := by
  rw [Int.fdiv_eq_ediv_of_dvd ⟨a, by omega⟩]
  simp

theorem ratInit_cases (n d : Int) :
    (∃ a b, ratInit n d = .rat a b) ∨ ratInit n d = .raise "RuntimeError" := by
  unfold ratInit
  by_cases h1 : d < 0
  · simp [h1]
  · by_cases h2 : d > 0
    · simp [h1, h2]
    · simp [h1, h2]

/-- **`Rational.__init__` under the Python-2 reading IS `ratInit`**: both fields divided by the sign
of the denominator, `RuntimeError` for a zero denominator -/
theorem c19p2_rational_init_run (num den : Int) (n : Nat) :
    c19RunFn ops c19TablePy2 ext (n + 1 + 1 + 1) "Rational.__init__"
        [.obj "Rational" [] [], .int num, .int den] = c19EncRatRes (ratInit num den) := by
  rw [c19RunFn_succ ops c19TablePy2 ext _ _ _ _ _ c19p2_rational_init_body_current rfl]
  unfold ratInit
  by_cases h1 : den < 0
  · c19_run [c19Call_traits, c19p2_traits_int_run, c19p2_Method_get_unit, c19p2_get_unit_run, h1,
      c19_fdiv_neg_one]
    rfl
  · by_cases h2 : den > 0
    · c19_run [c19Call_traits, c19p2_traits_int_run, c19p2_Method_get_unit, c19p2_get_unit_run, h1, h2,
        c19_fdiv_one]
      rfl
    · c19_run [c19Call_traits, c19p2_traits_int_run, c19p2_Method_get_unit, c19p2_get_unit_run, h1, h2]
      simp [c19EncRatRes]

/-! ## `primitives.quotient` on two ints -/

theorem c19p2_New_rational (n k : Nat) (a b : C19V α) :
    c19New (c19CxAt ops c19TablePy2 ext n k) "Rational" [a, b]
      = c19RunFn ops c19TablePy2 ext n "Rational.__init__" [.obj "Rational" [] [], a, b] := rfl

theorem c19p2_IsInst_int_rational (n k : Nat) (i : Int) :
    c19IsInst (c19CxAt ops c19TablePy2 ext n k) (.int i) ["Rational"] = false := rfl

theorem c19p2_IsInst_rat_rational (n k : Nat) (a b : Int) :
    c19IsInst (c19CxAt ops c19TablePy2 ext n k) (c19RatObj a b) ["Rational"] = true := rfl

theorem c19p2_IsInst_traits_euclid (n k : Nat) :
    c19IsInst (c19CxAt ops c19TablePy2 ext n k) (.obj "IntegerTraits" [] [])
      ["EuclideanRingTraits"] = true := rfl

/-- the body of `primitives.quotient` in the current source -/
theorem c19p2_quotient_body_current :
    c19FindFn c19TablePy2 "primitives.quotient" = some ⟨"primitives.quotient", .func,
      ["numerator", "denominator"], [], [
      .ite (.not (.bin .sub (.var "denominator") (.int 1))) [
        .ret (.var "numerator")] [],
      .ite (.and (.isinst (.var "numerator") ["Rational"]) (.isinst (.var "denominator") ["Rational"])) [
        .ret (.bin .mul (.var "numerator") (.method (.var "denominator") "reciprocal" []))] [],
      .assign (.pat (.name "_handler")) (.int 0),
      .tryExcept [
        .tryExcept [
        .assign (.pat (.name "c_traits")) (.commonTraits [(.var "numerator"), (.var "denominator")]),
        .ite (.isinst (.var "c_traits") ["EuclideanRingTraits"]) [
          .ret (.new "Rational" [(.var "numerator"), (.var "denominator")])] []] "NoCommonTraitsError" [.assign (.pat (.name "_handler")) (.int 1)]] "NoTraitsError" [.assign (.pat (.name "_handler")) (.int 2)],
      .ite (.cmp .eq (.var "_handler") (.int 1)) [
          .pass] [
        .ite (.cmp .eq (.var "_handler") (.int 2)) [
          .pass] []],
      .ret (.call "primitives.Quotient" [(.var "numerator"), (.var "denominator")])]⟩ := rfl

/-- **`primitives.quotient` on two ints (Python-2 reading) IS `ratQuotient`**: the numerator
itself when `denominator - 1` is zero, otherwise `Rational(numerator, denominator)` — the common
traits of two ints are `IntegerTraits`, a Euclidean ring -/
theorem c19p2_quotient_run (num den : Int) (n : Nat) :
    c19RunFn ops c19TablePy2 ext (n + 1 + 1 + 1 + 1) "primitives.quotient" [.int num, .int den]
      = c19EncRatRes (ratQuotient num den) := by
  rw [c19RunFn_succ ops c19TablePy2 ext _ _ _ _ _ c19p2_quotient_body_current rfl]
  unfold ratQuotient
  by_cases h1 : den - 1 = 0
  · have hb : (den - 1 != 0) = false := by simp [h1]
    c19_run [hb]
    simp [h1, c19EncRatRes]
  · have hb : (den - 1 != 0) = true := by simp [h1]
    have hi := c19p2_rational_init_run ops ext num den n
    simp only [h1, if_false]
    rcases ratInit_cases num den with ⟨a, b, hr⟩ | hr <;> rw [hr] at hi ⊢ <;>
      c19_run [hb, c19p2_IsInst_int_rational, c19p2_commonTraits_two, c19p2_IsInst_traits_euclid,
        c19p2_New_rational, hi, c19EncRatRes_rat, c19EncRatRes_raise] <;> rfl

/-! ## `Rational.__add__` / `__radd__` -/

/-- the other operand on the wire -/
def c19EncRatArg : RatArg → C19V α
  | .int i => .int i
  | .rat n d => c19RatObj n d

/-- `return v` / `raise` for a result -/
def c19RetRes : RatRes → C19O α
  | .int i => .ret (.int i)
  | .rat n d => .ret (c19RatObj n d)
  | .raise k => .raise k

theorem c19_ofR_encRatRes (r : RatRes) :
    C19O.ofR (c19EncRatRes r : C19R (C19V α)) (fun v => C19O.ret v) = c19RetRes r := by
  cases r <;> rfl

/-- the only exceptions the integer arithmetic raises -/
def RatRes.plain (r : RatRes) : Prop :=
  ∀ k, r = .raise k → k = "ZeroDivisionError" ∨ k = "RuntimeError"

theorem ratInit_plain (n d : Int) : (ratInit n d).plain := by
  intro k hk
  rcases ratInit_cases n d with ⟨a, b, h⟩ | h <;> rw [h] at hk
  · cases hk
  · cases hk; exact Or.inr rfl

theorem ratQuotient_plain (n d : Int) : (ratQuotient n d).plain := by
  unfold ratQuotient
  by_cases h : d - 1 = 0
  · simp only [h, if_true]; intro k hk; cases hk
  · simp only [h, if_false]; exact ratInit_plain n d

theorem RatRes.plain_int (i : Int) : (RatRes.int i).plain := by
  intro k hk; cases hk

theorem RatRes.plain_raise_zd : (RatRes.raise "ZeroDivisionError").plain := by
  intro k hk; cases hk; exact Or.inl rfl

theorem ratAdd_plain (n1 d1 n2 d2 : Int) : (ratAdd n1 d1 n2 d2).plain := by
  unfold ratAdd
  simp only []
  repeat (first | exact RatRes.plain_raise_zd | exact ratQuotient_plain _ _ | split)

theorem c19RetRes_andThen (r : RatRes) (f : C19Store α → C19O α) :
    (c19RetRes r : C19O α).andThen f = c19RetRes r := by
  cases r <;> rfl

/-- `try: B except NoTraitsError: … except NoCommonTraitsError: …` around a body that ends in a
result of the integer arithmetic: neither clause fires -/
theorem c19_try2_plain (cx : C19Cx α) (body h1 h2 : List C19S) (k1 k2 : String) (σ : C19Store α)
    (r : RatRes) (hr : r.plain) (hb : c19ExecL cx body σ = c19RetRes r)
    (hk1 : k1 ≠ "ZeroDivisionError" ∧ k1 ≠ "RuntimeError")
    (hk2 : k2 ≠ "ZeroDivisionError" ∧ k2 ≠ "RuntimeError") :
    c19Exec cx (.tryExcept [.tryExcept body k1 h1] k2 h2) σ = c19RetRes r := by
  have hin : c19Exec cx (.tryExcept body k1 h1) σ = c19RetRes r := by
    rw [c19Exec, hb]
    cases r with
    | int i => rfl
    | rat n d => rfl
    | raise k =>
      have := hr k rfl
      have hne : k ≠ k1 := by
        rintro rfl
        rcases this with h | h
        · exact hk1.1 h
        · exact hk1.2 h
      simp [c19RetRes, hne]
  rw [c19Exec]
  simp only [c19ExecL, hin]
  cases r with
  | int i => rfl
  | rat n d => rfl
  | raise k =>
    have := hr k rfl
    have hne : k ≠ k2 := by
      rintro rfl
      rcases this with h | h
      · exact hk2.1 h
      · exact hk2.2 h
    simp [c19RetRes, hne]

theorem c19p2_Attr_num (cx : C19Cx α) (n d : Int) :
    c19Attr cx (c19RatObj n d) "Numerator" = .ok (.int n) := rfl
theorem c19p2_Attr_den (cx : C19Cx α) (n d : Int) :
    c19Attr cx (c19RatObj n d) "Denominator" = .ok (.int d) := rfl

/-- `newother = Rational(other)` unless `other` is a `Rational` -/
def c19RatCoerce : List C19S := [
  .ite (.not (.isinst (.var "other") ["Rational"])) [
    .assign (.pat (.name "newother")) (.new "Rational" [(.var "other"), (.int 1)])] [
    .assign (.pat (.name "newother")) (.var "other")]]

theorem c19p2_coerce_run (n k : Nat) (S : C19V α) (other : RatArg) :
    c19ExecL (c19CxAt ops c19TablePy2 ext (n + 1 + 1 + 1) k) c19RatCoerce
        [("self", S), ("other", c19EncRatArg other)]
      = .next [("self", S), ("other", c19EncRatArg other),
          ("newother", c19RatObj other.fields.1 other.fields.2)] := by
  unfold c19RatCoerce
  cases other with
  | int i =>
    have hi := c19p2_rational_init_run ops ext i 1 n
    have h1 : ratInit i 1 = .rat i 1 := by simp [ratInit]
    rw [h1] at hi
    simp only [c19EncRatArg, RatArg.fields]
    c19_run [c19p2_IsInst_int_rational, c19p2_New_rational, hi, c19EncRatRes_rat]
  | rat a b =>
    simp only [c19EncRatArg, RatArg.fields]
    c19_run [c19p2_IsInst_rat_rational]

/-- the `try` body of `__add__`, `/` read as `//` -/
def c19RatAddTry : List C19S := [
  .assign (.pat (.name "t")) (.commonTraits [(.attr (.var "self") "Denominator"), (.attr (.var "newother") "Denominator")]),
  .assign (.pat (.name "newden")) (.method (.var "t") "lcm" [(.attr (.var "self") "Denominator"), (.attr (.var "newother") "Denominator")]),
  .assign (.pat (.name "newnum")) (.bin .add (.bin .floordiv (.bin .mul (.attr (.var "self") "Numerator") (.var "newden")) (.attr (.var "self") "Denominator")) (.bin .floordiv (.bin .mul (.attr (.var "newother") "Numerator") (.var "newden")) (.attr (.var "newother") "Denominator"))),
  .assign (.pat (.name "gcd")) (.method (.var "t") "gcd" [(.var "newden"), (.var "newnum")]),
  .ret (.call "primitives.quotient" [(.bin .floordiv (.var "newnum") (.var "gcd")), (.bin .floordiv (.var "newden") (.var "gcd"))])]

def c19RatFallback (fn : String) : List C19S := [
  .ite (.cmp .eq (.var "_handler") (.int 1)) [
      .ret (.call fn [(.var "self"), (.var "other")])] [
    .ite (.cmp .eq (.var "_handler") (.int 2)) [
      .ret (.call fn [(.var "self"), (.var "other")])] []]]

/-- the call depth that suffices for `__add__`: the two runs of Euclid's algorithm -/
def ratAddFuel (n1 d1 n2 d2 : Int) : Nat :=
  let newden := Int.fdiv (d1 * d2) (gcd d1 d2)
  let newnum := Int.fdiv (n1 * newden) d1 + Int.fdiv (n2 * newden) d2
  max (d1.natAbs + d2.natAbs + 6) (newden.natAbs + newnum.natAbs + 5)

theorem c19Call_quotient (cx : C19Cx α) (a b : C19V α) :
    c19Call cx "primitives.quotient" [a, b] = cx.calls "primitives.quotient" [a, b] := rfl

theorem c19p2_add_try_run (N k : Nat) (n1 d1 n2 d2 : Int) (O : C19V α)
    (hN : ratAddFuel n1 d1 n2 d2 ≤ N) :
    c19ExecL (c19CxAt ops c19TablePy2 ext N k) c19RatAddTry
        [("self", c19RatObj n1 d1), ("other", O), ("newother", c19RatObj n2 d2),
          ("_handler", .int 0)]
      = c19RetRes (ratAdd n1 d1 n2 d2) := by
  unfold ratAddFuel at hN
  simp only [] at hN
  obtain ⟨M, rfl⟩ : ∃ M, N = M + 1 + 1 + 1 + 1 := ⟨N - 4, by omega⟩
  have hl := c19p2_traits_lcm_run ops ext d1 d2 (M + 1 + 1 + 1) (by omega)
  have hg := c19p2_traits_gcd_run ops ext (Int.fdiv (d1 * d2) (gcd d1 d2))
    (Int.fdiv (n1 * Int.fdiv (d1 * d2) (gcd d1 d2)) d1 + Int.fdiv (n2 * Int.fdiv (d1 * d2) (gcd d1 d2)) d2)
    (M + 1 + 1 + 1) (by omega)
  unfold c19RatAddTry ratAdd
  simp only []
  unfold c19EncTraitsLcm at hl
  by_cases h0 : gcd d1 d2 = 0
  · simp only [h0, if_true] at hl ⊢
    c19_run [c19p2_Attr_num, c19p2_Attr_den, c19p2_commonTraits_two, c19p2_Method_lcm, hl]
    rfl
  · simp only [h0, if_false] at hl ⊢
    by_cases h1 : d1 = 0
    · simp only [h1, if_true]
      subst h1
      c19_run [c19p2_Attr_num, c19p2_Attr_den, c19p2_commonTraits_two, c19p2_Method_lcm, hl]
      rfl
    · by_cases h2 : d2 = 0
      · simp only [h1, h2, if_true, if_false]
        subst h2
        c19_run [c19p2_Attr_num, c19p2_Attr_den, c19p2_commonTraits_two, c19p2_Method_lcm, hl, h1]
        rfl
      · simp only [h1, h2, if_false]
        by_cases h3 : gcd (Int.fdiv (d1 * d2) (gcd d1 d2))
            (Int.fdiv (n1 * Int.fdiv (d1 * d2) (gcd d1 d2)) d1
              + Int.fdiv (n2 * Int.fdiv (d1 * d2) (gcd d1 d2)) d2) = 0
        · simp only [h3, if_true]
          c19_run [c19p2_Attr_num, c19p2_Attr_den, c19p2_commonTraits_two, c19p2_Method_lcm, hl, h1, h2,
            c19p2_Method_gcd, hg, h3]
          rfl
        · simp only [h3, if_false]
          c19_run [c19p2_Attr_num, c19p2_Attr_den, c19p2_commonTraits_two, c19p2_Method_lcm, hl, h1, h2,
            c19p2_Method_gcd, hg, h3, c19Call_quotient, c19p2_quotient_run, c19_ofR_encRatRes, c19RetRes_andThen]

/-- the common frame of `__add__` / `__mul__`: coercion of the operand, the `try` body, the two
fallback clauses (never entered on integer data) -/
def c19RatFrame (tryB : List C19S) (fb : String) : List C19S :=
  c19RatCoerce ++ [
    .assign (.pat (.name "_handler")) (.int 0),
    .tryExcept [.tryExcept tryB "NoTraitsError" [.assign (.pat (.name "_handler")) (.int 1)]]
      "NoCommonTraitsError" [.assign (.pat (.name "_handler")) (.int 2)]] ++
  c19RatFallback fb

theorem c19EncRatRes_finish (r : RatRes) :
    c19Finish .method (c19RetRes r : C19O α) = c19EncRatRes r := by
  cases r <;> rfl

theorem c19p2_frame_run (name fb : String) (tryB : List C19S) (N : Nat) (n1 d1 : Int)
    (other : RatArg) (r : RatRes)
    (hf : c19FindFn c19TablePy2 name = some ⟨name, .method, ["self", "other"], [],
      c19RatFrame tryB fb⟩)
    (hN : 3 ≤ N) (hr : r.plain)
    (ht : c19ExecL (c19CxAt ops c19TablePy2 ext N (N + 1)) tryB
        [("self", c19RatObj n1 d1), ("other", c19EncRatArg other),
          ("newother", c19RatObj other.fields.1 other.fields.2), ("_handler", .int 0)]
      = c19RetRes r) :
    c19RunFn ops c19TablePy2 ext (N + 1) name [c19RatObj n1 d1, c19EncRatArg other]
      = c19EncRatRes r := by
  obtain ⟨M, rfl⟩ : ∃ M, N = M + 1 + 1 + 1 := ⟨N - 3, by omega⟩
  rw [c19RunFn_succ ops c19TablePy2 ext _ _ _ _ _ hf rfl]
  simp only [c19RatFrame]
  rw [c19ExecL_append, c19ExecL_append, c19p2_coerce_run, C19O.andThen_next]
  have htry := c19_try2_plain (c19CxAt ops c19TablePy2 ext (M + 1 + 1 + 1) (M + 1 + 1 + 1 + 1))
    tryB [.assign (.pat (.name "_handler")) (.int 1)] [.assign (.pat (.name "_handler")) (.int 2)]
    "NoTraitsError" "NoCommonTraitsError" _ r hr ht (by decide) (by decide)
  have : c19ExecL (c19CxAt ops c19TablePy2 ext (M + 1 + 1 + 1) (M + 1 + 1 + 1 + 1))
      [.assign (.pat (.name "_handler")) (.int 0),
        .tryExcept [.tryExcept tryB "NoTraitsError" [.assign (.pat (.name "_handler")) (.int 1)]]
          "NoCommonTraitsError" [.assign (.pat (.name "_handler")) (.int 2)]]
      [("self", c19RatObj n1 d1), ("other", c19EncRatArg other),
        ("newother", c19RatObj other.fields.1 other.fields.2)] = c19RetRes r := by
    have ha : c19Exec (c19CxAt ops c19TablePy2 ext (M + 1 + 1 + 1) (M + 1 + 1 + 1 + 1))
        (.assign (.pat (.name "_handler")) (.int 0))
        [("self", c19RatObj n1 d1), ("other", c19EncRatArg other),
          ("newother", c19RatObj other.fields.1 other.fields.2)]
        = .next [("self", c19RatObj n1 d1), ("other", c19EncRatArg other),
          ("newother", c19RatObj other.fields.1 other.fields.2), ("_handler", .int 0)] := by
      c19_run []
    simp only [c19ExecL]
    rw [ha, C19O.andThen_next]
    rw [htry, c19RetRes_andThen]
  rw [this, c19RetRes_andThen, c19EncRatRes_finish]

theorem c19p2_rational_add_frame :
    c19FindFn c19TablePy2 "Rational.__add__" = some ⟨"Rational.__add__", .method,
      ["self", "other"], [], c19RatFrame c19RatAddTry "Expression.__add__"⟩ := rfl
theorem c19p2_rational_radd_frame :
    c19FindFn c19TablePy2 "Rational.__radd__" = some ⟨"Rational.__radd__", .method,
      ["self", "other"], [], c19RatFrame c19RatAddTry "Expression.__add__"⟩ := rfl

/-- **`Rational.__add__` under the Python-2 reading IS `ratAdd`** on integer fields, the operand a
`Rational` or a plain int -/
theorem c19p2_rational_add_run (n1 d1 : Int) (other : RatArg) (N : Nat)
    (hN : ratAddFuel n1 d1 other.fields.1 other.fields.2 ≤ N) :
    c19RunFn ops c19TablePy2 ext (N + 1) "Rational.__add__" [c19RatObj n1 d1, c19EncRatArg other]
      = c19EncRatRes (ratAdd n1 d1 other.fields.1 other.fields.2) :=
  c19p2_frame_run ops ext _ _ _ N n1 d1 other _ c19p2_rational_add_frame
    (by unfold ratAddFuel at hN; simp only [] at hN; omega) (ratAdd_plain _ _ _ _)
    (c19p2_add_try_run ops ext N (N + 1) n1 d1 _ _ _ hN)

theorem c19p2_rational_radd_run (n1 d1 : Int) (other : RatArg) (N : Nat)
    (hN : ratAddFuel n1 d1 other.fields.1 other.fields.2 ≤ N) :
    c19RunFn ops c19TablePy2 ext (N + 1) "Rational.__radd__" [c19RatObj n1 d1, c19EncRatArg other]
      = c19EncRatRes (ratAdd n1 d1 other.fields.1 other.fields.2) :=
  c19p2_frame_run ops ext _ _ _ N n1 d1 other _ c19p2_rational_radd_frame
    (by unfold ratAddFuel at hN; simp only [] at hN; omega) (ratAdd_plain _ _ _ _)
    (c19p2_add_try_run ops ext N (N + 1) n1 d1 _ _ _ hN)

/-! ## `Rational.__mul__` / `__rmul__` -/

/-- the `try` body of `__mul__`, `/` read as `//` -/
def c19RatMulTry : List C19S := [
  .assign (.pat (.name "t")) (.commonTraits [(.attr (.var "self") "Numerator"), (.attr (.var "newother") "Numerator"), (.attr (.var "self") "Denominator"), (.attr (.var "newother") "Denominator")]),
  .assign (.pat (.name "gcd_1")) (.method (.var "t") "gcd" [(.attr (.var "self") "Numerator"), (.attr (.var "newother") "Denominator")]),
  .assign (.pat (.name "gcd_2")) (.method (.var "t") "gcd" [(.attr (.var "newother") "Numerator"), (.attr (.var "self") "Denominator")]),
  .assign (.pat (.name "new_num")) (.bin .floordiv (.bin .mul (.bin .floordiv (.attr (.var "self") "Numerator") (.var "gcd_1")) (.attr (.var "newother") "Numerator")) (.var "gcd_2")),
  .assign (.pat (.name "new_denom")) (.bin .floordiv (.bin .mul (.bin .floordiv (.attr (.var "self") "Denominator") (.var "gcd_2")) (.attr (.var "newother") "Denominator")) (.var "gcd_1")),
  .ite (.not (.bin .sub (.var "new_denom") (.int 1))) [
    .ret (.var "new_num")] [],
  .ret (.new "Rational" [(.var "new_num"), (.var "new_denom")])]

theorem c19p2_rational_mul_frame :
    c19FindFn c19TablePy2 "Rational.__mul__" = some ⟨"Rational.__mul__", .method,
      ["self", "other"], [], c19RatFrame c19RatMulTry "Expression.__mul__"⟩ := rfl
theorem c19p2_rational_rmul_frame :
    c19FindFn c19TablePy2 "Rational.__rmul__" = some ⟨"Rational.__rmul__", .method,
      ["self", "other"], [], c19RatFrame c19RatMulTry "Expression.__mul__"⟩ := rfl

theorem ratMul_plain (n1 d1 n2 d2 : Int) : (ratMul n1 d1 n2 d2).plain := by
  unfold ratMul
  simp only []
  repeat (first | exact RatRes.plain_raise_zd | exact ratInit_plain _ _
                | exact RatRes.plain_int _ | split)

def ratMulFuel (n1 d1 n2 d2 : Int) : Nat :=
  max (n1.natAbs + d2.natAbs + 5) (n2.natAbs + d1.natAbs + 5)

theorem c19p2_mul_try_run (N k : Nat) (n1 d1 n2 d2 : Int) (O : C19V α)
    (hN : ratMulFuel n1 d1 n2 d2 ≤ N) :
    c19ExecL (c19CxAt ops c19TablePy2 ext N k) c19RatMulTry
        [("self", c19RatObj n1 d1), ("other", O), ("newother", c19RatObj n2 d2),
          ("_handler", .int 0)]
      = c19RetRes (ratMul n1 d1 n2 d2) := by
  unfold ratMulFuel at hN
  obtain ⟨M, rfl⟩ : ∃ M, N = M + 1 + 1 + 1 + 1 := ⟨N - 4, by omega⟩
  have hg1 := c19p2_traits_gcd_run ops ext n1 d2 (M + 1 + 1 + 1) (by omega)
  have hg2 := c19p2_traits_gcd_run ops ext n2 d1 (M + 1 + 1 + 1) (by omega)
  unfold c19RatMulTry ratMul
  simp only []
  by_cases h1 : gcd n1 d2 = 0
  · simp only [h1, if_true]
    c19_run [c19p2_Attr_num, c19p2_Attr_den, c19p2_commonTraits_four, c19p2_Method_gcd, hg1, hg2, h1]
    rfl
  · simp only [h1, if_false]
    by_cases h2 : gcd n2 d1 = 0
    · simp only [h2, if_true]
      c19_run [c19p2_Attr_num, c19p2_Attr_den, c19p2_commonTraits_four, c19p2_Method_gcd, hg1, hg2,
        h1, h2]
      rfl
    · simp only [h2, if_false]
      by_cases h3 : Int.fdiv (Int.fdiv d1 (gcd n2 d1) * d2) (gcd n1 d2) - 1 = 0
      · have hb : (Int.fdiv (Int.fdiv d1 (gcd n2 d1) * d2) (gcd n1 d2) - 1 != 0) = false := by
          simp [h3]
        simp only [h3, if_true]
        c19_run [c19p2_Attr_num, c19p2_Attr_den, c19p2_commonTraits_four, c19p2_Method_gcd, hg1, hg2,
          h1, h2, hb]
        rfl
      · have hb : (Int.fdiv (Int.fdiv d1 (gcd n2 d1) * d2) (gcd n1 d2) - 1 != 0) = true := by
          simp [h3]
        simp only [h3, if_false]
        c19_run [c19p2_Attr_num, c19p2_Attr_den, c19p2_commonTraits_four, c19p2_Method_gcd, hg1, hg2,
          h1, h2, hb, c19p2_New_rational, c19p2_rational_init_run, c19_ofR_encRatRes,
          c19RetRes_andThen]

/-- **`Rational.__mul__` under the Python-2 reading IS `ratMul`** -/
theorem c19p2_rational_mul_run (n1 d1 : Int) (other : RatArg) (N : Nat)
    (hN : ratMulFuel n1 d1 other.fields.1 other.fields.2 ≤ N) :
    c19RunFn ops c19TablePy2 ext (N + 1) "Rational.__mul__" [c19RatObj n1 d1, c19EncRatArg other]
      = c19EncRatRes (ratMul n1 d1 other.fields.1 other.fields.2) :=
  c19p2_frame_run ops ext _ _ _ N n1 d1 other _ c19p2_rational_mul_frame
    (by unfold ratMulFuel at hN; omega) (ratMul_plain _ _ _ _)
    (c19p2_mul_try_run ops ext N (N + 1) n1 d1 _ _ _ hN)

theorem c19p2_rational_rmul_run (n1 d1 : Int) (other : RatArg) (N : Nat)
    (hN : ratMulFuel n1 d1 other.fields.1 other.fields.2 ≤ N) :
    c19RunFn ops c19TablePy2 ext (N + 1) "Rational.__rmul__" [c19RatObj n1 d1, c19EncRatArg other]
      = c19EncRatRes (ratMul n1 d1 other.fields.1 other.fields.2) :=
  c19p2_frame_run ops ext _ _ _ N n1 d1 other _ c19p2_rational_rmul_frame
    (by unfold ratMulFuel at hN; omega) (ratMul_plain _ _ _ _)
    (c19p2_mul_try_run ops ext N (N + 1) n1 d1 _ _ _ hN)

/-! ## `__neg__`, `reciprocal`, `__pow__` -/

theorem c19p2_rational_neg_body_current :
    c19FindFn c19TablePy2 "Rational.__neg__" = some ⟨"Rational.__neg__", .method, ["self"], [], [
      .ret (.new "Rational" [(.neg (.attr (.var "self") "Numerator")), (.attr (.var "self") "Denominator")])]⟩ := rfl

/-- **`Rational.__neg__` (Python-2 reading) IS `ratNeg`** -/
theorem c19p2_rational_neg_run (n d : Int) (m : Nat) :
    c19RunFn ops c19TablePy2 ext (m + 1 + 1 + 1 + 1) "Rational.__neg__" [c19RatObj n d]
      = c19EncRatRes (ratNeg n d) := by
  rw [c19RunFn_succ ops c19TablePy2 ext _ _ _ _ _ c19p2_rational_neg_body_current rfl]
  unfold ratNeg
  c19_run [c19p2_Attr_num, c19p2_Attr_den, c19p2_New_rational, c19p2_rational_init_run,
    c19_ofR_encRatRes, c19RetRes_andThen, c19EncRatRes_finish]

theorem c19p2_rational_reciprocal_body_current :
    c19FindFn c19TablePy2 "Rational.reciprocal" = some ⟨"Rational.reciprocal", .method, ["self"], [], [
      .ret (.new "Rational" [(.attr (.var "self") "Denominator"), (.attr (.var "self") "Numerator")])]⟩ := rfl

/-- **`Rational.reciprocal` (Python-2 reading) IS `ratReciprocal`** -/
theorem c19p2_rational_reciprocal_run (n d : Int) (m : Nat) :
    c19RunFn ops c19TablePy2 ext (m + 1 + 1 + 1 + 1) "Rational.reciprocal" [c19RatObj n d]
      = c19EncRatRes (ratReciprocal n d) := by
  rw [c19RunFn_succ ops c19TablePy2 ext _ _ _ _ _ c19p2_rational_reciprocal_body_current rfl]
  unfold ratReciprocal
  c19_run [c19p2_Attr_num, c19p2_Attr_den, c19p2_New_rational, c19p2_rational_init_run,
    c19_ofR_encRatRes, c19RetRes_andThen, c19EncRatRes_finish]

theorem c19p2_rational_pow_body_current :
    c19FindFn c19TablePy2 "Rational.__pow__" = some ⟨"Rational.__pow__", .method,
      ["self", "other"], [], [
      .ret (.new "Rational" [(.bin .pow (.attr (.var "self") "Denominator") (.var "other")), (.bin .pow (.attr (.var "self") "Numerator") (.var "other"))])]⟩ := rfl

/-- **`Rational.__pow__` (Python-2 reading, exponent a natural number) IS `ratPow`**: the
DENOMINATOR's power becomes the numerator -/
theorem c19p2_rational_pow_run (n d : Int) (k m : Nat) :
    c19RunFn ops c19TablePy2 ext (m + 1 + 1 + 1 + 1) "Rational.__pow__" [c19RatObj n d, .int k]
      = c19EncRatRes (ratPow n d k) := by
  rw [c19RunFn_succ ops c19TablePy2 ext _ _ _ _ _ c19p2_rational_pow_body_current rfl]
  unfold ratPow
  have hk : ¬ ((k : Int) < 0) := by omega
  have hk' : ((k : Int)).toNat = k := by omega
  c19_run [c19p2_Attr_num, c19p2_Attr_den, c19p2_New_rational, c19p2_rational_init_run,
    c19_ofR_encRatRes, c19RetRes_andThen, c19EncRatRes_finish, hk, hk']

/-! ## `__sub__`, `__rsub__`, `__div__`, `__rdiv__` -/

theorem c19p2_rational_sub_body_current :
    c19FindFn c19TablePy2 "Rational.__sub__" = some ⟨"Rational.__sub__", .method,
      ["self", "other"], [], [
      .ret (.method (.var "self") "__add__" [(.neg (.var "other"))])]⟩ := rfl

def ratSubFuel (n1 d1 : Int) (other : RatArg) : Nat :=
  match ratNegArg other with
  | .int i => ratAddFuel n1 d1 i 1 + 1
  | .rat n d => max (ratAddFuel n1 d1 n d + 1) 4
  | .raise _ => 4

theorem c19p2_Method_add (n k : Nat) (a b : Int) (v : C19V α) :
    c19Method (c19CxAt ops c19TablePy2 ext n k) (c19RatObj a b) "__add__" [v]
      = c19RunFn ops c19TablePy2 ext n "Rational.__add__" [c19RatObj a b, v] := rfl
theorem c19p2_Method_radd (n k : Nat) (a b : Int) (v : C19V α) :
    c19Method (c19CxAt ops c19TablePy2 ext n k) (c19RatObj a b) "__radd__" [v]
      = c19RunFn ops c19TablePy2 ext n "Rational.__radd__" [c19RatObj a b, v] := rfl
theorem c19p2_Method_mul (n k : Nat) (a b : Int) (v : C19V α) :
    c19Method (c19CxAt ops c19TablePy2 ext n k) (c19RatObj a b) "__mul__" [v]
      = c19RunFn ops c19TablePy2 ext n "Rational.__mul__" [c19RatObj a b, v] := rfl
theorem c19p2_Method_rmul (n k : Nat) (a b : Int) (v : C19V α) :
    c19Method (c19CxAt ops c19TablePy2 ext n k) (c19RatObj a b) "__rmul__" [v]
      = c19RunFn ops c19TablePy2 ext n "Rational.__rmul__" [c19RatObj a b, v] := rfl
theorem c19p2_Neg_rat (n k : Nat) (a b : Int) :
    c19Neg (c19CxAt ops c19TablePy2 ext n k) (c19RatObj a b)
      = c19RunFn ops c19TablePy2 ext n "Rational.__neg__" [c19RatObj a b] := rfl

/-- **`Rational.__sub__` (Python-2 reading) IS `ratSub`**: `self.__add__(-other)` -/
theorem c19p2_rational_sub_run (n1 d1 : Int) (other : RatArg) (N : Nat)
    (hN : ratSubFuel n1 d1 other ≤ N) :
    c19RunFn ops c19TablePy2 ext (N + 1) "Rational.__sub__" [c19RatObj n1 d1, c19EncRatArg other]
      = c19EncRatRes (ratSub n1 d1 other) := by
  rw [c19RunFn_succ ops c19TablePy2 ext _ _ _ _ _ c19p2_rational_sub_body_current rfl]
  unfold ratSubFuel at hN
  unfold ratSub
  cases other with
  | int i =>
    simp only [ratNegArg] at hN ⊢
    obtain ⟨M, rfl⟩ : ∃ M, N = M + 1 := ⟨N - 1, by omega⟩
    have ha : c19RunFn ops c19TablePy2 ext (M + 1) "Rational.__add__"
        [c19RatObj n1 d1, .int (-i)] = c19EncRatRes (ratAdd n1 d1 (-i) 1) :=
      c19p2_rational_add_run ops ext n1 d1 (.int (-i)) M
        (by show ratAddFuel n1 d1 (-i) 1 ≤ M; omega)
    simp only [c19EncRatArg]
    c19_run [c19p2_Method_add, ha, c19_ofR_encRatRes, c19RetRes_andThen, c19EncRatRes_finish]
  | rat a b =>
    simp only [ratNegArg] at hN ⊢
    simp only [c19EncRatArg]
    rcases ratInit_cases (-a) b with ⟨a', b', hr⟩ | hr
    · simp only [ratNeg, hr] at hN ⊢
      obtain ⟨M, rfl⟩ : ∃ M, N = M + 1 + 1 + 1 + 1 := ⟨N - 4, by omega⟩
      have hneg := c19p2_rational_neg_run ops ext a b M
      simp only [ratNeg, hr] at hneg
      have ha : c19RunFn ops c19TablePy2 ext (M + 1 + 1 + 1 + 1) "Rational.__add__"
          [c19RatObj n1 d1, c19RatObj a' b'] = c19EncRatRes (ratAdd n1 d1 a' b') :=
        c19p2_rational_add_run ops ext n1 d1 (.rat a' b') (M + 1 + 1 + 1)
          (by show ratAddFuel n1 d1 a' b' ≤ M + 1 + 1 + 1; omega)
      c19_run [c19p2_Neg_rat, hneg, c19EncRatRes_rat, c19p2_Method_add, ha, c19_ofR_encRatRes,
        c19RetRes_andThen, c19EncRatRes_finish]
    · simp only [ratNeg, hr] at hN ⊢
      obtain ⟨M, rfl⟩ : ∃ M, N = M + 1 + 1 + 1 + 1 := ⟨N - 4, by omega⟩
      have hneg := c19p2_rational_neg_run ops ext a b M
      simp only [ratNeg, hr] at hneg
      c19_run [c19p2_Neg_rat, hneg, c19EncRatRes_raise]
      rfl

theorem c19p2_rational_rsub_body_current :
    c19FindFn c19TablePy2 "Rational.__rsub__" = some ⟨"Rational.__rsub__", .method,
      ["self", "other"], [], [
      .ret (.method (.neg (.var "self")) "__radd__" [(.var "other")])]⟩ := rfl

def ratRsubFuel (n1 d1 : Int) (other : RatArg) : Nat :=
  match ratNeg n1 d1 with
  | .rat n d => max (ratAddFuel n d other.fields.1 other.fields.2 + 1) 4
  | _ => 4

/-- **`Rational.__rsub__` (Python-2 reading) IS `ratRsub`**: `(-self).__radd__(other)` -/
theorem c19p2_rational_rsub_run (n1 d1 : Int) (other : RatArg) (N : Nat)
    (hN : ratRsubFuel n1 d1 other ≤ N) :
    c19RunFn ops c19TablePy2 ext (N + 1) "Rational.__rsub__" [c19RatObj n1 d1, c19EncRatArg other]
      = c19EncRatRes (ratRsub n1 d1 other) := by
  rw [c19RunFn_succ ops c19TablePy2 ext _ _ _ _ _ c19p2_rational_rsub_body_current rfl]
  unfold ratRsubFuel at hN
  unfold ratRsub
  rcases ratInit_cases (-n1) d1 with ⟨a', b', hr⟩ | hr
  · simp only [ratNeg, hr, RatRes.bind] at hN ⊢
    obtain ⟨M, rfl⟩ : ∃ M, N = M + 1 + 1 + 1 + 1 := ⟨N - 4, by omega⟩
    have hneg := c19p2_rational_neg_run ops ext n1 d1 M
    simp only [ratNeg, hr] at hneg
    have ha := c19p2_rational_radd_run ops ext a' b' other (M + 1 + 1 + 1) (by omega)
    c19_run [c19p2_Neg_rat, hneg, c19EncRatRes_rat, c19p2_Method_radd, ha, c19_ofR_encRatRes,
      c19RetRes_andThen, c19EncRatRes_finish]
  · simp only [ratNeg, hr, RatRes.bind] at hN ⊢
    obtain ⟨M, rfl⟩ : ∃ M, N = M + 1 + 1 + 1 + 1 := ⟨N - 4, by omega⟩
    have hneg := c19p2_rational_neg_run ops ext n1 d1 M
    simp only [ratNeg, hr] at hneg
    c19_run [c19p2_Neg_rat, hneg, c19EncRatRes_raise]
    rfl

/-- `other = Rational(other)` unless `other` is a `Rational` (the coercion of `__div__` /
`__rdiv__`, which rebinds `other`) -/
def c19RatCoerceSelf : List C19S := [
  .ite (.not (.isinst (.var "other") ["Rational"])) [
    .assign (.pat (.name "other")) (.new "Rational" [(.var "other"), (.int 1)])] []]

theorem c19p2_coerce_self_run (n k : Nat) (S : C19V α) (other : RatArg) :
    c19ExecL (c19CxAt ops c19TablePy2 ext (n + 1 + 1 + 1) k) c19RatCoerceSelf
        [("self", S), ("other", c19EncRatArg other)]
      = .next [("self", S), ("other", c19RatObj other.fields.1 other.fields.2)] := by
  unfold c19RatCoerceSelf
  cases other with
  | int i =>
    have hi := c19p2_rational_init_run ops ext i 1 n
    have h1 : ratInit i 1 = .rat i 1 := by simp [ratInit]
    rw [h1] at hi
    simp only [c19EncRatArg, RatArg.fields]
    c19_run [c19p2_IsInst_int_rational, c19p2_New_rational, hi, c19EncRatRes_rat]
  | rat a b =>
    simp only [c19EncRatArg, RatArg.fields]
    c19_run [c19p2_IsInst_rat_rational]

theorem c19p2_rational_div_body_current :
    c19FindFn c19TablePy2 "Rational.__div__" = some ⟨"Rational.__div__", .method,
      ["self", "other"], [], c19RatCoerceSelf ++ [
      .ret (.method (.var "self") "__mul__" [(.new "Rational" [(.attr (.var "other") "Denominator"), (.attr (.var "other") "Numerator")])])]⟩ := rfl

def ratDivFuel (n1 d1 : Int) (other : RatArg) : Nat :=
  match ratInit other.fields.2 other.fields.1 with
  | .rat n d => max (ratMulFuel n1 d1 n d + 1) 3
  | _ => 3

/-- **`Rational.__div__` (Python-2 reading) IS `ratDiv`**:
`self.__mul__(Rational(other.Denominator, other.Numerator))` -/
theorem c19p2_rational_div_run (n1 d1 : Int) (other : RatArg) (N : Nat)
    (hN : ratDivFuel n1 d1 other ≤ N) :
    c19RunFn ops c19TablePy2 ext (N + 1) "Rational.__div__" [c19RatObj n1 d1, c19EncRatArg other]
      = c19EncRatRes (ratDiv n1 d1 other) := by
  rw [c19RunFn_succ ops c19TablePy2 ext _ _ _ _ _ c19p2_rational_div_body_current rfl]
  unfold ratDivFuel at hN
  unfold ratDiv
  rcases ratInit_cases other.fields.2 other.fields.1 with ⟨a', b', hr⟩ | hr
  · simp only [hr, RatRes.bind] at hN ⊢
    obtain ⟨M, rfl⟩ : ∃ M, N = M + 1 + 1 + 1 := ⟨N - 3, by omega⟩
    have hi := c19p2_rational_init_run ops ext other.fields.2 other.fields.1 M
    rw [hr] at hi
    have hm : c19RunFn ops c19TablePy2 ext (M + 1 + 1 + 1) "Rational.__mul__"
        [c19RatObj n1 d1, c19RatObj a' b'] = c19EncRatRes (ratMul n1 d1 a' b') :=
      c19p2_rational_mul_run ops ext n1 d1 (.rat a' b') (M + 1 + 1)
        (by show ratMulFuel n1 d1 a' b' ≤ M + 1 + 1; omega)
    rw [c19ExecL_append, c19p2_coerce_self_run, C19O.andThen_next]
    c19_run [c19p2_Attr_num, c19p2_Attr_den, c19p2_New_rational, hi, c19EncRatRes_rat,
      c19p2_Method_mul, hm, c19_ofR_encRatRes, c19RetRes_andThen, c19EncRatRes_finish]
  · simp only [hr, RatRes.bind] at hN ⊢
    obtain ⟨M, rfl⟩ : ∃ M, N = M + 1 + 1 + 1 := ⟨N - 3, by omega⟩
    have hi := c19p2_rational_init_run ops ext other.fields.2 other.fields.1 M
    rw [hr] at hi
    rw [c19ExecL_append, c19p2_coerce_self_run, C19O.andThen_next]
    c19_run [c19p2_Attr_num, c19p2_Attr_den, c19p2_New_rational, hi, c19EncRatRes_raise]
    rfl

theorem c19p2_rational_rdiv_body_current :
    c19FindFn c19TablePy2 "Rational.__rdiv__" = some ⟨"Rational.__rdiv__", .method,
      ["self", "other"], [], c19RatCoerceSelf ++ [
      .ret (.method (.new "Rational" [(.attr (.var "self") "Denominator"), (.attr (.var "self") "Numerator")]) "__rmul__" [(.var "other")])]⟩ := rfl

def ratRdivFuel (n1 d1 : Int) (other : RatArg) : Nat :=
  match ratInit d1 n1 with
  | .rat n d => max (ratMulFuel n d other.fields.1 other.fields.2 + 1) 3
  | _ => 3

/-- **`Rational.__rdiv__` (Python-2 reading) IS `ratRdiv`**:
`Rational(self.Denominator, self.Numerator).__rmul__(other)` -/
theorem c19p2_rational_rdiv_run (n1 d1 : Int) (other : RatArg) (N : Nat)
    (hN : ratRdivFuel n1 d1 other ≤ N) :
    c19RunFn ops c19TablePy2 ext (N + 1) "Rational.__rdiv__" [c19RatObj n1 d1, c19EncRatArg other]
      = c19EncRatRes (ratRdiv n1 d1 other) := by
  rw [c19RunFn_succ ops c19TablePy2 ext _ _ _ _ _ c19p2_rational_rdiv_body_current rfl]
  unfold ratRdivFuel at hN
  unfold ratRdiv
  rcases ratInit_cases d1 n1 with ⟨a', b', hr⟩ | hr
  · simp only [hr, RatRes.bind] at hN ⊢
    obtain ⟨M, rfl⟩ : ∃ M, N = M + 1 + 1 + 1 := ⟨N - 3, by omega⟩
    have hi := c19p2_rational_init_run ops ext d1 n1 M
    rw [hr] at hi
    have hm : c19RunFn ops c19TablePy2 ext (M + 1 + 1 + 1) "Rational.__rmul__"
        [c19RatObj a' b', c19RatObj other.fields.1 other.fields.2]
        = c19EncRatRes (ratMul a' b' other.fields.1 other.fields.2) :=
      c19p2_rational_rmul_run ops ext a' b' (.rat other.fields.1 other.fields.2) (M + 1 + 1)
        (by show ratMulFuel a' b' other.fields.1 other.fields.2 ≤ M + 1 + 1; omega)
    rw [c19ExecL_append, c19p2_coerce_self_run, C19O.andThen_next]
    c19_run [c19p2_Attr_num, c19p2_Attr_den, c19p2_New_rational, hi, c19EncRatRes_rat,
      c19p2_Method_rmul, hm, c19_ofR_encRatRes, c19RetRes_andThen, c19EncRatRes_finish]
  · simp only [hr, RatRes.bind] at hN ⊢
    obtain ⟨M, rfl⟩ : ∃ M, N = M + 1 + 1 + 1 := ⟨N - 3, by omega⟩
    have hi := c19p2_rational_init_run ops ext d1 n1 M
    rw [hr] at hi
    rw [c19ExecL_append, c19p2_coerce_self_run, C19O.andThen_next]
    c19_run [c19p2_Attr_num, c19p2_Attr_den, c19p2_New_rational, hi, c19EncRatRes_raise]
    rfl

end
end PV.Algo
