import PV.Proofs.Subterm
/-
  C04 — the identity mapper (`substM` with the empty substitution) and a generic decidable
  "every subterm satisfies p" used to discharge hypotheses on concrete trees.
-/
namespace PV

theorem SubstMap.empty_apply (t : Expr) : ({} : SubstMap).apply t = none := by
  cases t <;> simp [SubstMap.apply, SubstMap.findExpr, SubstMap.findName]

/-- no `CommonSubexpression` wrapper around a zero child anywhere in `e` -/
def NoZeroCseChild (e : Expr) : Prop :=
  ∀ c p s, Subterm (.cse c p s) e → c.isZero = false

theorem NoZeroCseChild.child {e c : Expr} (h : NoZeroCseChild e) (hc : c ∈ e.children) :
    NoZeroCseChild c :=
  fun c' p s ht => h c' p s (ht.trans (.child hc))

mutual
theorem substE_empty : ∀ e : Expr, NoZeroCseChild e → substE {} e = e
  | .var x, _ => by simp [substE, SubstMap.empty_apply]
  | .const _, _ => by simp [substE]
  | .nan, _ => by simp [substE]
  | .wildcard, _ => by simp [substE]
  | .dotWild _, _ => by simp [substE]
  | .starWild _, _ => by simp [substE]
  | .funcSym, _ => by simp [substE]
  | .subscript a b, h => by
      simp [substE, SubstMap.empty_apply, substE_empty a (h.child (by simp [Expr.children])),
        substE_empty b (h.child (by simp [Expr.children]))]
  | .lookup a n, h => by
      simp [substE, SubstMap.empty_apply, substE_empty a (h.child (by simp [Expr.children]))]
  | .bin o a b, h => by
      simp [substE, substE_empty a (h.child (by simp [Expr.children])),
        substE_empty b (h.child (by simp [Expr.children]))]
  | .cmp o a b, h => by
      simp [substE, substE_empty a (h.child (by simp [Expr.children])),
        substE_empty b (h.child (by simp [Expr.children]))]
  | .un o a, h => by simp [substE, substE_empty a (h.child (by simp [Expr.children]))]
  | .deriv a vs, h => by simp [substE, substE_empty a (h.child (by simp [Expr.children]))]
  | .cse a p s, h => by
      simp [substE, substE_empty a (h.child (by simp [Expr.children])), h a p s (.refl _)]
  | .ite a b c, h => by
      simp [substE, substE_empty a (h.child (by simp [Expr.children])),
        substE_empty b (h.child (by simp [Expr.children])),
        substE_empty c (h.child (by simp [Expr.children]))]
  | .nary o cs, h => by
      simp [substE, substEL_empty cs (fun c hc => h.child (by simp [Expr.children, hc]))]
  | .slice cs, h => by
      simp [substE, substEL_empty cs (fun c hc => h.child (by simp [Expr.children, hc]))]
  | .tuple cs, h => by
      simp [substE, substEL_empty cs (fun c hc => h.child (by simp [Expr.children, hc]))]
  | .list cs, h => by
      simp [substE, substEL_empty cs (fun c hc => h.child (by simp [Expr.children, hc]))]
  | .call a cs, h => by
      simp [substE, substE_empty a (h.child (by simp [Expr.children])),
        substEL_empty cs (fun c hc => h.child (by simp [Expr.children, hc]))]
  | .subst a vs cs, h => by
      simp [substE, substE_empty a (h.child (by simp [Expr.children])),
        substEL_empty cs (fun c hc => h.child (by simp [Expr.children, hc]))]
  | .callKw a bs ns cs, h => by
      simp [substE, substE_empty a (h.child (by simp [Expr.children])),
        substEL_empty bs (fun c hc => h.child (by simp [Expr.children, hc])),
        substEL_empty cs (fun c hc => h.child (by simp [Expr.children, hc]))]
theorem substEL_empty : ∀ cs : List Expr, (∀ c ∈ cs, NoZeroCseChild c) → substEL {} cs = cs
  | [], _ => by simp [substEL]
  | c :: cs, h => by
      simp [substEL, substE_empty c (h c (by simp)),
        substEL_empty cs (fun c hc => h c (by simp [hc]))]
end

/-! ### a generic decidable "every subterm satisfies `p`" (to discharge the hypotheses by `decide`) -/

mutual
def allSub (p : Expr → Bool) : Expr → Bool
  | .const c => p (.const c)
  | .var x => p (.var x)
  | .nan => p .nan
  | .wildcard => p .wildcard
  | .dotWild n => p (.dotWild n)
  | .starWild n => p (.starWild n)
  | .funcSym => p .funcSym
  | .nary o cs => p (.nary o cs) && allSubL p cs
  | .bin o a b => p (.bin o a b) && (allSub p a && allSub p b)
  | .un o a => p (.un o a) && allSub p a
  | .cmp o a b => p (.cmp o a b) && (allSub p a && allSub p b)
  | .ite c t e => p (.ite c t e) && (allSub p c && allSub p t && allSub p e)
  | .call f as => p (.call f as) && (allSub p f && allSubL p as)
  | .callKw f as ns vs => p (.callKw f as ns vs) && (allSub p f && allSubL p as && allSubL p vs)
  | .subscript a i => p (.subscript a i) && (allSub p a && allSub p i)
  | .lookup a n => p (.lookup a n) && allSub p a
  | .cse c q s => p (.cse c q s) && allSub p c
  | .subst c vs xs => p (.subst c vs xs) && (allSub p c && allSubL p xs)
  | .deriv c vs => p (.deriv c vs) && allSub p c
  | .slice cs => p (.slice cs) && allSubL p cs
  | .tuple cs => p (.tuple cs) && allSubL p cs
  | .list cs => p (.list cs) && allSubL p cs
def allSubL (p : Expr → Bool) : List Expr → Bool
  | [] => true
  | c :: cs => allSub p c && allSubL p cs
end

theorem allSubL_eq (p : Expr → Bool) : ∀ cs : List Expr, allSubL p cs = cs.all (allSub p)
  | [] => rfl
  | c :: cs => by simp [allSubL, allSubL_eq p cs]

theorem allSub_eq (p : Expr → Bool) (e : Expr) :
    allSub p e = (p e && e.children.all (allSub p)) := by
  cases e <;> simp [allSub, Expr.children, allSubL_eq, Bool.and_assoc]

theorem allSub_sound {p : Expr → Bool} {e : Expr} (h : allSub p e = true) :
    ∀ t, Subterm t e → p t = true := by
  intro t ht
  have : allSub p t = true := by
    induction ht with
    | refl => exact h
    | step _ hc ih =>
      apply ih
      rw [allSub_eq, Bool.and_eq_true, List.all_eq_true] at h
      exact h.2 _ hc
  rw [allSub_eq, Bool.and_eq_true] at this
  exact this.1

def cseChildNonzero : Expr → Bool
  | .cse c _ _ => !c.isZero
  | _ => true

def notListNode : Expr → Bool
  | .list _ => false
  | _ => true

theorem noZeroCseChild_of_check {e : Expr} (h : allSub cseChildNonzero e = true) :
    NoZeroCseChild e := by
  intro c p s ht
  simpa [cseChildNonzero] using allSub_sound h _ ht

theorem noList_of_check {e : Expr} (h : allSub notListNode e = true) :
    ∀ cs, ¬ Subterm (.list cs) e := by
  intro cs ht
  simpa [notListNode] using allSub_sound h _ ht
end PV
