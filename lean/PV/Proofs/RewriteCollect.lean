import PV.Proofs.RewriteDist
import Mathlib.Data.List.Perm.Subperm
set_option linter.unusedSimpArgs false
/-
  C11, part 8: `TermCollector`.  `split_term` turns a multiplicative term into a coefficient and
  a dictionary base ↦ exponent (merging `b**m * b**n` to `b**(m+n)`); `map_sum` adds up the
  coefficients of terms whose dictionaries are equal as sets.  All of this preserves the value in
  any field; the set comparison of keys is sound because a key has pairwise distinct bases.
-/
namespace PV

universe u
variable {K : Type u} [Field K] [DecidableEq K]

section
variable (ρ : String → K)

/-! ### values of (base, exponent) pairs, keys and dictionary entries -/

def pairVal (p : Expr × Expr) : Option K := powK (evalK ρ p.1) (expInt? p.2)

def keyVal : List (Expr × Expr) → Option K
  | [] => some 1
  | p :: ps => match pairVal ρ p, keyVal ps with
    | some a, some b => some (a * b)
    | _, _ => none

def entryVal (kc : List (Expr × Expr) × Expr) : Option K :=
  match evalK ρ kc.2, keyVal ρ kc.1 with
  | some a, some b => some (a * b)
  | _, _ => none

def t2cVal : List (List (Expr × Expr) × Expr) → Option K
  | [] => some 0
  | kc :: r => match entryVal ρ kc, t2cVal r with
    | some a, some b => some (a + b)
    | _, _ => none

theorem keyVal_cons {p : Expr × Expr} {ps : List (Expr × Expr)} {v : K}
    (h : keyVal ρ (p :: ps) = some v) :
    ∃ a b, pairVal ρ p = some a ∧ keyVal ρ ps = some b ∧ v = a * b := by
  simp only [keyVal] at h
  cases ha : pairVal ρ p with
  | none => rw [ha] at h; simp at h
  | some a =>
    cases hb : keyVal ρ ps with
    | none => rw [ha, hb] at h; simp at h
    | some b => rw [ha, hb] at h; injection h with h; exact ⟨a, b, rfl, rfl, h.symm⟩

theorem keyVal_cons_mk {p : Expr × Expr} {ps : List (Expr × Expr)} {a b : K}
    (ha : pairVal ρ p = some a) (hb : keyVal ρ ps = some b) :
    keyVal ρ (p :: ps) = some (a * b) := by
  simp only [keyVal, ha, hb]

theorem t2cVal_cons {kc : List (Expr × Expr) × Expr} {r : List (List (Expr × Expr) × Expr)} {v : K}
    (h : t2cVal ρ (kc :: r) = some v) :
    ∃ a b, entryVal ρ kc = some a ∧ t2cVal ρ r = some b ∧ v = a + b := by
  simp only [t2cVal] at h
  cases ha : entryVal ρ kc with
  | none => rw [ha] at h; simp at h
  | some a =>
    cases hb : t2cVal ρ r with
    | none => rw [ha, hb] at h; simp at h
    | some b => rw [ha, hb] at h; injection h with h; exact ⟨a, b, rfl, rfl, h.symm⟩

theorem t2cVal_cons_mk {kc : List (Expr × Expr) × Expr} {r : List (List (Expr × Expr) × Expr)}
    {a b : K} (ha : entryVal ρ kc = some a) (hb : t2cVal ρ r = some b) :
    t2cVal ρ (kc :: r) = some (a + b) := by
  simp only [t2cVal, ha, hb]

theorem entryVal_some {kc : List (Expr × Expr) × Expr} {v : K} (h : entryVal ρ kc = some v) :
    ∃ a b, evalK ρ kc.2 = some a ∧ keyVal ρ kc.1 = some b ∧ v = a * b := by
  simp only [entryVal] at h
  cases ha : evalK ρ kc.2 with
  | none => rw [ha] at h; simp at h
  | some a =>
    cases hb : keyVal ρ kc.1 with
    | none => rw [ha, hb] at h; simp at h
    | some b => rw [ha, hb] at h; injection h with h; exact ⟨a, b, rfl, rfl, h.symm⟩

theorem entryVal_mk {k : List (Expr × Expr)} {c : Expr} {a b : K} (ha : evalK ρ c = some a)
    (hb : keyVal ρ k = some b) : entryVal ρ (k, c) = some (a * b) := by
  simp only [entryVal, ha, hb]

theorem pairVal_some {p : Expr × Expr} {v : K} (h : pairVal ρ p = some v) :
    ∃ x n, evalK ρ p.1 = some x ∧ p.2 = .const (.int n) ∧ ¬ (n < 0 ∧ x = 0) ∧ v = x ^ n := by
  obtain ⟨x, n, hx, hn, hdef, rfl⟩ := powK_some h
  exact ⟨x, n, hx, expInt?_some hn, hdef, rfl⟩

theorem pairVal_mk {b : Expr} {n : Int} {x : K} (hx : evalK ρ b = some x)
    (hdef : ¬ (n < 0 ∧ x = 0)) : pairVal ρ (b, .const (.int n)) = some (x ^ n) := by
  simp only [pairVal, hx, expInt?, powK, hdef, if_false]

/-- `x^(m+n) = x^m * x^n` wherever both factors are defined -/
theorem zpow_add_def (x : K) (m n : Int) (hm : ¬ (m < 0 ∧ x = 0)) (hn : ¬ (n < 0 ∧ x = 0)) :
    x ^ (m + n) = x ^ m * x ^ n ∧ ¬ (m + n < 0 ∧ x = 0) := by
  by_cases hx : x = 0
  · have hm' : 0 ≤ m := by by_contra hc; exact hm ⟨by omega, hx⟩
    have hn' : 0 ≤ n := by by_contra hc; exact hn ⟨by omega, hx⟩
    obtain ⟨a, rfl⟩ := Int.eq_ofNat_of_zero_le hm'
    obtain ⟨b, rfl⟩ := Int.eq_ofNat_of_zero_le hn'
    refine ⟨?_, fun h => by omega⟩
    rw [← Nat.cast_add, zpow_natCast, zpow_natCast, zpow_natCast, pow_add]
  · exact ⟨zpow_add₀ hx m n, fun h => hx h.2⟩

/-! ### Python `==` is reflexive on the fragment, hence identity there -/

theorem pyEq_refl_K : ∀ (e : Expr) (k : K), evalK ρ e = some k → e.pyEq e = true := by
  intro e
  induction e using Expr.induct with
  | h e ih =>
    intro k hk
    cases e with
    | const c => obtain ⟨n, rfl, _⟩ := evalK_const ρ hk; simp [Expr.pyEq, Const.pyEq, Const.numVal?]
    | var x => simp [Expr.pyEq]
    | nary o cs =>
      simp only [Expr.pyEq, beq_self_eq_true, Bool.true_and]
      apply pyEqL_refl_of
      intro c hc
      cases o <;> simp only [evalK] at hk <;> try contradiction
      all_goals
        obtain ⟨a, ha⟩ := evalKL_mem ρ hk c hc
        exact ih c (by simp [Expr.children, hc]) a ha
    | bin o a b =>
      cases o <;> simp only [evalK] at hk <;> try contradiction
      · obtain ⟨x, y, hx, hy, _, _⟩ := divK_some hk
        simp only [Expr.pyEq, beq_self_eq_true, Bool.true_and, Bool.and_eq_true]
        exact ⟨ih a (by simp [Expr.children]) x hx, ih b (by simp [Expr.children]) y hy⟩
      · obtain ⟨x, n, hx, hn, _, _⟩ := powK_some hk
        have := expInt?_some hn; subst this
        simp only [Expr.pyEq, beq_self_eq_true, Bool.true_and, Bool.and_eq_true]
        exact ⟨ih a (by simp [Expr.children]) x hx, by simp [Const.pyEq, Const.numVal?]⟩
    | cse c p s =>
      simp only [evalK] at hk
      simp only [Expr.pyEq, beq_self_eq_true, Bool.and_true]
      exact ih c (by simp [Expr.children]) k hk
    | _ => simp [evalK] at hk

theorem pyEq_iff_eq_K {a b : Expr} {x y : K} (ha : evalK ρ a = some x) (hb : evalK ρ b = some y) :
    a.pyEq b = true ↔ a = b := by
  constructor
  · exact pyEq_eq_of_simple a b (evalK_simple ρ a x ha) (evalK_simple ρ b y hb)
  · rintro rfl; exact pyEq_refl_K ρ a x ha

/-! ### `split_term`: the dictionary base ↦ exponent -/

/-- pairwise distinct bases -/
def DistinctBases (acc : List (Expr × Expr)) : Prop := (acc.map Prod.fst).Pairwise (· ≠ ·)

theorem b2eInsert_value {b e : Expr} {x : K} (hb : pairVal ρ (b, e) = some x) :
    ∀ {acc acc' : List (Expr × Expr)} {w : K}, b2eInsert b e acc = .ok acc' →
      keyVal ρ acc = some w →
      keyVal ρ acc' = some (w * x) ∧
        (acc'.map Prod.fst = acc.map Prod.fst ∨
          (acc'.map Prod.fst = acc.map Prod.fst ++ [b] ∧ ∀ b' ∈ acc.map Prod.fst, b' ≠ b))
  | [], acc', w, h, hw => by
      simp only [b2eInsert] at h
      split at h
      · simp [throw, throwThe, MonadExceptOf.throw] at h
      · simp only [pure, Except.pure] at h
        injection h with h; subst h
        simp only [keyVal, Option.some.injEq] at hw; subst hw
        refine ⟨?_, .inr ⟨rfl, by simp⟩⟩
        rw [keyVal_cons_mk ρ hb rfl]; simp
  | (b', e') :: rest, acc', w, h, hw => by
      obtain ⟨a, r, ha, hr, rfl⟩ := keyVal_cons ρ hw
      obtain ⟨xb, n, hxb, hen, hdef, rfl⟩ := pairVal_some ρ hb
      obtain ⟨xb', n', hxb', hen', hdef', rfl⟩ := pairVal_some ρ ha
      simp only at hxb hen hxb' hen'
      subst hen; subst hen'
      simp only [b2eInsert] at h
      split at h
      · simp [throw, throwThe, MonadExceptOf.throw] at h
      · split at h
        · rename_i heq
          have heq' : b' = b := (pyEq_iff_eq_K ρ hxb' hxb).1 heq
          subst heq'
          rw [hxb] at hxb'; injection hxb' with hxb'; subst hxb'
          obtain ⟨s, hs, h⟩ := bind_ok h
          simp only [pure, Except.pure] at h
          injection h with h; subst h
          simp only [pyAdd, constArith, Const.toValue?, Value.add_int, Value.toExpr?, pure,
            Except.pure] at hs
          injection hs with hs; subst hs
          obtain ⟨hadd, hdef''⟩ := zpow_add_def xb n' n hdef' hdef
          refine ⟨?_, .inl (by simp)⟩
          rw [keyVal_cons_mk ρ (pairVal_mk ρ hxb hdef'') hr, hadd]
          simp only [Option.some.injEq]; ring
        · rename_i hne
          obtain ⟨rest', hrest, h⟩ := bind_ok h
          simp only [pure, Except.pure] at h
          injection h with h; subst h
          obtain ⟨hv, hbases⟩ := b2eInsert_value hb hrest hr
          have hb'ne : b' ≠ b := fun hh => hne ((pyEq_iff_eq_K ρ hxb' hxb).2 hh)
          refine ⟨?_, ?_⟩
          · rw [keyVal_cons_mk ρ ha hv]; simp only [Option.some.injEq]; ring
          · rcases hbases with hs | ⟨hs, hall⟩
            · exact .inl (by simp [hs])
            · refine .inr ⟨by simp [hs], ?_⟩
              intro c hc
              simp only [List.map_cons, List.mem_cons] at hc
              rcases hc with rfl | hc
              · exact hb'ne
              · exact hall c hc

theorem termPair_val {f : Expr} {x : K} (hf : evalK ρ f = some x) :
    pairVal ρ (termBase f, termExp f) = some x := by
  unfold termBase termExp
  split
  · rename_i b e
    simpa only [pairVal, evalK] using hf
  · simp only [pairVal, hf, one, expInt?, powK]
    simp

theorem b2eBuild_value : ∀ {fs : List Expr} {acc acc' : List (Expr × Expr)} {v w : K},
    b2eBuild fs acc = .ok acc' → evalKL ρ true fs = some v → keyVal ρ acc = some w →
    DistinctBases acc → keyVal ρ acc' = some (w * v) ∧ DistinctBases acc'
  | [], acc, acc', v, w, h, hv, hw, hd => by
      simp only [b2eBuild, pure, Except.pure] at h
      injection h with h; subst h
      simp only [evalKL, unitK_true, Option.some.injEq] at hv; subst hv
      exact ⟨by simpa using hw, hd⟩
  | f :: fs, acc, acc', v, w, h, hv, hw, hd => by
      obtain ⟨x, y, hx, hy, rfl⟩ := evalKL_cons ρ hv
      simp only [b2eBuild] at h
      obtain ⟨acc1, h1, h⟩ := bind_ok h
      obtain ⟨hv1, hb1⟩ := b2eInsert_value ρ (termPair_val ρ hx) h1 hw
      have hd1 : DistinctBases acc1 := by
        unfold DistinctBases at hd ⊢
        rcases hb1 with hs | ⟨hs, hall⟩
        · rw [hs]; exact hd
        · rw [hs, List.pairwise_append]
          exact ⟨hd, List.pairwise_singleton _ _, fun a ha c hc => by
            simp only [List.mem_singleton] at hc; subst hc; exact hall a ha⟩
      obtain ⟨hv2, hd2⟩ := b2eBuild_value h hy hv1 hd1
      refine ⟨?_, hd2⟩
      rw [hv2]; simp only [opK_true, Option.some.injEq]; ring

theorem splitFactors_value {t : Expr} {fs : List Expr} {v : K} (h : splitFactors t = .ok fs)
    (hv : evalK ρ t = some v) : evalKL ρ true fs = some v := by
  unfold splitFactors at h
  split at h
  · simp only [pure, Except.pure] at h; injection h with h; subst h
    rwa [evalK_prod] at hv
  · simp only [pure, Except.pure] at h; injection h with h; subst h
    exact evalKL_singleton ρ hv
  · split at h
    · simp only [pure, Except.pure] at h; injection h with h; subst h
      exact evalKL_singleton ρ hv
    · obtain ⟨d, _, h⟩ := bind_ok h
      split at h
      · simp only [pure, Except.pure] at h; injection h with h; subst h
        exact evalKL_singleton ρ hv
      · simp [throw, throwThe, MonadExceptOf.throw] at h

theorem b2eSplit_value (params : List Expr) :
    ∀ {b2e cleaned : List (Expr × Expr)} {coeffs : List Expr} {w : K},
      b2eSplit params b2e = .ok (coeffs, cleaned) → keyVal ρ b2e = some w →
      ∃ a c, evalKL ρ true coeffs = some a ∧ keyVal ρ cleaned = some c ∧ w = a * c ∧
        cleaned.Sublist b2e
  | [], cleaned, coeffs, w, h, hw => by
      simp only [b2eSplit, pure, Except.pure] at h
      injection h with h; injection h with h1 h2; subst h1; subst h2
      simp only [keyVal, Option.some.injEq] at hw; subst hw
      exact ⟨1, 1, rfl, rfl, by simp, List.Sublist.refl _⟩
  | (b, e) :: rest, cleaned, coeffs, w, h, hw => by
      obtain ⟨x, r, hx, hr, rfl⟩ := keyVal_cons ρ hw
      obtain ⟨xb, n, hxb, hen, hdef, rfl⟩ := pairVal_some ρ hx
      simp only at hxb hen; subst hen
      simp only [b2eSplit] at h
      obtain ⟨term, hterm, h⟩ := bind_ok h
      obtain ⟨d, _, h⟩ := bind_ok h
      obtain ⟨⟨cs, cl⟩, hrec, h⟩ := bind_ok h
      obtain ⟨a, c, ha, hc, rfl, hsub⟩ := b2eSplit_value params hrec hr
      have hterm' := pyPow_value ρ hterm hxb hdef
      split at h
      · simp only [pure, Except.pure] at h
        injection h with h; injection h with h1 h2; subst h1; subst h2
        refine ⟨xb ^ n * a, c, evalKL_cons_mk ρ hterm' ha, hc, by ring, hsub.cons _⟩
      · simp only [pure, Except.pure] at h
        injection h with h; injection h with h1 h2; subst h1; subst h2
        refine ⟨a, xb ^ n * c, ha, keyVal_cons_mk ρ hx hc, by ring, hsub.cons_cons _⟩

theorem splitTerm_value {rec : Expr → RwR} (hrec : Preserves ρ rec) (params : List Expr)
    {t coeff : Expr} {cleaned : List (Expr × Expr)} {v : K}
    (h : splitTerm rec params t = .ok (cleaned, coeff)) (hv : evalK ρ t = some v) :
    entryVal ρ (cleaned, coeff) = some v ∧ DistinctBases cleaned := by
  unfold splitTerm at h
  obtain ⟨fs, hfs, h⟩ := bind_ok h
  obtain ⟨b2e, hb2e, h⟩ := bind_ok h
  obtain ⟨⟨coeffs, cl⟩, hsp, h⟩ := bind_ok h
  obtain ⟨hk, hd⟩ := b2eBuild_value ρ hb2e (splitFactors_value ρ hfs hv) (w := 1) rfl
    (by simp [DistinctBases])
  rw [one_mul] at hk
  obtain ⟨a, c, ha, hc, rfl, hsub⟩ := b2eSplit_value ρ params hsp hk
  simp only at h
  split at h
  · simp [throw, throwThe, MonadExceptOf.throw] at h
  · obtain ⟨cf, hcf, h⟩ := bind_ok h
    cases hco : rec cf with
    | error err => rw [hco] at h; simp [Functor.map, Except.map, bind, Except.bind] at h
    | ok co =>
      rw [hco] at h
      simp only [Functor.map, Except.map, bind, Except.bind, pure, Except.pure] at h
      injection h with h; injection h with h1 h2; subst h1; subst h2
      refine ⟨entryVal_mk ρ (hrec _ _ _ hco (flatProd_value ρ hcf ha)) hc, ?_⟩
      exact List.Pairwise.sublist (hsub.map Prod.fst) hd

/-! ### frozenset equality of keys -/

theorem keyVal_perm {k₁ k₂ : List (Expr × Expr)} (h : k₁.Perm k₂) :
    keyVal ρ k₁ = keyVal ρ k₂ := by
  induction h with
  | nil => rfl
  | cons p _ ih => simp only [keyVal, ih]
  | swap p q l =>
    simp only [keyVal]
    cases pairVal ρ p <;> cases pairVal ρ q <;> cases keyVal ρ l <;> simp
    ring
  | trans _ _ ih₁ ih₂ => exact ih₁.trans ih₂

theorem keyVal_mem {k : List (Expr × Expr)} {w : K} (h : keyVal ρ k = some w) :
    ∀ p ∈ k, ∃ a, pairVal ρ p = some a := by
  induction k generalizing w with
  | nil => intro p hp; simp at hp
  | cons q qs ih =>
    intro p hp
    obtain ⟨a, b, ha, hb, _⟩ := keyVal_cons ρ h
    simp only [List.mem_cons] at hp
    rcases hp with rfl | hp
    · exact ⟨a, ha⟩
    · exact ih hb p hp

/-- the set comparison of two keys is sound: equal as sets ⇒ the same value -/
theorem keyEqSet_sound {k₁ k₂ : List (Expr × Expr)} {w₁ w₂ : K} (h : keyEqSet k₁ k₂ = true)
    (h₁ : keyVal ρ k₁ = some w₁) (h₂ : keyVal ρ k₂ = some w₂) (hd : DistinctBases k₁) :
    w₁ = w₂ := by
  simp only [keyEqSet, Bool.and_eq_true, beq_iff_eq, List.all_eq_true, List.any_eq_true] at h
  obtain ⟨hlen, hall⟩ := h
  have hsub : k₁ ⊆ k₂ := by
    intro p hp
    obtain ⟨q, hq, hpq⟩ := hall p hp
    obtain ⟨a, ha⟩ := keyVal_mem ρ h₁ p hp
    obtain ⟨b, hb⟩ := keyVal_mem ρ h₂ q hq
    obtain ⟨x, n, hx, hn, _, _⟩ := pairVal_some ρ ha
    obtain ⟨y, m, hy, hm, _, _⟩ := pairVal_some ρ hb
    have e1 : p.1 = q.1 := (pyEq_iff_eq_K ρ hx hy).1 hpq.1
    have e2 : p.2 = q.2 := by
      have := hpq.2
      rw [hn, hm] at this ⊢
      simp only [Expr.pyEq, Const.pyEq, Const.numVal?, Int.natCast_one, mul_one, beq_iff_eq]
        at this
      rw [this]
    have : p = q := Prod.ext e1 e2
    rw [this]; exact hq
  have hnd : k₁.Nodup := by
    unfold DistinctBases at hd
    exact (List.Pairwise.of_map Prod.fst (fun a b hab hh => hab (by rw [hh])) hd)
  have hperm : k₁.Perm k₂ :=
    (List.subperm_of_subset hnd hsub).perm_of_length_le (by omega)
  rw [keyVal_perm ρ hperm, h₂] at h₁
  injection h₁ with h₁; exact h₁.symm

/-! ### `map_sum`: the dictionary term ↦ coefficient -/

def KeysOK (acc : List (List (Expr × Expr) × Expr)) : Prop := ∀ kc ∈ acc, DistinctBases kc.1

theorem t2cInsert_value {k : List (Expr × Expr)} {c : Expr} {x : K}
    (hx : entryVal ρ (k, c) = some x) (hk : DistinctBases k) :
    ∀ {acc acc' : List (List (Expr × Expr) × Expr)} {w : K}, t2cInsert k c acc = .ok acc' →
      t2cVal ρ acc = some w → KeysOK acc → t2cVal ρ acc' = some (w + x) ∧ KeysOK acc'
  | [], acc', w, h, hw, _ => by
      obtain ⟨a, b, ha, hb, rfl⟩ := entryVal_some ρ hx
      simp only [t2cInsert] at h
      obtain ⟨s, hs, h⟩ := bind_ok h
      simp only [pure, Except.pure] at h
      injection h with h; subst h
      simp only [t2cVal, Option.some.injEq] at hw; subst hw
      have hs' := pyAdd_value ρ hs (evalK_zero ρ) ha
      refine ⟨?_, ?_⟩
      · rw [t2cVal_cons_mk ρ (entryVal_mk ρ hs' hb) rfl]; simp
      · intro kc hkc; simp only [List.mem_singleton] at hkc; subst hkc; exact hk
  | (k', c') :: rest, acc', w, h, hw, hok => by
      obtain ⟨a, b, ha, hb, rfl⟩ := entryVal_some ρ hx
      obtain ⟨y, r, hy, hr, rfl⟩ := t2cVal_cons ρ hw
      obtain ⟨a', b', ha', hb', rfl⟩ := entryVal_some ρ hy
      simp only at ha hb ha' hb'
      simp only [t2cInsert] at h
      split at h
      · rename_i heq
        obtain ⟨s, hs, h⟩ := bind_ok h
        simp only [pure, Except.pure] at h
        injection h with h; subst h
        have hbb : b' = b := keyEqSet_sound ρ heq hb' hb (hok (k', c') (by simp))
        subst hbb
        have hs' := pyAdd_value ρ hs ha' ha
        refine ⟨?_, ?_⟩
        · rw [t2cVal_cons_mk ρ (entryVal_mk ρ hs' hb') hr]
          simp only [Option.some.injEq]; ring
        · intro kc hkc
          simp only [List.mem_cons] at hkc
          rcases hkc with rfl | hkc
          · exact hok (k', c') (by simp)
          · exact hok kc (by simp [hkc])
      · obtain ⟨rest', hrest, h⟩ := bind_ok h
        simp only [pure, Except.pure] at h
        injection h with h; subst h
        obtain ⟨hv, hok'⟩ := t2cInsert_value hx hk hrest hr
          (fun kc hkc => hok kc (by simp [hkc]))
        refine ⟨?_, ?_⟩
        · rw [t2cVal_cons_mk ρ hy hv]; simp only [Option.some.injEq]; ring
        · intro kc hkc
          simp only [List.mem_cons] at hkc
          rcases hkc with rfl | hkc
          · exact hok (k', c') (by simp)
          · exact hok' kc hkc

theorem collectSumLoop_value {rec : Expr → RwR} (hrec : Preserves ρ rec) (params : List Expr) :
    ∀ {cs : List Expr} {acc acc' : List (List (Expr × Expr) × Expr)} {v w : K},
      collectSumLoop rec params cs acc = .ok acc' → evalKL ρ false cs = some v →
      t2cVal ρ acc = some w → KeysOK acc → t2cVal ρ acc' = some (w + v)
  | [], acc, acc', v, w, h, hv, hw, _ => by
      simp only [collectSumLoop, pure, Except.pure] at h
      injection h with h; subst h
      simp only [evalKL, unitK_false, Option.some.injEq] at hv; subst hv
      simpa using hw
  | c :: cs, acc, acc', v, w, h, hv, hw, hok => by
      obtain ⟨x, y, hx, hy, rfl⟩ := evalKL_cons ρ hv
      simp only [collectSumLoop] at h
      obtain ⟨⟨k, coeff⟩, hsp, h⟩ := bind_ok h
      obtain ⟨acc1, hins, h⟩ := bind_ok h
      obtain ⟨hent, hdb⟩ := splitTerm_value ρ hrec params hsp hx
      obtain ⟨hv1, hok1⟩ := t2cInsert_value ρ hent hdb hins hw hok
      rw [collectSumLoop_value hrec params h hy hv1 hok1]
      simp only [opK_false, Option.some.injEq]; ring

theorem pow_pairs_value : ∀ {rep : List (Expr × Expr)} {fs : List Expr} {b : K},
    List.Forall₂ (fun (p : Expr × Expr) t => pyPow p.1 p.2 = .ok t) rep fs →
    keyVal ρ rep = some b → evalKL ρ true fs = some b
  | _, _, _, .nil, h => by
      simp only [keyVal, Option.some.injEq] at h; subst h; rfl
  | _, _, _, .cons hp hps, h => by
      obtain ⟨a, r, ha, hr, rfl⟩ := keyVal_cons ρ h
      obtain ⟨x, n, hx, hn, hdef, rfl⟩ := pairVal_some ρ ha
      rw [hn] at hp
      rw [evalKL_cons_mk ρ (pyPow_value ρ hp hx hdef) (pow_pairs_value hps hr)]
      simp

theorem rep2term_value {rep : List (Expr × Expr)} {t : Expr} {b : K} (h : rep2term rep = .ok t)
    (hb : keyVal ρ rep = some b) : evalK ρ t = some b := by
  unfold rep2term at h
  obtain ⟨fs, hfs, h⟩ := bind_ok h
  exact flatProd_value ρ h (pow_pairs_value ρ (mapM_ok' hfs) hb)

theorem collect_terms_value : ∀ {t2c : List (List (Expr × Expr) × Expr)} {terms : List Expr}
    {v : K},
    List.Forall₂ (fun (kc : List (Expr × Expr) × Expr) t =>
      (do let t ← rep2term kc.1; pyMul kc.2 t) = Except.ok t) t2c terms →
    t2cVal ρ t2c = some v → evalKL ρ false terms = some v
  | _, _, _, .nil, h => by
      simp only [t2cVal, Option.some.injEq] at h; subst h; rfl
  | _, _, _, .cons hp hps, h => by
      obtain ⟨y, r, hy, hr, rfl⟩ := t2cVal_cons ρ h
      obtain ⟨a, b, ha, hb, rfl⟩ := entryVal_some ρ hy
      obtain ⟨t, ht, hp⟩ := bind_ok hp
      rw [evalKL_cons_mk ρ (pyMul_value ρ hp ha (rep2term_value ρ ht hb))
        (collect_terms_value hps hr)]
      simp

theorem collectM_const (params : List Expr) : ∀ (fuel : Nat) (c : Const) (r : Expr),
    collectM params fuel (.const c) = .ok r → r = .const c
  | 0, _, _, h => by simp [collectM, throw, throwThe, MonadExceptOf.throw] at h
  | fuel + 1, c, r, h => by
      cases c <;> simp only [collectM, idMap, pure, Except.pure, throw, throwThe,
        MonadExceptOf.throw] at h <;> first | contradiction | (injection h with h; exact h.symm)

/-- **Term collection preserves the value** (for every set of `parameters`). -/
theorem collectM_value (params : List Expr) : ∀ fuel, Preserves ρ (collectM params fuel)
  | 0, _, _, _, h, _ => by simp [collectM, throw, throwThe, MonadExceptOf.throw] at h
  | fuel + 1, e, e', v, h, hv => by
      have ih := collectM_value params fuel
      have hc := collectM_const params fuel
      cases e with
      | nary o cs =>
        cases o with
        | sum =>
          simp only [collectM] at h
          obtain ⟨t2c, hl, h⟩ := bind_ok h
          obtain ⟨terms, hterms, h⟩ := bind_ok h
          simp only [pure, Except.pure] at h
          injection h with h; subst h
          rw [evalK_sum] at hv
          have h1 := collectSumLoop_value ρ ih params hl hv (w := 0) rfl
            (by intro kc hkc; simp at hkc)
          rw [zero_add] at h1
          exact flattenedSum_value ρ (collect_terms_value ρ (mapM_ok' hterms) h1)
        | _ =>
          simp only [collectM] at h
          exact idMap_value ρ hc ih h hv
      | _ =>
        simp only [collectM] at h
        exact idMap_value ρ hc ih h hv

/-- **`expand` / `distribute` preserve the value** (any `parameters`, commutative or not). -/
theorem distM_value (cfg : DistCfg) : ∀ fuel, Preserves ρ (distM cfg fuel) :=
  distM_value_of_collect ρ cfg (fun fuel params _ => collectM_value ρ params fuel)

end

end PV
