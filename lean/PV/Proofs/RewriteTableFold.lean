import PV.Proofs.RewriteTableBase
set_option linter.unusedSimpArgs false
set_option linter.unusedVariables false
/-
  C11 (T-gen), part 3: the constant folders.  `ConstantFoldingMapperBase.fold` of the table,
  interpreted — the `while queue:` loop with its three-way classification, `reduce`, the
  constructor call — is `foldLoop` + `foldFinish`; `is_constant`, `evaluate` are the two halves of
  `classify`; the CSE mix-in hands over to the inherited row.
-/
namespace PV
open PV.Generated (c04Classes c04IdentityTable)
open PV.C11Expected

theorem c11_is_constant (ctx : C11Ctx) (fuel : Nat) (child : Expr) :
    c11RunFn ctx fuel c11_ConstantFoldingMapperBase_is_constant [.expr child] =
      (match depsR child with
       | .ok d => .ok (.bool d.isEmpty)
       | .error e => .error (.py e)) := by
  simp [c11RunFn, c11_ConstantFoldingMapperBase_is_constant, c11RunBody, c11Frame, c11ExecL, c11Exec,
    c11Eval, c11EvalL, c11Get, c11Apply]
  cases h : depsR child with
  | error e => simp [c11Lift, bind, Except.bind, c11OutToR, throw, throwThe, MonadExceptOf.throw]
  | ok d =>
    simp [c11Lift, bind, Except.bind, c11OutToR, c11Truthy, pure, Except.pure, Functor.map, Except.map]

theorem c11_evaluate (ctx : C11Ctx) (fuel : Nat) (child : Expr) :
    c11RunFn ctx fuel c11_ConstantFoldingMapperBase_evaluate [.expr child] =
      (match c11Evaluate child with
       | .ok v => .ok v
       | .error e => if e.isInstance .valueError then .ok .none else .error e) := by
  simp [c11RunFn, c11_ConstantFoldingMapperBase_evaluate, c11RunBody, c11Frame, c11ExecL, c11Exec,
    c11Eval, c11EvalL, c11Get, c11Apply]
  cases h : c11Evaluate child with
  | error e =>
    cases h2 : e.isInstance .valueError <;>
    simp [bind, Except.bind, c11OutToR, throw, throwThe, MonadExceptOf.throw, h2, pure, Except.pure]
  | ok d =>
    simp [c11Lift, bind, Except.bind, c11OutToR, c11Truthy, pure, Except.pure]
/-- the frame of `fold` at the head of its loop -/
def c11FoldEnv (e : Expr) (klass op ctor : C11Val) (c : List Value) (n q : List Expr)
    (t child value constant : C11Val) : C11Env :=
  [("expr", .expr e), ("klass", klass), ("op", op), ("constructor", ctor),
   ("constants", .list (c.map .num)), ("nonconstants", .list (n.map .expr)),
   ("queue", .list (q.map .expr)), ("queue.pop(0)", t), ("child", child), ("value", value),
   ("constant", constant)]

def c11FoldKlassG (isProd : Bool) : C11Glob := if isProd then .clsProduct else .clsSum

def c11FoldKlass (isProd : Bool) : C11Val := .glob (c11FoldKlassG isProd)

/-- what `self.is_constant` / `self.evaluate` do, as hypotheses on the context -/
structure C11FoldCtx (ctx : C11Ctx) : Prop where
  isConst : ∀ child, ctx.callSelf "is_constant" [.expr child] =
    (match depsR child with
     | .ok d => .ok (.bool d.isEmpty)
     | .error e => .error (.py e))
  eval : ∀ child, ctx.callSelf "evaluate" [.expr child] =
    (match c11Evaluate child with
     | .ok v => .ok v
     | .error e => if e.isInstance .valueError then .ok .none else .error e)

def c11FoldWhileBody : List C11Stmt := [
        .popFront "queue.pop(0)" "queue",
        .assign "child" (.selfCall "rec" [(.var "queue.pop(0)")]),
        .ifThen (.call (.glob .pyIsinstance) [(.var "child"), (.var "klass")]) [
          .assign "queue" (.bin .add (.call (.glob .pyList) [(.attr (.var "child") "children")]) (.var "queue"))]
          [
          .ifThen (.selfCall "is_constant" [(.var "child")]) [
            .assign "value" (.selfCall "evaluate" [(.var "child")]),
            .ifThen (.cmp .is (.var "value") .pyNone) [
              .append "nonconstants" (.var "child")]
              [
              .append "constants" (.var "value")]]
            [
            .append "nonconstants" (.var "child")]]]

def Expr.naryChildren : Expr → List Expr
  | .nary _ cs => cs
  | _ => []

def c11IsKlass (isProd : Bool) (ch : Expr) : Bool := if isProd then isProdE ch else isSum ch

theorem c11_foldLoop_step (rec : Expr → RwR) (isProd : Bool) (n : Nat) (item : Expr)
    (queue : List Expr) (c : List Value) (non : List Expr) (ch : Expr) (hr : rec item = .ok ch) :
    foldLoop rec isProd (n + 1) (item :: queue) c non =
      (if c11IsKlass isProd ch then foldLoop rec isProd n (ch.naryChildren ++ queue) c non
       else match classify ch with
        | .error err => .error err
        | .ok (.constant v) => foldLoop rec isProd n queue (c ++ [v]) non
        | .ok .nonconstant => foldLoop rec isProd n queue c (non ++ [ch])) := by
  simp only [foldLoop, bind, Except.bind, hr]
  cases isProd <;> cases ch <;> (try rename_i o cs; cases o) <;>
    simp [c11IsKlass, isSum, isProdE, Expr.naryChildren] <;>
    (cases classify _ <;> (try rfl) <;> rename_i v <;> cases v <;> rfl)

theorem c11_isinst_klass (isProd : Bool) (ch : Expr) :
    c11IsInstance (.expr ch) (.glob (c11FoldKlassG isProd)) = .ok (c11IsKlass isProd ch) := by
  cases isProd <;> rfl

theorem c11_klass_children (isProd : Bool) (ch : Expr) (h : c11IsKlass isProd ch = true) :
    c11Attr (.expr ch) "children" = .ok (.list (ch.naryChildren.map .expr)) := by
  cases isProd <;> cases ch <;> (try rename_i o cs; cases o) <;>
    simp [c11IsKlass, isSum, isProdE] at h <;> rfl

def c11FoldCond (ctx : C11Ctx) (env : C11Env) : C11R Bool := do
  c11Truthy (← c11Eval ctx env (.var "queue"))

def c11FoldBody (ctx : C11Ctx) (F : Nat) (env : C11Env) : C11Out :=
  c11ExecL ctx F c11FoldWhileBody env

theorem c11_fold_loop (ctx : C11Ctx) (hctx : C11FoldCtx ctx) (F : Nat) (isProd : Bool) (e : Expr)
    (op ctor constant : C11Val) :
    ∀ (n : Nat) (q : List Expr) (c : List Value) (non : List Expr) (t child value : C11Val),
      match foldLoop ctx.recur isProd n q c non with
      | .ok (c', n') => ∃ t' ch' v',
          c11While (c11FoldCond ctx) (c11FoldBody ctx F) n
            (c11FoldEnv e (c11FoldKlass isProd) op ctor c non q t child value constant)
          = .fell (c11FoldEnv e (c11FoldKlass isProd) op ctor c' n' [] t' ch' v' constant)
      | .error err =>
          c11While (c11FoldCond ctx) (c11FoldBody ctx F) n
            (c11FoldEnv e (c11FoldKlass isProd) op ctor c non q t child value constant)
          = .fail (.py err)
  | 0, q, c, non, t, child, value => by
    simp [foldLoop, c11While, throw, throwThe, MonadExceptOf.throw]
  | n + 1, [], c, non, t, child, value => by
    simp [foldLoop, c11While, c11FoldCond, c11Eval, c11FoldEnv, c11Get, c11Truthy, pure, Except.pure,
      bind, Except.bind]
  | n + 1, item :: queue, c, non, t, child, value => by
    have ih := c11_fold_loop ctx hctx F isProd e op ctor constant n
    cases hr : ctx.recur item with
    | error err =>
      simp [foldLoop, bind, Except.bind, hr, c11While, c11FoldCond, c11FoldBody, c11Eval, c11FoldEnv,
        c11Get, c11Truthy, c11ExecL,
        c11Exec, c11FoldWhileBody, c11Set, c11EvalL, c11Lift, pure, Except.pure, Functor.map,
        Except.map]
    | ok ch =>
      rw [c11_foldLoop_step ctx.recur isProd n item queue c non ch hr]
      cases hk : c11IsKlass isProd ch with
      | true =>
        have := ih (ch.naryChildren ++ queue) c non (.expr item) (.expr ch) value
        simp [bind, Except.bind, hr, c11While, c11FoldCond, c11FoldBody, c11Eval, c11FoldEnv, c11Get,
          c11Truthy, c11ExecL,
          c11Exec, c11FoldWhileBody, c11Set, c11EvalL, c11Lift, pure, Except.pure, Functor.map,
          Except.map, c11Apply, c11_isinst_klass, hk, c11_klass_children isProd ch hk, c11Items,
          c11Bin, c11FoldKlass] at this ⊢
        exact this
      | false =>
        cases hd : depsR ch with
        | error err =>
          simp [bind, Except.bind, hr, c11While, c11FoldCond, c11FoldBody, c11Eval, c11FoldEnv, c11Get,
            c11Truthy, c11ExecL, c11Exec, c11FoldWhileBody, c11Set, c11EvalL, c11Lift, pure,
            Except.pure, Functor.map, Except.map, c11Apply, c11_isinst_klass, hk, c11Items, c11Bin,
            c11FoldKlass, hctx.isConst, hd, classify]
        | ok d =>
          cases hde : d.isEmpty with
          | false =>
            have := ih queue c (non ++ [ch]) (.expr item) (.expr ch) value
            simp [bind, Except.bind, hr, c11While, c11FoldCond, c11FoldBody, c11Eval, c11FoldEnv,
              c11Get, c11Truthy, c11ExecL, c11Exec, c11FoldWhileBody, c11Set, c11EvalL, c11Lift, pure,
              Except.pure, Functor.map, Except.map, c11Apply, c11_isinst_klass, hk, c11Items, c11Bin,
              c11FoldKlass, hctx.isConst, hd, hde, classify] at this ⊢
            exact this
          | true =>
            have ih1 := fun v => ih queue (c ++ [v]) non (.expr item) (.expr ch) (.num v)
            have ih2 := ih queue c (non ++ [ch]) (.expr item) (.expr ch) .none
            cases hev : (evalG true [] ch {}).1 with
            | ok v =>
              cases v <;>
              first
              | (simp [bind, Except.bind, hr, c11While, c11FoldCond, c11FoldBody, c11Eval, c11FoldEnv, c11Get,
          c11Truthy, c11ExecL, c11Exec, c11FoldWhileBody, c11Set, c11EvalL, c11Lift, pure, Except.pure,
          Functor.map, Except.map, c11Apply, c11_isinst_klass, hk, c11Items, c11Bin, c11FoldKlass,
          hctx.isConst, hctx.eval, hd, hde, classify, c11Evaluate, hev, throw, throwThe,
          MonadExceptOf.throw, C11Err.isInstance, c11Cmp]
                 done)
              | (rename_i k
                 have := ih1 (.int k)
                 simp [bind, Except.bind, hr, c11While, c11FoldCond, c11FoldBody, c11Eval, c11FoldEnv, c11Get,
          c11Truthy, c11ExecL, c11Exec, c11FoldWhileBody, c11Set, c11EvalL, c11Lift, pure, Except.pure,
          Functor.map, Except.map, c11Apply, c11_isinst_klass, hk, c11Items, c11Bin, c11FoldKlass,
          hctx.isConst, hctx.eval, hd, hde, classify, c11Evaluate, hev, throw, throwThe,
          MonadExceptOf.throw, C11Err.isInstance, c11Cmp] at this ⊢
                 exact this)
              | (rename_i k
                 have := ih1 (.bool k)
                 simp [bind, Except.bind, hr, c11While, c11FoldCond, c11FoldBody, c11Eval, c11FoldEnv, c11Get,
          c11Truthy, c11ExecL, c11Exec, c11FoldWhileBody, c11Set, c11EvalL, c11Lift, pure, Except.pure,
          Functor.map, Except.map, c11Apply, c11_isinst_klass, hk, c11Items, c11Bin, c11FoldKlass,
          hctx.isConst, hctx.eval, hd, hde, classify, c11Evaluate, hev, throw, throwThe,
          MonadExceptOf.throw, C11Err.isInstance, c11Cmp] at this ⊢
                 exact this)
            | error er =>
              cases er <;>
              first
              | (simp [bind, Except.bind, hr, c11While, c11FoldCond, c11FoldBody, c11Eval, c11FoldEnv, c11Get,
          c11Truthy, c11ExecL, c11Exec, c11FoldWhileBody, c11Set, c11EvalL, c11Lift, pure, Except.pure,
          Functor.map, Except.map, c11Apply, c11_isinst_klass, hk, c11Items, c11Bin, c11FoldKlass,
          hctx.isConst, hctx.eval, hd, hde, classify, c11Evaluate, hev, throw, throwThe,
          MonadExceptOf.throw, C11Err.isInstance, c11Cmp]
                 done)
              | (simp [bind, Except.bind, hr, c11While, c11FoldCond, c11FoldBody, c11Eval, c11FoldEnv, c11Get,
          c11Truthy, c11ExecL, c11Exec, c11FoldWhileBody, c11Set, c11EvalL, c11Lift, pure, Except.pure,
          Functor.map, Except.map, c11Apply, c11_isinst_klass, hk, c11Items, c11Bin, c11FoldKlass,
          hctx.isConst, hctx.eval, hd, hde, classify, c11Evaluate, hev, throw, throwThe,
          MonadExceptOf.throw, C11Err.isInstance, c11Cmp] at ih2 ⊢
                 exact ih2)

def c11FoldOp (isProd : Bool) : C11Glob := if isProd then .opMul else .opAdd
def c11FoldCtor (isProd : Bool) : C11Glob := if isProd then .flattenedProduct else .flattenedSum

def c11FoldTail : List C11Stmt := [
      .ifThen (.var "constants") [
        .assign "constant" (.call (.glob .reduce) [(.var "op"), (.var "constants")]),
        .ret (.call (.var "constructor") [(.seq [(.var "constant"), (.star (.var "nonconstants"))])])]
        [
        .ret (.call (.var "constructor") [(.call (.glob .pyTuple) [(.var "nonconstants")])])]]

theorem c11AsNums_nums (c : List Value) : c11AsNums (c.map .num) = some c := by
  induction c with
  | nil => rfl
  | cons v c ih => simp [c11AsNums, ih]

theorem c11AsExprs_cons_num (v : Value) (rs : List Expr) :
    c11AsExprs (.list (.num v :: rs.map .expr)) =
      (match v.toExpr? with
       | some k => .ok (k :: rs)
       | none => .error (.py .noClaim)) := by
  have h := c11AsExprs_exprs rs
  simp only [c11AsExprs, c11Items, pure, Except.pure, bind, Except.bind, List.mapM_cons,
    c11AsExpr] at h ⊢
  cases hv : v.toExpr? with
  | none => simp [throw, throwThe, MonadExceptOf.throw]
  | some k => simp [h, pure, Except.pure]

theorem c11_fold_finish (ctx : C11Ctx) (F : Nat) (isProd : Bool) (e : Expr) (c : List Value)
    (non : List Expr) (t ch v constant : C11Val) :
    c11ToRw (c11OutToR (c11ExecL ctx F c11FoldTail
      (c11FoldEnv e (c11FoldKlass isProd) (.glob (c11FoldOp isProd)) (.glob (c11FoldCtor isProd))
        c non [] t ch v constant))) = foldFinish isProd c non := by
  cases c with
  | nil =>
    cases isProd
    · simp [c11FoldTail, c11ExecL, c11Exec, c11Eval, c11EvalL, c11FoldEnv, c11Get, c11Truthy, pure,
        Except.pure, bind, Except.bind, c11Apply, c11Items, c11FoldCtor, c11FoldOp, c11AsExprs_exprs,
        c11OutToR, c11ToRw, foldFinish, c11Lift]
    · cases h : flatProd non <;>
      simp [c11FoldTail, c11ExecL, c11Exec, c11Eval, c11EvalL, c11FoldEnv, c11Get, c11Truthy, pure,
        Except.pure, bind, Except.bind, c11Apply, c11Items, c11FoldCtor, c11FoldOp, c11AsExprs_exprs,
        c11OutToR, c11ToRw, foldFinish, c11Lift, h, throw, throwThe, MonadExceptOf.throw]
  | cons k ks =>
    cases isProd
    · cases h : reduceConsts false k ks with
      | error er =>
        simp [c11FoldTail, c11ExecL, c11Exec, c11Eval, c11EvalL, c11FoldEnv, c11Get, c11Truthy, pure,
          Except.pure, bind, Except.bind, c11Apply, c11Items, c11FoldCtor, c11FoldOp,
          c11OutToR, c11ToRw, foldFinish, c11Lift, c11Set, c11AsNums_nums, c11AsNums, h, throw,
          throwThe, MonadExceptOf.throw]
      | ok w =>
        cases h2 : w.toExpr? <;>
        simp [c11FoldTail, c11ExecL, c11Exec, c11Eval, c11EvalL, c11FoldEnv, c11Get, c11Truthy, pure,
          Except.pure, bind, Except.bind, c11Apply, c11Items, c11FoldCtor, c11FoldOp,
          c11OutToR, c11ToRw, foldFinish, c11Lift, c11Set, c11AsNums_nums, c11AsNums, h, throw,
          throwThe, MonadExceptOf.throw, c11AsExprs_cons_num, h2]
    · cases h : reduceConsts true k ks with
      | error er =>
        simp [c11FoldTail, c11ExecL, c11Exec, c11Eval, c11EvalL, c11FoldEnv, c11Get, c11Truthy, pure,
          Except.pure, bind, Except.bind, c11Apply, c11Items, c11FoldCtor, c11FoldOp,
          c11OutToR, c11ToRw, foldFinish, c11Lift, c11Set, c11AsNums_nums, c11AsNums, h, throw,
          throwThe, MonadExceptOf.throw]
      | ok w =>
        cases h2 : w.toExpr? with
        | none =>
          simp [c11FoldTail, c11ExecL, c11Exec, c11Eval, c11EvalL, c11FoldEnv, c11Get, c11Truthy, pure,
            Except.pure, bind, Except.bind, c11Apply, c11Items, c11FoldCtor, c11FoldOp,
            c11OutToR, c11ToRw, foldFinish, c11Lift, c11Set, c11AsNums_nums, c11AsNums, h, throw,
            throwThe, MonadExceptOf.throw, c11AsExprs_cons_num, h2]
        | some kk =>
          cases h3 : flatProd (kk :: non) <;>
          simp [c11FoldTail, c11ExecL, c11Exec, c11Eval, c11EvalL, c11FoldEnv, c11Get, c11Truthy, pure,
            Except.pure, bind, Except.bind, c11Apply, c11Items, c11FoldCtor, c11FoldOp,
            c11OutToR, c11ToRw, foldFinish, c11Lift, c11Set, c11AsNums_nums, c11AsNums, h, throw,
            throwThe, MonadExceptOf.throw, c11AsExprs_cons_num, h2, h3]

theorem c11Exec_fold_while (ctx : C11Ctx) (F : Nat) (env : C11Env) :
    c11Exec ctx F (.while (.var "queue") c11FoldWhileBody) env =
      c11While (c11FoldCond ctx) (c11FoldBody ctx F) F env := rfl

theorem c11_fold_body : c11_ConstantFoldingMapperBase_fold.body =
    [.assign "constants" (.seq []), .assign "nonconstants" (.seq []),
     .assign "queue" (.call (.glob .pyList) [(.attr (.var "expr") "children")]),
     .while (.var "queue") c11FoldWhileBody] ++ c11FoldTail := rfl

theorem c11_fold (ctx : C11Ctx) (hctx : C11FoldCtx ctx) (fuel : Nat) (isProd : Bool) (o : NaryOp)
    (cs : List Expr) :
    c11ToRw (c11RunFn ctx fuel c11_ConstantFoldingMapperBase_fold
      [.expr (.nary o cs), c11FoldKlass isProd, .glob (c11FoldOp isProd), .glob (c11FoldCtor isProd)])
    = (do let (consts, non) ← foldLoop ctx.recur isProd fuel cs [] []
          foldFinish isProd consts non) := by
  generalize hctx' : ({ ctx with callLocal := c11CallLocal ctx c11_ConstantFoldingMapperBase_fold.defs fuel } : C11Ctx) = ctx'
  have hrec : ctx'.recur = ctx.recur := by rw [← hctx']
  have hf : C11FoldCtx ctx' := by rw [← hctx']; exact ⟨hctx.isConst, hctx.eval⟩
  have hloop := c11_fold_loop ctx' hf fuel isProd (.nary o cs) (.glob (c11FoldOp isProd))
    (.glob (c11FoldCtor isProd)) .unbound fuel cs [] [] .unbound .unbound .unbound
  rw [hrec] at hloop
  unfold c11RunFn
  rw [hctx']
  simp only [c11RunBody, c11_fold_body]
  simp only [c11_ConstantFoldingMapperBase_fold, c11Frame, List.length_cons, List.length_nil,
    beq_self_eq_true, if_true, List.zip_cons_cons, List.zip_nil_right, List.map_cons, List.map_nil,
    List.cons_append, List.nil_append, c11ExecL, c11Exec_fold_while]
  simp [c11Exec, c11Eval, c11EvalL, c11Set, c11Get, c11Apply, c11Attr, Expr.c04Field, Expr.c04Fields,
    c04Assoc, c11Items, pure, Except.pure, bind, Except.bind]
  simp only [c11FoldEnv, List.map_nil] at hloop
  cases hfl : foldLoop ctx.recur isProd fuel cs [] [] with
  | error err =>
    rw [hfl] at hloop
    simp only at hloop
    rw [hloop]; rfl
  | ok r =>
    obtain ⟨c', n'⟩ := r
    rw [hfl] at hloop
    obtain ⟨t', ch', v', hloop⟩ := hloop
    rw [hloop]
    exact c11_fold_finish ctx' fuel isProd (.nary o cs) c' n' t' ch' v' .unbound

theorem c11_folder_map_sum (ctx : C11Ctx) (fuel : Nat) (e : Expr) :
    c11RunFn ctx fuel c11_ConstantFoldingMapperBase_map_sum [.expr e] =
      ctx.callSelf "fold" [.expr e, .glob .clsSum, .glob .opAdd, .glob .flattenedSum] := by
  simp [c11RunFn, c11_ConstantFoldingMapperBase_map_sum, c11RunBody, c11Frame, c11ExecL, c11Exec,
    c11Eval, c11EvalL, c11Get, pure, Except.pure, bind, Except.bind]
  cases ctx.callSelf "fold" [.expr e, .glob .clsSum, .glob .opAdd, .glob .flattenedSum] <;> rfl

theorem c11_folder_map_product (ctx : C11Ctx) (fuel : Nat) (e : Expr) :
    c11RunFn ctx fuel c11_CommutativeConstantFoldingMapperBase_map_product [.expr e] =
      ctx.callSelf "fold" [.expr e, .glob .clsProduct, .glob .opMul, .glob .flattenedProduct] := by
  simp [c11RunFn, c11_CommutativeConstantFoldingMapperBase_map_product, c11RunBody, c11Frame, c11ExecL,
    c11Exec, c11Eval, c11EvalL, c11Get, pure, Except.pure, bind, Except.bind]
  cases ctx.callSelf "fold" [.expr e, .glob .clsProduct, .glob .opMul, .glob .flattenedProduct] <;> rfl

/-- the table-driven constant folders -/
def c11FoldT (comm : Bool) : Nat → Expr → RwR :=
  c11Mapper c04Classes c04IdentityTable (if comm then c11Class_commFolder else c11Class_plainFolder) []
    c11NoInst

/-- in both folder classes the helpers resolve to the same functions -/
structure C11IsFolder (C : C11Class) : Prop where
  fold : c11FindMethod "fold" C.methods =
    some ⟨"fold", "ConstantFoldingMapperBase", .own c11_ConstantFoldingMapperBase_fold⟩
  isConst : c11FindMethod "is_constant" C.methods =
    some ⟨"is_constant", "ConstantFoldingMapperBase", .own c11_ConstantFoldingMapperBase_is_constant⟩
  eval : c11FindMethod "evaluate" C.methods =
    some ⟨"evaluate", "ConstantFoldingMapperBase", .own c11_ConstantFoldingMapperBase_evaluate⟩
  mapSum : c11FindMethod "map_sum" C.methods =
    some ⟨"map_sum", "ConstantFoldingMapperBase", .own c11_ConstantFoldingMapperBase_map_sum⟩
  cse : c11FindMethod "map_common_subexpression" C.methods =
    some ⟨"map_common_subexpression", "CSECachingMapperMixin", .cseMixin⟩
  uncached : ∃ b, c11FindMethod "map_common_subexpression_uncached" C.methods =
    some ⟨"map_common_subexpression_uncached", b, .identity "map_common_subexpression"⟩

theorem c11_folder_ctx (S : C11Self) (hF : C11IsFolder S.cls) (fuel : Nat) :
    C11FoldCtx (c11CtxOf S fuel 2) where
  isConst child := by
    show c11CallSelf S fuel 2 "is_constant" _ = _
    rw [c11CallSelf_own S fuel 1 _ _ _ _ _ hF.isConst, c11_is_constant]
  eval child := by
    show c11CallSelf S fuel 2 "evaluate" _ = _
    rw [c11CallSelf_own S fuel 1 _ _ _ _ _ hF.eval, c11_evaluate]

/-- `self.fold(expr, klass, op, constructor)` from a handler of a folder class -/
theorem c11_folder_fold (S : C11Self) (hF : C11IsFolder S.cls) (fuel : Nat) (isProd : Bool)
    (o : NaryOp) (cs : List Expr) :
    c11ToRw (c11CallSelf S fuel 3 "fold" [.expr (.nary o cs), c11FoldKlass isProd,
      .glob (c11FoldOp isProd), .glob (c11FoldCtor isProd)]) =
    (do let (consts, non) ← foldLoop S.recur isProd fuel cs [] []
        foldFinish isProd consts non) := by
  rw [c11CallSelf_own S fuel 2 _ _ _ _ _ hF.fold, c11_fold _ (c11_folder_ctx S hF fuel)]
  rfl

/-- one level of `foldM` with the recursive calls left open -/
def c11FoldStep (comm : Bool) (rec : Expr → RwR) (fuel : Nat) : Expr → RwR
  | .nary .sum cs => do
      let (consts, non) ← foldLoop rec false fuel cs [] []
      foldFinish false consts non
  | .nary .prod cs =>
      if comm then do
        let (consts, non) ← foldLoop rec true fuel cs [] []
        foldFinish true consts non
      else idMap rec (.nary .prod cs)
  | .cse c p s => if c.hasList then throw .typeError else idMap rec (.cse c p s)
  | e => idMap rec e

theorem foldM_succ (comm : Bool) (fuel : Nat) (e : Expr) :
    foldM comm (fuel + 1) e = c11FoldStep comm (foldM comm fuel) fuel e := by
  cases e with
  | nary o cs => cases o <;> rfl
  | _ => rfl

theorem c11_folder_isFolder (comm : Bool) :
    C11IsFolder (if comm then c11Class_commFolder else c11Class_plainFolder) := by
  cases comm <;> exact ⟨rfl, rfl, rfl, rfl, rfl, ⟨_, rfl⟩⟩

theorem c11_folder_step (comm : Bool) (S : C11Self) (hc : S.classes = c04Classes)
    (hi : S.ident = c04IdentityTable)
    (hcls : S.cls = if comm then c11Class_commFolder else c11Class_plainFolder) (fuel : Nat)
    (e : Expr) : c11Handle S fuel e = c11FoldStep comm S.recur fuel e := by
  have hF : C11IsFolder S.cls := by rw [hcls]; exact c11_folder_isFolder comm
  have inh : ∀ n, c11HandlerOf e = .ok n → c11FindMethod n S.cls.methods = none →
      c11Handle S fuel e = idMap S.recur e := fun n hn hm =>
    c11Handle_inherited S hc hi fuel e n hn hm
  cases e with
  | nary o cs =>
    cases o with
    | sum =>
      rw [c11Handle_eq S hc hi]
      simp only [c11HandlerOf, c11Depth]
      rw [c11CallSelf_own S fuel 3 _ _ _ _ _ hF.mapSum, c11_folder_map_sum]
      exact c11_folder_fold S hF fuel false .sum cs
    | prod =>
      cases comm with
      | true =>
        rw [c11Handle_eq S hc hi]
        simp only [c11HandlerOf, c11Depth]
        rw [c11CallSelf_own S fuel 3 "map_product" _ "map_product"
          "CommutativeConstantFoldingMapperBase" c11_CommutativeConstantFoldingMapperBase_map_product
          (by rw [hcls]; rfl), c11_folder_map_product]
        exact c11_folder_fold S hF fuel true .prod cs
      | false => exact inh _ rfl (by rw [hcls]; rfl)
    | _ => exact inh _ rfl (by rw [hcls]; cases comm <;> rfl)
  | cse c p s =>
    rw [c11Handle_eq S hc hi]
    obtain ⟨b, hu⟩ := hF.uncached
    simp only [c11HandlerOf, c11Depth, c11FoldStep, c11CallSelf, hF.cse, hu, Expr.hasList, hi,
      c11IdentRow_cse]
    cases c.hasList with
    | true => rfl
    | false => exact c11ToRw_lift' _
  | const k =>
    cases k with
    | str s => exact c11Handle_foreign S hc hi fuel _ .foreign rfl
    | none => exact c11Handle_foreign S hc hi fuel _ .foreign rfl
    | _ => exact inh _ rfl (by rw [hcls]; cases comm <;> rfl)
  | bin o a b => cases o <;> exact inh _ rfl (by rw [hcls]; cases comm <;> rfl)
  | un o a => cases o <;> exact inh _ rfl (by rw [hcls]; cases comm <;> rfl)
  | _ => exact inh _ rfl (by rw [hcls]; cases comm <;> rfl)

theorem c11FoldT_eq (comm : Bool) : ∀ (fuel : Nat) (e : Expr), c11FoldT comm fuel e = foldM comm fuel e
  | 0, _ => rfl
  | fuel + 1, e => by
    have ih : c11FoldT comm fuel = foldM comm fuel := funext (c11FoldT_eq comm fuel)
    unfold c11FoldT at ih ⊢
    rw [c11Mapper, foldM_succ, ← ih]
    exact c11_folder_step comm _ rfl rfl rfl fuel e
end PV
