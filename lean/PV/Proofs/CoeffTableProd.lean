import PV.Proofs.CoeffTableColl
/-
  C15, T-gen tie, part 1b: `CoefficientCollector.map_product` as read from the source — the search
  for the child with variables (raising on a second one), the product of the other children with
  its `assert`, the dictionary comprehension — is `splitVars` / `otherCoeffs` / `scaleLeft`.
-/
set_option linter.unusedSimpArgs false
set_option linter.unusedVariables false
namespace PV.Coeff
open PV

/-! ### the first loop as a function, and `splitVars` -/

/-- `for k in child_coeffs: if k != 1: (raise if another child was seen); idx = i` -/
def scanInner (i : Nat) : Option Nat → Dict → CR (Option Nat)
  | cur, [] => pure cur
  | cur, (k, _) :: rest =>
    if k.pyEq one then scanInner i cur rest
    else match cur with
      | some j => if j ≠ i then throw .nonlinear else scanInner i (some i) rest
      | none => scanInner i (some i) rest

def scanOuter : Nat → Option Nat → List Dict → CR (Option Nat)
  | _, cur, [] => pure cur
  | i, cur, d :: ds => do
      let c ← scanInner i cur d
      scanOuter (i + 1) c ds

theorem scanInner_same (i : Nat) : ∀ d : Dict, scanInner i (some i) d = .ok (some i)
  | [] => rfl
  | (k, c) :: rest => by
    by_cases hk : k.pyEq one = true
    · simp [scanInner, hk, scanInner_same i rest]
    · simp [scanInner, hk, scanInner_same i rest]

theorem scanInner_spec (i : Nat) : ∀ (d : Dict) (cur : Option Nat),
    scanInner i cur d =
      if hasVarKey d then
        (match cur with
          | some j => if j ≠ i then .error .nonlinear else .ok (some i)
          | none => .ok (some i))
      else .ok cur
  | [], cur => by simp [scanInner, hasVarKey, pure, Except.pure]
  | (k, c) :: rest, cur => by
    by_cases hk : k.pyEq one = true
    · have ih := scanInner_spec i rest cur
      have hv : hasVarKey ((k, c) :: rest) = hasVarKey rest := by simp [hasVarKey, hk]
      simp only [scanInner, hk, if_true, ih, hv]
    · have hv : hasVarKey ((k, c) :: rest) = true := by simp [hasVarKey, hk]
      simp only [scanInner, hk, hv, if_true]
      cases cur with
      | none => simp [scanInner_same]
      | some j =>
        by_cases hj : j = i
        · subst hj; simp [scanInner_same]
        · simp [hj, throw, throwThe, MonadExceptOf.throw]

def noVars (ds : List Dict) : Bool := ds.all fun d => !hasVarKey d

theorem scanOuter_some : ∀ (ds : List Dict) (i j : Nat), j < i →
    scanOuter i (some j) ds = if noVars ds then .ok (some j) else .error .nonlinear
  | [], i, j, _ => by simp [scanOuter, noVars, pure, Except.pure]
  | d :: ds, i, j, hji => by
    simp only [scanOuter, scanInner_spec, bind, Except.bind]
    by_cases hv : hasVarKey d = true
    · have : j ≠ i := by omega
      simp [hv, this, noVars]
    · simp only [hv, Bool.false_eq_true, if_false]
      rw [scanOuter_some ds (i + 1) j (by omega)]
      simp [noVars, hv]

theorem splitVars_noVars : ∀ ds : List Dict, noVars ds = true → splitVars ds = .ok (none, ds)
  | [], _ => rfl
  | d :: ds, h => by
    simp only [noVars, List.all_cons, Bool.and_eq_true, Bool.not_eq_true'] at h
    have ih := splitVars_noVars ds (by simpa [noVars] using h.2)
    simp [splitVars, ih, h.1, bind, Except.bind, pure, Except.pure]

/-- the first loop of `map_product` against the model's `splitVars` -/
theorem scanOuter_splitVars : ∀ (ds : List Dict) (i : Nat),
    match splitVars ds with
    | .error e => e = .nonlinear ∧ scanOuter i none ds = .error .nonlinear ∧ noVars ds = false
    | .ok (none, os) => scanOuter i none ds = .ok none ∧ os = ds ∧ noVars ds = true
    | .ok (some d, os) => ∃ p, scanOuter i none ds = .ok (some (i + p)) ∧ ds[p]? = some d ∧
        os = ds.eraseIdx p ∧ noVars ds = false
  | [], i => by simp [splitVars, scanOuter, noVars, pure, Except.pure]
  | d :: ds, i => by
    have ih := scanOuter_splitVars ds (i + 1)
    simp only [splitVars, scanOuter, scanInner_spec, bind, Except.bind]
    cases hsp : splitVars ds with
    | error e =>
      simp only [hsp] at ih
      obtain ⟨he, hs, hn⟩ := ih
      subst he
      by_cases hv : hasVarKey d = true
      · simp only [hv, if_true]
        rw [scanOuter_some ds (i + 1) i (by omega)]
        simp [hn, noVars, hv]
        simpa [noVars] using hn
      · simp only [hv, Bool.false_eq_true, if_false, hs]
        simp [noVars, hv]
        simpa [noVars] using hn
    | ok vo =>
      obtain ⟨v, os⟩ := vo
      simp only [hsp] at ih
      cases v with
      | none =>
        obtain ⟨hs, hos, hn⟩ := ih
        subst hos
        by_cases hv : hasVarKey d = true
        · simp only [hv, if_true, pure, Except.pure]
          refine ⟨0, ?_, by simp, by simp, by simp [noVars, hv]⟩
          rw [scanOuter_some os (i + 1) i (by omega)]
          simp [hn]
        · simp only [hv, Bool.false_eq_true, if_false, pure, Except.pure, hs]
          refine ⟨trivial, trivial, ?_⟩
          simp only [noVars, List.all_cons, hv, Bool.not_false, Bool.true_and]
          simpa [noVars] using hn
      | some dv =>
        obtain ⟨p, hs, hp, hos, hn⟩ := ih
        by_cases hv : hasVarKey d = true
        · simp only [hv, if_true, throw, throwThe, MonadExceptOf.throw]
          refine ⟨trivial, ?_, by simp [noVars, hv]⟩
          rw [scanOuter_some ds (i + 1) i (by omega)]
          simp [hn]
        · simp only [hv, Bool.false_eq_true, if_false, pure, Except.pure, hs]
          refine ⟨p + 1, by congr 2; omega, by simpa using hp, by simp [hos], ?_⟩
          simp only [noVars, List.all_cons, hv, Bool.not_false, Bool.true_and]
          simpa [noVars] using hn

/-! ### the second loop as a function, and `otherCoeffs` -/

/-- `for i, child_coeffs in enumerate(children_coeffs): if i != idx: assert …; other *= …[1]` -/
def otherLoop (idx : Option Nat) : Nat → Expr → List Dict → CR Expr
  | _, acc, [] => pure acc
  | i, acc, d :: ds =>
    if idx = some i then otherLoop idx (i + 1) acc ds
    else if d.length != 1 then throw .assertion
    else match d.find one with
      | none => throw .keyError
      | some c => do
          let acc' ← pyBin .mul acc c
          otherLoop idx (i + 1) acc' ds

theorem otherLoop_out (idx : Option Nat) : ∀ (ds : List Dict) (i : Nat) (acc : Expr),
    (∀ j, idx = some j → j < i) → otherLoop idx i acc ds = otherCoeffs acc ds
  | [], i, acc, _ => rfl
  | d :: ds, i, acc, h => by
    have hne : idx ≠ some i := by
      intro he
      have := h i he
      omega
    simp only [otherLoop, otherCoeffs, hne, if_false]
    by_cases hl : (d.length != 1) = true
    · simp [hl]
    · simp only [hl, Bool.false_eq_true, if_false]
      cases d.find one with
      | none => rfl
      | some c =>
        simp only [bind, Except.bind]
        cases pyBin .mul acc c with
        | error e => rfl
        | ok acc' =>
          exact otherLoop_out idx ds (i + 1) acc' (fun j hj => by have := h j hj; omega)

theorem otherLoop_at : ∀ (ds : List Dict) (i p : Nat) (acc : Expr), p < ds.length →
    otherLoop (some (i + p)) i acc ds = otherCoeffs acc (ds.eraseIdx p)
  | [], i, p, acc, h => by simp at h
  | d :: ds, i, 0, acc, _ => by
    simp only [otherLoop, Nat.add_zero, if_true, List.eraseIdx_cons_zero]
    exact otherLoop_out (some i) ds (i + 1) acc (fun j hj => by simp at hj; omega)
  | d :: ds, i, p + 1, acc, h => by
    have hne : (some (i + (p + 1)) : Option Nat) ≠ some i := by simp
    simp only [otherLoop, hne, if_false, List.eraseIdx_cons_succ, otherCoeffs]
    by_cases hl : (d.length != 1) = true
    · simp [hl]
    · simp only [hl, Bool.false_eq_true, if_false]
      cases d.find one with
      | none => rfl
      | some c =>
        simp only [bind, Except.bind]
        cases pyBin .mul acc c with
        | error e => rfl
        | ok acc' =>
          have := otherLoop_at ds (i + 1) p acc' (by simpa using h)
          rw [show i + 1 + p = i + (p + 1) by omega] at this
          exact this

/-! ### the loops of `map_product` as the interpreter runs them -/

def idxVal : Option Nat → C15Val
  | none => .none
  | some j => .int j

def expScanInner : List C15S := [
  .ifThen (.cmp .ne (.var "k") (.lit 1)) [
    .ifThen (.and_ (.isNot (.var "idx_of_child_with_vars") .pyNone)
        (.cmp .ne (.var "idx_of_child_with_vars") (.var "i")))
      [.raise_ "RuntimeError" "nonlinear expression"] [],
    .assign (.name "idx_of_child_with_vars") (.var "i")] []]

def expScanOuter : List C15S := [.forIn (.name "k") (.var "child_coeffs") expScanInner]

theorem scan_inner_step (ctx : C15Ctx) (st : C15Env) (cur : Option Nat) (i : Nat) (k : Expr)
    (hidx : c15Get "idx_of_child_with_vars" st = some (idxVal cur))
    (hi : c15Get "i" st = some (.int i)) (hk : c15Get "k" st = some (.ex k)) :
    C15S.execL ctx expScanInner st =
      if k.pyEq one then .ok st
      else match cur with
        | some j => if j ≠ i then .err (.py .nonlinear)
            else .ok (c15Set "idx_of_child_with_vars" (.int i) st)
        | none => .ok (c15Set "idx_of_child_with_vars" (.int i) st) := by
  by_cases hk1 : k.pyEq one = true
  · simp [expScanInner, C15S.execL, C15S.exec, c15Cond, C15E.eval, hk, bind, Except.bind, pure,
      Except.pure, c15Cmp, c15ValEq, C15Val.toExpr?, c15Truthy, hk1, one] 
    simp [one] at hk1
    simp [hk1, c15Truthy, pure, Except.pure, C15S.execL]
  · have hk2 : k.pyEq (.const (.int 1)) = false := by simpa [one] using hk1
    cases cur with
    | none =>
      simp [expScanInner, C15S.execL, C15S.exec, c15Cond, C15E.eval, hk, hidx, hi, bind, Except.bind,
        pure, Except.pure, c15Cmp, c15ValEq, C15Val.toExpr?, c15Truthy, hk1, hk2, idxVal, c15Is, c15Bind]
    | some j =>
      by_cases hj : j = i
      · subst hj
        simp [expScanInner, C15S.execL, C15S.exec, c15Cond, C15E.eval, hk, hidx, hi, bind, Except.bind,
          pure, Except.pure, c15Cmp, c15ValEq, C15Val.toExpr?, c15Truthy, hk1, hk2, idxVal, c15Is, c15Bind]
      · have hji : ((j : Int) == (i : Int)) = false := by
          have : (j : Int) ≠ (i : Int) := by omega
          simp [this]
        simp [expScanInner, C15S.execL, C15S.exec, c15Cond, C15E.eval, hk, hidx, hi, bind, Except.bind,
          pure, Except.pure, c15Cmp, c15ValEq, C15Val.toExpr?, c15Truthy, hk1, hk2, idxVal, c15Is,
          c15Bind, hj, hji, c15ErrOf]

/-- the variables the first loop writes -/
def scanVars : List String := ["k", "idx_of_child_with_vars", "i", "child_coeffs"]

theorem scan_inner_loop (ctx : C15Ctx) (i : Nat) : ∀ (d : Dict) (st : C15Env) (cur : Option Nat),
    c15Get "idx_of_child_with_vars" st = some (idxVal cur) → c15Get "i" st = some (.int i) →
    match scanInner i cur d with
    | .ok cur' => ∃ st', c15For (forStep ctx (.name "k") expScanInner)
          (d.map fun kc => .ex kc.1) st = .ok st' ∧
        c15Get "idx_of_child_with_vars" st' = some (idxVal cur') ∧ c15Get "i" st' = some (.int i) ∧
        ∀ x, x ∉ scanVars → c15Get x st' = c15Get x st
    | .error e => c15For (forStep ctx (.name "k") expScanInner)
          (d.map fun kc => .ex kc.1) st = .err (.py e)
  | [], st, cur, hidx, hi => by simp [scanInner, c15For, pure, Except.pure, hidx, hi]
  | (k, c) :: rest, st, cur, hidx, hi => by
    have hstep := scan_inner_step ctx (c15Set "k" (.ex k) st) cur i k
      (by rw [c15Get_set_ne _ (by decide), hidx]) (by rw [c15Get_set_ne _ (by decide), hi])
      (c15Get_set_eq _ _ _)
    simp only [List.map_cons, c15For, forStep, c15Bind, hstep, scanInner]
    have hframe : ∀ st1 : C15Env, (∀ x, x ∉ scanVars → c15Get x st1 = c15Get x (c15Set "k" (.ex k) st)) →
        ∀ x, x ∉ scanVars → c15Get x st1 = c15Get x st := by
      intro st1 h x hx
      rw [h x hx, c15Get_set_ne]
      intro he; subst he; simp [scanVars] at hx
    by_cases hk1 : k.pyEq one = true
    · simp only [hk1, if_true]
      have ih := scan_inner_loop ctx i rest (c15Set "k" (.ex k) st) cur
        (by rw [c15Get_set_ne _ (by decide), hidx]) (by rw [c15Get_set_ne _ (by decide), hi])
      cases hs : scanInner i cur rest with
      | error e => simp only [hs] at ih; exact ih
      | ok cur' =>
        simp only [hs] at ih
        obtain ⟨st', h1, h2, h3, h4⟩ := ih
        exact ⟨st', h1, h2, h3, hframe st' h4⟩
    · simp only [hk1, Bool.false_eq_true, if_false]
      have key : ∀ (_ : cur = none ∨ cur = some i),
          match scanInner i (some i) rest with
          | .ok cur' => ∃ st', c15For (forStep ctx (.name "k") expScanInner)
                (rest.map fun kc => .ex kc.1)
                (c15Set "idx_of_child_with_vars" (.int i) (c15Set "k" (.ex k) st)) = .ok st' ∧
              c15Get "idx_of_child_with_vars" st' = some (idxVal cur') ∧
              c15Get "i" st' = some (.int i) ∧ ∀ x, x ∉ scanVars → c15Get x st' = c15Get x st
          | .error e => c15For (forStep ctx (.name "k") expScanInner)
                (rest.map fun kc => .ex kc.1)
                (c15Set "idx_of_child_with_vars" (.int i) (c15Set "k" (.ex k) st)) = .err (.py e) := by
        intro _
        have ih := scan_inner_loop ctx i rest
          (c15Set "idx_of_child_with_vars" (.int i) (c15Set "k" (.ex k) st)) (some i)
          (by rw [c15Get_set_eq]; rfl)
          (by rw [c15Get_set_ne _ (by decide), c15Get_set_ne _ (by decide), hi])
        cases hs : scanInner i (some i) rest with
        | error e => simp only [hs] at ih; exact ih
        | ok cur' =>
          simp only [hs] at ih
          obtain ⟨st', h1, h2, h3, h4⟩ := ih
          refine ⟨st', h1, h2, h3, ?_⟩
          intro x hx
          rw [h4 x hx, c15Get_set_ne, c15Get_set_ne]
          · intro he; subst he; simp [scanVars] at hx
          · intro he; subst he; simp [scanVars] at hx
      cases cur with
      | none => exact key (Or.inl rfl)
      | some j =>
        by_cases hj : j = i
        · subst hj
          simp only [ne_eq, not_true_eq_false, if_false]
          exact key (Or.inr rfl)
        · simp [hj, throw, throwThe, MonadExceptOf.throw]

theorem scan_outer_loop (ctx : C15Ctx) : ∀ (ds : List Dict) (i0 : Nat) (st : C15Env) (cur : Option Nat),
    c15Get "idx_of_child_with_vars" st = some (idxVal cur) →
    match scanOuter i0 cur ds with
    | .ok cur' => ∃ st', c15For (forStep ctx (.tup2 (.name "i") (.name "child_coeffs")) expScanOuter)
          (c15Enum i0 (ds.map .dict)) st = .ok st' ∧
        c15Get "idx_of_child_with_vars" st' = some (idxVal cur') ∧
        ∀ x, x ∉ scanVars → c15Get x st' = c15Get x st
    | .error e => c15For (forStep ctx (.tup2 (.name "i") (.name "child_coeffs")) expScanOuter)
          (c15Enum i0 (ds.map .dict)) st = .err (.py e)
  | [], i0, st, cur, hidx => by simp [scanOuter, c15Enum, c15For, pure, Except.pure, hidx]
  | d :: ds, i0, st, cur, hidx => by
    have hin := scan_inner_loop ctx i0 d
      (c15Set "child_coeffs" (.dict d) (c15Set "i" (.int i0) st)) cur
      (by rw [c15Get_set_ne _ (by decide), c15Get_set_ne _ (by decide), hidx])
      (by rw [c15Get_set_ne _ (by decide), c15Get_set_eq])
    have hstep : forStep ctx (.tup2 (.name "i") (.name "child_coeffs")) expScanOuter
        (.pair (.int i0) (.dict d)) st =
        c15For (forStep ctx (.name "k") expScanInner) (d.map fun kc => .ex kc.1)
          (c15Set "child_coeffs" (.dict d) (c15Set "i" (.int i0) st)) := by
      simp only [forStep, c15Bind, Option.bind, expScanOuter, execL_single, exec_forIn]
      simp [C15E.eval, c15Get_set_eq, pure, Except.pure, c15Items, forStep]
    simp only [List.map_cons, c15Enum, c15For, hstep, scanOuter, bind, Except.bind]
    cases hs : scanInner i0 cur d with
    | error e => simp only [hs] at hin; simp [hin]
    | ok c1 =>
      simp only [hs] at hin
      obtain ⟨st1, h1, h2, h3, h4⟩ := hin
      simp only [h1]
      have ih := scan_outer_loop ctx ds (i0 + 1) st1 c1 h2
      cases hs2 : scanOuter (i0 + 1) c1 ds with
      | error e => simp only [hs2] at ih; exact ih
      | ok c2 =>
        simp only [hs2] at ih
        obtain ⟨st2, g1, g2, g3⟩ := ih
        refine ⟨st2, g1, g2, ?_⟩
        intro x hx
        rw [g3 x hx, h4 x hx, c15Get_set_ne, c15Get_set_ne]
        · intro he; subst he; simp [scanVars] at hx
        · intro he; subst he; simp [scanVars] at hx

/-- the value of `other_coeffs`: the int literal it starts with, or a stored coefficient -/
def Scal (v : C15Val) (acc : Expr) : Prop :=
  v = .ex acc ∨ ∃ n : Int, v = .int n ∧ acc = .const (.int n)

theorem c15Bin_scal_ex (st : C15Env) (op : C15BinOp) (v : C15Val) (acc c : Expr) (h : Scal v acc) :
    c15Bin st op v (.ex c) = (c15LiftCR (pyBin op.py acc c)).map .ex := by
  rcases h with rfl | ⟨n, rfl, rfl⟩
  · exact c15Bin_ex_ex st op acc c
  · simp only [c15Bin, c15Deref, C15Val.toExpr?]
    cases pyBin op.py (.const (.int n)) c <;> rfl

def expOther : List C15S := [
  .ifThen (.cmp .ne (.var "i") (.var "idx_of_child_with_vars")) [
    .assert_ (.cmp .eq (.call "len" [.var "child_coeffs"]) (.lit 1)),
    .aug "other_coeffs" .mul (.index (.var "child_coeffs") (.lit 1))] []]

def otherVars : List String := ["i", "child_coeffs", "other_coeffs"]

theorem other_step (ctx : C15Ctx) (st : C15Env) (idx : Option Nat) (i : Nat) (d : Dict) (v : C15Val)
    (acc : Expr) (hidx : c15Get "idx_of_child_with_vars" st = some (idxVal idx))
    (hi : c15Get "i" st = some (.int i)) (hd : c15Get "child_coeffs" st = some (.dict d))
    (hv : c15Get "other_coeffs" st = some v) (hs : Scal v acc) :
    C15S.execL ctx expOther st =
      if idx = some i then .ok st
      else if d.length != 1 then .err (.py .assertion)
      else match d.find one with
        | none => .err (.py .keyError)
        | some c => match pyBin .mul acc c with
          | .ok acc' => .ok (c15Set "other_coeffs" (.ex acc') st)
          | .error e => .err (.py e) := by
  have hlen : (((d.length : Int) == 1) = (d.length == 1)) := by
    by_cases hl : d.length = 1
    · simp [hl]
    · have : (d.length : Int) ≠ 1 := by omega
      rw [beq_eq_false_iff_ne.2 this, beq_eq_false_iff_ne.2 hl]
  have hne : c15Cond ctx (.cmp .ne (.var "i") (.var "idx_of_child_with_vars")) st
      = .ok (!(decide (idx = some i))) := by
    cases idx with
    | none =>
      simp [c15Cond, C15E.eval, hi, hidx, idxVal, bind, Except.bind, pure, Except.pure, c15Cmp, c15ValEq,
        c15Truthy]
    | some j =>
      by_cases hj : j = i
      · subst hj
        simp [c15Cond, C15E.eval, hi, hidx, idxVal, bind, Except.bind, pure, Except.pure, c15Cmp,
          c15ValEq, c15Truthy]
      · have : ((i : Int) == (j : Int)) = false := by
          have : (i : Int) ≠ (j : Int) := by omega
          simp [this]
        simp [c15Cond, C15E.eval, hi, hidx, idxVal, bind, Except.bind, pure, Except.pure, c15Cmp,
          c15ValEq, c15Truthy, this, hj]
  simp only [expOther, execL_single, exec_ifThen, hne]
  by_cases hii : idx = some i
  · simp [hii, C15S.execL]
  · simp only [hii, decide_false, Bool.not_false, if_false]
    by_cases hl : d.length = 1
    · have hl' : (d.length != 1) = false := by simp [hl]
      simp only [hl', Bool.false_eq_true, if_false]
      cases hf : d.find one with
      | none =>
        simp [C15S.execL, C15S.exec, c15Cond, C15E.eval, C15E.evalL, hd, bind, Except.bind, pure,
          Except.pure, c15Builtin, c15Cmp, c15ValEq, hl, c15Truthy, hv, C15Val.toExpr?, c15OfR]
        have hf' : d.find (.const (.int 1)) = none := hf
        simp [hf', c15OfR, throw, throwThe, MonadExceptOf.throw]
      | some c =>
        have hb := c15Bin_scal_ex st .mul v acc c hs
        simp [C15S.execL, C15S.exec, c15Cond, C15E.eval, C15E.evalL, hd, bind, Except.bind, pure,
          Except.pure, c15Builtin, c15Cmp, c15ValEq, hl, c15Truthy, hv, C15Val.toExpr?, c15OfR]
        have hf' : d.find (.const (.int 1)) = some c := hf
        simp [hf', hb, C15BinOp.py]
        cases pyBin .mul acc c <;> simp [c15LiftCR, Except.map, c15OfR]
    · have hl' : (d.length != 1) = true := by simp [hl]
      simp only [hl', if_true]
      have : ((d.length : Int) == 1) = false := by rw [hlen]; simp [hl]
      simp [C15S.execL, C15S.exec, c15Cond, C15E.eval, C15E.evalL, hd, bind, Except.bind, pure,
        Except.pure, c15Builtin, c15Cmp, c15ValEq, c15Truthy, this]

theorem other_loop (ctx : C15Ctx) (idx : Option Nat) : ∀ (ds : List Dict) (i0 : Nat) (st : C15Env)
    (v : C15Val) (acc : Expr),
    c15Get "idx_of_child_with_vars" st = some (idxVal idx) →
    c15Get "other_coeffs" st = some v → Scal v acc →
    match otherLoop idx i0 acc ds with
    | .ok acc' => ∃ st' v', c15For (forStep ctx (.tup2 (.name "i") (.name "child_coeffs")) expOther)
          (c15Enum i0 (ds.map .dict)) st = .ok st' ∧
        c15Get "other_coeffs" st' = some v' ∧ Scal v' acc' ∧
        ∀ x, x ∉ otherVars → c15Get x st' = c15Get x st
    | .error e => c15For (forStep ctx (.tup2 (.name "i") (.name "child_coeffs")) expOther)
          (c15Enum i0 (ds.map .dict)) st = .err (.py e)
  | [], i0, st, v, acc, hidx, hv, hs => by
    simp only [otherLoop, List.map_nil, c15Enum, c15For, pure, Except.pure]
    exact ⟨st, v, rfl, hv, hs, fun _ _ => rfl⟩
  | d :: ds, i0, st, v, acc, hidx, hv, hs => by
    have hstep := other_step ctx (c15Set "child_coeffs" (.dict d) (c15Set "i" (.int i0) st)) idx i0 d v acc
      (by rw [c15Get_set_ne _ (by decide), c15Get_set_ne _ (by decide), hidx])
      (by rw [c15Get_set_ne _ (by decide), c15Get_set_eq])
      (c15Get_set_eq _ _ _)
      (by rw [c15Get_set_ne _ (by decide), c15Get_set_ne _ (by decide), hv]) hs
    have hfs : forStep ctx (.tup2 (.name "i") (.name "child_coeffs")) expOther
        (.pair (.int i0) (.dict d)) st =
        C15S.execL ctx expOther (c15Set "child_coeffs" (.dict d) (c15Set "i" (.int i0) st)) := by
      simp only [forStep, c15Bind, Option.bind]
    simp only [List.map_cons, c15Enum, c15For, hfs, hstep, otherLoop]
    have hframe : ∀ (st0 st1 : C15Env), (∀ x, x ∉ otherVars → c15Get x st0 = c15Get x st) →
        (∀ x, x ∉ otherVars → c15Get x st1 = c15Get x st0) →
        ∀ x, x ∉ otherVars → c15Get x st1 = c15Get x st := by
      intro st0 st1 h0 h1 x hx
      rw [h1 x hx, h0 x hx]
    have hbase : ∀ x, x ∉ otherVars →
        c15Get x (c15Set "child_coeffs" (.dict d) (c15Set "i" (.int i0) st)) = c15Get x st := by
      intro x hx
      rw [c15Get_set_ne, c15Get_set_ne]
      · intro he; subst he; simp [otherVars] at hx
      · intro he; subst he; simp [otherVars] at hx
    by_cases hii : idx = some i0
    · simp only [hii, if_true]
      have ih := other_loop ctx idx ds (i0 + 1)
        (c15Set "child_coeffs" (.dict d) (c15Set "i" (.int i0) st)) v acc
        (by rw [c15Get_set_ne _ (by decide), c15Get_set_ne _ (by decide), hidx])
        (by rw [c15Get_set_ne _ (by decide), c15Get_set_ne _ (by decide), hv]) hs
      rw [hii] at ih
      cases hol : otherLoop (some i0) (i0 + 1) acc ds with
      | error e => simp only [hol] at ih; exact ih
      | ok acc' =>
        simp only [hol] at ih
        obtain ⟨st', v', h1, h2, h3, h4⟩ := ih
        exact ⟨st', v', h1, h2, h3, hframe _ _ hbase h4⟩
    · simp only [hii, if_false]
      by_cases hl : (d.length != 1) = true
      · simp [hl, throw, throwThe, MonadExceptOf.throw]
      · simp only [hl, Bool.false_eq_true, if_false]
        cases hf : d.find one with
        | none => simp [throw, throwThe, MonadExceptOf.throw]
        | some c =>
          simp only [bind, Except.bind]
          cases hm : pyBin .mul acc c with
          | error e => simp
          | ok acc1 =>
            simp only
            have ih := other_loop ctx idx ds (i0 + 1)
              (c15Set "other_coeffs" (.ex acc1)
                (c15Set "child_coeffs" (.dict d) (c15Set "i" (.int i0) st))) (.ex acc1) acc1
              (by rw [c15Get_set_ne _ (by decide), c15Get_set_ne _ (by decide),
                    c15Get_set_ne _ (by decide), hidx])
              (c15Get_set_eq _ _ _) (Or.inl rfl)
            cases hol : otherLoop idx (i0 + 1) acc1 ds with
            | error e => simp only [hol] at ih; exact ih
            | ok acc' =>
              simp only [hol] at ih
              obtain ⟨st', v', h1, h2, h3, h4⟩ := ih
              refine ⟨st', v', h1, h2, h3, hframe _ _ ?_ h4⟩
              intro x hx
              rw [c15Get_set_ne, hbase x hx]
              intro he; subst he; simp [otherVars] at hx

/-! ### the dictionary comprehension -/

theorem dictSet_append : ∀ (acc : Dict) (k v : Expr), (∀ a ∈ acc, a.1.pyEq k = false) →
    c15DictSet acc k v = acc ++ [(k, v)]
  | [], k, v, _ => rfl
  | (k', c') :: rest, k, v, h => by
    have h1 : k'.pyEq k = false := h (k', c') (by simp)
    simp only [c15DictSet, h1, Bool.false_eq_true, if_false, List.cons_append]
    rw [dictSet_append rest k v (fun a ha => h a (by simp [ha]))]

/-- one step of `{var: other_coeffs*coeff for var, coeff in D.items()}` -/
def compStep (ctx : C15Ctx) (st : C15Env) : Dict → C15Val → C15R Dict := fun acc item =>
  match c15Bind (.tup2 (.name "var") (.name "coeff")) item st with
  | Option.none => throw C15Err.stuck
  | some st' => do
    let kv ← (C15E.var "var").eval ctx st'
    let vv ← (C15E.bin .mul (.var "other_coeffs") (.var "coeff")).eval ctx st'
    match kv.toExpr?, vv.toExpr? with
    | some ke, some ve => pure (c15DictSet acc ke ve)
    | _, _ => throw C15Err.stuck

theorem comp_step (ctx : C15Ctx) (st : C15Env) (v : C15Val) (other : Expr)
    (hv : c15Get "other_coeffs" st = some v) (hs : Scal v other) (acc : Dict) (k c : Expr) :
    compStep ctx st acc (.pair (.ex k) (.ex c)) =
      (c15LiftCR (pyBin .mul other c)).map fun c' => c15DictSet acc k c' := by
  have hb := c15Bin_scal_ex (c15Set "coeff" (.ex c) (c15Set "var" (.ex k) st)) .mul v other c hs
  simp only [compStep, c15Bind, Option.bind, C15E.eval, c15Get_set_eq, bind, Except.bind, pure,
    Except.pure]
  rw [c15Get_set_ne _ (by decide), c15Get_set_eq, c15Get_set_ne _ (by decide),
    c15Get_set_ne _ (by decide), hv]
  simp only [hb, C15BinOp.py]
  cases pyBin .mul other c <;> simp [c15LiftCR, Except.map, C15Val.toExpr?]

theorem comp_fold (ctx : C15Ctx) (st : C15Env) (v : C15Val) (other : Expr)
    (hv : c15Get "other_coeffs" st = some v) (hs : Scal v other) :
    ∀ (rest acc : Dict), (∀ a ∈ acc, ∀ b ∈ rest, a.1.pyEq b.1 = false) → DictOK rest →
      List.foldlM (compStep ctx st) acc (itemsOf rest) =
        (c15LiftCR (scaleLeft other rest)).map (acc ++ ·)
  | [], acc, _, _ => by simp [itemsOf, scaleLeft, c15LiftCR, Except.map, pure, Except.pure]
  | (k, c) :: rest, acc, hacc, hok => by
    have hok' := List.pairwise_cons.1 hok
    simp only [itemsOf, List.map_cons, List.foldlM_cons, comp_step ctx st v other hv hs, scaleLeft,
      bind, Except.bind]
    cases hm : pyBin .mul other c with
    | error e => simp [c15LiftCR, Except.map]
    | ok c' =>
      have hset : c15DictSet acc k c' = acc ++ [(k, c')] :=
        dictSet_append acc k c' (fun a ha => hacc a ha (k, c) (by simp))
      simp only [c15LiftCR, Except.map, hset]
      have ih := comp_fold ctx st v other hv hs rest (acc ++ [(k, c')]) (by
        intro a ha b hb
        simp only [List.mem_append, List.mem_singleton] at ha
        rcases ha with ha | rfl
        · exact hacc a ha b (by simp [hb])
        · exact hok'.1 b hb) hok'.2
      simp only [itemsOf] at ih
      rw [ih]
      cases scaleLeft other rest <;> simp [c15LiftCR, Except.map, pure, Except.pure]

/-! ### `map_product` -/

def expProdComp : C15E :=
  .dictComp (.var "var") (.bin .mul (.var "other_coeffs") (.var "coeff"))
    (.tup2 (.name "var") (.name "coeff"))
    (.meth (.index (.var "children_coeffs") (.var "idx_of_child_with_vars")) "items")

def expProdBody : List C15S := [
  .assign (.name "result") .emptyDict,
  .assign (.name "children_coeffs") (.recList "children"),
  .assign (.name "idx_of_child_with_vars") .pyNone,
  .forIn (.tup2 (.name "i") (.name "child_coeffs")) (.call "enumerate" [.var "children_coeffs"])
    expScanOuter,
  .assign (.name "other_coeffs") (.lit 1),
  .forIn (.tup2 (.name "i") (.name "child_coeffs")) (.call "enumerate" [.var "children_coeffs"])
    expOther,
  .ifThen (.is_ (.var "idx_of_child_with_vars") .pyNone)
    [.ret (.mkDict (.lit 1) (.var "other_coeffs"))]
    [.ret expProdComp],
  .ret (.var "result")]

theorem eval_enumerate (ctx : C15Ctx) (st : C15Env) (x : String) (l : List C15Val)
    (h : c15Get x st = some (.list l)) :
    (C15E.call "enumerate" [.var x]).eval ctx st = .ok (.list (c15Enum 0 l)) := by
  simp [C15E.eval, C15E.evalL, h, bind, Except.bind, pure, Except.pure, c15Builtin, c15Items]

theorem eval_prodComp (ctx : C15Ctx) (st : C15Env) (ds : List Dict) (p : Nat) (d : Dict)
    (hc : c15Get "children_coeffs" st = some (.list (ds.map .dict)))
    (hi : c15Get "idx_of_child_with_vars" st = some (.int p)) (hp : ds[p]? = some d) :
    expProdComp.eval ctx st =
      (List.foldlM (compStep ctx st) [] (itemsOf d)).map .dict := by
  have hget : (ds.map C15Val.dict)[p]? = some (.dict d) := by simp [hp]
  simp only [expProdComp, C15E.eval, hc, hi, bind, Except.bind, pure, Except.pure]
  simp [hget, c15Items, itemsOf]
  rfl

theorem scal_toExpr {v : C15Val} {acc : Expr} (h : Scal v acc) : v.toExpr? = some acc := by
  rcases h with rfl | ⟨n, rfl, rfl⟩ <;> rfl

theorem run_prod (ctx : C15Ctx) (rs : List (Unit → CR Dict))
    (hrec : ctx.recList = [("children", rs)])
    (hok : ∀ ds, rs.mapM (fun r => r ()) = .ok ds → ∀ d ∈ ds, DictOK d) :
    c15Result (C15S.execL ctx expProdBody []) =
      dictRes (do
        let ds ← rs.mapM (fun r => r ())
        let (v, os) ← splitVars ds
        let other ← otherCoeffs one os
        match v with
        | none => pure [(one, other)]
        | some d => scaleLeft other d) := by
  unfold dictRes
  cases hds : rs.mapM (fun r => r ()) with
  | error e =>
    simp [expProdBody, C15S.execL, C15S.exec, C15E.eval, hrec, c15Assoc, hds, c15LiftCR, bind,
      Except.bind, c15Result, Except.map, throw, throwThe, MonadExceptOf.throw, c15Bind, pure,
      Except.pure]
  | ok ds =>
    -- the state after the three assignments
    have e1 : C15S.execL ctx expProdBody [] = C15S.execL ctx (expProdBody.drop 3)
        (c15Set "idx_of_child_with_vars" .none
          (c15Set "children_coeffs" (.list (ds.map .dict)) (c15Set "result" (.dict []) []))) := by
      simp [expProdBody, C15S.execL, C15S.exec, C15E.eval, hrec, c15Assoc, hds, c15LiftCR, bind,
        Except.bind, pure, Except.pure, c15Bind]
    rw [e1]
    generalize hst0 : (c15Set "idx_of_child_with_vars" C15Val.none
          (c15Set "children_coeffs" (.list (ds.map .dict)) (c15Set "result" (.dict []) []))) = st0
    have hcc0 : c15Get "children_coeffs" st0 = some (.list (ds.map .dict)) := by
      subst hst0; rw [c15Get_set_ne _ (by decide), c15Get_set_eq]
    have hidx0 : c15Get "idx_of_child_with_vars" st0 = some (idxVal none) := by
      subst hst0; rw [c15Get_set_eq]; rfl
    have hscan := scan_outer_loop ctx ds 0 st0 none hidx0
    have hsplit := scanOuter_splitVars ds 0
    simp only [expProdBody, List.drop, C15S.execL, exec_forIn, eval_enumerate ctx st0 _ _ hcc0, c15Items]
    cases hsp : splitVars ds with
    | error e =>
      simp only [hsp] at hsplit
      obtain ⟨he, hso, _⟩ := hsplit
      subst he
      simp only [hso] at hscan
      simp [hscan, c15Result, c15LiftCR, Except.map, bind, Except.bind, throw, throwThe,
        MonadExceptOf.throw, hsp]
    | ok vo =>
      obtain ⟨v, os⟩ := vo
      simp only [hsp] at hsplit
      -- what the first loop leaves: `idx` and untouched `children_coeffs`
      have hafter : ∃ (idx : Option Nat) (st1 : C15Env),
          c15For (forStep ctx (.tup2 (.name "i") (.name "child_coeffs")) expScanOuter)
            (c15Enum 0 (ds.map .dict)) st0 = .ok st1 ∧
          c15Get "idx_of_child_with_vars" st1 = some (idxVal idx) ∧
          c15Get "children_coeffs" st1 = some (.list (ds.map .dict)) ∧
          otherLoop idx 0 one ds = otherCoeffs one os ∧
          (match v with
            | none => idx = none
            | some d => ∃ p, idx = some p ∧ ds[p]? = some d) := by
        cases v with
        | none =>
          obtain ⟨hso, hos, _⟩ := hsplit
          simp only [hso] at hscan
          obtain ⟨st1, h1, h2, h3⟩ := hscan
          refine ⟨none, st1, h1, h2, ?_, ?_, rfl⟩
          · rw [h3 "children_coeffs" (by simp [scanVars]), hcc0]
          · rw [hos]; exact otherLoop_out none ds 0 one (by simp)
        | some d =>
          obtain ⟨p, hso, hp, hos, _⟩ := hsplit
          simp only [hso] at hscan
          obtain ⟨st1, h1, h2, h3⟩ := hscan
          refine ⟨some (0 + p), st1, h1, h2, ?_, ?_, p, by simp, hp⟩
          · rw [h3 "children_coeffs" (by simp [scanVars]), hcc0]
          · rw [hos]
            exact otherLoop_at ds 0 p one (by
              have := List.getElem?_eq_some_iff.1 hp
              exact this.1)
      obtain ⟨idx, st1, h1, hidx1, hcc1, hother, hv⟩ := hafter
      rw [h1]
      dsimp only

      rw [exec_assign_name]
      have hlit : C15E.eval ctx (C15E.lit 1) st1 = .ok (.int 1) := by simp only [C15E.eval]; rfl
      rw [hlit]
      dsimp only
      have hcc2 : c15Get "children_coeffs" (c15Set "other_coeffs" (.int 1) st1)
          = some (.list (ds.map .dict)) := by rw [c15Get_set_ne _ (by decide), hcc1]
      simp only [eval_enumerate ctx _ _ _ hcc2]
      have hloop := other_loop ctx idx ds 0 (c15Set "other_coeffs" (.int 1) st1) (.int 1) one
        (by rw [c15Get_set_ne _ (by decide), hidx1]) (c15Get_set_eq _ _ _) (Or.inr ⟨1, rfl, rfl⟩)
      rw [hother] at hloop
      cases hoc : otherCoeffs one os with
      | error e =>
        simp only [hoc] at hloop
        simp [hloop, c15Result, c15LiftCR, Except.map, bind, Except.bind, hoc, hsp, throw, throwThe,
          MonadExceptOf.throw]
      | ok other =>
        simp only [hoc] at hloop
        obtain ⟨st3, v3, g1, g2, g3, g4⟩ := hloop
        have hidx3 : c15Get "idx_of_child_with_vars" st3 = some (idxVal idx) := by
          rw [g4 _ (by simp [otherVars]), c15Get_set_ne _ (by decide), hidx1]
        have hcc3 : c15Get "children_coeffs" st3 = some (.list (ds.map .dict)) := by
          rw [g4 _ (by simp [otherVars]), hcc2]
        simp only [g1, exec_ifThen]
        cases v with
        | none =>
          simp only at hv
          subst hv
          have h1e : (C15Val.int 1).toExpr? = some one := rfl
          simp [c15Cond, C15E.eval, hidx3, idxVal, bind, Except.bind, pure, Except.pure, c15Is,
            c15Truthy, C15S.execL, C15S.exec, g2, h1e, scal_toExpr g3, Expr.hasList,
            c15Result, c15LiftCR, Except.map, hoc, hsp]
          simp [one, Expr.hasList]
        | some d =>
          simp only at hv
          obtain ⟨p, hip, hp⟩ := hv
          subst hip
          have hdok : DictOK d := hok ds hds d (List.mem_of_getElem? hp)
          have hcomp := eval_prodComp ctx st3 ds p d hcc3 hidx3 hp
          rw [comp_fold ctx st3 v3 other g2 g3 d [] (by simp) hdok] at hcomp
          simp [c15Cond, C15E.eval, hidx3, idxVal, bind, Except.bind, pure, Except.pure, c15Is,
            c15Truthy, C15S.execL, C15S.exec, hcomp, c15Result, hoc, hsp]
          cases scaleLeft other d <;> simp [c15LiftCR, Except.map, throw, throwThe, MonadExceptOf.throw]

end PV.Coeff
