import PV.Proofs.ImpTable
import PV.Proofs.ImpGraph
/-
  C20 (T-gen): `get_dot_dependency_graph` as the regenerated table has it IS `dotText` (node lines,
  the dependency dict, the fixed-point closure, the transitive reduction, the edge lines).
-/
set_option linter.unusedSimpArgs false

namespace PV.Imp
open PV PV.Generated

variable {σ : Type}

/-! ### the dependency dict as an interpreter value -/

def encG (g : Graph) : List (String × C20Val σ) := g.map fun kv => (kv.1, .strSet kv.2)

theorem dictGet_encG (k : String) : ∀ g : Graph,
    c20DictGet k (encG (σ := σ) g) = (g.lookup k).map .strSet
  | [] => rfl
  | (a, b) :: g => by
    have ih := dictGet_encG k g
    by_cases h : a = k
    · subst h; simp [encG, c20DictGet, List.lookup]
    · have h' : (k == a) = false := by simpa using fun h' => h h'.symm
      simp only [encG, List.map_cons, c20DictGet, List.lookup, h'] at ih ⊢
      simp [h, ih]

theorem getD_encG (k : String) (g : Graph) :
    (c20DictGet k (encG (σ := σ) g)).getD (.strSet []) = .strSet (g.get k) := by
  rw [dictGet_encG, Graph.get]
  cases g.lookup k <;> rfl

theorem keys_encG (g : Graph) :
    (encG (σ := σ) g).map (fun kv => C20Val.str (σ := σ) kv.1) = g.keys.map .str := by
  simp [encG, Graph.keys, List.map_map, Function.comp_def]

theorem setdefaultAdd_encG (k v : String) : ∀ g : Graph,
    c20DictSetdefaultAdd k v (encG (σ := σ) g) = some (encG (g.addEdge k v))
  | [] => rfl
  | (a, b) :: g => by
    have ih := setdefaultAdd_encG k v g
    by_cases h : a = k
    · subst h; simp [encG, c20DictSetdefaultAdd, Graph.addEdge]
    · simp only [encG, List.map_cons, c20DictSetdefaultAdd, Graph.addEdge] at ih ⊢
      simp [h, ih]

theorem update_encG (k : String) (f : List String → Option (List String))
    (f' : List String → List String) : ∀ g : Graph, k ∈ g.keys → f (g.get k) = some (f' (g.get k)) →
    c20DictUpdate k f (encG (σ := σ) g) = .ok (encG (g.modify k f'))
  | [], hk, _ => by simp [Graph.keys] at hk
  | (a, b) :: g, hk, hf => by
    by_cases h : a = k
    · subst h
      have : Graph.get ((a, b) :: g) a = b := by simp [Graph.get, List.lookup]
      rw [this] at hf
      simp [encG, c20DictUpdate, Graph.modify, hf]
    · have hk' : k ∈ Graph.keys g := by
        simp only [Graph.keys, List.map_cons, List.mem_cons] at hk
        rcases hk with hk | hk
        · exact absurd hk.symm h
        · exact hk
      have hg : Graph.get ((a, b) :: g) k = Graph.get g k := by
        have h' : (k == a) = false := by simpa using fun h' => h h'.symm
        simp [Graph.get, List.lookup, h']
      rw [hg] at hf
      have ih := update_encG k f f' g hk' hf
      simp only [encG, List.map_cons, c20DictUpdate, Graph.modify] at ih ⊢
      simp [h, ih]

/-! ### the frame, and what a loop leaves in its variables -/

/-- the frame of `get_dot_dependency_graph`: eight names that are bound before the loops and never
rebound by them, `lines`, `dep_graph`, the (always empty) `annotation_dep_graph`,
`changed_something`, and the five loop variables -/
abbrev dotEnv (v0 v1 v2 v3 v4 v5 v6 v7 : C20Val σ) (lines : List (C20Val σ))
    (g : List (String × C20Val σ)) (ch js jd j1 j2 j3 : C20Val σ) : C20Env σ :=
  [("statements", v0), ("use_stmt_ids", v1), ("preamble_hook", v2),
   ("additional_lines_hook", v3), ("statement_stringifier", v4), ("use_insn_ids", v5),
   ("warn", v6), ("get_node_attrs", v7), ("lines", .list lines), ("dep_graph", .dict g),
   ("annotation_dep_graph", .dict []), ("stmt", js), ("dep", jd), ("changed_something", ch),
   ("stmt_1", j1), ("stmt_2", j2), ("stmt_3", j3)]

/-- the value a variable has in the frame a statement list ended with (how the loop lemmas name
what a loop leaves in the loop variables: whatever it does leave there) -/
def c20OutGet (o : C20Out σ) (x : String) : C20Val σ :=
  match o with
  | .next env => (c20Get x env).getD .none
  | .brk env => (c20Get x env).getD .none
  | _ => .none

section loops
variable (v0 v1 v2 v3 v4 v5 v6 v7 : C20Val σ)

local notation "E" => dotEnv v0 v1 v2 v3 v4 v5 v6 v7

/-! #### building the dependency dict -/

theorem dot_dep_loop (i : String) (f : C20Env σ → C20Out σ) (L : List (C20Val σ))
    (ch js j1 j2 j3 : C20Val σ)
    (hf : ∀ (d : String) (g : Graph),
      f (E L (encG g) ch js (.str d) j1 j2 j3) =
        .next (E L (encG (g.addEdge i d)) ch js (.str d) j1 j2 j3)) :
    ∀ (ds : List String) (g : Graph) (jd : C20Val σ),
      c20ForIn f "dep" (ds.map .str) (E L (encG g) ch js jd j1 j2 j3) =
        .next (E L (encG (ds.foldl (fun g d => g.addEdge i d) g)) ch js
          (c20LastD jd (ds.map .str)) j1 j2 j3)
  | [], g, jd => rfl
  | d :: ds, g, jd => by
    have ih := dot_dep_loop i f L ch js j1 j2 j3 hf ds
    simp only [List.map_cons, c20ForIn, dotEnv, c20Set, String.reduceEq, if_false, if_true] at hf ih ⊢
    simp only [hf, ih, c20LastD, List.foldl_cons]

theorem dot_stmt_loop_ex (line : Stmt → String) (f : C20Env σ → C20Out σ)
    (ch j1 j2 j3 : C20Val σ)
    (hf : ∀ (s : Stmt) (Ls : List String) (g : Graph) (jd : C20Val σ),
      ∃ jd', f (E (Ls.map .str) (encG g) ch (.stmt s) jd j1 j2 j3) =
        .next (E ((Ls ++ [line s]).map .str)
          (encG (s.dependsOn.foldl (fun g d => g.addEdge s.id d) g)) ch (.stmt s) jd' j1 j2 j3)) :
    ∀ (ss : List Stmt) (Ls : List String) (g : Graph) (js jd : C20Val σ),
      ∃ js' jd', c20ForIn f "stmt" (ss.map .stmt) (E (Ls.map .str) (encG g) ch js jd j1 j2 j3) =
        .next (E ((Ls ++ ss.map line).map .str)
          (encG (ss.foldl (fun g s => s.dependsOn.foldl (fun g d => g.addEdge s.id d) g) g))
          ch js' jd' j1 j2 j3)
  | [], Ls, g, js, jd => ⟨js, jd, by simp [c20ForIn]⟩
  | s :: ss, Ls, g, js, jd => by
    obtain ⟨jd1, h1⟩ := hf s Ls g jd
    obtain ⟨js', jd', h2⟩ := dot_stmt_loop_ex line f ch j1 j2 j3 hf ss (Ls ++ [line s])
      (s.dependsOn.foldl (fun g d => g.addEdge s.id d) g) (.stmt s) jd1
    refine ⟨js', jd', ?_⟩
    simp only [List.map_cons, c20ForIn, c20Set, String.reduceEq, if_false, if_true] at h1 h2 ⊢
    simp only [h1, h2]
    simp

theorem dot_stmt_loop (line : Stmt → String) (f : C20Env σ → C20Out σ) (ch j1 j2 j3 : C20Val σ)
    (hf : ∀ (s : Stmt) (Ls : List String) (g : Graph) (jd : C20Val σ),
      ∃ jd', f (E (Ls.map .str) (encG g) ch (.stmt s) jd j1 j2 j3) =
        .next (E ((Ls ++ [line s]).map .str)
          (encG (s.dependsOn.foldl (fun g d => g.addEdge s.id d) g)) ch (.stmt s) jd' j1 j2 j3))
    (ss : List Stmt) (Ls : List String) (g : Graph) (js jd : C20Val σ) :
    c20ForIn f "stmt" (ss.map .stmt) (E (Ls.map .str) (encG g) ch js jd j1 j2 j3) =
      .next (E ((Ls ++ ss.map line).map .str)
        (encG (ss.foldl (fun g s => s.dependsOn.foldl (fun g d => g.addEdge s.id d) g) g)) ch
        (c20OutGet (c20ForIn f "stmt" (ss.map .stmt) (E (Ls.map .str) (encG g) ch js jd j1 j2 j3))
          "stmt")
        (c20OutGet (c20ForIn f "stmt" (ss.map .stmt) (E (Ls.map .str) (encG g) ch js jd j1 j2 j3))
          "dep") j1 j2 j3) := by
  obtain ⟨js', jd', h⟩ := dot_stmt_loop_ex v0 v1 v2 v3 v4 v5 v6 v7 line f ch j1 j2 j3 hf ss Ls g js jd
  rw [h]
  simp [c20OutGet, c20Get]

/-! #### the fixed-point closure -/

theorem dot_close_inner (s1 s2 : String) (f : C20Env σ → C20Out σ) (L : List (C20Val σ))
    (js jd : C20Val σ)
    (hf : ∀ (s3 : String) (g : Graph) (chb : Bool), s1 ∈ g.keys →
      f (E L (encG g) (.bool chb) js jd (.str s1) (.str s2) (.str s3)) =
        .next (E L (encG (if s3 ∈ g.get s1 then g else g.modify s1 fun vs => insertS vs s3))
          (.bool (chb || !decide (s3 ∈ g.get s1))) js jd (.str s1) (.str s2) (.str s3))) :
    ∀ (xs : List String) (g : Graph) (chb : Bool) (j3 : C20Val σ), s1 ∈ g.keys →
      c20ForIn f "stmt_3" (xs.map .str) (E L (encG g) (.bool chb) js jd (.str s1) (.str s2) j3) =
        .next (E L (encG (closeInner g s1 xs).1) (.bool (chb || (closeInner g s1 xs).2)) js jd
          (.str s1) (.str s2) (c20LastD j3 (xs.map .str)))
  | [], g, chb, j3, _ => by simp [c20ForIn, closeInner, c20LastD]
  | s3 :: xs, g, chb, j3, hk => by
    have h1 := hf s3 g chb hk
    by_cases h3 : s3 ∈ g.get s1
    · have ih := dot_close_inner s1 s2 f L js jd hf xs g chb (.str s3) hk
      simp only [List.map_cons, c20ForIn, dotEnv, c20Set, String.reduceEq, if_false, if_true,
        h3, decide_true, Bool.not_true, Bool.or_false] at h1 ih ⊢
      simp only [h1, ih, closeInner, h3, if_true, c20LastD]
    · have hk' : s1 ∈ (g.modify s1 fun vs => insertS vs s3).keys := by
        rw [Graph.keys_modify]; exact hk
      have ih := dot_close_inner s1 s2 f L js jd hf xs (g.modify s1 fun vs => insertS vs s3) true
        (.str s3) hk'
      simp only [List.map_cons, c20ForIn, dotEnv, c20Set, String.reduceEq, if_false, if_true,
        h3, decide_false, Bool.not_false, Bool.or_true, Bool.true_or] at h1 ih ⊢
      simp only [h1, ih, closeInner, h3, if_false, c20LastD, Bool.or_true]

theorem dot_close_mid_ex (s1 : String) (f : C20Env σ → C20Out σ) (L : List (C20Val σ))
    (js jd : C20Val σ)
    (hf : ∀ (s2 : String) (g : Graph) (chb : Bool) (j3 : C20Val σ), s1 ∈ g.keys →
      ∃ j3', f (E L (encG g) (.bool chb) js jd (.str s1) (.str s2) j3) =
        .next (E L (encG (closeInner g s1 (g.get s2)).1)
          (.bool (chb || (closeInner g s1 (g.get s2)).2)) js jd (.str s1) (.str s2) j3')) :
    ∀ (xs : List String) (g : Graph) (chb : Bool) (j2 j3 : C20Val σ), s1 ∈ g.keys →
      ∃ j2' j3', c20ForIn f "stmt_2" (xs.map .str)
          (E L (encG g) (.bool chb) js jd (.str s1) j2 j3) =
        .next (E L (encG (closeMid g s1 xs).1) (.bool (chb || (closeMid g s1 xs).2)) js jd
          (.str s1) j2' j3')
  | [], g, chb, j2, j3, _ => ⟨j2, j3, by simp [c20ForIn, closeMid]⟩
  | s2 :: xs, g, chb, j2, j3, hk => by
    obtain ⟨j3a, h1⟩ := hf s2 g chb j3 hk
    have hk' : s1 ∈ (closeInner g s1 (g.get s2)).1.keys := by
      rw [(closeInner_spec g s1 (g.get s2) g hk).1]; exact hk
    obtain ⟨j2', j3', h2⟩ := dot_close_mid_ex s1 f L js jd hf xs (closeInner g s1 (g.get s2)).1
      (chb || (closeInner g s1 (g.get s2)).2) (.str s2) j3a hk'
    refine ⟨j2', j3', ?_⟩
    simp only [List.map_cons, c20ForIn, dotEnv, c20Set, String.reduceEq, if_false, if_true]
      at h1 h2 ⊢
    simp only [h1, h2, closeMid, Bool.or_assoc]

theorem dot_close_outer_ex (f : C20Env σ → C20Out σ) (L : List (C20Val σ)) (js jd : C20Val σ)
    (hf : ∀ (s1 : String) (g : Graph) (chb : Bool) (j2 j3 : C20Val σ), s1 ∈ g.keys →
      ∃ j2' j3', f (E L (encG g) (.bool chb) js jd (.str s1) j2 j3) =
        .next (E L (encG (closeMid g s1 (g.get s1)).1)
          (.bool (chb || (closeMid g s1 (g.get s1)).2)) js jd (.str s1) j2' j3')) :
    ∀ (ks : List String) (g : Graph) (chb : Bool) (j1 j2 j3 : C20Val σ),
      (∀ k ∈ ks, k ∈ g.keys) →
      ∃ j1' j2' j3', c20ForIn f "stmt_1" (ks.map .str)
          (E L (encG g) (.bool chb) js jd j1 j2 j3) =
        .next (E L (encG (closeOuter g ks).1) (.bool (chb || (closeOuter g ks).2)) js jd
          j1' j2' j3')
  | [], g, chb, j1, j2, j3, _ => ⟨j1, j2, j3, by simp [c20ForIn, closeOuter]⟩
  | s1 :: ks, g, chb, j1, j2, j3, hk => by
    have hk1 : s1 ∈ g.keys := hk s1 (List.mem_cons_self ..)
    obtain ⟨j2a, j3a, h1⟩ := hf s1 g chb j2 j3 hk1
    have hkeys := (closeMid_spec g s1 (g.get s1) g hk1).1
    obtain ⟨j1', j2', j3', h2⟩ := dot_close_outer_ex f L js jd hf ks (closeMid g s1 (g.get s1)).1
      (chb || (closeMid g s1 (g.get s1)).2) (.str s1) j2a j3a
      (fun k hkk => by rw [hkeys]; exact hk k (List.mem_cons_of_mem _ hkk))
    refine ⟨j1', j2', j3', ?_⟩
    simp only [List.map_cons, c20ForIn, dotEnv, c20Set, String.reduceEq, if_false, if_true]
      at h1 h2 ⊢
    simp only [h1, h2, closeOuter, Bool.or_assoc]

theorem dot_while_ex (f : C20Env σ → C20Out σ) (L : List (C20Val σ)) (js jd : C20Val σ)
    (hf : ∀ (g : Graph) (chv j1 j2 j3 : C20Val σ),
      ∃ j1' j2' j3', f (E L (encG g) chv js jd j1 j2 j3) =
        if (closeOuter g g.keys).2 then
          .next (E L (encG (closeOuter g g.keys).1) (.bool true) js jd j1' j2' j3')
        else .brk (E L (encG (closeOuter g g.keys).1) (.bool false) js jd j1' j2' j3')) :
    ∀ (fuel : Nat) (g : Graph) (chv j1 j2 j3 : C20Val σ),
      ∃ chv' j1' j2' j3', c20While f fuel (E L (encG g) chv js jd j1 j2 j3) =
        match closure fuel g with
        | none => .fuel
        | some g' => .next (E L (encG g') chv' js jd j1' j2' j3')
  | 0, g, chv, j1, j2, j3 => ⟨chv, j1, j2, j3, by simp [c20While, closure]⟩
  | fuel + 1, g, chv, j1, j2, j3 => by
    obtain ⟨j1a, j2a, j3a, h1⟩ := hf g chv j1 j2 j3
    by_cases hc : (closeOuter g g.keys).2 = true
    · obtain ⟨chv', j1', j2', j3', h2⟩ := dot_while_ex f L js jd hf fuel (closeOuter g g.keys).1
        (.bool true) j1a j2a j3a
      refine ⟨chv', j1', j2', j3', ?_⟩
      simp only [hc, if_true] at h1
      simp only [c20While, h1, h2, closure, hc, if_true]
    · refine ⟨.bool false, j1a, j2a, j3a, ?_⟩
      simp only [hc, if_false, Bool.false_eq_true] at h1
      simp only [c20While, h1, closure, hc, if_false, Bool.false_eq_true]

theorem dot_while (f : C20Env σ → C20Out σ) (L : List (C20Val σ)) (js jd : C20Val σ)
    (hf : ∀ (g : Graph) (chv j1 j2 j3 : C20Val σ),
      ∃ j1' j2' j3', f (E L (encG g) chv js jd j1 j2 j3) =
        if (closeOuter g g.keys).2 then
          .next (E L (encG (closeOuter g g.keys).1) (.bool true) js jd j1' j2' j3')
        else .brk (E L (encG (closeOuter g g.keys).1) (.bool false) js jd j1' j2' j3'))
    (fuel : Nat) (g : Graph) (chv j1 j2 j3 : C20Val σ) :
    c20While f fuel (E L (encG g) chv js jd j1 j2 j3) =
      match closure fuel g with
      | none => .fuel
      | some g' =>
        .next (E L (encG g')
          (c20OutGet (c20While f fuel (E L (encG g) chv js jd j1 j2 j3)) "changed_something") js jd
          (c20OutGet (c20While f fuel (E L (encG g) chv js jd j1 j2 j3)) "stmt_1")
          (c20OutGet (c20While f fuel (E L (encG g) chv js jd j1 j2 j3)) "stmt_2")
          (c20OutGet (c20While f fuel (E L (encG g) chv js jd j1 j2 j3)) "stmt_3")) := by
  obtain ⟨chv', j1', j2', j3', h⟩ :=
    dot_while_ex v0 v1 v2 v3 v4 v5 v6 v7 f L js jd hf fuel g chv j1 j2 j3
  rw [h]
  cases closure fuel g <;> simp [c20OutGet, c20Get]

/-! #### the transitive reduction -/

theorem dot_reduce_inner (s1 s2 : String) (f : C20Env σ → C20Out σ) (L : List (C20Val σ))
    (ch js jd : C20Val σ)
    (hf : ∀ (s3 : String) (g : Graph), s1 ∈ g.keys →
      f (E L (encG g) ch js jd (.str s1) (.str s2) (.str s3)) =
        .next (E L (encG (if s3 ∈ g.get s1 then g.modify s1 fun vs => vs.filter fun v => v != s3
          else g)) ch js jd (.str s1) (.str s2) (.str s3))) :
    ∀ (xs : List String) (g : Graph) (j3 : C20Val σ), s1 ∈ g.keys →
      c20ForIn f "stmt_3" (xs.map .str) (E L (encG g) ch js jd (.str s1) (.str s2) j3) =
        .next (E L (encG (reduceInner g s1 xs)) ch js jd (.str s1) (.str s2)
          (c20LastD j3 (xs.map .str)))
  | [], g, j3, _ => by simp [c20ForIn, reduceInner, c20LastD]
  | s3 :: xs, g, j3, hk => by
    have h1 := hf s3 g hk
    by_cases h3 : s3 ∈ g.get s1
    · have hk' : s1 ∈ (g.modify s1 fun vs => vs.filter fun v => v != s3).keys := by
        rw [Graph.keys_modify]; exact hk
      have ih := dot_reduce_inner s1 s2 f L ch js jd hf xs
        (g.modify s1 fun vs => vs.filter fun v => v != s3) (.str s3) hk'
      simp only [List.map_cons, c20ForIn, dotEnv, c20Set, String.reduceEq, if_false, if_true,
        h3] at h1 ih ⊢
      simp only [h1, ih, reduceInner, h3, if_true, c20LastD]
    · have ih := dot_reduce_inner s1 s2 f L ch js jd hf xs g (.str s3) hk
      simp only [List.map_cons, c20ForIn, dotEnv, c20Set, String.reduceEq, if_false, if_true,
        h3] at h1 ih ⊢
      simp only [h1, ih, reduceInner, h3, if_false, c20LastD]

theorem dot_reduce_mid_ex (s1 : String) (f : C20Env σ → C20Out σ) (L : List (C20Val σ))
    (ch js jd : C20Val σ)
    (hf : ∀ (s2 : String) (g : Graph) (j3 : C20Val σ), s1 ∈ g.keys →
      ∃ j3', f (E L (encG g) ch js jd (.str s1) (.str s2) j3) =
        .next (E L (encG (reduceInner g s1 (g.get s2))) ch js jd (.str s1) (.str s2) j3')) :
    ∀ (xs : List String) (g : Graph) (j2 j3 : C20Val σ), s1 ∈ g.keys →
      ∃ j2' j3', c20ForIn f "stmt_2" (xs.map .str) (E L (encG g) ch js jd (.str s1) j2 j3) =
        .next (E L (encG (reduceMid g s1 xs)) ch js jd (.str s1) j2' j3')
  | [], g, j2, j3, _ => ⟨j2, j3, by simp [c20ForIn, reduceMid]⟩
  | s2 :: xs, g, j2, j3, hk => by
    obtain ⟨j3a, h1⟩ := hf s2 g j3 hk
    have hk' : s1 ∈ (reduceInner g s1 (g.get s2)).keys := by
      rw [(reduceInner_spec s1 (g.get s2) g).1]; exact hk
    obtain ⟨j2', j3', h2⟩ := dot_reduce_mid_ex s1 f L ch js jd hf xs
      (reduceInner g s1 (g.get s2)) (.str s2) j3a hk'
    refine ⟨j2', j3', ?_⟩
    simp only [List.map_cons, c20ForIn, dotEnv, c20Set, String.reduceEq, if_false, if_true]
      at h1 h2 ⊢
    simp only [h1, h2, reduceMid]

theorem reduceMid_keys (s1 : String) : ∀ (l2 : List String) (g : Graph),
    (reduceMid g s1 l2).keys = g.keys
  | [], g => rfl
  | s2 :: rest, g => by
    rw [reduceMid, reduceMid_keys s1 rest, (reduceInner_spec s1 (g.get s2) g).1]

theorem dot_reduce_outer_ex (f : C20Env σ → C20Out σ) (L : List (C20Val σ)) (ch js jd : C20Val σ)
    (hf : ∀ (s1 : String) (g : Graph) (j2 j3 : C20Val σ), s1 ∈ g.keys →
      ∃ j2' j3', f (E L (encG g) ch js jd (.str s1) j2 j3) =
        .next (E L (encG (reduceMid g s1 (g.get s1))) ch js jd (.str s1) j2' j3')) :
    ∀ (ks : List String) (g : Graph) (j1 j2 j3 : C20Val σ), (∀ k ∈ ks, k ∈ g.keys) →
      ∃ j1' j2' j3', c20ForIn f "stmt_1" (ks.map .str) (E L (encG g) ch js jd j1 j2 j3) =
        .next (E L (encG (reduceOuter g ks)) ch js jd j1' j2' j3')
  | [], g, j1, j2, j3, _ => ⟨j1, j2, j3, by simp [c20ForIn, reduceOuter]⟩
  | s1 :: ks, g, j1, j2, j3, hk => by
    have hk1 : s1 ∈ g.keys := hk s1 (List.mem_cons_self ..)
    obtain ⟨j2a, j3a, h1⟩ := hf s1 g j2 j3 hk1
    obtain ⟨j1', j2', j3', h2⟩ := dot_reduce_outer_ex f L ch js jd hf ks
      (reduceMid g s1 (g.get s1)) (.str s1) j2a j3a
      (fun k hkk => by rw [reduceMid_keys]; exact hk k (List.mem_cons_of_mem _ hkk))
    refine ⟨j1', j2', j3', ?_⟩
    simp only [List.map_cons, c20ForIn, dotEnv, c20Set, String.reduceEq, if_false, if_true]
      at h1 h2 ⊢
    simp only [h1, h2, reduceOuter]

theorem dot_reduce_outer (f : C20Env σ → C20Out σ) (L : List (C20Val σ)) (ch js jd : C20Val σ)
    (hf : ∀ (s1 : String) (g : Graph) (j2 j3 : C20Val σ), s1 ∈ g.keys →
      ∃ j2' j3', f (E L (encG g) ch js jd (.str s1) j2 j3) =
        .next (E L (encG (reduceMid g s1 (g.get s1))) ch js jd (.str s1) j2' j3'))
    (g : Graph) (j1 j2 j3 : C20Val σ) :
    c20ForIn f "stmt_1" (g.keys.map .str) (E L (encG g) ch js jd j1 j2 j3) =
      .next (E L (encG (reduce g)) ch js jd
        (c20OutGet (c20ForIn f "stmt_1" (g.keys.map .str) (E L (encG g) ch js jd j1 j2 j3))
          "stmt_1")
        (c20OutGet (c20ForIn f "stmt_1" (g.keys.map .str) (E L (encG g) ch js jd j1 j2 j3))
          "stmt_2")
        (c20OutGet (c20ForIn f "stmt_1" (g.keys.map .str) (E L (encG g) ch js jd j1 j2 j3))
          "stmt_3")) := by
  obtain ⟨j1', j2', j3', h⟩ := dot_reduce_outer_ex v0 v1 v2 v3 v4 v5 v6 v7 f L ch js jd hf g.keys g
    j1 j2 j3 (fun _ h => h)
  rw [h]
  simp [c20OutGet, c20Get, reduce]

/-! #### the edge lines -/

theorem dot_edge_inner (s1 : String) (f : C20Env σ → C20Out σ) (g : List (String × C20Val σ))
    (ch js jd j3 : C20Val σ)
    (hf : ∀ (s2 : String) (Ls : List String),
      f (E (Ls.map .str) g ch js jd (.str s1) (.str s2) j3) =
        .next (E ((Ls ++ [dotEdgeLine (s1, s2)]).map .str) g ch js jd (.str s1) (.str s2) j3)) :
    ∀ (xs : List String) (Ls : List String) (j2 : C20Val σ),
      c20ForIn f "stmt_2" (xs.map .str) (E (Ls.map .str) g ch js jd (.str s1) j2 j3) =
        .next (E ((Ls ++ xs.map fun s2 => dotEdgeLine (s1, s2)).map .str) g ch js jd (.str s1)
          (c20LastD j2 (xs.map .str)) j3)
  | [], Ls, j2 => by simp [c20ForIn, c20LastD]
  | s2 :: xs, Ls, j2 => by
    have h1 := hf s2 Ls
    have ih := dot_edge_inner s1 f g ch js jd j3 hf xs (Ls ++ [dotEdgeLine (s1, s2)]) (.str s2)
    simp only [List.map_cons, c20ForIn, dotEnv, c20Set, String.reduceEq, if_false, if_true]
      at h1 ih ⊢
    simp only [h1, ih, c20LastD, List.append_assoc, List.cons_append, List.nil_append]

theorem dot_edge_outer_ex (gr : Graph) (f : C20Env σ → C20Out σ) (g : List (String × C20Val σ))
    (ch js jd j3 : C20Val σ)
    (hf : ∀ (s1 : String) (Ls : List String) (j2 : C20Val σ),
      ∃ j2', f (E (Ls.map .str) g ch js jd (.str s1) j2 j3) =
        .next (E ((Ls ++ (gr.get s1).map fun s2 => dotEdgeLine (s1, s2)).map .str) g ch js jd
          (.str s1) j2' j3)) :
    ∀ (ks : List String) (Ls : List String) (j1 j2 : C20Val σ),
      ∃ j1' j2', c20ForIn f "stmt_1" (ks.map .str) (E (Ls.map .str) g ch js jd j1 j2 j3) =
        .next (E ((Ls ++ ks.flatMap fun k => (gr.get k).map fun s2 => dotEdgeLine (k, s2)).map .str)
          g ch js jd j1' j2' j3)
  | [], Ls, j1, j2 => ⟨j1, j2, by simp [c20ForIn]⟩
  | s1 :: ks, Ls, j1, j2 => by
    obtain ⟨j2a, h1⟩ := hf s1 Ls j2
    obtain ⟨j1', j2', h2⟩ := dot_edge_outer_ex gr f g ch js jd j3 hf ks
      (Ls ++ (gr.get s1).map fun s2 => dotEdgeLine (s1, s2)) (.str s1) j2a
    refine ⟨j1', j2', ?_⟩
    simp only [List.map_cons, c20ForIn, dotEnv, c20Set, String.reduceEq, if_false, if_true]
      at h1 h2 ⊢
    simp only [h1, h2, List.flatMap_cons, List.append_assoc]

theorem dot_edge_outer (gr : Graph) (f : C20Env σ → C20Out σ) (g : List (String × C20Val σ))
    (ch js jd j3 : C20Val σ)
    (hf : ∀ (s1 : String) (Ls : List String) (j2 : C20Val σ),
      ∃ j2', f (E (Ls.map .str) g ch js jd (.str s1) j2 j3) =
        .next (E ((Ls ++ (gr.get s1).map fun s2 => dotEdgeLine (s1, s2)).map .str) g ch js jd
          (.str s1) j2' j3))
    (ks : List String) (Ls : List String) (j1 j2 : C20Val σ) :
    c20ForIn f "stmt_1" (ks.map .str) (E (Ls.map .str) g ch js jd j1 j2 j3) =
      .next (E ((Ls ++ ks.flatMap fun k => (gr.get k).map fun s2 => dotEdgeLine (k, s2)).map .str)
        g ch js jd
        (c20OutGet (c20ForIn f "stmt_1" (ks.map .str) (E (Ls.map .str) g ch js jd j1 j2 j3))
          "stmt_1")
        (c20OutGet (c20ForIn f "stmt_1" (ks.map .str) (E (Ls.map .str) g ch js jd j1 j2 j3))
          "stmt_2") j3) := by
  obtain ⟨j1', j2', h⟩ :=
    dot_edge_outer_ex v0 v1 v2 v3 v4 v5 v6 v7 gr f g ch js jd j3 hf ks Ls j1 j2
  rw [h]
  simp [c20OutGet, c20Get]

/-! #### the same loop lemmas in rewriting form (what the loop leaves in its variables named as
`c20OutGet` of the loop itself) -/

theorem dot_close_mid (s1 : String) (f : C20Env σ → C20Out σ) (L : List (C20Val σ))
    (js jd : C20Val σ)
    (hf : ∀ (s2 : String) (g : Graph) (chb : Bool) (j3 : C20Val σ), s1 ∈ g.keys →
      ∃ j3', f (E L (encG g) (.bool chb) js jd (.str s1) (.str s2) j3) =
        .next (E L (encG (closeInner g s1 (g.get s2)).1)
          (.bool (chb || (closeInner g s1 (g.get s2)).2)) js jd (.str s1) (.str s2) j3'))
    (xs : List String) (g : Graph) (chb : Bool) (j2 j3 : C20Val σ) (hk : s1 ∈ g.keys) :
    c20ForIn f "stmt_2" (xs.map .str) (E L (encG g) (.bool chb) js jd (.str s1) j2 j3) =
      .next (E L (encG (closeMid g s1 xs).1) (.bool (chb || (closeMid g s1 xs).2)) js jd (.str s1)
        (c20OutGet (c20ForIn f "stmt_2" (xs.map .str)
          (E L (encG g) (.bool chb) js jd (.str s1) j2 j3)) "stmt_2")
        (c20OutGet (c20ForIn f "stmt_2" (xs.map .str)
          (E L (encG g) (.bool chb) js jd (.str s1) j2 j3)) "stmt_3")) := by
  obtain ⟨j2', j3', h⟩ :=
    dot_close_mid_ex v0 v1 v2 v3 v4 v5 v6 v7 s1 f L js jd hf xs g chb j2 j3 hk
  rw [h]
  simp [c20OutGet, c20Get]

theorem dot_close_outer (f : C20Env σ → C20Out σ) (L : List (C20Val σ)) (js jd : C20Val σ)
    (hf : ∀ (s1 : String) (g : Graph) (chb : Bool) (j2 j3 : C20Val σ), s1 ∈ g.keys →
      ∃ j2' j3', f (E L (encG g) (.bool chb) js jd (.str s1) j2 j3) =
        .next (E L (encG (closeMid g s1 (g.get s1)).1)
          (.bool (chb || (closeMid g s1 (g.get s1)).2)) js jd (.str s1) j2' j3'))
    (g : Graph) (chb : Bool) (j1 j2 j3 : C20Val σ) :
    c20ForIn f "stmt_1" (g.keys.map .str) (E L (encG g) (.bool chb) js jd j1 j2 j3) =
      .next (E L (encG (closeOuter g g.keys).1) (.bool (chb || (closeOuter g g.keys).2)) js jd
        (c20OutGet (c20ForIn f "stmt_1" (g.keys.map .str)
          (E L (encG g) (.bool chb) js jd j1 j2 j3)) "stmt_1")
        (c20OutGet (c20ForIn f "stmt_1" (g.keys.map .str)
          (E L (encG g) (.bool chb) js jd j1 j2 j3)) "stmt_2")
        (c20OutGet (c20ForIn f "stmt_1" (g.keys.map .str)
          (E L (encG g) (.bool chb) js jd j1 j2 j3)) "stmt_3")) := by
  obtain ⟨j1', j2', j3', h⟩ := dot_close_outer_ex v0 v1 v2 v3 v4 v5 v6 v7 f L js jd hf g.keys g chb
    j1 j2 j3 (fun _ h => h)
  rw [h]
  simp [c20OutGet, c20Get]

theorem dot_reduce_mid (s1 : String) (f : C20Env σ → C20Out σ) (L : List (C20Val σ))
    (ch js jd : C20Val σ)
    (hf : ∀ (s2 : String) (g : Graph) (j3 : C20Val σ), s1 ∈ g.keys →
      ∃ j3', f (E L (encG g) ch js jd (.str s1) (.str s2) j3) =
        .next (E L (encG (reduceInner g s1 (g.get s2))) ch js jd (.str s1) (.str s2) j3'))
    (xs : List String) (g : Graph) (j2 j3 : C20Val σ) (hk : s1 ∈ g.keys) :
    c20ForIn f "stmt_2" (xs.map .str) (E L (encG g) ch js jd (.str s1) j2 j3) =
      .next (E L (encG (reduceMid g s1 xs)) ch js jd (.str s1)
        (c20OutGet (c20ForIn f "stmt_2" (xs.map .str) (E L (encG g) ch js jd (.str s1) j2 j3))
          "stmt_2")
        (c20OutGet (c20ForIn f "stmt_2" (xs.map .str) (E L (encG g) ch js jd (.str s1) j2 j3))
          "stmt_3")) := by
  obtain ⟨j2', j3', h⟩ :=
    dot_reduce_mid_ex v0 v1 v2 v3 v4 v5 v6 v7 s1 f L ch js jd hf xs g j2 j3 hk
  rw [h]
  simp [c20OutGet, c20Get]

end loops

/-! ### the loop bodies of the regenerated `get_dot_dependency_graph`, by position -/

def stmtAt : List C20Stmt → Nat → C20Stmt
  | [], _ => .break_
  | s :: _, 0 => s
  | _ :: r, n + 1 => stmtAt r n

def loopBody : C20Stmt → List C20Stmt
  | .forIn _ _ b => b
  | .whileTrue b => b
  | _ => []

def dotBody : List C20Stmt := c20Fn_get_dot_dependency_graph.body
/-- the function `get_node_attrs` the fourth statement defines -/
def dotAttrsFn : C20Val σ :=
  match stmtAt dotBody 3 with
  | .defLocal _ ps b => .localFn ps b
  | _ => .none
def dotStmtBody : List C20Stmt := loopBody (stmtAt dotBody 8)
def dotDepBody : List C20Stmt := loopBody (stmtAt dotStmtBody 1)
def dotWhileBody : List C20Stmt := loopBody (stmtAt dotBody 9)
def dotCloseOuterBody : List C20Stmt := loopBody (stmtAt dotWhileBody 1)
def dotCloseMidBody : List C20Stmt := loopBody (stmtAt dotCloseOuterBody 0)
def dotCloseInnerBody : List C20Stmt := loopBody (stmtAt dotCloseMidBody 0)
def dotReduceOuterBody : List C20Stmt := loopBody (stmtAt dotBody 10)
def dotReduceMidBody : List C20Stmt := loopBody (stmtAt dotReduceOuterBody 0)
def dotReduceInnerBody : List C20Stmt := loopBody (stmtAt dotReduceMidBody 0)
def dotEdgeOuterBody : List C20Stmt := loopBody (stmtAt dotBody 11)
def dotEdgeInnerBody : List C20Stmt := loopBody (stmtAt dotEdgeOuterBody 0)

/-- expose a loop body as the literal statement list the table has -/
syntax "dot_body" (Lean.Parser.Tactic.location)? : tactic
macro_rules
  | `(tactic| dot_body $[$loc]?) => `(tactic| simp only [dotAttrsFn, dotStmtBody, dotDepBody,
      dotWhileBody, dotCloseOuterBody, dotCloseMidBody, dotCloseInnerBody, dotReduceOuterBody,
      dotReduceMidBody, dotReduceInnerBody, dotEdgeOuterBody, dotEdgeInnerBody, dotBody,
      c20Fn_get_dot_dependency_graph, stmtAt, loopBody] $[$loc]?)

/-- fold the literal statement list of a loop body back into its name -/
macro "dot_fold " b:ident : tactic => `(tactic| (
  have hb : $b = $b := rfl
  conv at hb => rhs; simp only [dotAttrsFn, dotStmtBody, dotDepBody, dotWhileBody,
    dotCloseOuterBody, dotCloseMidBody, dotCloseInnerBody, dotReduceOuterBody, dotReduceMidBody,
    dotReduceInnerBody, dotEdgeOuterBody, dotEdgeInnerBody, dotBody,
    c20Fn_get_dot_dependency_graph, stmtAt, loopBody]
  rw [← hb]
  clear hb))

/-- the evaluation context of the frame of `get_dot_dependency_graph` -/
abbrev dotCx (G : NameGen σ) (wf n : Nat) : C20Ctx σ :=
  cxCur G (fun xs => xs) wf (c20Run (cfgCur G (fun xs => xs) wf) (n + 1)) none

section bodies
variable (G : NameGen σ) (wf n : Nat) (v0 v1 v2 v3 v4 v5 v6 v7 : C20Val σ)
local notation "E" => dotEnv v0 v1 v2 v3 v4 v5 v6 v7

theorem dot_hf_close_inner (s1 s2 : String) (L : List (C20Val σ)) (js jd : C20Val σ)
    (s3 : String) (g : Graph) (chb : Bool) (hk : s1 ∈ g.keys) :
    c20Exec (dotCx G wf n) dotCloseInnerBody
        (E L (encG g) (.bool chb) js jd (.str s1) (.str s2) (.str s3)) =
      .next (E L (encG (if s3 ∈ g.get s1 then g else g.modify s1 fun vs => insertS vs s3))
        (.bool (chb || !decide (s3 ∈ g.get s1))) js jd (.str s1) (.str s2) (.str s3)) := by
  dot_body
  by_cases h3 : s3 ∈ g.get s1
  · c20_run [c20Method, getD_encG, h3]
  · c20_run [c20Method, getD_encG, h3, update_encG s1 (c20SetAdd s3) (fun vs => insertS vs s3) g hk rfl]

theorem dot_hf_close_mid (s1 : String) (L : List (C20Val σ)) (js jd : C20Val σ)
    (s2 : String) (g : Graph) (chb : Bool) (j3 : C20Val σ) (hk : s1 ∈ g.keys) :
    ∃ j3', c20Exec (dotCx G wf n) dotCloseMidBody
        (E L (encG g) (.bool chb) js jd (.str s1) (.str s2) j3) =
      .next (E L (encG (closeInner g s1 (g.get s2)).1)
        (.bool (chb || (closeInner g s1 (g.get s2)).2)) js jd (.str s1) (.str s2) j3') := by
  refine ⟨?w, ?h⟩
  case h =>
    dot_body
    c20_run [c20Method, getD_encG]
    dot_fold dotCloseInnerBody
    rw [dot_close_inner (hf := dot_hf_close_inner G wf n v0 v1 v2 v3 v4 v5 v6 v7 s1 s2 L js jd)]
    exact hk

theorem dot_hf_close_outer (L : List (C20Val σ)) (js jd : C20Val σ)
    (s1 : String) (g : Graph) (chb : Bool) (j2 j3 : C20Val σ) (hk : s1 ∈ g.keys) :
    ∃ j2' j3', c20Exec (dotCx G wf n) dotCloseOuterBody
        (E L (encG g) (.bool chb) js jd (.str s1) j2 j3) =
      .next (E L (encG (closeMid g s1 (g.get s1)).1)
        (.bool (chb || (closeMid g s1 (g.get s1)).2)) js jd (.str s1) j2' j3') := by
  refine ⟨?w2, ?w3, ?h⟩
  case h =>
    dot_body
    c20_run [c20Method, getD_encG]
    dot_fold dotCloseMidBody
    rw [dot_close_mid (hf := dot_hf_close_mid G wf n v0 v1 v2 v3 v4 v5 v6 v7 s1 L js jd)]
    exact hk

theorem dot_hf_while (L : List (C20Val σ)) (js jd : C20Val σ)
    (g : Graph) (chv j1 j2 j3 : C20Val σ) :
    ∃ j1' j2' j3', c20Exec (dotCx G wf n) dotWhileBody (E L (encG g) chv js jd j1 j2 j3) =
      if (closeOuter g g.keys).2 then
        .next (E L (encG (closeOuter g g.keys).1) (.bool true) js jd j1' j2' j3')
      else .brk (E L (encG (closeOuter g g.keys).1) (.bool false) js jd j1' j2' j3') := by
  refine ⟨?w1, ?w2, ?w3, ?h⟩
  case h =>
    dot_body
    c20_run [keys_encG]
    dot_fold dotCloseOuterBody
    rw [dot_close_outer (hf := dot_hf_close_outer G wf n v0 v1 v2 v3 v4 v5 v6 v7 L js jd)]
    cases hc : (closeOuter g g.keys).2
    · c20_run [hc]
      try rfl
    · c20_run [hc]
      try rfl

theorem dot_hf_reduce_inner (s1 s2 : String) (L : List (C20Val σ)) (ch js jd : C20Val σ)
    (s3 : String) (g : Graph) (hk : s1 ∈ g.keys) :
    c20Exec (dotCx G wf n) dotReduceInnerBody
        (E L (encG g) ch js jd (.str s1) (.str s2) (.str s3)) =
      .next (E L (encG (if s3 ∈ g.get s1 then g.modify s1 fun vs => vs.filter fun v => v != s3
        else g)) ch js jd (.str s1) (.str s2) (.str s3)) := by
  dot_body
  by_cases h3 : s3 ∈ g.get s1
  · c20_run [c20Method, getD_encG, h3, update_encG s1 (c20SetRemove s3)
      (fun vs => vs.filter fun v => v != s3) g hk (by simp [c20SetRemove, h3])]
  · c20_run [c20Method, getD_encG, h3]

theorem dot_hf_reduce_mid (s1 : String) (L : List (C20Val σ)) (ch js jd : C20Val σ)
    (s2 : String) (g : Graph) (j3 : C20Val σ) (hk : s1 ∈ g.keys) :
    ∃ j3', c20Exec (dotCx G wf n) dotReduceMidBody (E L (encG g) ch js jd (.str s1) (.str s2) j3) =
      .next (E L (encG (reduceInner g s1 (g.get s2))) ch js jd (.str s1) (.str s2) j3') := by
  refine ⟨?w, ?h⟩
  case h =>
    dot_body
    c20_run [c20Method, getD_encG]
    dot_fold dotReduceInnerBody
    rw [dot_reduce_inner
      (hf := dot_hf_reduce_inner G wf n v0 v1 v2 v3 v4 v5 v6 v7 s1 s2 L ch js jd)]
    exact hk

theorem dot_hf_reduce_outer (L : List (C20Val σ)) (ch js jd : C20Val σ)
    (s1 : String) (g : Graph) (j2 j3 : C20Val σ) (hk : s1 ∈ g.keys) :
    ∃ j2' j3', c20Exec (dotCx G wf n) dotReduceOuterBody (E L (encG g) ch js jd (.str s1) j2 j3) =
      .next (E L (encG (reduceMid g s1 (g.get s1))) ch js jd (.str s1) j2' j3') := by
  refine ⟨?w2, ?w3, ?h⟩
  case h =>
    dot_body
    c20_run [c20Method, getD_encG]
    dot_fold dotReduceMidBody
    rw [dot_reduce_mid (hf := dot_hf_reduce_mid G wf n v0 v1 v2 v3 v4 v5 v6 v7 s1 L ch js jd)]
    exact hk

theorem dot_hf_edge_inner (s1 : String) (g : List (String × C20Val σ)) (ch js jd j3 : C20Val σ)
    (s2 : String) (Ls : List String) :
    c20Exec (dotCx G wf n) dotEdgeInnerBody
        (E (Ls.map .str) g ch js jd (.str s1) (.str s2) j3) =
      .next (E ((Ls ++ [dotEdgeLine (s1, s2)]).map .str) g ch js jd (.str s1) (.str s2) j3) := by
  dot_body
  c20_run [dotEdgeLine]
  simp [String.append_assoc]

theorem dot_hf_edge_outer (gr : Graph) (ch js jd j3 : C20Val σ)
    (s1 : String) (Ls : List String) (j2 : C20Val σ) :
    ∃ j2', c20Exec (dotCx G wf n) dotEdgeOuterBody
        (E (Ls.map .str) (encG gr) ch js jd (.str s1) j2 j3) =
      .next (E ((Ls ++ (gr.get s1).map fun s2 => dotEdgeLine (s1, s2)).map .str) (encG gr) ch js jd
        (.str s1) j2' j3) := by
  refine ⟨?w, ?h⟩
  case h =>
    dot_body
    c20_run [c20Method, getD_encG]
    dot_fold dotEdgeInnerBody
    rw [dot_edge_inner
      (hf := dot_hf_edge_inner G wf n v0 v1 v2 v3 v4 v5 v6 v7 s1 (encG gr) ch js jd j3)]

theorem dot_hf_dep (s : Stmt) (L : List (C20Val σ)) (ch j1 j2 j3 : C20Val σ)
    (d : String) (g : Graph) :
    c20Exec (dotCx G wf n) dotDepBody (E L (encG g) ch (.stmt s) (.str d) j1 j2 j3) =
      .next (E L (encG (g.addEdge s.id d)) ch (.stmt s) (.str d) j1 j2 j3) := by
  dot_body
  c20_run [setdefaultAdd_encG]

end bodies

section stmtbody
variable (G : NameGen σ) (wf n : Nat) (v0 v2 v3 v5 v6 : C20Val σ)

/-- `use_stmt_ids` as passed by a caller: `None`, `True` or `False` -/
def c20OfOptBool : Option Bool → C20Val σ
  | none => .none
  | some b => .bool b

/-- one pass of the statement loop: the node line is appended, the dependencies are recorded, the
`if 0:` block is skipped -/
theorem dot_hf_stmt (u : Option Bool) (str : Stmt → String)
    (ch j1 j2 j3 : C20Val σ) (s : Stmt) (Ls : List String) (g : Graph) (jd : C20Val σ) :
    ∃ jd', c20Exec (dotCx G wf n) dotStmtBody
        (dotEnv v0 (c20OfOptBool u) v2 v3 (.stmtStr str) v5 v6 dotAttrsFn (Ls.map .str) (encG g) ch
          (.stmt s) jd j1 j2 j3) =
      .next (dotEnv v0 (c20OfOptBool u) v2 v3 (.stmtStr str) v5 v6 dotAttrsFn
        ((Ls ++ [dotNodeLine (u.getD false) str s]).map .str)
        (encG (s.dependsOn.foldl (fun g d => g.addEdge s.id d) g)) ch (.stmt s) jd' j1 j2 j3) := by
  refine ⟨?w, ?h⟩
  case h =>
    have hd := dot_hf_dep G wf n v0 (c20OfOptBool u) v2 v3 (.stmtStr str) v5 v6
      (dotAttrsFn (σ := σ)) s
    dot_body at hd ⊢
    rcases u with _ | _ | _ <;>
    · simp only [c20OfOptBool] at hd ⊢
      c20_run []
      rw [dot_dep_loop (i := s.id) (hf := hd _ ch j1 j2 j3)]
      c20_run [dotNodeLine, dotNodeAttrs]
      simp [String.append_assoc]
      try rfl

end stmtbody

/-! ### the function -/

theorem edges_flatMap {β : Type} (F : String → String → β) : ∀ g : Graph, g.keys.Nodup →
    g.keys.flatMap (fun k => (g.get k).map (F k)) = g.edges.map fun e => F e.1 e.2
  | [], _ => rfl
  | (k, vs) :: rest, h => by
    simp only [Graph.keys, List.map_cons, List.nodup_cons] at h
    have ih := edges_flatMap F rest h.2
    have hk : Graph.get ((k, vs) :: rest) k = vs := by simp [Graph.get, List.lookup]
    have hrest : ∀ k' ∈ Graph.keys rest, Graph.get ((k, vs) :: rest) k' = Graph.get rest k' := by
      intro k' hk'
      have hne : (k' == k) = false := by
        simpa using fun e : k' = k => h.1 (e ▸ hk')
      simp [Graph.get, List.lookup, hne]
    simp only [Graph.keys, List.map_cons, List.flatMap_cons, hk, Graph.edges, List.map_append,
      List.map_map]
    congr 1
    rw [List.flatMap_congr (fun k' hk' => by rw [hrest k' hk'])]
    exact ih

/-- the statements of `get_dot_dependency_graph` after the definition of `get_node_attrs` -/
def dotTail : List C20Stmt := dotBody.drop 4

/-- the frame when the statement loop is reached -/
abbrev dotEnv0 (ss : List Stmt) (u : Option Bool) (pre post : List String) (str : Stmt → String)
    (v5 v6 : C20Val σ) : C20Env σ :=
  [("statements", .list (ss.map .stmt)), ("use_stmt_ids", c20OfOptBool u),
   ("preamble_hook", .thunk (.list (pre.map .str))),
   ("additional_lines_hook", .thunk (.list (post.map .str))),
   ("statement_stringifier", .stmtStr str), ("use_insn_ids", v5), ("warn", v6),
   ("get_node_attrs", dotAttrsFn), ("lines", .unbound), ("dep_graph", .unbound),
   ("annotation_dep_graph", .unbound), ("stmt", .unbound), ("dep", .unbound),
   ("changed_something", .unbound), ("stmt_1", .unbound), ("stmt_2", .unbound),
   ("stmt_3", .unbound)]

theorem dot_tail_eq (G : NameGen σ) (n : Nat) (ss : List Stmt)
    (u : Option Bool) (pre post : List String) (str : Stmt → String) (v5 v6 : C20Val σ) :
    c20Exec (dotCx G (fuelFor (buildGraph ss)) n) dotTail (dotEnv0 ss u pre post str v5 v6) =
      match dotText pre post (u.getD false) str ss with
      | .ok t => .ret (.str t)
      | .error _ => .fuel := by
  simp only [dotTail, dotBody, c20Fn_get_dot_dependency_graph, List.drop_succ_cons, List.drop_zero,
    dotAttrsFn, stmtAt]
  c20_run []
  rw [show (List.map C20Val.str pre ++ [C20Val.str "rankdir=BT;"] : List (C20Val σ)) =
      (pre ++ ["rankdir=BT;"]).map .str by simp,
    show (("dep_graph", C20Val.dict []) : String × C20Val σ) = ("dep_graph", .dict (encG [])) from rfl]
  dot_fold dotStmtBody
  rw [dot_stmt_loop (line := dotNodeLine (u.getD false) str)
    (hf := dot_hf_stmt G _ n _ _ _ _ _ u str _ _ _ _)]
  c20_run []
  generalize c20OutGet _ "stmt" = js
  generalize c20OutGet _ "dep" = jd
  have hbg : List.foldl (fun (g : Graph) (s : Stmt) =>
      List.foldl (fun (g : Graph) d => g.addEdge s.id d) g s.dependsOn) [] ss = buildGraph ss := rfl
  rw [hbg]
  dot_fold dotWhileBody
  rw [dot_while (hf := dot_hf_while G _ n _ _ _ _ _ _ _ _ _ _ _)]
  have hwf := (buildGraph_spec ss).1
  unfold dotText dotEdges
  cases hcl : closure (fuelFor (buildGraph ss)) (buildGraph ss) with
  | none => simp [hcl, throw, throwThe, MonadExceptOf.throw, bind, Except.bind]
  | some c =>
    have hcwf : c.WF := (closure_spec (buildGraph ss) _ _ _ hcl).2.1 hwf
    have hrwf : (reduce c).WF := reduce_WF hcwf
    generalize c20OutGet _ "changed_something" = chv
    generalize c20OutGet _ "stmt_1" = j1
    generalize c20OutGet _ "stmt_2" = j2
    generalize c20OutGet _ "stmt_3" = j3
    c20_run [keys_encG]
    dot_fold dotReduceOuterBody
    rw [dot_reduce_outer (hf := dot_hf_reduce_outer G _ n _ _ _ _ _ _ _ _ _ _ _ _)]
    generalize c20OutGet _ "stmt_1" = j1'
    generalize c20OutGet _ "stmt_2" = j2'
    generalize c20OutGet _ "stmt_3" = j3'
    c20_run [keys_encG]
    dot_fold dotEdgeOuterBody
    rw [dot_edge_outer (gr := reduce c)
      (hf := dot_hf_edge_outer G _ n _ _ _ _ _ _ _ _ (reduce c) _ _ _ _)]
    generalize c20OutGet _ "stmt_1" = j1''
    generalize c20OutGet _ "stmt_2" = j2''
    c20_run [edges_flatMap (fun a b => dotEdgeLine (a, b)) (reduce c) hrwf.1]
    rw [← List.map_append, strsOf_map_str]
    c20_run []
    simp [hcl, bind, Except.bind, pure, Except.pure, dotLines, String.append_assoc]

/-- **`get_dot_dependency_graph` of the current source is `dotText`.**  The body read from the
working tree — the `None` tests of the stringifier and the deprecated parameter, `get_node_attrs`,
the preamble lines and `rankdir=BT;`, the statement loop (one node line per statement, every
dependency recorded with `setdefault(...).add(...)`, the dead `if 0:` block), the fixed-point
closure (`while True` around three nested loops over copies, `changed_something`, `break`), the
transitive reduction (three nested loops over copies, `remove`), one `a -> b` line per remaining
entry, the (never entered) annotation loop, the additional lines, the final `%`-format — run by the
table interpreter returns exactly the text the model builds from `dotEdges`; it runs out of `while`
budget exactly when the model's closure does (never: `dot_export_total`).  For every stream, every
caller-supplied stringifier and hooks, `use_stmt_ids` ∈ {`None`, `True`, `False`}. -/
theorem dot_fn_eq_table (G : NameGen σ) (n : Nat) (cls : Option String) (ss : List Stmt)
    (u : Option Bool) (pre post : List String) (str : Stmt → String) :
    c20CallFn (cxCur G (fun xs => xs) (fuelFor (buildGraph ss))
        (c20Run (cfgCur G (fun xs => xs) (fuelFor (buildGraph ss))) (n + 2)) cls)
      c20Fn_get_dot_dependency_graph
      [.list (ss.map .stmt), c20OfOptBool u, .thunk (.list (pre.map .str)),
        .thunk (.list (post.map .str)), .stmtStr str, .none] [] [] =
      match dotText pre post (u.getD false) str ss with
      | .ok t => .ok (.str t)
      | .error _ => .fuel := by
  have ht := fun v5 v6 => dot_tail_eq G n ss u pre post str v5 v6
  simp only [dotTail, dotBody, c20Fn_get_dot_dependency_graph, List.drop_succ_cons, List.drop_zero,
    dotAttrsFn, stmtAt, dotEnv0, dotCx] at ht
  simp only [c20CallFn, c20Fn_get_dot_dependency_graph]
  rcases u with _ | _ | _ <;>
  · simp only [c20OfOptBool] at ht ⊢
    c20_run [ht]
    cases dotText pre post _ str ss <;> rfl


end PV.Imp
