import PV.Model.GA
/-
  C18 — proofs about the model `PV/Model/GA.lean`, part 1: bit level (core Lean only).
-/
namespace PV.GA

/-! ## clean popcount -/

/-- number of set bits, by binary recursion -/
def pc : Nat → Nat
  | 0 => 0
  | n+1 => (n+1) % 2 + pc ((n+1) / 2)
decreasing_by omega

@[simp] theorem pc_zero : pc 0 = 0 := by simp [pc]

theorem pc_eq (n : Nat) : pc n = n % 2 + pc (n / 2) := by
  cases n with
  | zero => simp
  | succ k => rw [pc]

theorem and_mod2 (x y : Nat) : (x &&& y) % 2 = (x % 2) * (y % 2) := by
  have := Nat.and_mod_two_pow (a := x) (b := y) (n := 1)
  simp at this
  rcases Nat.mod_two_eq_zero_or_one x with hx | hx <;>
  rcases Nat.mod_two_eq_zero_or_one y with hy | hy <;>
    simp [this, hx, hy]

theorem xor_mod2 (x y : Nat) : (x ^^^ y) % 2 = (x % 2 + y % 2) % 2 := by
  have := Nat.xor_mod_two_pow (a := x) (b := y) (n := 1)
  simp at this
  rcases Nat.mod_two_eq_zero_or_one x with hx | hx <;>
  rcases Nat.mod_two_eq_zero_or_one y with hy | hy <;>
    simp [this, hx, hy]

theorem and_div2 (x y : Nat) : (x &&& y) / 2 = (x / 2) &&& (y / 2) := by
  simpa using Nat.and_div_two_pow (a := x) (b := y) (n := 1)

theorem xor_div2 (x y : Nat) : (x ^^^ y) / 2 = (x / 2) ^^^ (y / 2) := by
  simpa using Nat.xor_div_two_pow (a := x) (b := y) (n := 1)

/-- two naturals are equal iff their lowest bits and their halves agree -/
theorem eq_iff_mod2_div2 (m n : Nat) : m = n ↔ m % 2 = n % 2 ∧ m / 2 = n / 2 := by omega

theorem pc_eq_zero_iff : ∀ n, pc n = 0 ↔ n = 0 := by
  intro n
  induction n using Nat.strongRecOn with
  | _ n ih =>
    by_cases hn : n = 0
    · subst hn; simp
    · rw [pc_eq]
      have := ih (n / 2) (by omega)
      omega

theorem pc_and_xor_parity : ∀ (x b c : Nat),
    pc (x &&& (b ^^^ c)) % 2 = (pc (x &&& b) + pc (x &&& c)) % 2 := by
  intro x
  induction x using Nat.strongRecOn with
  | _ x ih =>
    intro b c
    by_cases hx : x = 0
    · subst hx; simp
    · rw [pc_eq (x &&& (b ^^^ c)), pc_eq (x &&& b), pc_eq (x &&& c)]
      rw [and_div2, and_div2, and_div2, xor_div2]
      have ih' := ih (x / 2) (by omega) (b / 2) (c / 2)
      rw [and_mod2, and_mod2, and_mod2, xor_mod2]
      rcases Nat.mod_two_eq_zero_or_one x with hx2 | hx2 <;>
      rcases Nat.mod_two_eq_zero_or_one b with hb | hb <;>
      rcases Nat.mod_two_eq_zero_or_one c with hc | hc <;>
      simp [hx2, hb, hc] <;> omega

/-- `|a ⊕ b| + 2 |a ∩ b| = |a| + |b|` -/
theorem pc_xor_add : ∀ (a b : Nat), pc (a ^^^ b) + 2 * pc (a &&& b) = pc a + pc b := by
  intro a
  induction a using Nat.strongRecOn with
  | _ a ih =>
    intro b
    by_cases ha : a = 0
    · subst ha; simp
    · rw [pc_eq (a ^^^ b), pc_eq (a &&& b), pc_eq a, pc_eq b, and_div2, xor_div2, and_mod2,
        xor_mod2]
      have ih' := ih (a / 2) (by omega) (b / 2)
      rcases Nat.mod_two_eq_zero_or_one a with h1 | h1 <;>
      rcases Nat.mod_two_eq_zero_or_one b with h2 | h2 <;>
      simp [h1, h2] <;> omega

theorem pc_xor_parity (a b : Nat) : pc (a ^^^ b) % 2 = (pc a + pc b) % 2 := by
  have := pc_xor_add a b; omega

theorem pc_and_le_left : ∀ (a b : Nat), pc (a &&& b) ≤ pc a := by
  intro a
  induction a using Nat.strongRecOn with
  | _ a ih =>
    intro b
    by_cases ha : a = 0
    · subst ha; simp
    · rw [pc_eq (a &&& b), pc_eq a, and_div2, and_mod2]
      have ih' := ih (a / 2) (by omega) (b / 2)
      rcases Nat.mod_two_eq_zero_or_one a with h1 | h1 <;>
      rcases Nat.mod_two_eq_zero_or_one b with h2 | h2 <;>
      simp [h1, h2] <;> omega

/-- `a ∩ b` has as many elements as `a` iff `a ⊆ b` -/
theorem pc_and_eq_left_iff : ∀ (a b : Nat), pc (a &&& b) = pc a ↔ a &&& b = a := by
  intro a
  induction a using Nat.strongRecOn with
  | _ a ih =>
    intro b
    by_cases ha : a = 0
    · subst ha; simp
    · rw [eq_iff_mod2_div2 (a &&& b) a, pc_eq (a &&& b), pc_eq a, and_div2, and_mod2]
      have ih' := ih (a / 2) (by omega) (b / 2)
      have hle := pc_and_le_left (a / 2) (b / 2)
      rw [← ih']
      rcases Nat.mod_two_eq_zero_or_one a with h1 | h1 <;>
      rcases Nat.mod_two_eq_zero_or_one b with h2 | h2 <;>
      simp [h1, h2] <;> omega

/-! ## `bit_count` is popcount -/

/-- Kernighan's step `i & (i-1)` clears exactly one set bit -/
theorem pc_and_pred : ∀ i, i ≠ 0 → pc (i &&& (i - 1)) + 1 = pc i := by
  intro i
  induction i using Nat.strongRecOn with
  | _ i ih =>
    intro hi
    rw [pc_eq (i &&& (i - 1)), pc_eq i, and_div2, and_mod2]
    rcases Nat.mod_two_eq_zero_or_one i with h1 | h1
    · have h2 : (i - 1) / 2 = i / 2 - 1 := by omega
      have h3 := ih (i / 2) (by omega) (by omega)
      rw [h2, h1]; omega
    · have h2 : (i - 1) / 2 = i / 2 := by omega
      have h3 : (i - 1) % 2 = 0 := by omega
      rw [h2, h1, h3, Nat.and_self]; omega

theorem bitCountLoop_eq (i count : Nat) : bitCountLoop i count = count + pc i := by
  induction i using Nat.strongRecOn generalizing count with
  | _ i ih =>
    rw [bitCountLoop]
    split
    · next h => subst h; simp
    · next h =>
      have hlt : i &&& (i - 1) < i := by
        have : i &&& (i - 1) ≤ i - 1 := Nat.and_le_right
        omega
      rw [ih _ hlt]
      have := pc_and_pred i h
      omega

/-- (a) the Kernighan loop of `bit_count` computes the number of set bits -/
theorem bitCount_eq_popcount (i : Nat) : bitCount i = pc i := by
  simp [bitCount, bitCountLoop_eq]

/-! ## `canonical_reordering_sign` -/

/-- the loop adds `Σ_{t ≥ 0} pc ((a >>> t) &&& b)` to `s` -/
theorem reorderLoop_acc (a b s : Nat) : reorderLoop a b s = s + reorderLoop a b 0 := by
  induction a using Nat.strongRecOn generalizing s with
  | _ a ih =>
    rw [reorderLoop.eq_1 a b s, reorderLoop.eq_1 a b 0]
    split
    · simp
    · next h =>
      have hlt : a >>> 1 < a := by rw [Nat.shiftRight_eq_div_pow]; omega
      rw [ih _ hlt (s + _), ih _ hlt (0 + _)]
      omega

theorem reorderLoop_zero (b : Nat) : reorderLoop 0 b 0 = 0 := by
  rw [reorderLoop]; simp

theorem reorderLoop_step (a b : Nat) (h : a ≠ 0) :
    reorderLoop a b 0 = pc (a &&& b) + reorderLoop (a / 2) b 0 := by
  rw [reorderLoop]
  simp only [h, ↓reduceDIte]
  rw [reorderLoop_acc, bitCount_eq_popcount, Nat.shiftRight_eq_div_pow]
  simp

/-- halving both arguments of the loop -/
theorem reorderLoop_halve : ∀ (a b : Nat),
    reorderLoop a b 0 = (b % 2) * pc a + reorderLoop (a / 2) (b / 2) 0 := by
  intro a
  induction a using Nat.strongRecOn with
  | _ a ih =>
    intro b
    by_cases ha : a = 0
    · subst ha; simp [reorderLoop_zero]
    · rw [reorderLoop_step a b ha, ih (a / 2) (by omega) b]
      rw [pc_eq (a &&& b), and_mod2, and_div2, pc_eq a]
      by_cases ha2 : a / 2 = 0
      · rw [ha2]; simp [reorderLoop_zero, Nat.mul_comm]
      · rw [reorderLoop_step (a / 2) (b / 2) ha2]
        simp only [Nat.mul_add, Nat.mul_comm]
        omega

theorem reorderSignExp_zero_left (b : Nat) : reorderSignExp 0 b = 0 := by
  simp [reorderSignExp, reorderLoop_zero]

/-- (b′) the defining recursion of the inversion count: the lowest bit of `b` is overtaken by all
    bits of `a` above position 0 -/
theorem reorderSignExp_halve (a b : Nat) :
    reorderSignExp a b = (b % 2) * pc (a / 2) + reorderSignExp (a / 2) (b / 2) := by
  unfold reorderSignExp
  rw [reorderLoop_halve]
  simp [Nat.shiftRight_eq_div_pow]

theorem reorderSignExp_zero_right : ∀ a, reorderSignExp a 0 = 0 := by
  intro a
  induction a using Nat.strongRecOn with
  | _ a ih =>
    by_cases ha : a = 0
    · subst ha; exact reorderSignExp_zero_left 0
    · rw [reorderSignExp_halve]; simp [ih (a / 2) (by omega)]

/-- (b) bilinearity mod 2 in the second argument -/
theorem reorderSignExp_xor_right : ∀ (a b c : Nat),
    reorderSignExp a (b ^^^ c) % 2 = (reorderSignExp a b + reorderSignExp a c) % 2 := by
  intro a
  induction a using Nat.strongRecOn with
  | _ a ih =>
    intro b c
    by_cases ha : a = 0
    · subst ha; simp [reorderSignExp_zero_left]
    · rw [reorderSignExp_halve a (b ^^^ c), reorderSignExp_halve a b, reorderSignExp_halve a c,
        xor_div2, xor_mod2]
      have ih' := ih (a / 2) (by omega) (b / 2) (c / 2)
      rcases Nat.mod_two_eq_zero_or_one b with hb | hb <;>
      rcases Nat.mod_two_eq_zero_or_one c with hc | hc <;>
      simp [hb, hc] <;> omega

/-- (b) bilinearity mod 2 in the first argument -/
theorem reorderSignExp_xor_left : ∀ (a b c : Nat),
    reorderSignExp (a ^^^ b) c % 2 = (reorderSignExp a c + reorderSignExp b c) % 2 := by
  intro a
  induction a using Nat.strongRecOn with
  | _ a ih =>
    intro b c
    by_cases ha : a = 0
    · subst ha; simp [reorderSignExp_zero_left]
    · rw [reorderSignExp_halve (a ^^^ b) c, reorderSignExp_halve a c, reorderSignExp_halve b c,
        xor_div2]
      have ih' := ih (a / 2) (by omega) (b / 2) (c / 2)
      have hp := pc_xor_parity (a / 2) (b / 2)
      rcases Nat.mod_two_eq_zero_or_one c with hc | hc <;>
      simp [hc] <;> omega

/-- `|{(i,j) : i ∈ a, j ∈ b, i > j}| + |{(i,j) : i ∈ b, j ∈ a, i > j}| + |a ∩ b| = |a| |b|` -/
theorem reorderSignExp_swap : ∀ (a b : Nat),
    reorderSignExp a b + reorderSignExp b a + pc (a &&& b) = pc a * pc b := by
  intro a
  induction a using Nat.strongRecOn with
  | _ a ih =>
    intro b
    by_cases ha : a = 0
    · subst ha; simp [reorderSignExp_zero_left, reorderSignExp_zero_right]
    · rw [reorderSignExp_halve a b, reorderSignExp_halve b a, pc_eq (a &&& b), pc_eq a, pc_eq b,
        and_div2, and_mod2]
      have ih' := ih (a / 2) (by omega) (b / 2)
      rcases Nat.mod_two_eq_zero_or_one a with h1 | h1 <;>
      rcases Nat.mod_two_eq_zero_or_one b with h2 | h2 <;>
      simp [h1, h2, Nat.add_mul, Nat.mul_add] <;> omega

/-- the blade `a` against itself: `k (k-1) / 2` transpositions, `k = |a|` -/
theorem reorderSignExp_self : ∀ a, 2 * reorderSignExp a a = pc a * (pc a - 1) := by
  intro a
  induction a using Nat.strongRecOn with
  | _ a ih =>
    by_cases ha : a = 0
    · subst ha; simp [reorderSignExp_zero_left]
    · rw [reorderSignExp_halve a a, pc_eq a]
      have ih' := ih (a / 2) (by omega)
      rcases Nat.mod_two_eq_zero_or_one a with h1 | h1
      · simp [h1]; exact ih'
      · simp only [h1, Nat.one_mul, Nat.mul_add, Nat.add_sub_cancel_left]
        rw [ih', Nat.add_mul]
        cases pc (a / 2) with
        | zero => simp
        | succ k => simp [Nat.mul_add, Nat.add_mul]; omega


/-! ## signs -/

/-- `(-1)^n` -/
def sgn (n : Nat) : Int := if n % 2 = 0 then 1 else -1

theorem sgn_add (m n : Nat) : sgn (m + n) = sgn m * sgn n := by
  unfold sgn
  rcases Nat.mod_two_eq_zero_or_one m with h1 | h1 <;>
  rcases Nat.mod_two_eq_zero_or_one n with h2 | h2 <;>
  simp [Nat.add_mod, h1, h2]

theorem sgn_congr {m n : Nat} (h : m % 2 = n % 2) : sgn m = sgn n := by
  unfold sgn; rw [h]

theorem sgn_mul_self (n : Nat) : sgn n * sgn n = 1 := by
  unfold sgn; split <;> simp

theorem reorderSign_eq_sgn (a b : Nat) : reorderSign a b = sgn (reorderSignExp a b) := by
  unfold reorderSign sgn
  rw [Nat.and_one_is_mod]
  rcases Nat.mod_two_eq_zero_or_one (reorderSignExp a b) with h | h <;> simp [h]

theorem reorderSign_mul_self (a b : Nat) : reorderSign a b * reorderSign a b = 1 := by
  rw [reorderSign_eq_sgn]; exact sgn_mul_self _

/-- (c) the 2-cocycle identity of the reordering sign: the sign part of associativity of every
    product defined by `_generic_product` -/
theorem sign_cocycle (a b c : Nat) :
    reorderSign a b * reorderSign (a ^^^ b) c = reorderSign b c * reorderSign a (b ^^^ c) := by
  simp only [reorderSign_eq_sgn, ← sgn_add]
  apply sgn_congr
  have h1 := reorderSignExp_xor_left a b c
  have h2 := reorderSignExp_xor_right a b c
  omega

theorem revSign_eq_sgn (a : Nat) : revSign a = sgn (reorderSignExp a a) := by
  unfold revSign sgn
  simp only [bitCount_eq_popcount]
  have h := reorderSignExp_self a
  rw [← h]
  simp

/-- (g) `rev` multiplies the blade `a` by the sign of `a` against itself -/
theorem revSign_eq_reorderSign_self (a : Nat) : revSign a = reorderSign a a := by
  rw [revSign_eq_sgn, reorderSign_eq_sgn]

theorem involSign_eq_sgn (a : Nat) : involSign a = sgn (pc a) := by
  unfold involSign sgn; rw [bitCount_eq_popcount]

/-- (g) commutation law: `e_b e_a = (-1)^(|a||b| - |a ∩ b|) e_a e_b` -/
theorem reorderSign_swap (a b : Nat) :
    reorderSign b a = sgn (pc a * pc b - pc (a &&& b)) * reorderSign a b := by
  simp only [reorderSign_eq_sgn, ← sgn_add]
  apply sgn_congr
  have h := reorderSignExp_swap a b
  omega

/-- (g) `rev` is an anti-automorphism at blade level (sign part):
    `rev (e_a e_b) = rev e_b * rev e_a` -/
theorem rev_antiauto_sign (a b : Nat) :
    revSign (a ^^^ b) * reorderSign a b = reorderSign b a * (revSign b * revSign a) := by
  simp only [revSign_eq_sgn, reorderSign_eq_sgn, ← sgn_add]
  apply sgn_congr
  have h1 := reorderSignExp_xor_left a b (a ^^^ b)
  have h2 := reorderSignExp_xor_right a a b
  have h3 := reorderSignExp_xor_right b a b
  omega

/-- (g) `invol` is an automorphism at blade level (sign part) -/
theorem invol_auto_sign (a b : Nat) : involSign (a ^^^ b) = involSign a * involSign b := by
  simp only [involSign_eq_sgn, ← sgn_add]
  exact sgn_congr (pc_xor_parity a b)

/-! ## single basis vectors -/

theorem pc_two_pow : ∀ i, pc (2 ^ i) = 1 := by
  intro i
  induction i with
  | zero => simp [pc]
  | succ k ih =>
    rw [pc_eq]
    have h1 : 2 ^ (k + 1) % 2 = 0 := by rw [Nat.pow_succ]; omega
    have h2 : 2 ^ (k + 1) / 2 = 2 ^ k := by rw [Nat.pow_succ]; omega
    rw [h1, h2, ih]

theorem xor_eq_zero_iff (a b : Nat) : a ^^^ b = 0 ↔ a = b := by
  constructor
  · intro h
    have : a ^^^ (a ^^^ b) = a := by rw [h]; simp
    rw [← Nat.xor_assoc, Nat.xor_self, Nat.zero_xor] at this
    exact this.symm
  · intro h; subst h; exact Nat.xor_self a

theorem two_pow_and_two_pow_ne {i j : Nat} (h : i ≠ j) : 2 ^ i &&& 2 ^ j = 0 := by
  apply Nat.eq_of_testBit_eq
  intro k
  simp only [Nat.testBit_and, Nat.testBit_two_pow, Nat.zero_testBit]
  by_cases h1 : i = k <;> by_cases h2 : j = k <;> simp [h1, h2]
  omega

/-- `e_i e_j` is in canonical order iff `i ≤ j`: one transposition otherwise -/
theorem reorderSignExp_two_pow : ∀ (i j : Nat),
    reorderSignExp (2 ^ i) (2 ^ j) = if j < i then 1 else 0 := by
  intro i
  induction i with
  | zero =>
    intro j
    rw [reorderSignExp_halve]
    simp [reorderSignExp_zero_left]
  | succ k ih =>
    intro j
    rw [reorderSignExp_halve]
    have h2 : 2 ^ (k + 1) / 2 = 2 ^ k := by rw [Nat.pow_succ]; omega
    rw [h2, pc_two_pow]
    cases j with
    | zero => simp [reorderSignExp_zero_right]
    | succ l =>
      have h1 : 2 ^ (l + 1) % 2 = 0 := by rw [Nat.pow_succ]; omega
      have h3 : 2 ^ (l + 1) / 2 = 2 ^ l := by rw [Nat.pow_succ]; omega
      rw [h1, h3, ih l]
      simp

/-- (e) sign part of `e_i e_i = g i`: the sign is `+1` and the result is the scalar blade -/
theorem basis_square_sign (i : Nat) : reorderSign (2 ^ i) (2 ^ i) = 1 ∧ 2 ^ i ^^^ 2 ^ i = 0 := by
  refine ⟨?_, Nat.xor_self _⟩
  rw [reorderSign_eq_sgn, reorderSignExp_two_pow]; simp [sgn]

/-- (e) `e_i e_j = - e_j e_i` for `i ≠ j` (sign part) -/
theorem basis_anticommute_sign {i j : Nat} (h : i ≠ j) :
    reorderSign (2 ^ i) (2 ^ j) = - reorderSign (2 ^ j) (2 ^ i) := by
  simp only [reorderSign_eq_sgn, reorderSignExp_two_pow, sgn]
  by_cases h1 : j < i
  · have : ¬ i < j := by omega
    simp [h1, this]
  · have : i < j := by omega
    simp [h1, this]

/-! ## grade conditions (bit level) -/

/-- outer product: disjoint blades ⇔ grades add -/
theorem disjoint_iff_grade (a b : Nat) : a &&& b = 0 ↔ pc (a ^^^ b) = pc a + pc b := by
  have h := pc_xor_add a b
  rw [← pc_eq_zero_iff]
  omega

/-- left contraction: `a ⊆ b` ⇔ the grade drops by `|a|` -/
theorem subset_iff_grade (a b : Nat) :
    a &&& b = a ↔ pc a ≤ pc b ∧ pc (a ^^^ b) = pc b - pc a := by
  have h := pc_xor_add a b
  have hle := pc_and_le_left a b
  rw [← pc_and_eq_left_iff]
  omega

/-- right contraction: `b ⊆ a` -/
theorem supset_iff_grade (a b : Nat) :
    a &&& b = b ↔ pc b ≤ pc a ∧ pc (a ^^^ b) = pc a - pc b := by
  have := subset_iff_grade b a
  rw [Nat.and_comm, Nat.xor_comm]
  exact this

/-- scalar product: equal blades ⇔ grade 0 -/
theorem eq_iff_grade (a b : Nat) : a = b ↔ pc (a ^^^ b) = 0 := by
  rw [pc_eq_zero_iff, xor_eq_zero_iff]

/-- inner product as coded: one blade contains the other ⇔ grade `| |a| - |b| |` -/
theorem nested_iff_grade (a b : Nat) :
    (a &&& b = a ∨ a &&& b = b) ↔ pc (a ^^^ b) = max (pc a - pc b) (pc b - pc a) := by
  rw [subset_iff_grade, supset_iff_grade]
  omega


/-! ## the exponent is the number of inversions -/

/-- `|{(i, j) : i, j < n, bit i of a set, bit j of b set, j < i}|`: the number of pairs of basis
    vectors that are out of order in the concatenation `e_a e_b` -/
def inversions (n a b : Nat) : Nat :=
  ((List.range n).map fun j =>
    ((List.range n).map fun i =>
      if (b.testBit j && a.testBit i && decide (j < i)) = true then 1 else 0).sum).sum

theorem sum_map_zero {α : Type} (l : List α) : (l.map fun _ => (0 : Nat)).sum = 0 := by
  induction l with
  | nil => rfl
  | cons x xs ih => simpa using ih

/-- the bits of `a` at positions `≥ m`, counted one by one -/
theorem pc_shiftRight_eq_sum : ∀ (n a m : Nat), a < 2 ^ n →
    pc (a >>> m) = ((List.range n).map fun i =>
      if (decide (m ≤ i) && a.testBit i) = true then 1 else 0).sum := by
  intro n
  induction n with
  | zero => intro a m h; have : a = 0 := by simpa using h
            subst this; simp
  | succ n ih =>
    intro a m h
    have h2 : a / 2 < 2 ^ n := by rw [Nat.pow_succ] at h; omega
    rw [List.range_succ_eq_map, List.map_cons, List.sum_cons, List.map_map]
    cases m with
    | zero =>
      have e := ih (a / 2) 0 h2
      simp only [Nat.shiftRight_zero, Nat.zero_le, decide_true, Bool.true_and] at e ⊢
      rw [pc_eq a, e, Nat.testBit_zero]
      congr 1
      · rcases Nat.mod_two_eq_zero_or_one a with h1 | h1 <;> simp [h1]
      · congr 1
        apply List.map_congr_left
        intro i _
        simp [Function.comp, Nat.testBit_succ]
    | succ m' =>
      have e := ih (a / 2) m' h2
      rw [Nat.shiftRight_succ_inside, e]
      simp only [Nat.le_zero_eq, Nat.add_one_ne_zero, decide_false, Bool.false_and,
        Bool.false_eq_true, ↓reduceIte, Nat.zero_add]
      congr 1
      apply List.map_congr_left
      intro i _
      simp [Function.comp, Nat.testBit_succ]

theorem reorderSignExp_eq_sum : ∀ (n a b : Nat), b < 2 ^ n →
    reorderSignExp a b = ((List.range n).map fun j =>
      if b.testBit j = true then pc (a >>> (j + 1)) else 0).sum := by
  intro n
  induction n with
  | zero => intro a b h; have : b = 0 := by simpa using h
            subst this; simp [reorderSignExp_zero_right]
  | succ n ih =>
    intro a b h
    have h2 : b / 2 < 2 ^ n := by rw [Nat.pow_succ] at h; omega
    rw [List.range_succ_eq_map, List.map_cons, List.sum_cons, List.map_map, reorderSignExp_halve,
      ih (a / 2) (b / 2) h2, Nat.testBit_zero]
    congr 1
    · rcases Nat.mod_two_eq_zero_or_one b with h1 | h1 <;>
        simp [h1, Nat.shiftRight_eq_div_pow]
    · congr 1
      apply List.map_congr_left
      intro j _
      simp only [Function.comp, Nat.succ_eq_add_one, Nat.testBit_succ]
      rw [Nat.shiftRight_succ_inside a (j + 1)]

/-- (b, optional) `canonical_reordering_sign` counts inversions: the accumulated `s` is the number
    of pairs (basis vector of `a`, basis vector of `b`) that have to be swapped -/
theorem reorderSignExp_eq_inversions (n a b : Nat) (ha : a < 2 ^ n) (hb : b < 2 ^ n) :
    reorderSignExp a b = inversions n a b := by
  rw [reorderSignExp_eq_sum n a b hb]
  unfold inversions
  congr 1
  apply List.map_congr_left
  intro j _
  cases hbj : b.testBit j with
  | false => simp [sum_map_zero]
  | true =>
    rw [if_pos rfl, pc_shiftRight_eq_sum n a (j + 1) ha]
    congr 1
    apply List.map_congr_left
    intro i _
    have : (j + 1 ≤ i) = (j < i) := by simp [Nat.lt_iff_add_one_le]
    simp only [Bool.true_and, this, Bool.and_comm]

end PV.GA
