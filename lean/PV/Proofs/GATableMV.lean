import PV.Proofs.GATable
/-
  C18 (T-gen), part 2: the `MultiVector` methods of the expected function table are the model's
  dictionary functions.
-/
set_option linter.unusedSectionVars false
set_option linter.unusedVariables false
set_option linter.unusedSimpArgs false
namespace PV.GA.C18T

section
variable {R : Type} [Add R] [Mul R] [Neg R] [OfNat R 0] [OfNat R 1]

@[simp] theorem c18Global_isinstance :
    (c18Global c18ExpectedModule "isinstance" : C18Res (C18Val R)) = .ok (.prim "isinstance") := rfl
@[simp] theorem c18Global_np :
    (c18Global c18ExpectedModule "np" : C18Res (C18Val R)) = .ok (.prim "numpy") := rfl
@[simp] theorem c18Global_dict :
    (c18Global c18ExpectedModule "dict" : C18Res (C18Val R)) = .ok (.prim "dict") := rfl
@[simp] theorem c18Global_tuple :
    (c18Global c18ExpectedModule "tuple" : C18Res (C18Val R)) = .ok (.prim "tuple") := rfl
@[simp] theorem c18Global_MultiVector :
    (c18Global c18ExpectedModule "MultiVector" : C18Res (C18Val R)) = .ok (.cls "MultiVector") := rfl
@[simp] theorem c18Global_NotImplemented :
    (c18Global c18ExpectedModule "NotImplemented" : C18Res (C18Val R)) = .ok .notImplemented := rfl
@[simp] theorem c18Global_cast :
    (c18Global c18ExpectedModule "_cast_or_ni" : C18Res (C18Val R)) = .ok (.fn "_cast_or_ni") := rfl
@[simp] theorem c18Global_hash :
    (c18Global c18ExpectedModule "hash" : C18Res (C18Val R)) = .ok (.prim "hash") := rfl

@[simp] theorem c18GetAttr_prim (rt : C18Rt R) (m a : String) :
    c18GetAttr rt (.prim m : C18Val R) a = .ok (.prim (m ++ "." ++ a)) := rfl

@[simp] theorem c18Prim_isinstance_dict_ndarray (rt : C18Rt R) (d : MVOf R) :
    c18Prim rt "isinstance" [.dict d, .prim "numpy.ndarray"] [] = .ok (.bool false) := rfl
@[simp] theorem c18Prim_isinstance_dict_dict (rt : C18Rt R) (d : MVOf R) :
    c18Prim rt "isinstance" [.dict d, .prim "dict"] [] = .ok (.bool true) := rfl
@[simp] theorem c18Prim_isinstance_nat_tuple (rt : C18Rt R) (k : Nat) :
    c18Prim rt "isinstance" [.nat k, .prim "tuple"] [] = .ok (.bool false) := rfl
@[simp] theorem c18Prim_isinstance_coef_ndarray (rt : C18Rt R) (c : R) :
    c18Prim rt "isinstance" [.coef c, .prim "numpy.ndarray"] [] = .ok (.bool false) := rfl
@[simp] theorem c18Prim_isinstance_coef_dict (rt : C18Rt R) (c : R) :
    c18Prim rt "isinstance" [.coef c, .prim "dict"] [] = .ok (.bool false) := rfl
@[simp] theorem c18Prim_isinstance_obj_mv (rt : C18Rt R) (s : Bool) (d : Option (MVOf R)) :
    c18Prim rt "isinstance" [.obj s d, .cls "MultiVector"] [] = .ok (.bool true) := rfl
@[simp] theorem c18Prim_isinstance_coef_mv (rt : C18Rt R) (c : R) :
    c18Prim rt "isinstance" [.coef c, .cls "MultiVector"] [] = .ok (.bool false) := rfl

@[simp] theorem c18CallMethod_dict_items (rt : C18Rt R) (d : MVOf R) :
    c18CallMethod rt (.dict d) "items" [] [] = .ok (.list (c18Items d)) := rfl
@[simp] theorem c18CallMethod_dict_keys (rt : C18Rt R) (d : MVOf R) :
    c18CallMethod rt (.dict d) "keys" [] [] = .ok (.list (d.map fun (k, _) => .nat k)) := rfl

@[simp] theorem c18Prim_single_valued (rt : C18Rt R) (b : Bool) (rest : List (C18Val R)) :
    c18Prim rt "pytools.single_valued" [.list (.bool b :: rest)] []
      = if rest.all (fun x => match x with | .bool c => c == b | _ => false) then .ok (.bool b)
        else .raise "ValueError" := rfl

/-! ## `MultiVector.__init__` on a bitmap dict -/

/-- the environment of `__init__` when the `data.keys()` generator runs -/
def initEnv (d : MVOf R) (iz : C18Val R) : C18Env R :=
  [("self", .obj false none), ("data", .dict d), ("space", .space), ("dimensions", .none),
   ("_is_zero", iz), ("single_valued", .prim "pytools.single_valued"),
   ("is_zero", .prim "pymbolic.primitives.is_zero"), ("new_data", .unbound),
   ("basis_indices", .unbound), ("coeff", .unbound), ("bits", .unbound), ("sign", .unbound),
   ("new_coeff", .unbound)]

theorem init_keys_gen (rt : C18Rt R) (hM : rt.M = c18ExpectedModule) (d0 : MVOf R)
    (iz : C18Val R) :
    ∀ (d : MVOf R) (acc : List (C18Val R)),
    (d.map fun (k, _) => (C18Val.nat k : C18Val R)).foldl
      (c18GenStep (c18Cond rt) (c18EvalList rt [])
        (c18Eval rt (.call (.name "isinstance") [(.name "k"), (.name "tuple")] [] [])) ["k"]
        (initEnv d0 iz)) (.ok acc)
      = .ok (acc ++ d.map fun _ => .bool false) := by
  intro d
  induction d with
  | nil => intro acc; simp
  | cons x xs ih =>
    intro acc
    obtain ⟨k, c⟩ := x
    simp only [List.map_cons, List.foldl_cons]
    have : c18GenStep (c18Cond rt) (c18EvalList rt [])
        (c18Eval rt (.call (.name "isinstance") [(.name "k"), (.name "tuple")] [] [])) ["k"]
        (initEnv d0 iz) (.ok acc) (.nat k) = .ok (acc ++ [.bool false]) := by
      simp only [c18GenStep, initEnv, c18BindNames]
      c18sym [hM]
    rw [this, ih]
    simp

theorem all_bool_false (xs : List (Nat × R)) :
    (xs.map fun _ => (C18Val.bool false : C18Val R)).all
      (fun x => match x with | .bool c => c == false | _ => false) = true := by
  induction xs with
  | nil => rfl
  | cons x xs ih => simp [ih]

/-- **constructing a `MultiVector` from a bitmap dict stores the dict as given** -/
theorem c18_init_dict (Γ : C18Ctx R) (fuel : Nat) (callee : C18Callee R) (d : MVOf R) :
    c18RunFn c18ExpectedModule Γ fuel callee c18X_MultiVector___init__
      [.obj false none, .dict d, .space] [] = .ok (.mv d) := by
  simp only [c18RunFn, c18X_MultiVector___init__, c18BindArgs, List.nil_append, List.cons_append,
    List.map_cons, List.map_nil]
  cases d with
  | nil => c18sym
  | cons x xs =>
    obtain ⟨k, c⟩ := x
    have hgen := init_keys_gen (c18Rt Γ fuel callee) rfl ((k, c) :: xs) .unbound ((k, c) :: xs) []
    simp only [initEnv, List.map_cons, List.nil_append] at hgen
    c18sym [hgen, all_bool_false]

/-- what a body that instantiates `MultiVector(dict, space)` needs of its callee -/
def C18HasInit (callee : C18Callee R) : Prop :=
  ∀ d : MVOf R, callee "MultiVector.__init__" [.obj false none, .dict d, .space] [] = .ok (.mv d)

@[simp] theorem c18Apply_cls_mv (rt : C18Rt R) (hM : rt.M = c18ExpectedModule)
    (args : List (C18Val R)) :
    c18Apply rt (.cls "MultiVector") args [] = rt.callee "MultiVector.__init__"
      (.obj false none :: args) [] := by
  simp only [c18Apply, hM]
  rfl

/-! ## loops over `self.data.items()` that fill `new_data` -/

/-- keys of a dict value -/
abbrev dkeys (a : MVOf R) : List Nat := a.map (·.1)

theorem dictSet_append_of_not_mem (acc : MVOf R) (k : Nat) (v : R) (h : k ∉ dkeys acc) :
    dictSet acc k v = acc ++ [(k, v)] := by
  induction acc with
  | nil => rfl
  | cons p acc ih =>
    obtain ⟨k', v'⟩ := p
    simp only [dkeys, List.map_cons, List.mem_cons, not_or] at h
    have hne : ¬ k' = k := fun e => h.1 e.symm
    simp only [dictSet, hne, if_false, List.cons_append]
    rw [ih h.2]

/-- filling a dict item by item from a list with distinct keys is `filterMap` -/
theorem foldl_dictSet_filterMap (f : Nat → R → Option R) :
    ∀ (a acc : MVOf R), (dkeys a).Nodup → (∀ k ∈ dkeys a, k ∉ dkeys acc) →
    a.foldl (fun acc (p : Nat × R) => match f p.1 p.2 with
        | some v => dictSet acc p.1 v | none => acc) acc
      = acc ++ a.filterMap (fun p => (f p.1 p.2).map fun v => (p.1, v)) := by
  intro a
  induction a with
  | nil => intro acc _ _; simp
  | cons p a ih =>
    intro acc hnd hdis
    obtain ⟨k, c⟩ := p
    simp only [dkeys, List.map_cons, List.nodup_cons] at hnd
    simp only [List.foldl_cons, List.filterMap_cons]
    cases hf : f k c with
    | none =>
      simp only [Option.map_none]
      exact ih acc hnd.2 fun k' hk' => hdis k' (List.mem_cons_of_mem _ hk')
    | some v =>
      simp only [Option.map_some]
      rw [dictSet_append_of_not_mem acc k v (hdis k (List.mem_cons_self))]
      rw [ih _ hnd.2]
      · simp
      · intro k' hk'
        simp only [dkeys, List.map_append, List.map_cons, List.map_nil, List.mem_append,
          List.mem_singleton, not_or]
        refine ⟨hdis k' (List.mem_cons_of_mem _ hk'), ?_⟩
        rintro rfl
        exact hnd.1 hk'

/-- the fold step of a `for bits, coeff in ….items()` loop that stores `f bits coeff` -/
def fillStep (f : Nat → R → Option R) (acc : MVOf R) : C18Val R → MVOf R
  | .tuple [.nat k, .coef c] => match f k c with
    | some v => dictSet acc k v
    | none => acc
  | _ => acc

theorem foldl_fillStep (f : Nat → R → Option R) (a : MVOf R) (acc : MVOf R) :
    (c18Items a).foldl (fillStep f) acc
      = a.foldl (fun acc (p : Nat × R) => match f p.1 p.2 with
        | some v => dictSet acc p.1 v | none => acc) acc := by
  induction a generalizing acc with
  | nil => rfl
  | cons p a ih =>
    obtain ⟨k, c⟩ := p
    simp only [c18Items, List.map_cons, List.foldl_cons, fillStep]
    exact ih _

theorem fill_eq (f : Nat → R → Option R) (a : MVOf R) (hnd : (dkeys a).Nodup) :
    (c18Items a).foldl (fillStep f) []
      = a.filterMap (fun p => (f p.1 p.2).map fun v => (p.1, v)) := by
  rw [foldl_fillStep, foldl_dictSet_filterMap f a [] hnd (by simp [dkeys])]
  simp

theorem mem_c18Items {a : MVOf R} {x : C18Val R} (h : x ∈ c18Items a) :
    ∃ k c, (k, c) ∈ a ∧ x = .tuple [.nat k, .coef c] := by
  simp only [c18Items, List.mem_map] at h
  obtain ⟨⟨k, c⟩, hm, rfl⟩ := h
  exact ⟨k, c, hm, rfl⟩

/-! ### `rev` -/

section Rev
variable (Γ : C18Ctx R) (fuel : Nat) (callee : C18Callee R)

def revF (k : Nat) (c : R) : Option R :=
  some (if bitCount k * (bitCount k - 1) / 2 % 2 = 0 then c else -c)

theorem rev_eq_filterMap (a : MVOf R) :
    rev a = a.filterMap (fun p => (revF p.1 p.2).map fun v => (p.1, v)) := by
  induction a with
  | nil => rfl
  | cons p a ih =>
    obtain ⟨k, c⟩ := p
    simp only [rev, List.map_cons, List.filterMap_cons, revF, Option.map_some] at ih ⊢
    rw [← ih]
    by_cases h : bitCount k * (bitCount k - 1) / 2 % 2 = 0 <;> simp [h]

/-- the value of `grade*(grade-1)` as the table computes it -/
theorem grade_pred_val (rt : C18Rt R) (g : Nat) :
    (if 1 ≤ g then (C18Val.nat (g - 1) : C18Val R) else .neg (1 - g - 1)) =
      if g = 0 then .neg 0 else .nat (g - 1) := by
  by_cases h : g = 0
  · subst h; simp
  · have : 1 ≤ g := by omega
    simp [h, this]

theorem c18_rev (hbc : C18HasBitCount fuel callee) (hinit : C18HasInit callee) (a : MVOf R)
    (hnd : (dkeys a).Nodup) (hk : ∀ k ∈ dkeys a, k < fuel) :
    c18RunFn c18ExpectedModule Γ fuel callee c18X_MultiVector_rev [.mv a] [] = .ok (.mv (rev a)) := by
  simp only [c18RunFn, c18X_MultiVector_rev, c18BindArgs, List.nil_append, List.cons_append,
    List.map_cons, List.map_nil]
  obtain ⟨env', hfor, b, c, g, rfl⟩ := c18For_fold
    (bind := c18BindNames ["bits", "coeff"])
    (body := c18ExecList (c18Rt Γ fuel callee) [
        .assign [.name "grade"] false (.call (.name "bit_count") [(.name "bits")] [] []),
        .ifThen (.cmp .eq (.bin .mod (.bin .floordiv (.bin .mul (.name "grade") (.bin .sub (.name "grade") (.nat 1))) (.nat 2)) (.nat 2)) (.nat 0))
          [.assign [.index "new_data" (.name "bits")] false (.name "coeff")]
          [.assign [.index "new_data" (.name "bits")] false (.un .neg (.name "coeff"))]])
    (fun env acc => ∃ b c g, env = [("self", .mv a), ("new_data", .dict acc), ("bits", b),
      ("coeff", c), ("grade", g)]) (fillStep revF) (c18Items a)
    [("self", .mv a), ("new_data", .dict []), ("bits", .unbound), ("coeff", .unbound),
      ("grade", .unbound)] [] ⟨_, _, _, rfl⟩
    (by
      intro env acc x hx ⟨b, c', g, henv⟩
      obtain ⟨k, c, hmem, rfl⟩ := mem_c18Items hx
      have hkf : k < fuel := hk k (List.mem_map.mpr ⟨(k, c), hmem, rfl⟩)
      subst henv
      refine ⟨[("self", .mv a), ("new_data", .dict acc), ("bits", .nat k), ("coeff", .coef c),
        ("grade", g)], [("self", .mv a), ("new_data", .dict (fillStep revF acc
          (.tuple [.nat k, .coef c]))), ("bits", .nat k), ("coeff", .coef c),
        ("grade", .nat (bitCount k))], ?_, ?_, ⟨_, _, _, rfl⟩⟩
      · simp [c18BindNames, c18Set]
      · by_cases hg0 : bitCount k = 0
        · c18sym [hbc k hkf, fillStep, revF, hg0]
        · have h1 : 1 ≤ bitCount k := by omega
          by_cases hg : bitCount k * (bitCount k - 1) / 2 % 2 = 0
          · c18sym [hbc k hkf, fillStep, revF, hg, h1]
          · have hg' : (bitCount k * (bitCount k - 1) / 2 % 2 == 0) = false := by simp [hg]
            c18sym [hbc k hkf, fillStep, revF, hg, hg', h1])
  c18sym [hfor, hinit _, fill_eq revF a hnd, rev_eq_filterMap]
end Rev

/-! ### `invol` -/

section Invol
variable (Γ : C18Ctx R) (fuel : Nat) (callee : C18Callee R)

def involF (k : Nat) (c : R) : Option R := some (if bitCount k % 2 = 0 then c else -c)

theorem invol_eq_filterMap (a : MVOf R) :
    invol a = a.filterMap (fun p => (involF p.1 p.2).map fun v => (p.1, v)) := by
  induction a with
  | nil => rfl
  | cons p a ih =>
    obtain ⟨k, c⟩ := p
    simp only [invol, List.map_cons, List.filterMap_cons, involF, Option.map_some] at ih ⊢
    rw [← ih]
    by_cases h : bitCount k % 2 = 0 <;> simp [h]

theorem c18_invol (hbc : C18HasBitCount fuel callee) (hinit : C18HasInit callee) (a : MVOf R)
    (hnd : (dkeys a).Nodup) (hk : ∀ k ∈ dkeys a, k < fuel) :
    c18RunFn c18ExpectedModule Γ fuel callee c18X_MultiVector_invol [.mv a] []
      = .ok (.mv (invol a)) := by
  simp only [c18RunFn, c18X_MultiVector_invol, c18BindArgs, List.nil_append, List.cons_append,
    List.map_cons, List.map_nil]
  obtain ⟨env', hfor, b, c, g, rfl⟩ := c18For_fold
    (bind := c18BindNames ["bits", "coeff"])
    (body := c18ExecList (c18Rt Γ fuel callee) [
        .assign [.name "grade"] false (.call (.name "bit_count") [(.name "bits")] [] []),
        .ifThen (.cmp .eq (.bin .mod (.name "grade") (.nat 2)) (.nat 0))
          [.assign [.index "new_data" (.name "bits")] false (.name "coeff")]
          [.assign [.index "new_data" (.name "bits")] false (.un .neg (.name "coeff"))]])
    (fun env acc => ∃ b c g, env = [("self", .mv a), ("new_data", .dict acc), ("bits", b),
      ("coeff", c), ("grade", g)]) (fillStep involF) (c18Items a)
    [("self", .mv a), ("new_data", .dict []), ("bits", .unbound), ("coeff", .unbound),
      ("grade", .unbound)] [] ⟨_, _, _, rfl⟩
    (by
      intro env acc x hx ⟨b, c', g, henv⟩
      obtain ⟨k, c, hmem, rfl⟩ := mem_c18Items hx
      have hkf : k < fuel := hk k (List.mem_map.mpr ⟨(k, c), hmem, rfl⟩)
      subst henv
      refine ⟨[("self", .mv a), ("new_data", .dict acc), ("bits", .nat k), ("coeff", .coef c),
        ("grade", g)], [("self", .mv a), ("new_data", .dict (fillStep involF acc
          (.tuple [.nat k, .coef c]))), ("bits", .nat k), ("coeff", .coef c),
        ("grade", .nat (bitCount k))], ?_, ?_, ⟨_, _, _, rfl⟩⟩
      · simp [c18BindNames, c18Set]
      · rcases Nat.mod_two_eq_zero_or_one (bitCount k) with hg | hg <;>
          c18sym [hbc k hkf, fillStep, involF, hg])
  c18sym [hfor, hinit _, fill_eq involF a hnd, invol_eq_filterMap]
end Invol

/-! ### `project`, `odd`, `even` -/

section Filters
variable (Γ : C18Ctx R) (fuel : Nat) (callee : C18Callee R)

def keepF (p : Nat → Bool) (k : Nat) (c : R) : Option R := if p k then some c else none

theorem filter_eq_filterMap (p : Nat → Bool) (a : MVOf R) :
    a.filter (fun x => p x.1) = a.filterMap (fun x => (keepF p x.1 x.2).map fun v => (x.1, v)) := by
  induction a with
  | nil => rfl
  | cons x a ih =>
    obtain ⟨k, c⟩ := x
    simp only [List.filter_cons, List.filterMap_cons, keepF]
    cases hp : p k <;> simp [ih, keepF]

theorem c18_project (hbc : C18HasBitCount fuel callee) (hinit : C18HasInit callee) (a : MVOf R)
    (r : Nat) (hnd : (dkeys a).Nodup) (hk : ∀ k ∈ dkeys a, k < fuel) :
    c18RunFn c18ExpectedModule Γ fuel callee c18X_MultiVector_project [.mv a, .nat r] []
      = .ok (.mv (project a r)) := by
  simp only [c18RunFn, c18X_MultiVector_project, c18BindArgs, List.nil_append, List.cons_append,
    List.map_cons, List.map_nil]
  obtain ⟨env', hfor, b, c, rfl⟩ := c18For_fold
    (bind := c18BindNames ["bits", "coeff"])
    (body := c18ExecList (c18Rt Γ fuel callee) [
        .ifThen (.cmp .eq (.call (.name "bit_count") [(.name "bits")] [] []) (.name "r"))
          [.assign [.index "new_data" (.name "bits")] false (.name "coeff")] []])
    (fun env acc => ∃ b c, env = [("self", .mv a), ("r", .nat r), ("new_data", .dict acc),
      ("bits", b), ("coeff", c)]) (fillStep (keepF fun k => bitCount k = r)) (c18Items a)
    [("self", .mv a), ("r", .nat r), ("new_data", .dict []), ("bits", .unbound),
      ("coeff", .unbound)] [] ⟨_, _, rfl⟩
    (by
      intro env acc x hx ⟨b, c', henv⟩
      obtain ⟨k, c, hmem, rfl⟩ := mem_c18Items hx
      have hkf : k < fuel := hk k (List.mem_map.mpr ⟨(k, c), hmem, rfl⟩)
      subst henv
      refine ⟨[("self", .mv a), ("r", .nat r), ("new_data", .dict acc), ("bits", .nat k),
        ("coeff", .coef c)], [("self", .mv a), ("r", .nat r), ("new_data", .dict (fillStep
          (keepF fun k => bitCount k = r) acc (.tuple [.nat k, .coef c]))), ("bits", .nat k),
        ("coeff", .coef c)], ?_, ?_, ⟨_, _, rfl⟩⟩
      · simp [c18BindNames, c18Set]
      · by_cases hg : bitCount k = r
        · have hg' : (bitCount k == r) = true := by simp [hg]
          c18sym [hbc k hkf, fillStep, keepF, hg, hg']
        · have hg' : (bitCount k == r) = false := by simp [hg]
          c18sym [hbc k hkf, fillStep, keepF, hg, hg'])
  have hp : project a r = a.filter (fun x => (fun k => decide (bitCount k = r)) x.1) := by
    simp only [project]
  c18sym [hfor, hinit _, fill_eq _ a hnd, hp]
  exact (filter_eq_filterMap _ a).symm

theorem c18_odd (hbc : C18HasBitCount fuel callee) (hinit : C18HasInit callee) (a : MVOf R)
    (hnd : (dkeys a).Nodup) (hk : ∀ k ∈ dkeys a, k < fuel) :
    c18RunFn c18ExpectedModule Γ fuel callee c18X_MultiVector_odd [.mv a] []
      = .ok (.mv (odd a)) := by
  simp only [c18RunFn, c18X_MultiVector_odd, c18BindArgs, List.nil_append, List.cons_append,
    List.map_cons, List.map_nil]
  obtain ⟨env', hfor, b, c, rfl⟩ := c18For_fold
    (bind := c18BindNames ["bits", "coeff"])
    (body := c18ExecList (c18Rt Γ fuel callee) [
        .ifThen (.bin .mod (.call (.name "bit_count") [(.name "bits")] [] []) (.nat 2))
          [.assign [.index "new_data" (.name "bits")] false (.name "coeff")] []])
    (fun env acc => ∃ b c, env = [("self", .mv a), ("new_data", .dict acc),
      ("bits", b), ("coeff", c)]) (fillStep (keepF fun k => bitCount k % 2 ≠ 0)) (c18Items a)
    [("self", .mv a), ("new_data", .dict []), ("bits", .unbound), ("coeff", .unbound)] []
    ⟨_, _, rfl⟩
    (by
      intro env acc x hx ⟨b, c', henv⟩
      obtain ⟨k, c, hmem, rfl⟩ := mem_c18Items hx
      have hkf : k < fuel := hk k (List.mem_map.mpr ⟨(k, c), hmem, rfl⟩)
      subst henv
      refine ⟨[("self", .mv a), ("new_data", .dict acc), ("bits", .nat k),
        ("coeff", .coef c)], [("self", .mv a), ("new_data", .dict (fillStep
          (keepF fun k => bitCount k % 2 ≠ 0) acc (.tuple [.nat k, .coef c]))), ("bits", .nat k),
        ("coeff", .coef c)], ?_, ?_, ⟨_, _, rfl⟩⟩
      · simp [c18BindNames, c18Set]
      · rcases Nat.mod_two_eq_zero_or_one (bitCount k) with hg | hg <;>
          c18sym [hbc k hkf, fillStep, keepF, hg])
  have hp : odd a = a.filter (fun x => (fun k => decide (bitCount k % 2 ≠ 0)) x.1) := by
    simp only [odd]
  c18sym [hfor, hinit _, fill_eq _ a hnd, hp]
  exact (filter_eq_filterMap _ a).symm

theorem c18_even (hbc : C18HasBitCount fuel callee) (hinit : C18HasInit callee) (a : MVOf R)
    (hnd : (dkeys a).Nodup) (hk : ∀ k ∈ dkeys a, k < fuel) :
    c18RunFn c18ExpectedModule Γ fuel callee c18X_MultiVector_even [.mv a] []
      = .ok (.mv (even a)) := by
  simp only [c18RunFn, c18X_MultiVector_even, c18BindArgs, List.nil_append, List.cons_append,
    List.map_cons, List.map_nil]
  obtain ⟨env', hfor, b, c, rfl⟩ := c18For_fold
    (bind := c18BindNames ["bits", "coeff"])
    (body := c18ExecList (c18Rt Γ fuel callee) [
        .ifThen (.cmp .eq (.bin .mod (.call (.name "bit_count") [(.name "bits")] [] []) (.nat 2))
            (.nat 0))
          [.assign [.index "new_data" (.name "bits")] false (.name "coeff")] []])
    (fun env acc => ∃ b c, env = [("self", .mv a), ("new_data", .dict acc),
      ("bits", b), ("coeff", c)]) (fillStep (keepF fun k => bitCount k % 2 = 0)) (c18Items a)
    [("self", .mv a), ("new_data", .dict []), ("bits", .unbound), ("coeff", .unbound)] []
    ⟨_, _, rfl⟩
    (by
      intro env acc x hx ⟨b, c', henv⟩
      obtain ⟨k, c, hmem, rfl⟩ := mem_c18Items hx
      have hkf : k < fuel := hk k (List.mem_map.mpr ⟨(k, c), hmem, rfl⟩)
      subst henv
      refine ⟨[("self", .mv a), ("new_data", .dict acc), ("bits", .nat k),
        ("coeff", .coef c)], [("self", .mv a), ("new_data", .dict (fillStep
          (keepF fun k => bitCount k % 2 = 0) acc (.tuple [.nat k, .coef c]))), ("bits", .nat k),
        ("coeff", .coef c)], ?_, ?_, ⟨_, _, rfl⟩⟩
      · simp [c18BindNames, c18Set]
      · rcases Nat.mod_two_eq_zero_or_one (bitCount k) with hg | hg <;>
          c18sym [hbc k hkf, fillStep, keepF, hg])
  have hp : even a = a.filter (fun x => (fun k => decide (bitCount k % 2 = 0)) x.1) := by
    simp only [even]
  c18sym [hfor, hinit _, fill_eq _ a hnd, hp]
  exact (filter_eq_filterMap _ a).symm
end Filters

end
end PV.GA.C18T