import PV.Proofs.DiffSound
/-
  C10, part 3.  Refusal of non-smooth / unknown functions, variables that do not occur, and the
  CSE cache of one mapper instance.
-/
namespace PV

open Real

/-! ### a variable that does not occur -/

mutual
/-- no leaf (in a position the differentiator visits) is Python-`==` to `v` -/
def absent (v : Expr) : Expr → Bool
  | .var n => !(Expr.var n).pyEq v
  | .subscript a i => !(Expr.subscript a i).pyEq v
  | .nary _ cs => absentL v cs
  | .bin _ a b => absent v a && absent v b
  | .ite _ t e => absent v t && absent v e
  | .call _ args => absentL v args
  | .cse c _ _ => absent v c
  | _ => true
def absentL (v : Expr) : List Expr → Bool
  | [] => true
  | c :: cs => absent v c && absentL v cs
end

theorem quotRule_eval_zero (ρ : Expr → ℝ) {f g df dg d : Expr} (h : quotRule f g df dg = .ok d)
    (h1 : evalR ρ df = 0) (h2 : evalR ρ dg = 0) : evalR ρ d = 0 := by
  unfold quotRule at h
  split at h
  · simp only [pure, Except.pure] at h
    injection h with h; subst h; simp
  · split at h
    · obtain ⟨nf, e1, h⟩ := except_bind_ok h
      obtain ⟨a, e2, h⟩ := except_bind_ok h
      obtain ⟨g2, e3, h⟩ := except_bind_ok h
      rw [pyBin_div_eval ρ h, pyBin_mul_eval ρ e2, h2]; simp
    · split at h
      · rw [pyBin_div_eval ρ h, h1]; simp
      · obtain ⟨a, e1, h⟩ := except_bind_ok h
        obtain ⟨b, e2, h⟩ := except_bind_ok h
        obtain ⟨n, e3, h⟩ := except_bind_ok h
        obtain ⟨g2, e4, h⟩ := except_bind_ok h
        rw [pyBin_div_eval ρ h, pyBin_sub_eval ρ e3, pyBin_mul_eval ρ e1, pyBin_mul_eval ρ e2,
          h1, h2]
        simp

theorem powRule_eval_zero (ρ : Expr → ℝ) {f g df dg d : Expr} (h : powRule f g df dg = .ok d)
    (h1 : evalR ρ df = 0) (h2 : evalR ρ dg = 0) : evalR ρ d = 0 := by
  unfold powRule at h
  split at h
  · simp only [pure, Except.pure] at h
    injection h with h; subst h; simp
  · split at h
    · obtain ⟨p, e1, h⟩ := except_bind_ok h
      obtain ⟨a, e2, h⟩ := except_bind_ok h
      rw [pyBin_mul_eval ρ h, h2]; simp
    · split at h
      · obtain ⟨g1, e1, h⟩ := except_bind_ok h
        obtain ⟨p, e2, h⟩ := except_bind_ok h
        obtain ⟨a, e3, h⟩ := except_bind_ok h
        rw [pyBin_mul_eval ρ h, h1]; simp
      · obtain ⟨p, e1, h⟩ := except_bind_ok h
        obtain ⟨a, e2, h⟩ := except_bind_ok h
        obtain ⟨l, e3, h⟩ := except_bind_ok h
        obtain ⟨g1, e4, h⟩ := except_bind_ok h
        obtain ⟨p1, e5, h⟩ := except_bind_ok h
        obtain ⟨b, e6, h⟩ := except_bind_ok h
        obtain ⟨r, e7, h⟩ := except_bind_ok h
        rw [pyBin_add_eval ρ h, pyBin_mul_eval ρ e3, pyBin_mul_eval ρ e7, h1, h2]; simp

section
variable (cfg : Smooth) (v : Expr) (ρ : Expr → ℝ)

mutual
theorem diff_absent : ∀ (e d : Expr), diff cfg v e = .ok d → absent v e = true → evalR ρ d = 0
  | .const c, d, h, _ => by
      simp only [diff] at h
      split at h
      · simp only [pure, Except.pure] at h
        injection h with h; subst h; simp
      · simp [throw, throwThe, MonadExceptOf.throw] at h
  | .var n, d, h, ha => by
      simp only [diff, pure, Except.pure] at h
      injection h with h; subst h
      simp only [absent, Bool.not_eq_true'] at ha
      simp [ha]
  | .subscript a i, d, h, ha => by
      simp only [diff] at h
      split at h
      · simp [throw, throwThe, MonadExceptOf.throw] at h
      · simp only [pure, Except.pure] at h
        injection h with h; subst h
        simp only [absent, Bool.not_eq_true'] at ha
        simp [ha]
  | .nary .sum cs, d, h, ha => by
      simp only [diff] at h
      obtain ⟨ds, h1, h⟩ := except_bind_ok h
      simp only [pure, Except.pure] at h
      injection h with h; subst h
      simp only [absent] at ha
      rw [flattenedSum_eval]; exact diffL_absent cs ds h1 ha
  | .nary .prod cs, d, h, ha => by
      simp only [diff] at h
      split at h
      · simp [throw, throwThe, MonadExceptOf.throw] at h
      · obtain ⟨ts, h1, h⟩ := except_bind_ok h
        simp only [pure, Except.pure] at h
        injection h with h; subst h
        simp only [absent] at ha
        rw [flattenedSum_eval]; exact diffProd_absent cs [] ts h1 ha
  | .bin .quot f g, d, h, ha => by
      simp only [diff] at h
      obtain ⟨df, h1, h⟩ := except_bind_ok h
      obtain ⟨dg, h2, h⟩ := except_bind_ok h
      have h := liftOp_ok h
      simp only [absent, Bool.and_eq_true] at ha
      exact quotRule_eval_zero ρ h (diff_absent f df h1 ha.1) (diff_absent g dg h2 ha.2)
  | .bin .pow f g, d, h, ha => by
      simp only [diff] at h
      obtain ⟨df, h1, h⟩ := except_bind_ok h
      obtain ⟨dg, h2, h⟩ := except_bind_ok h
      have h := liftOp_ok h
      simp only [absent, Bool.and_eq_true] at ha
      exact powRule_eval_zero ρ h (diff_absent f df h1 ha.1) (diff_absent g dg h2 ha.2)
  | .ite c t e, d, h, ha => by
      simp only [diff] at h
      split at h
      · obtain ⟨dt, h1, h⟩ := except_bind_ok h
        obtain ⟨de, h2, h⟩ := except_bind_ok h
        simp only [pure, Except.pure] at h
        injection h with h; subst h
        simp only [absent, Bool.and_eq_true] at ha
        simp [evalR, diff_absent t dt h1 ha.1, diff_absent e de h2 ha.2]
      · simp [throw, throwThe, MonadExceptOf.throw] at h
  | .cse c p s, d, h, ha => by
      simp only [diff] at h
      split at h
      · simp [throw, throwThe, MonadExceptOf.throw] at h
      · obtain ⟨dc, h1, h⟩ := except_bind_ok h
        simp only [pure, Except.pure] at h
        injection h with h; subst h
        simp only [absent] at ha
        rw [evalR_cseRule]
        exact diff_absent c dc h1 ha
  | .call f [], d, h, _ => by
      simp only [diff, pure, Except.pure] at h
      injection h with h; subst h; simp
  | .call f (p :: ps), d, h, ha => by
      simp only [diff] at h
      obtain ⟨fm, hfm, h⟩ := except_bind_ok h
      obtain ⟨ts, hts, h⟩ := except_bind_ok h
      simp only [pure, Except.pure] at h
      injection h with h; subst h
      simp only [absent] at ha
      rw [flattenedSum_eval]; exact diffCall_absent fm (p :: ps) ts hts ha
  | .nary .bor _, _, h, _ | .nary .bxor _, _, h, _ | .nary .band _, _, h, _
  | .nary .lor _, _, h, _ | .nary .land _, _, h, _ | .nary .min _, _, h, _
  | .nary .max _, _, h, _ | .bin .floordiv _ _, _, h, _ | .bin .rem _ _, _, h, _
  | .bin .lshift _ _, _, h, _ | .bin .rshift _ _, _, h, _ | .un _ _, _, h, _
  | .cmp _ _ _, _, h, _ | .callKw _ _ _ _, _, h, _ | .lookup _ _, _, h, _
  | .subst _ _ _, _, h, _ | .deriv _ _, _, h, _ | .slice _, _, h, _ | .nan, _, h, _
  | .wildcard, _, h, _ | .dotWild _, _, h, _ | .starWild _, _, h, _
  | .funcSym, _, h, _ | .tuple _, _, h, _ | .list _, _, h, _ => by
      simp [diff, throw, throwThe, MonadExceptOf.throw] at h
termination_by structural e => e
theorem diffL_absent : ∀ (cs ds : List Expr), diffL cfg v cs = .ok ds → absentL v cs = true →
    evalSum ρ ds = 0
  | [], ds, h, _ => by
      simp only [diffL, pure, Except.pure] at h
      injection h with h; subst h; simp [evalSum]
  | c :: cs, ds, h, ha => by
      simp only [diffL] at h
      obtain ⟨d, h1, h⟩ := except_bind_ok h
      obtain ⟨ds', h2, h⟩ := except_bind_ok h
      simp only [pure, Except.pure] at h
      injection h with h; subst h
      simp only [absentL, Bool.and_eq_true] at ha
      simp [evalSum, diff_absent c d h1 ha.1, diffL_absent cs ds' h2 ha.2]
termination_by structural cs => cs
theorem diffProd_absent : ∀ (cs pre ts : List Expr), diffProd cfg v pre cs = .ok ts →
    absentL v cs = true → evalSum ρ ts = 0
  | [], pre, ts, h, _ => by
      simp only [diffProd, pure, Except.pure] at h
      injection h with h; subst h; simp [evalSum]
  | c :: cs, pre, ts, h, ha => by
      simp only [diffProd] at h
      obtain ⟨d, h1, h⟩ := except_bind_ok h
      obtain ⟨ts', h2, h⟩ := except_bind_ok h
      simp only [pure, Except.pure] at h
      injection h with h; subst h
      simp only [absentL, Bool.and_eq_true] at ha
      simp [evalSum, flattenedProduct_eval, evalProd_append, evalProd, diff_absent c d h1 ha.1,
        diffProd_absent cs (pre ++ [c]) ts' h2 ha.2]
termination_by structural cs => cs
theorem diffCall_absent : ∀ (fm : Expr) (ps ts : List Expr), diffCall cfg v fm ps = .ok ts →
    absentL v ps = true → evalSum ρ ts = 0
  | fm, [], ts, h, _ => by
      simp only [diffCall, pure, Except.pure] at h
      injection h with h; subst h; simp [evalSum]
  | fm, p :: ps, ts, h, ha => by
      simp only [diffCall] at h
      obtain ⟨d, h1, h⟩ := except_bind_ok h
      obtain ⟨t, h2, h⟩ := except_bind_ok h
      obtain ⟨ts', h3, h⟩ := except_bind_ok h
      have h2 := liftOp_ok h2
      simp only [pure, Except.pure] at h
      injection h with h; subst h
      simp only [absentL, Bool.and_eq_true] at ha
      simp [evalSum, pyBin_mul_eval ρ h2, diff_absent p d h1 ha.1,
        diffCall_absent fm ps ts' h3 ha.2]
termination_by structural _ ps => ps
end

end

/-! ### refusal -/

/-- the table refuses the call: not one of its functions (or wrong number of arguments), or a
non-smooth one that the setting does not allow -/
def callRefused (cfg : Smooth) (f : Expr) (args : List Expr) : Bool :=
  match mathFn? f, args with
  | some .fabs, [_] => decide (cfg = .none)
  | some .copysign, [_, _] => decide (cfg ≠ .discontinuous)
  | some .fabs, _ => true
  | some .copysign, _ => true
  | some _, [_] => false
  | _, _ => true

theorem funcMap_refused {cfg : Smooth} {f : Expr} {args : List Expr}
    (h : callRefused cfg f args = true) :
    funcMap cfg f args = .error .valueError ∨ funcMap cfg f args = .error .runtimeError := by
  cases hmf : mathFn? f with
  | none =>
    right
    rcases args with _ | ⟨a, _ | ⟨b, _ | ⟨c, rest⟩⟩⟩ <;>
      simp [funcMap, hmf, throw, throwThe, MonadExceptOf.throw]
  | some fn =>
    cases fn <;> rcases args with _ | ⟨a, _ | ⟨b, _ | ⟨c, rest⟩⟩⟩ <;>
      simp [callRefused, hmf] at h <;>
      simp [funcMap, hmf, h, throw, throwThe, MonadExceptOf.throw]

mutual
/-- somewhere in a position the differentiator visits there is an `If` that the setting does not
allow, or a call that the table refuses -/
def needsRefusal (cfg : Smooth) : Expr → Bool
  | .nary .sum cs => needsRefusalL cfg cs
  | .nary .prod cs => needsRefusalL cfg cs
  | .bin .quot a b => needsRefusal cfg a || needsRefusal cfg b
  | .bin .pow a b => needsRefusal cfg a || needsRefusal cfg b
  | .ite _ t e => decide (cfg ≠ .discontinuous) || needsRefusal cfg t || needsRefusal cfg e
  | .call f args => (!args.isEmpty && callRefused cfg f args) || needsRefusalL cfg args
  | .cse c _ _ => needsRefusal cfg c
  | _ => false
def needsRefusalL (cfg : Smooth) : List Expr → Bool
  | [] => false
  | c :: cs => needsRefusal cfg c || needsRefusalL cfg cs
end

section
variable (cfg : Smooth) (v : Expr)

mutual
theorem diff_refuses_aux : ∀ (e : Expr), needsRefusal cfg e = true →
    ∀ d, diff cfg v e ≠ .ok d
  | .nary .sum cs, hn, d, h => by
      simp only [needsRefusal] at hn
      simp only [diff] at h
      obtain ⟨ds, h1, _⟩ := except_bind_ok h
      exact diffL_refuses cs hn ds h1
  | .nary .prod cs, hn, d, h => by
      simp only [needsRefusal] at hn
      simp only [diff] at h
      split at h
      · simp [throw, throwThe, MonadExceptOf.throw] at h
      · obtain ⟨ts, h1, _⟩ := except_bind_ok h
        exact diffProd_refuses cs hn [] ts h1
  | .bin .quot a b, hn, d, h => by
      simp only [needsRefusal, Bool.or_eq_true] at hn
      simp only [diff] at h
      obtain ⟨df, h1, h⟩ := except_bind_ok h
      obtain ⟨dg, h2, h⟩ := except_bind_ok h
      rcases hn with hn | hn
      · exact diff_refuses_aux a hn df h1
      · exact diff_refuses_aux b hn dg h2
  | .bin .pow a b, hn, d, h => by
      simp only [needsRefusal, Bool.or_eq_true] at hn
      simp only [diff] at h
      obtain ⟨df, h1, h⟩ := except_bind_ok h
      obtain ⟨dg, h2, h⟩ := except_bind_ok h
      rcases hn with hn | hn
      · exact diff_refuses_aux a hn df h1
      · exact diff_refuses_aux b hn dg h2
  | .ite c t e, hn, d, h => by
      simp only [needsRefusal, Bool.or_eq_true, decide_eq_true_eq] at hn
      simp only [diff] at h
      split at h
      · rename_i hcfg
        obtain ⟨dt, h1, h⟩ := except_bind_ok h
        obtain ⟨de, h2, h⟩ := except_bind_ok h
        rcases hn with (hn | hn) | hn
        · exact hn hcfg
        · exact diff_refuses_aux t hn dt h1
        · exact diff_refuses_aux e hn de h2
      · simp [throw, throwThe, MonadExceptOf.throw] at h
  | .cse c p s, hn, d, h => by
      simp only [needsRefusal] at hn
      simp only [diff] at h
      split at h
      · simp [throw, throwThe, MonadExceptOf.throw] at h
      · obtain ⟨dc, h1, _⟩ := except_bind_ok h
        exact diff_refuses_aux c hn dc h1
  | .call f [], hn, _, _ => by
      simp [needsRefusal, needsRefusalL] at hn
  | .call f (p :: ps), hn, d, h => by
      simp only [needsRefusal, List.isEmpty_cons, Bool.not_false, Bool.true_and,
        Bool.or_eq_true] at hn
      simp only [diff] at h
      obtain ⟨fm, hfm, h⟩ := except_bind_ok h
      obtain ⟨ts, hts, _⟩ := except_bind_ok h
      rcases hn with hn | hn
      · rcases funcMap_refused hn with hr | hr <;> rw [hr] at hfm <;> simp at hfm
      · exact diffCall_refuses (p :: ps) hn fm ts hts
  | .const _, hn, _, _ | .var _, hn, _, _ | .subscript _ _, hn, _, _
  | .nary .bor _, hn, _, _ | .nary .bxor _, hn, _, _ | .nary .band _, hn, _, _
  | .nary .lor _, hn, _, _ | .nary .land _, hn, _, _ | .nary .min _, hn, _, _
  | .nary .max _, hn, _, _ | .bin .floordiv _ _, hn, _, _ | .bin .rem _ _, hn, _, _
  | .bin .lshift _ _, hn, _, _ | .bin .rshift _ _, hn, _, _ | .un _ _, hn, _, _
  | .cmp _ _ _, hn, _, _ | .callKw _ _ _ _, hn, _, _ | .lookup _ _, hn, _, _
  | .subst _ _ _, hn, _, _ | .deriv _ _, hn, _, _ | .slice _, hn, _, _ | .nan, hn, _, _
  | .wildcard, hn, _, _ | .dotWild _, hn, _, _ | .starWild _, hn, _, _
  | .funcSym, hn, _, _ | .tuple _, hn, _, _ | .list _, hn, _, _ => by
      simp [needsRefusal] at hn
termination_by structural e => e
theorem diffL_refuses : ∀ (cs : List Expr), needsRefusalL cfg cs = true →
    ∀ ds, diffL cfg v cs ≠ .ok ds
  | [], hn, _, _ => by simp [needsRefusalL] at hn
  | c :: cs, hn, ds, h => by
      simp only [needsRefusalL, Bool.or_eq_true] at hn
      simp only [diffL] at h
      obtain ⟨d, h1, h⟩ := except_bind_ok h
      obtain ⟨ds', h2, _⟩ := except_bind_ok h
      rcases hn with hn | hn
      · exact diff_refuses_aux c hn d h1
      · exact diffL_refuses cs hn ds' h2
termination_by structural cs => cs
theorem diffProd_refuses : ∀ (cs : List Expr), needsRefusalL cfg cs = true →
    ∀ pre ts, diffProd cfg v pre cs ≠ .ok ts
  | [], hn, _, _, _ => by simp [needsRefusalL] at hn
  | c :: cs, hn, pre, ts, h => by
      simp only [needsRefusalL, Bool.or_eq_true] at hn
      simp only [diffProd] at h
      obtain ⟨d, h1, h⟩ := except_bind_ok h
      obtain ⟨ts', h2, _⟩ := except_bind_ok h
      rcases hn with hn | hn
      · exact diff_refuses_aux c hn d h1
      · exact diffProd_refuses cs hn (pre ++ [c]) ts' h2
termination_by structural cs => cs
theorem diffCall_refuses : ∀ (ps : List Expr), needsRefusalL cfg ps = true →
    ∀ fm ts, diffCall cfg v fm ps ≠ .ok ts
  | [], hn, _, _, _ => by simp [needsRefusalL] at hn
  | p :: ps, hn, fm, ts, h => by
      simp only [needsRefusalL, Bool.or_eq_true] at hn
      simp only [diffCall] at h
      obtain ⟨d, h1, h⟩ := except_bind_ok h
      obtain ⟨t, _, h⟩ := except_bind_ok h
      obtain ⟨ts', h3, _⟩ := except_bind_ok h
      rcases hn with hn | hn
      · exact diff_refuses_aux p hn d h1
      · exact diffCall_refuses ps hn fm ts' h3
termination_by structural ps => ps
end

end

/-! ### the CSE cache -/

mutual
/-- every CSE node of `e` (in a position the differentiator visits) belongs to `S` -/
def CsesIn (S : List Expr) : Expr → Prop
  | .cse c p s => Expr.cse c p s ∈ S ∧ CsesIn S c
  | .nary _ cs => CsesInL S cs
  | .bin _ a b => CsesIn S a ∧ CsesIn S b
  | .ite _ t e => CsesIn S t ∧ CsesIn S e
  | .call _ args => CsesInL S args
  | _ => True
def CsesInL (S : List Expr) : List Expr → Prop
  | [] => True
  | c :: cs => CsesIn S c ∧ CsesInL S cs
end

/-- Python `==` identifies no two different members of `S` -/
def Coherent (S : List Expr) : Prop :=
  ∀ k ∈ S, ∀ k' ∈ S, k'.pyEq k = true → k' = k

section
variable (cfg : Smooth) (v : Expr) (S : List Expr)

/-- every cache entry is a CSE node of `S` with its (uncached) derivative -/
def CacheOk (c : DCache) : Prop :=
  ∀ k r, (k, r) ∈ c → k ∈ S ∧ diff cfg v k = .ok r

/-- the cached computation returns what the pure one returns and keeps the cache sound -/
def Agrees {α : Type} (m : DM α) (r : Except DiffErr α) : Prop :=
  ∀ c, CacheOk cfg v S c → (m c).1 = r ∧ CacheOk cfg v S (m c).2

theorem agrees_pure {α : Type} (a : α) : Agrees cfg v S (DM.pure a) (pure a) :=
  fun _ hc => ⟨rfl, hc⟩

theorem agrees_throw {α : Type} (e : DiffErr) : Agrees cfg v S (DM.throw e : DM α) (throw e) :=
  fun _ hc => ⟨rfl, hc⟩

theorem agrees_lift {α : Type} (x : Except DiffErr α) : Agrees cfg v S (DM.lift x) x :=
  fun _ hc => ⟨rfl, hc⟩

theorem agrees_bind {α β : Type} {m : DM α} {r : Except DiffErr α} {f : α → DM β}
    {g : α → Except DiffErr β} (hm : Agrees cfg v S m r)
    (hf : ∀ a, r = .ok a → Agrees cfg v S (f a) (g a)) :
    Agrees cfg v S (m >>= f) (r >>= g) := by
  intro c hc
  obtain ⟨h1, h2⟩ := hm c hc
  show (DM.bind m f c).1 = _ ∧ CacheOk cfg v S (DM.bind m f c).2
  unfold DM.bind
  rcases hmc : m c with ⟨res, c'⟩
  rw [hmc] at h1 h2
  simp only at h1 h2
  cases res with
  | error e =>
    subst h1
    exact ⟨rfl, h2⟩
  | ok a =>
    subst h1
    exact hf a rfl c' h2

theorem DCache.find_some {k r : Expr} : ∀ {c : DCache}, DCache.find k c = some r →
    ∃ k', (k', r) ∈ c ∧ k'.pyEq k = true
  | [], h => by simp [DCache.find] at h
  | (k', r') :: rest, h => by
      simp only [DCache.find] at h
      split at h
      · injection h with h; subst h
        exact ⟨k', List.mem_cons_self, ‹_›⟩
      · obtain ⟨k'', hm, he⟩ := DCache.find_some h
        exact ⟨k'', List.mem_cons_of_mem _ hm, he⟩

variable (hS : Coherent S)
include hS

mutual
theorem diffC_agrees : ∀ (e : Expr), CsesIn S e → Agrees cfg v S (diffC cfg v e) (diff cfg v e)
  | .const c, _ => by
      simp only [diffC, diff]
      split
      · exact agrees_pure cfg v S _
      · exact agrees_throw cfg v S _
  | .var n, _ => by simp only [diffC, diff]; exact agrees_pure cfg v S _
  | .subscript a i, _ => by
      simp only [diffC, diff]
      split
      · exact agrees_throw cfg v S _
      · exact agrees_pure cfg v S _
  | .nary .sum cs, hin => by
      simp only [diffC, diff]
      simp only [CsesIn] at hin
      exact agrees_bind cfg v S (diffCL_agrees cs hin) (fun ds _ => agrees_pure cfg v S _)
  | .nary .prod cs, hin => by
      simp only [diffC, diff]
      simp only [CsesIn] at hin
      split
      · exact agrees_throw cfg v S _
      · exact agrees_bind cfg v S (diffCProd_agrees cs hin [])
          (fun ts _ => agrees_pure cfg v S _)
  | .bin .quot f g, hin => by
      simp only [diffC, diff]
      simp only [CsesIn] at hin
      refine agrees_bind cfg v S (diffC_agrees f hin.1) (fun df hdf => ?_)
      refine agrees_bind cfg v S (diffC_agrees g hin.2) (fun dg _ => ?_)
      split
      · have := agrees_bind cfg v S (diffC_agrees f hin.1)
          (g := fun df' => liftOp (quotRule f g df' dg))
          (fun df' _ => agrees_lift cfg v S (liftOp (quotRule f g df' dg)))
        rw [hdf] at this
        exact this
      · exact agrees_lift cfg v S _
  | .bin .pow f g, hin => by
      simp only [diffC, diff]
      simp only [CsesIn] at hin
      refine agrees_bind cfg v S (diffC_agrees f hin.1) (fun df _ => ?_)
      refine agrees_bind cfg v S (diffC_agrees g hin.2) (fun dg _ => ?_)
      exact agrees_lift cfg v S _
  | .ite c t e, hin => by
      simp only [diffC, diff]
      simp only [CsesIn] at hin
      split
      · refine agrees_bind cfg v S (diffC_agrees t hin.1) (fun dt _ => ?_)
        refine agrees_bind cfg v S (diffC_agrees e hin.2) (fun de _ => ?_)
        exact agrees_pure cfg v S _
      · exact agrees_throw cfg v S _
  | .call f [], _ => by simp only [diffC, diff]; exact agrees_pure cfg v S _
  | .call f (p :: ps), hin => by
      simp only [diffC, diff]
      simp only [CsesIn] at hin
      refine agrees_bind cfg v S (agrees_lift cfg v S _) (fun fm _ => ?_)
      refine agrees_bind cfg v S (diffCCall_agrees (p :: ps) hin fm) (fun ts _ => ?_)
      exact agrees_pure cfg v S _
  | .cse c p s, hin => by
      simp only [CsesIn] at hin
      intro st hst
      simp only [diffC, diff]
      split
      · exact ⟨rfl, hst⟩
      · rename_i hl
        split
        · rename_i r hfind
          obtain ⟨k', hmem, heq⟩ := DCache.find_some hfind
          obtain ⟨hk'S, hk'⟩ := hst k' r hmem
          have : k' = .cse c p s := hS _ hin.1 _ hk'S heq
          subst this
          simp only [diff, hl] at hk'
          exact ⟨hk'.symm, hst⟩
        · obtain ⟨h1, h2⟩ := diffC_agrees c hin.2 st hst
          rcases hres : diffC cfg v c st with ⟨res, st'⟩
          rw [hres] at h1 h2
          simp only at h1 h2
          cases res with
          | error err =>
            simp only
            rw [← h1]
            exact ⟨rfl, h2⟩
          | ok d =>
            simp only
            rw [← h1]
            refine ⟨rfl, ?_⟩
            intro k r hm
            rcases List.mem_cons.mp hm with hm | hm
            · injection hm with hk hr
              subst hk; subst hr
              refine ⟨hin.1, ?_⟩
              simp only [diff, hl, ← h1]
              rfl
            · exact h2 k r hm
  | .nary .bor _, _ | .nary .bxor _, _ | .nary .band _, _
  | .nary .lor _, _ | .nary .land _, _ | .nary .min _, _
  | .nary .max _, _ | .bin .floordiv _ _, _ | .bin .rem _ _, _
  | .bin .lshift _ _, _ | .bin .rshift _ _, _ | .un _ _, _
  | .cmp _ _ _, _ | .callKw _ _ _ _, _ | .lookup _ _, _
  | .subst _ _ _, _ | .deriv _ _, _ | .slice _, _ | .nan, _
  | .wildcard, _ | .dotWild _, _ | .starWild _, _
  | .funcSym, _ | .tuple _, _ | .list _, _ => by
      simp only [diffC, diff]; exact agrees_throw cfg v S _
termination_by structural e => e
theorem diffCL_agrees : ∀ (cs : List Expr), CsesInL S cs →
    Agrees cfg v S (diffCL cfg v cs) (diffL cfg v cs)
  | [], _ => by simp only [diffCL, diffL]; exact agrees_pure cfg v S _
  | c :: cs, hin => by
      simp only [diffCL, diffL]
      simp only [CsesInL] at hin
      refine agrees_bind cfg v S (diffC_agrees c hin.1) (fun d _ => ?_)
      refine agrees_bind cfg v S (diffCL_agrees cs hin.2) (fun ds _ => ?_)
      exact agrees_pure cfg v S _
termination_by structural cs => cs
theorem diffCProd_agrees : ∀ (cs : List Expr), CsesInL S cs → ∀ pre,
    Agrees cfg v S (diffCProd cfg v pre cs) (diffProd cfg v pre cs)
  | [], _, _ => by simp only [diffCProd, diffProd]; exact agrees_pure cfg v S _
  | c :: cs, hin, pre => by
      simp only [diffCProd, diffProd]
      simp only [CsesInL] at hin
      refine agrees_bind cfg v S (diffC_agrees c hin.1) (fun d _ => ?_)
      refine agrees_bind cfg v S (diffCProd_agrees cs hin.2 (pre ++ [c])) (fun ts _ => ?_)
      exact agrees_pure cfg v S _
termination_by structural cs => cs
theorem diffCCall_agrees : ∀ (ps : List Expr), CsesInL S ps → ∀ fm,
    Agrees cfg v S (diffCCall cfg v fm ps) (diffCall cfg v fm ps)
  | [], _, _ => by simp only [diffCCall, diffCall]; exact agrees_pure cfg v S _
  | p :: ps, hin, fm => by
      simp only [diffCCall, diffCall]
      simp only [CsesInL] at hin
      refine agrees_bind cfg v S (diffC_agrees p hin.1) (fun d _ => ?_)
      refine agrees_bind cfg v S (agrees_lift cfg v S _) (fun t _ => ?_)
      refine agrees_bind cfg v S (diffCCall_agrees ps hin.2 fm) (fun ts _ => ?_)
      exact agrees_pure cfg v S _
termination_by structural ps => ps
end

end

end PV
