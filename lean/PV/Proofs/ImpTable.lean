import PV.Generated.Imperative
import PV.Proofs.ImpTableSteps
import PV.Proofs.ImpReads
/-
  C20 (T-gen): the hand-written statement model is the table interpreter run on the regenerated
  table — statement methods (`get_written_variables`, `get_read_variables`, `map_expressions`,
  `get_dependency_mapper`) and `get_all_used_identifiers`.
-/
set_option linter.unusedSimpArgs false

namespace PV.Imp
open PV PV.Generated

variable {σ : Type}

/-! ### plumbing -/

/-- a model result as an interpreter result -/
def C20Res.ofExcept {α β : Type} (f : α → β) : Except ImpErr α → C20Res β
  | .ok a => .ok (f a)
  | .error e => .err e

@[simp] theorem C20Res.bind_ok {α β : Type} (a : α) (f : α → C20Res β) :
    (C20Res.ok a).bind f = f a := rfl
@[simp] theorem C20Res.bind_err {α β : Type} (e : ImpErr) (f : α → C20Res β) :
    (C20Res.err e : C20Res α).bind f = .err e := rfl
@[simp] theorem C20Res.bind_stuck {α β : Type} (f : α → C20Res β) :
    (C20Res.stuck : C20Res α).bind f = .stuck := rfl
@[simp] theorem C20Res.bind_fuel {α β : Type} (f : α → C20Res β) :
    (C20Res.fuel : C20Res α).bind f = .fuel := rfl

/-- the run-time configuration over the regenerated table -/
abbrev cfgCur (G : NameGen σ) (order : List String → List String) (wf : Nat) : C20Cfg σ :=
  { T := c20Table, G := G, order := order, whileFuel := wf }

/-- the evaluation context of a frame over the regenerated table -/
abbrev cxCur (G : NameGen σ) (order : List String → List String) (wf : Nat) (hook : C20Hook σ)
    (cls : Option String) : C20Ctx σ :=
  { T := c20Table, G := G, order := order, whileFuel := wf, hook := hook, cls := cls }

@[simp, c20step] theorem ctx_cur (G : NameGen σ) (order) (wf : Nat) (hook : C20Hook σ) (cls) :
    (cfgCur G order wf).ctx hook cls = cxCur G order wf hook cls := rfl

@[simp, c20step] theorem run_succ (k : C20Cfg σ) (n : Nat) (cls) (env) (body) :
    c20Run k (n + 1) cls env body = c20OutVal (c20Exec (k.ctx (c20Run k n) cls) body env) := rfl

attribute [c20step] c20Then c20Look c20Get c20Set c20Attr c20OutVal c20GenOf c20Apply c20Prim
  c20DepFlags c20StrsOf c20SetOfList c20BitOr c20BitAnd c20Branch c20Truthy c20Cond
  c20IsNone c20IsInstanceV c20IsInstance c20BoolRes c20In c20Index c20DictGet c20ApplyRef c20LocalFrame
  c20ClassOf C20Table.class? C20Table.func? c20Resolve c20After c20MethodOf c20CallBody c20Frame
  c20KwOk c20BindParams c20Locals c20LocalsS c20Unbound c20Nub c20OfLit c20Copy c20CopyField c20Elems
  c20ForElems c20IterOk c20Resizes c20ResizesS c20Touches c20TouchesS c20AssignTuple c20SetAll
  c20OutOfOption c20Append c20Extend c20SetItem c20SetdefaultAddV c20ItemUpdate c20ForItems
  c20Fstr c20Interleave c20Join c20GenCall c20CallFunc c20CallMethod
  c20Table c20Cls_Statement c20Cls_ConditionalStatement c20Cls_Assignment
  c20Cls_ConditionalAssignment c20Cls_Nop c20Cls_RecordWithoutPickling

/-! the functions of the table stay folded (their bodies are unfolded where they are run); their
names are all a look-up needs -/
@[c20step] theorem fn_name_fuse : c20Fn_fuse_statement_streams_with_unique_ids.name =
    "pymbolic.imperative.transform.fuse_statement_streams_with_unique_ids" := rfl
@[c20step] theorem fn_name_disambiguate : c20Fn_disambiguate_identifiers.name =
    "pymbolic.imperative.transform.disambiguate_identifiers" := rfl
@[c20step] theorem fn_name_disfuse : c20Fn_disambiguate_and_fuse.name =
    "pymbolic.imperative.transform.disambiguate_and_fuse" := rfl
@[c20step] theorem fn_name_used : c20Fn_get_all_used_identifiers.name =
    "pymbolic.imperative.analysis.get_all_used_identifiers" := rfl
@[c20step] theorem fn_name_dot : c20Fn_get_dot_dependency_graph.name =
    "pymbolic.imperative.utils.get_dot_dependency_graph" := rfl

@[c20step] theorem stmtFlags_fold :
    ({ subscripts := false, lookups := false, calls := .descend, cses := false } : DepFlags) =
      stmtFlags := rfl

@[c20step] theorem strSetOf_nil (d : List String → List String) :
    c20StrSetOf (σ := σ) d [] = .ok (.strSet (d [])) := rfl
@[c20step] theorem strSetOf_one (d : List String → List String) (a : String) :
    c20StrSetOf (σ := σ) d [.str a] = .ok (.strSet (d [a])) := rfl

/-- run the table interpreter symbolically, statement by statement (full simp set) -/
macro "c20_simp" : tactic => `(tactic| simp [c20step])

/-- run the table interpreter symbolically with a fixed, small rewrite set: the defining equations
(`c20step`), decisions on string / number / Boolean literals, list functions on literal lists, and
the extra lemmas given -/
syntax "c20_run" ("[" Lean.Parser.Tactic.simpLemma,* "]")? : tactic
macro_rules
  | `(tactic| c20_run) => `(tactic| c20_run [])
  | `(tactic| c20_run [$ls,*]) => `(tactic| simp only [c20step, String.reduceEq, String.reduceBEq,
      String.reduceBNe, String.reduceNe, List.find?, beq_self_eq_true, bne_self_eq_false,
      ↓reduceIte, List.all_cons, List.any_cons, List.all_nil, List.any_nil, Bool.or_false,
      Bool.or_true, Bool.and_true, Bool.and_false, Bool.true_and, Bool.false_and, Bool.true_or,
      Bool.false_or, Bool.not_true, Bool.not_false, Bool.false_eq_true, List.length_nil,
      List.length_cons, List.zip_nil_right, List.zip_nil_left, List.zip_cons_cons, Option.map_some,
      Option.map_none, List.filter_cons, List.filter_nil, List.map_cons, List.map_nil,
      List.nil_append, List.cons_append, List.append_nil, bne_iff_ne, ne_eq, not_true_eq_false,
      not_false_eq_true, decide_true, decide_false, decide_not, Bool.decide_eq_true,
      C20Res.bind_ok, C20Res.bind_err, C20Res.bind_stuck, C20Res.bind_fuel, List.mem_cons,
      List.mem_nil_iff, List.not_mem_nil, or_false, or_true, false_or, true_or, and_true, true_and,
      and_false, false_and, List.contains_cons, List.contains_nil, List.elem_cons, List.elem_nil,
      Nat.reduceBNe, Nat.reduceEqDiff, Nat.reduceAdd, bne, Bool.not_eq_true', reduceCtorEq, $ls,*])

theorem strsOf_map_str : ∀ xs : List String, c20StrsOf (xs.map (C20Val.str (σ := σ))) = some xs
  | [] => rfl
  | x :: xs => by simp [c20StrsOf, strsOf_map_str xs]

/-! ### `frozenset(dep.name for dep in …)` -/

def varNames : List Expr → List String
  | [] => []
  | .var x :: r => x :: varNames r
  | _ :: r => varNames r

theorem depNames_eq_setOfList : ∀ (r : List Expr), (∀ y ∈ r, ∃ x, y = .var x) →
    depNames r = .ok (c20SetOfList (varNames r))
  | [], _ => rfl
  | y :: r, h => by
    obtain ⟨x, rfl⟩ := h y (List.mem_cons_self ..)
    have ih := depNames_eq_setOfList r (fun y hy => h y (List.mem_cons_of_mem _ hy))
    simp [depNames, ih, varNames, c20SetOfList, pure, Except.pure, bind, Except.bind]

theorem mapElems_names (c : C20Ctx σ) (env : C20Env σ) : ∀ (r : List Expr),
    (∀ y ∈ r, ∃ x, y = .var x) →
    c20MapElems (c20Eval c (.attr (.var "dep") "name")) "dep" env (r.map .expr) =
      .ok ((varNames r).map .str)
  | [], _ => rfl
  | y :: r, h => by
    obtain ⟨x, rfl⟩ := h y (List.mem_cons_self ..)
    have ih := mapElems_names c env r (fun y hy => h y (List.mem_cons_of_mem _ hy))
    simp only [List.map_cons, c20MapElems, ih, varNames]
    c20_simp

/-- `frozenset(dep.name for dep in M(e))` for a dependency mapper with the statement flags is
`varsOf e` -/
theorem names_of_deps (c : C20Ctx σ) (env : C20Env σ) (e : Expr) :
    ((c20DepsOf stmtFlags e).bind fun iv =>
      (c20Comp (c20Eval c (.attr (.var "dep") "name")) "dep" env iv).bind fun ws =>
        c20StrSetOf c20SetOfList ws) = C20Res.ofExcept .strSet (varsOf e) := by
  unfold varsOf c20DepsOf
  cases hr : deps stmtFlags e with
  | error x => rfl
  | ok r =>
    have hv := (deps_stmt e r hr).1
    simp [c20Comp, c20Elems, mapElems_names c env r hv, c20StrSetOf, strsOf_map_str,
      depNames_eq_setOfList r hv, C20Res.ofExcept]

/-! ### the statement methods -/

section methods
variable (G : NameGen σ) (order : List String → List String) (wf : Nat)

/-- `get_dependency_mapper()` of every statement class builds the mapper the model calls
`stmtFlags` (the keyword arguments are read from the table; `include_calls` is the parameter's
default) -/
theorem get_deps_eq_table (n : Nat) (cls : Option String) (s : Stmt) :
    c20Method (cxCur G order wf (c20Run (cfgCur G order wf) (n + 1)) cls) (.stmt s)
      "get_dependency_mapper" [] [] [] = .ok (.depMap stmtFlags) := by
  obtain ⟨i, d, k⟩ := s
  cases k with
  | nop => simp [c20step, c20Method]
  | assign l r c => cases c <;> simp [c20step, c20Method]

/-- `Assignment.get_read_variables` reached by `super()` from `ConditionalStatement` -/
theorem reads_assign_super (n : Nat) (i : String) (d : List String) (l r c : Expr)
    (env : C20Env σ)
    (h : c20Get "self" env = some (.stmt ⟨i, d, .assign l r (some c)⟩)) :
    c20Super (cxCur G order wf (c20Run (cfgCur G order wf) (n + 2))
        (some "pymbolic.imperative.statement.ConditionalStatement")) env
      "get_read_variables" [] [] [] = C20Res.ofExcept .strSet (readsAssign l r) := by
  have hd := fun cls s => get_deps_eq_table G order wf n cls s
  simp [c20step, c20Super, h, hd, names_of_deps]
  cases hv : varsOf r <;>
    simp [C20Res.ofExcept, readsAssign, hv, c20step, bind, Except.bind, pure, Except.pure]

/-- `Assignment.get_read_variables` called on an `Assignment` -/
theorem reads_assign_method (n : Nat) (cls : Option String) (i : String) (d : List String)
    (l r : Expr) :
    c20Method (cxCur G order wf (c20Run (cfgCur G order wf) (n + 2)) cls)
      (.stmt ⟨i, d, .assign l r none⟩) "get_read_variables" [] [] [] =
      C20Res.ofExcept .strSet (readsAssign l r) := by
  have hd := fun cls s => get_deps_eq_table G order wf n cls s
  simp [c20step, c20Method, c20Super, hd, names_of_deps]
  cases hv : varsOf r <;>
    simp [C20Res.ofExcept, readsAssign, hv, c20step, bind, Except.bind, pure, Except.pure]

/-- **`get_read_variables` of the current source is `Kind.reads`**: for every statement, the
method the MRO of its class resolves to (`Statement`'s for a `Nop`, `Assignment`'s for an
`Assignment`, `ConditionalStatement`'s — which continues in `Assignment`'s through `super()` — for
a `ConditionalAssignment`), run by the table interpreter, returns the set the model computes,
or raises what the model raises. -/
theorem reads_method_eq_table (n : Nat) (cls : Option String) (s : Stmt) :
    c20Method (cxCur G order wf (c20Run (cfgCur G order wf) (n + 3)) cls) (.stmt s)
      "get_read_variables" [] [] [] = C20Res.ofExcept .strSet s.kind.reads := by
  obtain ⟨i, d, k⟩ := s
  cases k with
  | nop => simp [c20step, c20Method, Kind.reads, C20Res.ofExcept, pure, Except.pure]
  | assign l r c =>
    cases c with
    | none => exact reads_assign_method G order wf (n + 1) cls i d l r
    | some c =>
      have hd := fun cls s => get_deps_eq_table G order wf (n + 1) cls s
      have hs := fun env h => reads_assign_super G order wf n i d l r c env h
      simp [c20step, c20Method, hd, hs, names_of_deps, Kind.reads]
      cases ha : readsAssign l r <;> cases hv : varsOf c <;>
        simp [C20Res.ofExcept, c20step, bind, Except.bind, pure, Except.pure]

/-- **`get_written_variables` of the current source is `Kind.written`** (the `isinstance` chain,
the `assert` and the final `raise TypeError` of `Assignment.get_written_variables`; `Statement`'s
empty set for a `Nop`). -/
theorem written_method_eq_table (n : Nat) (cls : Option String) (s : Stmt) :
    c20Method (cxCur G order wf (c20Run (cfgCur G order wf) (n + 1)) cls) (.stmt s)
      "get_written_variables" [] [] [] = C20Res.ofExcept .strSet s.kind.written := by
  obtain ⟨i, d, k⟩ := s
  cases k with
  | nop => simp [c20step, c20Method, Kind.written, C20Res.ofExcept, pure, Except.pure]
  | assign l r c =>
    cases c <;> simp only [c20step, c20Method, String.reduceEq, List.find?, beq_self_eq_true,
        ↓reduceIte, String.reduceBEq, List.all_cons, List.any_cons, List.all_nil, List.any_nil,
        Bool.or_false, Bool.and_true, Bool.not_true, bne_self_eq_false, Bool.false_eq_true,
        List.length_nil, List.zip_nil_right, Option.map_some, List.filter, List.map,
        List.nil_append, List.cons_append, List.append_nil, Bool.not_false, bne_iff_ne, ne_eq,
        not_true_eq_false, not_false_eq_true, decide_true, decide_false, Bool.true_and,
        C20Res.bind_ok] <;>
      cases l <;>
      simp [c20step, Kind.written, C20Res.ofExcept, pure, Except.pure, throw, throwThe,
        MonadExceptOf.throw]
    all_goals
      rename_i a _
      cases a <;>
        simp [c20step, Kind.written, C20Res.ofExcept, pure, Except.pure, throw, throwThe,
          MonadExceptOf.throw]

/-- **`map_expressions` of the current source is `Stmt.mapExprs`**: `Statement`'s returns `self`;
`Assignment`'s copies with `lhs=mapper(lhs)` (as `include_lhs` defaults to `True`) and
`rhs=mapper(rhs)`; `ConditionalAssignment`'s continues in `Assignment`'s through `super()` (its MRO
passes `ConditionalStatement`, which defines none) and copies with `condition=mapper(condition)`. -/
theorem mapExprs_method_eq_table (n : Nat) (cls : Option String) (s : Stmt) (f : Expr → Expr) :
    c20Method (cxCur G order wf (c20Run (cfgCur G order wf) (n + 3)) cls) (.stmt s)
      "map_expressions" [.exprMap f] [] [] = .ok (.stmt (s.mapExprs f)) := by
  obtain ⟨i, d, k⟩ := s
  cases k with
  | nop => simp [c20step, c20Method, Stmt.mapExprs, Kind.mapExprs]
  | assign l r c =>
    cases c <;> simp [c20step, c20Method, c20Super, Stmt.mapExprs, Kind.mapExprs]

/-! the same with the depth as a lower bound (the form the callers rewrite with) -/

theorem get_deps_ge (m : Nat) (hm : 1 ≤ m) (cls : Option String) (s : Stmt) :
    c20Method (cxCur G order wf (c20Run (cfgCur G order wf) m) cls) (.stmt s)
      "get_dependency_mapper" [] [] [] = .ok (.depMap stmtFlags) := by
  obtain ⟨n, rfl⟩ := Nat.exists_eq_add_of_le' hm
  exact get_deps_eq_table G order wf n cls s

theorem reads_method_ge (m : Nat) (hm : 3 ≤ m) (cls : Option String) (s : Stmt) :
    c20Method (cxCur G order wf (c20Run (cfgCur G order wf) m) cls) (.stmt s)
      "get_read_variables" [] [] [] = C20Res.ofExcept .strSet s.kind.reads := by
  obtain ⟨n, rfl⟩ := Nat.exists_eq_add_of_le' hm
  exact reads_method_eq_table G order wf n cls s

theorem written_method_ge (m : Nat) (hm : 1 ≤ m) (cls : Option String) (s : Stmt) :
    c20Method (cxCur G order wf (c20Run (cfgCur G order wf) m) cls) (.stmt s)
      "get_written_variables" [] [] [] = C20Res.ofExcept .strSet s.kind.written := by
  obtain ⟨n, rfl⟩ := Nat.exists_eq_add_of_le' hm
  exact written_method_eq_table G order wf n cls s

theorem mapExprs_method_ge (m : Nat) (hm : 3 ≤ m) (cls : Option String) (s : Stmt)
    (f : Expr → Expr) :
    c20Method (cxCur G order wf (c20Run (cfgCur G order wf) m) cls) (.stmt s)
      "map_expressions" [.exprMap f] [] [] = .ok (.stmt (s.mapExprs f)) := by
  obtain ⟨n, rfl⟩ := Nat.exists_eq_add_of_le' hm
  exact mapExprs_method_eq_table G order wf n cls s f

end methods

/-! ### `get_all_used_identifiers` -/

theorem unionS_cons (a : List String) (x : String) (c : List String) :
    unionS a (x :: c) = unionS (insertS a x) c := rfl

theorem unionS_insertS (a b : List String) (x : String) :
    unionS a (insertS b x) = insertS (unionS a b) x := by
  by_cases hx : x ∈ b
  · have h1 : insertS b x = b := by simp [insertS, hx]
    have h2 : insertS (unionS a b) x = unionS a b := by
      simp [insertS, mem_unionS.2 (Or.inr hx)]
    rw [h1, h2]
  · have h1 : insertS b x = b ++ [x] := by simp [insertS, hx]
    rw [h1]
    simp only [unionS, List.foldl_append, List.foldl_cons, List.foldl_nil]

theorem unionS_assoc (a : List String) : ∀ (c b : List String),
    unionS (unionS a b) c = unionS a (unionS b c)
  | [], b => rfl
  | x :: c, b => by
    rw [unionS_cons, unionS_cons, ← unionS_insertS, unionS_assoc a c (insertS b x)]

theorem unionS_eq_append : ∀ (xs a : List String), (a ++ xs).Nodup → unionS a xs = a ++ xs
  | [], a, _ => by simp [unionS]
  | x :: xs, a, h => by
    have hx : x ∉ a := by
      intro hx
      have := List.nodup_append.1 h
      exact this.2.2 x hx x (List.mem_cons_self ..) rfl
    rw [unionS_cons]
    have : insertS a x = a ++ [x] := by simp [insertS, hx]
    rw [this, unionS_eq_append xs (a ++ [x]) (by simpa using h)]
    simp

theorem unionS_nil_left {xs : List String} (h : xs.Nodup) : unionS [] xs = xs := by
  simpa using unionS_eq_append xs [] (by simpa using h)

/-- the value a loop variable holds after the loop -/
def c20LastD (j : C20Val σ) : List (C20Val σ) → C20Val σ
  | [] => j
  | v :: vs => c20LastD v vs

theorem used_loop (f : C20Env σ → C20Out σ) (v : C20Val σ)
    (hf : ∀ (s : Stmt) (acc : List String),
      f [("insn_stream", v), ("result", .strSet acc), ("insn", .stmt s)] =
        match s.kind.reads with
        | .error e => .err e
        | .ok r =>
          match s.kind.written with
          | .error e => .err e
          | .ok w => .next [("insn_stream", v), ("result", .strSet (unionS (unionS acc r) w)),
                            ("insn", .stmt s)]) :
    ∀ (ss : List Stmt) (acc : List String) (j : C20Val σ),
      c20ForIn f "insn" (ss.map .stmt) [("insn_stream", v), ("result", .strSet acc), ("insn", j)] =
        match usedIdentifiers ss with
        | .ok ids => .next [("insn_stream", v), ("result", .strSet (unionS acc ids)),
                            ("insn", c20LastD j (ss.map .stmt))]
        | .error e => .err e
  | [], acc, j => by simp [c20ForIn, usedIdentifiers, pure, Except.pure, unionS, c20LastD]
  | s :: ss, acc, j => by
    simp only [List.map_cons, c20ForIn, c20Set, String.reduceEq, if_false, if_true, hf, usedIdentifiers, c20LastD]
    cases hr : s.kind.reads with
    | error e => simp [bind, Except.bind]
    | ok r =>
      cases hw : s.kind.written with
      | error e => simp [bind, Except.bind]
      | ok w =>
        simp only [used_loop f v hf ss]
        cases ht : usedIdentifiers ss with
        | error e => simp [bind, Except.bind]
        | ok tl => simp [bind, Except.bind, pure, Except.pure, unionS_assoc]

/-- **`get_all_used_identifiers` of the current source is `usedIdentifiers`**: the loop that
unions `get_read_variables()` and `get_written_variables()` of every statement, in order. -/
theorem used_eq_table (G : NameGen σ) (order) (wf n : Nat) (cls : Option String) (ss : List Stmt) :
    c20CallFn (cxCur G order wf (c20Run (cfgCur G order wf) (n + 4)) cls)
      c20Fn_get_all_used_identifiers [.list (ss.map .stmt)] [] [] =
      C20Res.ofExcept .strSet (usedIdentifiers ss) := by
  simp [c20step, c20CallFn, c20Fn_get_all_used_identifiers]
  rw [used_loop]
  · cases h : usedIdentifiers ss with
    | error e => simp [C20Res.ofExcept]
    | ok ids => simp [c20step, C20Res.ofExcept, unionS_nil_left (usedIdentifiers_spec h).1]
  · intro s acc
    simp [c20step, reads_method_ge G order wf (n + 3) (by omega),
      written_method_ge G order wf (n + 3) (by omega)]
    cases hr : s.kind.reads <;> cases hw : s.kind.written <;>
      simp [C20Res.ofExcept, c20step, written_method_ge G order wf (n + 3) (by omega), hw]


theorem used_fn_ge (G : NameGen σ) (order) (wf m : Nat) (hm : 4 ≤ m) (cls : Option String)
    (ss : List Stmt) :
    c20CallFn (cxCur G order wf (c20Run (cfgCur G order wf) m) cls)
      c20Fn_get_all_used_identifiers [.list (ss.map .stmt)] [] [] =
      C20Res.ofExcept .strSet (usedIdentifiers ss) := by
  obtain ⟨n, rfl⟩ := Nat.exists_eq_add_of_le' hm
  exact used_eq_table G order wf n cls ss

end PV.Imp
