import PV.Model.CacheTable
import PV.Proofs.MemoOpt
/-
  Helper lemmas for C05 (T-gen): the readings of the cache-protocol tables
  (lean/PV/Model/CacheTable.lean) are the hand-written model (`callC`, `Key.eq`, `Key.cseEq`,
  `optimize`) for tables of THE shape written down here.  lean/PV/Properties/C05.lean then checks
  (`rfl` / `decide`) that the regenerated tables have that shape.
-/
namespace PV.Memo
open PV

/-! ## the shapes -/

/-- `CachedMapper.__call__` as the model `callC` mirrors it: look-up with a sentinel default BEFORE
any dispatch, hit test by identity with the sentinel, then the method path and the fallback path,
each storing AFTER the handler returned -/
def c05ExpectedCall : C05Method :=
  { cls := "CachedMapper", name := "__call__", sig := ⟨true, true⟩,
    body := [
      .assign "result" (.cacheGet (.selfAttr "_cache") "cache_key" (some (.getKeyCall true true))
        (some "_NOT_IN_CACHE")),
      .ifThen (.isNot "result" (.global "_NOT_IN_CACHE")) [.ret "result"] [],
      .assign "method_name" .mapperMethodName,
      .ifThen (.isNot "method_name" .pyNone) [
        .assign "method" (.selfMethod "method_name"),
        .ifThen (.isNot "method" .pyNone) [
          .assign "result" (.callVar "method" true true),
          .store (.selfAttr "_cache") "cache_key" "result",
          .ret "result"] []] [],
      .assign "result" (.callSelf "rec_fallback" true true),
      .store (.selfAttr "_cache") "cache_key" "result",
      .ret "result"] }

/-- `CSECachingMapperMixin.map_common_subexpression` as `callC (cseMixinSpec …)` mirrors it -/
def c05ExpectedCse : C05Method :=
  { cls := "CSECachingMapperMixin", name := "map_common_subexpression", sig := ⟨true, false⟩,
    body := [
      .lazyDict "ccd" "_cse_cache_dict",
      .assign "key" (.keyTuple [.part .expr, .splatArgs]),
      .tryIndexReturn (.var "ccd") "key" [
        .assign "result" (.callSelf "map_common_subexpression_uncached" true false),
        .store (.var "ccd") "key" "result",
        .ret "result"]] }

variable {K X R : Type}

/-- the context of one `CachedMapper.__call__`: the recursive dispatcher is `callC` itself -/
def c05CallCtx (S : Spec K X R) (n : Nat) (k : K) (hasName hasMethod : Bool)
    (falsy isNone : R → Bool) : C05Ctx K X R :=
  { S := S, recur := callC S n, k := k, hasName := hasName, hasMethod := hasMethod,
    falsy := falsy, isNone := isNone, sig := {}, dictAttr := "_cache",
    entries := ["rec_fallback"] }

/-- the context of one call of the mix-in's `map_common_subexpression` -/
def c05CseCtx (S : Spec K X R) (n : Nat) (k : K) (falsy isNone : R → Bool) : C05Ctx K X R :=
  { S := S, recur := callC S n, k := k, hasName := true, hasMethod := true,
    falsy := falsy, isNone := isNone, sig := {}, dictAttr := "_cse_cache_dict",
    entries := ["map_common_subexpression_uncached"] }

/-! ## a body of that shape is `callC` -/

theorem c05Run_expectedCall (S : Spec K X R) (n : Nat) (k : K) (s : St K R)
    (hasName hasMethod : Bool) (falsy isNone : R → Bool) (hc : S.cacheable k = true) :
    c05Run c05ExpectedCall (c05CallCtx S n k hasName hasMethod falsy isNone) s
      = .ofOption (callC S (n+1) k s) := by
  simp only [callC, hc, if_true]
  cases hu : S.unhashable k with
  | some x =>
    simp [c05Run, c05ExpectedCall, c05CallCtx, C05Stmt.execList, C05Stmt.exec, C05Rhs.exec,
      c05DictOk, c05Fwd, c05Probe, hu, C05Out.ofOption]
  | none =>
    cases hl : lookup S.keq k s.cache with
    | some r =>
      simp [c05Run, c05ExpectedCall, c05CallCtx, C05Stmt.execList, C05Stmt.exec, C05Rhs.exec,
        c05DictOk, c05Fwd, c05Probe, hu, hl, C05Out.ofOption, C05Test.eval, c05Get, c05Is]
    | none =>
      cases hasName <;> cases hasMethod <;>
        cases hi : interpC (callC S n) (S.h k) { s with trace := (false, k) :: s.trace } with
        | none =>
          simp [c05Run, c05ExpectedCall, c05CallCtx, C05Stmt.execList, C05Stmt.exec, C05Rhs.exec,
            c05DictOk, c05Fwd, c05Probe, hu, hl, C05Out.ofOption, C05Test.eval, c05Get, c05Is,
            c05Handler, hi]
        | some p =>
          obtain ⟨a, s'⟩ := p
          cases a <;>
          simp [c05Run, c05ExpectedCall, c05CallCtx, C05Stmt.execList, C05Stmt.exec, C05Rhs.exec,
            c05DictOk, c05Fwd, c05Probe, hu, hl, C05Out.ofOption, C05Test.eval, c05Get, c05Is,
            c05Handler, hi]

theorem c05Run_expectedCse (S : Spec K X R) (n : Nat) (k : K) (s : St K R)
    (falsy isNone : R → Bool) (hc : S.cacheable k = true) :
    c05Run c05ExpectedCse (c05CseCtx S n k falsy isNone) s = .ofOption (callC S (n+1) k s) := by
  simp only [callC, hc, if_true]
  cases hu : S.unhashable k with
  | some x =>
    simp [c05Run, c05ExpectedCse, c05CseCtx, C05Stmt.execList, C05Stmt.exec, C05Rhs.exec,
      c05DictOk, c05Probe, hu, C05Out.ofOption, c05Get]
  | none =>
    cases hl : lookup S.keq k s.cache with
    | some r =>
      simp [c05Run, c05ExpectedCse, c05CseCtx, C05Stmt.execList, C05Stmt.exec, C05Rhs.exec,
        c05DictOk, c05Probe, hu, hl, C05Out.ofOption, c05Get]
    | none =>
      cases hi : interpC (callC S n) (S.h k) { s with trace := (false, k) :: s.trace } with
      | none =>
        simp [c05Run, c05ExpectedCse, c05CseCtx, C05Stmt.execList, C05Stmt.exec, C05Rhs.exec,
          c05DictOk, c05Fwd, c05Probe, hu, hl, C05Out.ofOption, c05Get, c05Handler, hi]
      | some p =>
        obtain ⟨a, s'⟩ := p
        cases a <;>
        simp [c05Run, c05ExpectedCse, c05CseCtx, C05Stmt.execList, C05Stmt.exec, C05Rhs.exec,
          c05DictOk, c05Fwd, c05Probe, hu, hl, C05Out.ofOption, c05Get, c05Handler, hi]

/-! ## key tuples of that shape compare like the model's keys -/

theorem c05TupleEq_stock (a b : Key) :
    c05TupleEq [.part .ty, .part .expr, .part .args, .part .kwargs] a b = Key.eq a b := by
  simp [c05TupleEq, c05KeyVals, tupleEq, KVal.eq, Key.eq, Expr.keyEq, ArgKey.pyEq, Bool.and_assoc]

theorem tupleEq_consts (as bs : List Const) :
    tupleEq (as.map fun c => KVal.expr (.const c)) (bs.map fun c => KVal.expr (.const c))
      = constsEq as bs := by
  induction as generalizing bs with
  | nil => cases bs <;> simp [tupleEq, constsEq]
  | cons a as ih =>
    cases bs with
    | nil => simp [tupleEq, constsEq]
    | cons b bs => simp [tupleEq, constsEq, KVal.eq, Expr.pyEq, ih]

theorem c05TupleEq_cse (a b : Key) :
    c05TupleEq [.part .expr, .splatArgs] a b = Key.cseEq a b := by
  simp [c05TupleEq, c05KeyVals, tupleEq, KVal.eq, Key.cseEq, tupleEq_consts]

/-- a key method of the stock shape is the model's `get_cache_key` -/
def c05ExpectedGetKey : C05KeyMethod :=
  ⟨"CachedMapper", "get_cache_key", Code.stock.getKeySig, Code.stock.getKeyBody.map .part⟩

/-! ## the optimizer's rewriting loop, table-driven -/

/-- one step of the loop on the model's `Code`; the association of a transformer class with a
function of the model is checked behaviourally (the `c05…Rows` tables), the ORDER and the
conditions come from the table -/
def c05ApplyPass (o : Opts) (c : Code) (p : C05Pass) : Option Code :=
  if p.name = "signature" ∧ p.options = ["vararg:drop_args", "kwarg:drop_kwargs"] ∧ p.guard = "" then
    some { c with getKeySig := c.getKeySig.drop o.dropArgs o.dropKwargs,
                  callSig := c.callSig.drop o.dropArgs o.dropKwargs,
                  handlerSig := c.handlerSig.drop o.dropArgs o.dropKwargs }
  else if p.name = "_VarArgsRemover" ∧ p.options = ["drop_args=drop_args", "drop_kwargs=drop_kwargs"]
      ∧ p.guard = "" then
    some { c with callBody := c.callBody.dropStar o.dropArgs o.dropKwargs,
                  recSite := c.recSite.dropStar o.dropArgs o.dropKwargs }
  else if p.name = "_CacheKeyInliner" ∧ p.options = ["cache_key_expr=cache_key_expr"]
      ∧ p.guard = "cache_key_expr is not None" then
    some (if o.inlineGetCacheKey then c.inlineGetCacheKey else c)
  else if p.name = "_RecInliner" ∧ p.options = ["inline_rec=inline_rec", "inline_cache=inline_cache"]
      ∧ p.guard = "" then
    some { c with callBody := c.callBody.inlineRecCache o.inlineRec o.inlineCache,
                  recSite := c.recSite.inlineRecCache o.inlineRec o.inlineCache }
  else none

def c05RunPasses (o : Opts) : List C05Pass → Code → Option Code
  | [], c => some c
  | p :: ps, c => match c05ApplyPass o c p with
    | some c' => c05RunPasses o ps c'
    | none => none

def c05ExpectedPasses : List C05Pass := [
  ⟨"signature", ["vararg:drop_args", "kwarg:drop_kwargs"], ""⟩,
  ⟨"_VarArgsRemover", ["drop_args=drop_args", "drop_kwargs=drop_kwargs"], ""⟩,
  ⟨"_CacheKeyInliner", ["cache_key_expr=cache_key_expr"], "cache_key_expr is not None"⟩,
  ⟨"_RecInliner", ["inline_rec=inline_rec", "inline_cache=inline_cache"], ""⟩]

theorem c05RunPasses_expected (o : Opts) (c : Code) :
    c05RunPasses o c05ExpectedPasses c = some (optimize o c) := by
  obtain ⟨da, dk, ir, ic, ig⟩ := o
  cases ig <;>
    simp [c05RunPasses, c05ExpectedPasses, c05ApplyPass, optimize, Code.dropVarArgs,
      Code.inlineGetCacheKey]

end PV.Memo
