import PV.Model.Cse
import PV.Proofs.CseEval
import Mathlib.Data.Rat.Defs
import Mathlib.Data.List.Perm.Subperm
import Mathlib.Data.List.Nodup
import Mathlib.Tactic.Ring
/-
  C12 helper: (1) two simple sums / products with Python-equal normalised keys have operand lists
  that are permutations of each other; (2) an exact sum / product that evaluates to a value
  evaluates to the same value with its operands in any other order.
-/
namespace PV

/-! ### exact addition and multiplication may be reordered -/

theorem arith_ok {f : Num → Num → R} {a b r : Value} (h : arith f a b = .ok r) :
    ∃ x y, a.num? = some x ∧ b.num? = some y ∧ f x y = .ok r ∧
      a.isInexact = false ∧ b.isInexact = false ∧ a.isSeq = false ∧ b.isSeq = false := by
  unfold arith at h
  by_cases h1 : (a.isInexact || b.isInexact) = true
  · simp [h1] at h
  · simp only [h1, Bool.false_eq_true, if_false] at h
    by_cases h2 : (a.isSeq || b.isSeq) = true
    · simp [h2] at h
    · simp only [h2, Bool.false_eq_true, if_false] at h
      simp only [Bool.or_eq_true, not_or, Bool.not_eq_true] at h1 h2
      cases ha : a.num? with
      | none => simp [ha] at h
      | some x =>
        cases hb : b.num? with
        | none => simp [ha, hb] at h
        | some y =>
          simp only [ha, hb] at h
          exact ⟨x, y, rfl, rfl, h, h1.1, h1.2, h2.1, h2.2⟩

theorem arith_of_num {f : Num → Num → R} {a b : Value} {x y : Num}
    (ha : a.num? = some x) (hb : b.num? = some y) : arith f a b = f x y := by
  have ia : a.isInexact = false := by cases a <;> simp_all [Value.num?, Value.isInexact]
  have ib : b.isInexact = false := by cases b <;> simp_all [Value.num?, Value.isInexact]
  have sa : a.isSeq = false := by cases a <;> simp_all [Value.num?, Value.isSeq]
  have sb : b.isSeq = false := by cases b <;> simp_all [Value.num?, Value.isSeq]
  simp [arith, ia, ib, sa, sb, ha, hb]

/-- the value of an exact number -/
def Num.val : Num → Value
  | .i n => .int n
  | .q r => .frac r

theorem Num.val_num (n : Num) : n.val.num? = some n := by cases n <;> rfl

def addNum : Num → Num → Num
  | .i a, .i b => .i (a + b)
  | x, y => .q (x.toRat + y.toRat)

def mulNum : Num → Num → Num
  | .i a, .i b => .i (a * b)
  | x, y => .q (x.toRat * y.toRat)

theorem addN_eq (x y : Num) : addN x y = .ok (addNum x y).val := by
  cases x <;> cases y <;> rfl

theorem mulN_eq (x y : Num) : mulN x y = .ok (mulNum x y).val := by
  cases x <;> cases y <;> rfl

theorem addNum_swap (a x y : Num) : addNum (addNum a x) y = addNum (addNum a y) x := by
  cases a <;> cases x <;> cases y <;> simp only [addNum, Num.toRat, Num.i.injEq, Num.q.injEq] <;>
    first
    | omega
    | (push_cast; ring)

theorem mulNum_swap (a x y : Num) : mulNum (mulNum a x) y = mulNum (mulNum a y) x := by
  cases a <;> cases x <;> cases y <;> simp only [mulNum, Num.toRat, Num.i.injEq, Num.q.injEq] <;>
    (push_cast; ring)

/-- the two commutative operators of `NormalizedKeyGetter` -/
def NaryOp.isComm : NaryOp → Bool
  | .sum | .prod => true
  | _ => false

theorem apply_swap {o : NaryOp} (ho : o.isComm = true) {acc x y a1 a2 : Value}
    (h1 : o.apply acc x = .ok a1) (h2 : o.apply a1 y = .ok a2) :
    ∃ b1, o.apply acc y = .ok b1 ∧ o.apply b1 x = .ok a2 := by
  cases o <;> simp only [NaryOp.isComm, Bool.false_eq_true] at ho
  · -- sum
    simp only [NaryOp.apply, Value.add] at h1 h2 ⊢
    obtain ⟨A, X, hA, hX, e1, _⟩ := arith_ok h1
    obtain ⟨A1, Y, hA1, hY, e2, _⟩ := arith_ok h2
    rw [addN_eq] at e1 e2
    injection e1 with e1; injection e2 with e2
    subst e1
    rw [Num.val_num] at hA1; injection hA1 with hA1; subst hA1
    refine ⟨(addNum A Y).val, ?_, ?_⟩
    · rw [arith_of_num hA hY, addN_eq]
    · rw [arith_of_num (Num.val_num _) hX, addN_eq, ← e2, addNum_swap]
  · -- product
    simp only [NaryOp.apply, Value.mul] at h1 h2 ⊢
    obtain ⟨A, X, hA, hX, e1, _⟩ := arith_ok h1
    obtain ⟨A1, Y, hA1, hY, e2, _⟩ := arith_ok h2
    rw [mulN_eq] at e1 e2
    injection e1 with e1; injection e2 with e2
    subst e1
    rw [Num.val_num] at hA1; injection hA1 with hA1; subst hA1
    refine ⟨(mulNum A Y).val, ?_, ?_⟩
    · rw [arith_of_num hA hY, mulN_eq]
    · rw [arith_of_num (Num.val_num _) hX, mulN_eq, ← e2, mulNum_swap]

theorem bind_ok_iff {α β : Type} {x : Except Err α} {f : α → Except Err β} {r : β} :
    (x >>= f) = .ok r ↔ ∃ a, x = .ok a ∧ f a = .ok r := by
  cases x with
  | error e => simp [bind, Except.bind]
  | ok a => simp [bind, Except.bind]

theorem denFold_cons (env : Env) (o : NaryOp) (acc : Value) (c : Expr) (cs : List Expr) (v : Value) :
    denFold env o acc (c :: cs) = .ok v ↔
      ∃ x a1, den env c = .ok x ∧ o.apply acc x = .ok a1 ∧ denFold env o a1 cs = .ok v := by
  simp only [denFold]
  constructor
  · intro h
    obtain ⟨x, hx, h⟩ := bind_ok_iff.mp h
    obtain ⟨a1, ha, h⟩ := bind_ok_iff.mp h
    exact ⟨x, a1, hx, ha, h⟩
  · rintro ⟨x, a1, hx, ha, h⟩
    exact bind_ok_iff.mpr ⟨x, hx, bind_ok_iff.mpr ⟨a1, ha, h⟩⟩

/-- a sum / product that has a value keeps it under any reordering of its operands -/
theorem denFold_perm (env : Env) {o : NaryOp} (ho : o.isComm = true) {cs cs' : List Expr}
    (hp : cs.Perm cs') : ∀ (acc v : Value), denFold env o acc cs = .ok v →
      denFold env o acc cs' = .ok v := by
  induction hp with
  | nil => intro acc v h; exact h
  | cons c _ ih =>
    intro acc v h
    obtain ⟨x, a1, hx, ha, h⟩ := (denFold_cons env o acc c _ v).mp h
    exact (denFold_cons env o acc c _ v).mpr ⟨x, a1, hx, ha, ih a1 v h⟩
  | swap c d l =>
    intro acc v h
    obtain ⟨x, a1, hx, ha, h⟩ := (denFold_cons env o acc d _ v).mp h
    obtain ⟨y, a2, hy, hb, h⟩ := (denFold_cons env o a1 c _ v).mp h
    obtain ⟨b1, hb1, hb2⟩ := apply_swap ho ha hb
    exact (denFold_cons env o acc c _ v).mpr ⟨y, b1, hy, hb1,
      (denFold_cons env o b1 d _ v).mpr ⟨x, a2, hx, hb2, h⟩⟩
  | trans _ _ ih1 ih2 => intro acc v h; exact ih2 acc v (ih1 acc v h)

/-! ### normalised keys of simple sums / products -/

/-- the operand list a kid-count dictionary stands for -/
def expandKids (kids : List (Expr × Nat)) : List Expr :=
  kids.flatMap fun p => List.replicate p.2 p.1

def kidsSimple (kids : List (Expr × Nat)) : Prop := ∀ p ∈ kids, p.1.simple = true

theorem kidCountAdd_simple {c : Expr} (hc : c.simple = true) : ∀ {acc : List (Expr × Nat)},
    kidsSimple acc → kidsSimple (kidCountAdd c acc)
  | [], _ => by intro p hp; simp [kidCountAdd] at hp; rw [hp]; exact hc
  | (k, n) :: rest, h => by
    intro p hp
    simp only [kidCountAdd] at hp
    split at hp
    · simp only [List.mem_cons] at hp
      rcases hp with rfl | hp
      · exact h (k, n) (by simp)
      · exact h p (by simp [hp])
    · simp only [List.mem_cons] at hp
      rcases hp with rfl | hp
      · exact h (k, n) (by simp)
      · exact kidCountAdd_simple hc (fun q hq => h q (by simp [hq])) p hp

theorem kidCountAdd_perm {c : Expr} (hc : c.simple = true) : ∀ {acc : List (Expr × Nat)},
    kidsSimple acc → (expandKids (kidCountAdd c acc)).Perm (c :: expandKids acc)
  | [], _ => by simp [kidCountAdd, expandKids]
  | (k, n) :: rest, h => by
    simp only [kidCountAdd]
    split
    next hk =>
      have : k = c := pyEq_eq_of_simple k c (h (k, n) (by simp)) hc hk
      subst this
      simp [expandKids, List.replicate_succ]
    next hk =>
      have ih := kidCountAdd_perm hc (acc := rest) (fun q hq => h q (by simp [hq]))
      simp only [expandKids, List.flatMap_cons] at ih ⊢
      exact (List.Perm.append_left _ ih).trans List.perm_middle

theorem kidCountFrom_simple : ∀ {cs : List Expr} {acc : List (Expr × Nat)},
    Expr.simpleL cs = true → kidsSimple acc → kidsSimple (kidCountFrom acc cs)
  | [], _, _, h => h
  | c :: cs, acc, hs, h => by
    simp only [Expr.simpleL, Bool.and_eq_true] at hs
    show kidsSimple (kidCountFrom (kidCountAdd c acc) cs)
    exact kidCountFrom_simple hs.2 (kidCountAdd_simple hs.1 h)

theorem kidCountFrom_perm : ∀ {cs : List Expr} {acc : List (Expr × Nat)},
    Expr.simpleL cs = true → kidsSimple acc →
      (expandKids (kidCountFrom acc cs)).Perm (expandKids acc ++ cs)
  | [], acc, _, _ => by simp [kidCountFrom]
  | c :: cs, acc, hs, h => by
    simp only [Expr.simpleL, Bool.and_eq_true] at hs
    have ih := kidCountFrom_perm (cs := cs) hs.2 (kidCountAdd_simple hs.1 h)
    have h1 := kidCountAdd_perm hs.1 h
    simp only [kidCountFrom]
    refine ih.trans ?_
    refine (List.Perm.append_right cs h1).trans ?_
    simp only [List.cons_append]
    exact List.perm_middle.symm

theorem kidCount_perm {cs : List Expr} (hs : Expr.simpleL cs = true) :
    (expandKids (kidCount cs)).Perm cs := by
  have := kidCountFrom_perm (cs := cs) (acc := []) hs (by intro p hp; simp at hp)
  simpa [kidCount, expandKids] using this

/-- the keys of a kid-count dictionary are pairwise different -/
def kidsNodup (kids : List (Expr × Nat)) : Prop := (kids.map Prod.fst).Nodup

theorem kidCountAdd_keys {c : Expr} : ∀ {acc : List (Expr × Nat)} {k : Expr},
    k ∈ (kidCountAdd c acc).map Prod.fst → k = c ∨ k ∈ acc.map Prod.fst
  | [], k, h => by simp [kidCountAdd] at h; left; exact h
  | (k0, n) :: rest, k, h => by
    simp only [kidCountAdd] at h
    split at h
    · right; simpa using h
    · simp only [List.map_cons, List.mem_cons] at h
      rcases h with rfl | h
      · right; simp
      · rcases kidCountAdd_keys h with h | h
        · left; exact h
        · right; simp only [List.map_cons, List.mem_cons]; right; exact h

theorem kidCountAdd_nodup {c : Expr} (hc : c.simple = true) : ∀ {acc : List (Expr × Nat)},
    kidsSimple acc → kidsNodup acc → kidsNodup (kidCountAdd c acc)
  | [], _, _ => by simp [kidCountAdd, kidsNodup]
  | (k, n) :: rest, h, hn => by
    simp only [kidCountAdd]
    split
    next hk => simpa [kidsNodup] using hn
    next hk =>
      simp only [kidsNodup, List.map_cons, List.nodup_cons] at hn ⊢
      refine ⟨?_, kidCountAdd_nodup hc (fun q hq => h q (by simp [hq])) hn.2⟩
      intro hmem
      rcases kidCountAdd_keys hmem with rfl | hmem
      · exact hk (pyEq_self_simple _ hc)
      · exact hn.1 hmem

theorem kidCountFrom_nodup : ∀ {cs : List Expr} {acc : List (Expr × Nat)},
    Expr.simpleL cs = true → kidsSimple acc → kidsNodup acc → kidsNodup (kidCountFrom acc cs)
  | [], _, _, _, h => h
  | c :: cs, acc, hs, h, hn => by
    simp only [Expr.simpleL, Bool.and_eq_true] at hs
    show kidsNodup (kidCountFrom (kidCountAdd c acc) cs)
    exact kidCountFrom_nodup hs.2 (kidCountAdd_simple hs.1 h) (kidCountAdd_nodup hs.1 h hn)

theorem nodup_of_keys {kids : List (Expr × Nat)} (h : kidsNodup kids) : kids.Nodup :=
  List.Nodup.of_map _ h

theorem kidsSubset_subset {a b : List (Expr × Nat)} (ha : kidsSimple a) (hb : kidsSimple b)
    (h : kidsSubset a b = true) : a ⊆ b := by
  intro p hp
  simp only [kidsSubset, List.all_eq_true, List.any_eq_true, Bool.and_eq_true, beq_iff_eq] at h
  obtain ⟨q, hq, h1, h2⟩ := h p hp
  have : q.1 = p.1 := pyEq_eq_of_simple _ _ (hb q hq) (ha p hp) h1
  have : q = p := Prod.ext this h2
  rw [← this]; exact hq

/-- equal keys of two simple sums / products: the kid-count dictionaries are permutations -/
theorem kidPerm_of_keyEq {o o' : NaryOp} {cs cs' : List Expr} (hs : Expr.simpleL cs = true)
    (hs' : Expr.simpleL cs' = true)
    (h : (CKey.comm o (kidCount cs)).eq (CKey.comm o' (kidCount cs')) = true) :
    o = o' ∧ (kidCount cs).Perm (kidCount cs') := by
  simp only [CKey.eq, Bool.and_eq_true, beq_iff_eq] at h
  obtain ⟨⟨ho, hlen⟩, hsub⟩ := h
  refine ⟨ho, ?_⟩
  have e0 : kidsSimple ([] : List (Expr × Nat)) := by intro p hp; simp at hp
  have n0 : kidsNodup ([] : List (Expr × Nat)) := by simp [kidsNodup]
  have s1 := kidCountFrom_simple (acc := []) hs e0
  have s2 := kidCountFrom_simple (acc := []) hs' e0
  have d1 := nodup_of_keys (kidCountFrom_nodup (acc := []) hs e0 n0)
  have sub := kidsSubset_subset s1 s2 hsub
  exact (List.subperm_of_subset d1 sub).perm_of_length_le (by simp only [kidCount] at hlen ⊢; omega)

/-- … hence the operand lists are permutations of each other -/
theorem perm_of_keyEq {o o' : NaryOp} {cs cs' : List Expr} (hs : Expr.simpleL cs = true)
    (hs' : Expr.simpleL cs' = true)
    (h : (CKey.comm o (kidCount cs)).eq (CKey.comm o' (kidCount cs')) = true) :
    o = o' ∧ cs.Perm cs' := by
  obtain ⟨ho, hperm⟩ := kidPerm_of_keyEq hs hs' h
  refine ⟨ho, ?_⟩
  have : (expandKids (kidCount cs)).Perm (expandKids (kidCount cs')) :=
    List.Perm.flatMap_right _ hperm
  exact (kidCount_perm hs).symm.trans (this.trans (kidCount_perm hs'))

/-- conversely: permuted operand lists have equal keys (so key equality is an equivalence on
simple sums / products) -/
theorem keyEq_of_perm_aux {cs cs' : List Expr} (hs : Expr.simpleL cs = true)
    (hp : (kidCount cs).Perm (kidCount cs')) (o : NaryOp) :
    (CKey.comm o (kidCount cs)).eq (CKey.comm o (kidCount cs')) = true := by
  have e0 : kidsSimple ([] : List (Expr × Nat)) := by intro p hp; simp at hp
  have s1 := kidCountFrom_simple (acc := []) hs e0
  simp only [CKey.eq, Bool.and_eq_true, beq_iff_eq, true_and]
  refine ⟨hp.length_eq, ?_⟩
  simp only [kidsSubset, List.all_eq_true, List.any_eq_true, Bool.and_eq_true, beq_iff_eq]
  intro p hp'
  exact ⟨p, hp.subset hp', pyEq_self_simple _ (s1 p hp'), rfl⟩

theorem simpleL_perm {cs cs' : List Expr} (hp : cs.Perm cs') (h : Expr.simpleL cs = true) :
    Expr.simpleL cs' = true := by
  induction hp with
  | nil => exact h
  | cons c _ ih =>
    simp only [Expr.simpleL, Bool.and_eq_true] at h ⊢; exact ⟨h.1, ih h.2⟩
  | swap c d l =>
    simp only [Expr.simpleL, Bool.and_eq_true] at h ⊢; exact ⟨h.2.1, h.1, h.2.2⟩
  | trans _ _ ih1 ih2 => exact ih2 (ih1 h)

theorem sizeL_perm {cs cs' : List Expr} (hp : cs.Perm cs') : Expr.sizeL cs = Expr.sizeL cs' := by
  induction hp with
  | nil => rfl
  | cons c _ ih => simp only [Expr.sizeL, ih]
  | swap c d l => simp only [Expr.sizeL]; omega
  | trans _ _ ih1 ih2 => exact ih1.trans ih2

/-! ### the converse: permuted operand lists have equal keys -/

theorem kidCountAdd_pos {c : Expr} : ∀ {acc : List (Expr × Nat)}, (∀ p ∈ acc, 0 < p.2) →
    ∀ p ∈ kidCountAdd c acc, 0 < p.2
  | [], _, p, hp => by simp [kidCountAdd] at hp; rw [hp]; exact Nat.one_pos
  | (k, n) :: rest, h, p, hp => by
    simp only [kidCountAdd] at hp
    split at hp
    · simp only [List.mem_cons] at hp
      rcases hp with rfl | hp
      · exact Nat.succ_pos _
      · exact h p (by simp [hp])
    · simp only [List.mem_cons] at hp
      rcases hp with rfl | hp
      · exact h (k, n) (by simp)
      · exact kidCountAdd_pos (fun q hq => h q (by simp [hq])) p hp

theorem kidCountFrom_pos : ∀ {cs : List Expr} {acc : List (Expr × Nat)}, (∀ p ∈ acc, 0 < p.2) →
    ∀ p ∈ kidCountFrom acc cs, 0 < p.2
  | [], _, h => h
  | c :: cs, acc, h => by
    show ∀ p ∈ kidCountFrom (kidCountAdd c acc) cs, 0 < p.2
    exact kidCountFrom_pos (kidCountAdd_pos h)

theorem kidCount_pos (cs : List Expr) : ∀ p ∈ kidCount cs, 0 < p.2 :=
  kidCountFrom_pos (acc := []) (by intro p hp; simp at hp)

open Classical in
/-- number of occurrences (classical equality) -/
noncomputable def occ (x : Expr) (l : List Expr) : Nat := (l.filter fun y => decide (y = x)).length

theorem occ_perm {x : Expr} {l l' : List Expr} (h : l.Perm l') : occ x l = occ x l' := by
  unfold occ; exact (h.filter _).length_eq

theorem occ_append (x : Expr) (a b : List Expr) : occ x (a ++ b) = occ x a + occ x b := by
  unfold occ; simp [List.filter_append]

theorem occ_replicate_self (x : Expr) (n : Nat) : occ x (List.replicate n x) = n := by
  unfold occ; simp

theorem occ_replicate_ne {x k : Expr} (h : k ≠ x) (n : Nat) : occ x (List.replicate n k) = 0 := by
  unfold occ; simp [h]

theorem occ_pos_mem {x : Expr} {l : List Expr} (h : 0 < occ x l) : x ∈ l := by
  unfold occ at h
  obtain ⟨y, hy⟩ := List.exists_mem_of_length_pos h
  have := List.mem_filter.mp hy
  simp only [decide_eq_true_eq] at this
  rw [← this.2]; exact this.1

theorem occ_expand_notin {x : Expr} : ∀ {kids : List (Expr × Nat)}, x ∉ kids.map Prod.fst →
    occ x (expandKids kids) = 0
  | [], _ => by simp [expandKids, occ]
  | (k, n) :: rest, h => by
    simp only [List.map_cons, List.mem_cons, not_or] at h
    have ih := occ_expand_notin (kids := rest) h.2
    simp only [expandKids, List.flatMap_cons] at ih ⊢
    rw [occ_append, occ_replicate_ne (Ne.symm h.1), ih]

theorem occ_expand_mem {x : Expr} {n : Nat} : ∀ {kids : List (Expr × Nat)}, kidsNodup kids →
    (x, n) ∈ kids → occ x (expandKids kids) = n
  | [], _, h => by simp at h
  | (k, m) :: rest, hn, h => by
    simp only [kidsNodup, List.map_cons, List.nodup_cons] at hn
    simp only [expandKids, List.flatMap_cons]
    rw [occ_append]
    simp only [List.mem_cons, Prod.mk.injEq] at h
    rcases h with ⟨rfl, rfl⟩ | h
    · have := occ_expand_notin (kids := rest) hn.1
      simp only [expandKids] at this
      rw [occ_replicate_self, this]; rfl
    · have hne : k ≠ x := by
        intro hk; subst hk
        exact hn.1 (List.mem_map.mpr ⟨(k, n), h, rfl⟩)
      have := occ_expand_mem (kids := rest) hn.2 h
      simp only [expandKids] at this
      rw [occ_replicate_ne hne, this]; simp

theorem mem_expand {x : Expr} {kids : List (Expr × Nat)} (h : x ∈ expandKids kids) :
    ∃ n, (x, n) ∈ kids := by
  simp only [expandKids, List.mem_flatMap] at h
  obtain ⟨p, hp, hx⟩ := h
  have := (List.mem_replicate.mp hx).2
  subst this
  exact ⟨p.2, hp⟩

theorem kidsSubset_of_expand_perm {a b : List (Expr × Nat)} (sa : kidsSimple a)
    (da : kidsNodup a) (db : kidsNodup b) (pa : ∀ p ∈ a, 0 < p.2)
    (h : (expandKids a).Perm (expandKids b)) : kidsSubset a b = true ∧ a ⊆ b := by
  have sub : a ⊆ b := by
    intro p hp
    have h1 : occ p.1 (expandKids a) = p.2 := occ_expand_mem da hp
    have h2 : occ p.1 (expandKids b) = p.2 := by rw [← occ_perm h]; exact h1
    have : p.1 ∈ expandKids b := occ_pos_mem (by rw [h2]; exact pa p hp)
    obtain ⟨n, hn⟩ := mem_expand this
    have h3 := occ_expand_mem db hn
    have : n = p.2 := by rw [← h3, h2]
    subst this; exact hn
  refine ⟨?_, sub⟩
  simp only [kidsSubset, List.all_eq_true, List.any_eq_true, Bool.and_eq_true, beq_iff_eq]
  intro p hp
  exact ⟨p, sub hp, pyEq_self_simple _ (sa p hp), rfl⟩

/-- sums / products of the same simple operands in another order have Python-equal keys -/
theorem keyEq_of_perm (o : NaryOp) {cs cs' : List Expr} (hs : Expr.simpleL cs = true)
    (hp : cs.Perm cs') :
    (CKey.comm o (kidCount cs)).eq (CKey.comm o (kidCount cs')) = true := by
  have hs' := simpleL_perm hp hs
  have e0 : kidsSimple ([] : List (Expr × Nat)) := by intro p hp; simp at hp
  have n0 : kidsNodup ([] : List (Expr × Nat)) := by simp [kidsNodup]
  have s1 := kidCountFrom_simple (acc := []) hs e0
  have s2 := kidCountFrom_simple (acc := []) hs' e0
  have d1 := kidCountFrom_nodup (acc := []) hs e0 n0
  have d2 := kidCountFrom_nodup (acc := []) hs' e0 n0
  have pp : (expandKids (kidCount cs)).Perm (expandKids (kidCount cs')) :=
    (kidCount_perm hs).trans (hp.trans (kidCount_perm hs').symm)
  obtain ⟨k1, sub1⟩ := kidsSubset_of_expand_perm s1 d1 d2 (kidCount_pos cs) pp
  obtain ⟨_, sub2⟩ := kidsSubset_of_expand_perm s2 d2 d1 (kidCount_pos cs') pp.symm
  have l1 := (List.subperm_of_subset (nodup_of_keys d1) sub1).length_le
  have l2 := (List.subperm_of_subset (nodup_of_keys d2) sub2).length_le
  simp only [CKey.eq, Bool.and_eq_true, beq_iff_eq, true_and]
  exact ⟨Nat.le_antisymm l1 l2, k1⟩

end PV
